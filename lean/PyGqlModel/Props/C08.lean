/-
  C08 — property theorems, part 1: the runtime algebra
  (`gather_futures` counter machine, `chain`/`else_`, `unwrap_future`, asyncio `gather_values` patching).
  Part 2 (executor level) is `Props/C08_exec.lean`.
-/
import PyGqlModel.AsyncExec

set_option linter.unusedVariables false
set_option linter.unusedSimpArgs false

namespace PyGql.Props.C08
open PyGql.Exec

/-! ### gather_futures -/

private theorem countSome_le {α} (l : List (Option α)) : countSome l ≤ l.length := by
  induction l with
  | nil => simp [countSome]
  | cons x r ih => cases x <;> simp [countSome] <;> omega

private theorem countSome_eq_length {α} (l : List (Option α)) :
    countSome l = l.length ↔ ∀ i : Nat, l[i]? ≠ some none := by
  induction l with
  | nil => simp [countSome]
  | cons x r ih =>
    cases x with
    | none =>
      simp only [countSome, List.length_cons]
      constructor
      · intro h; have := countSome_le r; omega
      · intro h; exact absurd (by simp) (h 0)
    | some a =>
      simp only [countSome, List.length_cons, Nat.add_right_cancel_iff, ih]
      constructor
      · intro h i; cases i with
        | zero => simp
        | succ j => simpa using h j
      · intro h i; simpa using h (i + 1)

private theorem countSome_set {α} (l : List (Option α)) (i : Nat) (d : α) (h : l[i]? = some none) :
    countSome (l.set i (some d)) = countSome l + 1 := by
  induction l generalizing i with
  | nil => simp at h
  | cons x r ih =>
    cases i with
    | zero => simp at h; subst h; simp [countSome]
    | succ j =>
      simp at h
      cases x <;> simp [countSome, ih j h]

/-- the aggregate in SOURCE order: plain entries keep their value, pending entry `i` gets `val i` -/
def fill {α} (val : Nat → α) : Nat → List (Slot α) → List α
  | _, [] => []
  | off, some (.ok v) :: r => v :: fill val (off + 1) r
  | off, _ :: r => val off :: fill val (off + 1) r

private theorem fill_set {α} (val : Nat → α) (l : List (Slot α)) (off i : Nat) (h : l[i]? = some none) :
    fill val off (l.set i (some (.ok (val (off + i))))) = fill val off l := by
  induction l generalizing i off with
  | nil => simp at h
  | cons x r ih =>
    cases i with
    | zero => simp at h; subst h; simp [fill]
    | succ j =>
      simp at h
      have := ih (off + 1) j h
      have e : off + 1 + j = off + (j + 1) := by omega
      rw [e] at this
      cases x with
      | none => simp [fill, this]
      | some y => cases y <;> simp [fill, this]

private theorem collect_all_ok {α} (val : Nat → α) (l : List (Slot α)) (off : Nat)
    (hsome : ∀ i : Nat, l[i]? ≠ some none) (hok : ∀ (i : Nat) (e : Exc), l[i]? ≠ some (some (Except.error e))) :
    collectSlots l = .setResult (fill val off l) := by
  induction l generalizing off with
  | nil => simp [collectSlots, fill]
  | cons x r ih =>
    have hs : ∀ i : Nat, r[i]? ≠ some none := fun i => by simpa using hsome (i + 1)
    have ho : ∀ (i : Nat) (e : Exc), r[i]? ≠ some (some (Except.error e)) := fun i e => by simpa using hok (i + 1) e
    cases x with
    | none => exact absurd (by simp) (hsome 0)
    | some y =>
      cases y with
      | error e => exact absurd (by simp) (hok 0 e)
      | ok v => simp [collectSlots, fill, ih (off + 1) hs ho]

/-- the bookkeeping invariant of `gather_futures` while `outer` is untouched -/
structure GInv {α} (s : GState α) : Prop where
  done_eq : s.done = countSome s.slots
  target_eq : s.target = s.slots.length
  outer_none : s.outer = none
  sets0 : s.sets = 0
  swallowed0 : s.swallowed = 0
  not_blocked : s.blocked = false
  no_exc : ∀ (i : Nat) (e : Exc), s.slots[i]? ≠ some (some (Except.error e))

def okComps {α} (val : Nat → α) (order : List Nat) : List (Nat × Except Exc α) :=
  order.map fun i => (i, .ok (val i))

private theorem run_ok {α} (val : Nat → α) (order : List Nat) :
    ∀ (s : GState α), GInv s → order.Nodup →
      (∀ i : Nat, s.slots[i]? = some none ↔ i ∈ order) → order ≠ [] →
      let f := s.run (okComps val order)
      f.outer = some (.ok (fill val 0 s.slots)) ∧ f.sets = 1 ∧ f.swallowed = 0 ∧ f.blocked = false ∧
      ∀ k, k < order.length → (s.run (okComps val (order.take k))).outer = none := by
  induction order with
  | nil => intro s _ _ _ h; exact absurd rfl h
  | cons i rest ih =>
    intro s inv nd hmem _
    have hi : s.slots[i]? = some none := (hmem i).2 (by simp)
    have hlt : i < s.slots.length := by
      rcases Nat.lt_or_ge i s.slots.length with h | h
      · exact h
      · simp [List.getElem?_eq_none h] at hi
    -- the state after `i` finished
    have hcs : countSome (s.slots.set i (some (.ok (val i)))) = countSome s.slots + 1 := countSome_set _ _ _ hi
    have hnoexc : ∀ (j : Nat) (e : Exc), (s.slots.set i (some (Except.ok (val i))))[j]? ≠ some (some (Except.error e)) := by
      intro j e
      by_cases hji : i = j
      · subst hji; simp [List.getElem?_set, hlt]
      · simp [List.getElem?_set, hji]; exact inv.no_exc j e
    have hfill : fill val 0 (s.slots.set i (some (.ok (val i)))) = fill val 0 s.slots := by
      have := fill_set val s.slots 0 i hi
      simpa using this
    by_cases hrest : rest = []
    · -- last completion: every slot is filled, `done == target`
      subst hrest
      have hall : ∀ j : Nat, (s.slots.set i (some (Except.ok (val i))))[j]? ≠ some none := by
        intro j
        by_cases hji : i = j
        · subst hji; simp [List.getElem?_set, hlt]
        · simp [List.getElem?_set, hji]
          intro hj
          have := (hmem j).1 hj
          simp at this; exact hji this.symm
      have hfull : countSome (s.slots.set i (some (Except.ok (val i)))) = (s.slots.set i (some (Except.ok (val i)))).length :=
        (countSome_eq_length _).2 hall
      have hdt : s.done + 1 = s.target := by
        rw [inv.done_eq, inv.target_eq, ← hcs, hfull]; simp
      have hcol := collect_all_ok val _ 0 hall hnoexc
      refine ⟨?_, ?_, ?_, ?_, ?_⟩
      · simp [okComps, GState.run, GState.finish, gatherOnFinish, hdt, hcol, inv.outer_none, hfill]
      · simp [okComps, GState.run, GState.finish, gatherOnFinish, hdt, hcol, inv.outer_none, inv.sets0]
      · simp [okComps, GState.run, GState.finish, gatherOnFinish, hdt, hcol, inv.outer_none, inv.swallowed0]
      · simp [okComps, GState.run, GState.finish, gatherOnFinish, hdt, hcol, inv.outer_none, inv.not_blocked]
      · intro k hk
        have : k = 0 := by simp at hk; exact hk
        subst this; simp [okComps, GState.run, inv.outer_none]
    · -- not the last one: some other slot is still pending
      obtain ⟨j, rest', hj⟩ := List.exists_cons_of_ne_nil hrest
      have hjmem : j ∈ rest := by rw [hj]; simp
      have hjne : i ≠ j := by
        intro h; subst h
        simp at nd; exact nd.1 hjmem
      have hjslot : (s.slots.set i (some (Except.ok (val i))))[j]? = some none := by
        simp [List.getElem?_set, hjne]; exact (hmem j).2 (by simp [hjmem])
      have hnotfull : countSome (s.slots.set i (some (Except.ok (val i)))) ≠ (s.slots.set i (some (Except.ok (val i)))).length := by
        intro h; exact ((countSome_eq_length _).1 h j) hjslot
      have hle := countSome_le (s.slots.set i (some (Except.ok (val i))))
      have hdt : ¬ (s.done + 1 = s.target) := by
        rw [inv.done_eq, inv.target_eq, ← hcs]
        simp at hnotfull hle ⊢; omega
      -- the next state satisfies the invariant
      have hstep : s.finish i (.ok (val i)) =
          { s with slots := s.slots.set i (some (.ok (val i))), done := s.done + 1 } := by
        simp [GState.finish, gatherOnFinish, hdt]
      have inv' : GInv (s.finish i (.ok (val i))) := by
        rw [hstep]
        exact ⟨by simp [inv.done_eq, hcs], by simp [inv.target_eq], inv.outer_none, inv.sets0, inv.swallowed0,
               inv.not_blocked, hnoexc⟩
      have nd' : rest.Nodup := by simp at nd; exact nd.2
      have hmem' : ∀ k : Nat, (s.finish i (.ok (val i))).slots[k]? = some none ↔ k ∈ rest := by
        intro k
        rw [hstep]
        by_cases hki : i = k
        · subst hki
          simp [List.getElem?_set, hlt]
          simp at nd; exact nd.1
        · simp [List.getElem?_set, hki]
          rw [hmem k]; simp; intro h; exact absurd h.symm hki
      have := ih (s.finish i (.ok (val i))) inv' nd' hmem' hrest
      have hslots : (s.finish i (.ok (val i))).slots = s.slots.set i (some (.ok (val i))) := by rw [hstep]
      obtain ⟨h1, h2, h3, h4, h5⟩ := this
      refine ⟨?_, ?_, ?_, ?_, ?_⟩
      · simpa [okComps, GState.run, hslots, hfill] using h1
      · simpa [okComps, GState.run] using h2
      · simpa [okComps, GState.run] using h3
      · simpa [okComps, GState.run] using h4
      · intro k hk
        cases k with
        | zero => simp [okComps, GState.run, inv.outer_none]
        | succ k' =>
          have := h5 k' (by simp at hk; omega)
          simpa [okComps, GState.run] using this

private theorem init_inv {α} (source : List (Slot α)) (h : ∀ (i : Nat) (e : Exc), source[i]? ≠ some (some (Except.error e))) :
    GInv (GState.init source) :=
  ⟨rfl, rfl, rfl, rfl, rfl, rfl, h⟩

/-- **gather_slots.** `gather_futures` over a source of plain values and pending futures: for EVERY
    order in which the pending entries complete (each exactly once, successfully), the aggregate Future
    is set exactly once (`sets = 1`, nothing swallowed, nothing blocks), at the LAST completion (it is
    still unset after every strict prefix), and its value lists the results in SOURCE order. -/
theorem gather_slots {α} (source : List (Slot α)) (val : Nat → α) (order : List Nat)
    (hplain : ∀ (i : Nat) (e : Exc), source[i]? ≠ some (some (Except.error e)))
    (hnodup : order.Nodup) (hall : ∀ i : Nat, source[i]? = some none ↔ i ∈ order) (hne : order ≠ []) :
    let f := (GState.init source).run (okComps val order)
    f.outer = some (.ok (fill val 0 source)) ∧ f.sets = 1 ∧ f.swallowed = 0 ∧ f.blocked = false ∧
    ∀ k, k < order.length → ((GState.init source).run (okComps val (order.take k))).outer = none :=
  run_ok val order (GState.init source) (init_inv source hplain) hnodup hall hne

/-- non-vacuity: three futures and a plain value, completion order 3,0,2 -/
example : ((GState.init [none, some (.ok 10), none, none]).run (okComps (fun i => 100 + i) [3, 0, 2])).outer
    = some (.ok [100, 10, 102, 103]) := by rfl

/-- **always_terminates_partial.** For the `gather_futures` machine: once every pending entry has
    completed (in any order, successfully), the aggregate is no longer pending and nothing blocked.
    (Partial: the lift to whole executor trees is `AlwaysTerminatesFull` in Props/C08_exec.lean, not proved.) -/
theorem always_terminates_partial {α} (source : List (Slot α)) (val : Nat → α) (order : List Nat)
    (hplain : ∀ (i : Nat) (e : Exc), source[i]? ≠ some (some (Except.error e)))
    (hnodup : order.Nodup) (hall : ∀ i : Nat, source[i]? = some none ↔ i ∈ order) (hne : order ≠ []) :
    (((GState.init source).run (okComps val order)).outer).isSome = true ∧
    ((GState.init source).run (okComps val order)).blocked = false := by
  obtain ⟨h1, _, _, h4, _⟩ := gather_slots source val order hplain hnodup hall hne
  exact ⟨by simp [h1], h4⟩

/-! #### first exception wins -/

private theorem finish_ok_inv {α} (s : GState α) (i j : Nat) (v : α) (inv : GInv s)
    (hi : s.slots[i]? = some none) (hj : s.slots[j]? = some none) (hij : i ≠ j) :
    GInv (s.finish i (.ok v)) ∧ (s.finish i (.ok v)).slots = s.slots.set i (some (.ok v)) := by
  have hlt : i < s.slots.length := by
    rcases Nat.lt_or_ge i s.slots.length with h | h
    · exact h
    · simp [List.getElem?_eq_none h] at hi
  have hcs : countSome (s.slots.set i (some (.ok v))) = countSome s.slots + 1 := countSome_set _ _ _ hi
  have hnoexc : ∀ (k : Nat) (e : Exc), (s.slots.set i (some (Except.ok v)))[k]? ≠ some (some (Except.error e)) := by
    intro k e
    by_cases hki : i = k
    · subst hki; simp [List.getElem?_set, hlt]
    · simp [List.getElem?_set, hki]; exact inv.no_exc k e
  have hjslot : (s.slots.set i (some (Except.ok v)))[j]? = some none := by
    simp [List.getElem?_set, hij]; exact hj
  have hnotfull : countSome (s.slots.set i (some (Except.ok v))) ≠ (s.slots.set i (some (Except.ok v))).length := by
    intro h; exact ((countSome_eq_length _).1 h j) hjslot
  have hle := countSome_le (s.slots.set i (some (Except.ok v)))
  have hdt : ¬ (s.done + 1 = s.target) := by
    rw [inv.done_eq, inv.target_eq, ← hcs]
    simp at hnotfull hle ⊢; omega
  have hstep : s.finish i (.ok v) = { s with slots := s.slots.set i (some (.ok v)), done := s.done + 1 } := by
    simp [GState.finish, gatherOnFinish, hdt]
  rw [hstep]
  exact ⟨⟨by simp [inv.done_eq, hcs], by simp [inv.target_eq], inv.outer_none, inv.sets0, inv.swallowed0,
         inv.not_blocked, hnoexc⟩, rfl⟩

private theorem run_pre_inv {α} (pre : List (Nat × α)) :
    ∀ (s : GState α) (j : Nat), GInv s → (pre.map (·.1)).Nodup → (∀ c ∈ pre, s.slots[c.1]? = some none) →
      s.slots[j]? = some none → j ∉ pre.map (·.1) →
      GInv (s.run (pre.map fun c => (c.1, .ok c.2))) ∧ (s.run (pre.map fun c => (c.1, .ok c.2))).slots[j]? = some none := by
  induction pre with
  | nil => intro s j inv _ _ hj _; exact ⟨inv, hj⟩
  | cons c rest ih =>
    intro s j inv nd hp hj hnot
    have hcj : c.1 ≠ j := by intro h; apply hnot; simp [h]
    obtain ⟨inv', hslots⟩ := finish_ok_inv s c.1 j c.2 inv (hp c (by simp)) hj hcj
    have nd' : (rest.map (·.1)).Nodup := by simp at nd; exact nd.2
    have hp' : ∀ d ∈ rest, (s.finish c.1 (.ok c.2)).slots[d.1]? = some none := by
      intro d hd
      rw [hslots]
      have hne : c.1 ≠ d.1 := by
        intro h
        simp at nd
        have hd' : (c.1, d.2) ∈ rest := by rw [h]; exact hd
        exact nd.1 d.2 hd'
      simp [List.getElem?_set, hne]; exact hp d (by simp [hd])
    have hj' : (s.finish c.1 (.ok c.2)).slots[j]? = some none := by
      rw [hslots]; simp [List.getElem?_set, hcj]; exact hj
    have hnot' : j ∉ rest.map (·.1) := by intro h; apply hnot; simp at h ⊢; right; exact h
    simpa [GState.run] using ih (s.finish c.1 (.ok c.2)) j inv' nd' hp' hj' hnot'

private theorem finish_outer_some {α} (s : GState α) (i : Nat) (d : Except Exc α) (x : Except Exc (List α))
    (h : s.outer = some x) : (s.finish i d).outer = some x ∧ (s.finish i d).sets = s.sets := by
  unfold GState.finish
  simp only
  split <;> simp_all

private theorem run_outer_some {α} (post : List (Nat × Except Exc α)) :
    ∀ (s : GState α) (x : Except Exc (List α)), s.outer = some x →
      (s.run post).outer = some x ∧ (s.run post).sets = s.sets := by
  induction post with
  | nil => intro s x h; exact ⟨h, rfl⟩
  | cons c rest ih =>
    intro s x h
    obtain ⟨h1, h2⟩ := finish_outer_some s c.1 c.2 x h
    obtain ⟨h3, h4⟩ := ih (s.finish c.1 c.2) x h1
    exact ⟨by simpa [GState.run] using h3, by simpa [GState.run, h2] using h4⟩

/-- **gather_first_exception.** If the completions `pre` succeed, then entry `j` fails with `e`, then anything
    (`post`: successes, failures, in any order) happens, the aggregate Future holds exactly the FIRST
    exception `e`, was set exactly once, and no later completion changes it. -/
theorem gather_first_exception {α} (source : List (Slot α)) (pre : List (Nat × α)) (j : Nat) (e : Exc)
    (post : List (Nat × Except Exc α))
    (hplain : ∀ (i : Nat) (e : Exc), source[i]? ≠ some (some (Except.error e)))
    (hnodup : (pre.map (·.1)).Nodup) (hpre : ∀ c ∈ pre, source[c.1]? = some none)
    (hj : source[j]? = some none) (hjnot : j ∉ pre.map (·.1)) :
    let f := (GState.init source).run ((pre.map fun c => (c.1, .ok c.2)) ++ (j, .error e) :: post)
    f.outer = some (.error e) ∧ f.sets = 1 := by
  obtain ⟨inv, hjs⟩ := run_pre_inv pre (GState.init source) j (init_inv source hplain) hnodup hpre hj hjnot
  have hrun : ∀ (l1 l2 : List (Nat × Except Exc α)) (s : GState α), s.run (l1 ++ l2) = (s.run l1).run l2 := by
    intro l1; induction l1 with
    | nil => intro l2 s; rfl
    | cons c r ih => intro l2 s; simp [GState.run, ih]
  generalize hs1 : (GState.init source).run (pre.map fun c => (c.1, .ok c.2)) = s1 at inv hjs
  have hfin : (s1.finish j (.error e)).outer = some (.error e) ∧ (s1.finish j (.error e)).sets = 1 := by
    simp [GState.finish, gatherOnFinish, inv.outer_none, inv.sets0]
  obtain ⟨h1, h2⟩ := run_outer_some post (s1.finish j (.error e)) (.error e) hfin.1
  simp only [hrun, GState.run, hs1]
  exact ⟨h1, by rw [h2, hfin.2]⟩

/-- non-vacuity: 0 succeeds, 2 fails with `boom`, then 1 fails with `runtime`, 3 succeeds -/
example : ((GState.init ([none, none, none, none] : List (Slot Nat))).run
      [(0, .ok 5), (2, .error .boom), (1, .error .runtime), (3, .ok 7)]).outer = some (.error .boom) := by rfl

/-! ### chain / else_ -/

/-- **chain_else.** `chain(source, then, else_=(ResolverError, fail))`: a source that fails with a
    `ResolverError` makes the target SUCCEED with the handler's result (`null`, error recorded at the
    field's path); any other exception is propagated to the target unchanged; callbacks without `else_`
    propagate every exception; on a plain (non-Future) source `then` runs immediately. -/
theorem chain_else (path : Path) (s : ExecSt) :
    chainOnFinish applyCont (.failed .resolver) (.complete path) s
        = (.done (.val (.data .null)), s.addError path .resolver)
    ∧ (∀ e, e ≠ Exc.resolver → chainOnFinish applyCont (.failed e) (.complete path) s = (.failed e, s))
    ∧ (∀ e keys, chainOnFinish applyCont (.failed e) (.collect keys) s = (.failed e, s))
    ∧ (∀ e p, chainOnFinish applyCont (.failed e) (.nonNull p) s = (.failed e, s))
    ∧ (∀ e, chainOnFinish applyCont (.failed e) .onFinish s = (.failed e, s))
    ∧ (∀ e p k r a, chainOnFinish applyCont (.failed e) (.serialCb p k r a) s = (.failed e, s))
    ∧ (∀ x k, mapValue applyCont (.val x) k s = applyCont k (.ok x) s) := by
  refine ⟨rfl, ?_, ?_, ?_, ?_, ?_, ?_⟩
  · intro e he; cases e <;> simp_all [chainOnFinish, applyCont, applySimple]
  · intro e keys; cases e <;> rfl
  · intro e p; cases e <;> rfl
  · intro e; cases e <;> rfl
  · intro e p k r a; cases e <;> rfl
  · intro x k; rfl

/-! ### unwrap_future -/

/-- a Future whose result is a Future whose result is … (`n` levels) … `r` -/
def nest : Nat → Node → Node
  | 0, r => r
  | n + 1, r => .done (nest n r)

/-- **unwrap_flattens.** `unwrap_future` of an `n+1`-fold nested finished Future yields the innermost
    plain value; an exception at any depth is the outcome; and if the innermost Future is still
    pending the outer Future stays pending on exactly that one. -/
theorem unwrap_flattens (n : Nat) (x : Val) : unwrapCb (nest (n + 1) (.val x)) = .done (.val x) := by
  induction n with
  | zero => simp [nest, unwrapCb]
  | succ n ih =>
    have : nest (n + 1 + 1) (.val x) = .done (nest (n + 1) (.val x)) := rfl
    rw [this]
    have h2 : nest (n + 1) (.val x) = .done (nest n (.val x)) := rfl
    rw [h2] at ih ⊢
    simpa [unwrapCb] using ih

theorem unwrap_exception (n : Nat) (e : Exc) : unwrapCb (nest n (.failed e)) = .failed e := by
  induction n with
  | zero => simp [nest, unwrapCb]
  | succ n ih =>
    have : nest (n + 1) (.failed e) = .done (nest n (.failed e)) := rfl
    rw [this]
    cases n with
    | zero => simp [nest, unwrapCb]
    | succ m =>
      have h2 : nest (m + 1) (.failed e) = .done (nest m (.failed e)) := rfl
      rw [h2] at ih ⊢
      simpa [unwrapCb] using ih

theorem unwrap_waits (n : Nat) (p : Node) (hp : p.isPending = true) : unwrapCb (nest n p) = .unwrap p := by
  induction n with
  | zero => cases p <;> simp_all [nest, unwrapCb, Node.isPending, Node.finished]
  | succ n ih =>
    have : nest (n + 1) p = .done (nest n p) := rfl
    rw [this]
    cases n with
    | zero => cases p <;> simp_all [nest, unwrapCb, Node.isPending, Node.finished]
    | succ m =>
      have h2 : nest (m + 1) p = .done (nest m p) := rfl
      rw [h2] at ih ⊢
      simpa [unwrapCb] using ih

/-! ### asyncio gather_values: pending-index patching -/

private theorem patch_aux {α β γ : Type} (isAw : α → Option β) (plain : α → γ) (res : β → γ) (vs : List α) :
    ∀ (pre : List γ),
      patch (pre ++ vs.map plain) (pendingIdx isAw vs pre.length) ((pendingOf isAw vs).map res)
        = pre ++ vs.map (fun v => match isAw v with | some a => res a | none => plain v) := by
  induction vs with
  | nil => intro pre; simp [pendingIdx, pendingOf, patch]
  | cons v r ih =>
    intro pre
    cases h : isAw v with
    | none =>
      have := ih (pre ++ [plain v])
      simp only [List.length_append, List.length_cons, List.length_nil, List.append_assoc, List.cons_append,
        List.nil_append] at this
      simp only [pendingIdx, pendingOf, h, List.map_cons]
      simpa using this
    | some a =>
      have := ih (pre ++ [res a])
      simp only [List.length_append, List.length_cons, List.length_nil, List.append_assoc, List.cons_append,
        List.nil_append] at this
      simp only [pendingIdx, pendingOf, h, List.map_cons, patch]
      have hset : (pre ++ plain v :: r.map plain).set pre.length (res a) = pre ++ res a :: r.map plain := by
        simp [List.set_append]
      rw [hset]
      simpa using this

/-- **gather_values_patch.** asyncio `gather_values`: once `asyncio.gather` has returned the results of the
    awaitables (in the order they were collected), patching them in at `pending_idx` gives the results of
    ALL values in SOURCE order. -/
theorem gather_values_patch {α β γ : Type} (isAw : α → Option β) (plain : α → γ) (res : β → γ) (values : List α) :
    gatherValuesPatched isAw plain values ((pendingOf isAw values).map res)
      = values.map (fun v => match isAw v with | some a => res a | none => plain v) := by
  simpa [gatherValuesPatched] using patch_aux isAw plain res values []

end PyGql.Props.C08

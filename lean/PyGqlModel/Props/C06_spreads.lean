/-
  C06 - property theorems, part 10: `PossibleFragmentSpreadsChecker` (5.5.2.3): type-dependent AND raising
  SkipNode; through the generic context walk with the stacks of `TypeInfoVisitor` as context, projected to the
  static views of the specification with `gnDoc_map`.
-/
import PyGqlModel.Props.C06_ctx
import PyGqlModel.Lemmas.ValidateTyped
import PyGqlModel.Lemmas.ValidateCtxMap
namespace PyGql.Props.C06
open PyGql PyGql.Validate PyGql.Validate.Spec

def badSpreadV (s : SchemaD) (fx : Fixes) (P : AL String) : Node → View → Bool
  | .spread name _, v =>
    match AL.get? P name, spreadParent fx v with
    | some ft, some p => isComposite s ft && isComposite s p && !typesOverlap s ft p
    | _, _ => false
  | .inline _ _, v =>
    match v.type, v.parent with
    | some (.named t), some p => isComposite s t && isComposite s p && !typesOverlap s t p
    | _, _ => false
  | _, _ => false

/-- what the rule does on entering a node below the document -/
theorem pfs_enter (s : SchemaD) (fx : Fixes) (n : Node) (ti : TI) (rs : RS) (hn : n.isDoc = false) :
    enterRule s fx .possibleFragmentSpreads n ti rs =
      if badSpreadV s fx rs.pfsTypes n ti.view then (rs.err .possibleFragmentSpreads, true) else (rs, false) := by
  cases n with
  | document d => simp [Node.isDoc] at hn
  | spread name dirs =>
    cases ha : AL.get? rs.pfsTypes name with
    | none => simp [enterRule, badSpreadV, ha]
    | some ft =>
      cases hv : fx.v10 with
      | true =>
        cases hp : ti.parentType with
        | none => simp [enterRule, badSpreadV, spreadParent, TI.view, ha, hv, hp]
        | some p =>
          simp only [enterRule, badSpreadV, spreadParent, TI.view, ha, hv, hp, ↓reduceIte]
      | false =>
        cases ht : ti.type with
        | none => simp [enterRule, badSpreadV, spreadParent, TI.view, ha, hv, ht]
        | some ty =>
          cases ty with
          | named p => simp only [enterRule, badSpreadV, spreadParent, TI.view, ha, hv, ht, Bool.false_eq_true, ↓reduceIte]
          | list _ => simp [enterRule, badSpreadV, spreadParent, TI.view, ha, hv, ht]
          | nonNull _ => simp [enterRule, badSpreadV, spreadParent, TI.view, ha, hv, ht]
  | inline on dirs =>
    cases ht : ti.type with
    | none => simp [enterRule, badSpreadV, TI.view, ht]
    | some ty =>
      cases ty with
      | named tn =>
        cases hp : ti.parentType with
        | none => simp [enterRule, badSpreadV, TI.view, ht, hp]
        | some p => simp only [enterRule, badSpreadV, TI.view, ht, hp]
      | list _ => simp [enterRule, badSpreadV, TI.view, ht]
      | nonNull _ => simp [enterRule, badSpreadV, TI.view, ht]
  | _ => simp [enterRule, badSpreadV]

private theorem pfsLeave (s : SchemaD) (fx : Fixes) : ∀ n ti rs, leaveRule s fx .possibleFragmentSpreads n ti rs = rs :=
  leaveRule_id s fx .possibleFragmentSpreads (by decide)

def ctxSpreads (s : SchemaD) (fx : Fixes) (P : AL String) : CTX ⟨s, fx, [.possibleFragmentSpreads]⟩ TI where
  ctx st := st.ti
  down := tiEnter s
  up := tiLeave
  J t := t.directive = none
  Inv st := st.rs.pfsTypes = P
  bad n t := badSpreadV s fx P n t.view
  qskip _ _ := false
  qskipE _ _ _ _ h := by cases h
  qskip_fine _ _ h := by cases h
  qskip_ctx _ _ h := by cases h
  qskip_only _ _ h := by cases h
  qskip_sub _ _ h := by cases h
  F _ _ := 0
  G _ _ := 0
  restore n x h := tiLeave_tiEnter s n x (fun d e => h (by rw [e]; rfl))
  keepJ n x hn hj := by
    rw [directive_tiEnter s n x (fun d e => by rw [e] at hn; cases hn)]; exact hj
  enter_ctx n st := by rw [enter_single]
  leave_ctx n st := by rw [leave_single]
  enterI n st hn hi := by
    rw [enter_single, pfs_enter s fx n _ _ hn]
    split <;> exact hi
  leaveI n st _ hi := by rw [leave_single, pfsLeave]; exact hi
  skipE n st hn hi hb := by
    have h2 : (enter ⟨s, fx, [.possibleFragmentSpreads]⟩ n st).2 = true := by
      rw [enter_single, pfs_enter s fx n _ _ hn]; simp only [hi, hb, ↓reduceIte]
    refine ⟨h2, ?_⟩
    rw [leaveSkipped_enter_single s fx _ n st h2, pfs_enter s fx n _ _ hn]
    simp only [hi, hb, ↓reduceIte, E, RS.err, List.length_cons]
    exact Nat.lt_succ_self _
  skipI n st hn hi hb := by
    rcases hb with hb | hb
    · have h2 : (enter ⟨s, fx, [.possibleFragmentSpreads]⟩ n st).2 = true := by
        rw [enter_single, pfs_enter s fx n _ _ hn]; simp only [hi, hb, ↓reduceIte]
      rw [leaveSkipped_enter_single s fx _ n st h2, pfs_enter s fx n _ _ hn]
      simp only [hi, hb, ↓reduceIte, RS.err]
    · cases hb
  skip_ctx n st hn hi hb := by
    rcases hb with hb | hb
    · have h2 : (enter ⟨s, fx, [.possibleFragmentSpreads]⟩ n st).2 = true := by
        rw [enter_single, pfs_enter s fx n _ _ hn]; simp only [hi, hb, ↓reduceIte]
      rw [leaveSkipped_enter_single s fx _ n st h2]
    · cases hb
  noskip n st hn hi hb _ := by
    rw [enter_single, pfs_enter s fx n _ _ hn]
    simp only [hi, hb, Bool.false_eq_true, ↓reduceIte]
  enterE n st hn hi hb _ := by
    rw [enter_single, pfs_enter s fx n _ _ hn]
    simp only [hi, hb, Bool.false_eq_true, ↓reduceIte, E, Nat.add_zero]
  leaveE n st _ _ := by rw [leave_single, pfsLeave]; rfl

/-- **5.5.2.3 Fragment spread is possible** -/
theorem rule_possible_fragment_spreads_iff (s : SchemaD) (fx : Fixes) (d : Doc) :
    Silent s fx .possibleFragmentSpreads d ↔ Spec.possibleFragmentSpreads s fx d := by
  have he : enter ⟨s, fx, [.possibleFragmentSpreads]⟩ (.document d) {} =
      (({ ti := {}, rs := { ({} : RS) with pfsTypes := fragTypes s d } } : St), false) := by
    rw [enter_single]; simp [enterRule, tiEnter, fragTypes]
  rw [silent_iff_ctx s fx .possibleFragmentSpreads (ctxSpreads s fx (fragTypes s d)) d _ he rfl rfl rfl
    (by intro st; rw [leave_single, pfsLeave]; rfl)]
  unfold Spec.possibleFragmentSpreads viewNodes
  show (∀ p ∈ gnDoc (tiEnter s) ({} : TI) d, okP (ctxSpreads s fx (fragTypes s d)) p) ↔ _
  have hmap := fun P => forall_gnDoc_map TI.view (tiEnter s) (View.enter s) (view_enter s) d ({} : TI) P
  rw [view_empty] at hmap
  rw [hmap]
  refine forall_congr' fun p => forall_congr' fun _ => ?_
  obtain ⟨n, t⟩ := p
  simp only [okP, ctxSpreads, and_true]
  cases n with
  | spread name dirs =>
    simp only [badSpreadV, Node.spread.injEq, reduceCtorEq, false_implies, implies_true, and_true]
    constructor
    · intro h nm ds e ft p hft hp c1 c2
      obtain ⟨rfl, rfl⟩ := e
      rw [hft, hp] at h
      simp only [c1, c2, Bool.true_and, Bool.not_eq_eq_eq_not, Bool.not_false] at h
      exact h
    · intro h
      cases hft : AL.get? (fragTypes s d) name with
      | none => rfl
      | some ft =>
        cases hp : spreadParent fx t.view with
        | none => rfl
        | some p =>
          simp only
          cases c1 : isComposite s ft <;> cases c2 : isComposite s p <;> simp
          exact h name dirs ⟨rfl, rfl⟩ ft p hft hp c1 c2
  | inline on dirs =>
    simp only [badSpreadV, Node.inline.injEq, reduceCtorEq, false_implies, implies_true, true_and]
    constructor
    · intro h o ds e ty p hty hp c1 c2
      rw [hty, hp] at h
      simp only [c1, c2, Bool.true_and, Bool.not_eq_eq_eq_not, Bool.not_false] at h
      exact h
    · intro h
      cases hty : t.view.type with
      | none => rfl
      | some ty =>
        cases ty with
        | named tn =>
          cases hp : t.view.parent with
          | none => rfl
          | some p =>
            simp only
            cases c1 : isComposite s tn <;> cases c2 : isComposite s p <;> simp
            exact h on dirs ⟨rfl, rfl⟩ tn p hty hp c1 c2
        | list _ => rfl
        | nonNull _ => rfl
  | _ => simp [badSpreadV]

end PyGql.Props.C06

/-
  C05 (execution half) — validated operations cannot go wrong: theorems against the declarative `ValidDoc`
  (`PyGqlModel/Spec/ValidDoc.lean`).
-/
import PyGqlModel.Exec
import PyGqlModel.Spec.ValidDoc
import PyGqlModel.Lemmas.C04Raise

set_option linter.unusedSimpArgs false
set_option linter.unusedVariables false

namespace PyGql.Props.C05
open PyGql PyGql.Exec PyGql.Spec PyGql.Lemmas.C04Raise

/-! ## `collect_fields` never raises on validated selections -/

private theorem applies_ok (s : SchemaD) (obj c : String) (h : isComposite s c = true) :
    ∃ b, fragmentTypeApplies s obj (some c) = .ok b := by
  unfold isComposite at h
  cases hk : kindOf s c with
  | none => simp [hk] at h
  | some k => exact ⟨(c == obj || (isAbstract s c && isPossibleType s c obj)), by simp [fragmentTypeApplies, hk]⟩

/-- no internal error other than the (converted, see `Exec.executeFields`) `CoercionError` of a directive condition -/
def NoInternal {α} (r : R α) : Prop := ∀ cls, r = .error (.internal cls) → cls = "CoercionError"

private theorem fragment_ok (s : SchemaD) (doc : Doc) (vars : Vars) (hf : fragsOk s doc vars = true) (name : String) (fr : Frag)
    (h : doc.fragment? name = some fr) : isComposite s fr.on = true ∧ selsOk s doc vars fr.on fr.sels = true := by
  unfold Doc.fragment? at h
  have hm := List.mem_of_find?_eq_some h
  simp at hm
  unfold fragsOk at hf
  rw [List.all_eq_true] at hf
  simpa using hf fr hm

private theorem skipErr {α} {vars : Vars} {dirs : List Dir} {e : Fail} {cls : String} (hb : skipSelection vars dirs = .error e)
    (h : (Except.error e : R α) = .error (.internal cls)) : cls = "CoercionError" := by
  have := skipSelection_err _ _ _ hb
  subst this
  simp at h
  exact h.symm

private theorem collectStep_no_internal (s : SchemaD) (doc : Doc) (vars : Vars) (hf : fragsOk s doc vars = true)
    (rec : String → List Sel → List String → R (Grouped × List String))
    (hrec : ∀ obj T sels seen, selsOk s doc vars T sels = true → NoInternal (rec obj sels seen))
    (obj : String) : ∀ (sels : List Sel) (T : String) (seen : List String) (g : Grouped),
      selsOk s doc vars T sels = true → NoInternal (collectStep s doc vars rec obj sels seen g) := by
  intro sels
  induction sels with
  | nil => intro T seen g _ cls h; simp [collectStep] at h
  | cons sel rest ih =>
    intro T seen g hok
    simp only [selsOk, Bool.and_eq_true] at hok
    obtain ⟨hsel, hrest⟩ := hok
    cases sel with
    | field key name loc dirs args hs sub =>
      simp only [selOk, Bool.and_eq_true] at hsel
      rcases hb : skipSelection vars dirs with e | b
      · intro cls h
        simp only [collectStep, hb, bind, Except.bind] at h
        exact skipErr hb h
      simp only [collectStep, hb, bind, Except.bind]
      cases b with
      | true => simpa using ih T seen g hrest
      | false => simpa using ih T seen _ hrest
    | inline on dirs sub =>
      simp only [selOk, Bool.and_eq_true] at hsel
      rcases hb : skipSelection vars dirs with e | b
      · intro cls h
        simp only [collectStep, hb, bind, Except.bind, pure, Except.pure] at h
        exact skipErr hb h
      simp only [collectStep, hb, bind, Except.bind, pure, Except.pure]
      cases b with
      | true => simpa using ih T seen g hrest
      | false =>
        simp only [Bool.false_eq_true, if_false]
        have hsub : ∃ T', selsOk s doc vars T' sub = true ∧ ∃ a, fragmentTypeApplies s obj on = .ok a := by
          cases on with
          | none => exact ⟨T, by simpa using hsel.2, true, rfl⟩
          | some c =>
            have h2 := hsel.2
            simp only [Bool.and_eq_true] at h2
            exact ⟨c, h2.2, applies_ok s obj c h2.1⟩
        obtain ⟨T', hT', a, ha⟩ := hsub
        simp only [ha]
        cases a with
        | false => simpa using ih T seen g hrest
        | true =>
          simp only [Bool.not_true, Bool.false_eq_true, if_false]
          cases hr : rec obj sub seen with
          | error e =>
            intro cls h
            simp at h
            exact hrec obj T' sub seen hT' cls (by rw [hr, h])
          | ok p => simpa using ih T _ _ hrest
    | spread name dirs =>
      simp only [selOk, Bool.and_eq_true] at hsel
      cases hfr : doc.fragment? name with
      | none => simp [hfr] at hsel
      | some fr =>
        obtain ⟨hcomp, hbody⟩ := fragment_ok s doc vars hf name fr hfr
        rcases hb : skipSelection vars dirs with e | b
        · intro cls h
          simp only [collectStep, hfr, hb, bind, Except.bind, pure, Except.pure] at h
          exact skipErr hb h
        simp only [collectStep, hfr, hb, bind, Except.bind, pure, Except.pure]
        cases b with
        | true => simpa using ih T seen g hrest
        | false =>
          simp only [Bool.false_eq_true, if_false]
          by_cases hseen : seen.contains name
          · simp only [hseen, if_true]; simpa using ih T seen g hrest
          · simp only [hseen, Bool.false_eq_true, if_false]
            obtain ⟨a, ha⟩ := applies_ok s obj fr.on hcomp
            simp only [ha]
            cases a with
            | false => simpa using ih T seen g hrest
            | true =>
              simp only [Bool.not_true, Bool.false_eq_true, if_false]
              cases hr : rec obj fr.sels seen with
              | error e =>
                intro cls h
                simp at h
                exact hrec obj fr.on fr.sels seen hbody cls (by rw [hr, h])
              | ok p => simpa using ih T _ _ hrest

/-- **validated_no_internal_error** (collection): on a document whose fragment definitions are well-typed, collecting
    any well-typed selection set for ANY runtime object type, any `_seen_fragments` set and ANY fuel never takes the
    `KeyError` branch of `fragments[name]` nor the `UnknownType` branch of `get_type_from_literal` (the crash sites
    behind finding V1 once validation lets a document through). The one remaining failure is the `CoercionError` of
    `_skip_selection` on a condition that is not a Boolean at run time (`@skip(if: [true])`, a nullable variable with a
    default bound to `null`): validation cannot exclude it, and since 4e87d3d `ResolutionContext.collect_fields`
    converts it into a field error (`Exec.catchDirective`, `Lemmas.C04Raise.executeFields_raised`). -/
theorem collect_no_internal_error (s : SchemaD) (doc : Doc) (vars : Vars) (hf : fragsOk s doc vars = true) :
    ∀ (fuel : Nat) (obj T : String) (sels : List Sel) (seen : List String), selsOk s doc vars T sels = true →
      NoInternal (collectFields s doc vars fuel obj sels seen) := by
  intro fuel
  induction fuel with
  | zero => intro obj T sels seen _ cls h; simp [collectFields] at h
  | succ n ih =>
    intro obj T sels seen hok
    simp only [collectFields]
    exact collectStep_no_internal s doc vars hf _ (fun obj T sels seen h => ih obj T sels seen h) obj sels T seen [] hok

/-! ## shape of completed values -/

/-- the shape a response value must have for a schema type: lists where list types are declared, objects exactly
    at composite types, leaves at scalar/enum types (null anywhere: nullability is `C04`'s null/error statement) -/
def shapeOk (s : SchemaD) : Ty → Data → Bool
  | .nonNull t, d => shapeOk s t d
  | .list _, .null => true
  | .list t, .list ds => ds.all (shapeOk s t)
  | .list _, _ => false
  | .named _, .null => true
  | .named n, .leaf _ => (match kindOf s n with | some .scalar | some .enum => true | _ => false)
  | .named n, .obj _ => isComposite s n
  | .named _, .list _ => false

def IsObj : Data → Prop
  | .obj _ => True
  | _ => False

private theorem completeList_shape (s : SchemaD) (t : Ty) (f : Path → RVal → R (Data × List Err))
    (hf : ∀ p v d es, f p v = .ok (d, es) → shapeOk s t d = true) (path : Path) :
    ∀ (vs : List RVal) (i : Nat) (ds : List Data) (es : List Err), completeList f path i vs = .ok (ds, es) → ds.all (shapeOk s t) = true := by
  intro vs
  induction vs with
  | nil => intro i ds es h; simp [completeList] at h; simp [h.1]
  | cons v rest ih =>
    intro i ds es h
    simp only [completeList, bind, Except.bind, pure, Except.pure] at h
    cases h1 : f (path ++ [Seg.idx i]) v with
    | error e => simp [h1] at h
    | ok p1 =>
      obtain ⟨d1, e1⟩ := p1
      simp only [h1] at h
      cases h2 : completeList f path (i + 1) rest with
      | error e => simp [h2] at h
      | ok p2 =>
        obtain ⟨ds2, e2⟩ := p2
        simp [h2] at h
        obtain ⟨rfl, rfl⟩ := h
        simp [hf _ _ _ _ h1, ih _ _ _ h2]

/-- **validated_shape** (one level, hence every level): whenever `complete_value` returns, the value has the shape of
    the field's declared type — a list exactly where a list type is declared (items recursively), an object exactly
    at object/interface/union types (provided by the recursive `execute_fields`, which always builds an object),
    a leaf at scalar/enum types — or `null`. No hypothesis on the document or the world is needed: ill-shaped
    resolver values end in an internal error, never in ill-shaped data. -/
theorem validated_shape (s : SchemaD) (execSub : String → Path → List Sel → R (Data × List Err))
    (hsub : ∀ rt p sels d es, execSub rt p sels = .ok (d, es) → IsObj d) (nodes : List FNode) :
    ∀ (t : Ty) (path : Path) (v : RVal) (d : Data) (es : List Err),
      completeValue s execSub nodes t path v = .ok (d, es) → shapeOk s t d = true := by
  intro t
  induction t with
  | nonNull t ih =>
    intro path v d es h
    simp only [completeValue, bind, Except.bind, pure, Except.pure] at h
    cases h1 : completeValue s execSub nodes t path v with
    | error e => simp [h1] at h
    | ok p =>
      obtain ⟨d1, e1⟩ := p
      simp only [h1] at h
      have := ih _ _ _ _ h1
      split at h <;> (simp at h; obtain ⟨rfl, _⟩ := h; simpa [shapeOk] using this)
  | list t ih =>
    intro path v d es h
    cases v with
    | null => simp [completeValue] at h; obtain ⟨rfl, rfl⟩ := h; simp [shapeOk]
    | leaf j => cases j <;> simp [completeValue] at h
    | obj rt => simp [completeValue] at h
    | raise vs msg ext =>
      simp only [completeValue] at h
      cases h1 : completeList (completeValue s execSub nodes t) path 0 vs with
      | error e => simp [h1] at h
      | ok p => simp [h1] at h
    | list vs =>
      simp only [completeValue, bind, Except.bind, pure, Except.pure] at h
      cases h1 : completeList (completeValue s execSub nodes t) path 0 vs with
      | error e => simp [h1] at h
      | ok p =>
        obtain ⟨ds, e1⟩ := p
        simp [h1] at h
        obtain ⟨rfl, _⟩ := h
        simpa [shapeOk] using completeList_shape s t _ (fun p v d es hh => ih p v d es hh) path vs 0 ds e1 h1
  | named n =>
    intro path v d es h
    have objShape : ∀ rt sels, isComposite s n = true → execSub rt path sels = .ok (d, es) → shapeOk s (.named n) d = true := by
      intro rt sels hc hh
      have := hsub _ _ _ _ _ hh
      cases d <;> simp [IsObj] at this
      simp [shapeOk, hc]
    cases v with
    | null => simp [completeValue] at h; obtain ⟨rfl, rfl⟩ := h; simp [shapeOk]
    | leaf j =>
      simp only [completeValue] at h
      cases hk : kindOf s n with
      | none => simp [hk] at h
      | some k =>
        cases k with
        | input => simp [hk] at h
        | object => simp only [hk] at h; exact objShape _ _ (by simp [isComposite, hk]) h
        | interface => simp [hk] at h
        | union => simp [hk] at h
        | scalar =>
          simp only [hk] at h
          cases hs : serializeLeaf s n j with
          | none => simp [hs] at h
          | some r => simp [hs] at h; simp [← h.1, shapeOk, hk]
        | enum =>
          simp only [hk] at h
          cases hs : serializeLeaf s n j with
          | none => simp [hs] at h
          | some r => simp [hs] at h; simp [← h.1, shapeOk, hk]
    | list vs =>
      simp only [completeValue] at h
      cases hk : kindOf s n with
      | none => simp [hk] at h
      | some k =>
        cases k with
        | object => simp only [hk] at h; exact objShape _ _ (by simp [isComposite, hk]) h
        | _ => simp [hk] at h
    | raise vs msg ext =>
      simp only [completeValue] at h
      cases hk : kindOf s n with
      | none => simp [hk] at h
      | some k =>
        cases k with
        | object => simp only [hk] at h; exact objShape _ _ (by simp [isComposite, hk]) h
        | _ => simp [hk] at h
    | obj rt =>
      simp only [completeValue] at h
      cases hk : kindOf s n with
      | none => simp [hk] at h
      | some k =>
        cases k with
        | object => simp only [hk] at h; exact objShape _ _ (by simp [isComposite, hk]) h
        | input => simp [hk] at h
        | scalar => simp [hk] at h
        | enum => simp [hk] at h
        | interface =>
          simp only [hk] at h
          cases hr : kindOf s rt with
          | none => simp [hr] at h
          | some k2 =>
            cases k2 with
            | object =>
              simp only [hr] at h
              split at h
              · exact objShape _ _ (by simp [isComposite, hk]) h
              · simp at h
            | _ => simp [hr] at h
        | union =>
          simp only [hk] at h
          cases hr : kindOf s rt with
          | none => simp [hr] at h
          | some k2 =>
            cases k2 with
            | object =>
              simp only [hr] at h
              split at h
              · exact objShape _ _ (by simp [isComposite, hk]) h
              · simp at h
            | _ => simp [hr] at h

/-- the recursive executor always builds an object: the hypothesis of `validated_shape` holds for the real recursion -/
theorem executeFields_isObj (s : SchemaD) (doc : Doc) (vars : Vars) (w : World) (cf fuel : Nat) (rt : String) (p : Path)
    (sels : List Sel) (d : Data) (es : List Err) (h : executeFields s doc vars w cf fuel rt p sels = .ok (d, es)) : IsObj d := by
  cases fuel with
  | zero => simp [executeFields] at h
  | succ n =>
    simp only [executeFields, bind, Except.bind, pure, Except.pure] at h
    cases h1 : collectFields s doc vars cf rt sels [] with
    | error e => simp [h1] at h
    | ok p1 =>
      simp only [h1] at h
      cases h2 : executeGroups s w (executeFields s doc vars w cf n) rt p p1.1 with
      | error e => simp [h2] at h
      | ok p2 => simp [h2] at h; simp [← h.1, IsObj]

/-- closed form: every field value computed anywhere in a request has the shape of its declared type -/
theorem validated_shape_field (s : SchemaD) (doc : Doc) (vars : Vars) (w : World) (cf n : Nat) (parent : String) (path : Path)
    (nodes : List FNode) (fd : FieldD) (d : Data) (es : List Err)
    (h : resolveField s w (executeFields s doc vars w cf n) parent path nodes fd = .ok (d, es)) : shapeOk s fd.type d = true := by
  cases nodes with
  | nil => simp [resolveField] at h
  | cons node more =>
    simp only [resolveField] at h
    have nullShape : ∀ t : Ty, shapeOk s t .null = true := by
      intro t; induction t with
      | named n => simp [shapeOk]
      | list t _ => simp [shapeOk]
      | nonNull t ih => simpa [shapeOk] using ih
    split at h
    · simp at h; simp [← h.1, nullShape]
    · simp at h; simp [← h.1, nullShape]
    · split at h
      · simp at h; simp [← h.1, nullShape]
      · simp at h
      · rcases catchField_eq_ok _ _ _ _ _ h with h | ⟨k, l, i, _, rfl, _⟩
        · exact validated_shape s _ (fun rt p sels d es hh => executeFields_isObj s doc vars w cf n rt p sels d es hh) _ _ _ _ _ _ h
        · exact nullShape _

/-- Statement of C05's soundness at request level. It is PROVED in full in `Props/C05_exec.lean`
    (`validated_no_internal_error`), with the typing side-conditions made precise there (`SchemaOk`, `WorldTyped`). -/
def ValidatedNoInternalError (s : SchemaD) (doc : Doc) (vars : Vars) (w : World) (typed : Prop) : Prop :=
  ValidDoc s doc vars → keyConsistentB doc = true → typed →
    ∀ op fuel cf cls, execute s doc vars w op fuel cf ≠ .failed (.internal cls)

/-! ### non-vacuity -/
def exSchema : SchemaD :=
  { types := [{ kind := .object, name := "Query", fields := [{ name := "a", type := .named "Int" }, { name := "o", type := .named "Ob" }] },
              { kind := .object, name := "Ob", fields := [{ name := "x", type := .list (.named "String") }] }] }
def exDoc : Doc :=
  { ops := [{ kind := "query", name := none,
              sels := [.field "a" "a" 2 [⟨"skip", .var "v"⟩] [] false [], .spread "F" [], .inline (some "Query") [] [.field "o" "o" 9 [] [] true [.field "x" "x" 13 [] [] false []]]] }],
    frags := [{ name := "F", on := "Query", sels := [.field "k" "a" 40 [] [] false []] }] }

example : ValidDoc exSchema exDoc [("v", .bool false)] := by unfold ValidDoc; decide
example : keyConsistentB exDoc = true := by decide
/-- V1 at execution level: a type condition on an unknown type is NOT `ValidDoc`, and the model raises `UnknownType` -/
example : validDocB exSchema { ops := [{ kind := "query", name := none, sels := [.inline (some "Unknown") [] [.field "a" "a" 2 [] [] false []]] }], frags := [] } [] = false := by decide
example : (collectFields exSchema { ops := [], frags := [] } [] 3 "Query" [.inline (some "Unknown") [] []] []) = .error (.internal "UnknownType") := by
  simp [collectFields, collectStep, skipSelection, dirIf, fragmentTypeApplies, kindOf, SchemaD.findType, exSchema, builtinScalars, bind, Except.bind, pure, Except.pure]

end PyGql.Props.C05

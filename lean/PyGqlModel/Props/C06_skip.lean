/-
  C06 - property theorems, part 7: a rule that raises `SkipNode` below the document:
  `FragmentsOnCompositeTypesChecker`. A skip always comes with an error, so a silent run never skips and has
  seen every node (`Lemmas/ValidateWalkS.lean`).
-/
import PyGqlModel.Props.C06_names
import PyGqlModel.Lemmas.ValidateWalkS
namespace PyGql.Props.C06
open PyGql PyGql.Validate PyGql.Validate.Spec

def badFragType (s : SchemaD) : Node → Bool
  | .inline (some on) _ => !isComposite s on
  | .fragmentDef _ on _ => !isComposite s on
  | _ => false

private theorem focLeave (s : SchemaD) (fx : Fixes) : ∀ n ti rs, leaveRule s fx .fragmentsOnCompositeTypes n ti rs = rs :=
  leaveRule_id s fx .fragmentsOnCompositeTypes (by decide)

private theorem foc_scf (s : SchemaD) (fx : Fixes) :
    SCF ⟨s, fx, [.fragmentsOnCompositeTypes]⟩ (badFragType s) (fun _ => 0) (fun _ => 0) where
  skipE n st hn hb := by
    have hold : (enter ⟨s, fx, [.fragmentsOnCompositeTypes]⟩ n st).2 = true ∧
        E st < E (enter ⟨s, fx, [.fragmentsOnCompositeTypes]⟩ n st).1 := by
      simp only [enter, enterRules_one, E]
      cases n <;> simp_all [badFragType, enterRule, RS.err]
      rename_i on dirs
      cases on <;> simp_all [badFragType, enterRule, RS.err]
    refine ⟨hold.1, ?_⟩
    rw [leaveSkipped_enter_single s fx _ n st hold.1]
    have := hold.2
    simp only [enter, enterRules_one, E] at this
    exact this
  noskip n st hn hb := by
    simp only [enter, enterRules_one]
    cases n <;> simp_all [badFragType, enterRule]
    rename_i on dirs
    cases on <;> simp_all [badFragType, enterRule]
  enterE n st hn hb := by
    simp only [enter, enterRules_one, E]
    cases n <;> simp_all [badFragType, enterRule]
    rename_i on dirs
    cases on <;> simp_all [badFragType, enterRule]
  leaveE n st _ := by
    simp only [leave, E, List.reverse_cons, List.reverse_nil, List.nil_append, List.foldl_cons, List.foldl_nil, focLeave]
    rfl

/-- **5.5.1.2 / 5.5.1.3 Fragment type conditions exist and are composite** -/
theorem rule_fragments_on_composite_types_iff (s : SchemaD) (fx : Fixes) (d : Doc) :
    Silent s fx .fragmentsOnCompositeTypes d ↔ Spec.fragmentsOnCompositeTypes s d := by
  unfold Silent alone
  have he : enter ⟨s, fx, [.fragmentsOnCompositeTypes]⟩ (.document d) {} = (({} : St), false) := by
    simp only [enter, enterRules_one, enterRule, tiEnter]
  rw [visitDocument, visitNode_noskip _ _ _ _ _ he]
  have hw := visitDefsS (foc_scf s fx) d.defs ({} : St)
  have hl : E (leave ⟨s, fx, [.fragmentsOnCompositeTypes]⟩ (.document d)
      (d.defs.foldl (fun st x => visitDef ⟨s, fx, [.fragmentsOnCompositeTypes]⟩ x st) {})) =
      E (d.defs.foldl (fun st x => visitDef ⟨s, fx, [.fragmentsOnCompositeTypes]⟩ x st) ({} : St)) := by
    simp only [leave, E, List.reverse_cons, List.reverse_nil, List.nil_append, List.foldl_cons, List.foldl_nil, focLeave]
  rw [hl]
  have hw2 := hw.2
  have h0 : E ({} : St) = 0 := rfl
  rw [h0] at hw2
  rw [hw2]
  unfold Spec.fragmentsOnCompositeTypes
  simp only [nodes, List.mem_cons, forall_eq_or_imp, reduceCtorEq, false_implies, implies_true, true_and, okNode, and_true]
  constructor
  · intro h
    refine ⟨fun n hn on dirs e => ?_, fun n hn name on dirs e => ?_⟩
    · have := h n hn; subst e; simpa [badFragType] using this
    · have := h n hn; subst e; simpa [badFragType] using this
  · rintro ⟨h1, h2⟩ n hn
    cases n <;> simp only [badFragType]
    · rename_i name on dirs; simp [h2 _ hn name on dirs rfl]
    · rename_i on dirs
      cases on with
      | none => rfl
      | some o => simp [h1 _ hn o dirs rfl]

end PyGql.Props.C06

/-
  C12 at TEXT level: `build (parse (to_string s)) = s`.

  sch2's `print_build_roundtrip` is about the DOCUMENT the printer denotes (`schemaToDoc s : Sdl.Doc`).  Here the printed
  TEXT is connected with the language front end of C01–C03 (`Lex.lexAll`, `Parse.parseDocument`):

  * `SdlPrintT.printSchemaT` is a second, total, `Text`-based model of `ASTSchemaPrinter` (`include_custom_schema_directives
    = False`), compared on every run with the real printer's text and with the first model (`corr/C12_text.py`);
  * `docToAst` is the tree an SDL document of the C11/C12 model denotes (descriptions are block strings);
  * `printTextWF` is the ONE decidable lexical well-formedness predicate;
  * THE STATEMENT `PrintSchemaTextParsesStatement`: the printed text of a schema in printing order that satisfies
    `printTextWF` is accepted by lexer and parser and parses to the denoted tree;  the composition with
    `print_build_roundtrip` is `TextRoundtrip`.
  Proved so far: LAYER (i) — schemas without printed descriptions and without default values
  (`print_schema_text_parses_partial`, `text_roundtrip_partial`).  The statement is evaluated by the driver on every
  generated schema that satisfies `printTextWF` (op `printT`).
-/
import PyGqlModel.Lemmas.SdlTextLayer1
import PyGqlModel.Props.C12_print_build
import PyGqlModel.Props.C12_examples
namespace PyGql.Props.C12
open PyGql PyGql.Ast PyGql.Sdl PyGql.SdlPrint PyGql.SdlText

/-- the schema with its lists in the order the printer writes them -/
def printOrder (s : SchemaD) : SchemaD :=
  { s with directives := sortBy (·.name) s.directives, types := sortBy (·.name) s.types }

theorem printedDoc_eq (s : SchemaD) : printedDoc s = schemaToDoc (printOrder s) := rfl

/-- THE FULL STATEMENT `print_schema_text_parses`: for every printer configuration and every schema in printing order that
    satisfies the lexical well-formedness predicate `printTextWF`, the printed text is accepted by the lexer and the parser
    (`allow_type_system`, `no_location`) and parses to the tree of the document the printer denotes. -/
def PrintSchemaTextParsesStatement : Prop :=
  ∀ (o : SdlPrintT.OptsT) (s : SchemaD), InPrintOrder s → printTextWF o s = true →
    parseSdlTextT (SdlPrintT.printSchemaT o s) = docToAst (schemaToDoc s)

/-- the text-level round trip: the text parses to a tree `d` which is the tree of a document `doc` (the wire image the
    builder consumes) that builds to the schema -/
def TextRoundtrip (o : SdlPrintT.OptsT) (s : SchemaD) : Prop :=
  ∃ (d : Document) (doc : Doc), parseSdlTextT (SdlPrintT.printSchemaT o s) = some d ∧ docToAst doc = some d ∧ build doc = .ok s

/-- `print_schema_text_parses_partial` — LAYER (i) of the statement: schemas in which no description is printed and no
    argument / input field has a default value (all six kinds of types, fields with arguments, `implements`, unions, enums,
    input objects, `@deprecated` with and without reason, directive definitions, the `schema` block), every indentation string
    over {space, tab}.  MISSING for `PrintSchemaTextParsesStatement`: printed descriptions (the three layouts of
    `print_description`, the one-argument-per-line layout of `print_arguments`) and default values (`litText`). -/
theorem print_schema_text_parses_partial (o : SdlPrintT.OptsT) (s : SchemaD) (hs : InPrintOrder s)
    (hwf : printTextWF o s = true) (hp : NoDescNoDefault s) :
    parseSdlTextT (SdlPrintT.printSchemaT o s) = docToAst (schemaToDoc s) :=
  parse_printSchemaT_layer1 o s hs hwf hp

/-- `text_roundtrip_of_parses` — COMPOSITION with sch2's `print_build_roundtrip`: the statement for `s` gives the text-level
    round trip for `s` -/
theorem text_roundtrip_of_parses (o : SdlPrintT.OptsT) (s : SchemaD)
    (hp : parseSdlTextT (SdlPrintT.printSchemaT o s) = docToAst (schemaToDoc s)) (hwf : printBuildWF s = true) :
    TextRoundtrip o s := by
  have hd := docToAst_schemaToDoc s
  exact ⟨_, schemaToDoc s, by rw [hp, hd], hd, print_build_roundtrip s hwf⟩

/-- `text_roundtrip_partial` — LAYER (i), composed: `build (parse (to_string s)) = s` at text level -/
theorem text_roundtrip_partial (o : SdlPrintT.OptsT) (s : SchemaD) (hs : InPrintOrder s) (hwf : printTextWF o s = true)
    (hp : NoDescNoDefault s) (hb : printBuildWF s = true) : TextRoundtrip o s :=
  text_roundtrip_of_parses o s (print_schema_text_parses_partial o s hs hwf hp) hb

/-! ### non-vacuity -/

/-- the example schemas of `C12_examples` satisfy the lexical predicate (default printer options) -/
example : printTextWF {} shop = true := by decide
example : printTextWF {} shopLower = true := by decide

/-- a schema of layer (i): object with arguments and `implements`, interface, union, enum with a deprecated value, input
    object, directive definition, non-conventional roots (the `schema` block is printed), already in printing order -/
def plainShop : SchemaD :=
  { types := [
      { kind := .enum, name := "Color", values := [{ name := "RED", value := .str "RED" }, { name := "GREEN", value := .str "GREEN", deprecated := some "old" }] },
      { kind := .input, name := "Filter", inputFields := [{ name := "color", type := .named "Color" }, { name := "tags", type := .list (.nonNull (.named "String")) }] },
      { kind := .object, name := "Item", interfaces := ["Node"],
        fields := [{ name := "id", type := .nonNull (.named "ID") },
                   { name := "name", type := .named "String", deprecated := some "No longer supported", args := [{ name := "upper", type := .named "Boolean" }] }] },
      { kind := .interface, name := "Node", fields := [{ name := "id", type := .nonNull (.named "ID") }] },
      { kind := .object, name := "Root", fields := [{ name := "items", type := .nonNull (.list (.nonNull (.named "Item"))), args := [{ name := "filter", type := .named "Filter" }] }] },
      { kind := .union, name := "Thing", members := ["Item"] }],
    directives := [{ name := "tag", locations := ["FIELD", "QUERY"], args := [{ name := "name", type := .named "String" }] }],
    query := some "Root" }

example : TextRoundtrip {} plainShop :=
  text_roundtrip_partial {} plainShop ⟨by rfl, by rfl⟩ (by decide) (by
    refine ⟨fun t ht => ?_, fun d hd => ?_⟩
    · simp only [plainShop, List.mem_cons, List.not_mem_nil, or_false] at ht
      rcases ht with rfl | rfl | rfl | rfl | rfl | rfl <;>
        simp [descToDoc, argPlain]
    · simp only [plainShop, List.mem_cons, List.not_mem_nil, or_false] at hd
      subst hd; simp [descToDoc, argPlain]) (by decide)

end PyGql.Props.C12

/-
  C12 at TEXT level: `build (parse (to_string s)) = s`.

  sch2's `print_build_roundtrip` is about the DOCUMENT the printer denotes (`schemaToDoc s : Sdl.Doc`).  This file states
  the connection of the printed TEXT (`SdlPrint.printSchema`, the model that is compared character by character with
  `ASTSchemaPrinter` on every run) with the language front end of C01–C03 (`Lex.lexAll`, `Parse.parseDocument`), and
  proves the composition:  IF the printed text parses to the tree that the denoted document stands for
  (`PrintSchemaTextParses s`), THEN the text-level round trip holds (`text_roundtrip_of_parses`).

  `PrintSchemaTextParsesStatement` itself is NOT proved here; it is checked on concrete schemas by evaluation
  (`#eval same shop = true`, see the report) — the kernel cannot evaluate it (string primitives), and a proof needs two
  changes in the C12 model that only its owner can make (see `SdlText` section "what a proof needs" below).
-/
import PyGqlModel.SdlText
import PyGqlModel.Props.C12_print_build
namespace PyGql.Props.C12
open PyGql PyGql.Ast PyGql.Sdl PyGql.SdlPrint PyGql.SdlText

/-- the schema with its lists in the order the printer writes them -/
def printOrder (s : SchemaD) : SchemaD :=
  { s with directives := sortBy (·.name) s.directives, types := sortBy (·.name) s.types }

theorem printedDoc_eq (s : SchemaD) : printedDoc s = schemaToDoc (printOrder s) := rfl

/-- the printed text (default options: four-space indent, descriptions on, no custom directives) is accepted by the lexer
    and the parser (`allow_type_system`, `no_location`) and parses to the tree denoted by the document the printer
    denotes, in printing order -/
def PrintSchemaTextParses (s : SchemaD) : Prop :=
  parseSdlText (printSchema {} s [] initialCollection).1 = docToAst (printedDoc s)

/-- THE STATEMENT `print_schema_text_parses`: for every schema satisfying a lexical well-formedness predicate `WF`
    (names are Name lexemes, printed default literals are number / name lexemes, descriptions survive the printer's
    layout: no line longer than the wrap width, canonical block-string shape, no trailing backslash; unions, enums, object,
    interface and input types are not empty) the printed text parses to the denoted document. -/
def PrintSchemaTextParsesStatement (WF : SchemaD → Prop) : Prop := ∀ s, WF s → PrintSchemaTextParses s

/-- the text-level round trip: the text parses to a tree `d` which is the tree of a document `doc` (the wire image the
    builder consumes) that builds to the schema (in printing order) -/
def TextRoundtrip (s : SchemaD) : Prop :=
  ∃ (d : Document) (doc : Doc), parseSdlText (printSchema {} s [] initialCollection).1 = some d ∧
    docToAst doc = some d ∧ build doc = .ok (printOrder s)

/-- every document the printer denotes has a tree (it contains no executable definition) -/
theorem docToAst_schemaToDoc_isSome (s : SchemaD) : (docToAst (schemaToDoc s)).isSome = true := by
  have h : ∀ doc : Doc, (∀ x ∈ doc, (defOf x).isSome = true) → (doc.mapM defOf).isSome = true := by
    intro doc
    induction doc with
    | nil => intro _; rfl
    | cons x xs ih =>
      intro hx
      have h1 := hx x (by simp)
      have h2 := ih (fun y hy => hx y (by simp [hy]))
      cases hd : defOf x with
      | none => rw [hd] at h1; cases h1
      | some a =>
        cases hm : xs.mapM defOf with
        | none => rw [hm] at h2; cases h2
        | some as => simp [List.mapM_cons, hd, hm]
  have hall : ∀ x ∈ schemaToDoc s, (defOf x).isSome = true := by
    intro x hx
    simp only [schemaToDoc, List.mem_append, List.mem_map] at hx
    rcases hx with (hx | ⟨d, _, rfl⟩) | ⟨t, _, rfl⟩
    · split at hx
      · simp only [List.mem_singleton] at hx; subst hx; rfl
      · cases hx
    · rfl
    · rfl
  simpa [docToAst] using h _ hall

/-- `text_roundtrip_of_parses` — COMPOSITION with `print_build_roundtrip`: if the printed text parses to the denoted tree
    and the schema (in printing order) satisfies `printBuildWF`, then the text-level round trip holds. -/
theorem text_roundtrip_of_parses (s : SchemaD) (hp : PrintSchemaTextParses s) (hwf : printBuildWF (printOrder s) = true) :
    TextRoundtrip s := by
  have hsome := docToAst_schemaToDoc_isSome (printOrder s)
  cases hd : docToAst (schemaToDoc (printOrder s)) with
  | none => rw [hd] at hsome; cases hsome
  | some d =>
    refine ⟨d, schemaToDoc (printOrder s), ?_, hd, print_build_roundtrip _ hwf⟩
    unfold PrintSchemaTextParses at hp
    rw [hp, printedDoc_eq, hd]

end PyGql.Props.C12

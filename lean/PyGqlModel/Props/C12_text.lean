/-
  C12 at TEXT level: `build (parse (to_string s)) = s`.

  sch2's `print_build_roundtrip` is about the DOCUMENT the printer denotes (`schemaToDoc s : Sdl.Doc`).  Here the printed
  TEXT is connected with the language front end of C01–C03 (`Lex.lexAll`, `Parse.parseDocument`):

  * `SdlPrintT.printSchemaT` is a second, total, `Text`-based model of `ASTSchemaPrinter` (`include_custom_schema_directives
    = False`), compared on every run with the real printer's text and with the first model (`corr/C12_text.py`);
  * `docToAst` is the tree an SDL document of the C11/C12 model denotes (descriptions are block strings);
  * `printTextWF` is the ONE decidable lexical well-formedness predicate;
  * THE STATEMENT `PrintSchemaTextParsesStatement`: the printed text of EVERY schema that satisfies `printTextWF` is accepted
    by lexer and parser and parses to the tree of the document in printing order (`printedDoc s`);  the composition with
    `print_build_roundtrip` is `TextRoundtrip`.
  PROVED: the statement in full (`print_schema_text_parses`: all six kinds of types, arguments in both layouts of
  `print_arguments`, descriptions in every position and in the three layouts of `print_description`, default values,
  `@deprecated`, directive definitions, the `schema` block, every indentation over {space, tab}; lists of types and
  directives in any order — `sortBy` is idempotent on distinct names, `valueLit` looks types up by name) and its composition
  `text_roundtrip`.  The statement is also evaluated by the driver on every generated schema that satisfies `printTextWF`
  (op `printT`).
-/
import PyGqlModel.Lemmas.SdlTextFull
import PyGqlModel.Lemmas.SdlTextPrintOrder
import PyGqlModel.Props.C12_print_build
import PyGqlModel.Props.C12_examples
namespace PyGql.Props.C12
open PyGql PyGql.Ast PyGql.Sdl PyGql.SdlPrint PyGql.SdlText

theorem printedDoc_eq (s : SchemaD) : printedDoc s = schemaToDoc (printOrder s) := rfl

/-- THE FULL STATEMENT `print_schema_text_parses`: for every printer configuration and EVERY schema (lists in any order)
    that satisfies the lexical well-formedness predicate `printTextWF`, the printed text is accepted by the lexer and the
    parser (`allow_type_system`, `no_location`) and parses to the tree of the document the printer denotes (`printedDoc s`:
    schema block, directive definitions by name, type definitions by name). -/
def PrintSchemaTextParsesStatement : Prop :=
  ∀ (o : SdlPrintT.OptsT) (s : SchemaD), printTextWF o s = true →
    parseSdlTextT (SdlPrintT.printSchemaT o s) = docToAst (printedDoc s)

/-- the text-level round trip: the text parses to a tree `d` which is the tree of a document `doc` (the wire image the
    builder consumes) that builds to the schema, its lists in printing order -/
def TextRoundtrip (o : SdlPrintT.OptsT) (s : SchemaD) : Prop :=
  ∃ (d : Document) (doc : Doc), parseSdlTextT (SdlPrintT.printSchemaT o s) = some d ∧ docToAst doc = some d ∧
    build doc = .ok (printOrder s)

/-- `print_schema_text_parses_ordered` — the statement for a schema whose lists are already in printing order (all six
    kinds of types, arguments in both layouts of `print_arguments`, descriptions in every position and in the three layouts
    of `print_description`, default values, `@deprecated`, directive definitions, the `schema` block, every indentation
    over {space, tab}) -/
theorem print_schema_text_parses_ordered (o : SdlPrintT.OptsT) (s : SchemaD) (hs : InPrintOrder s)
    (hwf : printTextWF o s = true) : parseSdlTextT (SdlPrintT.printSchemaT o s) = docToAst (schemaToDoc s) :=
  parse_printSchemaT_full o s hs hwf

/-- `printOrder_inPrintOrder` — sorting is idempotent on lists with pairwise distinct names -/
theorem printOrder_inPrintOrder (s : SchemaD) (h : namesUnique s = true) : InPrintOrder (printOrder s) :=
  inPrintOrder_printOrder s h

/-- `printSchemaT_order_independent` — the printed text does not depend on the order of `s.types` / `s.directives` (the
    printer sorts them; default values look types up by name) -/
theorem printSchemaT_order_independent (o : SdlPrintT.OptsT) (s : SchemaD) (h : namesUnique s = true) :
    SdlPrintT.printSchemaT o (printOrder s) = SdlPrintT.printSchemaT o s := printSchemaT_printOrder o s h

/-- `printTextWF_order_independent` — neither does the predicate -/
theorem printTextWF_order_independent (o : SdlPrintT.OptsT) (s : SchemaD) (h : namesUnique s = true) :
    printTextWF o (printOrder s) = printTextWF o s := printTextWF_printOrder o s h

/-- `print_schema_text_parses` — THE STATEMENT, in full -/
theorem print_schema_text_parses : PrintSchemaTextParsesStatement := by
  intro o s hwf
  have hu := namesUnique_of_wf o s hwf
  rw [← printSchemaT_printOrder o s hu, printedDoc_eq]
  exact parse_printSchemaT_full o (printOrder s) (inPrintOrder_printOrder s hu) (by rw [printTextWF_printOrder o s hu]; exact hwf)

/-- `text_roundtrip` — `build (parse (to_string s)) = s` at TEXT level, composed with sch2's `print_build_roundtrip`: for a
    schema that satisfies the lexical predicate `printTextWF` and whose printing order satisfies `printBuildWF`, the printed
    text is accepted by lexer and parser and the document it parses to builds to the schema (lists in printing order) -/
theorem text_roundtrip (o : SdlPrintT.OptsT) (s : SchemaD) (hwf : printTextWF o s = true)
    (hb : printBuildWF (printOrder s) = true) : TextRoundtrip o s := by
  have hd := docToAst_schemaToDoc (printOrder s)
  exact ⟨_, printedDoc s, by rw [print_schema_text_parses o s hwf, printedDoc_eq, hd], hd, print_build_roundtrip _ hb⟩

/-- `printOrder_of_ordered` — a schema in printing order is its own printing order -/
theorem printOrder_of_ordered (s : SchemaD) (hs : InPrintOrder s) : printOrder s = s := by
  unfold printOrder; rw [hs.1, hs.2]

/-! ### non-vacuity -/

/-- the example schemas of `C12_examples` satisfy the lexical predicate (default printer options) -/
example : printTextWF {} shop = true := by decide
example : printTextWF {} shopLower = true := by decide

/-- a schema of layer (i): object with arguments and `implements`, interface, union, enum with a deprecated value, input
    object, directive definition, non-conventional roots (the `schema` block is printed), already in printing order -/
def plainShop : SchemaD :=
  { types := [
      { kind := .enum, name := "Color", values := [{ name := "RED", value := .str "RED" }, { name := "GREEN", value := .str "GREEN", deprecated := some "old" }] },
      { kind := .input, name := "Filter", inputFields := [{ name := "color", type := .named "Color" }, { name := "tags", type := .list (.nonNull (.named "String")) }] },
      { kind := .object, name := "Item", interfaces := ["Node"],
        fields := [{ name := "id", type := .nonNull (.named "ID") },
                   { name := "name", type := .named "String", deprecated := some "No longer supported", args := [{ name := "upper", type := .named "Boolean" }] }] },
      { kind := .interface, name := "Node", fields := [{ name := "id", type := .nonNull (.named "ID") }] },
      { kind := .object, name := "Root", fields := [{ name := "items", type := .nonNull (.list (.nonNull (.named "Item"))), args := [{ name := "filter", type := .named "Filter" }] }] },
      { kind := .union, name := "Thing", members := ["Item"] }],
    directives := [{ name := "tag", locations := ["FIELD", "QUERY"], args := [{ name := "name", type := .named "String" }] }],
    query := some "Root" }

example : TextRoundtrip {} plainShop := text_roundtrip {} plainShop (by decide) (by decide)
example : build (printedDoc plainShop) = .ok plainShop := by
  have := print_build_roundtrip (printOrder plainShop) (by decide)
  rwa [printOrder_of_ordered plainShop ⟨by rfl, by rfl⟩] at this

/-- `shop` (NOT in printing order; descriptions on types, enum values, input fields and a directive; default values of every
    input kind) and `shopLower` (the `schema` block is printed) -/
example : TextRoundtrip {} shop := text_roundtrip {} shop (by decide) (by decide)
example : TextRoundtrip {} shopLower := text_roundtrip {} shopLower (by decide) (by decide)

/-- descriptions in the three layouts of `print_description` (one line; several lines; a first line that starts with white
    space), a description that ends with a quote, described arguments (one argument per line), tab indentation -/
def descShop : SchemaD :=
  { types := [
      { kind := .object, name := "Query", desc := some "The root.\n\n  indented line\nlast line",
        fields := [{ name := "a", type := .named "Int", desc := some "  leads with blanks",
                     args := [{ name := "x", type := .named "Int", desc := some "the \"x\"", hasDefault := true, default := .num 3 },
                              { name := "y", type := .named "String" }] },
                   { name := "b", type := .named "String", desc := some "say \"\"\"hi\"\"\" twice\nover" }] }],
    directives := [{ name := "tag", locations := ["FIELD"], args := [{ name := "n", type := .named "Int", desc := some "how many" }] }],
    query := some "Query" }

example : TextRoundtrip {} descShop := text_roundtrip {} descShop (by decide) (by decide)
example : TextRoundtrip { indent := [9] } descShop := text_roundtrip _ descShop (by decide) (by decide)

end PyGql.Props.C12

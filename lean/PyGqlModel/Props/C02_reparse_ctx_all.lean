/-
  C02 — the re-parse-in-context theorems of `Props/C02_reparse_ctx.lean` in CLOSED FORM for executable documents: no
  side hypothesis about the node.  `Definition.sels` / `.ssets` / `.dirs` / `.args` (`Lemmas/SpanSels.lean`) enumerate
  EVERY selection (field, fragment spread, inline fragment), selection set, directive (of the definition, of its variable
  definitions, of its selections) and argument (of fields and of directives) of an operation or fragment definition, at any
  depth; each of them is what `parse` returns for its spanned text inside the minimal context, modulo the offset.
  For TYPE-SYSTEM definitions and extensions: `Definition.tdirs` / `.descs` (`Lemmas/SpanDirsTS.lean`) enumerate every
  directive (with its arguments) and every description — `span_reparse_directive_ts`, `span_reparse_argument_ts`,
  `span_reparse_description_all`; `Definition.fdefs` / `.ivdefs` / `.evdefs` every field definition, input value definition
  (input fields, argument definitions) and enum value definition — `span_reparse_field_definition_all`,
  `span_reparse_input_value_definition_all`, `span_reparse_enum_value_definition_all`.
-/
import PyGqlModel.Props.C02_reparse_ctx
import PyGqlModel.Lemmas.SpanSels
import PyGqlModel.Lemmas.SpanDirsTS
namespace PyGql.Props.C02
open PyGql PyGql.Ast PyGql.Parse PyGql.Spec PyGql.Props.C01
open PyGql.Spec.Lexical (slice)

private theorem wf_of_mem (fl : Flags) (s : Text) (d : Document) (h : parseText fl s = some d) (x : Definition)
    (hx : x ∈ d.definitions) : wfDefinition fl x = true := by
  obtain ⟨_, _, wf, _⟩ := (parse_text_result_partial fl s d).1 h
  simp only [wfDocument, Bool.and_eq_true, List.all_eq_true] at wf
  exact (wf.2 x hx).1

/-- every selection of every operation and fragment definition: `{ σ⏎}` parses to the shorthand query holding it -/
theorem span_reparse_selection_all (fl : Flags) (s : Text) (d : Document) (h : parseText fl s = some d) :
    ∀ x ∈ d.definitions, ∀ sel ∈ x.sels, ∀ a b, sel.loc = some (a, b) →
      a ≤ b ∧ b ≤ s.length ∧
      parseText fl ([123, 32] ++ slice s a b ++ [10, 125]) =
        some (shorthandDoc [(sel.mapLoc (locDown a)).mapLoc (locUp 2)] (b - a + 4)) := by
  intro x hx sel hsel a b hloc
  obtain ⟨hs, hwf⟩ := definition_sels fl x sel hsel
  exact span_reparse_selection fl s d h x hx sel hs (hwf (wf_of_mem fl s d h x hx)) a b hloc

/-- every selection set of every operation and fragment definition: its text is the query shorthand -/
theorem span_reparse_selection_set_all (fl : Flags) (s : Text) (d : Document) (h : parseText fl s = some d) :
    ∀ x ∈ d.definitions, ∀ ss ∈ x.ssets, ∀ a b, ss.loc = some (a, b) →
      a ≤ b ∧ b ≤ s.length ∧
      parseText fl (slice s a b) =
        some ⟨[.operation ⟨K.query, none, [], [], ss.mapLoc (locDown a), some (0, b - a)⟩], some (0, b - a)⟩ := by
  intro x hx ss hss a b hloc
  obtain ⟨hs, hwf⟩ := definition_ssets fl x ss hss
  exact span_reparse_selection_set fl s d h x hx ss hs (hwf (wf_of_mem fl s d h x hx)) a b hloc

/-- every directive of every operation and fragment definition (also those of variable definitions): `{ a σ⏎}` -/
theorem span_reparse_directive_all (fl : Flags) (s : Text) (d : Document) (h : parseText fl s = some d) :
    ∀ x ∈ d.definitions, ∀ dir ∈ x.dirs, ∀ a b, dir.loc = some (a, b) →
      a ≤ b ∧ b ≤ s.length ∧
      parseText fl ([123, 32, 97, 32] ++ slice s a b ++ [10, 125]) =
        some (shorthandDoc [.field none ⟨[97], some (2, 3)⟩ [] [(dir.mapLoc (locDown a)).mapLoc (locUp 4)] none
          (some (2, b - a + 4))] (b - a + 6)) := by
  intro x hx dir hdir a b hloc
  obtain ⟨hs, hwf⟩ := definition_dirs fl x dir hdir
  obtain ⟨c, hc⟩ := hwf (wf_of_mem fl s d h x hx)
  exact span_reparse_directive fl s d h x hx dir hs c hc a b hloc

/-- every argument of every field and of every directive of every operation and fragment definition: `{ a(σ⏎)}` -/
theorem span_reparse_argument_all (fl : Flags) (s : Text) (d : Document) (h : parseText fl s = some d) :
    ∀ x ∈ d.definitions, ∀ arg ∈ x.args, ∀ a b, arg.loc = some (a, b) →
      a ≤ b ∧ b ≤ s.length ∧
      parseText fl ([123, 32, 97, 40] ++ slice s a b ++ [10, 41, 125]) =
        some (shorthandDoc [.field none ⟨[97], some (2, 3)⟩ [(arg.mapLoc (locDown a)).mapLoc (locUp 4)] [] none
          (some (2, b - a + 6))] (b - a + 7)) := by
  intro x hx arg harg a b hloc
  obtain ⟨hs, hwf⟩ := definition_args fl x arg harg
  obtain ⟨c, hc⟩ := hwf (wf_of_mem fl s d h x hx)
  exact span_reparse_argument fl s d h x hx arg hs c hc a b hloc

/-- every variable definition of every operation (and fragment, with `experimental_fragment_variables`): `query(σ⏎){a}` -/
theorem span_reparse_variable_definition_all (fl : Flags) (s : Text) (d : Document) (h : parseText fl s = some d) :
    ∀ x ∈ d.definitions, ∀ vd ∈ x.vdefs, ∀ a b, vd.loc = some (a, b) →
      a ≤ b ∧ b ≤ s.length ∧
      parseText fl ([113, 117, 101, 114, 121, 40] ++ slice s a b ++ [10, 41, 123, 97, 125]) =
        some (queryDoc ((vd.mapLoc (locDown a)).mapLoc (locUp 6)) (b - a)) := by
  intro x hx vd hvd a b hloc
  obtain ⟨hs, hwf⟩ := definition_vdefs fl x vd hvd
  exact span_reparse_variable_definition fl s d h x hx vd hs (hwf (wf_of_mem fl s d h x hx)) a b hloc

/-! ### type-system definitions and extensions -/

/-- every directive of every type-system definition / extension (`Definition.tdirs`: on the definition, on its field
    definitions, argument definitions, enum values and input fields): `{ a σ⏎}` -/
theorem span_reparse_directive_ts (fl : Flags) (s : Text) (d : Document) (h : parseText fl s = some d) :
    ∀ x ∈ d.definitions, ∀ dir ∈ x.tdirs, ∀ a b, dir.loc = some (a, b) →
      a ≤ b ∧ b ≤ s.length ∧
      parseText fl ([123, 32, 97, 32] ++ slice s a b ++ [10, 125]) =
        some (shorthandDoc [.field none ⟨[97], some (2, 3)⟩ [] [(dir.mapLoc (locDown a)).mapLoc (locUp 4)] none
          (some (2, b - a + 4))] (b - a + 6)) := by
  intro x hx dir hdir a b hloc
  obtain ⟨hs, hwf⟩ := definition_tdirs fl x dir hdir
  exact span_reparse_directive fl s d h x hx dir hs true (hwf (wf_of_mem fl s d h x hx)) a b hloc

/-- every argument of every such directive: `{ a(σ⏎)}` -/
theorem span_reparse_argument_ts (fl : Flags) (s : Text) (d : Document) (h : parseText fl s = some d) :
    ∀ x ∈ d.definitions, ∀ dir ∈ x.tdirs, ∀ arg ∈ dir.arguments, ∀ a b, arg.loc = some (a, b) →
      a ≤ b ∧ b ≤ s.length ∧
      parseText fl ([123, 32, 97, 40] ++ slice s a b ++ [10, 41, 125]) =
        some (shorthandDoc [.field none ⟨[97], some (2, 3)⟩ [(arg.mapLoc (locDown a)).mapLoc (locUp 4)] [] none
          (some (2, b - a + 6))] (b - a + 7)) := by
  intro x hx dir hdir arg harg a b hloc
  obtain ⟨hs, hwf⟩ := definition_tdirs fl x dir hdir
  obtain ⟨hs2, hwf2⟩ := directive_arguments true dir arg harg
  exact span_reparse_argument fl s d h x hx arg (hs2.trans hs) true (hwf2 (hwf (wf_of_mem fl s d h x hx))) a b hloc

private theorem ts_flag (fl : Flags) (s : Text) (d : Document) (h : parseText fl s = some d) (x : Definition)
    (hx : x ∈ d.definitions) (hts : isTypeSystem x = true) : fl.allowTypeSystem = true := by
  obtain ⟨_, _, wf, _⟩ := (parse_text_result_partial fl s d).1 h
  simp only [wfDocument, Bool.and_eq_true, List.all_eq_true] at wf
  have := (wf.2 x hx).2
  rw [hts] at this
  simpa using this

/-- every FIELD DEFINITION of every object / interface type definition or extension: `type A {σ⏎}` -/
theorem span_reparse_field_definition_all (fl : Flags) (s : Text) (d : Document) (h : parseText fl s = some d) :
    ∀ x ∈ d.definitions, ∀ fd ∈ x.fdefs, ∀ a b, fd.loc = some (a, b) →
      a ≤ b ∧ b ≤ s.length ∧
      parseText fl (K.type_ ++ [32, 65, 32, 123] ++ slice s a b ++ [10, 125]) =
        some ⟨[.objectTypeDefinition none ⟨[65], some (5, 6)⟩ [] [] [(fd.mapLoc (locDown a)).mapLoc (locUp 8)]
          (some (0, b - a + 4 + 6))], some (0, b - a + 4 + 6)⟩ := by
  intro x hx fd hfd a b hloc
  obtain ⟨hs, hwf⟩ := definition_fdefs fl x fd hfd
  have hts : isTypeSystem x = true := by cases x <;> first | rfl | (simp [Definition.fdefs] at hfd)
  exact span_reparse_field_definition fl (ts_flag fl s d h x hx hts) s d h x hx fd hs (hwf (wf_of_mem fl s d h x hx)) a b hloc

/-- every ENUM VALUE DEFINITION of every enum type definition or extension: `enum A {σ⏎}` -/
theorem span_reparse_enum_value_definition_all (fl : Flags) (s : Text) (d : Document) (h : parseText fl s = some d) :
    ∀ x ∈ d.definitions, ∀ ev ∈ x.evdefs, ∀ a b, ev.loc = some (a, b) →
      a ≤ b ∧ b ≤ s.length ∧
      parseText fl (K.enum_ ++ [32, 65, 32, 123] ++ slice s a b ++ [10, 125]) =
        some ⟨[.enumTypeDefinition none ⟨[65], some (5, 6)⟩ [] [(ev.mapLoc (locDown a)).mapLoc (locUp 8)]
          (some (0, b - a + 4 + 6))], some (0, b - a + 4 + 6)⟩ := by
  intro x hx ev hev a b hloc
  obtain ⟨hs, hwf⟩ := definition_evdefs fl x ev hev
  have hts : isTypeSystem x = true := by cases x <;> first | rfl | (simp [Definition.evdefs] at hev)
  exact span_reparse_enum_value_definition fl (ts_flag fl s d h x hx hts) s d h x hx ev hs (hwf (wf_of_mem fl s d h x hx)) a b hloc

/-- every INPUT VALUE DEFINITION (input fields, arguments of field definitions and of directive definitions): `input A {σ⏎}` -/
theorem span_reparse_input_value_definition_all (fl : Flags) (s : Text) (d : Document) (h : parseText fl s = some d) :
    ∀ x ∈ d.definitions, ∀ iv ∈ x.ivdefs, ∀ a b, iv.loc = some (a, b) →
      a ≤ b ∧ b ≤ s.length ∧
      parseText fl (K.input ++ [32, 65, 32, 123] ++ slice s a b ++ [10, 125]) =
        some ⟨[.inputObjectTypeDefinition none ⟨[65], some (6, 7)⟩ [] [(iv.mapLoc (locDown a)).mapLoc (locUp 9)]
          (some (0, b - a + 5 + 6))], some (0, b - a + 5 + 6)⟩ := by
  intro x hx iv hiv a b hloc
  obtain ⟨hs, hwf⟩ := definition_ivdefs fl x iv hiv
  have hts : isTypeSystem x = true := by
    cases x <;> first | rfl | (simp [Definition.ivdefs, Definition.fdefs] at hiv)
  exact span_reparse_input_value_definition fl (ts_flag fl s d h x hx hts) s d h x hx iv hs (hwf (wf_of_mem fl s d h x hx)) a b hloc

private theorem descs_ts (x : Definition) (sv : StringValue) (h : sv ∈ x.descs) : isTypeSystem x = true := by
  cases x <;> first | rfl | (simp [Definition.descs] at h)

/-- every DESCRIPTION of every type-system definition (its own, and those of its field definitions, argument definitions,
    enum values, input fields), quoted or block string: `σ⏎scalar A` parses to the scalar `A` carrying exactly that
    description — no hypothesis (a document with a description was parsed with `allow_type_system`) -/
theorem span_reparse_description_all (fl : Flags) (s : Text) (d : Document) (h : parseText fl s = some d) :
    ∀ x ∈ d.definitions, ∀ sv ∈ x.descs, ∀ a b, sv.loc = some (a, b) →
      a ≤ b ∧ b ≤ s.length ∧
      parseText fl (slice s a b ++ 10 :: [115, 99, 97, 108, 97, 114, 32, 65]) =
        some ⟨[.scalarTypeDefinition (some (sv.mapLoc (locDown a))) ⟨[65], some (b - a + 8, b - a + 9)⟩ []
          (some (0, b - a + 9))], some (0, b - a + 9)⟩ := by
  intro x hx sv hsv a b hloc
  have hts : fl.allowTypeSystem = true := by
    obtain ⟨_, _, wf, _⟩ := (parse_text_result_partial fl s d).1 h
    simp only [wfDocument, Bool.and_eq_true, List.all_eq_true] at wf
    have := (wf.2 x hx).2
    rw [descs_ts x sv hsv] at this
    simpa using this
  exact span_reparse_description fl hts s d h x hx sv (definition_descs x sv hsv) a b hloc

/-! ### non-vacuity: the enumerations of `query($v:I @k){a(x:[1]) @d ...{b}}` -/
private def qdoc : Text := [113, 117, 101, 114, 121, 40, 36, 118, 58, 73, 32, 64, 107, 41, 123, 97, 40, 120, 58, 91, 49, 93,
  41, 32, 64, 100, 32, 46, 46, 46, 123, 98, 125, 125]
example : (parseText {} qdoc).map (fun d => d.definitions.map (fun x => x.sels.map Selection.loc)) =
    some [[some (15, 26), some (27, 33), some (31, 32)]] := by decide
example : (parseText {} qdoc).map (fun d => d.definitions.map (fun x => x.ssets.map SelectionSet.loc)) =
    some [[some (14, 34), some (30, 33)]] := by decide
example : (parseText {} qdoc).map (fun d => d.definitions.map (fun x => x.dirs.map (·.loc))) =
    some [[some (11, 13), some (24, 26)]] := by decide
example : (parseText {} qdoc).map (fun d => d.definitions.map (fun x => x.vdefs.map (·.loc))) =
    some [[some (6, 13)]] := by decide
example : (parseText {} qdoc).map (fun d => d.definitions.map (fun x => x.args.map (·.loc))) =
    some [[some (17, 22)]] := by decide

/-- `"T" type T @k(x:1){"d" f("q" a:I @m):I @n}`: directives, their arguments and descriptions of a type definition -/
private def tdoc2 : Text := [34, 84, 34, 32, 116, 121, 112, 101, 32, 84, 32, 64, 107, 40, 120, 58, 49, 41, 123, 34, 100, 34, 32, 102,
  40, 34, 113, 34, 32, 97, 58, 73, 32, 64, 109, 41, 58, 73, 32, 64, 110, 125]
private def tsFl2 : Flags := { allowTypeSystem := true }
example : (parseText tsFl2 tdoc2).map (fun d => d.definitions.map (fun x => x.tdirs.map (·.loc))) =
    some [[some (11, 18), some (33, 35), some (39, 41)]] := by decide
example : (parseText tsFl2 tdoc2).map (fun d => d.definitions.map (fun x => x.descs.map (·.loc))) =
    some [[some (0, 3), some (19, 22), some (25, 28)]] := by decide

/-- members of `"T" type T @k(x:1){"d" f("q" a:I @m):I @n}`: the field definition (19,41), its argument definition (25,35) -/
example : (parseText tsFl2 tdoc2).map (fun d => d.definitions.map (fun x => (x.fdefs.map (·.loc), x.ivdefs.map (·.loc)))) =
    some [([some (19, 41)], [some (25, 35)])] := by decide
/-- `type A {"d" f("q" a:I @m):I @n⏎}` is the type `A` with that field definition at (8,30) -/
example : (parseText tsFl2 (K.type_ ++ [32, 65, 32, 123] ++ slice tdoc2 19 41 ++ [10, 125])).map
    (fun d => d.definitions.map (fun x => (x.fdefs.map (·.loc), Definition.loc x))) =
    some [([some (8, 30)], some (0, 32))] := by decide

end PyGql.Props.C02

/-
  C06 - property theorems, part 30: **alpha_variables for OverlappingFieldsCanBeMerged as /repo runs it**, hence for ALL 26
  RULES (`alpha_variables_all26`) and for the verdict of the whole chain (`alpha_variables_verdict_invariance_memo`).
  Route as in part 29: `rule_overlapping_fields_memo_iff` + the clause of 5.3.2 along a simulation
  (`Lemmas/ValidateOverlapSimVr.lean`: `V.doc d` simulates `d`). The overlap rule reads variable names in one place,
  `_same_value` on two `Variable` nodes; injectivity of the renaming is exactly what keeps its outcome
  (`alpha_variables_overlap_needs_injectivity`: merging `$a` and `$b` hides a conflict).
-/
import PyGqlModel.Props.C06_inv11
import PyGqlModel.Lemmas.ValidateOverlapSimVr
namespace PyGql.Props.C06
open PyGql PyGql.Validate PyGql.Validate.Spec

/-- **the clause of 5.3.2 under an injective renaming of variables** -/
theorem overlap_clause_vr (V : Vr) (hinj : ∀ a b, V.var a = V.var b → a = b) (s : SchemaD) (d : Doc) :
    Spec.overlappingFieldsCanBeMerged s (V.doc d) ↔ Spec.overlappingFieldsCanBeMerged s d :=
  (V.ovSim hinj s d).clause_iff.symm

theorem namesNonEmpty_vr (V : Vr) (d : Doc) : NamesNonEmpty (V.doc d) ↔ NamesNonEmpty d := by
  unfold NamesNonEmpty; rw [V.fragNames_doc]

/-- **alpha_variables for `OverlappingFieldsCanBeMergedChecker` as /repo runs it** -/
theorem alpha_variables_overlap_memo (V : Vr) (hinj : ∀ a b, V.var a = V.var b → a = b) (s : SchemaD) (fx : Fixes)
    (h7 : fx.v7 = true) (d : Doc) (hpa : Spec.ParentsAgree s d) (hne : NamesNonEmpty d) (hw : WfIds d) :
    (overlapMemoRun s fx (V.doc d)).1 = 0 ↔ (overlapMemoRun s fx d).1 = 0 := by
  have S := V.ovSim hinj s d
  rw [rule_overlapping_fields_memo_iff s fx h7 d hpa (noEmptyName_of hne) hw,
    rule_overlapping_fields_memo_iff s fx h7 (V.doc d) (S.parentsAgree hpa)
      (noEmptyName_of ((namesNonEmpty_vr V d).mpr hne)) ((V.wfIds d).mpr hw)]
  exact overlap_clause_vr V hinj s d

/-- the statement for the whole chain as /repo runs it, rule by rule -/
def FullStatement_alpha_variables_all26 (V : Vr) (s : SchemaD) (fx : Fixes) (d : Doc) : Prop :=
  ∀ r ∈ Rule.all, (SilentM s fx r (V.doc d) ↔ SilentM s fx r d)

/-- **alpha_variables for ALL 26 RULES**, each rule alone, the overlap rule being the memoised one /repo runs: injective
    renaming; the side conditions of `rule_overlapping_fields_memo_iff` are the only hypotheses on the document [ALONE-RUN statement, rule by rule: each rule visitor in a chain of its own; for the verdict of the chain `validate_ast` runs see `Props/C06_chain.lean: chainM_six_transformations`.] -/
theorem alpha_variables_all26 (V : Vr) (hinj : ∀ a b, V.var a = V.var b → a = b) (s : SchemaD) (fx : Fixes)
    (hfx : HeadVars fx) (d : Doc) (hpa : Spec.ParentsAgree s d) (hne : NamesNonEmpty d) (hw : WfIds d) :
    FullStatement_alpha_variables_all26 V s fx d := by
  intro r _
  by_cases ho : r = .overlappingFieldsCanBeMerged
  · subst ho
    rw [silentM_overlap, silentM_overlap]
    exact alpha_variables_overlap_memo V hinj s fx hfx.2.2.2 d hpa hne hw
  · rw [silentM_of_ne ho, silentM_of_ne ho]
    exact alpha_variables_all25_partial V hinj s fx hfx.1 hfx.2.1 d r ho

/-- **the VERDICT of the chain /repo runs is invariant under an injective renaming of variables** (hypotheses: those of
    the headline theorems only) [About the CONJUNCTION OF THE 26 ALONE RUNS (`SilentM`); the same for the chain itself, `SkipNode` handling included: `Props/C06_chain.lean: chainM_six_transformations`, through `chainM_silent_iff_alone`.] -/
theorem alpha_variables_verdict_invariance_memo (V : Vr) (hinj : ∀ a b, V.var a = V.var b → a = b) (s : SchemaD)
    (fx : Fixes) (hfx : HeadVars fx) (hs : SchemaOutputs s) (d : Doc) (hd : DocOkM s d) :
    (∀ r ∈ Rule.all, SilentM s fx r (V.doc d)) ↔ (∀ r ∈ Rule.all, SilentM s fx r d) := by
  have hw : WfIds d := (wfIdsB_iff d).mp hd.checks.ids
  have h25 : ∀ r ∈ Rule.all, r ≠ .overlappingFieldsCanBeMerged → (Silent s fx r (V.doc d) ↔ Silent s fx r d) :=
    fun r _ ho => alpha_variables_all25_partial V hinj s fx hfx.1 hfx.2.1 d r ho
  have key : (∀ r ∈ Rule.all, r ≠ .overlappingFieldsCanBeMerged → Silent s fx r d) →
      ((overlapMemoRun s fx (V.doc d)).1 = 0 ↔ (overlapMemoRun s fx d).1 = 0) := by
    intro hsil
    have hnd : (Spec.fragNames d).Nodup :=
      (rule_unique_fragment_names_iff s fx d).mp (hsil .uniqueFragmentNames (by decide) (by decide))
    have hc : ∀ r ∈ Rule.all, r ≠ .overlappingFieldsCanBeMerged → SpecAll r s fx d := fun r hr ho =>
      (rule_iff_nonoverlap s fx hfx d hd.names hnd r (provedAll_complete r hr) ho).mp (hsil r hr ho)
    have hpa : Spec.ParentsAgree s d :=
      parentsAgree_of_rules s d hs (hc .scalarLeafs (by decide) (by decide))
        (hc .fragmentsOnCompositeTypes (by decide) (by decide)) ((noMetaSubsB_iff d).mp hd.checks.noMeta) hw
    exact alpha_variables_overlap_memo V hinj s fx hfx.2.2.2 d hpa hd.names hw
  constructor
  · intro h
    have hsil : ∀ r ∈ Rule.all, r ≠ .overlappingFieldsCanBeMerged → Silent s fx r d := fun r hr ho =>
      (h25 r hr ho).mp ((silentM_of_ne ho).mp (h r hr))
    intro r hr
    by_cases ho : r = .overlappingFieldsCanBeMerged
    · subst ho; exact silentM_overlap.mpr ((key hsil).mp (silentM_overlap.mp (h _ hr)))
    · exact (silentM_of_ne ho).mpr (hsil r hr ho)
  · intro h
    have hsil : ∀ r ∈ Rule.all, r ≠ .overlappingFieldsCanBeMerged → Silent s fx r d := fun r hr ho =>
      (silentM_of_ne ho).mp (h r hr)
    intro r hr
    by_cases ho : r = .overlappingFieldsCanBeMerged
    · subst ho; exact silentM_overlap.mpr ((key hsil).mpr (silentM_overlap.mp (h _ hr)))
    · exact (silentM_of_ne ho).mpr ((h25 r hr ho).mpr (hsil r hr ho))

/-! ### non-vacuity and necessity of injectivity -/

/-- `ParentsAgree` from computable checks (the route of the headline theorems, for concrete documents) -/
theorem parentsAgree_of_checks (s : SchemaD) (d : Doc) (ho : schemaOutputsB s = true)
    (h1 : Silent s Fixes.all .scalarLeafs d) (h2 : Silent s Fixes.all .fragmentsOnCompositeTypes d)
    (h3 : noMetaSubsB d = true) (h4 : wfIdsB d = true) : Spec.ParentsAgree s d :=
  parentsAgree_of_rules s d (schemaOutputs_of_check s ho) ((rule_scalar_leafs_iff s _ d).mp h1)
    ((rule_fragments_on_composite_types_iff s _ d).mp h2) ((noMetaSubsB_iff d).mp h3) ((wfIdsB_iff d).mp h4)

/-- `query($a: Int, $b: Int) { a(x: $a) a(x: <$a or $b>) }` -/
def vrDoc (second : String) : Doc :=
  ⟨[opV [{ name := "a", type := .named "Int", default := none }, { name := "b", type := .named "Int", default := none }] 1
    [fld none "a" [argV "x" "a"], fld none "a" [argV "x" second]]]⟩

example : (overlapMemoRun wSchema Fixes.all (suffixVr.doc (vrDoc "a"))).1 = 0 ↔
    (overlapMemoRun wSchema Fixes.all (vrDoc "a")).1 = 0 :=
  alpha_variables_overlap_memo suffixVr suffix_inj wSchema Fixes.all rfl (vrDoc "a")
    (parentsAgree_of_checks wSchema (vrDoc "a") (by decide) (by unfold Silent; decide +kernel)
      (by unfold Silent; decide +kernel) (by decide) (by decide))
    (by unfold NamesNonEmpty; decide) (by rw [← wfIdsB_iff]; decide)

example : FullStatement_alpha_variables_all26 suffixVr wSchema Fixes.all (vrDoc "a") :=
  alpha_variables_all26 suffixVr suffix_inj wSchema Fixes.all headVars_all (vrDoc "a")
    (parentsAgree_of_checks wSchema (vrDoc "a") (by decide) (by unfold Silent; decide +kernel)
      (by unfold Silent; decide +kernel) (by decide) (by decide))
    (by unfold NamesNonEmpty; decide) (by rw [← wfIdsB_iff]; decide)

/-- injectivity is needed: `{ a(x: $a) a(x: $b) }` is reported ("different arguments"); renaming both variables to `$c`
    hides the conflict -/
theorem alpha_variables_overlap_needs_injectivity :
    0 < (overlapMemoRun wSchema Fixes.all (vrDoc "b")).1 ∧
    (overlapMemoRun wSchema Fixes.all ((⟨fun _ => "c"⟩ : Vr).doc (vrDoc "b"))).1 = 0 := by
  decide +kernel

end PyGql.Props.C06

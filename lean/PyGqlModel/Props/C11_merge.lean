/-
  C11 — extensions: `_extend_<kind>_type` applied to a built type equals building the MERGED definition
  (definition followed by its extension blocks in document order), for every kind of type.
-/
import PyGqlModel.Sdl
import PyGqlModel.Spec.SdlSpec
import PyGqlModel.Props.C11_exact

set_option linter.unusedVariables false
set_option linter.unusedSimpArgs false

namespace PyGql.Props.C11
open PyGql PyGql.Sdl PyGql.SdlSpec

/-- the extension blocks of a type -/
abbrev mineOf (exts : List TypeDef) (n : String) : List TypeDef := exts.filter (·.name == n)

private theorem kinds_ok (exts : List TypeDef) (t : TypeD) (k : Kind) (hk : t.kind = k)
    (hkinds : ∀ e ∈ exts, e.name = t.name → e.kind = k) :
    ((exts.filter (·.name == t.name)).any fun e => e.kind != k) = false := by
  rw [List.any_eq_false]
  intro e he
  simp only [List.mem_filter, beq_iff_eq] at he
  simp [hkinds e he.1 he.2]

/-- the fold of `_extend_object_type` / `_extend_union_type` over names (interfaces, union members) -/
theorem names_merge_exact (env : Env) (sel : TypeDef → List String) :
    ∀ (exts : List TypeDef) (base : List String),
      (∀ e ∈ exts, checkNames env (sel e) = .ok ()) → (base ++ exts.flatMap sel).Nodup →
      exts.foldlM (fun acc e => do checkNames env (sel e); appendNew (.lib .ext) id acc (sel e)) base = .ok (base ++ exts.flatMap sel) := by
  intro exts
  induction exts with
  | nil => intro base _ _; simp [pure, Except.pure]
  | cons e es ih =>
    intro base hb hn
    have he := hb e (by simp)
    have hn1 : ((base ++ sel e).map id).Nodup := by
      simp only [List.flatMap_cons, ← List.append_assoc, List.map_id] at hn ⊢
      exact (List.nodup_append.mp hn).1
    have step : (do checkNames env (sel e); appendNew (.lib .ext) id base (sel e)) = Except.ok (base ++ sel e) := by
      rw [he]; exact appendNew_ok_of_nodup (.lib .ext) id (sel e) base hn1
    have hn2 : ((base ++ sel e) ++ es.flatMap sel).Nodup := by
      simpa [List.flatMap_cons, List.append_assoc] using hn
    have := ih (base ++ sel e) (fun e' he' => hb e' (by simp [he'])) hn2
    rw [List.foldlM_cons, List.flatMap_cons, ← List.append_assoc]
    show ((do checkNames env (sel e); appendNew (.lib .ext) id base (sel e)) >>= fun acc' => es.foldlM _ acc') = _
    rw [step]
    exact this

theorem extend_scalar_exact (env envX : Env) (hide : Option String) (exts : List TypeDef) (t : TypeD) (hk : t.kind = .scalar)
    (hkinds : ∀ e ∈ exts, e.name = t.name → e.kind = .scalar) : extendTypeX env envX hide exts t = .ok t := by
  have hmine := kinds_ok exts t .scalar hk hkinds
  unfold extendTypeX
  simp only [hmine, failIf, Bool.false_eq_true, if_false, hk]
  rfl

theorem extend_interface_exact (env envX : Env) (hide : Option String) (exts : List TypeDef) (t : TypeD) (hk : t.kind = .interface)
    (hkinds : ∀ e ∈ exts, e.name = t.name → e.kind = .interface) (news : TypeDef → List FieldD)
    (hb : ∀ e ∈ exts.filter (·.name == t.name), e.fields.mapM (buildFieldX env envX hide) = .ok (news e))
    (hn : ((t.fields ++ (exts.filter (·.name == t.name)).flatMap news).map (·.name)).Nodup) :
    extendTypeX env envX hide exts t = .ok { t with fields := t.fields ++ (exts.filter (·.name == t.name)).flatMap news } := by
  have hmine := kinds_ok exts t .interface hk hkinds
  have := extension_merge_exact (.lib .ext) (buildFieldX env envX hide) (·.name) (·.fields) (exts.filter (·.name == t.name)) t.fields news hb hn
  unfold extendTypeX
  simp only [hmine, failIf, Bool.false_eq_true, if_false, hk]
  rw [this]
  rfl

theorem extend_input_exact (env envX : Env) (hide : Option String) (exts : List TypeDef) (t : TypeD) (hk : t.kind = .input)
    (hkinds : ∀ e ∈ exts, e.name = t.name → e.kind = .input) (news : TypeDef → List ArgD)
    (hb : ∀ e ∈ exts.filter (·.name == t.name), e.inputFields.mapM (buildArgumentX env envX hide) = .ok (news e))
    (hn : ((t.inputFields ++ (exts.filter (·.name == t.name)).flatMap news).map (·.name)).Nodup) :
    extendTypeX env envX hide exts t = .ok { t with inputFields := t.inputFields ++ (exts.filter (·.name == t.name)).flatMap news } := by
  have hmine := kinds_ok exts t .input hk hkinds
  have := extension_merge_exact (.lib .ext) (buildArgumentX env envX hide) (·.name) (·.inputFields) (exts.filter (·.name == t.name)) t.inputFields news hb hn
  unfold extendTypeX
  simp only [hmine, failIf, Bool.false_eq_true, if_false, hk]
  rw [this]
  rfl

theorem extend_union_exact (env envX : Env) (hide : Option String) (exts : List TypeDef) (t : TypeD) (hk : t.kind = .union)
    (hkinds : ∀ e ∈ exts, e.name = t.name → e.kind = .union)
    (hb : ∀ e ∈ exts.filter (·.name == t.name), checkNames env e.members = .ok ())
    (hn : (t.members ++ (exts.filter (·.name == t.name)).flatMap (·.members)).Nodup) :
    extendTypeX env envX hide exts t = .ok { t with members := t.members ++ (exts.filter (·.name == t.name)).flatMap (·.members) } := by
  have hmine := kinds_ok exts t .union hk hkinds
  have := names_merge_exact env (·.members) (exts.filter (·.name == t.name)) t.members hb hn
  unfold extendTypeX
  simp only [hmine, failIf, Bool.false_eq_true, if_false, hk]
  rw [this]
  rfl

theorem extend_object_exact (env envX : Env) (hide : Option String) (exts : List TypeDef) (t : TypeD) (hk : t.kind = .object)
    (hkinds : ∀ e ∈ exts, e.name = t.name → e.kind = .object) (news : TypeDef → List FieldD)
    (hb : ∀ e ∈ exts.filter (·.name == t.name), e.fields.mapM (buildFieldX env envX hide) = .ok (news e))
    (hn : ((t.fields ++ (exts.filter (·.name == t.name)).flatMap news).map (·.name)).Nodup)
    (hbi : ∀ e ∈ exts.filter (·.name == t.name), checkNames env e.interfaces = .ok ())
    (hni : (t.interfaces ++ (exts.filter (·.name == t.name)).flatMap (·.interfaces)).Nodup) :
    extendTypeX env envX hide exts t = .ok { t with fields := t.fields ++ (exts.filter (·.name == t.name)).flatMap news,
                                                    interfaces := t.interfaces ++ (exts.filter (·.name == t.name)).flatMap (·.interfaces) } := by
  have hmine := kinds_ok exts t .object hk hkinds
  have h1 := extension_merge_exact (.lib .ext) (buildFieldX env envX hide) (·.name) (·.fields) (exts.filter (·.name == t.name)) t.fields news hb hn
  have h2 := names_merge_exact env (·.interfaces) (exts.filter (·.name == t.name)) t.interfaces hbi hni
  unfold extendTypeX
  simp only [hmine, failIf, Bool.false_eq_true, if_false, hk]
  rw [h1, h2]
  rfl

/-! ### inversion lemmas -/

theorem bind_ok {α β} (x : R α) (f : α → R β) (b : β) (h : (x >>= f) = .ok b) : ∃ a, x = .ok a ∧ f a = .ok b := by
  cases x with
  | error e => simp [bind, Except.bind] at h
  | ok a => exact ⟨a, rfl, by simpa [bind, Except.bind] using h⟩

theorem mapM_append_inv {α β} (f : α → R β) : ∀ (l₁ l₂ : List α) (r : List β), (l₁ ++ l₂).mapM f = .ok r →
    ∃ r₁ r₂, l₁.mapM f = .ok r₁ ∧ l₂.mapM f = .ok r₂ ∧ r = r₁ ++ r₂ := by
  intro l₁
  induction l₁ with
  | nil => intro l₂ r h; exact ⟨[], r, by simp [pure, Except.pure], by simpa using h, rfl⟩
  | cons x xs ih =>
    intro l₂ r h
    rw [List.cons_append, List.mapM_cons] at h
    obtain ⟨b, hb, h2⟩ := bind_ok _ _ _ h
    obtain ⟨bs, hbs, h3⟩ := bind_ok _ _ _ h2
    simp only [pure, Except.pure, Except.ok.injEq] at h3
    obtain ⟨r₁, r₂, e1, e2, e3⟩ := ih l₂ bs hbs
    refine ⟨b :: r₁, r₂, ?_, e2, by rw [← h3, e3]; rfl⟩
    rw [List.mapM_cons, hb, e1]; rfl

/-- the built members of each block, read off the (successful) build of all blocks' members -/
def newsOf {E α β} (f : α → R β) (sel : E → List α) (e : E) : List β :=
  match (sel e).mapM f with | .ok r => r | .error _ => []

theorem flatMap_mapM_inv {E α β} (f : α → R β) (sel : E → List α) : ∀ (es : List E) (all : List β),
    (es.flatMap sel).mapM f = .ok all → (∀ e ∈ es, (sel e).mapM f = .ok (newsOf f sel e)) ∧ all = es.flatMap (newsOf f sel) := by
  intro es
  induction es with
  | nil => intro all h; simp [pure, Except.pure] at h; subst h; simp
  | cons e es ih =>
    intro all h
    rw [List.flatMap_cons] at h
    obtain ⟨r₁, r₂, h1, h2, h3⟩ := mapM_append_inv f _ _ _ h
    obtain ⟨ih1, ih2⟩ := ih r₂ h2
    have hn : newsOf f sel e = r₁ := by simp [newsOf, h1]
    refine ⟨?_, ?_⟩
    · intro e' he'
      rcases List.mem_cons.mp he' with rfl | hm
      · rw [hn]; exact h1
      · exact ih1 e' hm
    · rw [List.flatMap_cons, hn, h3, ih2]

theorem checkNames_ok_iff (env : Env) (ns : List String) : checkNames env ns = .ok () ↔ ns.all env.resolves = true := by
  unfold checkNames
  split
  · simp_all [pure, Except.pure]
  · simp_all [sdlErr]

theorem checkNames_append_inv (env : Env) (a b : List String) (h : checkNames env (a ++ b) = .ok ()) :
    checkNames env a = .ok () ∧ checkNames env b = .ok () := by
  rw [checkNames_ok_iff] at h ⊢
  rw [checkNames_ok_iff]
  simpa [List.all_append] using h

theorem checkNames_flatMap_inv (env : Env) (sel : TypeDef → List String) (es : List TypeDef)
    (h : checkNames env (es.flatMap sel) = .ok ()) : ∀ e ∈ es, checkNames env (sel e) = .ok () := by
  intro e he
  rw [checkNames_ok_iff] at h ⊢
  rw [List.all_eq_true] at h ⊢
  intro x hx
  exact h x (List.mem_flatMap.mpr ⟨e, he, hx⟩)

/-! ### what `mergeDef` is -/

private def mstep (acc e : TypeDef) : TypeDef :=
  { acc with interfaces := acc.interfaces ++ e.interfaces, fields := acc.fields ++ e.fields, members := acc.members ++ e.members,
             values := acc.values ++ e.values, inputFields := acc.inputFields ++ e.inputFields }

private theorem foldl_mstep : ∀ (es : List TypeDef) (t : TypeDef),
    (es.foldl mstep t).kind = t.kind ∧ (es.foldl mstep t).name = t.name ∧ (es.foldl mstep t).desc = t.desc ∧
    (es.foldl mstep t).fields = t.fields ++ es.flatMap (·.fields) ∧
    (es.foldl mstep t).interfaces = t.interfaces ++ es.flatMap (·.interfaces) ∧
    (es.foldl mstep t).members = t.members ++ es.flatMap (·.members) ∧
    (es.foldl mstep t).values = t.values ++ es.flatMap (·.values) ∧
    (es.foldl mstep t).inputFields = t.inputFields ++ es.flatMap (·.inputFields) := by
  intro es
  induction es with
  | nil => intro t; simp
  | cons e es ih =>
    intro t
    obtain ⟨h1, h2, h3, h4, h5, h6, h7, h8⟩ := ih (mstep t e)
    simp only [List.foldl_cons, List.flatMap_cons]
    refine ⟨h1, h2, h3, ?_, ?_, ?_, ?_, ?_⟩
    · rw [h4]; simp [mstep, List.append_assoc]
    · rw [h5]; simp [mstep, List.append_assoc]
    · rw [h6]; simp [mstep, List.append_assoc]
    · rw [h7]; simp [mstep, List.append_assoc]
    · rw [h8]; simp [mstep, List.append_assoc]

/-- the merged definition: same kind, name and description; every member list is the definition's list followed
    by the lists of its extension blocks in document order -/
theorem mergeDef_spec (X : List TypeDef) (t : TypeDef) :
    (mergeDef X t).kind = t.kind ∧ (mergeDef X t).name = t.name ∧ (mergeDef X t).desc = t.desc ∧
    (mergeDef X t).fields = t.fields ++ (mineOf X t.name).flatMap (·.fields) ∧
    (mergeDef X t).interfaces = t.interfaces ++ (mineOf X t.name).flatMap (·.interfaces) ∧
    (mergeDef X t).members = t.members ++ (mineOf X t.name).flatMap (·.members) ∧
    (mergeDef X t).values = t.values ++ (mineOf X t.name).flatMap (·.values) ∧
    (mergeDef X t).inputFields = t.inputFields ++ (mineOf X t.name).flatMap (·.inputFields) :=
  foldl_mstep (mineOf X t.name) t

/-! ### the link: the extension step accepts what the merged definition declares, and the extended type IS the
built merged definition (fix C14-T15: defaults are evaluated in the extended types) -/

theorem ok_inj {α} {a b : α} (h : (Except.ok a : R α) = .ok b) : a = b := by cases h; rfl

theorem mergeExt_eq (X : List TypeDef) (t : TypeDef) : mergeExt X t = mergeDef X t := rfl

/-- by name, the extended types are the merged definitions -/
theorem extended_eq (B X : List TypeDef) : (Env.of B).extended X = Env.of (B.map (mergeDef X)) := by
  have hf : (fun n => (B.find? (·.name == n)).map (mergeExt X)) = fun n => (B.map (mergeDef X)).find? (·.name == n) := by
    funext n
    rw [List.find?_map]
    have : ((fun x : TypeDef => x.name == n) ∘ mergeDef X) = fun x : TypeDef => x.name == n := by
      funext x; simp [Function.comp, (mergeDef_spec X x).2.1]
    rw [this]; rfl
  simp only [Env.extended, Env.of, hf]

theorem extended_resolves (env : Env) (X : List TypeDef) (n : String) : (env.extended X).resolves n = env.resolves n := by
  simp [Env.resolves, Env.extended]

theorem mapM_of_ok {α β} (f g : α → R β) (hfg : ∀ x r, f x = .ok r → g x = .ok r) : ∀ (l : List α) (rs : List β),
    l.mapM f = .ok rs → l.mapM g = .ok rs := by
  intro l
  induction l with
  | nil => intro rs h; exact h
  | cons x xs ih =>
    intro rs h
    rw [List.mapM_cons] at h ⊢
    obtain ⟨b, hb, h2⟩ := bind_ok _ _ _ h
    obtain ⟨bs, hbs, h3⟩ := bind_ok _ _ _ h2
    rw [hfg x b hb, ih bs hbs]; exact h3

theorem defaultValueX_of_ok (eB eX : Env) (l : Lit) (ty : Ty) (v : J) (h : defaultValue eX l ty = .ok v) :
    defaultValueX eB eX none l ty = .ok v := by
  unfold defaultValueX; simp [needsHidden, h]

/-- a default literal that is a value in the extended types has THAT value (whatever it is in the un-extended ones) -/
theorem buildArgumentX_of_ok (eB eX : Env) (hres : ∀ n, eX.resolves n = eB.resolves n) (a : InputValDef) (r : ArgD)
    (h : buildArgument eX a = .ok r) : buildArgumentX eB eX none a = .ok r := by
  unfold buildArgument at h
  unfold buildArgumentX
  have hc : checkRef eX a.type = checkRef eB a.type := by simp [checkRef, hres]
  rw [hc] at h
  obtain ⟨u, hu, h2⟩ := bind_ok _ _ _ h
  rw [hu]
  cases hd : a.default with
  | none => simp only [hd] at h2; exact h2
  | some l =>
    simp only [hd] at h2
    obtain ⟨v, hv, h3⟩ := bind_ok _ _ _ h2
    show (defaultValueX eB eX none l a.type >>= _) = _
    rw [defaultValueX_of_ok eB eX l a.type v hv]; exact h3

theorem buildFieldX_of_ok (eB eX : Env) (hres : ∀ n, eX.resolves n = eB.resolves n) (f : FieldDef) (r : FieldD)
    (h : buildField eX f = .ok r) : buildFieldX eB eX none f = .ok r := by
  unfold buildField at h
  unfold buildFieldX
  have hc : checkRef eX f.type = checkRef eB f.type := by simp [checkRef, hres]
  rw [hc] at h
  obtain ⟨u, hu, h2⟩ := bind_ok _ _ _ h
  obtain ⟨as, has, h3⟩ := bind_ok _ _ _ h2
  rw [hu]
  show (f.args.mapM (buildArgumentX eB eX none) >>= _) = _
  rw [mapM_of_ok _ _ (buildArgumentX_of_ok eB eX hres) _ _ has]; exact h3

theorem checkNames_congr_all (eB eX : Env) (hres : ∀ n, eX.resolves n = eB.resolves n) (ns : List String) :
    checkNames eX ns = checkNames eB ns := by
  have : eX.resolves = eB.resolves := funext hres
  simp [checkNames, this]

theorem buildTypeDefX_of_ok (eB eX : Env) (hres : ∀ n, eX.resolves n = eB.resolves n) (d : TypeDef) (r : TypeD)
    (h : buildTypeDef eX d = .ok r) : buildTypeDefX eB eX none d = .ok r := by
  unfold buildTypeDef at h
  unfold buildTypeDefX
  cases hk : d.kind <;> simp only [hk] at h ⊢
  · exact h
  · obtain ⟨fs, hfs, h1⟩ := bind_ok _ _ _ h
    rw [mapM_of_ok _ _ (buildFieldX_of_ok eB eX hres) _ _ hfs, ← checkNames_congr_all eB eX hres]; exact h1
  · obtain ⟨fs, hfs, h1⟩ := bind_ok _ _ _ h
    rw [mapM_of_ok _ _ (buildFieldX_of_ok eB eX hres) _ _ hfs]; exact h1
  · rw [← checkNames_congr_all eB eX hres]; exact h
  · exact h
  · obtain ⟨fs, hfs, h1⟩ := bind_ok _ _ _ h
    rw [mapM_of_ok _ _ (buildArgumentX_of_ok eB eX hres) _ _ hfs]; exact h1

theorem buildDirectiveX_of_ok (eB eX : Env) (hres : ∀ n, eX.resolves n = eB.resolves n) (d : DirDef) (r : DirectiveD)
    (h : buildDirective eX d = .ok r) : buildDirectiveX eB eX d = .ok r := by
  unfold buildDirective at h
  unfold buildDirectiveX
  obtain ⟨fs, hfs, h1⟩ := bind_ok _ _ _ h
  rw [mapM_of_ok _ _ (buildArgumentX_of_ok eB eX hres) _ _ hfs]; exact h1

/-! names of built members -/

theorem mapM_names {α β γ} (f : α → R β) (na : α → γ) (nb : β → γ) (hf : ∀ x y, f x = .ok y → nb y = na x) :
    ∀ (l : List α) (r : List β), l.mapM f = .ok r → r.map nb = l.map na := by
  intro l
  induction l with
  | nil => intro r h; simp [pure, Except.pure] at h; subst h; rfl
  | cons x xs ih =>
    intro r h
    rw [List.mapM_cons] at h
    obtain ⟨b, hb, h2⟩ := bind_ok _ _ _ h
    obtain ⟨bs, hbs, h3⟩ := bind_ok _ _ _ h2
    have := ok_inj h3; subst this
    simp [hf _ _ hb, ih bs hbs]

theorem buildArgument_name (env : Env) (a : InputValDef) (r : ArgD) (h : buildArgument env a = .ok r) : r.name = a.name := by
  unfold buildArgument at h
  obtain ⟨_, _, h2⟩ := bind_ok _ _ _ h
  cases hd : a.default with
  | none => simp only [hd] at h2; have := ok_inj h2; subst this; rfl
  | some l => simp only [hd] at h2; obtain ⟨_, _, h3⟩ := bind_ok _ _ _ h2; have := ok_inj h3; subst this; rfl

theorem buildArgumentX_name (eB eX : Env) (hide : Option String) (a : InputValDef) (r : ArgD) (h : buildArgumentX eB eX hide a = .ok r) : r.name = a.name := by
  unfold buildArgumentX at h
  obtain ⟨_, _, h2⟩ := bind_ok _ _ _ h
  cases hd : a.default with
  | none => simp only [hd] at h2; have := ok_inj h2; subst this; rfl
  | some l => simp only [hd] at h2; obtain ⟨_, _, h3⟩ := bind_ok _ _ _ h2; have := ok_inj h3; subst this; rfl

theorem buildField_name (env : Env) (f : FieldDef) (r : FieldD) (h : buildField env f = .ok r) : r.name = f.name := by
  unfold buildField at h
  obtain ⟨_, _, h2⟩ := bind_ok _ _ _ h
  obtain ⟨_, _, h3⟩ := bind_ok _ _ _ h2
  obtain ⟨_, _, h4⟩ := bind_ok _ _ _ h3
  have := ok_inj h4; subst this; rfl

theorem buildFieldX_name (eB eX : Env) (hide : Option String) (f : FieldDef) (r : FieldD) (h : buildFieldX eB eX hide f = .ok r) : r.name = f.name := by
  unfold buildFieldX at h
  obtain ⟨_, _, h2⟩ := bind_ok _ _ _ h
  obtain ⟨_, _, h3⟩ := bind_ok _ _ _ h2
  obtain ⟨_, _, h4⟩ := bind_ok _ _ _ h3
  have := ok_inj h4; subst this; rfl

/-- the link for a member list built by `bf` in the definition and by `bfX` in the extension step -/
theorem link_members {α β} (bf bfX : α → R β) (na : α → String) (nb : β → String)
    (hbf : ∀ x y, bf x = .ok y → nb y = na x) (hbfX : ∀ x y, bfX x = .ok y → nb y = na x)
    (sel : TypeDef → List α) (base : List α) (es : List TypeDef) (fs all : List β)
    (hfs : base.mapM bf = .ok fs) (hall : (base ++ es.flatMap sel).mapM bfX = .ok all) (hn : (all.map nb).Nodup) :
    (∀ e ∈ es, (sel e).mapM bfX = .ok (newsOf bfX sel e)) ∧ ((fs ++ es.flatMap (newsOf bfX sel)).map nb).Nodup := by
  obtain ⟨r₁, r₂, h1, h2, h3⟩ := mapM_append_inv _ _ _ _ hall
  obtain ⟨hnews, hflat⟩ := flatMap_mapM_inv bfX sel es r₂ h2
  refine ⟨hnews, ?_⟩
  have e1 := mapM_names bf na nb hbf _ _ hfs
  have e2 := mapM_names bfX na nb hbfX _ _ h1
  rw [h3, hflat, List.map_append, e2, ← e1, ← List.map_append] at hn
  exact hn

theorem link_interface (eB eX : Env) (hide : Option String) (X : List TypeDef) (t : TypeDef) (bt r : TypeD) (hkk : t.kind = .interface)
    (hb : buildTypeDef eB t = .ok bt) (hm : buildTypeDefX eB eX hide (mergeDef X t) = .ok r)
    (hk : ∀ e ∈ X, e.name = t.name → e.kind = t.kind) (hn : (r.fields.map (·.name)).Nodup) :
    ∃ c, extendTypeX eB eX hide X bt = .ok c ∧ c.name = t.name ∧ c.kind = t.kind := by
  obtain ⟨s1, s2, s3, s4, s5, s6, s7, s8⟩ := mergeDef_spec X t
  unfold buildTypeDef at hb
  unfold buildTypeDefX at hm
  rw [s1] at hm
  simp only [hkk] at hb hm
  obtain ⟨fs, hfs, hb2⟩ := bind_ok _ _ _ hb
  obtain ⟨fs', hfs', hm2⟩ := bind_ok _ _ _ hm
  have ebt := ok_inj hb2
  have er := ok_inj hm2
  rw [s4] at hfs'
  subst ebt er
  obtain ⟨hnews, hnd⟩ := link_members (buildField eB) (buildFieldX eB eX hide) (·.name) (·.name) (buildField_name eB) (buildFieldX_name eB eX hide)
    (·.fields) t.fields (mineOf X t.name) fs fs' hfs hfs' hn
  exact ⟨_, extend_interface_exact eB eX hide X { kind := .interface, name := t.name, desc := t.desc, fields := fs } rfl
    (fun e he hne => by rw [hk e he hne, hkk]) (newsOf (buildFieldX eB eX hide) (·.fields)) hnews hnd, rfl, hkk.symm⟩

theorem link_input (eB eX : Env) (hide : Option String) (X : List TypeDef) (t : TypeDef) (bt r : TypeD) (hkk : t.kind = .input)
    (hb : buildTypeDef eB t = .ok bt) (hm : buildTypeDefX eB eX hide (mergeDef X t) = .ok r)
    (hk : ∀ e ∈ X, e.name = t.name → e.kind = t.kind) (hn : (r.inputFields.map (·.name)).Nodup) :
    ∃ c, extendTypeX eB eX hide X bt = .ok c ∧ c.name = t.name ∧ c.kind = t.kind := by
  obtain ⟨s1, s2, s3, s4, s5, s6, s7, s8⟩ := mergeDef_spec X t
  unfold buildTypeDef at hb
  unfold buildTypeDefX at hm
  rw [s1] at hm
  simp only [hkk] at hb hm
  obtain ⟨fs, hfs, hb2⟩ := bind_ok _ _ _ hb
  obtain ⟨fs', hfs', hm2⟩ := bind_ok _ _ _ hm
  have ebt := ok_inj hb2
  have er := ok_inj hm2
  rw [s8] at hfs'
  subst ebt er
  obtain ⟨hnews, hnd⟩ := link_members (buildArgument eB) (buildArgumentX eB eX hide) (·.name) (·.name) (buildArgument_name eB)
    (buildArgumentX_name eB eX hide) (·.inputFields) t.inputFields (mineOf X t.name) fs fs' hfs hfs' hn
  exact ⟨_, extend_input_exact eB eX hide X { kind := .input, name := t.name, desc := t.desc, inputFields := fs } rfl
    (fun e he hne => by rw [hk e he hne, hkk]) (newsOf (buildArgumentX eB eX hide) (·.inputFields)) hnews hnd, rfl, hkk.symm⟩

theorem link_enum (eB eX : Env) (hide : Option String) (X : List TypeDef) (t : TypeDef) (bt r : TypeD) (hkk : t.kind = .enum)
    (hb : buildTypeDef eB t = .ok bt) (hm : buildTypeDefX eB eX hide (mergeDef X t) = .ok r)
    (hk : ∀ e ∈ X, e.name = t.name → e.kind = t.kind) (hn : (r.values.map (·.name)).Nodup) :
    ∃ c, extendTypeX eB eX hide X bt = .ok c ∧ c.name = t.name ∧ c.kind = t.kind := by
  obtain ⟨s1, s2, s3, s4, s5, s6, s7, s8⟩ := mergeDef_spec X t
  unfold buildTypeDef at hb
  unfold buildTypeDefX at hm
  rw [s1] at hm
  simp only [hkk] at hb hm
  obtain ⟨_, _, hb1⟩ := bind_ok _ _ _ hb
  obtain ⟨_, _, hm1⟩ := bind_ok _ _ _ hm
  obtain ⟨fs, hfs, hb2⟩ := bind_ok _ _ _ hb1
  obtain ⟨fs', hfs', hm2⟩ := bind_ok _ _ _ hm1
  have ebt := ok_inj hb2
  have er := ok_inj hm2
  rw [s7] at hfs'
  obtain ⟨r₁, r₂, h1, h2, h3⟩ := mapM_append_inv _ _ _ _ hfs'
  rw [hfs] at h1
  have e1 := ok_inj h1
  obtain ⟨hnews, hall⟩ := flatMap_mapM_inv buildEnumValue (·.values) (mineOf X t.name) r₂ h2
  subst ebt er
  exact ⟨_, extend_enum_exact eB eX hide X { kind := .enum, name := t.name, desc := t.desc, values := fs } rfl
    (fun e he hne => by rw [hk e he hne, hkk]) (newsOf buildEnumValue (·.values)) hnews
    (by simp only [] at hn ⊢; rw [h3, ← e1, hall] at hn; exact hn), rfl, hkk.symm⟩

theorem link_union (eB eX : Env) (hide : Option String) (X : List TypeDef) (t : TypeDef) (bt r : TypeD) (hkk : t.kind = .union)
    (hb : buildTypeDef eB t = .ok bt) (hm : buildTypeDefX eB eX hide (mergeDef X t) = .ok r)
    (hk : ∀ e ∈ X, e.name = t.name → e.kind = t.kind) (hn : r.members.Nodup) :
    ∃ c, extendTypeX eB eX hide X bt = .ok c ∧ c.name = t.name ∧ c.kind = t.kind := by
  obtain ⟨s1, s2, s3, s4, s5, s6, s7, s8⟩ := mergeDef_spec X t
  unfold buildTypeDef at hb
  unfold buildTypeDefX at hm
  rw [s1] at hm
  simp only [hkk] at hb hm
  obtain ⟨_, _, hb2⟩ := bind_ok _ _ _ hb
  obtain ⟨_, hc, hm2⟩ := bind_ok _ _ _ hm
  have ebt := ok_inj hb2
  have er := ok_inj hm2
  rw [s6] at hc
  have hc2 := checkNames_flatMap_inv eB (·.members) _ (checkNames_append_inv eB _ _ hc).2
  subst ebt er
  exact ⟨_, extend_union_exact eB eX hide X { kind := .union, name := t.name, desc := t.desc, members := t.members } rfl
    (fun e he hne => by rw [hk e he hne, hkk]) hc2 (by simp only [] at hn ⊢; rw [s6] at hn; exact hn), rfl, hkk.symm⟩

theorem link_scalar (eB eX : Env) (hide : Option String) (X : List TypeDef) (t : TypeDef) (bt : TypeD) (hkk : t.kind = .scalar)
    (hb : buildTypeDef eB t = .ok bt) (hk : ∀ e ∈ X, e.name = t.name → e.kind = t.kind) :
    ∃ c, extendTypeX eB eX hide X bt = .ok c ∧ c.name = t.name ∧ c.kind = t.kind := by
  unfold buildTypeDef at hb
  simp only [hkk] at hb
  have ebt := ok_inj hb
  subst ebt
  exact ⟨_, extend_scalar_exact eB eX hide X { kind := .scalar, name := t.name, desc := t.desc } rfl
    (fun e he hne => by rw [hk e he hne, hkk]), rfl, hkk.symm⟩

theorem link_object (eB eX : Env) (hide : Option String) (X : List TypeDef) (t : TypeDef) (bt r : TypeD) (hkk : t.kind = .object)
    (hb : buildTypeDef eB t = .ok bt) (hm : buildTypeDefX eB eX hide (mergeDef X t) = .ok r)
    (hk : ∀ e ∈ X, e.name = t.name → e.kind = t.kind) (hn : (r.fields.map (·.name)).Nodup) (hni : r.interfaces.Nodup) :
    ∃ c, extendTypeX eB eX hide X bt = .ok c ∧ c.name = t.name ∧ c.kind = t.kind := by
  obtain ⟨s1, s2, s3, s4, s5, s6, s7, s8⟩ := mergeDef_spec X t
  unfold buildTypeDef at hb
  unfold buildTypeDefX at hm
  rw [s1] at hm
  simp only [hkk] at hb hm
  obtain ⟨fs, hfs, hb1⟩ := bind_ok _ _ _ hb
  obtain ⟨fs', hfs', hm1⟩ := bind_ok _ _ _ hm
  obtain ⟨_, _, hb2⟩ := bind_ok _ _ _ hb1
  obtain ⟨_, hc, hm2⟩ := bind_ok _ _ _ hm1
  have ebt := ok_inj hb2
  have er := ok_inj hm2
  rw [s4] at hfs'
  rw [s5] at hc
  have hc2 := checkNames_flatMap_inv eB (·.interfaces) _ (checkNames_append_inv eB _ _ hc).2
  subst ebt er
  obtain ⟨hnews, hnd⟩ := link_members (buildField eB) (buildFieldX eB eX hide) (·.name) (·.name) (buildField_name eB) (buildFieldX_name eB eX hide)
    (·.fields) t.fields (mineOf X t.name) fs fs' hfs hfs' hn
  exact ⟨_, extend_object_exact eB eX hide X { kind := .object, name := t.name, desc := t.desc, interfaces := t.interfaces, fields := fs } rfl
    (fun e he hne => by rw [hk e he hne, hkk]) (newsOf (buildFieldX eB eX hide) (·.fields)) hnews hnd hc2
    (by simp only [] at hni ⊢; rw [s5] at hni; exact hni), rfl, hkk.symm⟩

/-- **The link** (all kinds): if the definition builds over the un-extended types, the MERGED definition builds with
    its defaults evaluated in the extended types, every extension block has the definition's kind and no member
    name is repeated in the result, then the extension step accepts the built type. -/
theorem extend_accepts_merge (eB eX : Env) (hide : Option String) (X : List TypeDef) (t : TypeDef) (bt r : TypeD)
    (hb : buildTypeDef eB t = .ok bt) (hm : buildTypeDefX eB eX hide (mergeDef X t) = .ok r)
    (hk : ∀ e ∈ X, e.name = t.name → e.kind = t.kind)
    (hn : (r.fields.map (·.name)).Nodup ∧ (r.inputFields.map (·.name)).Nodup ∧ (r.values.map (·.name)).Nodup ∧
          r.members.Nodup ∧ r.interfaces.Nodup) :
    ∃ c, extendTypeX eB eX hide X bt = .ok c ∧ c.name = t.name ∧ c.kind = t.kind := by
  cases hkk : t.kind with
  | scalar => rw [← hkk]; exact link_scalar eB eX hide X t bt hkk hb hk
  | object => rw [← hkk]; exact link_object eB eX hide X t bt r hkk hb hm hk hn.1 hn.2.2.2.2
  | interface => rw [← hkk]; exact link_interface eB eX hide X t bt r hkk hb hm hk hn.1
  | union => rw [← hkk]; exact link_union eB eX hide X t bt r hkk hb hm hk hn.2.2.2.1
  | enum => rw [← hkk]; exact link_enum eB eX hide X t bt r hkk hb hm hk hn.2.2.1
  | input => rw [← hkk]; exact link_input eB eX hide X t bt r hkk hb hm hk hn.2.1

/-! ### assembling: `build_exact_partial` (documents WITH extensions, finding S8 excluded) -/

theorem mapM_congr_mem {α β} (f g : α → R β) : ∀ (l : List α), (∀ x ∈ l, f x = g x) → l.mapM f = l.mapM g := by
  intro l
  induction l with
  | nil => intro _; rfl
  | cons x xs ih =>
    intro h
    rw [List.mapM_cons, List.mapM_cons, h x (by simp), ih (fun y hy => h y (by simp [hy]))]

theorem mapM_map_eq {α β γ} (g : α → β) (f : β → R γ) : ∀ (l : List α), (l.map g).mapM f = l.mapM (fun x => f (g x)) := by
  intro l
  induction l with
  | nil => rfl
  | cons x xs ih => rw [List.map_cons, List.mapM_cons, List.mapM_cons, ih]

/-- pointwise relation between two lists of the same length -/
inductive All₂ {α β} (P : α → β → Prop) : List α → List β → Prop
  | nil : All₂ P [] []
  | cons {a b as bs} : P a b → All₂ P as bs → All₂ P (a :: as) (b :: bs)

theorem mapM_forall₂ {α β} (f : α → R β) : ∀ (l : List α) (r : List β), l.mapM f = .ok r → All₂ (fun x y => f x = .ok y) l r := by
  intro l
  induction l with
  | nil => intro r h; simp [pure, Except.pure] at h; subst h; exact All₂.nil
  | cons x xs ih =>
    intro r h
    rw [List.mapM_cons] at h
    obtain ⟨b, hb, h2⟩ := bind_ok _ _ _ h
    obtain ⟨bs, hbs, h3⟩ := bind_ok _ _ _ h2
    simp only [pure, Except.pure, Except.ok.injEq] at h3
    subst h3
    exact All₂.cons hb (ih bs hbs)

/-- pointwise link ⇒ link of the whole registries -/
theorem mapM_link {α β γ} (P : α → β → Prop) (Q : α → γ → Prop) (h : β → R γ) :
    ∀ (l : List α) (bs : List β) (rs : List γ), All₂ P l bs → All₂ Q l rs →
      (∀ a b r, a ∈ l → r ∈ rs → P a b → Q a r → h b = .ok r) → bs.mapM h = .ok rs := by
  intro l
  induction l with
  | nil => intro bs rs h1 h2 _; cases h1; cases h2; rfl
  | cons a as ih =>
    intro bs rs h1 h2 hl
    cases h1 with
    | cons p1 t1 =>
      cases h2 with
      | cons q1 t2 =>
        rw [List.mapM_cons, hl a _ _ (by simp) (by simp) p1 q1]
        rw [ih _ _ t1 t2 (fun a' b r ha hr => hl a' b r (by simp [ha]) (by simp [hr]))]
        rfl

theorem buildTypeDef_name (env : Env) (t : TypeDef) (bt : TypeD) (h : buildTypeDef env t = .ok bt) : bt.name = t.name := by
  unfold buildTypeDef at h
  cases hk : t.kind <;> simp only [hk] at h
  · have := ok_inj h; subst this; rfl
  · obtain ⟨_, _, h1⟩ := bind_ok _ _ _ h
    obtain ⟨_, _, h2⟩ := bind_ok _ _ _ h1
    have := ok_inj h2; subst this; rfl
  · obtain ⟨_, _, h1⟩ := bind_ok _ _ _ h
    have := ok_inj h1; subst this; rfl
  · obtain ⟨_, _, h1⟩ := bind_ok _ _ _ h
    have := ok_inj h1; subst this; rfl
  · obtain ⟨_, _, h1⟩ := bind_ok _ _ _ h
    obtain ⟨_, _, h2⟩ := bind_ok _ _ _ h1
    have := ok_inj h2; subst this; rfl
  · obtain ⟨_, _, h1⟩ := bind_ok _ _ _ h
    have := ok_inj h1; subst this; rfl

theorem buildTypeDef_kind (env : Env) (t : TypeDef) (bt : TypeD) (h : buildTypeDef env t = .ok bt) : bt.kind = t.kind := by
  unfold buildTypeDef at h
  cases hk : t.kind <;> simp only [hk] at h
  · have := ok_inj h; subst this; rfl
  · obtain ⟨_, _, h1⟩ := bind_ok _ _ _ h
    obtain ⟨_, _, h2⟩ := bind_ok _ _ _ h1
    have := ok_inj h2; subst this; rfl
  · obtain ⟨_, _, h1⟩ := bind_ok _ _ _ h
    have := ok_inj h1; subst this; rfl
  · obtain ⟨_, _, h1⟩ := bind_ok _ _ _ h
    have := ok_inj h1; subst this; rfl
  · obtain ⟨_, _, h1⟩ := bind_ok _ _ _ h
    obtain ⟨_, _, h2⟩ := bind_ok _ _ _ h1
    have := ok_inj h2; subst this; rfl
  · obtain ⟨_, _, h1⟩ := bind_ok _ _ _ h
    have := ok_inj h1; subst this; rfl

theorem forall₂_names (env : Env) : ∀ (l : List TypeDef) (bs : List TypeD),
    All₂ (fun t bt => buildTypeDef env t = .ok bt) l bs → bs.map (·.name) = l.map (·.name) := by
  intro l bs h
  induction h with
  | nil => rfl
  | cons p _ ih => simp [buildTypeDef_name env _ _ p, ih]

theorem typeExtensions_all (live : Live) : ∀ (doc : Doc),
    (∀ e ∈ typeExts doc, live.types.any (·.name == e.name) = true) → typeExtensions live doc = typeExts doc := by
  intro doc
  induction doc with
  | nil => intro _; rfl
  | cons d ds ih =>
    intro h
    cases d with
    | ext e =>
      have he : live.types.any (·.name == e.name) = true := h e (by simp [typeExts])
      have := ih (fun e' he' => h e' (by simp [typeExts] at he' ⊢; exact Or.inr he'))
      simp only [typeExtensions, typeExts, List.filterMap_cons, he, Bool.or_true, if_true] at this ⊢
      rw [this]
    | type t => simpa [typeExtensions, typeExts] using ih (by simpa [typeExts] using h)
    | directive t => simpa [typeExtensions, typeExts] using ih (by simpa [typeExts] using h)
    | schema t => simpa [typeExtensions, typeExts] using ih (by simpa [typeExts] using h)
    | schemaExt t => simpa [typeExtensions, typeExts] using ih (by simpa [typeExts] using h)
    | other => simpa [typeExtensions, typeExts] using ih (by simpa [typeExts] using h)

theorem nodup_map_inj {α} (f : α → String) : ∀ (l : List α), (l.map f).Nodup → ∀ x ∈ l, ∀ y ∈ l, f x = f y → x = y := by
  intro l
  induction l with
  | nil => intro _ x hx; simp at hx
  | cons a as ih =>
    intro hn x hx y hy hxy
    simp only [List.map_cons, List.nodup_cons] at hn
    rcases List.mem_cons.mp hx with rfl | hx' <;> rcases List.mem_cons.mp hy with rfl | hy'
    · rfl
    · exact absurd (List.mem_map.mpr ⟨y, hy', hxy.symm⟩) hn.1
    · exact absurd (List.mem_map.mpr ⟨x, hx', hxy⟩) hn.1
    · exact ih hn.2 x hx' y hy' hxy

theorem find_name_of_mem {α} (name : α → String) : ∀ (l : List α), (l.map name).Nodup → ∀ t ∈ l,
    l.find? (fun x => name x == name t) = some t := by
  intro l
  induction l with
  | nil => intro _ t ht; simp at ht
  | cons a as ih =>
    intro hn t ht
    simp only [List.map_cons, List.nodup_cons] at hn
    rcases List.mem_cons.mp ht with rfl | ht'
    · simp
    · have hne : (name a == name t) = false := by
        rw [beq_eq_false_iff_ne]
        intro h
        exact hn.1 (h ▸ List.mem_map_of_mem ht')
      rw [List.find?_cons, hne]
      exact ih hn.2 t ht'

/-- pointwise acceptance ⇒ the whole registry is accepted, with the pointwise facts kept -/
theorem mapM_link_ex {α β γ} (P : α → β → Prop) (Q : α → γ → Prop) (h : β → R γ) :
    ∀ (l : List α) (bs : List β), All₂ P l bs → (∀ a b, a ∈ l → P a b → ∃ c, h b = .ok c ∧ Q a c) →
      ∃ cs, bs.mapM h = .ok cs ∧ All₂ Q l cs := by
  intro l bs h1
  induction h1 with
  | nil => intro _; exact ⟨[], rfl, All₂.nil⟩
  | @cons a b as bs p _ ih =>
    intro hl
    obtain ⟨c, hc, hq⟩ := hl a b (by simp) p
    obtain ⟨cs, hcs, hqs⟩ := ih (fun a' b' ha' hp' => hl a' b' (by simp [ha']) hp')
    exact ⟨c :: cs, by rw [List.mapM_cons, hc, hcs]; rfl, All₂.cons hq hqs⟩

theorem buildDirective_name (env : Env) (dd : DirDef) (r : DirectiveD) (h : buildDirective env dd = .ok r) : r.name = dd.name := by
  unfold buildDirective at h
  obtain ⟨_, _, h2⟩ := bind_ok _ _ _ h
  have := ok_inj h2; subst this; rfl

theorem any_map_name {α} (name : α → String) (p : String → Bool) (l : List α) : l.any (fun x => p (name x)) = (l.map name).any p := by
  induction l with
  | nil => rfl
  | cons x xs ih => simp [ih]

/-- The rules for a document WITH extensions. `baseBuilds` / `baseDirectives` are what is left of **NoS8** after fix
    C14-T15: the definitions and the directive definitions build ON THEIR OWN, i.e. no default value written in a
    DEFINITION needs a member that only an `extend` block of the same document declares (such a document is still
    refused by the first pass of `build_schema`; a default written in an extension block may use such members, and
    every default is evaluated in the extended types). -/
structure ValidExt (doc : Doc) (d : SchemaD) (bts : List TypeD) : Prop where
  uniqueTypes : ((typeDefs doc).map (·.name)).Nodup
  uniqueDirectives : ((dirDefs doc).map (·.name)).Nodup
  oneSchema : (schemaDefs doc).length ≤ 1
  noBuiltinNames : ∀ t ∈ typeDefs doc, isDefaultName t.name = false
  /-- every extension extends a defined type of its own kind -/
  extTargets : ∀ e ∈ typeExts doc, ∃ t ∈ typeDefs doc, t.name = e.name ∧ t.kind = e.kind
  declares : Declared doc = some d
  baseBuilds : (typeDefs doc).mapM (buildTypeDef (Env.of (typeDefs doc))) = .ok bts
  baseDirectives : ∃ bds, (dirDefs doc).mapM (buildDirective (Env.of (typeDefs doc))) = .ok bds
  /-- the other thing fix C14-T15 leaves: the fields of an input type are extended while the type itself is "in
      progress", so a default of one of ITS OWN fields which needs the type again is not evaluated in the extended
      types. Excluded: hiding the type changes nothing (trivially so for the other kinds, `selfDefaults_of_kind`,
      and for input types without such defaults, `selfDefaults_of_noDefaults`). -/
  selfDefaults : ¬ ((typeExts doc).isEmpty && (schemaExtensions doc).isEmpty) = true → ∀ t ∈ typeDefs doc,
      buildTypeDefX (Env.of (typeDefs doc)) ((Env.of (typeDefs doc)).extended (typeExts doc)) (hideFor t.kind t.name) (mergeDef (typeExts doc) t)
        = buildTypeDefX (Env.of (typeDefs doc)) ((Env.of (typeDefs doc)).extended (typeExts doc)) none (mergeDef (typeExts doc) t)
  /-- no member name is repeated among a definition and its extensions -/
  membersUnique : ∀ r ∈ d.types, (r.fields.map (·.name)).Nodup ∧ (r.inputFields.map (·.name)).Nodup ∧ (r.values.map (·.name)).Nodup ∧
      r.members.Nodup ∧ r.interfaces.Nodup
  noThunkCycle : hasThunkCycle (Env.of (typeDefs doc)) (typeDefs doc) = false
  noEagerCycleBase : hasEagerCycle bts = false
  noEagerCycle : hasEagerCycle d.types = false
  noSpecified : d.directives.any (fun x => specifiedDirectives.contains x.name) = false
  /-- operations of the `schema` block and of the `extend schema` blocks are distinct and name known types -/
  rootsOk : ∃ r0, buildRoots (Env.of (typeDefs doc)) (schemaDefs doc).head? bts = .ok r0 ∧
      (schemaExtensions doc).foldlM (fun r se => addOps (fun n => isDefaultName n || d.types.any (·.name == n)) (.lib .ext) r se.ops) r0
        = .ok ⟨d.query, d.mutation, d.subscription⟩

/-- the extension step accepts the built definitions, and what it registers — every type rebuilt from its merged
    definition with the defaults evaluated in the extended types — is exactly the declared content
    (the registry-level form of `extend_accepts_merge`) -/
theorem ext_types (doc : Doc) (d : SchemaD) (bts : List TypeD)
    (uniqueTypes : ((typeDefs doc).map (·.name)).Nodup)
    (extTargets : ∀ e ∈ typeExts doc, ∃ t ∈ typeDefs doc, t.name = e.name ∧ t.kind = e.kind)
    (declares : Declared doc = some d)
    (baseBuilds : (typeDefs doc).mapM (buildTypeDef (Env.of (typeDefs doc))) = .ok bts)
    (selfDefaults : ∀ t ∈ typeDefs doc,
      buildTypeDefX (Env.of (typeDefs doc)) ((Env.of (typeDefs doc)).extended (typeExts doc)) (hideFor t.kind t.name) (mergeDef (typeExts doc) t)
        = buildTypeDefX (Env.of (typeDefs doc)) ((Env.of (typeDefs doc)).extended (typeExts doc)) none (mergeDef (typeExts doc) t))
    (membersUnique : ∀ r ∈ d.types, (r.fields.map (·.name)).Nodup ∧ (r.inputFields.map (·.name)).Nodup ∧ (r.values.map (·.name)).Nodup ∧
      r.members.Nodup ∧ r.interfaces.Nodup) :
    ∃ cs, bts.mapM (fun t => extendTypeX (Env.of (typeDefs doc)) ((Env.of (typeDefs doc)).extended (typeExts doc)) (hideFor t.kind t.name)
        (typeExts doc) t) = .ok cs ∧
      cs.mapM (fun t => reDefault (Env.of (typeDefs doc)) ((Env.of (typeDefs doc)).extended (typeExts doc)) (hideFor t.kind t.name)
        (typeExts doc) t) = .ok d.types := by
  obtain ⟨hts, _, _⟩ := declared_parts doc d declares
  have hres := extended_resolves (Env.of (typeDefs doc)) (typeExts doc)
  have hX : (Env.of (typeDefs doc)).extended (typeExts doc) = Env.of (merged doc) := extended_eq _ _
  have hP := mapM_forall₂ _ _ _ baseBuilds
  -- the merged definitions, defaults evaluated in the extended types
  have hQ : All₂ (fun t r => buildTypeDefX (Env.of (typeDefs doc)) ((Env.of (typeDefs doc)).extended (typeExts doc)) (hideFor t.kind t.name)
      (mergeDef (typeExts doc) t) = .ok r) (typeDefs doc) d.types := by
    have h1 : (typeDefs doc).mapM (fun t => buildTypeDefX (Env.of (typeDefs doc)) ((Env.of (typeDefs doc)).extended (typeExts doc)) (hideFor t.kind t.name)
        (mergeDef (typeExts doc) t)) = .ok d.types := by
      rw [mapM_congr_mem _ _ _ selfDefaults, ← mapM_map_eq]
      refine mapM_of_ok _ _ (buildTypeDefX_of_ok _ _ hres) _ _ ?_
      rw [hX]; exact hts
    exact mapM_forall₂ _ _ _ h1
  -- the pointwise facts: P t bt (built), Q t r (declared)
  have hPQ : All₂ (fun t (br : TypeD × TypeD) => buildTypeDef (Env.of (typeDefs doc)) t = .ok br.1 ∧
      buildTypeDefX (Env.of (typeDefs doc)) ((Env.of (typeDefs doc)).extended (typeExts doc)) (hideFor t.kind t.name) (mergeDef (typeExts doc) t) = .ok br.2 ∧
      br.2 ∈ d.types) (typeDefs doc) (bts.zip d.types) := by
    have : ∀ (l : List TypeDef) (bs rs : List TypeD) (sub : ∀ r ∈ rs, r ∈ d.types),
        All₂ (fun t bt => buildTypeDef (Env.of (typeDefs doc)) t = .ok bt) l bs →
        All₂ (fun t r => buildTypeDefX (Env.of (typeDefs doc)) ((Env.of (typeDefs doc)).extended (typeExts doc)) (hideFor t.kind t.name) (mergeDef (typeExts doc) t) = .ok r) l rs →
        All₂ (fun t (br : TypeD × TypeD) => buildTypeDef (Env.of (typeDefs doc)) t = .ok br.1 ∧
          buildTypeDefX (Env.of (typeDefs doc)) ((Env.of (typeDefs doc)).extended (typeExts doc)) (hideFor t.kind t.name) (mergeDef (typeExts doc) t) = .ok br.2 ∧
          br.2 ∈ d.types) l (bs.zip rs) := by
      intro l bs rs sub h1
      induction h1 generalizing rs with
      | nil => intro h2; cases h2; exact All₂.nil
      | cons p _ ih =>
        intro h2
        cases h2 with
        | cons q t2 => exact All₂.cons ⟨p, q, sub _ (by simp)⟩ (ih _ (fun r hr => sub r (by simp [hr])) t2)
    exact this _ _ _ (fun _ h => h) hP hQ
  -- step 1: the extension step accepts every built definition
  have hacc : ∃ cs, bts.mapM (fun t => extendTypeX (Env.of (typeDefs doc)) ((Env.of (typeDefs doc)).extended (typeExts doc)) (hideFor t.kind t.name)
        (typeExts doc) t) = .ok cs ∧
      All₂ (fun t (c : TypeD) => c.name = t.name ∧ c.kind = t.kind) (typeDefs doc) cs := by
    have hzip : ∀ (l : List TypeDef) (bs rs : List TypeD) (P : TypeDef → TypeD × TypeD → Prop), All₂ P l (bs.zip rs) →
        All₂ (fun t bt => ∃ r, P t (bt, r)) l (bs.take (bs.zip rs).length) := by
      intro l bs rs P h
      induction l generalizing bs rs with
      | nil => cases bs <;> cases rs <;> simp at h ⊢ <;> first | exact All₂.nil | (cases h)
      | cons a as ih =>
        cases bs with
        | nil => simp at h; cases h
        | cons b bs' =>
          cases rs with
          | nil => simp at h; cases h
          | cons r rs' =>
            simp only [List.zip_cons_cons, List.length_cons, List.take_succ_cons] at h ⊢
            cases h with
            | cons p t => exact All₂.cons ⟨r, p⟩ (ih _ _ t)
    have hlen : (bts.zip d.types).length = bts.length := by
      have l1 : ∀ (l : List TypeDef) (bs : List TypeD) (P : TypeDef → TypeD → Prop), All₂ P l bs → bs.length = l.length := by
        intro l bs P h; induction h with | nil => rfl | cons _ _ ih => simp [ih]
      rw [List.length_zip, l1 _ _ _ hP, l1 _ _ _ hQ]; simp
    have h3 := hzip _ _ _ _ hPQ
    rw [hlen, List.take_length] at h3
    refine mapM_link_ex _ _ _ _ _ h3 ?_
    intro t bt ht ⟨r, hb, hm, hr⟩
    obtain ⟨hbn, hbk⟩ : bt.name = t.name ∧ bt.kind = t.kind := ⟨buildTypeDef_name _ _ _ hb, buildTypeDef_kind _ _ _ hb⟩
    show ∃ c, extendTypeX _ _ (hideFor bt.kind bt.name) _ bt = .ok c ∧ _
    rw [hbn, hbk]
    refine extend_accepts_merge _ _ _ _ t bt r hb hm ?_ (membersUnique r hr)
    intro e he hne
    obtain ⟨t', ht', hn', hk'⟩ := extTargets e he
    have : t' = t := nodup_map_inj (·.name) _ uniqueTypes t' ht' t ht (hn'.trans hne)
    rw [← hk', this]
  obtain ⟨cs, hcs, hnames⟩ := hacc
  refine ⟨cs, hcs, ?_⟩
  -- step 2: every type is rebuilt from its merged definition
  refine mapM_link _ _ _ _ _ _ hnames hQ ?_
  intro t c r ht _ hc hm
  show reDefault _ _ (hideFor c.kind c.name) _ c = .ok r
  unfold reDefault
  have hfa : (Env.of (typeDefs doc)).findAdditional c.name = none := by simp [Env.of]
  have hfd : (Env.of (typeDefs doc)).findDef c.name = some t := by
    rw [hc.1]; exact find_name_of_mem (·.name) _ uniqueTypes t ht
  rw [hfa, hfd, hc.1, hc.2]
  exact hm

/-- **build_exact_partial**: a valid document WITH extensions whose DEFINITIONS build on their own (what is left of
    finding S8) builds, and the schema is exactly the declared content: every extension merged into its target in
    document order, every default value evaluated in the extended types.
    OMITS (closed elsewhere): `ValidExt` takes the built definitions `bts` and three facts about them (`baseBuilds`,
    `noEagerCycleBase`, `rootsOk`) as premises — derived in `build_exact_of_baseDefaults` / `build_exact_final`
    (`SdlOK`), and from the rules of the specification alone + the S8/S1b residue in `build_exact_spec`
    (Props/C11_valid.lean; each residue premise necessary: `residue_necessary`); the flags — `ignore_extensions=True` is
    `build_exact_ignoreExtensions` (Props/C11_flags.lean). Still open: `additional_types` (supplied types) in the exactness
    statement. -/
theorem build_exact_partial (doc : Doc) (d : SchemaD) (bts : List TypeD) (v : ValidExt doc d bts) : build doc = .ok d := by
  obtain ⟨c, hc, hct, hcd, hcs⟩ := collect_ok doc v.uniqueTypes v.uniqueDirectives v.oneSchema v.noBuiltinNames
  obtain ⟨hts, hds, hd⟩ := declared_parts doc d v.declares
  obtain ⟨r0, hr0, hrx⟩ := v.rootsOk
  obtain ⟨bds, hdirs⟩ := v.baseDirectives
  have hres := extended_resolves (Env.of (typeDefs doc)) (typeExts doc)
  have hX : (Env.of (typeDefs doc)).extended (typeExts doc) = Env.of (merged doc) := extended_eq _ _
  -- names of the built directive definitions
  have hbdn : bds.map (·.name) = (dirDefs doc).map (·.name) := mapM_names _ (·.name) (·.name) (buildDirective_name _) _ _ hdirs
  have hddn : d.directives.map (·.name) = (dirDefs doc).map (·.name) := mapM_names _ (·.name) (·.name) (buildDirective_name _) _ _ hds
  have hspec0 : bds.any (fun x => specifiedDirectives.contains x.name) = false := by
    have h0 := v.noSpecified
    have e1 := any_map_name (fun x : DirectiveD => x.name) (fun n => specifiedDirectives.contains n) d.directives
    have e2 := any_map_name (fun x : DirectiveD => x.name) (fun n => specifiedDirectives.contains n) bds
    rw [e2, hbdn, ← hddn, ← e1]; exact h0
  -- the definitions alone
  have hbt := mapM_buildType (typeDefs doc) (typeDefs doc) bts v.noBuiltinNames v.baseBuilds
  have hP := mapM_forall₂ _ _ _ v.baseBuilds
  have hnames := forall₂_names _ _ _ hP
  -- every extension finds its target among the built types
  have htexts : ∀ live : Live, live.types = bts → typeExtensions live doc = typeExts doc := by
    intro live hl
    apply typeExtensions_all
    intro e he
    obtain ⟨t, ht, hn, _⟩ := v.extTargets e he
    rw [hl, List.any_eq_true]
    have : e.name ∈ bts.map (·.name) := by rw [hnames, ← hn]; exact List.mem_map_of_mem ht
    obtain ⟨bt, hbt1, hbt2⟩ := List.mem_map.mp this
    exact ⟨bt, hbt1, by simp [hbt2]⟩
  -- directive definitions: argument defaults evaluated in the extended types
  have hdx : bds.mapM (reDefaultDirective (Env.of (typeDefs doc)) ((Env.of (typeDefs doc)).extended (typeExts doc)) doc) = .ok d.directives := by
    have hB := mapM_forall₂ _ _ _ hdirs
    have hD := mapM_forall₂ _ _ _ hds
    refine mapM_link _ _ _ _ _ _ hB hD ?_
    intro dd bd r hdd _ hb hm
    unfold reDefaultDirective
    have hf : (directiveDefs doc).find? (·.name == bd.name) = some dd := by
      rw [buildDirective_name _ _ _ hb]; exact find_name_of_mem (·.name) _ v.uniqueDirectives dd hdd
    rw [hf]
    refine buildDirectiveX_of_ok _ _ hres dd r ?_
    rw [hX]; exact hm
  have hthunk := v.noThunkCycle
  have hcyc0 := v.noEagerCycleBase
  have hcyc := v.noEagerCycle
  simp only [build, buildIgnoringExtensions, hc, bind, Except.bind, buildCollected, failIf, hct, hcd, hcs, hthunk, hdirs, hbt,
    filterMap_id_map_some, hcyc0, hr0, hspec0, Bool.false_eq_true, if_false, pure, Except.pure, referencedAdditional,
    List.filter_nil, List.append_nil, extendSchema]
  rw [htexts _ rfl]
  by_cases hE : ((typeExts doc).isEmpty && (schemaExtensions doc).isEmpty) = true
  · -- no extension at all: the early return of extend_schema
    simp only [hE, if_true, toSchemaD]
    simp only [Bool.and_eq_true, List.isEmpty_iff] at hE
    have hXn := hE.1
    have hS := hE.2
    rw [hS] at hrx
    simp only [List.foldlM_nil, pure, Except.pure] at hrx
    have er := ok_inj hrx
    have hm := merged_noext doc hXn
    rw [hm] at hts hds
    rw [v.baseBuilds] at hts
    rw [hdirs] at hds
    have eb := ok_inj hts
    have ed := ok_inj hds
    rw [eb, er, ed]
    exact congrArg Except.ok hd.symm
  · -- no extension targets a specified type: every target is a definition of the document
    have hkind : (typeExts doc).any (fun e => isDefaultName e.name && e.kind != builtinKind e.name) = false := by
      rw [List.any_eq_false]
      intro e he
      obtain ⟨t, ht, hn, _⟩ := v.extTargets e he
      have := v.noBuiltinNames t ht
      rw [hn] at this
      simp [this]
    obtain ⟨cs, hchk, hext⟩ := ext_types doc d bts v.uniqueTypes v.extTargets v.declares v.baseBuilds (v.selfDefaults hE) v.membersUnique
    simp only [hE, Bool.false_eq_true, if_false, hkind, hchk, hext, hdx, hcyc, hrx, toSchemaD]
    exact congrArg Except.ok hd.symm

/-- non-vacuity of `ValidExt`: every extension-free valid document (e.g. `exDoc` of `C11_exact.lean`) whose members
    have unique names satisfies it; the generated documents of the correspondence are the instances with
    extensions (`baseBuilds`/`baseDirectives` are exactly what the check's S8 classification tests). -/
theorem validExt_of_noext (doc : Doc) (d : SchemaD) (v : ValidNoExt doc d)
    (hu : ∀ r ∈ d.types, (r.fields.map (·.name)).Nodup ∧ (r.inputFields.map (·.name)).Nodup ∧ (r.values.map (·.name)).Nodup ∧
      r.members.Nodup ∧ r.interfaces.Nodup) : ValidExt doc d d.types := by
  have hm := merged_noext doc v.noTypeExt
  obtain ⟨hts, hds, _⟩ := declared_parts doc d v.declares
  rw [hm] at hts hds
  exact
    { uniqueTypes := v.uniqueTypes, uniqueDirectives := v.uniqueDirectives, oneSchema := v.oneSchema,
      noBuiltinNames := v.noBuiltinNames,
      extTargets := by intro e he; rw [v.noTypeExt] at he; simp at he,
      declares := v.declares, baseBuilds := hts,
      baseDirectives := ⟨_, hds⟩,
      selfDefaults := by intro h; exact absurd (by simp [v.noTypeExt, v.noSchemaExt]) h,
      membersUnique := hu, noThunkCycle := v.noThunkCycle, noEagerCycleBase := v.noEagerCycle, noEagerCycle := v.noEagerCycle,
      noSpecified := v.noSpecified,
      rootsOk := ⟨_, v.rootsOk, by rw [v.noSchemaExt]; rfl⟩ }

/-! ### independence of the order of definitions, WITH extensions -/

theorem merged_names (doc : Doc) : (merged doc).map (·.name) = (typeDefs doc).map (·.name) := by
  simp only [merged, List.map_map]
  apply List.map_congr_left
  intro t _
  exact (mergeDef_spec (typeExts doc) t).2.1

/-- **build_perm**: two valid documents with the same definitions in a different ORDER — the extension blocks of
    every target (and the `extend schema` blocks) keeping their relative order — build schemas with the same
    content: the same types with the same members in the same member order, the same directive definitions and
    the same root operation types. -/
theorem build_perm (doc₁ doc₂ : Doc) (d₁ d₂ : SchemaD) (b₁ b₂ : List TypeD) (v₁ : ValidExt doc₁ d₁ b₁) (v₂ : ValidExt doc₂ d₂ b₂)
    (hp : doc₁.Perm doc₂) (hx : typeExts doc₁ = typeExts doc₂) (hsx : schemaExtensions doc₁ = schemaExtensions doc₂) :
    build doc₁ = .ok d₁ ∧ build doc₂ = .ok d₂ ∧ d₁.types.Perm d₂.types ∧ d₁.directives.Perm d₂.directives ∧
      d₁.query = d₂.query ∧ d₁.mutation = d₂.mutation ∧ d₁.subscription = d₂.subscription := by
  obtain ⟨ht1, hd1, _⟩ := declared_parts doc₁ d₁ v₁.declares
  obtain ⟨ht2, hd2, _⟩ := declared_parts doc₂ d₂ v₂.declares
  have hmp : (merged doc₁).Perm (merged doc₂) := by
    simp only [merged, hx]
    exact (typeDefs_perm hp).map _
  have henv : Env.of (merged doc₁) = Env.of (merged doc₂) :=
    env_perm hmp (by rw [merged_names]; exact v₁.uniqueTypes)
  rw [henv] at ht1 hd1
  have hT : d₁.types.Perm d₂.types := by
    obtain ⟨r, hr, hperm⟩ := mapM_perm _ hmp _ ht1
    rw [ht2] at hr; cases hr; exact hperm
  have hD : d₁.directives.Perm d₂.directives := by
    obtain ⟨r, hr, hperm⟩ := mapM_perm _ (dirDefs_perm hp) _ hd1
    rw [hd2] at hr; cases hr; exact hperm
  have r1 := declared_roots doc₁ d₁ v₁.declares
  have r2 := declared_roots doc₂ d₂ v₂.declares
  have hs : schemaDefs doc₁ = schemaDefs doc₂ := perm_short (hp.filterMap _) v₁.oneSchema
  have hr : declaredRoots doc₁ d₁.types = declaredRoots doc₂ d₂.types := by
    simp only [declaredRoots, hsx, hs]
    cases schemaDefs doc₂ with
    | cons sd _ => rfl
    | nil =>
      simp only [defaultRoots]
      rw [any_perm _ hT, any_perm _ hT, any_perm _ hT]
  rw [← r1, ← r2] at hr
  refine ⟨build_exact_partial doc₁ d₁ b₁ v₁, build_exact_partial doc₂ d₂ b₂ v₂, hT, hD, ?_⟩
  simpa [Roots.mk.injEq] using hr

end PyGql.Props.C11

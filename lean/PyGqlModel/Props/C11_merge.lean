/-
  C11 — extensions: `_extend_<kind>_type` applied to a built type equals building the MERGED definition
  (definition followed by its extension blocks in document order), for every kind of type.
-/
import PyGqlModel.Sdl
import PyGqlModel.Spec.SdlSpec
import PyGqlModel.Props.C11_exact

set_option linter.unusedVariables false
set_option linter.unusedSimpArgs false

namespace PyGql.Props.C11
open PyGql PyGql.Sdl PyGql.SdlSpec

/-- the extension blocks of a type -/
abbrev mineOf (exts : List TypeDef) (n : String) : List TypeDef := exts.filter (·.name == n)

private theorem kinds_ok (exts : List TypeDef) (t : TypeD) (k : Kind) (hk : t.kind = k)
    (hkinds : ∀ e ∈ exts, e.name = t.name → e.kind = k) :
    ((exts.filter (·.name == t.name)).any fun e => e.kind != k) = false := by
  rw [List.any_eq_false]
  intro e he
  simp only [List.mem_filter, beq_iff_eq] at he
  simp [hkinds e he.1 he.2]

/-- the fold of `_extend_object_type` / `_extend_union_type` over names (interfaces, union members) -/
theorem names_merge_exact (env : Env) (sel : TypeDef → List String) :
    ∀ (exts : List TypeDef) (base : List String),
      (∀ e ∈ exts, checkNames env (sel e) = .ok ()) → (base ++ exts.flatMap sel).Nodup →
      exts.foldlM (fun acc e => do checkNames env (sel e); appendNew (.lib .ext) id acc (sel e)) base = .ok (base ++ exts.flatMap sel) := by
  intro exts
  induction exts with
  | nil => intro base _ _; simp [pure, Except.pure]
  | cons e es ih =>
    intro base hb hn
    have he := hb e (by simp)
    have hn1 : ((base ++ sel e).map id).Nodup := by
      simp only [List.flatMap_cons, ← List.append_assoc, List.map_id] at hn ⊢
      exact (List.nodup_append.mp hn).1
    have step : (do checkNames env (sel e); appendNew (.lib .ext) id base (sel e)) = Except.ok (base ++ sel e) := by
      rw [he]; exact appendNew_ok_of_nodup (.lib .ext) id (sel e) base hn1
    have hn2 : ((base ++ sel e) ++ es.flatMap sel).Nodup := by
      simpa [List.flatMap_cons, List.append_assoc] using hn
    have := ih (base ++ sel e) (fun e' he' => hb e' (by simp [he'])) hn2
    rw [List.foldlM_cons, List.flatMap_cons, ← List.append_assoc]
    show ((do checkNames env (sel e); appendNew (.lib .ext) id base (sel e)) >>= fun acc' => es.foldlM _ acc') = _
    rw [step]
    exact this

theorem extend_scalar_exact (env : Env) (exts : List TypeDef) (t : TypeD) (hk : t.kind = .scalar)
    (hkinds : ∀ e ∈ exts, e.name = t.name → e.kind = .scalar) : extendType env exts t = .ok t := by
  have hmine := kinds_ok exts t .scalar hk hkinds
  unfold extendType
  simp only [hmine, failIf, Bool.false_eq_true, if_false, hk]
  rfl

theorem extend_interface_exact (env : Env) (exts : List TypeDef) (t : TypeD) (hk : t.kind = .interface)
    (hkinds : ∀ e ∈ exts, e.name = t.name → e.kind = .interface) (news : TypeDef → List FieldD)
    (hb : ∀ e ∈ exts.filter (·.name == t.name), e.fields.mapM (buildField env) = .ok (news e))
    (hn : ((t.fields ++ (exts.filter (·.name == t.name)).flatMap news).map (·.name)).Nodup) :
    extendType env exts t = .ok { t with fields := t.fields ++ (exts.filter (·.name == t.name)).flatMap news } := by
  have hmine := kinds_ok exts t .interface hk hkinds
  have := extension_merge_exact (.lib .ext) (buildField env) (·.name) (·.fields) (exts.filter (·.name == t.name)) t.fields news hb hn
  unfold extendType
  simp only [hmine, failIf, Bool.false_eq_true, if_false, hk]
  rw [this]
  rfl

theorem extend_input_exact (env : Env) (exts : List TypeDef) (t : TypeD) (hk : t.kind = .input)
    (hkinds : ∀ e ∈ exts, e.name = t.name → e.kind = .input) (news : TypeDef → List ArgD)
    (hb : ∀ e ∈ exts.filter (·.name == t.name), e.inputFields.mapM (buildArgument env) = .ok (news e))
    (hn : ((t.inputFields ++ (exts.filter (·.name == t.name)).flatMap news).map (·.name)).Nodup) :
    extendType env exts t = .ok { t with inputFields := t.inputFields ++ (exts.filter (·.name == t.name)).flatMap news } := by
  have hmine := kinds_ok exts t .input hk hkinds
  have := extension_merge_exact (.lib .ext) (buildArgument env) (·.name) (·.inputFields) (exts.filter (·.name == t.name)) t.inputFields news hb hn
  unfold extendType
  simp only [hmine, failIf, Bool.false_eq_true, if_false, hk]
  rw [this]
  rfl

theorem extend_union_exact (env : Env) (exts : List TypeDef) (t : TypeD) (hk : t.kind = .union)
    (hkinds : ∀ e ∈ exts, e.name = t.name → e.kind = .union)
    (hb : ∀ e ∈ exts.filter (·.name == t.name), checkNames env e.members = .ok ())
    (hn : (t.members ++ (exts.filter (·.name == t.name)).flatMap (·.members)).Nodup) :
    extendType env exts t = .ok { t with members := t.members ++ (exts.filter (·.name == t.name)).flatMap (·.members) } := by
  have hmine := kinds_ok exts t .union hk hkinds
  have := names_merge_exact env (·.members) (exts.filter (·.name == t.name)) t.members hb hn
  unfold extendType
  simp only [hmine, failIf, Bool.false_eq_true, if_false, hk]
  rw [this]
  rfl

theorem extend_object_exact (env : Env) (exts : List TypeDef) (t : TypeD) (hk : t.kind = .object)
    (hkinds : ∀ e ∈ exts, e.name = t.name → e.kind = .object) (news : TypeDef → List FieldD)
    (hb : ∀ e ∈ exts.filter (·.name == t.name), e.fields.mapM (buildField env) = .ok (news e))
    (hn : ((t.fields ++ (exts.filter (·.name == t.name)).flatMap news).map (·.name)).Nodup)
    (hbi : ∀ e ∈ exts.filter (·.name == t.name), checkNames env e.interfaces = .ok ())
    (hni : (t.interfaces ++ (exts.filter (·.name == t.name)).flatMap (·.interfaces)).Nodup) :
    extendType env exts t = .ok { t with fields := t.fields ++ (exts.filter (·.name == t.name)).flatMap news,
                                         interfaces := t.interfaces ++ (exts.filter (·.name == t.name)).flatMap (·.interfaces) } := by
  have hmine := kinds_ok exts t .object hk hkinds
  have h1 := extension_merge_exact (.lib .ext) (buildField env) (·.name) (·.fields) (exts.filter (·.name == t.name)) t.fields news hb hn
  have h2 := names_merge_exact env (·.interfaces) (exts.filter (·.name == t.name)) t.interfaces hbi hni
  unfold extendType
  simp only [hmine, failIf, Bool.false_eq_true, if_false, hk]
  rw [h1, h2]
  rfl

/-! ### inversion lemmas -/

theorem bind_ok {α β} (x : R α) (f : α → R β) (b : β) (h : (x >>= f) = .ok b) : ∃ a, x = .ok a ∧ f a = .ok b := by
  cases x with
  | error e => simp [bind, Except.bind] at h
  | ok a => exact ⟨a, rfl, by simpa [bind, Except.bind] using h⟩

theorem mapM_append_inv {α β} (f : α → R β) : ∀ (l₁ l₂ : List α) (r : List β), (l₁ ++ l₂).mapM f = .ok r →
    ∃ r₁ r₂, l₁.mapM f = .ok r₁ ∧ l₂.mapM f = .ok r₂ ∧ r = r₁ ++ r₂ := by
  intro l₁
  induction l₁ with
  | nil => intro l₂ r h; exact ⟨[], r, by simp [pure, Except.pure], by simpa using h, rfl⟩
  | cons x xs ih =>
    intro l₂ r h
    rw [List.cons_append, List.mapM_cons] at h
    obtain ⟨b, hb, h2⟩ := bind_ok _ _ _ h
    obtain ⟨bs, hbs, h3⟩ := bind_ok _ _ _ h2
    simp only [pure, Except.pure, Except.ok.injEq] at h3
    obtain ⟨r₁, r₂, e1, e2, e3⟩ := ih l₂ bs hbs
    refine ⟨b :: r₁, r₂, ?_, e2, by rw [← h3, e3]; rfl⟩
    rw [List.mapM_cons, hb, e1]; rfl

/-- the built members of each block, read off the (successful) build of all blocks' members -/
def newsOf {E α β} (f : α → R β) (sel : E → List α) (e : E) : List β :=
  match (sel e).mapM f with | .ok r => r | .error _ => []

theorem flatMap_mapM_inv {E α β} (f : α → R β) (sel : E → List α) : ∀ (es : List E) (all : List β),
    (es.flatMap sel).mapM f = .ok all → (∀ e ∈ es, (sel e).mapM f = .ok (newsOf f sel e)) ∧ all = es.flatMap (newsOf f sel) := by
  intro es
  induction es with
  | nil => intro all h; simp [pure, Except.pure] at h; subst h; simp
  | cons e es ih =>
    intro all h
    rw [List.flatMap_cons] at h
    obtain ⟨r₁, r₂, h1, h2, h3⟩ := mapM_append_inv f _ _ _ h
    obtain ⟨ih1, ih2⟩ := ih r₂ h2
    have hn : newsOf f sel e = r₁ := by simp [newsOf, h1]
    refine ⟨?_, ?_⟩
    · intro e' he'
      rcases List.mem_cons.mp he' with rfl | hm
      · rw [hn]; exact h1
      · exact ih1 e' hm
    · rw [List.flatMap_cons, hn, h3, ih2]

theorem checkNames_ok_iff (env : Env) (ns : List String) : checkNames env ns = .ok () ↔ ns.all env.resolves = true := by
  unfold checkNames
  split
  · simp_all [pure, Except.pure]
  · simp_all [sdlErr]

theorem checkNames_append_inv (env : Env) (a b : List String) (h : checkNames env (a ++ b) = .ok ()) :
    checkNames env a = .ok () ∧ checkNames env b = .ok () := by
  rw [checkNames_ok_iff] at h ⊢
  rw [checkNames_ok_iff]
  simpa [List.all_append] using h

theorem checkNames_flatMap_inv (env : Env) (sel : TypeDef → List String) (es : List TypeDef)
    (h : checkNames env (es.flatMap sel) = .ok ()) : ∀ e ∈ es, checkNames env (sel e) = .ok () := by
  intro e he
  rw [checkNames_ok_iff] at h ⊢
  rw [List.all_eq_true] at h ⊢
  intro x hx
  exact h x (List.mem_flatMap.mpr ⟨e, he, hx⟩)

/-! ### what `mergeDef` is -/

private def mstep (acc e : TypeDef) : TypeDef :=
  { acc with interfaces := acc.interfaces ++ e.interfaces, fields := acc.fields ++ e.fields, members := acc.members ++ e.members,
             values := acc.values ++ e.values, inputFields := acc.inputFields ++ e.inputFields }

private theorem foldl_mstep : ∀ (es : List TypeDef) (t : TypeDef),
    (es.foldl mstep t).kind = t.kind ∧ (es.foldl mstep t).name = t.name ∧ (es.foldl mstep t).desc = t.desc ∧
    (es.foldl mstep t).fields = t.fields ++ es.flatMap (·.fields) ∧
    (es.foldl mstep t).interfaces = t.interfaces ++ es.flatMap (·.interfaces) ∧
    (es.foldl mstep t).members = t.members ++ es.flatMap (·.members) ∧
    (es.foldl mstep t).values = t.values ++ es.flatMap (·.values) ∧
    (es.foldl mstep t).inputFields = t.inputFields ++ es.flatMap (·.inputFields) := by
  intro es
  induction es with
  | nil => intro t; simp
  | cons e es ih =>
    intro t
    obtain ⟨h1, h2, h3, h4, h5, h6, h7, h8⟩ := ih (mstep t e)
    simp only [List.foldl_cons, List.flatMap_cons]
    refine ⟨h1, h2, h3, ?_, ?_, ?_, ?_, ?_⟩
    · rw [h4]; simp [mstep, List.append_assoc]
    · rw [h5]; simp [mstep, List.append_assoc]
    · rw [h6]; simp [mstep, List.append_assoc]
    · rw [h7]; simp [mstep, List.append_assoc]
    · rw [h8]; simp [mstep, List.append_assoc]

/-- the merged definition: same kind, name and description; every member list is the definition's list followed
    by the lists of its extension blocks in document order -/
theorem mergeDef_spec (X : List TypeDef) (t : TypeDef) :
    (mergeDef X t).kind = t.kind ∧ (mergeDef X t).name = t.name ∧ (mergeDef X t).desc = t.desc ∧
    (mergeDef X t).fields = t.fields ++ (mineOf X t.name).flatMap (·.fields) ∧
    (mergeDef X t).interfaces = t.interfaces ++ (mineOf X t.name).flatMap (·.interfaces) ∧
    (mergeDef X t).members = t.members ++ (mineOf X t.name).flatMap (·.members) ∧
    (mergeDef X t).values = t.values ++ (mineOf X t.name).flatMap (·.values) ∧
    (mergeDef X t).inputFields = t.inputFields ++ (mineOf X t.name).flatMap (·.inputFields) :=
  foldl_mstep (mineOf X t.name) t

/-! ### the link: extending a built type = building the merged definition -/

theorem ok_inj {α} {a b : α} (h : (Except.ok a : R α) = .ok b) : a = b := by cases h; rfl

theorem link_interface (env : Env) (X : List TypeDef) (t : TypeDef) (bt r : TypeD) (hkk : t.kind = .interface)
    (hb : buildTypeDef env t = .ok bt) (hm : buildTypeDef env (mergeDef X t) = .ok r)
    (hk : ∀ e ∈ X, e.name = t.name → e.kind = t.kind) (hn : (r.fields.map (·.name)).Nodup) :
    extendType env X bt = .ok r := by
  obtain ⟨s1, s2, s3, s4, s5, s6, s7, s8⟩ := mergeDef_spec X t
  unfold buildTypeDef at hb hm
  rw [s1] at hm
  simp only [hkk] at hb hm
  obtain ⟨fs, hfs, hb2⟩ := bind_ok _ _ _ hb
  obtain ⟨fs', hfs', hm2⟩ := bind_ok _ _ _ hm
  have ebt := ok_inj hb2
  have er := ok_inj hm2
  rw [s4] at hfs'
  obtain ⟨r₁, r₂, h1, h2, h3⟩ := mapM_append_inv _ _ _ _ hfs'
  rw [hfs] at h1
  have e1 := ok_inj h1
  obtain ⟨hnews, hall⟩ := flatMap_mapM_inv (buildField env) (·.fields) (mineOf X t.name) r₂ h2
  subst ebt er
  have := extend_interface_exact env X { kind := .interface, name := t.name, desc := t.desc, fields := fs } rfl
    (fun e he hne => by rw [hk e he hne, hkk]) (newsOf (buildField env) (·.fields)) hnews
    (by simp only [] at hn ⊢; rw [h3, ← e1, hall] at hn; exact hn)
  rw [this, s2, s3, h3, ← e1, hall]

theorem link_input (env : Env) (X : List TypeDef) (t : TypeDef) (bt r : TypeD) (hkk : t.kind = .input)
    (hb : buildTypeDef env t = .ok bt) (hm : buildTypeDef env (mergeDef X t) = .ok r)
    (hk : ∀ e ∈ X, e.name = t.name → e.kind = t.kind) (hn : (r.inputFields.map (·.name)).Nodup) :
    extendType env X bt = .ok r := by
  obtain ⟨s1, s2, s3, s4, s5, s6, s7, s8⟩ := mergeDef_spec X t
  unfold buildTypeDef at hb hm
  rw [s1] at hm
  simp only [hkk] at hb hm
  obtain ⟨fs, hfs, hb2⟩ := bind_ok _ _ _ hb
  obtain ⟨fs', hfs', hm2⟩ := bind_ok _ _ _ hm
  have ebt := ok_inj hb2
  have er := ok_inj hm2
  rw [s8] at hfs'
  obtain ⟨r₁, r₂, h1, h2, h3⟩ := mapM_append_inv _ _ _ _ hfs'
  rw [hfs] at h1
  have e1 := ok_inj h1
  obtain ⟨hnews, hall⟩ := flatMap_mapM_inv (buildArgument env) (·.inputFields) (mineOf X t.name) r₂ h2
  subst ebt er
  have := extend_input_exact env X { kind := .input, name := t.name, desc := t.desc, inputFields := fs } rfl
    (fun e he hne => by rw [hk e he hne, hkk]) (newsOf (buildArgument env) (·.inputFields)) hnews
    (by simp only [] at hn ⊢; rw [h3, ← e1, hall] at hn; exact hn)
  rw [this, s2, s3, h3, ← e1, hall]

theorem link_enum (env : Env) (X : List TypeDef) (t : TypeDef) (bt r : TypeD) (hkk : t.kind = .enum)
    (hb : buildTypeDef env t = .ok bt) (hm : buildTypeDef env (mergeDef X t) = .ok r)
    (hk : ∀ e ∈ X, e.name = t.name → e.kind = t.kind) (hn : (r.values.map (·.name)).Nodup) :
    extendType env X bt = .ok r := by
  obtain ⟨s1, s2, s3, s4, s5, s6, s7, s8⟩ := mergeDef_spec X t
  unfold buildTypeDef at hb hm
  rw [s1] at hm
  simp only [hkk] at hb hm
  obtain ⟨_, _, hb1⟩ := bind_ok _ _ _ hb
  obtain ⟨_, _, hm1⟩ := bind_ok _ _ _ hm
  obtain ⟨fs, hfs, hb2⟩ := bind_ok _ _ _ hb1
  obtain ⟨fs', hfs', hm2⟩ := bind_ok _ _ _ hm1
  have ebt := ok_inj hb2
  have er := ok_inj hm2
  rw [s7] at hfs'
  obtain ⟨r₁, r₂, h1, h2, h3⟩ := mapM_append_inv _ _ _ _ hfs'
  rw [hfs] at h1
  have e1 := ok_inj h1
  obtain ⟨hnews, hall⟩ := flatMap_mapM_inv buildEnumValue (·.values) (mineOf X t.name) r₂ h2
  subst ebt er
  have := extend_enum_exact env X { kind := .enum, name := t.name, desc := t.desc, values := fs } rfl
    (fun e he hne => by rw [hk e he hne, hkk]) (newsOf buildEnumValue (·.values)) hnews
    (by simp only [] at hn ⊢; rw [h3, ← e1, hall] at hn; exact hn)
  rw [this, s2, s3, h3, ← e1, hall]

theorem link_union (env : Env) (X : List TypeDef) (t : TypeDef) (bt r : TypeD) (hkk : t.kind = .union)
    (hb : buildTypeDef env t = .ok bt) (hm : buildTypeDef env (mergeDef X t) = .ok r)
    (hk : ∀ e ∈ X, e.name = t.name → e.kind = t.kind) (hn : r.members.Nodup) :
    extendType env X bt = .ok r := by
  obtain ⟨s1, s2, s3, s4, s5, s6, s7, s8⟩ := mergeDef_spec X t
  unfold buildTypeDef at hb hm
  rw [s1] at hm
  simp only [hkk] at hb hm
  obtain ⟨_, _, hb2⟩ := bind_ok _ _ _ hb
  obtain ⟨_, hc, hm2⟩ := bind_ok _ _ _ hm
  have ebt := ok_inj hb2
  have er := ok_inj hm2
  rw [s6] at hc
  have hc2 := checkNames_flatMap_inv env (·.members) _ (checkNames_append_inv env _ _ hc).2
  subst ebt er
  have := extend_union_exact env X { kind := .union, name := t.name, desc := t.desc, members := t.members } rfl
    (fun e he hne => by rw [hk e he hne, hkk]) hc2 (by simp only [] at hn ⊢; rw [s6] at hn; exact hn)
  rw [this, s2, s3, s6]

theorem link_scalar (env : Env) (X : List TypeDef) (t : TypeDef) (bt r : TypeD) (hkk : t.kind = .scalar)
    (hb : buildTypeDef env t = .ok bt) (hm : buildTypeDef env (mergeDef X t) = .ok r)
    (hk : ∀ e ∈ X, e.name = t.name → e.kind = t.kind) : extendType env X bt = .ok r := by
  obtain ⟨s1, s2, s3, s4, s5, s6, s7, s8⟩ := mergeDef_spec X t
  unfold buildTypeDef at hb hm
  rw [s1] at hm
  simp only [hkk] at hb hm
  have ebt := ok_inj hb
  have er := ok_inj hm
  subst ebt er
  have := extend_scalar_exact env X { kind := .scalar, name := t.name, desc := t.desc } rfl
    (fun e he hne => by rw [hk e he hne, hkk])
  rw [this, s2, s3]

theorem link_object (env : Env) (X : List TypeDef) (t : TypeDef) (bt r : TypeD) (hkk : t.kind = .object)
    (hb : buildTypeDef env t = .ok bt) (hm : buildTypeDef env (mergeDef X t) = .ok r)
    (hk : ∀ e ∈ X, e.name = t.name → e.kind = t.kind) (hn : (r.fields.map (·.name)).Nodup) (hni : r.interfaces.Nodup) :
    extendType env X bt = .ok r := by
  obtain ⟨s1, s2, s3, s4, s5, s6, s7, s8⟩ := mergeDef_spec X t
  unfold buildTypeDef at hb hm
  rw [s1] at hm
  simp only [hkk] at hb hm
  obtain ⟨fs, hfs, hb1⟩ := bind_ok _ _ _ hb
  obtain ⟨fs', hfs', hm1⟩ := bind_ok _ _ _ hm
  obtain ⟨_, _, hb2⟩ := bind_ok _ _ _ hb1
  obtain ⟨_, hc, hm2⟩ := bind_ok _ _ _ hm1
  have ebt := ok_inj hb2
  have er := ok_inj hm2
  rw [s4] at hfs'
  obtain ⟨r₁, r₂, h1, h2, h3⟩ := mapM_append_inv _ _ _ _ hfs'
  rw [hfs] at h1
  have e1 := ok_inj h1
  obtain ⟨hnews, hall⟩ := flatMap_mapM_inv (buildField env) (·.fields) (mineOf X t.name) r₂ h2
  rw [s5] at hc
  have hc2 := checkNames_flatMap_inv env (·.interfaces) _ (checkNames_append_inv env _ _ hc).2
  subst ebt er
  have := extend_object_exact env X { kind := .object, name := t.name, desc := t.desc, interfaces := t.interfaces, fields := fs } rfl
    (fun e he hne => by rw [hk e he hne, hkk]) (newsOf (buildField env) (·.fields)) hnews
    (by simp only [] at hn ⊢; rw [h3, ← e1, hall] at hn; exact hn) hc2
    (by simp only [] at hni ⊢; rw [s5] at hni; exact hni)
  rw [this, s2, s3, s5, h3, ← e1, hall]

/-- **The link** (all kinds): if the definition builds and the MERGED definition builds over the same environment,
    every extension block has the definition's kind and no member name is repeated in the result, then extending
    the built type with the document's extensions gives exactly the built merged definition. -/
theorem extend_build_merge (env : Env) (X : List TypeDef) (t : TypeDef) (bt r : TypeD)
    (hb : buildTypeDef env t = .ok bt) (hm : buildTypeDef env (mergeDef X t) = .ok r)
    (hk : ∀ e ∈ X, e.name = t.name → e.kind = t.kind)
    (hn : (r.fields.map (·.name)).Nodup ∧ (r.inputFields.map (·.name)).Nodup ∧ (r.values.map (·.name)).Nodup ∧
          r.members.Nodup ∧ r.interfaces.Nodup) :
    extendType env X bt = .ok r := by
  cases hkk : t.kind with
  | scalar => exact link_scalar env X t bt r hkk hb hm hk
  | object => exact link_object env X t bt r hkk hb hm hk hn.1 hn.2.2.2.2
  | interface => exact link_interface env X t bt r hkk hb hm hk hn.1
  | union => exact link_union env X t bt r hkk hb hm hk hn.2.2.2.1
  | enum => exact link_enum env X t bt r hkk hb hm hk hn.2.2.1
  | input => exact link_input env X t bt r hkk hb hm hk hn.2.1

/-! ### assembling: `build_exact_partial` (documents WITH extensions, finding S8 excluded) -/

theorem mapM_congr_mem {α β} (f g : α → R β) : ∀ (l : List α), (∀ x ∈ l, f x = g x) → l.mapM f = l.mapM g := by
  intro l
  induction l with
  | nil => intro _; rfl
  | cons x xs ih =>
    intro h
    rw [List.mapM_cons, List.mapM_cons, h x (by simp), ih (fun y hy => h y (by simp [hy]))]

theorem mapM_map_eq {α β γ} (g : α → β) (f : β → R γ) : ∀ (l : List α), (l.map g).mapM f = l.mapM (fun x => f (g x)) := by
  intro l
  induction l with
  | nil => rfl
  | cons x xs ih => rw [List.map_cons, List.mapM_cons, List.mapM_cons, ih]

/-- pointwise relation between two lists of the same length -/
inductive All₂ {α β} (P : α → β → Prop) : List α → List β → Prop
  | nil : All₂ P [] []
  | cons {a b as bs} : P a b → All₂ P as bs → All₂ P (a :: as) (b :: bs)

theorem mapM_forall₂ {α β} (f : α → R β) : ∀ (l : List α) (r : List β), l.mapM f = .ok r → All₂ (fun x y => f x = .ok y) l r := by
  intro l
  induction l with
  | nil => intro r h; simp [pure, Except.pure] at h; subst h; exact All₂.nil
  | cons x xs ih =>
    intro r h
    rw [List.mapM_cons] at h
    obtain ⟨b, hb, h2⟩ := bind_ok _ _ _ h
    obtain ⟨bs, hbs, h3⟩ := bind_ok _ _ _ h2
    simp only [pure, Except.pure, Except.ok.injEq] at h3
    subst h3
    exact All₂.cons hb (ih bs hbs)

/-- pointwise link ⇒ link of the whole registries -/
theorem mapM_link {α β γ} (P : α → β → Prop) (Q : α → γ → Prop) (h : β → R γ) :
    ∀ (l : List α) (bs : List β) (rs : List γ), All₂ P l bs → All₂ Q l rs →
      (∀ a b r, a ∈ l → r ∈ rs → P a b → Q a r → h b = .ok r) → bs.mapM h = .ok rs := by
  intro l
  induction l with
  | nil => intro bs rs h1 h2 _; cases h1; cases h2; rfl
  | cons a as ih =>
    intro bs rs h1 h2 hl
    cases h1 with
    | cons p1 t1 =>
      cases h2 with
      | cons q1 t2 =>
        rw [List.mapM_cons, hl a _ _ (by simp) (by simp) p1 q1]
        rw [ih _ _ t1 t2 (fun a' b r ha hr => hl a' b r (by simp [ha]) (by simp [hr]))]
        rfl

theorem buildTypeDef_name (env : Env) (t : TypeDef) (bt : TypeD) (h : buildTypeDef env t = .ok bt) : bt.name = t.name := by
  unfold buildTypeDef at h
  cases hk : t.kind <;> simp only [hk] at h
  · have := ok_inj h; subst this; rfl
  · obtain ⟨_, _, h1⟩ := bind_ok _ _ _ h
    obtain ⟨_, _, h2⟩ := bind_ok _ _ _ h1
    have := ok_inj h2; subst this; rfl
  · obtain ⟨_, _, h1⟩ := bind_ok _ _ _ h
    have := ok_inj h1; subst this; rfl
  · obtain ⟨_, _, h1⟩ := bind_ok _ _ _ h
    have := ok_inj h1; subst this; rfl
  · obtain ⟨_, _, h1⟩ := bind_ok _ _ _ h
    obtain ⟨_, _, h2⟩ := bind_ok _ _ _ h1
    have := ok_inj h2; subst this; rfl
  · obtain ⟨_, _, h1⟩ := bind_ok _ _ _ h
    have := ok_inj h1; subst this; rfl

theorem forall₂_names (env : Env) : ∀ (l : List TypeDef) (bs : List TypeD),
    All₂ (fun t bt => buildTypeDef env t = .ok bt) l bs → bs.map (·.name) = l.map (·.name) := by
  intro l bs h
  induction h with
  | nil => rfl
  | cons p _ ih => simp [buildTypeDef_name env _ _ p, ih]

theorem typeExtensions_all (live : Live) : ∀ (doc : Doc),
    (∀ e ∈ typeExts doc, live.types.any (·.name == e.name) = true) → typeExtensions live doc = typeExts doc := by
  intro doc
  induction doc with
  | nil => intro _; rfl
  | cons d ds ih =>
    intro h
    cases d with
    | ext e =>
      have he : live.types.any (·.name == e.name) = true := h e (by simp [typeExts])
      have := ih (fun e' he' => h e' (by simp [typeExts] at he' ⊢; exact Or.inr he'))
      simp only [typeExtensions, typeExts, List.filterMap_cons, he, Bool.or_true, if_true] at this ⊢
      rw [this]
    | type t => simpa [typeExtensions, typeExts] using ih (by simpa [typeExts] using h)
    | directive t => simpa [typeExtensions, typeExts] using ih (by simpa [typeExts] using h)
    | schema t => simpa [typeExtensions, typeExts] using ih (by simpa [typeExts] using h)
    | schemaExt t => simpa [typeExtensions, typeExts] using ih (by simpa [typeExts] using h)
    | other => simpa [typeExtensions, typeExts] using ih (by simpa [typeExts] using h)

theorem nodup_map_inj {α} (f : α → String) : ∀ (l : List α), (l.map f).Nodup → ∀ x ∈ l, ∀ y ∈ l, f x = f y → x = y := by
  intro l
  induction l with
  | nil => intro _ x hx; simp at hx
  | cons a as ih =>
    intro hn x hx y hy hxy
    simp only [List.map_cons, List.nodup_cons] at hn
    rcases List.mem_cons.mp hx with rfl | hx' <;> rcases List.mem_cons.mp hy with rfl | hy'
    · rfl
    · exact absurd (List.mem_map.mpr ⟨y, hy', hxy.symm⟩) hn.1
    · exact absurd (List.mem_map.mpr ⟨x, hx', hxy⟩) hn.1
    · exact ih hn.2 x hx' y hy' hxy

/-- The rules for a document WITH extensions. `baseBuilds`, `mergedSame` and `directivesSame` are **NoS8**: the
    definitions build on their own, and every merged definition / directive definition builds to the same thing
    whether default literals are coerced over the definitions alone (what the builder does) or over the merged
    definitions (what the specification says) — i.e. no default value refers to a member that only an extension
    declares. -/
structure ValidExt (doc : Doc) (d : SchemaD) (bts : List TypeD) : Prop where
  uniqueTypes : ((typeDefs doc).map (·.name)).Nodup
  uniqueDirectives : ((dirDefs doc).map (·.name)).Nodup
  oneSchema : (schemaDefs doc).length ≤ 1
  noBuiltinNames : ∀ t ∈ typeDefs doc, isDefaultName t.name = false
  /-- every extension extends a defined type of its own kind -/
  extTargets : ∀ e ∈ typeExts doc, ∃ t ∈ typeDefs doc, t.name = e.name ∧ t.kind = e.kind
  declares : Declared doc = some d
  baseBuilds : (typeDefs doc).mapM (buildTypeDef (Env.of (typeDefs doc))) = .ok bts
  mergedSame : ∀ t ∈ typeDefs doc, buildTypeDef (Env.of (typeDefs doc)) (mergeDef (typeExts doc) t)
                                  = buildTypeDef (Env.of (merged doc)) (mergeDef (typeExts doc) t)
  directivesSame : ∀ dd ∈ dirDefs doc, buildDirective (Env.of (typeDefs doc)) dd = buildDirective (Env.of (merged doc)) dd
  /-- no member name is repeated among a definition and its extensions -/
  membersUnique : ∀ r ∈ d.types, (r.fields.map (·.name)).Nodup ∧ (r.inputFields.map (·.name)).Nodup ∧ (r.values.map (·.name)).Nodup ∧
      r.members.Nodup ∧ r.interfaces.Nodup
  noThunkCycle : hasThunkCycle (Env.of (typeDefs doc)) (typeDefs doc) = false
  noEagerCycleBase : hasEagerCycle bts = false
  noEagerCycle : hasEagerCycle d.types = false
  noSpecified : d.directives.any (fun x => specifiedDirectives.contains x.name) = false
  /-- operations of the `schema` block and of the `extend schema` blocks are distinct and name known types -/
  rootsOk : ∃ r0, buildRoots (Env.of (typeDefs doc)) (schemaDefs doc).head? bts = .ok r0 ∧
      (schemaExtensions doc).foldlM (fun r se => addOps (fun n => isDefaultName n || d.types.any (·.name == n)) (.lib .ext) r se.ops) r0
        = .ok ⟨d.query, d.mutation, d.subscription⟩

/-- extending the built definitions with the document's extensions gives exactly the built merged definitions
    (the registry-level form of `extend_build_merge`) -/
theorem ext_types (doc : Doc) (d : SchemaD) (bts : List TypeD)
    (uniqueTypes : ((typeDefs doc).map (·.name)).Nodup)
    (extTargets : ∀ e ∈ typeExts doc, ∃ t ∈ typeDefs doc, t.name = e.name ∧ t.kind = e.kind)
    (declares : Declared doc = some d)
    (baseBuilds : (typeDefs doc).mapM (buildTypeDef (Env.of (typeDefs doc))) = .ok bts)
    (mergedSame : ∀ t ∈ typeDefs doc, buildTypeDef (Env.of (typeDefs doc)) (mergeDef (typeExts doc) t)
                                    = buildTypeDef (Env.of (merged doc)) (mergeDef (typeExts doc) t))
    (membersUnique : ∀ r ∈ d.types, (r.fields.map (·.name)).Nodup ∧ (r.inputFields.map (·.name)).Nodup ∧ (r.values.map (·.name)).Nodup ∧
      r.members.Nodup ∧ r.interfaces.Nodup) :
    bts.mapM (extendType (Env.of (typeDefs doc)) (typeExts doc)) = .ok d.types := by
  obtain ⟨hts, _, _⟩ := declared_parts doc d declares
  have hP := mapM_forall₂ _ _ _ baseBuilds
  have hQ : All₂ (fun t r => buildTypeDef (Env.of (typeDefs doc)) (mergeDef (typeExts doc) t) = .ok r) (typeDefs doc) d.types := by
    have h1 : (typeDefs doc).mapM (fun t => buildTypeDef (Env.of (typeDefs doc)) (mergeDef (typeExts doc) t)) = .ok d.types := by
      rw [mapM_congr_mem _ (fun t => buildTypeDef (Env.of (merged doc)) (mergeDef (typeExts doc) t)) _ mergedSame]
      rw [← mapM_map_eq]; exact hts
    exact mapM_forall₂ _ _ _ h1
  refine mapM_link _ _ _ _ _ _ hP hQ ?_
  intro t bt r ht hr hb hm
  refine extend_build_merge _ _ t bt r hb hm ?_ (membersUnique r hr)
  intro e he hne
  obtain ⟨t', ht', hn', hk'⟩ := extTargets e he
  have : t' = t := nodup_map_inj (·.name) _ uniqueTypes t' ht' t ht (hn'.trans hne)
  rw [← hk', this]

/-- **build_exact_partial**: a valid document WITH extensions in which no default value depends on an
    extension-declared member (finding S8 excluded) builds, and the schema is exactly the declared content: every
    extension merged into its target in document order. -/
theorem build_exact_partial (doc : Doc) (d : SchemaD) (bts : List TypeD) (v : ValidExt doc d bts) : build doc = .ok d := by
  obtain ⟨c, hc, hct, hcd, hcs⟩ := collect_ok doc v.uniqueTypes v.uniqueDirectives v.oneSchema v.noBuiltinNames
  obtain ⟨hts, hds, hd⟩ := declared_parts doc d v.declares
  obtain ⟨r0, hr0, hrx⟩ := v.rootsOk
  -- directive definitions
  have hdirs : (dirDefs doc).mapM (buildDirective (Env.of (typeDefs doc))) = .ok d.directives := by
    rw [mapM_congr_mem _ _ _ v.directivesSame]; exact hds
  -- the definitions alone
  have hbt := mapM_buildType (typeDefs doc) (typeDefs doc) bts v.noBuiltinNames v.baseBuilds
  have hP := mapM_forall₂ _ _ _ v.baseBuilds
  have hnames := forall₂_names _ _ _ hP
  -- every extension finds its target among the built types
  have htexts : ∀ live : Live, live.types = bts → typeExtensions live doc = typeExts doc := by
    intro live hl
    apply typeExtensions_all
    intro e he
    obtain ⟨t, ht, hn, _⟩ := v.extTargets e he
    rw [hl, List.any_eq_true]
    have : e.name ∈ bts.map (·.name) := by rw [hnames, ← hn]; exact List.mem_map_of_mem ht
    obtain ⟨bt, hbt1, hbt2⟩ := List.mem_map.mp this
    exact ⟨bt, hbt1, by simp [hbt2]⟩
  -- the merged definitions, over the builder's environment
  have hQ : All₂ (fun t r => buildTypeDef (Env.of (typeDefs doc)) (mergeDef (typeExts doc) t) = .ok r) (typeDefs doc) d.types := by
    have h1 : (typeDefs doc).mapM (fun t => buildTypeDef (Env.of (typeDefs doc)) (mergeDef (typeExts doc) t)) = .ok d.types := by
      rw [mapM_congr_mem _ (fun t => buildTypeDef (Env.of (merged doc)) (mergeDef (typeExts doc) t)) _ v.mergedSame]
      rw [← mapM_map_eq]; exact hts
    exact mapM_forall₂ _ _ _ h1
  have hext : bts.mapM (extendType (Env.of (typeDefs doc)) (typeExts doc)) = .ok d.types := by
    refine mapM_link _ _ _ _ _ _ hP hQ ?_
    intro t bt r ht hr hb hm
    refine extend_build_merge _ _ t bt r hb hm ?_ (v.membersUnique r hr)
    intro e he hne
    obtain ⟨t', ht', hn', hk'⟩ := v.extTargets e he
    have : t' = t := nodup_map_inj (·.name) _ v.uniqueTypes t' ht' t ht (hn'.trans hne)
    rw [← hk', this]
  have hthunk := v.noThunkCycle
  have hcyc0 := v.noEagerCycleBase
  have hcyc := v.noEagerCycle
  have hspec := v.noSpecified
  simp only [build, buildIgnoringExtensions, hc, bind, Except.bind, buildCollected, failIf, hct, hcd, hcs, hthunk, hdirs, hbt,
    filterMap_id_map_some, hcyc0, hr0, hspec, Bool.false_eq_true, if_false, pure, Except.pure, referencedAdditional,
    List.filter_nil, List.append_nil, extendSchema]
  rw [htexts _ rfl]
  by_cases hE : ((typeExts doc).isEmpty && (schemaExtensions doc).isEmpty) = true
  · -- no extension at all: the early return of extend_schema
    simp only [hE, if_true, toSchemaD]
    simp only [Bool.and_eq_true, List.isEmpty_iff] at hE
    have hX := hE.1
    have hS := hE.2
    rw [hS] at hrx
    simp only [List.foldlM_nil, pure, Except.pure] at hrx
    have er := ok_inj hrx
    have hm := merged_noext doc hX
    rw [hm] at hts
    rw [v.baseBuilds] at hts
    have eb := ok_inj hts
    rw [eb, er]
    exact congrArg Except.ok hd.symm
  · -- no extension targets a specified type: every target is a definition of the document
    have hkind : (typeExts doc).any (fun e => isDefaultName e.name && e.kind != builtinKind e.name) = false := by
      rw [List.any_eq_false]
      intro e he
      obtain ⟨t, ht, hn, _⟩ := v.extTargets e he
      have := v.noBuiltinNames t ht
      rw [hn] at this
      simp [this]
    simp only [hE, Bool.false_eq_true, if_false, hkind, hext, hcyc, hrx, toSchemaD]
    exact congrArg Except.ok hd.symm

/-- non-vacuity of `ValidExt`: every extension-free valid document (e.g. `exDoc` of `C11_exact.lean`) whose members
    have unique names satisfies it; the S8-free generated documents of the correspondence are the instances with
    extensions (the hypotheses `mergedSame`/`directivesSame` are exactly what the check's S8 classification tests). -/
theorem validExt_of_noext (doc : Doc) (d : SchemaD) (v : ValidNoExt doc d)
    (hu : ∀ r ∈ d.types, (r.fields.map (·.name)).Nodup ∧ (r.inputFields.map (·.name)).Nodup ∧ (r.values.map (·.name)).Nodup ∧
      r.members.Nodup ∧ r.interfaces.Nodup) : ValidExt doc d d.types := by
  have hm := merged_noext doc v.noTypeExt
  obtain ⟨hts, hds, _⟩ := declared_parts doc d v.declares
  rw [hm] at hts
  exact
    { uniqueTypes := v.uniqueTypes, uniqueDirectives := v.uniqueDirectives, oneSchema := v.oneSchema,
      noBuiltinNames := v.noBuiltinNames,
      extTargets := by intro e he; rw [v.noTypeExt] at he; simp at he,
      declares := v.declares, baseBuilds := hts,
      mergedSame := by intro t _; rw [hm],
      directivesSame := by intro dd _; rw [hm],
      membersUnique := hu, noThunkCycle := v.noThunkCycle, noEagerCycleBase := v.noEagerCycle, noEagerCycle := v.noEagerCycle,
      noSpecified := v.noSpecified,
      rootsOk := ⟨_, v.rootsOk, by rw [v.noSchemaExt]; rfl⟩ }

/-! ### independence of the order of definitions, WITH extensions -/

theorem merged_names (doc : Doc) : (merged doc).map (·.name) = (typeDefs doc).map (·.name) := by
  simp only [merged, List.map_map]
  apply List.map_congr_left
  intro t _
  exact (mergeDef_spec (typeExts doc) t).2.1

/-- **build_perm**: two valid documents with the same definitions in a different ORDER — the extension blocks of
    every target (and the `extend schema` blocks) keeping their relative order — build schemas with the same
    content: the same types with the same members in the same member order, the same directive definitions and
    the same root operation types. -/
theorem build_perm (doc₁ doc₂ : Doc) (d₁ d₂ : SchemaD) (b₁ b₂ : List TypeD) (v₁ : ValidExt doc₁ d₁ b₁) (v₂ : ValidExt doc₂ d₂ b₂)
    (hp : doc₁.Perm doc₂) (hx : typeExts doc₁ = typeExts doc₂) (hsx : schemaExtensions doc₁ = schemaExtensions doc₂) :
    build doc₁ = .ok d₁ ∧ build doc₂ = .ok d₂ ∧ d₁.types.Perm d₂.types ∧ d₁.directives.Perm d₂.directives ∧
      d₁.query = d₂.query ∧ d₁.mutation = d₂.mutation ∧ d₁.subscription = d₂.subscription := by
  obtain ⟨ht1, hd1, _⟩ := declared_parts doc₁ d₁ v₁.declares
  obtain ⟨ht2, hd2, _⟩ := declared_parts doc₂ d₂ v₂.declares
  have hmp : (merged doc₁).Perm (merged doc₂) := by
    simp only [merged, hx]
    exact (typeDefs_perm hp).map _
  have henv : Env.of (merged doc₁) = Env.of (merged doc₂) :=
    env_perm hmp (by rw [merged_names]; exact v₁.uniqueTypes)
  rw [henv] at ht1 hd1
  have hT : d₁.types.Perm d₂.types := by
    obtain ⟨r, hr, hperm⟩ := mapM_perm _ hmp _ ht1
    rw [ht2] at hr; cases hr; exact hperm
  have hD : d₁.directives.Perm d₂.directives := by
    obtain ⟨r, hr, hperm⟩ := mapM_perm _ (dirDefs_perm hp) _ hd1
    rw [hd2] at hr; cases hr; exact hperm
  have r1 := declared_roots doc₁ d₁ v₁.declares
  have r2 := declared_roots doc₂ d₂ v₂.declares
  have hs : schemaDefs doc₁ = schemaDefs doc₂ := perm_short (hp.filterMap _) v₁.oneSchema
  have hr : declaredRoots doc₁ d₁.types = declaredRoots doc₂ d₂.types := by
    simp only [declaredRoots, hsx, hs]
    cases schemaDefs doc₂ with
    | cons sd _ => rfl
    | nil =>
      simp only [defaultRoots]
      rw [any_perm _ hT, any_perm _ hT, any_perm _ hT]
  rw [← r1, ← r2] at hr
  refine ⟨build_exact_partial doc₁ d₁ b₁ v₁, build_exact_partial doc₂ d₂ b₂ v₂, hT, hD, ?_⟩
  simpa [Roots.mk.injEq] using hr

end PyGql.Props.C11

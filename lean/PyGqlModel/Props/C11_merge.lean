/-
  C11 — extensions: `_extend_<kind>_type` applied to a built type equals building the MERGED definition
  (definition followed by its extension blocks in document order), for every kind of type.
-/
import PyGqlModel.Sdl
import PyGqlModel.Spec.SdlSpec
import PyGqlModel.Props.C11_exact

set_option linter.unusedVariables false
set_option linter.unusedSimpArgs false

namespace PyGql.Props.C11
open PyGql PyGql.Sdl PyGql.SdlSpec

/-- the extension blocks of a type -/
abbrev mineOf (exts : List TypeDef) (n : String) : List TypeDef := exts.filter (·.name == n)

private theorem kinds_ok (exts : List TypeDef) (t : TypeD) (k : Kind) (hk : t.kind = k)
    (hkinds : ∀ e ∈ exts, e.name = t.name → e.kind = k) :
    ((exts.filter (·.name == t.name)).any fun e => e.kind != k) = false := by
  rw [List.any_eq_false]
  intro e he
  simp only [List.mem_filter, beq_iff_eq] at he
  simp [hkinds e he.1 he.2]

/-- the fold of `_extend_object_type` / `_extend_union_type` over names (interfaces, union members) -/
theorem names_merge_exact (env : Env) (sel : TypeDef → List String) :
    ∀ (exts : List TypeDef) (base : List String),
      (∀ e ∈ exts, checkNames env (sel e) = .ok ()) → (base ++ exts.flatMap sel).Nodup →
      exts.foldlM (fun acc e => do checkNames env (sel e); appendNew (.lib .ext) id acc (sel e)) base = .ok (base ++ exts.flatMap sel) := by
  intro exts
  induction exts with
  | nil => intro base _ _; simp [pure, Except.pure]
  | cons e es ih =>
    intro base hb hn
    have he := hb e (by simp)
    have hn1 : ((base ++ sel e).map id).Nodup := by
      simp only [List.flatMap_cons, ← List.append_assoc, List.map_id] at hn ⊢
      exact (List.nodup_append.mp hn).1
    have step : (do checkNames env (sel e); appendNew (.lib .ext) id base (sel e)) = Except.ok (base ++ sel e) := by
      rw [he]; exact appendNew_ok_of_nodup (.lib .ext) id (sel e) base hn1
    have hn2 : ((base ++ sel e) ++ es.flatMap sel).Nodup := by
      simpa [List.flatMap_cons, List.append_assoc] using hn
    have := ih (base ++ sel e) (fun e' he' => hb e' (by simp [he'])) hn2
    rw [List.foldlM_cons, List.flatMap_cons, ← List.append_assoc]
    show ((do checkNames env (sel e); appendNew (.lib .ext) id base (sel e)) >>= fun acc' => es.foldlM _ acc') = _
    rw [step]
    exact this

theorem extend_scalar_exact (env : Env) (exts : List TypeDef) (t : TypeD) (hk : t.kind = .scalar)
    (hkinds : ∀ e ∈ exts, e.name = t.name → e.kind = .scalar) : extendType env exts t = .ok t := by
  have hmine := kinds_ok exts t .scalar hk hkinds
  unfold extendType
  simp only [hmine, failIf, Bool.false_eq_true, if_false, hk]
  rfl

theorem extend_interface_exact (env : Env) (exts : List TypeDef) (t : TypeD) (hk : t.kind = .interface)
    (hkinds : ∀ e ∈ exts, e.name = t.name → e.kind = .interface) (news : TypeDef → List FieldD)
    (hb : ∀ e ∈ exts.filter (·.name == t.name), e.fields.mapM (buildField env) = .ok (news e))
    (hn : ((t.fields ++ (exts.filter (·.name == t.name)).flatMap news).map (·.name)).Nodup) :
    extendType env exts t = .ok { t with fields := t.fields ++ (exts.filter (·.name == t.name)).flatMap news } := by
  have hmine := kinds_ok exts t .interface hk hkinds
  have := extension_merge_exact (.lib .ext) (buildField env) (·.name) (·.fields) (exts.filter (·.name == t.name)) t.fields news hb hn
  unfold extendType
  simp only [hmine, failIf, Bool.false_eq_true, if_false, hk]
  rw [this]
  rfl

theorem extend_input_exact (env : Env) (exts : List TypeDef) (t : TypeD) (hk : t.kind = .input)
    (hkinds : ∀ e ∈ exts, e.name = t.name → e.kind = .input) (news : TypeDef → List ArgD)
    (hb : ∀ e ∈ exts.filter (·.name == t.name), e.inputFields.mapM (buildArgument env) = .ok (news e))
    (hn : ((t.inputFields ++ (exts.filter (·.name == t.name)).flatMap news).map (·.name)).Nodup) :
    extendType env exts t = .ok { t with inputFields := t.inputFields ++ (exts.filter (·.name == t.name)).flatMap news } := by
  have hmine := kinds_ok exts t .input hk hkinds
  have := extension_merge_exact (.lib .ext) (buildArgument env) (·.name) (·.inputFields) (exts.filter (·.name == t.name)) t.inputFields news hb hn
  unfold extendType
  simp only [hmine, failIf, Bool.false_eq_true, if_false, hk]
  rw [this]
  rfl

theorem extend_union_exact (env : Env) (exts : List TypeDef) (t : TypeD) (hk : t.kind = .union)
    (hkinds : ∀ e ∈ exts, e.name = t.name → e.kind = .union)
    (hb : ∀ e ∈ exts.filter (·.name == t.name), checkNames env e.members = .ok ())
    (hn : (t.members ++ (exts.filter (·.name == t.name)).flatMap (·.members)).Nodup) :
    extendType env exts t = .ok { t with members := t.members ++ (exts.filter (·.name == t.name)).flatMap (·.members) } := by
  have hmine := kinds_ok exts t .union hk hkinds
  have := names_merge_exact env (·.members) (exts.filter (·.name == t.name)) t.members hb hn
  unfold extendType
  simp only [hmine, failIf, Bool.false_eq_true, if_false, hk]
  rw [this]
  rfl

theorem extend_object_exact (env : Env) (exts : List TypeDef) (t : TypeD) (hk : t.kind = .object)
    (hkinds : ∀ e ∈ exts, e.name = t.name → e.kind = .object) (news : TypeDef → List FieldD)
    (hb : ∀ e ∈ exts.filter (·.name == t.name), e.fields.mapM (buildField env) = .ok (news e))
    (hn : ((t.fields ++ (exts.filter (·.name == t.name)).flatMap news).map (·.name)).Nodup)
    (hbi : ∀ e ∈ exts.filter (·.name == t.name), checkNames env e.interfaces = .ok ())
    (hni : (t.interfaces ++ (exts.filter (·.name == t.name)).flatMap (·.interfaces)).Nodup) :
    extendType env exts t = .ok { t with fields := t.fields ++ (exts.filter (·.name == t.name)).flatMap news,
                                         interfaces := t.interfaces ++ (exts.filter (·.name == t.name)).flatMap (·.interfaces) } := by
  have hmine := kinds_ok exts t .object hk hkinds
  have h1 := extension_merge_exact (.lib .ext) (buildField env) (·.name) (·.fields) (exts.filter (·.name == t.name)) t.fields news hb hn
  have h2 := names_merge_exact env (·.interfaces) (exts.filter (·.name == t.name)) t.interfaces hbi hni
  unfold extendType
  simp only [hmine, failIf, Bool.false_eq_true, if_false, hk]
  rw [h1, h2]
  rfl

end PyGql.Props.C11

/-
  C06 - property theorems, part 3: the rules proved so far (`Proved`), their specification predicates
  (`SpecOf`), the uniform equivalence `rule_iff`, attribution, and INVARIANCE of their verdict under the
  transformations of the statement: reordering definitions (`perm_definitions`), reordering selections
  (`perm_selections`), reordering arguments (`perm_arguments`) and injective renaming of fragments
  (`alpha_fragments`) - proved on the specification predicates (they only talk about membership in
  `Spec.nodes`) and transported through `rule_iff`.
-/
import PyGqlModel.Props.C06_doc
import PyGqlModel.Props.C06_names
import PyGqlModel.Lemmas.ValidateTr
namespace PyGql.Props.C06
open PyGql PyGql.Validate PyGql.Validate.Spec

/-- rules with a `rule_*_iff` theorem -/
def Proved : List Rule :=
  [.executableDefinitions, .loneAnonymousOperation, .singleFieldSubscriptions, .knownTypeNames,
   .variablesAreInputTypes, .knownFragmentNames, .uniqueDirectivesPerLocation, .uniqueArgumentNames,
   .uniqueFragmentNames, .uniqueOperationName]

/-- the specification predicate of a proved rule -/
def SpecOf (r : Rule) (s : SchemaD) (d : Doc) : Prop :=
  match r with
  | .executableDefinitions => Spec.executableDefinitions d
  | .loneAnonymousOperation => Spec.loneAnonymousOperation d
  | .singleFieldSubscriptions => Spec.singleFieldSubscriptions d
  | .knownTypeNames => Spec.knownTypeNames s d
  | .variablesAreInputTypes => Spec.variablesAreInputTypes s d
  | .knownFragmentNames => Spec.knownFragmentNames d
  | .uniqueDirectivesPerLocation => Spec.uniqueDirectivesPerLocation d
  | .uniqueArgumentNames => Spec.uniqueArgumentNames d
  | .uniqueFragmentNames => Spec.uniqueFragmentNames d
  | .uniqueOperationName => Spec.uniqueOperationNames d
  | _ => True

/-- **rule_k_iff**, uniformly: the rule visitor run alone reports nothing ⇔ its specification predicate holds -/
theorem rule_iff (s : SchemaD) (fx : Fixes) (d : Doc) (r : Rule) (hr : r ∈ Proved) :
    Silent s fx r d ↔ SpecOf r s d := by
  simp only [Proved, List.mem_cons, List.not_mem_nil, or_false] at hr
  rcases hr with rfl | rfl | rfl | rfl | rfl | rfl | rfl | rfl | rfl | rfl
  · exact rule_executable_definitions_iff s fx d
  · exact rule_lone_anonymous_operation_iff s fx d
  · exact rule_single_field_subscriptions_iff s fx d
  · exact rule_known_type_names_iff s fx d
  · exact rule_variables_are_input_types_iff s fx d
  · exact rule_known_fragment_names_iff s fx d
  · exact rule_unique_directives_per_location_iff s fx d
  · exact rule_unique_argument_names_iff s fx d
  · exact rule_unique_fragment_names_iff s fx d
  · exact rule_unique_operation_names_iff s fx d

/-- **verdict_iff** for the conjunction of the rules proved -/
theorem verdict_iff_partial (s : SchemaD) (fx : Fixes) (d : Doc) :
    (∀ r ∈ Proved, Silent s fx r d) ↔ (∀ r ∈ Proved, SpecOf r s d) :=
  forall_congr' fun r => forall_congr' fun hr => rule_iff s fx d r hr

/-- **attribution** (for the rules proved; on the rule run alone - that the chain's verdict is the conjunction
    of the rules run alone is checked on the real code by `chain-does-not-decompose`): a document that breaks
    the specification rule of `r` and no other proved rule gets an error from the visitor of `r`, and the
    visitors of the other proved rules hold no error -/
theorem attribution_partial (s : SchemaD) (fx : Fixes) (d : Doc) (r : Rule) (hr : r ∈ Proved)
    (hbad : ¬ SpecOf r s d) (hothers : ∀ r' ∈ Proved, r' ≠ r → SpecOf r' s d) :
    0 < E (alone s fx r d) ∧ ∀ r' ∈ Proved, r' ≠ r → E (alone s fx r' d) = 0 := by
  refine ⟨Nat.pos_of_ne_zero fun h0 => hbad ((rule_iff s fx d r hr).mp h0), fun r' hr' hne => ?_⟩
  exact (rule_iff s fx d r' hr').mpr (hothers r' hr' hne)

/-! ### invariance of the specification predicates -/

private theorem tr_dir_names (T : Tr) (dirs : List Dir) : (dirs.map T.dir).map (·.name) = dirs.map (·.name) := by
  simp [List.map_map, Function.comp_def, Tr.dir]

private theorem tr_sels_length (T : Tr) (sels : List Sel) : (T.sels (T.selList sels)).length = sels.length := by
  rw [(T.sels_perm _).length_eq, Tr.selList_eq_map, List.length_map]

theorem fragNames_tr (T : Tr) (d : Doc) : Spec.fragNames (T.doc d) = (Spec.fragNames d).map T.frag := by
  simp only [Spec.fragNames, Tr.doc]
  induction d.defs with
  | nil => rfl
  | cons x xs ih => cases x <;> simp_all [Tr.defn, List.filterMap_cons]

/-- the specification predicate of every proved rule is invariant under `Tr` (reordering of selections and of
    arguments everywhere, injective renaming of fragments) -/
theorem spec_tr (T : Tr) (hinj : ∀ a b, T.frag a = T.frag b → a = b) (s : SchemaD) (d : Doc) (r : Rule)
    (hr : r ∈ Proved) (hns : r ≠ .singleFieldSubscriptions) : SpecOf r s (T.doc d) ↔ SpecOf r s d := by
  simp only [Proved, List.mem_cons, List.not_mem_nil, or_false] at hr
  rcases hr with rfl | rfl | rfl | rfl | rfl | rfl | rfl | rfl | rfl | rfl
  · -- executable definitions
    simp only [SpecOf, Spec.executableDefinitions, Tr.doc, List.mem_map, forall_exists_index, and_imp,
      forall_apply_eq_imp_iff₂]
    exact forall_congr' fun x => forall_congr' fun _ => by cases x <;> simp [Tr.defn, Def.isExecutable]
  · -- lone anonymous operation
    simp only [SpecOf, Spec.loneAnonymousOperation, Spec.operations, Tr.doc]
    have hlen : ((d.defs.map T.defn).filter (·.isOp)).length = (d.defs.filter (·.isOp)).length := by
      induction d.defs with
      | nil => rfl
      | cons x xs ih => cases x <;> simp_all [Tr.defn, Def.isOp, List.filter_cons]
    have hanon : (∃ x ∈ d.defs.map T.defn, ∃ k vs ds i ss, x = Def.op k none vs ds i ss) ↔
        (∃ x ∈ d.defs, ∃ k vs ds i ss, x = Def.op k none vs ds i ss) := by
      constructor
      · rintro ⟨x, hx, k, vs, ds, i, ss, rfl⟩
        obtain ⟨y, hy, e⟩ := List.mem_map.mp hx
        cases y with
        | op k' nm vs' ds' i' ss' =>
          simp only [Tr.defn, Def.op.injEq] at e
          obtain ⟨_, rfl, _⟩ := e
          exact ⟨_, hy, _, _, _, _, _, rfl⟩
        | frag => simp [Tr.defn] at e
        | ts => simp [Tr.defn] at e
      · rintro ⟨x, hx, k, vs, ds, i, ss, rfl⟩
        exact ⟨_, List.mem_map_of_mem hx, _, _, _, _, _, rfl⟩
    rw [hanon, hlen]
  · -- single field subscriptions: the collected response keys (5.2.3.1) - invariance not proved
    exact absurd rfl hns
  · -- known type names
    simp only [SpecOf, Spec.knownTypeNames]
    rw [forall_nodes_tr T d (fun n => ∀ t, n = Node.typeNode t → (s.findType t.base).isSome = true)]
    refine forall_congr' fun m => forall_congr' fun _ => ?_
    cases m <;> simp [Tr.node]
  · -- variables are input types
    simp only [SpecOf, Spec.variablesAreInputTypes]
    rw [forall_nodes_tr T d (fun n => ∀ v, n = Node.varDef v → ∃ t, typeFromAst s v.type = some t ∧ isInputTy s t = true)]
    refine forall_congr' fun m => forall_congr' fun _ => ?_
    cases m <;> simp [Tr.node, Tr.varDef]
  · -- known fragment names
    simp only [SpecOf, Spec.knownFragmentNames]
    rw [forall_nodes_tr T d (fun n => ∀ name dirs, n = Node.spread name dirs → name ∈ Spec.fragNames (T.doc d))]
    refine forall_congr' fun m => forall_congr' fun _ => ?_
    cases m <;> simp [Tr.node, fragNames_tr]
    rename_i name dirs _
    constructor
    · rintro ⟨a, ha, e⟩; rwa [← hinj _ _ e]
    · intro h; exact ⟨name, h, rfl⟩
  · -- unique directives per location
    simp only [SpecOf, Spec.uniqueDirectivesPerLocation]
    rw [forall_nodes_tr T d (fun n => ∀ dirs, Spec.uniqueDirectivesPerLocation.Node.dirsOf? n = some dirs →
      (dirs.map (·.name)).Nodup)]
    refine forall_congr' fun m => forall_congr' fun _ => ?_
    have hcomp : ((fun x : Dir => x.name) ∘ T.dir) = fun x => x.name := rfl
    cases m <;> simp [Tr.node, Tr.varDef, Spec.uniqueDirectivesPerLocation.Node.dirsOf?, hcomp]
  · -- unique argument names
    simp only [SpecOf, Spec.uniqueArgumentNames]
    rw [forall_nodes_tr T d (fun n => ∀ name args dirs hs, n = Node.field name args dirs hs → (args.map (·.name)).Nodup),
      forall_nodes_tr T d (fun n => ∀ dr, n = Node.directive dr → (dr.args.map (·.name)).Nodup)]
    refine and_congr (forall_congr' fun m => forall_congr' fun _ => ?_) (forall_congr' fun m => forall_congr' fun _ => ?_)
    · cases m with
      | field name args dirs hs =>
        simp only [Tr.node, Node.field.injEq]
        constructor
        · rintro h n a ds h' ⟨rfl, rfl, rfl, rfl⟩
          exact ((T.args_perm _).map _).nodup_iff.mp (h _ _ _ _ ⟨rfl, rfl, rfl, rfl⟩)
        · rintro h n a ds h' ⟨rfl, rfl, rfl, rfl⟩
          exact ((T.args_perm _).map _).nodup_iff.mpr (h _ _ _ _ ⟨rfl, rfl, rfl, rfl⟩)
      | _ => simp [Tr.node]
    · cases m <;> simp [Tr.node, Tr.dir]
      rename_i dr _
      exact ((T.args_perm dr.args).map _).nodup_iff
  · -- unique fragment names
    simp only [SpecOf, Spec.uniqueFragmentNames, fragNames_tr]
    unfold List.Nodup
    rw [List.pairwise_map]
    exact ⟨fun h => h.imp (fun {a b} hne (e : a = b) => hne (congrArg T.frag e)),
      fun h => h.imp (fun {a b} hne (e : T.frag a = T.frag b) => hne (hinj _ _ e))⟩
  · -- unique operation names
    simp only [SpecOf, Spec.uniqueOperationNames]
    have : Spec.opNames (T.doc d) = Spec.opNames d := by
      simp only [Spec.opNames, Tr.doc]
      induction d.defs with
      | nil => rfl
      | cons x xs ih => cases x <;> simp_all [Tr.defn, List.filterMap_cons]
    rw [this]

/-- the specification predicate of every proved rule is invariant under reordering of the definitions -/
theorem spec_perm_definitions (s : SchemaD) {d d' : Doc} (h : d.defs.Perm d'.defs) (r : Rule) (hr : r ∈ Proved)
    (hns : r ≠ .singleFieldSubscriptions) :
    SpecOf r s d ↔ SpecOf r s d' := by
  have hfr : ∀ x, x ∈ Spec.fragNames d ↔ x ∈ Spec.fragNames d' := fun x => (h.filterMap _).mem_iff
  have hnodes : ∀ (P : Node → Prop), (∀ d, P (.document d)) → ((∀ n ∈ nodes d, P n) ↔ (∀ n ∈ nodes d', P n)) := by
    intro P hP
    simp only [nodes, List.mem_cons, List.mem_flatMap, forall_eq_or_imp]
    constructor
    · rintro ⟨_, H⟩; exact ⟨hP _, fun n ⟨x, hx, hm⟩ => H n ⟨x, h.mem_iff.mpr hx, hm⟩⟩
    · rintro ⟨_, H⟩; exact ⟨hP _, fun n ⟨x, hx, hm⟩ => H n ⟨x, h.mem_iff.mp hx, hm⟩⟩
  simp only [Proved, List.mem_cons, List.not_mem_nil, or_false] at hr
  rcases hr with rfl | rfl | rfl | rfl | rfl | rfl | rfl | rfl | rfl | rfl
  · simp only [SpecOf, Spec.executableDefinitions]
    exact ⟨fun H x hx => H x (h.mem_iff.mpr hx), fun H x hx => H x (h.mem_iff.mp hx)⟩
  · simp only [SpecOf, Spec.loneAnonymousOperation, Spec.operations]
    rw [(h.filter _).length_eq]
    exact imp_congr ⟨fun ⟨x, hx, e⟩ => ⟨x, h.mem_iff.mp hx, e⟩, fun ⟨x, hx, e⟩ => ⟨x, h.mem_iff.mpr hx, e⟩⟩ Iff.rfl
  · exact absurd rfl hns
  · exact hnodes _ (fun _ => by simp)
  · exact hnodes _ (fun _ => by simp)
  · simp only [SpecOf, Spec.knownFragmentNames]
    rw [hnodes (fun n => ∀ name dirs, n = Node.spread name dirs → name ∈ Spec.fragNames d) (fun _ => by simp)]
    exact forall_congr' fun n => forall_congr' fun _ => forall_congr' fun name => forall_congr' fun _ =>
      forall_congr' fun _ => hfr name
  · exact hnodes _ (fun _ => by simp [Spec.uniqueDirectivesPerLocation.Node.dirsOf?])
  · simp only [SpecOf, Spec.uniqueArgumentNames]
    exact and_congr (hnodes _ (fun _ => by simp)) (hnodes _ (fun _ => by simp))
  · simp only [SpecOf, Spec.uniqueFragmentNames, Spec.fragNames]
    exact (h.filterMap _).nodup_iff
  · simp only [SpecOf, Spec.uniqueOperationNames, Spec.opNames]
    exact (h.filterMap _).nodup_iff

/-! ### transported to the rule visitors

  The `_partial` theorems below are the invariance part of C06 for the rules in `Proved`. The full statements
  (all 26 rules, i.e. the verdict of the whole chain) are kept visible here; what is missing is a `rule_*_iff`
  for the rules named in `Spec.Unproved` - for those the invariance rests on the correspondence and on the
  metamorphic oracle of harness/corr/C06.py. For the code before the fix commits the full statements are FALSE
  (`perm_selections_refuted_unfixed`, `perm_definitions_refuted_unfixed` in C06_witness.lean). -/

/-- full statement: reordering definitions never changes the verdict of the chain -/
def FullStatement_perm_definitions : Prop :=
  ∀ (s : SchemaD) (d d' : Doc), d.defs.Perm d'.defs → verdict { schema := s } d = verdict { schema := s } d'

/-- (PROVED for the chain /repo runs, under the hypotheses of the headline theorems: `Props/C06_chain.lean:
    chainM_six_transformations`; per rule, all 26: `tr_invariance_all26`.)
    full statement: reordering selections / arguments and renaming fragments injectively never changes the
    verdict of the chain (renaming of aliases: `Al`, Props/C06_inv6.lean; of variables: `Vr`, Props/C06_inv7.lean,
    C06_inv8.lean - each proved for 25 of the 26 rules) -/
def FullStatement_tr_invariance : Prop :=
  ∀ (T : Tr), (∀ a b, T.frag a = T.frag b → a = b) → ∀ (s : SchemaD) (d : Doc),
    verdict { schema := s } (T.doc d) = verdict { schema := s } d

/-- (PROVED for the chain /repo runs, under the hypotheses of the headline theorems and with the exception flag as an explicit
    conjunct: `Props/C06_chain.lean: verdictM_iff_spec`, `verdict_chain_iff`; for `verdict` itself: `verdict_iff_spec`.)
    full statement of the equivalence with the specification: needs a specification predicate and a
    `rule_*_iff` for every rule of `Rule.all` -/
def FullStatement_verdict_iff (SpecAll : Rule → SchemaD → Doc → Prop) : Prop :=
  ∀ (s : SchemaD) (d : Doc), verdict { schema := s } d = some true ↔ ∀ r ∈ Rule.all, SpecAll r s d

/-- **perm_definitions**: reordering the definitions of the document does not change the verdict of any proved rule -/
theorem perm_definitions_partial (s : SchemaD) (fx : Fixes) {d d' : Doc} (h : d.defs.Perm d'.defs) (r : Rule) (hr : r ∈ Proved)
    (hns : r ≠ .singleFieldSubscriptions) : Silent s fx r d ↔ Silent s fx r d' := by
  rw [rule_iff s fx d r hr, rule_iff s fx d' r hr]; exact spec_perm_definitions s h r hr hns

/-- general form: any `Tr` with an injective fragment renaming -/
theorem tr_invariance_partial (T : Tr) (hinj : ∀ a b, T.frag a = T.frag b → a = b) (s : SchemaD) (fx : Fixes) (d : Doc)
    (r : Rule) (hr : r ∈ Proved) (hns : r ≠ .singleFieldSubscriptions) : Silent s fx r (T.doc d) ↔ Silent s fx r d := by
  rw [rule_iff s fx _ r hr, rule_iff s fx d r hr]; exact spec_tr T hinj s d r hr hns

/-- **perm_selections**: `π` re-orders every selection list of the document (at every depth) -/
theorem perm_selections_partial (π : List Sel → List Sel) (hπ : ∀ l, (π l).Perm l) (s : SchemaD) (fx : Fixes) (d : Doc)
    (r : Rule) (hr : r ∈ Proved) (hns : r ≠ .singleFieldSubscriptions) :
    Silent s fx r ((Tr.mk π id id hπ (fun _ => List.Perm.refl _)).doc d) ↔ Silent s fx r d :=
  tr_invariance_partial _ (fun _ _ e => e) s fx d r hr hns

/-- **perm_arguments**: `π` re-orders the arguments of every field and every directive -/
theorem perm_arguments_partial (π : List Arg → List Arg) (hπ : ∀ l, (π l).Perm l) (s : SchemaD) (fx : Fixes) (d : Doc)
    (r : Rule) (hr : r ∈ Proved) (hns : r ≠ .singleFieldSubscriptions) :
    Silent s fx r ((Tr.mk id π id (fun _ => List.Perm.refl _) hπ).doc d) ↔ Silent s fx r d :=
  tr_invariance_partial _ (fun _ _ e => e) s fx d r hr hns

/-- **alpha_fragments**: `ρ` renames fragments injectively (definitions and spreads consistently) -/
theorem alpha_fragments_partial (ρ : String → String) (hρ : ∀ a b, ρ a = ρ b → a = b) (s : SchemaD) (fx : Fixes) (d : Doc)
    (r : Rule) (hr : r ∈ Proved) (hns : r ≠ .singleFieldSubscriptions) :
    Silent s fx r ((Tr.mk id id ρ (fun _ => List.Perm.refl _) (fun _ => List.Perm.refl _)).doc d) ↔ Silent s fx r d :=
  tr_invariance_partial _ hρ s fx d r hr hns

/-- non-vacuity: a genuine reordering of selections is an instance (`List.reverse`) -/
example (s : SchemaD) (fx : Fixes) (d : Doc) (r : Rule) (hr : r ∈ Proved) (hns : r ≠ .singleFieldSubscriptions) :
    Silent s fx r ((Tr.mk List.reverse id id (fun l => l.reverse_perm) (fun _ => List.Perm.refl _)).doc d) ↔
      Silent s fx r d := perm_selections_partial List.reverse (fun l => l.reverse_perm) s fx d r hr hns

end PyGql.Props.C06

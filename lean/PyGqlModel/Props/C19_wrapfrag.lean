/-
  C19 — wrapping INSIDE FRAGMENT BODIES never lowers (in fact: never changes) the measured depth.

  `wrap_inline_ge` / `wrap_spread_ge` (Props/C19.lean) wrap selections of the OPERATION and keep the fragments.
  Here a block of selections of a fragment DEFINITION (at any nesting level of its body) is wrapped in an inline
  fragment (`wrap_inline_in_fragment_ge`) or moved into a new named fragment (`wrap_spread_in_fragment_ge`), the
  operations stay as they are: every operation of the document — spreading the fragment directly, through other
  fragments, or not at all — keeps its measured depth, which is the specified one in both documents.
  Both documents are valid (`Valid`: acyclic fragments, directive variables bound) — the property quantifies over
  valid documents, and the wrapped document is one.
-/
import PyGqlModel.Props.C19

set_option linter.unusedVariables false
set_option linter.unusedSimpArgs false

namespace PyGql.Props.C19
open PyGql.Depth PyGql.DepthSpec PyGql.Depth.Lemmas

/-! ### simulation of two fragment environments -/

private theorem cL_congr' (frags frags' : List Frag) (vars : Vars) (w w' : String → Nat) (l : List Sel)
    (h : ∀ c ∈ l, cLv frags' vars w' c = cLv frags vars w c) : cL frags' vars w' l = cL frags vars w l := by
  unfold cL
  congr 1
  exact List.map_congr_left h

/-- two fragment environments in which every fragment that a selection of the class `S` can reach has a body with the
    same canonical levels (measured in the SECOND environment) give every such selection the same levels -/
private theorem cLv_sim (frags frags' : List Frag) (vars : Vars) (w w' : String → Nat)
    (hc : Consistent frags w) (hc' : Consistent frags' w') (S : Sel → Prop)
    (hSf : ∀ a n d sub, S (.field a n d sub) → ∀ c ∈ sub, S c)
    (hSi : ∀ d ss, S (.inline d ss) → ∀ c ∈ ss, S c)
    (hSs : ∀ n d, S (.spread n d) →
      (lookupFrag frags n = none ∧ lookupFrag frags' n = none) ∨
      ∃ f f', lookupFrag frags n = some f ∧ lookupFrag frags' n = some f' ∧
        cL frags' vars w' f'.sels = cL frags' vars w' f.sels ∧ ∀ c ∈ f.sels, S c) :
    ∀ (k : Nat) (s : Sel), pot w s ≤ k → S s → cLv frags' vars w' s = cLv frags vars w s := by
  intro k
  induction k with
  | zero => intro s h; have := pot_pos w s; omega
  | succ k ih =>
    intro s hk hS
    cases s with
    | field a n d sub =>
      rw [pot_field] at hk
      rw [cLv_field _ vars w' hc', cLv_field _ vars w hc,
        cL_congr' frags frags' vars w w' sub (fun c hcm => ih c (by have := pot_le_potL w sub c hcm; omega) (hSf a n d sub hS c hcm))]
    | inline d ss =>
      rw [pot_inline] at hk
      rw [cLv_inline _ vars w' hc', cLv_inline _ vars w hc,
        cL_congr' frags frags' vars w w' ss (fun c hcm => ih c (by have := pot_le_potL w ss c hcm; omega) (hSi d ss hS c hcm))]
    | spread n d =>
      rw [pot_spread] at hk
      rw [cLv_spread _ vars w' hc', cLv_spread _ vars w hc]
      rcases hSs n d hS with ⟨h0, h0'⟩ | ⟨f, f', h1, h1', hb, hSb⟩
      · simp [fragLv, h0, h0']
      · have ⟨hm, hn⟩ := lookupFrag_some h1
        have hwf := hc f hm
        rw [hn] at hwf
        have : cL frags' vars w' f.sels = cL frags vars w f.sels :=
          cL_congr' frags frags' vars w w' f.sels
            (fun c hcm => ih c (by have := pot_le_potL w f.sels c hcm; omega) (hSb c hcm))
        simp [fragLv, h1, h1', hb, this]

private theorem cL_sim (frags frags' : List Frag) (vars : Vars) (w w' : String → Nat)
    (hc : Consistent frags w) (hc' : Consistent frags' w') (S : Sel → Prop)
    (hSf : ∀ a n d sub, S (.field a n d sub) → ∀ c ∈ sub, S c)
    (hSi : ∀ d ss, S (.inline d ss) → ∀ c ∈ ss, S c)
    (hSs : ∀ n d, S (.spread n d) →
      (lookupFrag frags n = none ∧ lookupFrag frags' n = none) ∨
      ∃ f f', lookupFrag frags n = some f ∧ lookupFrag frags' n = some f' ∧
        cL frags' vars w' f'.sels = cL frags' vars w' f.sels ∧ ∀ c ∈ f.sels, S c)
    (l : List Sel) (hl : ∀ c ∈ l, S c) : cL frags' vars w' l = cL frags vars w l :=
  cL_congr' frags frags' vars w w' l (fun c hcm => cLv_sim frags frags' vars w w' hc hc' S hSf hSi hSs _ c (Nat.le_refl _) (hl c hcm))

/-! ### looking a fragment up in `pre ++ [g] ++ post` (the LAST definition wins) -/

private theorem lookup_mid (pre post : List Frag) (g : Frag) (n : String) :
    lookupFrag (pre ++ [g] ++ post) n =
      match lookupFrag post n with
      | some x => some x
      | none => if g.name == n then some g else lookupFrag pre n := by
  simp only [lookupFrag, List.reverse_append, List.reverse_cons, List.reverse_nil, List.nil_append, List.find?_append,
    List.find?_cons, List.find?_nil]
  cases h : List.find? (fun f => f.name == n) post.reverse with
  | some x => simp
  | none =>
    by_cases hg : (g.name == n) = true
    · simp [hg]
    · simp [hg]

/-! ### the specified depth through canonical levels, without the private helpers of `Props/C19.lean` -/

private theorem le_maxList' {l : List Nat} {x : Nat} (h : x ∈ l) : x ≤ maxList l := by
  induction l with
  | nil => cases h
  | cons y ys ih =>
    simp only [maxList]
    cases h with
    | head => omega
    | tail _ h => have := ih h; omega

private theorem fuel_ok' (doc : Doc) (op : Op) (hop : op ∈ doc.ops) : potL (wt doc) op.sels + 1 ≤ doc.fuel := by
  unfold Doc.fuel
  have : potL (wt doc) op.sels ∈ doc.ops.map (fun o => potL (wOf (weights doc.frags)) o.sels) :=
    List.mem_map.2 ⟨op, hop, rfl⟩
  have := le_maxList' this
  omega

private theorem consistent_of_valid (doc : Doc) (vars : Vars) (hv : Valid doc vars) : Consistent doc.frags (wt doc) := by
  intro f hf
  have h := hv.1
  simp only [acyclic, List.all_eq_true, decide_eq_true_eq] at h
  exact h f hf

private theorem depth_eq_cL' (doc : Doc) (vars : Vars) (hv : Valid doc vars) (op : Op) (hop : op ∈ doc.ops) :
    depth doc vars op = cL doc.frags vars (wt doc) op.sels - 1 := by
  have hf := fuel_ok' doc op hop
  unfold depth depthWith
  rw [levels_eq_cL doc.frags vars (wt doc) (consistent_of_valid doc vars hv) doc.fuel op.sels (by omega)]

/-- two valid documents with the same operations whose fragment environments simulate each other on the class `S`
    containing every selection of the operation: same specified depth, and the rule measures it in both -/
private theorem same_depth_of_sim (doc doc' : Doc) (vars : Vars) (hv : Valid doc vars) (hv' : Valid doc' vars)
    (op : Op) (hop : op ∈ doc.ops) (hop' : op ∈ doc'.ops)
    (hcl : cL doc'.frags vars (wt doc') op.sels = cL doc.frags vars (wt doc) op.sels) :
    ∃ d d', depthFixed doc.fuel op doc.frags vars = .ok d ∧ depthFixed doc'.fuel op doc'.frags vars = .ok d' ∧
      d ≤ d' ∧ d' = depth doc vars op ∧ d' = depth doc' vars op := by
  have h1 := measured_eq_depth doc vars hv op hop doc.fuel (Nat.le_refl _)
  have h2 := measured_eq_depth doc' vars hv' op hop' doc'.fuel (Nat.le_refl _)
  have e : depth doc' vars op = depth doc vars op := by
    rw [depth_eq_cL' doc vars hv op hop, depth_eq_cL' doc' vars hv' op hop', hcl]
  exact ⟨_, _, h1, h2, by omega, e, rfl⟩

/-! ### inline fragments inside a fragment body -/

private theorem skipped_none' (vars : Vars) : skipped vars {} = false := by simp [skipped]

private theorem wrapInline_cL' (frags : List Frag) (vars : Vars) (w : String → Nat) (hc : Consistent frags w)
    {s s' : List Sel} (h : WrapInline s s') : cL frags vars w s' = cL frags vars w s := by
  induction h with
  | here pre mid post =>
    simp [cL_append, cL_cons, cL_nil, cLv_inline frags vars w hc, skipped_none']
  | field pre post a n d sub sub' _ ih =>
    simp [cL_append, cL_cons, cL_nil, cLv_field frags vars w hc, ih]
  | inline pre post d ss ss' _ ih =>
    simp [cL_append, cL_cons, cL_nil, cLv_inline frags vars w hc, ih]

/-- **wrap_inline_in_fragment_ge** — wrapping a block of selections of a fragment DEFINITION (at the top of its body
    or at any nesting level of it) in an inline fragment never lowers the depth the rule measures for ANY operation of
    the document (it leaves it unchanged, and it is the specified depth in both documents).
    SUPERSEDED VARIANT: about `depthFixed` (strict variables); for the measure of the rule the tree runs see `wrap_inline_in_fragment_final`. -/
theorem wrap_inline_in_fragment_ge (doc doc' : Doc) (vars : Vars) (hv : Valid doc vars) (hv' : Valid doc' vars)
    (pre post : List Frag) (f : Frag) (sels' : List Sel) (hw : WrapInline f.sels sels')
    (hfr : doc.frags = pre ++ [f] ++ post) (hfr' : doc'.frags = pre ++ [⟨f.name, sels'⟩] ++ post)
    (hops : doc'.ops = doc.ops) (op : Op) (hop : op ∈ doc.ops) :
    ∃ d d', depthFixed doc.fuel op doc.frags vars = .ok d ∧ depthFixed doc'.fuel op doc'.frags vars = .ok d' ∧
      d ≤ d' ∧ d' = depth doc vars op ∧ d' = depth doc' vars op := by
  have hc := consistent_of_valid doc vars hv
  have hc' := consistent_of_valid doc' vars hv'
  refine same_depth_of_sim doc doc' vars hv hv' op hop (by rw [hops]; exact hop) ?_
  refine cL_sim doc.frags doc'.frags vars (wt doc) (wt doc') hc hc' (fun _ => True) (fun _ _ _ _ _ _ _ => trivial)
    (fun _ _ _ _ _ => trivial) ?_ op.sels (fun _ _ => trivial)
  intro n d _
  rw [hfr, hfr', lookup_mid, lookup_mid]
  cases hp : lookupFrag post n with
  | some x => exact .inr ⟨x, x, rfl, rfl, rfl, fun _ _ => trivial⟩
  | none =>
    simp only []
    by_cases hg : (f.name == n) = true
    · simp only [hg, if_true]
      refine .inr ⟨f, ⟨f.name, sels'⟩, rfl, rfl, ?_, fun _ _ => trivial⟩
      rw [← hfr']
      exact wrapInline_cL' doc'.frags vars (wt doc') hc' hw
    · simp only [hg]
      cases hq : lookupFrag pre n with
      | none => exact .inl ⟨by simp, by simp⟩
      | some x => exact .inr ⟨x, x, by simp, by simp, rfl, fun _ _ => trivial⟩

/-! ### a new named fragment carved out of a fragment body -/

private theorem freeL_mem' (nm : String) : ∀ (l : List Sel) (s : Sel), freeL nm l = true → s ∈ l → freeSel nm s = true := by
  intro l
  induction l with
  | nil => intro s _ h; cases h
  | cons x xs ih =>
    intro s hb h
    simp [freeL] at hb
    cases h with
    | head => exact hb.1
    | tail _ h => exact ih s hb.2 h

private theorem lookup_extended' (frags : List Frag) (nm : String) (body : List Sel) (n : String) :
    lookupFrag (frags ++ [⟨nm, body⟩]) n = if nm == n then some ⟨nm, body⟩ else lookupFrag frags n := by
  simp [lookupFrag, List.find?_cons]
  split <;> simp_all

/-- in an environment that defines `nm` as `body`, replacing a block `body` by `...nm` keeps the canonical levels -/
private theorem wrapSpread_cL_ctx (frags : List Frag) (vars : Vars) (w : String → Nat) (hc : Consistent frags w)
    (nm : String) (body : List Sel) (hl : lookupFrag frags nm = some ⟨nm, body⟩)
    {s s' : List Sel} (h : WrapSpread nm body s s') : cL frags vars w s' = cL frags vars w s := by
  induction h with
  | here pre post =>
    have hlk : fragLv frags vars w nm = cL frags vars w body := by simp [fragLv, hl]
    simp [cL_append, cL_cons, cL_nil, cLv_spread frags vars w hc, skipped_none', hlk]
  | field pre post a n d sub sub' _ ih =>
    simp [cL_append, cL_cons, cL_nil, cLv_field frags vars w hc, ih]
  | inline pre post d ss ss' _ ih =>
    simp [cL_append, cL_cons, cL_nil, cLv_inline frags vars w hc, ih]

/-- **wrap_spread_in_fragment_ge** — moving a block of selections of a fragment DEFINITION (at any nesting level of its
    body) into a new named fragment `nm` and spreading it there never lowers the depth the rule measures for ANY
    operation of the document (it leaves it unchanged = the specified depth in both documents).
    `nm` is fresh: not defined in `doc` and not spread in the operation or in any fragment body of `doc`.
    SUPERSEDED VARIANT: about `depthFixed` (strict variables); for the measure of the rule the tree runs see `wrap_spread_in_fragment_final`. -/
theorem wrap_spread_in_fragment_ge (doc doc' : Doc) (vars : Vars) (hv : Valid doc vars) (hv' : Valid doc' vars)
    (pre post : List Frag) (f : Frag) (nm : String) (body sels' : List Sel) (hw : WrapSpread nm body f.sels sels')
    (hfr : doc.frags = pre ++ [f] ++ post)
    (hfr' : doc'.frags = (pre ++ [⟨f.name, sels'⟩] ++ post) ++ [⟨nm, body⟩])
    (hfresh : ∀ g ∈ doc.frags, g.name ≠ nm) (hfree : ∀ g ∈ doc.frags, freeL nm g.sels = true)
    (hops : doc'.ops = doc.ops) (op : Op) (hop : op ∈ doc.ops) (hfreeop : freeL nm op.sels = true) :
    ∃ d d', depthFixed doc.fuel op doc.frags vars = .ok d ∧ depthFixed doc'.fuel op doc'.frags vars = .ok d' ∧
      d ≤ d' ∧ d' = depth doc vars op ∧ d' = depth doc' vars op := by
  have hc := consistent_of_valid doc vars hv
  have hc' := consistent_of_valid doc' vars hv'
  have hnm : lookupFrag doc'.frags nm = some ⟨nm, body⟩ := by rw [hfr', lookup_extended']; simp
  refine same_depth_of_sim doc doc' vars hv hv' op hop (by rw [hops]; exact hop) ?_
  refine cL_sim doc.frags doc'.frags vars (wt doc) (wt doc') hc hc' (fun s => freeSel nm s = true)
    (fun a n d sub h c hcm => freeL_mem' nm sub c (by simpa [freeSel] using h) hcm)
    (fun d ss h c hcm => freeL_mem' nm ss c (by simpa [freeSel] using h) hcm) ?_ op.sels
    (fun c hcm => freeL_mem' nm op.sels c hfreeop hcm)
  intro n d hS
  have hne : (nm == n) = false := by
    simp only [freeSel, bne_iff_ne, ne_eq] at hS
    simp; exact fun h => hS h.symm
  have hfrees : ∀ g ∈ doc.frags, ∀ c ∈ g.sels, freeSel nm c = true :=
    fun g hg c hcm => freeL_mem' nm g.sels c (hfree g hg) hcm
  rw [hfr'] at hc' ⊢
  rw [lookup_extended', hne]
  simp only [Bool.false_eq_true, if_false]
  rw [hfr, lookup_mid, lookup_mid]
  cases hp : lookupFrag post n with
  | some x =>
    have hx : x ∈ doc.frags := by rw [hfr]; have := (lookupFrag_some hp).1; simp [this]
    exact .inr ⟨x, x, rfl, rfl, rfl, hfrees x hx⟩
  | none =>
    simp only []
    by_cases hg : (f.name == n) = true
    · simp only [hg, if_true]
      have hf : f ∈ doc.frags := by rw [hfr]; simp
      refine .inr ⟨f, ⟨f.name, sels'⟩, rfl, rfl, ?_, hfrees f hf⟩
      rw [hfr'] at hnm
      exact wrapSpread_cL_ctx _ vars (wt doc') hc' nm body hnm hw
    · simp only [hg]
      cases hq : lookupFrag pre n with
      | none => exact .inl ⟨by simp, by simp⟩
      | some x =>
        have hx : x ∈ doc.frags := by rw [hfr]; have := (lookupFrag_some hq).1; simp [this]
        exact .inr ⟨x, x, by simp, by simp, rfl, hfrees x hx⟩

/-! ### `ValidDeclR` sharpened: availability is needed PER OPERATION, and only to read the result as the plain depth

  The rule the tree runs today (`ruleB`: C19-Q1vars2 + C19-Q2) needs no hypothesis on the variables (`flags_iff_final`):
  it reports the kept-when-unknown depth `depthRK`. The global hypothesis `ValidDeclR` of `flags_iff_raw` (every directive
  variable of EVERY operation available) is therefore not needed for totality or for the verdict; what is left of it is
  local: for an operation whose own directive variables (and those of the fragments) are available in the view the
  rule evaluates it with, the reported depth is the specified depth `depthR` — whatever holds for the other operations. -/

theorem flags_iff_final_available (doc : Doc) (defs : List (List VarDefR)) (raw : RawVars)
    (hu : UniqueNames doc.frags) (ha : Acyclic doc.frags) (limit : Nat) (filter : Option String) :
    ∃ errs, ruleB limit filter doc defs raw = .ok errs ∧
      ∀ (i : Nat) (op : Op), doc.ops[i]? = some op →
        boundL (effectiveVarsR (defs.getD i []) raw) op.sels = true →
        (∀ f ∈ doc.frags, boundL (effectiveVarsR (defs.getD i []) raw) f.sels = true) →
        ((∃ d, (i, d) ∈ errs) ↔ (opSelected filter op = true ∧ depthR doc defs raw i op > limit)) ∧
        (∀ d, (i, d) ∈ errs → d = some (depthR doc defs raw i op)) := by
  obtain ⟨errs, he, h⟩ := flags_iff_final doc defs raw hu ha limit filter
  refine ⟨errs, he, ?_⟩
  intro i op hi hb hfb
  have e : depthRK doc defs raw i op = depthR doc defs raw i op := by
    unfold depthRK depthR
    exact depthK_eq_depth doc _ op hb hfb
  have := h i op hi
  rw [e] at this
  exact this

/-- `ValidDeclR` (the old global hypothesis) implies the local one for every operation -/
theorem validDeclR_available (doc : Doc) (defs : List (List VarDefR)) (raw : RawVars) (hv : ValidDeclR doc defs raw)
    (i : Nat) (op : Op) (hi : doc.ops[i]? = some op) :
    boundL (effectiveVarsR (defs.getD i []) raw) op.sels = true ∧
    ∀ f ∈ doc.frags, boundL (effectiveVarsR (defs.getD i []) raw) f.sels = true :=
  hv.2.2 i op hi

/-! ### the measure of the rule the tree runs today (`ruleB`: conditions that cannot be evaluated keep the selection)

  `depthK doc v op` is what `flags_iff_final` compares with the limit, for ANY view `v` of the request variables (no
  availability hypothesis). Wrapping — in the operation or inside a fragment body — does not change it either: erasing the
  unevaluable directives commutes with the wrapping, and the wrapper itself carries no directive. -/

theorem eraseD_none (v : Vars) : eraseD v {} = {} := by
  simp [eraseD, dirsBound, optBound]

theorem wrapInline_erase (v : Vars) {s s' : List Sel} (h : WrapInline s s') :
    WrapInline (eraseL v s) (eraseL v s') := by
  induction h with
  | here pre mid post =>
    simp only [eraseL_append, eraseL_cons, eraseSel, eraseD_none, eraseL]
    exact .here _ _ _
  | field pre post a n d sub sub' _ ih =>
    simp only [eraseL_append, eraseL_cons, eraseSel, eraseL]
    exact .field _ _ a n _ _ _ ih
  | inline pre post d ss ss' _ ih =>
    simp only [eraseL_append, eraseL_cons, eraseSel, eraseL]
    exact .inline _ _ _ _ _ ih

theorem valid_erase (doc : Doc) (v : Vars) (hu : UniqueNames doc.frags) (ha : Acyclic doc.frags) :
    Valid (eraseDoc v doc) v := by
  refine ⟨?_, ?_, ?_⟩
  · show acyclic (eraseFrags v doc.frags) = true
    rw [acyclic_erase]; exact acyclic_complete doc.frags hu ha
  · intro op hop
    simp only [eraseDoc, List.mem_map] at hop
    obtain ⟨o, _, rfl⟩ := hop
    exact boundL_erase v o.sels
  · intro f hf
    simp only [eraseDoc, eraseFrags, List.mem_map] at hf
    obtain ⟨g, _, rfl⟩ := hf
    exact boundL_erase v g.sels

/-- **wrap_inline_in_fragment_final** — for the rule of today's tree and ANY request variables: wrapping a block of a
    fragment body in an inline fragment leaves the depth it compares with the limit (`depthK`) unchanged, for every
    operation of the document. -/
theorem wrap_inline_in_fragment_final (doc doc' : Doc) (v : Vars)
    (hu : UniqueNames doc.frags) (ha : Acyclic doc.frags) (hu' : UniqueNames doc'.frags) (ha' : Acyclic doc'.frags)
    (pre post : List Frag) (f : Frag) (sels' : List Sel) (hw : WrapInline f.sels sels')
    (hfr : doc.frags = pre ++ [f] ++ post) (hfr' : doc'.frags = pre ++ [⟨f.name, sels'⟩] ++ post)
    (hops : doc'.ops = doc.ops) (op : Op) (hop : op ∈ doc.ops) : depthK doc' v op = depthK doc v op := by
  obtain ⟨d, d', _, _, _, e1, e2⟩ := wrap_inline_in_fragment_ge (eraseDoc v doc) (eraseDoc v doc') v
    (valid_erase doc v hu ha) (valid_erase doc' v hu' ha') (eraseFrags v pre) (eraseFrags v post) (eraseFrag v f)
    (eraseL v sels') (wrapInline_erase v hw)
    (by simp [eraseDoc, eraseFrags, hfr]) (by simp [eraseDoc, eraseFrags, eraseFrag, hfr'])
    (by simp [eraseDoc, hops]) (eraseOp v op) (List.mem_map_of_mem (f := eraseOp v) hop)
  unfold depthK
  rw [← e1, ← e2]

/-- **wrap_inline_final** — the same for a block of the OPERATION (at the top or at any nesting level) -/
theorem wrap_inline_final (doc doc' : Doc) (v : Vars) (hu : UniqueNames doc.frags) (ha : Acyclic doc.frags)
    (op : Op) (hop : op ∈ doc.ops) (sels' : List Sel) (hw : WrapInline op.sels sels') (hfr : doc'.frags = doc.frags)
    (hop' : (⟨op.name, sels'⟩ : Op) ∈ doc'.ops) :
    depthK doc' v ⟨op.name, sels'⟩ = depthK doc v op := by
  have hv := valid_erase doc v hu ha
  have hv' : Valid (eraseDoc v doc') v := valid_erase doc' v (by rw [hfr]; exact hu) (by rw [hfr]; exact ha)
  obtain ⟨d, d', h1, h2, _, e⟩ := wrap_inline_ge (eraseDoc v doc) (eraseDoc v doc') v hv (eraseOp v op)
    (List.mem_map_of_mem (f := eraseOp v) hop) (eraseL v sels') (wrapInline_erase v hw)
    (by simp [eraseDoc, hfr]) (List.mem_map_of_mem (f := eraseOp v) hop')
  have h3 := measured_eq_depth (eraseDoc v doc') v hv' (eraseOp v ⟨op.name, sels'⟩)
    (List.mem_map_of_mem (f := eraseOp v) hop') _ (Nat.le_refl _)
  have : (eraseOp v ⟨op.name, sels'⟩ : Op) = ⟨(eraseOp v op).name, eraseL v sels'⟩ := rfl
  rw [this] at h3
  rw [h2] at h3
  unfold depthK
  rw [this]
  cases h3
  exact e

mutual
theorem freeSel_erase (v : Vars) (nm : String) : ∀ s : Sel, freeSel nm (eraseSel v s) = freeSel nm s
  | .field a n d sub => by simp only [eraseSel, freeSel]; exact freeL_erase v nm sub
  | .inline d ss => by simp only [eraseSel, freeSel]; exact freeL_erase v nm ss
  | .spread n d => by simp [eraseSel, freeSel]
theorem freeL_erase (v : Vars) (nm : String) : ∀ l : List Sel, freeL nm (eraseL v l) = freeL nm l
  | [] => by simp [eraseL, freeL]
  | s :: ss => by simp only [eraseL, freeL, freeSel_erase v nm s, freeL_erase v nm ss]
end

theorem wrapSpread_erase (v : Vars) (nm : String) (body : List Sel) {s s' : List Sel} (h : WrapSpread nm body s s') :
    WrapSpread nm (eraseL v body) (eraseL v s) (eraseL v s') := by
  induction h with
  | here pre post =>
    simp only [eraseL_append, eraseL_cons, eraseSel, eraseD_none, eraseL]
    exact .here _ _
  | field pre post a n d sub sub' _ ih =>
    simp only [eraseL_append, eraseL_cons, eraseSel, eraseL]
    exact .field _ _ a n _ _ _ ih
  | inline pre post d ss ss' _ ih =>
    simp only [eraseL_append, eraseL_cons, eraseSel, eraseL]
    exact .inline _ _ _ _ _ ih

/-- **wrap_spread_in_fragment_final** — for the rule of today's tree and ANY request variables: moving a block of a
    fragment body into a new (fresh) named fragment leaves `depthK` unchanged, for every operation. -/
theorem wrap_spread_in_fragment_final (doc doc' : Doc) (v : Vars)
    (hu : UniqueNames doc.frags) (ha : Acyclic doc.frags) (hu' : UniqueNames doc'.frags) (ha' : Acyclic doc'.frags)
    (pre post : List Frag) (f : Frag) (nm : String) (body sels' : List Sel) (hw : WrapSpread nm body f.sels sels')
    (hfr : doc.frags = pre ++ [f] ++ post)
    (hfr' : doc'.frags = (pre ++ [⟨f.name, sels'⟩] ++ post) ++ [⟨nm, body⟩])
    (hfresh : ∀ g ∈ doc.frags, g.name ≠ nm) (hfree : ∀ g ∈ doc.frags, freeL nm g.sels = true)
    (hops : doc'.ops = doc.ops) (op : Op) (hop : op ∈ doc.ops) (hfreeop : freeL nm op.sels = true) :
    depthK doc' v op = depthK doc v op := by
  obtain ⟨d, d', _, _, _, e1, e2⟩ := wrap_spread_in_fragment_ge (eraseDoc v doc) (eraseDoc v doc') v
    (valid_erase doc v hu ha) (valid_erase doc' v hu' ha') (eraseFrags v pre) (eraseFrags v post) (eraseFrag v f) nm
    (eraseL v body) (eraseL v sels') (wrapSpread_erase v nm body hw)
    (by simp [eraseDoc, eraseFrags, hfr]) (by simp [eraseDoc, eraseFrags, eraseFrag, hfr'])
    (by
      intro g hg
      simp only [eraseDoc, eraseFrags, List.mem_map] at hg
      obtain ⟨g0, hg0, rfl⟩ := hg
      exact hfresh g0 hg0)
    (by
      intro g hg
      simp only [eraseDoc, eraseFrags, List.mem_map] at hg
      obtain ⟨g0, hg0, rfl⟩ := hg
      simp only [eraseFrag, freeL_erase]
      exact hfree g0 hg0)
    (by simp [eraseDoc, hops]) (eraseOp v op) (List.mem_map_of_mem (f := eraseOp v) hop)
    (by simp only [eraseOp, freeL_erase]; exact hfreeop)
  unfold depthK
  rw [← e1, ← e2]

/-! ### non-vacuity: `{ ...F }  fragment F { a { c } d }` -/

private theorem valid_of_checks' (doc : Doc) (vars : Vars) (h1 : acyclic doc.frags = true)
    (h2 : doc.ops.all (fun op => boundL vars op.sels) = true)
    (h3 : doc.frags.all (fun f => boundL vars f.sels) = true) : Valid doc vars := by
  simp only [List.all_eq_true] at h2 h3
  exact ⟨h1, h2, h3⟩

private def fA : Sel := .field none "a" {} [.field none "c" {} []]
private def fD : Sel := .field none "d" {} []
private def opF : Op := ⟨none, [.spread "F" {}]⟩
private def d0 : Doc := ⟨[opF], [⟨"F", [fA, fD]⟩]⟩
/-- `fragment F { ... { a { c } } d }` -/
private def d1 : Doc := ⟨[opF], [⟨"F", [.inline {} [fA], fD]⟩]⟩
/-- `fragment F { ...G d }  fragment G { a { c } }` -/
private def d2 : Doc := ⟨[opF], [⟨"F", [.spread "G" {}, fD]⟩, ⟨"G", [fA]⟩]⟩

example : ∃ d d', depthFixed d0.fuel opF d0.frags [] = .ok d ∧ depthFixed d1.fuel opF d1.frags [] = .ok d' ∧
    d ≤ d' ∧ d' = depth d0 [] opF ∧ d' = depth d1 [] opF :=
  wrap_inline_in_fragment_ge d0 d1 [] (valid_of_checks' _ _ (by decide) (by decide) (by decide))
    (valid_of_checks' _ _ (by decide) (by decide) (by decide)) [] [] ⟨"F", [fA, fD]⟩ [.inline {} [fA], fD]
    (.here [] [fA] [fD]) rfl rfl rfl opF (by simp [d0])

example : ∃ d d', depthFixed d0.fuel opF d0.frags [] = .ok d ∧ depthFixed d2.fuel opF d2.frags [] = .ok d' ∧
    d ≤ d' ∧ d' = depth d0 [] opF ∧ d' = depth d2 [] opF :=
  wrap_spread_in_fragment_ge d0 d2 [] (valid_of_checks' _ _ (by decide) (by decide) (by decide))
    (valid_of_checks' _ _ (by decide) (by decide) (by decide)) [] [] ⟨"F", [fA, fD]⟩ "G" [fA] [.spread "G" {}, fD]
    (.here [] [fD]) rfl rfl (by decide) (by decide) rfl opF (by simp [d0]) (by decide)

/-- and the common depth is 1 -/
example : depthFixed d2.fuel opF d2.frags [] = .ok 1 := by decide

/-- the hypotheses of `flags_iff_final_available` hold for `d2` (no directive variables at all) -/
example : UniqueNames d2.frags ∧ Acyclic d2.frags ∧ boundL (effectiveVarsR ([] : List VarDefR) []) opF.sels = true ∧
    ∀ f ∈ d2.frags, boundL (effectiveVarsR ([] : List VarDefR) []) f.sels = true :=
  ⟨by unfold UniqueNames; decide, acyclic_sound _ (by decide), by decide, by decide⟩

/-- `wrap_inline_in_fragment_final` instantiated on `d0` / `d1`, for a view with an unknown variable -/
example : depthK d1 [("unused", true)] opF = depthK d0 [("unused", true)] opF :=
  wrap_inline_in_fragment_final d0 d1 _ (by unfold UniqueNames; decide) (acyclic_sound _ (by decide))
    (by unfold UniqueNames; decide) (acyclic_sound _ (by decide)) [] [] ⟨"F", [fA, fD]⟩ [.inline {} [fA], fD]
    (.here [] [fA] [fD]) rfl rfl rfl opF (by simp [d0])

/-- `wrap_spread_in_fragment_final` instantiated on `d0` / `d2` -/
example : depthK d2 [("unused", true)] opF = depthK d0 [("unused", true)] opF :=
  wrap_spread_in_fragment_final d0 d2 _ (by unfold UniqueNames; decide) (acyclic_sound _ (by decide))
    (by unfold UniqueNames; decide) (acyclic_sound _ (by decide)) [] [] ⟨"F", [fA, fD]⟩ "G" [fA] [.spread "G" {}, fD]
    (.here [] [fD]) rfl rfl (by decide) (by decide) rfl opF (by simp [d0]) (by decide)

end PyGql.Props.C19

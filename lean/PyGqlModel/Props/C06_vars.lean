/-
  C06 - property theorems, part 8: the four VARIABLE rules (5.8.1, 5.8.3, 5.8.4, 5.8.5):
  `UniqueVariableNamesChecker`, `NoUndefinedVariablesChecker`, `NoUnusedVariablesChecker`,
  `VariablesInAllowedPositionChecker`; clauses in `Spec/ValidSpecVars.lean`.
-/
import PyGqlModel.Props.C06_names
import PyGqlModel.Spec.ValidSpecVars
import PyGqlModel.Lemmas.ValidateVarsIdle
import PyGqlModel.Lemmas.ValidateVarsChain
import PyGqlModel.Props.C06_witness
namespace PyGql.Props.C06
open PyGql PyGql.Validate PyGql.Validate.Spec

/-! ### UniqueVariableNamesChecker -/

private theorem uv_enter_one (s : SchemaD) (fx : Fixes) (n : Node) (st : St) :
    enter ⟨s, fx, [.uniqueVariableNames]⟩ n st =
      ({ ti := tiEnter s n st.ti, rs := (enterRule s fx .uniqueVariableNames n (tiEnter s n st.ti) st.rs).1 },
       (enterRule s fx .uniqueVariableNames n (tiEnter s n st.ti) st.rs).2) := by
  simp only [enter, enterRules_one]

private theorem uv_leave_one (s : SchemaD) (fx : Fixes) (n : Node) (st : St) :
    leave ⟨s, fx, [.uniqueVariableNames]⟩ n st =
      { ti := tiLeave n st.ti, rs := leaveRule s fx .uniqueVariableNames n st.ti st.rs } := by
  simp only [leave, List.reverse_cons, List.reverse_nil, List.nil_append, List.foldl_cons, List.foldl_nil]

/-- below variable definitions / in directives and selections the rule does nothing -/
private theorem uv_cfk (s : SchemaD) (fx : Fixes) (L : List String) :
    CFK ⟨s, fx, [.uniqueVariableNames]⟩ (fun st => st.rs.uvVars = L) (fun _ => 0) (fun _ => 0) where
  noskip n st hn _ := by rw [uv_enter_one]; cases n <;> simp_all [enterRule, Node.isBody]
  enterE n st hn _ := by rw [uv_enter_one]; cases n <;> simp_all [enterRule, Node.isBody, E]
  enterI n st hn hi := by rw [uv_enter_one]; cases n <;> simp_all [enterRule, Node.isBody]
  leaveE n st hn _ := by rw [uv_leave_one]; cases n <;> simp_all [leaveRule, Node.isBody, E]
  leaveI n st hn hi := by rw [uv_leave_one]; cases n <;> simp_all [leaveRule, Node.isBody]

private theorem uv_body {L : List String} {ns : List Node} {st st' : St}
    (h : Post (fun st => st.rs.uvVars = L) (fun _ => 0) (fun _ => 0) ns st st') :
    E st' = E st ∧ st'.rs.uvVars = L := ⟨by rw [h.2, total_zero]; rfl, h.1⟩

private theorem visitNode_noskip' (c : Cfg) (n : Node) (body : St → St) (st : St) (h : (enter c n st).2 = false) :
    visitNode c n body st = leave c n (body (enter c n st).1) := by
  unfold visitNode
  revert h
  generalize enter c n st = p
  obtain ⟨a, b⟩ := p
  intro h; simp only at h; subst h; rfl

private theorem uv_enter_varDef (s : SchemaD) (fx : Fixes) (v : VarDef) (st : St) :
    (enter ⟨s, fx, [.uniqueVariableNames]⟩ (.varDef v) st).2 = false ∧
    E (enter ⟨s, fx, [.uniqueVariableNames]⟩ (.varDef v) st).1 = E st + dupCount st.rs.uvVars [v.name] ∧
    (enter ⟨s, fx, [.uniqueVariableNames]⟩ (.varDef v) st).1.rs.uvVars = v.name :: st.rs.uvVars := by
  rw [uv_enter_one]
  by_cases hc : v.name ∈ st.rs.uvVars <;> simp [enterRule, hc, E, dupCount, RS.err]

private theorem uv_visitVarDef (s : SchemaD) (fx : Fixes) (v : VarDef) (st : St) :
    E (visitVarDef ⟨s, fx, [.uniqueVariableNames]⟩ v st) = E st + dupCount st.rs.uvVars [v.name] ∧
    (visitVarDef ⟨s, fx, [.uniqueVariableNames]⟩ v st).rs.uvVars = v.name :: st.rs.uvVars := by
  obtain ⟨h1, h2, h3⟩ := uv_enter_varDef s fx v st
  rw [visitVarDef, visitNode_noskip' _ _ _ _ h1]
  generalize (enter ⟨s, fx, [.uniqueVariableNames]⟩ (.varDef v) st).1 = st1 at h2 h3
  have hb := uv_body (varDefBodyK (uv_cfk s fx (v.name :: st.rs.uvVars)) v st1 h3)
  simp only [uv_leave_one, leaveRule, E] at hb h2 ⊢
  exact ⟨hb.1.trans h2, hb.2⟩

private theorem uv_visitVarDefs (s : SchemaD) (fx : Fixes) (vs : List VarDef) (st : St) :
    E (vs.foldl (fun st v => visitVarDef ⟨s, fx, [.uniqueVariableNames]⟩ v st) st) =
      E st + dupCount st.rs.uvVars (vs.map (·.name)) ∧
    (vs.foldl (fun st v => visitVarDef ⟨s, fx, [.uniqueVariableNames]⟩ v st) st).rs.uvVars =
      (vs.map (·.name)).reverse ++ st.rs.uvVars := by
  induction vs generalizing st with
  | nil => simp [dupCount]
  | cons v vs ih =>
    have h1 := uv_visitVarDef s fx v st
    have h2 := ih (visitVarDef ⟨s, fx, [.uniqueVariableNames]⟩ v st)
    simp only [List.foldl_cons, List.map_cons, List.reverse_cons, List.append_assoc, List.singleton_append]
    rw [h2.1, h2.2, h1.1, h1.2]
    refine ⟨?_, rfl⟩
    simp only [dupCount, Nat.add_zero]
    omega

/-- duplicates among the variables of one definition -/
def defVarDups : Def → Nat
  | .op _ _ vars _ _ _ => dupCount [] (vars.map (·.name))
  | _ => 0

private theorem uv_visitDef (s : SchemaD) (fx : Fixes) (x : Def) (st : St) :
    E (visitDef ⟨s, fx, [.uniqueVariableNames]⟩ x st) = E st + defVarDups x := by
  cases x with
  | op kind name vars dirs ssid sels =>
    have h1 : (enter ⟨s, fx, [.uniqueVariableNames]⟩ (.operation kind name vars dirs sels) st).2 = false := by
      rw [uv_enter_one]; simp only [enterRule]
    have h2 : E (enter ⟨s, fx, [.uniqueVariableNames]⟩ (.operation kind name vars dirs sels) st).1 = E st := by
      rw [uv_enter_one]; simp only [enterRule, E]
    have h3 : (enter ⟨s, fx, [.uniqueVariableNames]⟩ (.operation kind name vars dirs sels) st).1.rs.uvVars = [] := by
      rw [uv_enter_one]; simp only [enterRule]
    rw [visitDef, visitNode_noskip' _ _ _ _ h1]
    generalize (enter ⟨s, fx, [.uniqueVariableNames]⟩ (.operation kind name vars dirs sels) st).1 = st1 at h2 h3
    have h4 := uv_visitVarDefs s fx vars st1
    have hb := uv_body (defBodyK (uv_cfk s fx _) dirs ssid sels _ h4.2)
    simp only [uv_leave_one, leaveRule, E, defVarDups] at hb h4 h2 ⊢
    rw [hb.1, h4.1, h3, h2]
  | frag name on dirs ssid sels =>
    have h1 : (enter ⟨s, fx, [.uniqueVariableNames]⟩ (.fragmentDef name on dirs) st).2 = false := by
      rw [uv_enter_one]; simp only [enterRule]
    have h2 : E (enter ⟨s, fx, [.uniqueVariableNames]⟩ (.fragmentDef name on dirs) st).1 = E st := by
      rw [uv_enter_one]; simp only [enterRule, E]
    rw [visitDef, visitNode_noskip' _ _ _ _ h1]
    generalize (enter ⟨s, fx, [.uniqueVariableNames]⟩ (.fragmentDef name on dirs) st).1 = st1 at h2
    have hb := uv_body (defBodyK (uv_cfk s fx st1.rs.uvVars) dirs ssid sels st1 rfl)
    simp only [uv_leave_one, leaveRule, E, defVarDups, Nat.add_zero] at hb h2 ⊢
    rw [hb.1, h2]
  | ts a b =>
    have h1 : (enter ⟨s, fx, [.uniqueVariableNames]⟩ .tsDef st).2 = false := by
      rw [uv_enter_one]; simp only [enterRule]
    have h2 : E (enter ⟨s, fx, [.uniqueVariableNames]⟩ .tsDef st).1 = E st := by
      rw [uv_enter_one]; simp only [enterRule, E]
    rw [visitDef, visitNode_noskip' _ _ _ _ h1]
    simp only [uv_leave_one, leaveRule, E, defVarDups, Nat.add_zero, id] at h2 ⊢
    exact h2

private theorem sum_map_zero_iff {α} (f : α → Nat) (l : List α) : (l.map f).sum = 0 ↔ ∀ x ∈ l, f x = 0 := by
  induction l with
  | nil => simp
  | cons a as ih => simp only [List.map_cons, List.sum_cons, List.mem_cons, forall_eq_or_imp, ← ih]; omega

private theorem uv_visitDefs (s : SchemaD) (fx : Fixes) (ds : List Def) (st : St) :
    E (ds.foldl (fun st x => visitDef ⟨s, fx, [.uniqueVariableNames]⟩ x st) st) = E st + (ds.map defVarDups).sum := by
  induction ds generalizing st with
  | nil => simp
  | cons x xs ih => rw [List.foldl_cons, ih, uv_visitDef, List.map_cons, List.sum_cons]; omega

/-- **5.8.1 Variable uniqueness**: `UniqueVariableNamesChecker` run alone reports nothing ⇔ the variables of
    every operation of the document are pairwise distinct -/
theorem rule_unique_variable_names_iff (s : SchemaD) (fx : Fixes) (d : Doc) :
    Silent s fx .uniqueVariableNames d ↔ Spec.uniqueVariableNames d := by
  unfold Silent alone Spec.uniqueVariableNames
  have he : enter ⟨s, fx, [.uniqueVariableNames]⟩ (.document d) {} =
      ({ ti := tiEnter s (.document d) ({} : St).ti, rs := ({} : St).rs }, false) := by
    rw [uv_enter_one]; simp only [enterRule]
  rw [visitDocument, visitNode_noskip _ _ _ _ _ he]
  simp only [uv_leave_one, leaveRule, E]
  have := uv_visitDefs s fx d.defs { ti := tiEnter s (.document d) ({} : St).ti, rs := ({} : St).rs }
  simp only [E] at this
  rw [this]
  show 0 + (d.defs.map defVarDups).sum = 0 ↔ _
  rw [Nat.zero_add, sum_map_zero_iff]
  constructor
  · intro h x hx k n vs ds i ss e
    have := h x hx; subst e
    simpa [defVarDups, dupCount_nil_zero_iff] using this
  · intro h x hx
    cases x with
    | op k n vs ds i ss => simpa [defVarDups, dupCount_nil_zero_iff] using h _ hx k n vs ds i ss rfl
    | frag => rfl
    | ts => rfl

/-! non-vacuity: `query($a: Int, $b: Int) { f }` is silent, `query($a: Int, $a: Int) { f }` is reported -/
example : Spec.uniqueVariableNames
    ⟨[.op "query" none [{ name := "a", type := .named "Int", default := none }, { name := "b", type := .named "Int", default := none }] [] 0 [.field none "f" [] [] false 0 []]]⟩ := by
  intro x hx k n vs ds i ss e
  simp only [List.mem_singleton] at hx
  subst hx; cases e; decide
example : ¬ Spec.uniqueVariableNames
    ⟨[.op "query" none [{ name := "a", type := .named "Int", default := none }, { name := "a", type := .named "Int", default := none }] [] 0 [.field none "f" [] [] false 0 []]]⟩ := by
  intro h
  have := h _ (List.mem_singleton.mpr rfl) _ _ _ _ _ _ rfl
  revert this; decide

/-! ### the three rules built on `VariablesCollector`

  They hold for the FIXED `_flatten_fragments` (`fx.v4`, ledger V4: transitive closure independent of the order
  of definitions; refuted for the unfixed variant by `perm_definitions_refuted_unfixed`), the position rule also
  for the fixed usage recording (`fx.v3`, ledger V3: every usage is kept). `Fixes.all` = /repo HEAD has both. -/

private theorem vcrule_undefined (s : SchemaD) (fx : Fixes) :
    VCRule s fx .noUndefinedVariables (·.vcUndef) VC.undefinedErrors where
  init := rfl
  enter n ti rs := by
    cases n with
    | value v => cases v <;> exact ⟨rfl, rfl, rfl⟩
    | _ => exact ⟨rfl, rfl, rfl⟩
  leave n ti rs hn := by cases n <;> first | exact ⟨rfl, rfl⟩ | cases hn
  leaveDoc d ti rs := by simp [leaveRule, RS.errN, Nat.add_comm]

private theorem vcrule_unused (s : SchemaD) (fx : Fixes) :
    VCRule s fx .noUnusedVariables (·.vcUnused) VC.unusedErrors where
  init := rfl
  enter n ti rs := by
    cases n with
    | value v => cases v <;> exact ⟨rfl, rfl, rfl⟩
    | _ => exact ⟨rfl, rfl, rfl⟩
  leave n ti rs hn := by cases n <;> first | exact ⟨rfl, rfl⟩ | cases hn
  leaveDoc d ti rs := by simp [leaveRule, RS.errN, Nat.add_comm]

private theorem vcrule_position (s : SchemaD) (fx : Fixes) :
    VCRule s fx .variablesInAllowedPosition (·.vcPos) (VC.positionErrors s) where
  init := rfl
  enter n ti rs := by
    cases n with
    | value v => cases v <;> exact ⟨rfl, rfl, rfl⟩
    | _ => exact ⟨rfl, rfl, rfl⟩
  leave n ti rs hn := by cases n <;> first | exact ⟨rfl, rfl⟩ | cases hn
  leaveDoc d ti rs := by simp [leaveRule, RS.errN, Nat.add_comm]

/-- **5.8.3 All variable uses defined**: `NoUndefinedVariablesChecker` run alone reports nothing ⇔ every variable
    used by an operation - in an argument of its own directives and selections, or in a fragment it spreads
    directly or TRANSITIVELY - is declared by that operation (operations identified by name, as the code does) -/
theorem rule_no_undefined_variables_iff (s : SchemaD) (fx : Fixes) (h4 : fx.v4 = true) (d : Doc) :
    Silent s fx .noUndefinedVariables d ↔ Spec.noUndefinedVariables d := by
  unfold Silent alone
  rw [vc_rule_errors (vcrule_undefined s fx) d]
  exact undefined_final fx h4 s d

/-- **5.8.4 All variables used**: `NoUnusedVariablesChecker` run alone reports nothing ⇔ every variable declared
    by an operation is used by it, directly or in a (transitively) spread fragment -/
theorem rule_no_unused_variables_iff (s : SchemaD) (fx : Fixes) (h4 : fx.v4 = true) (d : Doc) :
    Silent s fx .noUnusedVariables d ↔ Spec.noUnusedVariables d := by
  unfold Silent alone
  rw [vc_rule_errors (vcrule_unused s fx) d]
  exact unused_final fx h4 s d

/-- **5.8.5 All variable usages are allowed** (the rule the code implements): `VariablesInAllowedPositionChecker`
    run alone reports nothing ⇔ every usage of a variable `$x` by an operation (own or through spread fragments),
    at a position whose expected input type is known, with `$x` declared by the operation with a known type, passes
    `Spec.usageAllowed` (`is_subtype`, with the default-value relaxations for a nullable variable at a non-null
    position) -/
theorem rule_variables_in_allowed_position_iff (s : SchemaD) (fx : Fixes) (h3 : fx.v3 = true) (h4 : fx.v4 = true)
    (d : Doc) :
    Silent s fx .variablesInAllowedPosition d ↔ Spec.variablesInAllowedPosition s d := by
  unfold Silent alone
  rw [vc_rule_errors (vcrule_position s fx) d]
  exact position_final fx h3 h4 s d

/-! non-vacuity (schema and documents of `Props/C06_witness.lean`; `Fixes.all` satisfies the hypotheses):
    `query($v:Int){...A} fragment C on Query{a(x:$v)} fragment B on Query{...C} fragment A on Query{...B}`
    uses `$v` only through the spread chain A > B > C -/
example : Spec.noUndefinedVariables v4a ∧ Spec.noUnusedVariables v4a :=
  ⟨(rule_no_undefined_variables_iff wSchema Fixes.all rfl v4a).mp (by unfold Silent; decide +kernel),
   (rule_no_unused_variables_iff wSchema Fixes.all rfl v4a).mp (by unfold Silent; decide +kernel)⟩
/-- the same document without the variable definition: `$v` is undefined -/
example : ¬ Spec.noUndefinedVariables ⟨[opV [] 1 [sp "A"], fC, fB, fA]⟩ := fun h =>
  absurd ((rule_no_undefined_variables_iff wSchema Fixes.all rfl _).mpr h) (by unfold Silent; decide +kernel)
/-- the chain broken (`A` no longer spreads `B`): `$v` is unused -/
example : ¬ Spec.noUnusedVariables ⟨[v4ops, fC, fB, fragQ "A" 2 [fld none "o"]]⟩ := fun h =>
  absurd ((rule_no_unused_variables_iff wSchema Fixes.all rfl _).mpr h) (by unfold Silent; decide +kernel)
/-- `query($v:Int){ x: a(l:$v) y: a(x:$v) }`: `Int` at the `[Int]` position `l` is not allowed, at `x` it is -/
example : ¬ Spec.variablesInAllowedPosition wSchema v3a := fun h =>
  absurd ((rule_variables_in_allowed_position_iff wSchema Fixes.all rfl rfl _).mpr h) (by unfold Silent; decide +kernel)
example : Spec.variablesInAllowedPosition wSchema ⟨[opV [vInt] 1 [fld (some "y") "a" [argV "x" "v"]]]⟩ :=
  (rule_variables_in_allowed_position_iff wSchema Fixes.all rfl rfl _).mp (by unfold Silent; decide +kernel)

/-! ### per-operation wording: on documents with unique operation names the key-based clauses are the clauses of
    the specification, one operation definition at a time -/

private theorem opKey_unique {l : List Def} (h : (l.filterMap Def.opKey?).Nodup) {a b : Def} {o : String}
    (ha : a ∈ l) (hb : b ∈ l) (hka : a.opKey? = some o) (hkb : b.opKey? = some o) : a = b := by
  induction l with
  | nil => cases ha
  | cons x xs ih =>
    have hmem : ∀ y ∈ xs, y.opKey? = some o → o ∈ xs.filterMap Def.opKey? :=
      fun y hy hk => List.mem_filterMap.mpr ⟨y, hy, hk⟩
    rcases List.mem_cons.mp ha with rfl | ha' <;> rcases List.mem_cons.mp hb with rfl | hb'
    · rfl
    · rw [List.filterMap_cons, hka, List.nodup_cons] at h
      exact absurd (hmem _ hb' hkb) h.1
    · rw [List.filterMap_cons, hkb, List.nodup_cons] at h
      exact absurd (hmem _ ha' hka) h.1
    · apply ih _ ha' hb'
      rw [List.filterMap_cons] at h
      cases hx : x.opKey? with
      | none => rw [hx] at h; exact h
      | some k => rw [hx, List.nodup_cons] at h; exact h.2

private theorem usedIn_iff (d : Doc) (o x : String) :
    UsedIn d o x ↔ ∃ df ∈ d.defs, df.opKey? = some o ∧ UsedByOp d df x := by
  unfold UsedIn UsedByOp UsedDirectly OpReaches OpSpreads
  constructor
  · rintro (⟨df, h1, h2, h3⟩ | ⟨f, ⟨g, ⟨df, h1, h2, h3⟩, hr⟩, hu⟩)
    · exact ⟨df, h1, h2, Or.inl h3⟩
    · exact ⟨df, h1, h2, Or.inr ⟨f, ⟨g, h3, hr⟩, hu⟩⟩
  · rintro ⟨df, h1, h2, (h3 | ⟨f, ⟨g, h3, hr⟩, hu⟩)⟩
    · exact Or.inl ⟨df, h1, h2, h3⟩
    · exact Or.inr ⟨f, ⟨g, ⟨df, h1, h2, h3⟩, hr⟩, hu⟩

/-- 5.8.3 per operation definition -/
theorem no_undefined_variables_per_operation (d : Doc) (hk : Spec.uniqueOpKeys d) :
    Spec.noUndefinedVariables d ↔ Spec.noUndefinedVariablesPerOp d := by
  unfold Spec.noUndefinedVariables Spec.noUndefinedVariablesPerOp
  simp only [usedIn_iff, DefinedIn]
  constructor
  · intro h df hdf hs x hu
    obtain ⟨o, ho⟩ := Option.isSome_iff_exists.mp hs
    obtain ⟨df', hdf', ho', hx⟩ := h o x ⟨df, hdf, ho, hu⟩
    rw [opKey_unique hk hdf hdf' ho ho']; exact hx
  · rintro h o x ⟨df, hdf, ho, hu⟩
    exact ⟨df, hdf, ho, h df hdf (by rw [ho]; rfl) x hu⟩

/-- 5.8.4 per operation definition -/
theorem no_unused_variables_per_operation (d : Doc) (hk : Spec.uniqueOpKeys d) :
    Spec.noUnusedVariables d ↔ Spec.noUnusedVariablesPerOp d := by
  unfold Spec.noUnusedVariables Spec.noUnusedVariablesPerOp
  simp only [usedIn_iff, DefinedIn]
  constructor
  · intro h df hdf hs x hx
    obtain ⟨o, ho⟩ := Option.isSome_iff_exists.mp hs
    obtain ⟨df', hdf', ho', hu⟩ := h o x ⟨df, hdf, ho, hx⟩
    rw [opKey_unique hk hdf hdf' ho ho']; exact hu
  · rintro h o x ⟨df, hdf, ho, hx⟩
    exact ⟨df, hdf, ho, h df hdf (by rw [ho]; rfl) x hx⟩

private theorem flat_unique {l : List Def} (h : (l.filterMap Def.opKey?).Nodup) {df : Def} {o : String}
    (hdf : df ∈ l) (ho : df.opKey? = some o) :
    (l.flatMap fun df' => if df'.opKey? = some o then df'.vars else []) = df.vars := by
  induction l with
  | nil => cases hdf
  | cons a l ih =>
    have hmem : ∀ y ∈ l, y.opKey? = some o → o ∈ l.filterMap Def.opKey? :=
      fun y hy hk => List.mem_filterMap.mpr ⟨y, hy, hk⟩
    rw [List.flatMap_cons]
    rcases List.mem_cons.mp hdf with rfl | hdf'
    · rw [if_pos ho]
      rw [List.filterMap_cons, ho, List.nodup_cons] at h
      have : (l.flatMap fun df' => if df'.opKey? = some o then df'.vars else []) = [] := by
        rw [List.flatMap_eq_nil_iff]
        intro y hy
        by_cases hk : y.opKey? = some o
        · exact absurd (hmem y hy hk) h.1
        · rw [if_neg hk]
      rw [this, List.append_nil]
    · have hne : ¬ a.opKey? = some o := by
        intro hk
        rw [List.filterMap_cons, hk, List.nodup_cons] at h
        exact h.1 (hmem df hdf' ho)
      rw [if_neg hne, List.nil_append]
      apply ih _ hdf'
      rw [List.filterMap_cons] at h
      cases hx : a.opKey? with
      | none => rw [hx] at h; exact h
      | some k => rw [hx, List.nodup_cons] at h; exact h.2

private theorem nodup_map_inj {L : List VarDef} (hn : (L.map (·.name)).Nodup) {a b : VarDef}
    (ha : a ∈ L) (hb : b ∈ L) (h : a.name = b.name) : a = b := by
  induction L with
  | nil => cases ha
  | cons v vs ih =>
    rw [List.map_cons, List.nodup_cons] at hn
    rcases List.mem_cons.mp ha with rfl | ha' <;> rcases List.mem_cons.mp hb with rfl | hb'
    · rfl
    · exact absurd (List.mem_map.mpr ⟨b, hb', h.symm⟩) hn.1
    · exact absurd (List.mem_map.mpr ⟨a, ha', h⟩) hn.1
    · exact ih hn.2 ha' hb'

private theorem find_last_iff {L : List VarDef} (hn : (L.map (·.name)).Nodup) (x : String) (vd : VarDef) :
    L.reverse.find? (·.name == x) = some vd ↔ vd ∈ L ∧ vd.name = x := by
  constructor
  · intro h
    have := List.find?_some h
    exact ⟨List.mem_reverse.mp (List.mem_of_find?_eq_some h), by simpa using this⟩
  · rintro ⟨hm, rfl⟩
    cases hf : L.reverse.find? (·.name == vd.name) with
    | none =>
      rw [List.find?_eq_none] at hf
      have := hf vd (List.mem_reverse.mpr hm)
      simp at this
    | some w =>
      have hw : w ∈ L := List.mem_reverse.mp (List.mem_of_find?_eq_some hf)
      have hwn : w.name = vd.name := by simpa using List.find?_some hf
      congr 1
      exact nodup_map_inj hn hw hm hwn

/-- **the definition a usage is checked against**, on documents with unique operation and variable names -/
theorem varDefFor_of_unique (d : Doc) (hk : Spec.uniqueOpKeys d) (hv : Spec.uniqueVariableNames d) {df : Def}
    (hdf : df ∈ d.defs) {o : String} (ho : df.opKey? = some o) (x : String) (vd : VarDef) :
    varDefFor d o x = some vd ↔ vd ∈ df.vars ∧ vd.name = x := by
  unfold varDefFor
  rw [flat_unique hk hdf ho]
  apply find_last_iff
  cases df with
  | op k n vs ds i ss => exact hv _ hdf k n vs ds i ss rfl
  | frag => exact List.nodup_nil
  | ts => exact List.nodup_nil

/-- 5.8.5 per operation definition -/
theorem variables_in_allowed_position_per_operation (s : SchemaD) (d : Doc) (hk : Spec.uniqueOpKeys d)
    (hv : Spec.uniqueVariableNames d) :
    Spec.variablesInAllowedPosition s d ↔ Spec.variablesInAllowedPositionPerOp s d := by
  unfold Spec.variablesInAllowedPosition Spec.variablesInAllowedPositionPerOp
  have husedAt : ∀ o x u, UsedAt s d o x u ↔ ∃ df ∈ d.defs, df.opKey? = some o ∧ UsedAtByOp s d df x u := by
    intro o x u
    unfold UsedAt UsedAtByOp OpReaches OpSpreads
    constructor
    · rintro (⟨df, h1, h2, h3⟩ | ⟨f, ⟨g, ⟨df, h1, h2, h3⟩, hr⟩, hu⟩)
      · exact ⟨df, h1, h2, Or.inl h3⟩
      · exact ⟨df, h1, h2, Or.inr ⟨f, ⟨g, h3, hr⟩, hu⟩⟩
    · rintro ⟨df, h1, h2, (h3 | ⟨f, ⟨g, h3, hr⟩, hu⟩)⟩
      · exact Or.inl ⟨df, h1, h2, h3⟩
      · exact Or.inr ⟨f, ⟨g, ⟨df, h1, h2, h3⟩, hr⟩, hu⟩
  constructor
  · intro h df hdf hs x u hu vd hvd hn
    obtain ⟨o, ho⟩ := Option.isSome_iff_exists.mp hs
    exact h o x u vd ((husedAt o x u).mpr ⟨df, hdf, ho, hu⟩) ((varDefFor_of_unique d hk hv hdf ho x vd).mpr ⟨hvd, hn⟩)
  · intro h o x u vd hu hd
    obtain ⟨df, hdf, ho, hu'⟩ := (husedAt o x u).mp hu
    obtain ⟨hvd, hn⟩ := (varDefFor_of_unique d hk hv hdf ho x vd).mp hd
    exact h df hdf (by rw [ho]; rfl) x u hu' vd hvd hn

end PyGql.Props.C06

/-
  C06 - property theorems, part 14: `NoFragmentCyclesChecker` (5.5.2.2).
  Walk: inside a fragment definition the rule records the distinct names spread (at any depth), a spread of the
  fragment itself is reported at once (SkipNode) and not recorded. `leave_document` then searches the recorded graph
  (`Lemmas/ValidateCycles.lean`: the search is reachability).
-/
import PyGqlModel.Props.C06_frags
import PyGqlModel.Lemmas.ValidateCycles
namespace PyGql.Props.C06
open PyGql PyGql.Validate PyGql.Validate.Spec

private abbrev cC (s : SchemaD) (fx : Fixes) : Cfg := ⟨s, fx, [.noFragmentCycles]⟩

/-- effect of one spread `...nm` inside fragment `f` -/
def spreadStep (f nm : String) (rs : RS) : RS :=
  if nm == f then rs.err .noFragmentCycles
  else if (AL.getD rs.cycSpreads f []).contains nm then rs
  else { rs with cycSpreads := AL.modify rs.cycSpreads f [] (· ++ [nm]) }

def spreadSteps (f : String) (names : List String) (rs : RS) : RS := names.foldl (fun rs nm => spreadStep f nm rs) rs

theorem spreadSteps_append (f : String) (a b : List String) (rs : RS) :
    spreadSteps f (a ++ b) rs = spreadSteps f b (spreadSteps f a rs) := by simp [spreadSteps, List.foldl_append]

theorem spreadStep_cur (f nm : String) (rs : RS) : (spreadStep f nm rs).cycCurrent = rs.cycCurrent := by
  unfold spreadStep; split <;> (try split) <;> rfl

theorem spreadSteps_cur (f : String) (names : List String) (rs : RS) : (spreadSteps f names rs).cycCurrent = rs.cycCurrent := by
  induction names generalizing rs with
  | nil => rfl
  | cons a as ih => simp only [spreadSteps, List.foldl_cons] at ih ⊢; rw [ih, spreadStep_cur]

/-! ### nodes on which the rule does nothing -/

def Node.isCycNode : Node → Bool
  | .spread .. | .fragmentDef .. | .document _ => true
  | _ => false

private theorem cyc_enter_inert (s : SchemaD) (fx : Fixes) (n : Node) (ti : TI) (rs : RS) (h : Node.isCycNode n = false) :
    enterRule s fx .noFragmentCycles n ti rs = (rs, false) := by
  cases n <;> simp_all [enterRule, Node.isCycNode]

private theorem cyc_leave_inert (s : SchemaD) (fx : Fixes) (n : Node) (ti : TI) (rs : RS) (h : Node.isCycNode n = false) :
    leaveRule s fx .noFragmentCycles n ti rs = rs := by
  cases n <;> simp_all [leaveRule, Node.isCycNode]

/-- if none of the nodes visited is a spread / definition node, the rule state is unchanged -/
def QI (ns : List Node) (st st' : St) : Prop := (∀ n ∈ ns, Node.isCycNode n = false) → st'.rs = st.rs

private theorem algI (s : SchemaD) (fx : Fixes) : WalkAlg (cC s fx) QI where
  nil st := fun _ => rfl
  append h1 h2 := fun h => by
    rw [h2 (fun n hn => h n (List.mem_append_right _ hn)), h1 (fun n hn => h n (List.mem_append_left _ hn))]
  node n body ns st _ hb := fun h => by
    have hn := h n (List.mem_cons_self ..)
    have he : (enter (cC s fx) n st).2 = false := by rw [enter_single, cyc_enter_inert s fx n _ _ hn]
    rw [visitNode_false he, leave_single, cyc_leave_inert s fx n _ _ hn]
    have := hb (enter (cC s fx) n st).1 (fun m hm => h m (List.mem_cons_of_mem _ hm))
    simp only [this]
    rw [enter_single, cyc_enter_inert s fx n _ _ hn]

theorem argsNodes_inert (as : List Arg) : ∀ n ∈ argsNodes as, Node.isCycNode n = false := by
  intro n hn
  simp only [argsNodes, List.mem_flatMap] at hn
  obtain ⟨a, _, hn⟩ := hn
  simp only [argNodes, List.mem_cons] at hn
  rcases hn with rfl | hn
  · rfl
  · have := valueNodes_kinds _ n hn
    cases n <;> simp_all [Node.isValueish, Node.isCycNode]

theorem dirsNodes_inert (ds : List Dir) : ∀ n ∈ dirsNodes ds, Node.isCycNode n = false := by
  intro n hn
  simp only [dirsNodes, List.mem_flatMap] at hn
  obtain ⟨d, _, hn⟩ := hn
  simp only [dirNodes, List.mem_cons] at hn
  rcases hn with rfl | hn
  · rfl
  · exact argsNodes_inert _ n hn

private theorem args_inert (s : SchemaD) (fx : Fixes) (as : List Arg) (st : St) : (visitArguments (cC s fx) as st).rs = st.rs :=
  visitArgumentsG (algI s fx).toV as st (argsNodes_inert as)
private theorem dirs_inert (s : SchemaD) (fx : Fixes) (ds : List Dir) (st : St) : (visitDirectives (cC s fx) ds st).rs = st.rs :=
  visitDirectivesG (algI s fx).toV ds st (dirsNodes_inert ds)

/-! ### spreads collected inside a fragment definition -/

def selSpreads : Sel → List String
  | .field _ _ _ _ hs _ sub => if hs then selsSpreads sub else []
  | .spread name _ => [name]
  | .inline _ _ _ sub => selsSpreads sub
where
  selsSpreads : List Sel → List String
    | [] => []
    | x :: xs => selSpreads x ++ selsSpreads xs


private theorem visitNode_inert (s : SchemaD) (fx : Fixes) (n : Node) (h : Node.isCycNode n = false) (body : St → St) (st : St) :
    (visitNode (cC s fx) n body st).rs = (body { ti := tiEnter s n st.ti, rs := st.rs }).rs := by
  have he : (enter (cC s fx) n st).2 = false := by rw [enter_single, cyc_enter_inert s fx n _ _ h]
  rw [visitNode_false he, leave_single, cyc_leave_inert s fx n _ _ h, enter_single, cyc_enter_inert s fx n _ _ h]

mutual
theorem sel_cyc (s : SchemaD) (fx : Fixes) (f : String) (hf : f ≠ "") : ∀ (x : Sel) (st : St), st.rs.cycCurrent = some f →
    (visitSel (cC s fx) x st).rs = spreadSteps f (selSpreads x) st.rs
  | .field al name args dirs true ssid sub, st, hc => by
    rw [visitSel, visitNode_inert s fx _ rfl]
    simp only [↓reduceIte, selSpreads]
    rw [visitNode_inert s fx _ rfl, sels_cyc s fx f hf sub _ (by simp only [dirs_inert, args_inert]; exact hc)]
    simp only [dirs_inert, args_inert]
  | .field al name args dirs false ssid sub, st, hc => by
    rw [visitSel, visitNode_inert s fx _ rfl]
    simp only [Bool.false_eq_true, ↓reduceIte, selSpreads, dirs_inert, args_inert, spreadSteps, List.foldl_nil]
  | .spread nm dirs, st, hc => by
    rw [visitSel]
    simp only [selSpreads, spreadSteps, List.foldl_cons, List.foldl_nil, spreadStep]
    by_cases h1 : nm = f
    · subst h1
      have he : enter (cC s fx) (.spread nm dirs) st =
          ({ ti := tiEnter s (.spread nm dirs) st.ti, rs := st.rs.err .noFragmentCycles }, true) := by
        rw [enter_single]; simp [enterRule, hc, hf]
      rw [visitNode_skip _ _ _ _ _ he]
      simp
    · by_cases h2 : nm ∈ AL.getD st.rs.cycSpreads f []
      · have he : enter (cC s fx) (.spread nm dirs) st = ({ ti := tiEnter s (.spread nm dirs) st.ti, rs := st.rs }, false) := by
          rw [enter_single]; simp [enterRule, hc, h1, h2]
        rw [visitNode_noskip _ _ _ _ _ he, leave_single]
        simp [leaveRule, dirs_inert, h1, h2]
      · have he : enter (cC s fx) (.spread nm dirs) st =
            ({ ti := tiEnter s (.spread nm dirs) st.ti,
               rs := { st.rs with cycSpreads := AL.modify st.rs.cycSpreads f [] (· ++ [nm]) } }, false) := by
          rw [enter_single]; simp [enterRule, hc, h1, h2]
        rw [visitNode_noskip _ _ _ _ _ he, leave_single]
        simp [leaveRule, dirs_inert, h1, h2]
  | .inline on dirs ssid sub, st, hc => by
    rw [visitSel, visitNode_inert s fx _ rfl]
    simp only [selSpreads]
    rw [visitNode_inert s fx _ rfl, sels_cyc s fx f hf sub _ (by simp only [dirs_inert]; exact hc)]
    simp only [dirs_inert]
theorem sels_cyc (s : SchemaD) (fx : Fixes) (f : String) (hf : f ≠ "") : ∀ (xs : List Sel) (st : St), st.rs.cycCurrent = some f →
    (visitSels (cC s fx) xs st).rs = spreadSteps f (selSpreads.selsSpreads xs) st.rs
  | [], st, _ => by rw [visitSels]; rfl
  | x :: xs, st, hc => by
    rw [visitSels, selSpreads.selsSpreads, spreadSteps_append,
      sels_cyc s fx f hf xs _ (by rw [sel_cyc s fx f hf x st hc, spreadSteps_cur]; exact hc), sel_cyc s fx f hf x st hc]
end


/-! ### definitions and the document -/

/-- outside fragment definitions (`_current is None`) nothing below a definition changes the rule state -/
def QO (_ : List Node) (st st' : St) : Prop := st.rs.cycCurrent = none → st'.rs = st.rs

private theorem algO (s : SchemaD) (fx : Fixes) : WalkAlg (cC s fx) QO where
  nil st := fun _ => rfl
  append h1 h2 := fun h => by rw [h2 (by rw [h1 h]; exact h), h1 h]
  node n body ns st hn hb := fun h => by
    have hen : enterRule s fx .noFragmentCycles n (tiEnter s n st.ti) st.rs = (st.rs, false) := by
      cases n <;> simp_all [enterRule, Node.isTop]
    have hle : ∀ ti rs, leaveRule s fx .noFragmentCycles n ti rs = rs := by
      intro ti rs; cases n <;> simp_all [leaveRule, Node.isTop]
    have he : (enter (cC s fx) n st).2 = false := by rw [enter_single, hen]
    rw [visitNode_false he, leave_single, hle, enter_single, hen]
    exact hb _ h

def fragEffect (f : String) (sels : List Sel) (rs : RS) : RS :=
  { spreadSteps f (selSpreads.selsSpreads sels) { rs with cycCurrent := some f, cycSpreads := AL.set rs.cycSpreads f [] } with
    cycCurrent := none }

def defEffect : Def → RS → RS
  | .frag f _ _ _ sels => fragEffect f sels
  | _ => id

theorem defEffect_cur (x : Def) (rs : RS) (h : rs.cycCurrent = none) : (defEffect x rs).cycCurrent = none := by
  cases x <;> simp [defEffect, fragEffect, h]

theorem visitDef_cyc (s : SchemaD) (fx : Fixes) (x : Def) (st : St) (hc : st.rs.cycCurrent = none)
    (hne : ∀ f on dirs id sels, x = Def.frag f on dirs id sels → f ≠ "") :
    (visitDef (cC s fx) x st).rs = defEffect x st.rs := by
  cases x with
  | op kind name vars dirs ssid sels =>
    rw [visitDef, visitNode_inert s fx _ rfl]
    exact opBodyG (algO s fx).toV vars dirs ssid sels _ hc
  | frag f on dirs ssid sels =>
    have hf := hne f on dirs ssid sels rfl
    have he : enter (cC s fx) (.fragmentDef f on dirs) st =
        ({ ti := tiEnter s (.fragmentDef f on dirs) st.ti,
           rs := { st.rs with cycCurrent := some f, cycSpreads := AL.set st.rs.cycSpreads f [] } }, false) := by
      rw [enter_single]; simp [enterRule]
    rw [visitDef, visitNode_noskip _ _ _ _ _ he, leave_single, visitNode_inert s fx _ rfl,
      sels_cyc s fx f hf sels _ (by simp only [dirs_inert])]
    simp only [dirs_inert, leaveRule, defEffect, fragEffect]
  | ts a b =>
    rw [visitDef, visitNode_inert s fx _ rfl]; rfl

theorem visitDefs_cyc (s : SchemaD) (fx : Fixes) : ∀ (ds : List Def) (st : St), st.rs.cycCurrent = none →
    (∀ x ∈ ds, ∀ f on dirs id sels, x = Def.frag f on dirs id sels → f ≠ "") →
    (ds.foldl (fun st x => visitDef (cC s fx) x st) st).rs = ds.foldl (fun rs x => defEffect x rs) st.rs
  | [], st, _, _ => rfl
  | x :: xs, st, hc, hne => by
    rw [List.foldl_cons, List.foldl_cons,
      visitDefs_cyc s fx xs _ (by rw [visitDef_cyc s fx x st hc (hne x (List.mem_cons_self ..))]; exact defEffect_cur x _ hc)
        (fun y hy => hne y (List.mem_cons_of_mem _ hy)),
      visitDef_cyc s fx x st hc (hne x (List.mem_cons_self ..))]

/-- the recorded state after all definitions -/
def recorded (d : Doc) : RS := d.defs.foldl (fun rs x => defEffect x rs) {}

/-- errors of the rule run alone = self-spreads met during the walk + errors of the search in `leave_document` -/
theorem cyc_alone_errors (s : SchemaD) (fx : Fixes) (d : Doc)
    (hne : ∀ x ∈ d.defs, ∀ f on dirs id sels, x = Def.frag f on dirs id sels → f ≠ "") :
    E (alone s fx .noFragmentCycles d) = (recorded d).errs.length + (cycErrors fx (recorded d).cycSpreads).1 := by
  unfold alone
  have he : enter (cC s fx) (.document d) {} = (({} : St), false) := by
    rw [enter_single]; simp [enterRule, tiEnter]
  rw [visitDocument, visitNode_noskip _ _ _ _ _ he, leave_single]
  have hw := visitDefs_cyc s fx d.defs ({} : St) rfl hne
  simp only [E, leaveRule, hw]
  unfold recorded
  split <;> simp [RS.errN] <;> omega

end PyGql.Props.C06

/-
  C20 — "every elementary edit is reported with a change naming the edited element": one theorem per
  kind of element and edit that `C20_diff.lean` does not already cover (types and object fields are there).
  Each theorem says: if the old and the new schema differ by that edit at that element, the unfiltered
  report `diffSchema o n 0` contains the change of the expected class whose identifying attributes are the
  names of the element; `reported_at_severity` lifts it to every filter not above the change's severity,
  and `severity_table` (C20.lean) gives the severities.
-/
import PyGqlModel.Diff
import PyGqlModel.Props.C20_diff

set_option linter.unusedSimpArgs false
set_option linter.unusedVariables false

namespace PyGql.Props.C20
open PyGql PyGql.Differ PyGql.Diff

theorem diffSchema_zero (o n : SchemaD) :
    diffSchema o n 0 = diffRootTypes o n ++ findRemovedTypes o n ++ findAddedTypes o n ++ diffDirectives o n ++ findChangedTypes o n
      ++ diffUnionTypes o n ++ diffEnumTypes o n ++ diffObjectTypes o n ++ diffInterfaceTypes o n
      ++ diffInputTypes o n := by
  unfold diffSchema
  apply List.filter_eq_self.mpr
  intro c _; simp

/-- a change of the unfiltered report survives every filter not above its severity -/
theorem reported_at_severity (o n : SchemaD) (c : Change) (m : Nat) (h : c ∈ diffSchema o n 0)
    (hs : m ≤ c.severity) : c ∈ diffSchema o n m := by
  rw [min_severity_filters]
  exact List.mem_filter.mpr ⟨h, by simpa using hs⟩

private theorem of_roots {o n : SchemaD} {c : Change} (h : c ∈ diffRootTypes o n) : c ∈ diffSchema o n 0 := by
  rw [diffSchema_zero]; simp [h]
private theorem of_directives {o n : SchemaD} {c : Change} (h : c ∈ diffDirectives o n) : c ∈ diffSchema o n 0 := by
  rw [diffSchema_zero]; simp [h]
private theorem of_changed {o n : SchemaD} {c : Change} (h : c ∈ findChangedTypes o n) : c ∈ diffSchema o n 0 := by
  rw [diffSchema_zero]; simp [h]
private theorem of_union {o n : SchemaD} {c : Change} (h : c ∈ diffUnionTypes o n) : c ∈ diffSchema o n 0 := by
  rw [diffSchema_zero]; simp [h]
private theorem of_enum {o n : SchemaD} {c : Change} (h : c ∈ diffEnumTypes o n) : c ∈ diffSchema o n 0 := by
  rw [diffSchema_zero]; simp [h]
private theorem of_object {o n : SchemaD} {c : Change} (h : c ∈ diffObjectTypes o n) : c ∈ diffSchema o n 0 := by
  rw [diffSchema_zero]; simp [h]
private theorem of_interface {o n : SchemaD} {c : Change} (h : c ∈ diffInterfaceTypes o n) : c ∈ diffSchema o n 0 := by
  rw [diffSchema_zero]; simp [h]
private theorem of_input {o n : SchemaD} {c : Change} (h : c ∈ diffInputTypes o n) : c ∈ diffSchema o n 0 := by
  rw [diffSchema_zero]; simp [h]

/-! ### root operation types (repair G2: they were not compared at all) -/

/-- the root type name of an operation kind -/
def rootOf (s : SchemaD) : String → Option String
  | "query" => s.query | "mutation" => s.mutation | "subscription" => s.subscription | _ => none

private theorem mem_roots (o n : SchemaD) (op : String) (hop : op = "query" ∨ op = "mutation" ∨ op = "subscription")
    (c : Change)
    (hc : c ∈ (match rootOf o op, rootOf n op with
      | none, none => []
      | none, some b => [mk "RootTypeAdded" [("operation", op), ("type_name", b)]]
      | some a, none => [mk "RootTypeRemoved" [("operation", op), ("type_name", a)]]
      | some a, some b =>
        if a != b then [mk "RootTypeChanged" [("new_type_name", b), ("old_type_name", a), ("operation", op)]] else [])) :
    c ∈ diffSchema o n 0 := by
  apply of_roots
  unfold diffRootTypes
  simp only [List.flatMap_cons, List.flatMap_nil, List.mem_append, List.append_nil]
  rcases hop with h | h | h <;> subst h <;> simp only [rootOf] at hc
  · exact Or.inl hc
  · exact Or.inr (Or.inl hc)
  · exact Or.inr (Or.inr hc)

theorem root_type_changed_reported (o n : SchemaD) (op a b : String)
    (hop : op = "query" ∨ op = "mutation" ∨ op = "subscription")
    (ho : rootOf o op = some a) (hn : rootOf n op = some b) (hab : a ≠ b) :
    mk "RootTypeChanged" [("new_type_name", b), ("old_type_name", a), ("operation", op)] ∈ diffSchema o n 0 := by
  apply mem_roots o n op hop
  simp [ho, hn, hab]

theorem root_type_removed_reported (o n : SchemaD) (op a : String)
    (hop : op = "query" ∨ op = "mutation" ∨ op = "subscription")
    (ho : rootOf o op = some a) (hn : rootOf n op = none) :
    mk "RootTypeRemoved" [("operation", op), ("type_name", a)] ∈ diffSchema o n 0 := by
  apply mem_roots o n op hop
  simp [ho, hn]

theorem root_type_added_reported (o n : SchemaD) (op b : String)
    (hop : op = "query" ∨ op = "mutation" ∨ op = "subscription")
    (ho : rootOf o op = none) (hn : rootOf n op = some b) :
    mk "RootTypeAdded" [("operation", op), ("type_name", b)] ∈ diffSchema o n 0 := by
  apply mem_roots o n op hop
  simp [ho, hn]

/-! ### types -/

theorem kind_change_reported (o n : SchemaD) (t t' : TypeD) (ht : t ∈ o.types)
    (hn : n.findType t.name = some t') (hk : t.kind ≠ t'.kind) :
    mk "TypeChangedKind" [("new_kind_name", kindName t'.kind), ("old_kind_name", kindName t.kind), ("type_name", t.name)]
      ∈ diffSchema o n 0 := by
  apply of_changed
  unfold findChangedTypes
  apply List.mem_filterMap.mpr
  exact ⟨t, ht, by simp [hn, hk]⟩

/-! ### fields of object and interface types -/

private theorem mem_diffFields_added (ot nt : TypeD) (g : FieldD) (hg : g ∈ nt.fields)
    (ho : ot.fields.find? (·.name == g.name) = none) :
    mk "FieldAdded" [("field", g.name), ("type", nt.name)] ∈ diffFields ot nt := by
  unfold diffFields
  simp only [List.mem_append]
  right
  apply List.mem_map.mpr
  exact ⟨g, List.mem_filter.mpr ⟨hg, by simp [ho]⟩, rfl⟩

private theorem mem_diffFields_removed (ot nt : TypeD) (f : FieldD) (hf : f ∈ ot.fields)
    (hn : nt.fields.find? (·.name == f.name) = none) :
    mk "FieldRemoved" [("field", f.name), ("type", ot.name)] ∈ diffFields ot nt := by
  unfold diffFields
  simp only [List.mem_append]
  left
  apply List.mem_flatMap.mpr
  exact ⟨f, hf, by simp [hn]⟩

private theorem mem_diffFields_of_field (ot nt : TypeD) (f g : FieldD) (c : Change) (hf : f ∈ ot.fields)
    (hg : nt.fields.find? (·.name == f.name) = some g) (hc : c ∈ diffField ot.name f g) : c ∈ diffFields ot nt := by
  unfold diffFields
  simp only [List.mem_append]
  left
  apply List.mem_flatMap.mpr
  exact ⟨f, hf, by simp [hg, hc]⟩

private theorem of_object_fields {o n : SchemaD} {ot nt : TypeD} {c : Change}
    (hp : (ot, nt) ∈ matchingPairs o n .object) (hc : c ∈ diffFields ot nt) : c ∈ diffSchema o n 0 := by
  apply of_object
  unfold diffObjectTypes
  apply List.mem_flatMap.mpr
  exact ⟨(ot, nt), hp, by simp [hc]⟩

private theorem of_interface_fields {o n : SchemaD} {ot nt : TypeD} {c : Change}
    (hp : (ot, nt) ∈ matchingPairs o n .interface) (hc : c ∈ diffFields ot nt) : c ∈ diffSchema o n 0 := by
  apply of_interface
  unfold diffInterfaceTypes
  apply List.mem_flatMap.mpr
  exact ⟨(ot, nt), hp, hc⟩

/-- the field-level statements hold for object and for interface types alike -/
def FieldHost (o n : SchemaD) (ot nt : TypeD) : Prop :=
  (ot, nt) ∈ matchingPairs o n .object ∨ (ot, nt) ∈ matchingPairs o n .interface

private theorem of_fields {o n : SchemaD} {ot nt : TypeD} {c : Change} (hp : FieldHost o n ot nt)
    (hc : c ∈ diffFields ot nt) : c ∈ diffSchema o n 0 := by
  cases hp with
  | inl h => exact of_object_fields h hc
  | inr h => exact of_interface_fields h hc

theorem added_field_reported (o n : SchemaD) (ot nt : TypeD) (g : FieldD) (hp : FieldHost o n ot nt)
    (hg : g ∈ nt.fields) (ho : ot.fields.find? (·.name == g.name) = none) :
    mk "FieldAdded" [("field", g.name), ("type", nt.name)] ∈ diffSchema o n 0 :=
  of_fields hp (mem_diffFields_added ot nt g hg ho)

theorem removed_field_reported_any (o n : SchemaD) (ot nt : TypeD) (f : FieldD) (hp : FieldHost o n ot nt)
    (hf : f ∈ ot.fields) (hn : nt.fields.find? (·.name == f.name) = none) :
    mk "FieldRemoved" [("field", f.name), ("type", ot.name)] ∈ diffSchema o n 0 :=
  of_fields hp (mem_diffFields_removed ot nt f hf hn)

theorem retyped_field_reported_any (o n : SchemaD) (ot nt : TypeD) (f g : FieldD) (hp : FieldHost o n ot nt)
    (hf : f ∈ ot.fields) (hg : nt.fields.find? (·.name == f.name) = some g) (hu : safeOut f.type g.type = false) :
    mk "FieldChangedType" [("new_field", g.name), ("old_field", f.name), ("type", ot.name)] ∈ diffSchema o n 0 := by
  apply of_fields hp
  apply mem_diffFields_of_field ot nt f g _ hf hg
  simp [diffField, hu]

theorem field_deprecated_reported (o n : SchemaD) (ot nt : TypeD) (f g : FieldD) (r : String) (hp : FieldHost o n ot nt)
    (hf : f ∈ ot.fields) (hg : nt.fields.find? (·.name == f.name) = some g)
    (h1 : f.deprecated = none) (h2 : g.deprecated = some r) :
    mk "FieldDeprecated" [("new_field", g.name), ("old_field", f.name), ("type", ot.name)] ∈ diffSchema o n 0 := by
  apply of_fields hp
  apply mem_diffFields_of_field ot nt f g _ hf hg
  simp [diffField, h1, h2]

theorem field_deprecation_removed_reported (o n : SchemaD) (ot nt : TypeD) (f g : FieldD) (r : String)
    (hp : FieldHost o n ot nt) (hf : f ∈ ot.fields) (hg : nt.fields.find? (·.name == f.name) = some g)
    (h1 : f.deprecated = some r) (h2 : g.deprecated = none) :
    mk "FieldDeprecationRemoved" [("new_field", g.name), ("old_field", f.name), ("type", ot.name)] ∈ diffSchema o n 0 := by
  apply of_fields hp
  apply mem_diffFields_of_field ot nt f g _ hf hg
  simp [diffField, h1, h2]

theorem field_deprecation_reason_reported (o n : SchemaD) (ot nt : TypeD) (f g : FieldD) (r r' : String)
    (hp : FieldHost o n ot nt) (hf : f ∈ ot.fields) (hg : nt.fields.find? (·.name == f.name) = some g)
    (h1 : f.deprecated = some r) (h2 : g.deprecated = some r') (hr : r ≠ r') :
    mk "FieldDeprecationReasonChanged" [("new_field", g.name), ("old_field", f.name), ("type", ot.name)]
      ∈ diffSchema o n 0 := by
  apply of_fields hp
  apply mem_diffFields_of_field ot nt f g _ hf hg
  simp [diffField, h1, h2, hr]

/-! ### field arguments -/

private theorem of_field_args {o n : SchemaD} {ot nt : TypeD} {f g : FieldD} {c : Change} (hp : FieldHost o n ot nt)
    (hf : f ∈ ot.fields) (hg : nt.fields.find? (·.name == f.name) = some g)
    (hc : c ∈ diffFieldArguments ot.name f g) : c ∈ diffSchema o n 0 := by
  apply of_fields hp
  apply mem_diffFields_of_field ot nt f g _ hf hg
  simp [diffField, hc]

theorem removed_argument_reported (o n : SchemaD) (ot nt : TypeD) (f g : FieldD) (a : ArgD) (hp : FieldHost o n ot nt)
    (hf : f ∈ ot.fields) (hg : nt.fields.find? (·.name == f.name) = some g)
    (ha : a ∈ f.args) (hn : g.args.find? (·.name == a.name) = none) :
    mk "FieldArgumentRemoved" [("argument", a.name), ("field", f.name), ("type", ot.name)] ∈ diffSchema o n 0 := by
  apply of_field_args hp hf hg
  unfold diffFieldArguments
  simp only [List.mem_append]
  left; left
  apply List.mem_filterMap.mpr
  exact ⟨a, ha, by simp [hn]⟩

theorem added_argument_reported (o n : SchemaD) (ot nt : TypeD) (f g : FieldD) (b : ArgD) (hp : FieldHost o n ot nt)
    (hf : f ∈ ot.fields) (hg : nt.fields.find? (·.name == f.name) = some g)
    (hb : b ∈ g.args) (ho : f.args.find? (·.name == b.name) = none) :
    mk "FieldArgumentAdded" [("argument", b.name), ("field", g.name), ("type", ot.name)] (ArgD.required b)
      ∈ diffSchema o n 0 := by
  apply of_field_args hp hf hg
  unfold diffFieldArguments
  simp only [List.mem_append]
  left; right
  apply List.mem_map.mpr
  exact ⟨b, List.mem_filter.mpr ⟨hb, by simp [ho]⟩, rfl⟩

theorem retyped_argument_reported (o n : SchemaD) (ot nt : TypeD) (f g : FieldD) (a b : ArgD) (hp : FieldHost o n ot nt)
    (hf : f ∈ ot.fields) (hg : nt.fields.find? (·.name == f.name) = some g)
    (ha : a ∈ f.args) (hb : g.args.find? (·.name == a.name) = some b) (hu : safeIn a.type b.type = false) :
    mk "FieldArgumentChangedType" [("field", f.name), ("new_argument", b.name), ("old_argument", a.name), ("type", ot.name)]
      ∈ diffSchema o n 0 := by
  apply of_field_args hp hf hg
  unfold diffFieldArguments
  simp only [List.mem_append]
  left; left
  apply List.mem_filterMap.mpr
  exact ⟨a, ha, by simp [hb, hu]⟩

theorem argument_default_change_reported (o n : SchemaD) (ot nt : TypeD) (f g : FieldD) (a b : ArgD)
    (hp : FieldHost o n ot nt) (hf : f ∈ ot.fields) (hg : nt.fields.find? (·.name == f.name) = some g)
    (ha : a ∈ f.args) (hb : g.args.find? (·.name == a.name) = some b) (hs : safeIn a.type b.type = true)
    (hd : defaultChanged a b = true) :
    mk "FieldArgumentDefaultValueChange" [("field", f.name), ("new_argument", b.name), ("old_argument", a.name), ("type", ot.name)]
      (becameRequired a b) ∈ diffSchema o n 0 := by
  apply of_field_args hp hf hg
  unfold diffFieldArguments
  simp only [List.mem_append]
  left; left
  apply List.mem_filterMap.mpr
  exact ⟨a, ha, by simp [hb, hs, hd]⟩

/-- membership in `compatRetypes` of the retyping of a matched pair -/
theorem mem_compatRetypes (cls : String) (key : ArgD → ArgD → List (String × String)) (olds news : List ArgD) (a b : ArgD)
    (s : Nat) (hsev : PyGql.Generated.Differ.compatibleRetypeSeverity = some s)
    (ha : a ∈ olds) (hb : news.find? (·.name == a.name) = some b) (hs : safeIn a.type b.type = true)
    (hne : a.type ≠ b.type) :
    ({ cls := cls, key := key a b, severity := s } : Change) ∈ compatRetypes cls key olds news := by
  unfold compatRetypes
  apply List.mem_flatMap.mpr
  refine ⟨a, ha, ?_⟩
  simp [hb, hs, compatRetype, hsev, hne]

/-- the source has the `_compatible` helper and it gives the COMPATIBLE severity (re-extracted every run) -/
private theorem compatible_retype_severity : PyGql.Generated.Differ.compatibleRetypeSeverity = some 0 := rfl

/-- **A compatible retyping of an argument is reported** (was finding G5: nothing was reported): the differ
    considers `a.type -> b.type` safe and the two differ ⇒ a `FieldArgumentChangedType` naming the argument, COMPATIBLE. -/
theorem compatibly_retyped_argument_reported (o n : SchemaD) (ot nt : TypeD) (f g : FieldD) (a b : ArgD)
    (hp : FieldHost o n ot nt) (hf : f ∈ ot.fields) (hg : nt.fields.find? (·.name == f.name) = some g)
    (ha : a ∈ f.args) (hb : g.args.find? (·.name == a.name) = some b) (hs : safeIn a.type b.type = true)
    (hne : a.type ≠ b.type) :
    ({ cls := "FieldArgumentChangedType",
       key := [("field", f.name), ("new_argument", b.name), ("old_argument", a.name), ("type", ot.name)],
       severity := 0 } : Change) ∈ diffSchema o n 0 := by
  apply of_field_args hp hf hg
  unfold diffFieldArguments
  simp only [List.mem_append]
  right
  exact mem_compatRetypes _ _ _ _ a b 0 compatible_retype_severity ha hb hs hne

/-- **A compatible retyping of a field is reported** (`Int` -> `Int!`, `[Int]` -> `[Int]!`), COMPATIBLE. -/
theorem compatibly_retyped_field_reported (o n : SchemaD) (ot nt : TypeD) (f g : FieldD) (hp : FieldHost o n ot nt)
    (hf : f ∈ ot.fields) (hg : nt.fields.find? (·.name == f.name) = some g) (hs : safeOut f.type g.type = true)
    (hne : f.type ≠ g.type) :
    ({ cls := "FieldChangedType", key := [("new_field", g.name), ("old_field", f.name), ("type", ot.name)],
       severity := 0 } : Change) ∈ diffSchema o n 0 := by
  apply of_fields hp
  apply mem_diffFields_of_field ot nt f g _ hf hg
  simp [diffField, hs, compatRetype, compatible_retype_severity, hne]

/-- every retyping of a field is reported, whatever the differ thinks of its safety -/
theorem any_retyped_field_reported (o n : SchemaD) (ot nt : TypeD) (f g : FieldD) (hp : FieldHost o n ot nt)
    (hf : f ∈ ot.fields) (hg : nt.fields.find? (·.name == f.name) = some g) (hne : f.type ≠ g.type) :
    ∃ c ∈ diffSchema o n 0, c.cls = "FieldChangedType"
      ∧ c.key = [("new_field", g.name), ("old_field", f.name), ("type", ot.name)] := by
  cases hs : safeOut f.type g.type with
  | true => exact ⟨_, compatibly_retyped_field_reported o n ot nt f g hp hf hg hs hne, rfl, rfl⟩
  | false => exact ⟨_, retyped_field_reported_any o n ot nt f g hp hf hg hs, rfl, rfl⟩

/-- every retyping of an argument is reported -/
theorem any_retyped_argument_reported (o n : SchemaD) (ot nt : TypeD) (f g : FieldD) (a b : ArgD)
    (hp : FieldHost o n ot nt) (hf : f ∈ ot.fields) (hg : nt.fields.find? (·.name == f.name) = some g)
    (ha : a ∈ f.args) (hb : g.args.find? (·.name == a.name) = some b) (hne : a.type ≠ b.type) :
    ∃ c ∈ diffSchema o n 0, c.cls = "FieldArgumentChangedType"
      ∧ c.key = [("field", f.name), ("new_argument", b.name), ("old_argument", a.name), ("type", ot.name)] := by
  cases hs : safeIn a.type b.type with
  | true => exact ⟨_, compatibly_retyped_argument_reported o n ot nt f g a b hp hf hg ha hb hs hne, rfl, rfl⟩
  | false => exact ⟨_, retyped_argument_reported o n ot nt f g a b hp hf hg ha hb hs, rfl, rfl⟩

/-! ### interface implementations -/

theorem removed_implementation_reported (o n : SchemaD) (ot nt : TypeD) (i : String)
    (hp : (ot, nt) ∈ matchingPairs o n .object) (hi : i ∈ ot.interfaces) (hn : i ∉ nt.interfaces) :
    mk "TypeRemovedFromInterface" [("interface", i), ("type", ot.name)] ∈ diffSchema o n 0 := by
  apply of_object
  unfold diffObjectTypes
  apply List.mem_flatMap.mpr
  refine ⟨(ot, nt), hp, ?_⟩
  simp only [List.mem_append]
  left; right
  apply List.mem_map.mpr
  exact ⟨i, List.mem_filter.mpr ⟨hi, by simp [hn]⟩, rfl⟩

theorem added_implementation_reported (o n : SchemaD) (ot nt : TypeD) (i : String)
    (hp : (ot, nt) ∈ matchingPairs o n .object) (hi : i ∈ nt.interfaces) (hn : i ∉ ot.interfaces) :
    mk "TypeAddedToInterface" [("interface", i), ("type", ot.name)] ∈ diffSchema o n 0 := by
  apply of_object
  unfold diffObjectTypes
  apply List.mem_flatMap.mpr
  refine ⟨(ot, nt), hp, ?_⟩
  simp only [List.mem_append]
  right
  apply List.mem_map.mpr
  exact ⟨i, List.mem_filter.mpr ⟨hi, by simp [hn]⟩, rfl⟩

/-! ### union members -/

theorem removed_union_member_reported (o n : SchemaD) (ou nu : TypeD) (x : String)
    (hp : (ou, nu) ∈ matchingPairs o n .union) (hx : x ∈ ou.members) (hn : x ∉ nu.members) :
    mk "TypeRemovedFromUnion" [("type_name", x), ("union", ou.name)] ∈ diffSchema o n 0 := by
  apply of_union
  unfold diffUnionTypes
  apply List.mem_flatMap.mpr
  refine ⟨(ou, nu), hp, ?_⟩
  simp only [List.mem_append]
  left
  apply List.mem_map.mpr
  exact ⟨x, List.mem_filter.mpr ⟨hx, by simp [hn]⟩, rfl⟩

theorem added_union_member_reported (o n : SchemaD) (ou nu : TypeD) (x : String)
    (hp : (ou, nu) ∈ matchingPairs o n .union) (hx : x ∈ nu.members) (hn : x ∉ ou.members) :
    mk "TypeAddedToUnion" [("type_name", x), ("union", nu.name)] ∈ diffSchema o n 0 := by
  apply of_union
  unfold diffUnionTypes
  apply List.mem_flatMap.mpr
  refine ⟨(ou, nu), hp, ?_⟩
  simp only [List.mem_append]
  right
  apply List.mem_map.mpr
  exact ⟨x, List.mem_filter.mpr ⟨hx, by simp [hn]⟩, rfl⟩

/-! ### enum values -/

private theorem of_enum_value {o n : SchemaD} {oe ne : TypeD} {v : EnumValD} {c : Change}
    (hp : (oe, ne) ∈ matchingPairs o n .enum) (hv : v ∈ oe.values)
    (hc : (match ne.values.find? (·.name == v.name) with
      | none => some (mk "EnumValueRemoved" [("enum", oe.name), ("value", v.name)])
      | some nv =>
        let k := [("enum", oe.name), ("new_value", nv.name), ("old_value", v.name)]
        match v.deprecated, nv.deprecated with
        | some _, none => some (mk "EnumValueDeprecationRemoved" k)
        | some r, some r' => if r != r' then some (mk "EnumValueDeprecationReasonChanged" k) else none
        | none, some _ => some (mk "EnumValueDeprecated" k)
        | none, none => none) = some c) : c ∈ diffSchema o n 0 := by
  apply of_enum
  unfold diffEnumTypes
  apply List.mem_flatMap.mpr
  refine ⟨(oe, ne), hp, ?_⟩
  simp only [List.mem_append]
  left
  apply List.mem_filterMap.mpr
  exact ⟨v, hv, hc⟩

theorem removed_enum_value_reported (o n : SchemaD) (oe ne : TypeD) (v : EnumValD)
    (hp : (oe, ne) ∈ matchingPairs o n .enum) (hv : v ∈ oe.values)
    (hn : ne.values.find? (·.name == v.name) = none) :
    mk "EnumValueRemoved" [("enum", oe.name), ("value", v.name)] ∈ diffSchema o n 0 :=
  of_enum_value hp hv (by simp [hn])

theorem added_enum_value_reported (o n : SchemaD) (oe ne : TypeD) (w : EnumValD)
    (hp : (oe, ne) ∈ matchingPairs o n .enum) (hw : w ∈ ne.values)
    (ho : oe.values.find? (·.name == w.name) = none) :
    mk "EnumValueAdded" [("enum", ne.name), ("value", w.name)] ∈ diffSchema o n 0 := by
  apply of_enum
  unfold diffEnumTypes
  apply List.mem_flatMap.mpr
  refine ⟨(oe, ne), hp, ?_⟩
  simp only [List.mem_append]
  right
  apply List.mem_map.mpr
  exact ⟨w, List.mem_filter.mpr ⟨hw, by simp [ho]⟩, rfl⟩

theorem enum_value_deprecated_reported (o n : SchemaD) (oe ne : TypeD) (v w : EnumValD) (r : String)
    (hp : (oe, ne) ∈ matchingPairs o n .enum) (hv : v ∈ oe.values)
    (hw : ne.values.find? (·.name == v.name) = some w) (h1 : v.deprecated = none) (h2 : w.deprecated = some r) :
    mk "EnumValueDeprecated" [("enum", oe.name), ("new_value", w.name), ("old_value", v.name)] ∈ diffSchema o n 0 :=
  of_enum_value hp hv (by simp [hw, h1, h2])

theorem enum_value_deprecation_removed_reported (o n : SchemaD) (oe ne : TypeD) (v w : EnumValD) (r : String)
    (hp : (oe, ne) ∈ matchingPairs o n .enum) (hv : v ∈ oe.values)
    (hw : ne.values.find? (·.name == v.name) = some w) (h1 : v.deprecated = some r) (h2 : w.deprecated = none) :
    mk "EnumValueDeprecationRemoved" [("enum", oe.name), ("new_value", w.name), ("old_value", v.name)] ∈ diffSchema o n 0 :=
  of_enum_value hp hv (by simp [hw, h1, h2])

theorem enum_value_deprecation_reason_reported (o n : SchemaD) (oe ne : TypeD) (v w : EnumValD) (r r' : String)
    (hp : (oe, ne) ∈ matchingPairs o n .enum) (hv : v ∈ oe.values)
    (hw : ne.values.find? (·.name == v.name) = some w) (h1 : v.deprecated = some r) (h2 : w.deprecated = some r')
    (hr : r ≠ r') :
    mk "EnumValueDeprecationReasonChanged" [("enum", oe.name), ("new_value", w.name), ("old_value", v.name)]
      ∈ diffSchema o n 0 :=
  of_enum_value hp hv (by simp [hw, h1, h2, hr])

/-! ### input fields -/

theorem removed_input_field_reported (o n : SchemaD) (ot nt : TypeD) (f : ArgD)
    (hp : (ot, nt) ∈ matchingPairs o n .input) (hf : f ∈ ot.inputFields)
    (hn : nt.inputFields.find? (·.name == f.name) = none) :
    mk "InputFieldRemoved" [("field", f.name), ("type", ot.name)] ∈ diffSchema o n 0 := by
  apply of_input
  unfold diffInputTypes
  apply List.mem_flatMap.mpr
  refine ⟨(ot, nt), hp, ?_⟩
  simp only [List.mem_append]
  left; left
  apply List.mem_filterMap.mpr
  exact ⟨f, hf, by simp [hn]⟩

theorem added_input_field_reported (o n : SchemaD) (ot nt : TypeD) (g : ArgD)
    (hp : (ot, nt) ∈ matchingPairs o n .input) (hg : g ∈ nt.inputFields)
    (ho : ot.inputFields.find? (·.name == g.name) = none) :
    mk "InputFieldAdded" [("field", g.name), ("type", nt.name)] (ArgD.required g) ∈ diffSchema o n 0 := by
  apply of_input
  unfold diffInputTypes
  apply List.mem_flatMap.mpr
  refine ⟨(ot, nt), hp, ?_⟩
  simp only [List.mem_append]
  left; right
  apply List.mem_map.mpr
  exact ⟨g, List.mem_filter.mpr ⟨hg, by simp [ho]⟩, rfl⟩

theorem retyped_input_field_reported (o n : SchemaD) (ot nt : TypeD) (f g : ArgD)
    (hp : (ot, nt) ∈ matchingPairs o n .input) (hf : f ∈ ot.inputFields)
    (hg : nt.inputFields.find? (·.name == f.name) = some g) (hu : safeIn f.type g.type = false) :
    mk "InputFieldChangedType" [("new_field", g.name), ("old_field", f.name), ("type", ot.name)] ∈ diffSchema o n 0 := by
  apply of_input
  unfold diffInputTypes
  apply List.mem_flatMap.mpr
  refine ⟨(ot, nt), hp, ?_⟩
  simp only [List.mem_append]
  left; left
  apply List.mem_filterMap.mpr
  exact ⟨f, hf, by simp [hg, hu]⟩

theorem input_field_default_change_reported (o n : SchemaD) (ot nt : TypeD) (f g : ArgD)
    (hp : (ot, nt) ∈ matchingPairs o n .input) (hf : f ∈ ot.inputFields)
    (hg : nt.inputFields.find? (·.name == f.name) = some g) (hs : safeIn f.type g.type = true)
    (hd : defaultChanged f g = true) :
    mk "InputFieldDefaultValueChange" [("new_field", g.name), ("old_field", f.name), ("type", ot.name)]
      (becameRequired f g) ∈ diffSchema o n 0 := by
  apply of_input
  unfold diffInputTypes
  apply List.mem_flatMap.mpr
  refine ⟨(ot, nt), hp, ?_⟩
  simp only [List.mem_append]
  left; left
  apply List.mem_filterMap.mpr
  exact ⟨f, hf, by simp [hg, hs, hd]⟩

/-- **A compatible retyping of an input field is reported**, COMPATIBLE. -/
theorem compatibly_retyped_input_field_reported (o n : SchemaD) (ot nt : TypeD) (f g : ArgD)
    (hp : (ot, nt) ∈ matchingPairs o n .input) (hf : f ∈ ot.inputFields)
    (hg : nt.inputFields.find? (·.name == f.name) = some g) (hs : safeIn f.type g.type = true)
    (hne : f.type ≠ g.type) :
    ({ cls := "InputFieldChangedType", key := [("new_field", g.name), ("old_field", f.name), ("type", ot.name)],
       severity := 0 } : Change) ∈ diffSchema o n 0 := by
  apply of_input
  unfold diffInputTypes
  apply List.mem_flatMap.mpr
  refine ⟨(ot, nt), hp, ?_⟩
  simp only [List.mem_append]
  right
  exact mem_compatRetypes _ _ _ _ f g 0 compatible_retype_severity hf hg hs hne

/-- every retyping of an input field is reported -/
theorem any_retyped_input_field_reported (o n : SchemaD) (ot nt : TypeD) (f g : ArgD)
    (hp : (ot, nt) ∈ matchingPairs o n .input) (hf : f ∈ ot.inputFields)
    (hg : nt.inputFields.find? (·.name == f.name) = some g) (hne : f.type ≠ g.type) :
    ∃ c ∈ diffSchema o n 0, c.cls = "InputFieldChangedType"
      ∧ c.key = [("new_field", g.name), ("old_field", f.name), ("type", ot.name)] := by
  cases hs : safeIn f.type g.type with
  | true => exact ⟨_, compatibly_retyped_input_field_reported o n ot nt f g hp hf hg hs hne, rfl, rfl⟩
  | false => exact ⟨_, retyped_input_field_reported o n ot nt f g hp hf hg hs, rfl, rfl⟩

/-! ### directives, their locations and arguments -/

theorem removed_directive_reported (o n : SchemaD) (d : DirectiveD) (hd : d ∈ o.directives)
    (hn : n.directives.find? (·.name == d.name) = none) :
    mk "DirectiveRemoved" [("directive", d.name)] ∈ diffSchema o n 0 := by
  apply of_directives
  unfold diffDirectives
  simp only [List.mem_append]
  left
  apply List.mem_flatMap.mpr
  exact ⟨d, hd, by simp [hn]⟩

theorem added_directive_reported (o n : SchemaD) (d : DirectiveD) (hd : d ∈ n.directives)
    (ho : o.directives.find? (·.name == d.name) = none) :
    mk "DirectiveAdded" [("directive", d.name)] ∈ diffSchema o n 0 := by
  apply of_directives
  unfold diffDirectives
  simp only [List.mem_append]
  right
  apply List.mem_map.mpr
  exact ⟨d, List.mem_filter.mpr ⟨hd, by simp [ho]⟩, rfl⟩

private theorem of_directive {o n : SchemaD} {d e : DirectiveD} {c : Change} (hd : d ∈ o.directives)
    (he : n.directives.find? (·.name == d.name) = some e)
    (hc : c ∈ ((d.locations.filter fun l => !e.locations.contains l).map fun l =>
              mk "DirectiveLocationRemoved" [("directive", d.name), ("location", l)])
          ++ ((e.locations.filter fun l => !d.locations.contains l).map fun l =>
              mk "DirectiveLocationAdded" [("directive", d.name), ("location", l)])
          ++ diffDirectiveArguments d e) : c ∈ diffSchema o n 0 := by
  apply of_directives
  unfold diffDirectives
  simp only [List.mem_append]
  left
  apply List.mem_flatMap.mpr
  exact ⟨d, hd, by simpa [he] using hc⟩

theorem removed_location_reported (o n : SchemaD) (d e : DirectiveD) (l : String) (hd : d ∈ o.directives)
    (he : n.directives.find? (·.name == d.name) = some e) (hl : l ∈ d.locations) (hn : l ∉ e.locations) :
    mk "DirectiveLocationRemoved" [("directive", d.name), ("location", l)] ∈ diffSchema o n 0 := by
  apply of_directive hd he
  simp only [List.mem_append]
  left; left
  apply List.mem_map.mpr
  exact ⟨l, List.mem_filter.mpr ⟨hl, by simp [hn]⟩, rfl⟩

theorem added_location_reported (o n : SchemaD) (d e : DirectiveD) (l : String) (hd : d ∈ o.directives)
    (he : n.directives.find? (·.name == d.name) = some e) (hl : l ∈ e.locations) (hn : l ∉ d.locations) :
    mk "DirectiveLocationAdded" [("directive", d.name), ("location", l)] ∈ diffSchema o n 0 := by
  apply of_directive hd he
  simp only [List.mem_append]
  left; right
  apply List.mem_map.mpr
  exact ⟨l, List.mem_filter.mpr ⟨hl, by simp [hn]⟩, rfl⟩

theorem removed_directive_argument_reported (o n : SchemaD) (d e : DirectiveD) (a : ArgD) (hd : d ∈ o.directives)
    (he : n.directives.find? (·.name == d.name) = some e) (ha : a ∈ d.args)
    (hn : e.args.find? (·.name == a.name) = none) :
    mk "DirectiveArgumentRemoved" [("argument", a.name), ("directive", d.name)] ∈ diffSchema o n 0 := by
  apply of_directive hd he
  simp only [List.mem_append]
  right
  unfold diffDirectiveArguments
  simp only [List.mem_append]
  left; left
  apply List.mem_filterMap.mpr
  exact ⟨a, ha, by simp [hn]⟩

theorem added_directive_argument_reported (o n : SchemaD) (d e : DirectiveD) (b : ArgD) (hd : d ∈ o.directives)
    (he : n.directives.find? (·.name == d.name) = some e) (hb : b ∈ e.args)
    (ho : d.args.find? (·.name == b.name) = none) :
    mk "DirectiveArgumentAdded" [("argument", b.name), ("directive", e.name)] (ArgD.required b) ∈ diffSchema o n 0 := by
  apply of_directive hd he
  simp only [List.mem_append]
  right
  unfold diffDirectiveArguments
  simp only [List.mem_append]
  left; right
  apply List.mem_map.mpr
  exact ⟨b, List.mem_filter.mpr ⟨hb, by simp [ho]⟩, rfl⟩

theorem retyped_directive_argument_reported (o n : SchemaD) (d e : DirectiveD) (a b : ArgD) (hd : d ∈ o.directives)
    (he : n.directives.find? (·.name == d.name) = some e) (ha : a ∈ d.args)
    (hb : e.args.find? (·.name == a.name) = some b) (hu : safeIn a.type b.type = false) :
    mk "DirectiveArgumentChangedType" [("directive", d.name), ("new_argument", b.name), ("old_argument", a.name)]
      ∈ diffSchema o n 0 := by
  apply of_directive hd he
  simp only [List.mem_append]
  right
  unfold diffDirectiveArguments
  simp only [List.mem_append]
  left; left
  apply List.mem_filterMap.mpr
  exact ⟨a, ha, by simp [hb, hu]⟩

/-- **A compatible retyping of a directive argument is reported**, COMPATIBLE. -/
theorem compatibly_retyped_directive_argument_reported (o n : SchemaD) (d e : DirectiveD) (a b : ArgD) (hd : d ∈ o.directives)
    (he : n.directives.find? (·.name == d.name) = some e) (ha : a ∈ d.args)
    (hb : e.args.find? (·.name == a.name) = some b) (hs : safeIn a.type b.type = true) (hne : a.type ≠ b.type) :
    ({ cls := "DirectiveArgumentChangedType",
       key := [("directive", d.name), ("new_argument", b.name), ("old_argument", a.name)], severity := 0 } : Change)
      ∈ diffSchema o n 0 := by
  apply of_directive hd he
  simp only [List.mem_append]
  right
  unfold diffDirectiveArguments
  simp only [List.mem_append]
  right
  exact mem_compatRetypes _ _ _ _ a b 0 compatible_retype_severity ha hb hs hne

/-- every retyping of a directive argument is reported -/
theorem any_retyped_directive_argument_reported (o n : SchemaD) (d e : DirectiveD) (a b : ArgD) (hd : d ∈ o.directives)
    (he : n.directives.find? (·.name == d.name) = some e) (ha : a ∈ d.args)
    (hb : e.args.find? (·.name == a.name) = some b) (hne : a.type ≠ b.type) :
    ∃ c ∈ diffSchema o n 0, c.cls = "DirectiveArgumentChangedType"
      ∧ c.key = [("directive", d.name), ("new_argument", b.name), ("old_argument", a.name)] := by
  cases hs : safeIn a.type b.type with
  | true => exact ⟨_, compatibly_retyped_directive_argument_reported o n d e a b hd he ha hb hs hne, rfl, rfl⟩
  | false => exact ⟨_, retyped_directive_argument_reported o n d e a b hd he ha hb hs, rfl, rfl⟩

theorem directive_argument_default_change_reported (o n : SchemaD) (d e : DirectiveD) (a b : ArgD)
    (hd : d ∈ o.directives) (he : n.directives.find? (·.name == d.name) = some e) (ha : a ∈ d.args)
    (hb : e.args.find? (·.name == a.name) = some b) (hs : safeIn a.type b.type = true)
    (hc : defaultChanged a b = true) :
    mk "DirectiveArgumentDefaultValueChange" [("directive", d.name), ("new_argument", b.name), ("old_argument", a.name)]
      (becameRequired a b) ∈ diffSchema o n 0 := by
  apply of_directive hd he
  simp only [List.mem_append]
  right
  unfold diffDirectiveArguments
  simp only [List.mem_append]
  left; left
  apply List.mem_filterMap.mpr
  exact ⟨a, ha, by simp [hb, hs, hc]⟩

end PyGql.Props.C20

/-
  C15 — `introspect_lossless`: the full statement is `Spec.LosslessStatement`
  (`schemaOfIntrospection (introspect s true) = norm s` for every schema whose type references fit the query's
  8 `TypeRef` levels), PROVED in full as `introspect_lossless`; the bound is tight
  (`typeRef_truncates_beyond_query_depth`).  The same decoder is also run on the REAL server's answer on every
  run (driver op `decodeReal`, compared with `norm` of the dumped schema).
-/
import PyGqlModel.Spec.Introspect

set_option linter.unusedSimpArgs false
set_option linter.unusedVariables false

namespace PyGql.Props.C15
open PyGql PyGql.Introspect PyGql.Introspect.Spec PyGql.Generated.Introspection

private theorem kindString_str (k : Kind) : ∃ x, kindString k = .str x ∧ x ≠ "LIST" ∧ x ≠ "NON_NULL" := by
  cases k <;> simp [kindString, kindOfTag, typeKindTable, Kind.toString]

private theorem strD_kind (a b : J) (rest : List (String × J)) : (J.obj (("kind", a) :: ("name", b) :: rest)).strD "kind" = (a.asStr?).getD "" := by
  simp [J.strD, J.get?]
private theorem strD_name (a b : J) (rest : List (String × J)) : (J.obj (("kind", a) :: ("name", b) :: rest)).strD "name" = (b.asStr?).getD "" := by
  simp [J.strD, J.get?]
private theorem getD_ofType (a b c : J) : (J.obj [("kind", a), ("name", b), ("ofType", c)]).getD "ofType" = c := by
  simp [J.getD, J.get?]

private theorem refKind_named (s : SchemaD) (n : String) : ((refKind s (.named n)).asStr?).getD "" ≠ "LIST" ∧ ((refKind s (.named n)).asStr?).getD "" ≠ "NON_NULL" := by
  simp only [refKind]
  cases s.findType n with
  | none => simp [J.asStr?]
  | some td =>
    obtain ⟨x, hx, h1, h2⟩ := kindString_str td.kind
    simp [hx, J.asStr?, h1, h2]

private theorem tyOfRef_named (k : Nat) (j : J) (h1 : j.strD "kind" ≠ "LIST") (h2 : j.strD "kind" ≠ "NON_NULL") :
    tyOfRef (k+1) j = .named (j.strD "name") := by
  rw [tyOfRef]; simp [h1, h2]
private theorem tyOfRef_list (k : Nat) (j : J) (h : j.strD "kind" = "LIST") : tyOfRef (k+1) j = .list (tyOfRef k (j.getD "ofType")) := by
  rw [tyOfRef]; simp [h]
private theorem tyOfRef_nonNull (k : Nat) (j : J) (h : j.strD "kind" = "NON_NULL") : tyOfRef (k+1) j = .nonNull (tyOfRef k (j.getD "ofType")) := by
  rw [tyOfRef]; simp [h]

/-- type references are reported losslessly: a type expression of at most `k` levels (the standard query asks for
    8) is recovered exactly from its `TypeRef` JSON — list / non-null nesting, the named type at the bottom. -/
theorem typeRef_lossless (s : SchemaD) : ∀ (k : Nat) (t : Ty), t.size ≤ k → tyOfRef k (typeRef s k t) = t := by
  intro k
  induction k with
  | zero => intro t h; have := t.size_pos; omega
  | succ k ih =>
    intro t h
    cases k with
    | zero =>
      cases t with
      | named n =>
        have := refKind_named s n
        rw [typeRef, tyOfRef_named _ _ (by rw [strD_kind]; exact this.1) (by rw [strD_kind]; exact this.2), strD_name]
        simp [refName, J.asStr?]
      | list u => simp [Ty.size] at h; have := u.size_pos; omega
      | nonNull u => simp [Ty.size] at h; have := u.size_pos; omega
    | succ k =>
      cases t with
      | named n =>
        have := refKind_named s n
        rw [typeRef, tyOfRef_named _ _ (by rw [strD_kind]; exact this.1) (by rw [strD_kind]; exact this.2), strD_name]
        simp [refName, J.asStr?]
      | list u =>
        simp only [Ty.size] at h
        rw [typeRef, tyOfRef_list _ _ (by rw [strD_kind]; simp [refKind, kindOfTag, typeKindTable, J.asStr?]), getD_ofType]
        simp [ih u (by omega)]
      | nonNull u =>
        simp only [Ty.size] at h
        rw [typeRef, tyOfRef_nonNull _ _ (by rw [strD_kind]; simp [refKind, kindOfTag, typeKindTable, J.asStr?]), getD_ofType]
        simp [ih u (by omega)]

/-- the depth bound is tight: with 8 wrappers around a named type the standard query's answer no longer
    determines the type (the QUERY truncates, whatever the server does). -/
theorem typeRef_truncates_beyond_query_depth :
    let t9 : Ty := .list (.list (.list (.list (.list (.list (.list (.list (.named "Int"))))))))
    tyOfRef typeRefLevels (typeRef { types := [{ kind := .scalar, name := "Int" }] } typeRefLevels t9) ≠ t9 := by
  decide

private theorem insertBy_perm {α} (key : α → String) (x : α) (l : List α) : (insertBy key x l).Perm (x :: l) := by
  induction l with
  | nil => exact List.Perm.refl _
  | cons y ys ih =>
    simp only [insertBy]
    split
    · exact List.Perm.refl _
    · exact (List.Perm.cons y ih).trans (List.Perm.swap x y ys)

/-- listing sorted by name loses and invents nothing -/
theorem sortBy_perm {α} (key : α → String) (l : List α) : (sortBy key l).Perm l := by
  induction l with
  | nil => exact List.Perm.refl _
  | cons x xs ih => exact (insertBy_perm key x _).trans (List.Perm.cons x ih)

private theorem typeOf_name (s : SchemaD) (b : Bool) (t : TypeD) : (typeOf (fullType s b t)).name = t.name := by
  simp [typeOf, fullType, J.strD, J.get?, J.asStr?]

private theorem directiveOf_name_locs (s : SchemaD) (d : DirectiveD) :
    (directiveOf (directiveJ s d)).name = d.name ∧ (directiveOf (directiveJ s d)).locations = d.locations := by
  simp [directiveOf, directiveJ, J.strD, J.arrD, J.get?, J.asStr?, J.asArr?, List.filterMap_map]
  induction d.locations with
  | nil => rfl
  | cons x xs ih => simp [List.filterMap_cons, J.asStr?, ih]

/-- corollary in elementary terms (no `norm`): decoding the standard result gives back
    (1) the root operation types, (2) exactly the schema's types by name — a permutation: none missing, none
    invented —, (3) exactly the directives by name with their locations, and (4) every type reference of up to
    8 levels (`typeRef_lossless`). The record-by-record equality is `introspect_lossless` below. -/
theorem introspect_lossless_names (s : SchemaD) :
    (schemaOfIntrospection (introspect s true)).query = s.query
    ∧ (schemaOfIntrospection (introspect s true)).mutation = s.mutation
    ∧ (schemaOfIntrospection (introspect s true)).subscription = s.subscription
    ∧ ((schemaOfIntrospection (introspect s true)).types.map (·.name)).Perm (s.types.map (·.name))
    ∧ ((schemaOfIntrospection (introspect s true)).directives.map (fun d => (d.name, d.locations))).Perm
        (s.directives.map (fun d => (d.name, d.locations))) := by
  have hq : ∀ o : Option String, rootOf (rootRef o) = o := by
    intro o; cases o <;> simp [rootOf, rootRef, J.strD, J.get?, J.asStr?]
  refine ⟨?_, ?_, ?_, ?_, ?_⟩
  · simp [schemaOfIntrospection, introspect, schemaJ, J.getD, J.get?, hq]
  · simp [schemaOfIntrospection, introspect, schemaJ, J.getD, J.get?, hq]
  · simp [schemaOfIntrospection, introspect, schemaJ, J.getD, J.get?, hq]
  · have : (schemaOfIntrospection (introspect s true)).types.map (·.name) = (sortBy (·.name) s.types).map (·.name) := by
      simp [schemaOfIntrospection, introspect, schemaJ, J.getD, J.get?, J.arrD, J.asArr?, List.map_map, Function.comp_def, typeOf_name]
    rw [this]
    exact (sortBy_perm _ _).map _
  · have : (schemaOfIntrospection (introspect s true)).directives.map (fun d => (d.name, d.locations))
        = (sortBy (·.name) s.directives).map (fun d => (d.name, d.locations)) := by
      simp [schemaOfIntrospection, introspect, schemaJ, J.getD, J.get?, J.arrD, J.asArr?, List.map_map, Function.comp_def,
        directiveOf_name_locs]
    rw [this]
    exact (sortBy_perm _ _).map _

private theorem optStr_j (o : Option String) (k : String) (pre post : List (String × J)) (h : pre.find? (·.1 == k) = none) :
    optStr (.obj (pre ++ (k, jOptStr o) :: post)) k = o := by
  cases o <;> simp [optStr, J.get?, List.find?_append, h, jOptStr, J.asStr?]

private theorem argOf_inputValue (s : SchemaD) (a : ArgD) (h : a.type.size ≤ typeRefLevels) : argOf (inputValue s a) = normArg s a := by
  have ht := typeRef_lossless s typeRefLevels a.type h
  cases hf : formatDefaultValue s a.hasDefault a.default a.type <;> cases hd : a.desc <;>
    simp [argOf, inputValue, normArg, J.strD, J.getD, J.get?, J.asStr?, ht, hf, hd, jChars, J.isNull, optStr, jOptStr]

private theorem fieldOf_fieldJ (s : SchemaD) (f : FieldD) (h : f.type.size ≤ typeRefLevels) (ha : argsFit f.args = true) :
    fieldOf (fieldJ s f) = normField s f := by
  have ht := typeRef_lossless s typeRefLevels f.type h
  have hargs : f.args.map (argOf ∘ inputValue s) = f.args.map (normArg s) := by
    apply List.map_congr_left
    intro a hm
    simp only [argsFit, List.all_eq_true] at ha
    exact argOf_inputValue s a (by simpa using ha a hm)
  cases hd : f.desc <;> cases hp : f.deprecated <;>
    simp [fieldOf, fieldJ, normField, J.strD, J.getD, J.get?, J.asStr?, J.arrD, J.asArr?, J.boolD, J.asBool?, ht, hd, hp, optStr, jOptStr,
      List.map_map, hargs]

private theorem enumValOf_enumValueJ (v : EnumValD) : enumValOf (enumValueJ v) = normEnumVal v := by
  cases hd : v.desc <;> cases hp : v.deprecated <;>
    simp [enumValOf, enumValueJ, normEnumVal, J.strD, J.getD, J.get?, J.asStr?, J.boolD, J.asBool?, hd, hp, optStr, jOptStr]

private theorem directiveOf_directiveJ (s : SchemaD) (d : DirectiveD) (ha : argsFit d.args = true) :
    directiveOf (directiveJ s d) = normDirective s d := by
  have hargs : d.args.map (argOf ∘ inputValue s) = d.args.map (normArg s) := by
    apply List.map_congr_left
    intro a hm
    simp only [argsFit, List.all_eq_true] at ha
    exact argOf_inputValue s a (by simpa using ha a hm)
  have hl : List.filterMap J.asStr? (List.map J.str d.locations) = d.locations := by
    induction d.locations with
    | nil => rfl
    | cons x xs ih => simp [List.filterMap_cons, J.asStr?, ih]
  cases hd : d.desc <;>
    simp [directiveOf, directiveJ, normDirective, J.strD, J.getD, J.get?, J.asStr?, J.arrD, J.asArr?, hd, optStr, jOptStr,
      List.map_map, hargs, hl]

private theorem kindOfString_kindString (k : Kind) : ∃ x, kindString k = .str x ∧ kindOfString x = k := by
  cases k <;> simp [kindString, kindOfTag, typeKindTable, Kind.toString, kindOfString, Kind.ofString]

private theorem name_of_namedRef (s : SchemaD) (n : String) : (typeRef s typeRefLevels (.named n)).strD "name" = n := by
  simp [typeRef, typeRefLevels, J.strD, J.get?, J.asStr?, refName]

private theorem typeOf_fullType (s : SchemaD) (t : TypeD)
    (hf : t.fields.all (fun f => f.type.size ≤ typeRefLevels && argsFit f.args) = true) (hi : argsFit t.inputFields = true) :
    typeOf (fullType s true t) = normType s t := by
  obtain ⟨x, hx, hk⟩ := kindOfString_kindString t.kind
  have hfields : t.fields.map (fieldOf ∘ fieldJ s) = t.fields.map (normField s) := by
    apply List.map_congr_left
    intro f hm
    simp only [List.all_eq_true, Bool.and_eq_true] at hf
    exact fieldOf_fieldJ s f (by simpa using (hf f hm).1) (hf f hm).2
  have hin : t.inputFields.map (argOf ∘ inputValue s) = t.inputFields.map (normArg s) := by
    apply List.map_congr_left
    intro a hm
    simp only [argsFit, List.all_eq_true] at hi
    exact argOf_inputValue s a (by simpa using hi a hm)
  have hnames : ∀ l : List String, l.map ((fun j => j.strD "name") ∘ fun n => typeRef s typeRefLevels (.named n)) = l := by
    intro l; induction l with
    | nil => rfl
    | cons a l ih => simp [name_of_namedRef, ih]
  have hvals : t.values.map (enumValOf ∘ enumValueJ) = t.values.map normEnumVal := by
    apply List.map_congr_left; intro v _; exact enumValOf_enumValueJ v
  have hnames' := hnames
  simp only [J.strD, J.get?] at hnames'
  have hft : ∀ l : List FieldD, l.filter (fun _ => true) = l := fun l => by simp
  have hvt : ∀ l : List EnumValD, l.filter (fun _ => true) = l := fun l => by simp
  cases hd : t.desc <;> cases hkind : t.kind <;>
    rw [hkind] at hx hk <;>
    simp [typeOf, fullType, normType, J.strD, J.getD, J.get?, J.asStr?, J.arrD, J.asArr?, hx, hk, hd, hkind, optStr, jOptStr,
      List.map_map, hfields, hin, hnames, hnames', hvals, possibleTypes, visibleFields, visibleValues, hft, hvt]

/-- `introspect_lossless` (FULL statement `Spec.LosslessStatement`): for every schema description whose type
    references fit the 8 `TypeRef` levels of the standard query, decoding the standard introspection result gives
    back the schema's normal form `Spec.norm s` — every type with kind, name, description, fields (arguments, type
    references, deprecation reasons), input fields, interfaces, enum values, union members; every directive with
    locations and arguments; the three root types. Nothing missing, nothing invented; `norm` spells out the only
    things not observable (listing order by name, enum internal values, defaults as their printed text). -/
theorem introspect_lossless : LosslessStatement := by
  intro s h
  simp only [DepthOk, Bool.and_eq_true, List.all_eq_true] at h
  obtain ⟨ht, hd⟩ := h
  have htypes : (sortBy (·.name) s.types).map (typeOf ∘ fullType s true) = (sortBy (·.name) s.types).map (normType s) := by
    apply List.map_congr_left
    intro t hm
    have hm' : t ∈ s.types := (sortBy_perm _ _).mem_iff.mp hm
    have := ht t hm'
    exact typeOf_fullType s t (by simpa [List.all_eq_true] using this.1) this.2
  have hdirs : (sortBy (·.name) s.directives).map (directiveOf ∘ directiveJ s) = (sortBy (·.name) s.directives).map (normDirective s) := by
    apply List.map_congr_left
    intro d hm
    exact directiveOf_directiveJ s d (hd d ((sortBy_perm _ _).mem_iff.mp hm))
  have hq : ∀ o : Option String, rootOf (rootRef o) = o := by
    intro o; cases o <;> simp [rootOf, rootRef, J.strD, J.get?, J.asStr?]
  simp [schemaOfIntrospection, introspect, schemaJ, norm, J.getD, J.get?, J.arrD, J.asArr?, List.map_map, htypes, hdirs, hq]

/-- non-vacuity: a description with nested type references satisfies `DepthOk`, and a 9-level one does not -/
example : DepthOk { types := [ { kind := .object, name := "Query", fields := [{ name := "f", type := .nonNull (.list (.named "Int")), args := [{ name := "a", type := .list (.named "Int") }] }] } ] } = true := by
  decide

/-- non-vacuity of the depth hypothesis and of the decoder on a concrete description -/
example : tyOfRef typeRefLevels (typeRef { types := [{ kind := .scalar, name := "Int" }] } typeRefLevels (.nonNull (.list (.nonNull (.named "Int")))))
    = .nonNull (.list (.nonNull (.named "Int"))) := by decide

end PyGql.Props.C15

/-
  C15 — `introspect_lossless`: the full statement is `Spec.LosslessStatement`
  (`schemaOfIntrospection (introspect s true) = norm s` for every schema whose type references fit the query's
  8 `TypeRef` levels).  Proved here: the parts listed in `introspect_lossless_partial`; the remaining
  record-by-record decoding is exercised on every run by the driver op `lossless` (model) and `decodeReal`
  (decoder applied to the REAL server's answer, compared with `norm` of the dumped schema).
-/
import PyGqlModel.Spec.Introspect

set_option linter.unusedSimpArgs false
set_option linter.unusedVariables false

namespace PyGql.Props.C15
open PyGql PyGql.Introspect PyGql.Introspect.Spec PyGql.Generated.Introspection

private theorem kindString_str (k : Kind) : ∃ x, kindString k = .str x ∧ x ≠ "LIST" ∧ x ≠ "NON_NULL" := by
  cases k <;> simp [kindString, kindOfTag, typeKindTable, Kind.toString]

private theorem strD_kind (a b : J) (rest : List (String × J)) : (J.obj (("kind", a) :: ("name", b) :: rest)).strD "kind" = (a.asStr?).getD "" := by
  simp [J.strD, J.get?]
private theorem strD_name (a b : J) (rest : List (String × J)) : (J.obj (("kind", a) :: ("name", b) :: rest)).strD "name" = (b.asStr?).getD "" := by
  simp [J.strD, J.get?]
private theorem getD_ofType (a b c : J) : (J.obj [("kind", a), ("name", b), ("ofType", c)]).getD "ofType" = c := by
  simp [J.getD, J.get?]

private theorem refKind_named (s : SchemaD) (n : String) : ((refKind s (.named n)).asStr?).getD "" ≠ "LIST" ∧ ((refKind s (.named n)).asStr?).getD "" ≠ "NON_NULL" := by
  simp only [refKind]
  cases s.findType n with
  | none => simp [J.asStr?]
  | some td =>
    obtain ⟨x, hx, h1, h2⟩ := kindString_str td.kind
    simp [hx, J.asStr?, h1, h2]

private theorem tyOfRef_named (k : Nat) (j : J) (h1 : j.strD "kind" ≠ "LIST") (h2 : j.strD "kind" ≠ "NON_NULL") :
    tyOfRef (k+1) j = .named (j.strD "name") := by
  rw [tyOfRef]; simp [h1, h2]
private theorem tyOfRef_list (k : Nat) (j : J) (h : j.strD "kind" = "LIST") : tyOfRef (k+1) j = .list (tyOfRef k (j.getD "ofType")) := by
  rw [tyOfRef]; simp [h]
private theorem tyOfRef_nonNull (k : Nat) (j : J) (h : j.strD "kind" = "NON_NULL") : tyOfRef (k+1) j = .nonNull (tyOfRef k (j.getD "ofType")) := by
  rw [tyOfRef]; simp [h]

/-- type references are reported losslessly: a type expression of at most `k` levels (the standard query asks for
    8) is recovered exactly from its `TypeRef` JSON — list / non-null nesting, the named type at the bottom. -/
theorem typeRef_lossless (s : SchemaD) : ∀ (k : Nat) (t : Ty), t.size ≤ k → tyOfRef k (typeRef s k t) = t := by
  intro k
  induction k with
  | zero => intro t h; have := t.size_pos; omega
  | succ k ih =>
    intro t h
    cases k with
    | zero =>
      cases t with
      | named n =>
        have := refKind_named s n
        rw [typeRef, tyOfRef_named _ _ (by rw [strD_kind]; exact this.1) (by rw [strD_kind]; exact this.2), strD_name]
        simp [refName, J.asStr?]
      | list u => simp [Ty.size] at h; have := u.size_pos; omega
      | nonNull u => simp [Ty.size] at h; have := u.size_pos; omega
    | succ k =>
      cases t with
      | named n =>
        have := refKind_named s n
        rw [typeRef, tyOfRef_named _ _ (by rw [strD_kind]; exact this.1) (by rw [strD_kind]; exact this.2), strD_name]
        simp [refName, J.asStr?]
      | list u =>
        simp only [Ty.size] at h
        rw [typeRef, tyOfRef_list _ _ (by rw [strD_kind]; simp [refKind, kindOfTag, typeKindTable, J.asStr?]), getD_ofType]
        simp [ih u (by omega)]
      | nonNull u =>
        simp only [Ty.size] at h
        rw [typeRef, tyOfRef_nonNull _ _ (by rw [strD_kind]; simp [refKind, kindOfTag, typeKindTable, J.asStr?]), getD_ofType]
        simp [ih u (by omega)]

/-- the depth bound is tight: with 8 wrappers around a named type the standard query's answer no longer
    determines the type (the QUERY truncates, whatever the server does). -/
theorem typeRef_truncates_beyond_query_depth :
    let t9 : Ty := .list (.list (.list (.list (.list (.list (.list (.list (.named "Int"))))))))
    tyOfRef typeRefLevels (typeRef { types := [{ kind := .scalar, name := "Int" }] } typeRefLevels t9) ≠ t9 := by
  decide

private theorem insertBy_perm {α} (key : α → String) (x : α) (l : List α) : (insertBy key x l).Perm (x :: l) := by
  induction l with
  | nil => exact List.Perm.refl _
  | cons y ys ih =>
    simp only [insertBy]
    split
    · exact List.Perm.refl _
    · exact (List.Perm.cons y ih).trans (List.Perm.swap x y ys)

/-- listing sorted by name loses and invents nothing -/
theorem sortBy_perm {α} (key : α → String) (l : List α) : (sortBy key l).Perm l := by
  induction l with
  | nil => exact List.Perm.refl _
  | cons x xs ih => exact (insertBy_perm key x _).trans (List.Perm.cons x ih)

private theorem typeOf_name (s : SchemaD) (b : Bool) (t : TypeD) : (typeOf (fullType s b t)).name = t.name := by
  simp [typeOf, fullType, J.strD, J.get?, J.asStr?]

private theorem directiveOf_name_locs (s : SchemaD) (d : DirectiveD) :
    (directiveOf (directiveJ s d)).name = d.name ∧ (directiveOf (directiveJ s d)).locations = d.locations := by
  simp [directiveOf, directiveJ, J.strD, J.arrD, J.get?, J.asStr?, J.asArr?, List.filterMap_map]
  induction d.locations with
  | nil => rfl
  | cons x xs ih => simp [List.filterMap_cons, J.asStr?, ih]

/-- `introspect_lossless_partial`: decoding the standard result gives back
    (1) the root operation types, (2) exactly the schema's types by name — a permutation: none missing, none
    invented —, (3) exactly the directives by name with their locations, and (4) every type reference of up to
    8 levels (`typeRef_lossless`).  Missing w.r.t. `Spec.LosslessStatement`: the record-by-record equality of
    fields / arguments / enum values / descriptions / deprecation (checked by execution on every run). -/
theorem introspect_lossless_partial (s : SchemaD) :
    (schemaOfIntrospection (introspect s true)).query = s.query
    ∧ (schemaOfIntrospection (introspect s true)).mutation = s.mutation
    ∧ (schemaOfIntrospection (introspect s true)).subscription = s.subscription
    ∧ ((schemaOfIntrospection (introspect s true)).types.map (·.name)).Perm (s.types.map (·.name))
    ∧ ((schemaOfIntrospection (introspect s true)).directives.map (fun d => (d.name, d.locations))).Perm
        (s.directives.map (fun d => (d.name, d.locations))) := by
  have hq : ∀ o : Option String, rootOf (rootRef o) = o := by
    intro o; cases o <;> simp [rootOf, rootRef, J.strD, J.get?, J.asStr?]
  refine ⟨?_, ?_, ?_, ?_, ?_⟩
  · simp [schemaOfIntrospection, introspect, schemaJ, J.getD, J.get?, hq]
  · simp [schemaOfIntrospection, introspect, schemaJ, J.getD, J.get?, hq]
  · simp [schemaOfIntrospection, introspect, schemaJ, J.getD, J.get?, hq]
  · have : (schemaOfIntrospection (introspect s true)).types.map (·.name) = (sortBy (·.name) s.types).map (·.name) := by
      simp [schemaOfIntrospection, introspect, schemaJ, J.getD, J.get?, J.arrD, J.asArr?, List.map_map, Function.comp_def, typeOf_name]
    rw [this]
    exact (sortBy_perm _ _).map _
  · have : (schemaOfIntrospection (introspect s true)).directives.map (fun d => (d.name, d.locations))
        = (sortBy (·.name) s.directives).map (fun d => (d.name, d.locations)) := by
      simp [schemaOfIntrospection, introspect, schemaJ, J.getD, J.get?, J.arrD, J.asArr?, List.map_map, Function.comp_def,
        directiveOf_name_locs]
    rw [this]
    exact (sortBy_perm _ _).map _

/-- non-vacuity of the depth hypothesis and of the decoder on a concrete description -/
example : tyOfRef typeRefLevels (typeRef { types := [{ kind := .scalar, name := "Int" }] } typeRefLevels (.nonNull (.list (.nonNull (.named "Int")))))
    = .nonNull (.list (.nonNull (.named "Int"))) := by decide

end PyGql.Props.C15

/-
  C20 — "no breaking change reported ⇒ operations stay valid": **VariablesInAllowedPosition (5.8.5, as implemented)**
  is preserved: `nobreaking_variablesInAllowedPosition`.

  Every usage `($x, position)` of the document on the NEW schema corresponds to a usage of the same variable in the
  same definition on the OLD schema whose position expects an at-least-as-strict type (`URel`: `sub old new`, and a
  default that made a non-null position optional is kept) — through argument positions (`argPos_rel`), list items
  (`listItemPos_rel`) and input object fields (`objFieldPos_rel`), at any nesting depth (`usesValue_rel`).
  At an input position `Schema.is_subtype` is the structural strictness order (`isSubtype_eq_sub`: scalars, enums and
  input objects have no subtypes), which is transitive: `vt ≤ old ≤ new`.

  Besides the hypotheses of `nobreaking_valuesOfCorrectType`, the statement needs ValuesOfCorrectType ITSELF on the
  old schema: an object literal with an UNDEFINED field `{ f(a: {nope: $v}) }` has no expected type for `$v`
  (nothing is checked); adding an optional input field `nope` is not breaking, and then `$v` is checked against it.
-/
import PyGqlModel.Lemmas.C20VarUsages

set_option linter.unusedSimpArgs false
set_option linter.unusedVariables false
set_option linter.unusedSectionVars false

namespace PyGql.Props.C20
open PyGql PyGql.Differ PyGql.Diff PyGql.Validate PyGql.Validate.Spec

/-! ### the rule -/

private theorem varDefFor_node (d : Doc) (op x : String) (vd : VarDef) (hvd : varDefFor d op x = some vd) :
    Node.varDef vd ∈ nodes d := by
  unfold varDefFor at hvd
  have hm := List.mem_of_find?_eq_some hvd
  rw [List.mem_reverse] at hm
  obtain ⟨df, hdf, hin⟩ := List.mem_flatMap.mp hm
  unfold nodes
  apply List.mem_cons_of_mem
  apply List.mem_flatMap.mpr
  refine ⟨df, hdf, ?_⟩
  by_cases hk : df.opKey? = some op
  · rw [if_pos hk] at hin
    cases df with
    | op kind name vars dirs ssid sels =>
      have hin' : vd ∈ vars := hin
      unfold defNodes
      apply List.mem_cons_of_mem
      apply List.mem_append_left
      apply List.mem_append_left
      exact List.mem_flatMap.mpr ⟨vd, hin', by unfold varDefNodes; exact List.mem_cons_self⟩
    | frag name on dirs ssid sels => simp [Def.vars] at hin
    | ts a b => simp [Def.vars] at hin
  · rw [if_neg hk] at hin; simp at hin

/-- **VariablesInAllowedPosition (5.8.5, as implemented) is preserved**: with no BREAKING change reported, every
    variable usage of a document valid on the old schema is still allowed at its position. -/
theorem nobreaking_variablesInAllowedPosition (o n : SchemaD) (h : diffSchema o n 2 = []) (wo : OldWf o)
    (wn : NewWf n) (woi : OldWfIn o) (fx : Fixes) (hv9 : fx.v9 = true) (d : Doc) (hR : OpsRooted o d)
    (hv : SchemaRules o d) (hval : valuesOfCorrectType o fx d) (hpos : variablesInAllowedPosition o d) :
    variablesInAllowedPosition n d := by
  intro op x u' vd hused hvd
  -- the corresponding usage on the old schema
  have hex : ∃ u, UsedAt o d op x u ∧ URel o u u' := by
    rcases hused with ⟨df, hdf, hk, hm⟩ | ⟨f, hreach, df, hdf, hk, hm⟩
    · obtain ⟨u, hu, hrel⟩ := defUsages_rel o n h wo wn woi fx hv9 d hR hv hval df hdf x u' hm
      exact ⟨u, Or.inl ⟨df, hdf, hk, hu⟩, hrel⟩
    · obtain ⟨u, hu, hrel⟩ := defUsages_rel o n h wo wn woi fx hv9 d hR hv hval df hdf x u' hm
      exact ⟨u, Or.inr ⟨f, hreach, df, hdf, hk, hu⟩, hrel⟩
  obtain ⟨u, hu, hin, hloc⟩ := hex
  have hold := hpos op x u vd hu hvd
  -- the declared type exists on both schemas
  obtain ⟨t, ht, _⟩ := hv.variablesAreInputTypes _ (varDefFor_node d op x vd hvd) vd rfl
  have hto : typeFromAst o vd.type = some vd.type := by
    unfold typeFromAst at ht ⊢
    by_cases hf : (o.findType vd.type.base).isSome = true
    · rw [if_pos hf]
    · rw [if_neg hf] at ht; cases ht
  intro it' hit' vt hvt
  have hvt' : vt = vd.type := by
    unfold typeFromAst at hvt
    by_cases hf : (n.findType vd.type.base).isSome = true
    · rw [if_pos hf] at hvt; exact (Option.some.inj hvt).symm
    · rw [if_neg hf] at hvt; cases hvt
  subst hvt'
  rcases hin with ⟨_, hy⟩ | ⟨it, it2, hx, hy, hl, hi⟩
  · rw [hy] at hit'; cases hit'
  · rw [hy] at hit'
    cases hit'
    have hold' := hold it hx vd.type hto
    cases hnn : vd.type.isNonNull with
    | true =>
      -- a non-null variable: plain subtype test on both sides
      have hs : isSubtype o vd.type it = true := by
        cases it with
        | nonNull inner => simpa [hnn] using hold'
        | named a => simpa using hold'
        | list a => simpa using hold'
      have hs' := isSubtype_transport o n h vd.type it _ hl hi hs
      cases it' with
      | nonNull inner' => simpa [hnn] using hs'
      | named a => simpa using hs'
      | list a => simpa using hs'
    | false =>
      cases it with
      | nonNull inner =>
        have ho : (vd.hasNonNullDefault = true ∨ u.locDefault = true) ∧ isSubtype o vd.type inner = true := by
          simpa [hnn] using hold'
        have hi2 : isInputTy o inner = true := hi
        cases it' with
        | nonNull inner' =>
          have hl2 : TyLoose inner inner' := by
            refine ⟨by simpa [sub] using hl.1, ?_⟩
            rcases hl.2 with e | hw
            · left; injection e
            · right; simp [Ty.wf] at hw; exact hw.2
          have hs' := isSubtype_transport o n h vd.type inner inner' hl2 hi2 ho.2
          have hd : vd.hasNonNullDefault = true ∨ u'.locDefault = true := by
            rcases ho.1 with hd | hd
            · exact Or.inl hd
            · exact Or.inr (hloc inner' hy hd)
          simpa [hnn] using And.intro hd hs'
        | named a =>
          have hl2 : TyLoose inner (.named a) := by
            refine ⟨by simpa [sub] using hl.1, ?_⟩
            rcases hl.2 with e | hw
            · cases e
            · right; simp [Ty.wf] at hw; exact hw.2
          have hs' := isSubtype_transport o n h vd.type inner _ hl2 hi2 ho.2
          simpa using hs'
        | list a =>
          have hl2 : TyLoose inner (.list a) := by
            refine ⟨by simpa [sub] using hl.1, ?_⟩
            rcases hl.2 with e | hw
            · cases e
            · right; simp [Ty.wf] at hw; exact hw.2
          have hs' := isSubtype_transport o n h vd.type inner _ hl2 hi2 ho.2
          simpa using hs'
      | named a =>
        have hs : isSubtype o vd.type (.named a) = true := by simpa using hold'
        have hs' := isSubtype_transport o n h vd.type _ _ hl hi hs
        cases it' with
        | nonNull inner' => have := hl.1; simp [sub] at this
        | named b => simpa using hs'
        | list b => simpa using hs'
      | list a =>
        have hs : isSubtype o vd.type (.list a) = true := by simpa using hold'
        have hs' := isSubtype_transport o n h vd.type _ _ hl hi hs
        cases it' with
        | nonNull inner' => have := hl.1; simp [sub] at this
        | named b => simpa using hs'
        | list b => simpa using hs'

end PyGql.Props.C20

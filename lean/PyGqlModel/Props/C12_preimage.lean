/-
  C12 at TEXT level — EVERY pre-image: audit 3, finding F9.

  `TextRoundtrip` / `text_roundtrip_final` say `∃ doc, docToAst doc = some d ∧ build doc = …` where `d` is the parsed
  tree.  `docToAst` is not injective (it drops `f = repr(float(text))` of the number literals, which `build` USES for
  `Float` defaults, and the member lists that are not of a definition's kind), so those theorems speak about SOME
  pre-image of the tree — the printer's own.  Here:

  * `SdlText.astToDoc ρ` (model file `SdlAstToDoc.lean`) is the conversion tree → document as a FUNCTION of the tree,
    with `ρ` for Python's `repr(float(·))` (a parameter: the theorems hold for every `ρ` that agrees with the printer
    on the printed numerals — hypothesis `CanonDoc ρ (printedDoc s)`, reduced to the printed default literals by
    `canonDoc_schemaToDoc`);
  * `docToAst_left_inverse`: `astToDoc ρ (docToAst doc) = reDoc ρ doc` — so `docToAst` drops NOTHING but what the
    normaliser `reDoc ρ` overwrites (`docToAst_drops_only`), and it is INJECTIVE on the documents that are canonical for
    `ρ` (`docToAst_injective_on_canon`);
  * `text_roundtrip_every_preimage` (+ `_custom`): the printed text parses to a tree `d`; the document the conversion makes
    of `d` — and EVERY canonical document whose tree is `d` — builds the schema.  No existential over documents is left;
  * `print_fixpoint_every_preimage`: … and re-printing what that document builds gives the same text.
  What is still assumed: `ρ` itself (`repr ∘ float`) is not modelled; `CanonDoc ρ (printedDoc s)` asks `ρ v = f` for ALL
  printed numerals, including those at `ID` / custom-scalar positions where `build` does not read `f` (there `f = v ++ ".0"`,
  which Python's `repr(float(v))` is only for |v| < 2^53 / 1e16).
-/
import PyGqlModel.Lemmas.SdlAstToDocInv
import PyGqlModel.Props.C12_fixpoint
namespace PyGql.Props.C12
open PyGql PyGql.Sdl PyGql.SdlPrint PyGql.SdlText

/-- **docToAst_left_inverse** — the conversion tree → document inverts `docToAst` up to the normaliser: what a document's
    tree is converted to is the document with every `f` replaced by `ρ v` and only the member lists of each kind kept -/
theorem docToAst_left_inverse (ρ : String → String) (doc : Doc) (d : Ast.Document) (h : docToAst doc = some d) :
    astToDoc ρ d = reDoc ρ doc := astToDoc_docToAst ρ doc d h

/-- **docToAst_drops_only** — two documents with the same tree differ only in what the normaliser overwrites -/
theorem docToAst_drops_only (ρ : String → String) (doc₁ doc₂ : Doc) (d : Ast.Document) (h₁ : docToAst doc₁ = some d)
    (h₂ : docToAst doc₂ = some d) : reDoc ρ doc₁ = reDoc ρ doc₂ := by
  rw [← astToDoc_docToAst ρ doc₁ d h₁, ← astToDoc_docToAst ρ doc₂ d h₂]

/-- **docToAst_injective_on_canon** — on the documents canonical for `ρ` (the image of the conversion) `docToAst` is injective -/
theorem docToAst_injective_on_canon (ρ : String → String) (doc₁ doc₂ : Doc) (d : Ast.Document) (h₁ : docToAst doc₁ = some d)
    (h₂ : docToAst doc₂ = some d) (c₁ : CanonDoc ρ doc₁) (c₂ : CanonDoc ρ doc₂) : doc₁ = doc₂ := by
  have := docToAst_drops_only ρ doc₁ doc₂ d h₁ h₂
  rwa [c₁, c₂] at this

/-- THE STATEMENT (F9): for every `ρ` that agrees with the printer on the printed document, the text parses to a tree
    whose conversion builds the schema; and so does every canonical document with that tree -/
def TextRoundtripEveryPreimage (o : SdlPrintT.OptsT) (s : SchemaD) : Prop :=
  ∀ ρ : String → String, CanonDoc ρ (printedDoc s) →
    ∃ d : Ast.Document, parseSdlTextT (SdlPrintT.printSchemaT o s) = some d ∧ build (astToDoc ρ d) = .ok (printOrder s) ∧
      ∀ doc : Doc, docToAst doc = some d → CanonDoc ρ doc → build doc = .ok (printOrder s)

/-- **text_roundtrip_every_preimage** — the statement, for the schemas of `text_roundtrip_final` -/
theorem text_roundtrip_every_preimage (o : SdlPrintT.OptsT) (s : SchemaD) (hwf : printTextWF o s = true)
    (hb : printBuildWF s = true) : TextRoundtripEveryPreimage o s := by
  intro ρ hc
  obtain ⟨d, doc, h1, h2, h3⟩ := text_roundtrip o s hwf (printBuildWF_printOrder s hb)
  have hp : docToAst (printedDoc s) = some d := by
    rw [← print_schema_text_parses o s hwf]; exact h1
  have hbuild : build (printedDoc s) = .ok (printOrder s) := print_build_roundtrip _ (printBuildWF_printOrder s hb)
  refine ⟨d, h1, ?_, ?_⟩
  · rw [astToDoc_docToAst ρ _ d hp, hc]; exact hbuild
  · intro doc' hd' hc'
    rw [docToAst_injective_on_canon ρ doc' (printedDoc s) d hd' hp hc' hc]; exact hbuild

/-- **text_roundtrip_custom_every_preimage** — with applied directives (the document of `text_roundtrip_custom_build`) -/
theorem text_roundtrip_custom_every_preimage (c : SdlPrintTA.OptsA) (s : SchemaD) (apps : Apps)
    (hwf : SdlPrintTA.printTextWFA c s apps = true) (hb : printBuildWF s = true)
    (ρ : String → String) (hc : CanonDoc ρ (SdlPrintTA.printedDocA s c apps)) :
    ∃ d : Ast.Document, parseSdlTextT (SdlPrintTA.printSchemaTA c s apps) = some d ∧
      build (astToDoc ρ d) = .ok (printOrder s) ∧
      ∀ doc : Doc, docToAst doc = some d → CanonDoc ρ doc → build doc = .ok (printOrder s) := by
  obtain ⟨d, doc, h1, h2, h3, h4⟩ := text_roundtrip_custom_build c s apps hwf hb
  subst h3
  refine ⟨d, h1, ?_, ?_⟩
  · rw [astToDoc_docToAst ρ _ d h2, hc]; exact h4
  · intro doc' hd' hc'
    rw [docToAst_injective_on_canon ρ doc' _ d hd' h2 hc' hc]; exact h4

/-- **print_fixpoint_every_preimage** — the third clause of the property without an existential over documents:
    print → parse → convert → build → print is the identity on the printed text -/
theorem print_fixpoint_every_preimage (o : SdlPrintT.OptsT) (s : SchemaD) (hwf : printTextWF o s = true)
    (hb : printBuildWF s = true) (ρ : String → String) (hc : CanonDoc ρ (printedDoc s)) :
    ∃ (d : Ast.Document) (s' : SchemaD), parseSdlTextT (SdlPrintT.printSchemaT o s) = some d ∧
      build (astToDoc ρ d) = .ok s' ∧ SdlPrintT.printSchemaT o s' = SdlPrintT.printSchemaT o s ∧ SameUpToOrder s' s := by
  obtain ⟨d, h1, h2, _⟩ := text_roundtrip_every_preimage o s hwf hb ρ hc
  exact ⟨d, printOrder s, h1, h2, printSchemaT_order_independent o s (namesUnique_of_wf o s hwf),
    types_perm s, directives_perm s, rfl, rfl, rfl, rfl⟩

/-! ### `CanonDoc ρ (schemaToDoc s)` reduced to the printed default literals -/

/-- `ρ` agrees with the printer: every printed default literal is canonical for `ρ` (`f = ρ v` on its numerals) -/
def LitsCanon (ρ : String → String) (s : SchemaD) : Prop :=
  ∀ a ∈ allArgs s, a.hasDefault = true → ∀ l, valueLit s valueFuel a.default a.type = some l → reLit ρ l = l

/-- the decidable form `SdlText.litsCanonWF` (evaluated by the driver with Python's `repr(float(·))`) implies it -/
theorem litsCanon_of_wf (ρ : String → String) (s : SchemaD) (h : litsCanonWF ρ s = true) : LitsCanon ρ s := by
  intro a ha hd l hl
  have := List.all_eq_true.mp h a ha
  simp only [hd, hl, Bool.not_true, Bool.false_or] at this
  exact reLit_of_canonB ρ l this

private theorem map_eq_self {α} (f : α → α) : ∀ l : List α, (∀ x ∈ l, f x = x) → l.map f = l
  | [], _ => rfl
  | x :: xs, h => by rw [List.map_cons, h x (by simp), map_eq_self f xs (fun y hy => h y (by simp [hy]))]

private theorem reDir_deprDirs (ρ : String → String) (r : Option String) : (deprDirs r).map (reDir ρ) = deprDirs r := by
  cases r with
  | none => rfl
  | some x => by_cases h : (x.isEmpty || x == DEFAULT_DEPRECATION) = true <;> simp [deprDirs, h, reDir, reArg, reLit]

private theorem reInputVal_argToDef (ρ : String → String) (s : SchemaD) (a : ArgD)
    (h : a.hasDefault = true → ∀ l, valueLit s valueFuel a.default a.type = some l → reLit ρ l = l) :
    reInputVal ρ (argToDef s a) = argToDef s a := by
  by_cases hd : a.hasDefault = true
  · cases hl : valueLit s valueFuel a.default a.type with
    | none => simp [reInputVal, argToDef, hd, hl]
    | some l => simp [reInputVal, argToDef, hd, hl, h hd l hl]
  · simp [reInputVal, argToDef, hd]

private theorem reField_fieldToDef (ρ : String → String) (s : SchemaD) (f : FieldD)
    (h : ∀ a ∈ f.args, a.hasDefault = true → ∀ l, valueLit s valueFuel a.default a.type = some l → reLit ρ l = l) :
    reField ρ (fieldToDef s f) = fieldToDef s f := by
  have e : (f.args.map (argToDef s)).map (reInputVal ρ) = f.args.map (argToDef s) := by
    rw [List.map_map]; exact List.map_congr_left (fun a ha => reInputVal_argToDef ρ s a (h a ha))
  simp only [reField, fieldToDef, e, reDir_deprDirs]

private theorem reEnumVal_enumValToDef (ρ : String → String) (v : EnumValD) : reEnumVal ρ (enumValToDef v) = enumValToDef v := by
  simp only [reEnumVal, enumValToDef, reDir_deprDirs]

/-- **canonDoc_schemaToDoc** — the document the printer denotes is canonical for `ρ` as soon as every type populates the
    member lists of its kind only (`shapeOK`, a conjunct of `printBuildWF`) and `ρ` agrees with the printer on the
    printed default literals -/
theorem canonDoc_schemaToDoc (ρ : String → String) (s : SchemaD) (hs : ∀ t ∈ s.types, shapeOK t = true)
    (hl : LitsCanon ρ s) : CanonDoc ρ (schemaToDoc s) := by
  unfold CanonDoc reDoc schemaToDoc
  simp only [List.map_append, List.map_map]
  have hblock : (if needsSchemaBlock s then [Def.schema { ops := rootOps s }] else []).map (reDef ρ) =
      (if needsSchemaBlock s then [Def.schema { ops := rootOps s }] else []) := by
    split <;> simp [reDef]
  have hdirs : s.directives.map (reDef ρ ∘ fun d => Def.directive (directiveToDef s d)) =
      s.directives.map (fun d => Def.directive (directiveToDef s d)) := by
    apply List.map_congr_left
    intro d hd
    have e : (d.args.map (argToDef s)).map (reInputVal ρ) = d.args.map (argToDef s) := by
      rw [List.map_map]
      exact List.map_congr_left (fun a ha => reInputVal_argToDef ρ s a
        (hl a (by simp only [allArgs, List.mem_append, List.mem_flatMap]; exact Or.inl ⟨d, hd, ha⟩)))
    simp only [Function.comp, reDef, directiveToDef, e]
  have htypes : s.types.map (reDef ρ ∘ fun t => Def.type (typeToDef s t)) = s.types.map (fun t => Def.type (typeToDef s t)) := by
    apply List.map_congr_left
    intro t ht
    have hsh := hs t ht
    have ef : (t.fields.map (fieldToDef s)).map (reField ρ) = t.fields.map (fieldToDef s) := by
      rw [List.map_map]
      exact List.map_congr_left (fun f hf => reField_fieldToDef ρ s f (fun a ha => hl a (by
        simp only [allArgs, List.mem_append, List.mem_flatMap]
        exact Or.inr ⟨t, ht, Or.inl ⟨f, hf, ha⟩⟩)))
    have ei : (t.inputFields.map (argToDef s)).map (reInputVal ρ) = t.inputFields.map (argToDef s) := by
      rw [List.map_map]
      exact List.map_congr_left (fun a ha => reInputVal_argToDef ρ s a (hl a (by
        simp only [allArgs, List.mem_append, List.mem_flatMap]
        exact Or.inr ⟨t, ht, Or.inr ha⟩)))
    have ev : (t.values.map enumValToDef).map (reEnumVal ρ) = t.values.map enumValToDef := by
      rw [List.map_map]; exact List.map_congr_left (fun v _ => reEnumVal_enumValToDef ρ v)
    simp only [Function.comp, reDef]
    congr 1
    cases hk : t.kind <;>
      simp only [shapeOK, hk, Bool.and_eq_true, List.isEmpty_iff] at hsh <;>
      simp [reType, typeToDef, hk, ef, ei, ev, hsh]
  rw [hblock, hdirs, htypes]

/-! ### non-vacuity -/

/-- a `ρ` that is `repr(float(·))` on the numerals `shop` prints (`1.5`; integers) -/
def demoRepr (v : String) : String := if v == "1.5" then "1.5" else v ++ ".0"

example : CanonDoc demoRepr (printedDoc shop) :=
  canonDoc_schemaToDoc demoRepr (printOrder shop) (by decide) (litsCanon_of_wf _ _ (by decide))

example : TextRoundtripEveryPreimage {} shop := text_roundtrip_every_preimage {} shop (by decide) shop_wf
/-- … and a `ρ` that does NOT agree with the printer (`repr(float("1.5"))` wrong) is outside: the hypothesis is not vacuous -/
example : litsCanonWF (fun v => v ++ ".0") shop = false := by decide

end PyGql.Props.C12

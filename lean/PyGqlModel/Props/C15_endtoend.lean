/-
  C15 — `introspect_lossless` END TO END. `introspect_lossless` (Props/C15_lossless.lean) decodes the answer into a schema
  description, which has no slot for the `possibleTypes` of INTERFACES (they are derived data: the objects that declare the
  interface); `interface_possible_types_exact` (Props/C15_exact.lean) covers them type by type. Here the two are ONE
  statement about ONE decoder that reads every entry of the standard result (`Spec.decodeAll`):

      decodeAll (introspect s true) = (norm s, implementers s)            (`introspect_lossless_end_to_end`)

  for EVERY schema description whose type references fit the `TypeRef` levels of the standard query (`DepthOk`; the bound is
  tight, `typeRef_truncates_beyond_query_depth`, `end_to_end_needs_depth`) — in particular for every VALID one: validity
  (C13's `ValidSchema`) is not needed as a hypothesis and is deliberately not imported (a source edit that breaks C13's
  generated configuration must not take C15's theorems down); the depth bound cannot be dropped. Nothing is missing from
  the pieces.
-/
import PyGqlModel.Props.C15_exact

set_option linter.unusedSimpArgs false

namespace PyGql.Props.C15
open PyGql PyGql.Introspect PyGql.Introspect.Spec PyGql.Generated.Introspection

private theorem kind_of_fullType (s : SchemaD) (b : Bool) (t : TypeD) : kindOfString ((fullType s b t).strD "kind") = t.kind := by
  cases hk : t.kind <;>
    simp [fullType, J.strD, J.get?, J.asStr?, kindString, kindOfTag, typeKindTable, Kind.toString, kindOfString, Kind.ofString, hk]

private theorem name_of_fullType (s : SchemaD) (b : Bool) (t : TypeD) : (fullType s b t).strD "name" = t.name := by
  simp [fullType, J.strD, J.get?, J.asStr?]

private theorem filter_map_fullType (s : SchemaD) (b : Bool) (l : List TypeD) :
    (l.map (fullType s b)).filter (fun j => kindOfString (j.strD "kind") == .interface)
      = (l.filter fun t => t.kind == .interface).map (fullType s b) := by
  induction l with
  | nil => rfl
  | cons t l ih =>
    simp only [List.map_cons, List.filter_cons, kind_of_fullType]
    split <;> simp [ih]

/-- **the possible types of every interface, decoded**: per reported interface, exactly the object types that declare it
    (no depth hypothesis; deprecated members shown or hidden) -/
theorem interface_possible_types_decoded (s : SchemaD) (incl : Bool) : interfacePossibleOf (introspect s incl) = implementers s := by
  have h0 : ((introspect s incl).getD "__schema").arrD "types" = (sortBy (·.name) s.types).map (fullType s incl) := by
    simp [introspect, schemaJ, J.getD, J.get?, J.arrD, J.asArr?]
  unfold interfacePossibleOf implementers
  rw [h0, filter_map_fullType, List.map_map]
  apply List.map_congr_left
  intro t ht
  have hk : t.kind = .interface := by
    have := (List.mem_filter.mp ht).2
    simpa using this
  have := (interface_possible_types_exact s incl t hk).1
  simp only [reportedPossible] at this
  simp [Function.comp_def, name_of_fullType, this]

/-- **introspect_lossless_end_to_end (FULL).** Decoding EVERYTHING the standard introspection query returns gives back the
    schema: its observable normal form `norm s` (types with kind, name, description, fields, arguments, input fields, enum
    values, interfaces, union members; directives with locations and arguments; root types; deprecation reasons; defaults as
    their printed text) and, for every interface, exactly its implementing object types. Nothing missing, nothing invented. -/
theorem introspect_lossless_end_to_end (s : SchemaD) (h : DepthOk s = true) :
    decodeAll (introspect s true) = (norm s, implementers s) := by
  unfold decodeAll
  rw [introspect_lossless s h, interface_possible_types_decoded]

private def nine : Ty := .list (.list (.list (.list (.list (.list (.list (.list (.named "Int"))))))))
private def deepSchema : SchemaD := { types := [{ kind := .object, name := "Q", fields := [{ name := "f", type := nine }] }] }

/-- the depth hypothesis cannot be dropped from the end-to-end statement either: a reference of nine levels is cut -/
theorem end_to_end_needs_depth :
    ∃ s : SchemaD, DepthOk s = false ∧ (decodeAll (introspect s true)).1 ≠ norm s := by
  refine ⟨deepSchema, by decide, ?_⟩
  intro h
  have := congrArg (fun d => (d.types.map fun t => t.fields.map fun f => f.type.base)) h
  revert this
  decide

/-- non-vacuity: interface `Node` implemented by `A` and `C`, a union, a deprecated field -/
example :
    let node : TypeD := { kind := .interface, name := "Node", fields := [{ name := "id", type := .named "ID" }] }
    let mk (n : String) (is : List String) : TypeD := { kind := .object, name := n, interfaces := is, fields := [{ name := "id", type := .named "ID", deprecated := some "old" }] }
    let s : SchemaD := { types := [mk "C" ["Node"], mk "B" [], mk "A" ["Node"], node, { kind := .union, name := "U", members := ["C", "A"] }], query := some "A" }
    DepthOk s = true ∧ (decodeAll (introspect s true)).2 = [("Node", ["A", "C"])] := by
  decide

end PyGql.Props.C15

/-
  C04 — locality in the world: the result computed under a response path depends on the resolver world only
  through calls whose response path lies under that path (`exec_world_congr`), hence changing the world at one
  field changes nothing at its siblings (`siblings_undisturbed_world`).
-/
import PyGqlModel.Exec

set_option linter.unusedSimpArgs false
set_option linter.unusedVariables false

namespace PyGql.Props.C04
open PyGql PyGql.Exec

/-- the two worlds agree on every resolver call whose response path extends `p` -/
def AgreeUnder (w w' : World) (p : Path) : Prop :=
  ∀ parent field rel args, w parent field (p ++ rel) args = w' parent field (p ++ rel) args

private theorem agreeUnder_snoc (w w' : World) (p : Path) (x : Seg) (h : AgreeUnder w w' p) : AgreeUnder w w' (p ++ [x]) := by
  intro parent field rel args
  have := h parent field (x :: rel) args
  simpa [List.append_assoc] using this

private theorem completeList_congr (f f' : Path → RVal → R (Data × List Err)) (path : Path)
    (h : ∀ i v, f (path ++ [.idx i]) v = f' (path ++ [.idx i]) v) :
    ∀ (vs : List RVal) (i : Nat), completeList f path i vs = completeList f' path i vs := by
  intro vs
  induction vs with
  | nil => intro i; simp [completeList]
  | cons v rest ih => intro i; simp [completeList, h, ih]

private theorem completeValue_congr (s : SchemaD) (e e' : String → Path → List Sel → R (Data × List Err)) (nodes : List FNode) :
    ∀ (t : Ty) (path : Path) (v : RVal),
      (∀ rel rt sels, e rt (path ++ rel) sels = e' rt (path ++ rel) sels) →
      completeValue s e nodes t path v = completeValue s e' nodes t path v := by
  intro t
  induction t with
  | named n =>
    intro path v he
    have he0 : ∀ rt sels, e rt path sels = e' rt path sels := fun rt sels => by simpa using he [] rt sels
    cases v <;> simp only [completeValue] <;> (try rfl)
    all_goals
      cases kindOf s n with
      | none => rfl
      | some k => cases k <;> simp only [he0]
  | list t ih =>
    intro path v he
    cases v with
    | list vs =>
      simp only [completeValue]
      rw [completeList_congr _ _ path (fun i v => ih (path ++ [.idx i]) v (fun rel rt sels => by
        simpa [List.append_assoc] using he (.idx i :: rel) rt sels)) vs 0]
    | null => simp [completeValue]
    | leaf j => cases j <;> simp [completeValue]
    | obj rt => simp [completeValue]
    | raise vs msg ext =>
      simp only [completeValue]
      rw [completeList_congr _ _ path (fun i v => ih (path ++ [.idx i]) v (fun rel rt sels => by
        simpa [List.append_assoc] using he (.idx i :: rel) rt sels)) vs 0]
  | nonNull t ih =>
    intro path v he
    simp only [completeValue, ih path v he]

private theorem executeGroups_congr (s : SchemaD) (w w' : World) (e e' : String → Path → List Sel → R (Data × List Err))
    (parent : String) (path : Path) (hw : AgreeUnder w w' path)
    (he : ∀ rel rt sels, e rt (path ++ rel) sels = e' rt (path ++ rel) sels) :
    ∀ g : Grouped, executeGroups s w e parent path g = executeGroups s w' e' parent path g := by
  intro g
  induction g with
  | nil => simp [executeGroups]
  | cons kv rest ih =>
    obtain ⟨key, nodes⟩ := kv
    cases nodes with
    | nil => simp [executeGroups]
    | cons node more =>
      simp only [executeGroups, ih]
      split
      · rfl
      · cases fieldOf s parent node.name with
        | none => rfl
        | some fd =>
          have hcv : ∀ v, completeValue s e (node :: more) fd.type (path ++ [.key key]) v
              = completeValue s e' (node :: more) fd.type (path ++ [.key key]) v := fun v =>
            completeValue_congr s e e' _ fd.type _ v (fun rel rt sels => by
              simpa [List.append_assoc] using he (.key key :: rel) rt sels)
          have hwk : ∀ a, w parent fd.name (path ++ [.key key]) a = w' parent fd.name (path ++ [.key key]) a := fun a => by
            simpa using hw parent fd.name [.key key] a
          simp only [resolveField, hwk, hcv]

/-- **exec_world_congr**: what is computed under a response path depends on the world only under that path. -/
theorem exec_world_congr (s : SchemaD) (doc : Doc) (vars : Vars) (w w' : World) (cf : Nat) :
    ∀ (fuel : Nat) (parent : String) (path : Path) (sels : List Sel), AgreeUnder w w' path →
      executeFields s doc vars w cf fuel parent path sels = executeFields s doc vars w' cf fuel parent path sels := by
  intro fuel
  induction fuel with
  | zero => intro parent path sels _; simp [executeFields]
  | succ n ih =>
    intro parent path sels hw
    simp only [executeFields]
    have : ∀ g, executeGroups s w (executeFields s doc vars w cf n) parent path g
        = executeGroups s w' (executeFields s doc vars w' cf n) parent path g :=
      executeGroups_congr s w w' _ _ parent path hw (fun rel rt sels => ih rt (path ++ rel) sels (by
        intro p f rel' a
        simpa [List.append_assoc] using hw p f (rel ++ rel') a))
    simp only [this]

/-- the worlds differ at most under the response path `p` -/
def AgreeOutside (w w' : World) (p : Path) : Prop :=
  ∀ parent field q args, ¬ (p <+: q) → w parent field q args = w' parent field q args

private theorem key_paths_diverge (path rel : Path) (k k' : String) (hne : k' ≠ k) :
    ¬ ((path ++ [Seg.key k]) <+: ((path ++ [Seg.key k']) ++ rel)) := by
  intro h
  obtain ⟨t, ht⟩ := h
  simp [List.append_assoc] at ht
  exact hne ht.1.symm

/-- **siblings_undisturbed_world**: change the resolver world anywhere under the response path of ONE field
    (`path ++ [key k]`): every other response key of that selection set gets exactly the same data and the same
    errors (the groups before and after `k` are evaluated to identical results). With `siblings_undisturbed`
    (compositionality) the whole object differs only in the entry of `k`. -/
theorem siblings_undisturbed_world (s : SchemaD) (doc : Doc) (vars : Vars) (w w' : World) (cf n : Nat)
    (parent : String) (path : Path) (k : String) (hw : AgreeOutside w w' (path ++ [.key k]))
    (g : Grouped) (hk : k ∉ g.map (·.1)) :
    executeGroups s w (executeFields s doc vars w cf n) parent path g
      = executeGroups s w' (executeFields s doc vars w' cf n) parent path g := by
  induction g with
  | nil => simp [executeGroups]
  | cons kv rest ih =>
    obtain ⟨key, nodes⟩ := kv
    have hne : key ≠ k := fun e => hk (by simp [e])
    have hrest : k ∉ rest.map (·.1) := fun h => hk (by simp [h])
    cases nodes with
    | nil => simp [executeGroups]
    | cons node more =>
      simp only [executeGroups, ih hrest]
      split
      · rfl
      · cases fieldOf s parent node.name with
        | none => rfl
        | some fd =>
          have hag : AgreeUnder w w' (path ++ [.key key]) := by
            intro p f rel a
            exact hw p f _ a (key_paths_diverge path rel k key hne)
          have hcv : ∀ v, completeValue s (executeFields s doc vars w cf n) (node :: more) fd.type (path ++ [.key key]) v
              = completeValue s (executeFields s doc vars w' cf n) (node :: more) fd.type (path ++ [.key key]) v := fun v =>
            completeValue_congr s _ _ _ fd.type _ v (fun rel rt sels =>
              exec_world_congr s doc vars w w' cf n rt _ sels (by
                intro p f rel' a
                have := hag p f (rel ++ rel') a
                simpa [List.append_assoc] using this))
          have hwk : ∀ a, w parent fd.name (path ++ [.key key]) a = w' parent fd.name (path ++ [.key key]) a := fun a => by
            simpa using hag parent fd.name [] a
          simp only [resolveField, hwk, hcv]

end PyGql.Props.C04

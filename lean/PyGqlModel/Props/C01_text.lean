/-
  C01, text level: lexer ∘ parser — "a text is accepted exactly when it derives from the grammar", obtained by
  composing LANG-1's lexical characterisation (`lexAll_ok_iff`: `lexAll` accepts exactly the tiled texts) with LANG-2's
  token-level `parse_text_accepts_iff_partial` / `parse_text_result_partial`.
-/
import PyGqlModel.Props.C01_lex
import PyGqlModel.Props.C01_parse

namespace PyGql.Props.C01
open PyGql PyGql.Parse PyGql.Ast PyGql.Spec
open PyGql.Spec.Lexical (Tiles)

/-- `parse_text_accepts_iff`: `parse(text)` succeeds EXACTLY when the text is a tiling — ignored runs (white space,
    line terminators, commas, BOMs, comments) and complete lexemes of the lexical grammar, each obeying its follow
    restriction — whose token list is derived by a well-formed document of the June-2018 grammar (under the given
    flags). No lexer or parser function occurs on the right-hand side: it is the specification only. -/
theorem parse_text_accepts_iff (fl : Flags) (s : Text) :
    (∃ d, parseText fl s = some d) ↔
      ∃ body d, Tiles s.length s body ∧ wfDocument fl d = true ∧ Matches fl [documentV d] (Lex.sofTok :: body) := by
  rw [parse_text_accepts_iff_partial]
  constructor
  · rintro ⟨toks, d, hl, w, m⟩
    obtain ⟨body, rfl, ht⟩ := (lexAll_ok_iff s toks).mp hl
    exact ⟨body, d, ht, w, m⟩
  · rintro ⟨body, d, ht, w, m⟩
    exact ⟨_, d, (lexAll_ok_iff s _).mpr ⟨body, rfl, ht⟩, w, m⟩

/-- and the tree returned for an accepted text is the well-formed document matched by the tiling's tokens -/
theorem parse_text_result (fl : Flags) (s : Text) (d : Document) :
    parseText fl s = some d ↔
      ∃ body, Tiles s.length s body ∧ wfDocument fl d = true ∧ Matches fl [documentV d] (Lex.sofTok :: body) := by
  rw [parse_text_result_partial]
  constructor
  · rintro ⟨toks, hl, w, m⟩
    obtain ⟨body, rfl, ht⟩ := (lexAll_ok_iff s toks).mp hl
    exact ⟨body, ht, w, m⟩
  · rintro ⟨body, ht, w, m⟩
    exact ⟨_, (lexAll_ok_iff s _).mpr ⟨body, rfl, ht⟩, w, m⟩

/-! ### the other two entry points at text level: `parse_value(text)` and `parse_type(text)` -/

/-- `parse_value(text)` returns `v` EXACTLY when the text is a tiling whose tokens are `SOF`, a derivation of the
    well-formed value `v` (variables allowed: `Value[~Const]`), `EOF` — specification only on the right-hand side. -/
theorem parse_value_text_result (fl : Flags) (s : Text) (v : Value) :
    parseValueText fl s = some v ↔
      ∃ body, Tiles s.length s body ∧ wfValue false v = true ∧ Matches fl [p .sof, valueV v, p .eof] (Lex.sofTok :: body) := by
  unfold parseValueText
  cases hl : Lex.lexAll s with
  | error e =>
    constructor
    · intro h; cases h
    · rintro ⟨body, ht, _⟩
      rw [(lexAll_ok_iff s _).mpr ⟨body, rfl, ht⟩] at hl; cases hl
  | ok toks =>
    obtain ⟨body, rfl, ht⟩ := (lexAll_ok_iff s toks).mp hl
    dsimp only
    constructor
    · intro h
      cases hp : parseValue fl (Lex.sofTok :: body) with
      | error e => rw [hp] at h; cases h
      | ok v' =>
        rw [hp] at h
        have : v' = v := by simpa [Except.toOption] using h
        subst this
        exact ⟨body, ht, parseValue_sound fl _ v' hp⟩
    · rintro ⟨body', ht', w, m⟩
      have e := (lexAll_ok_iff s _).mpr ⟨body', rfl, ht'⟩
      rw [hl] at e
      cases e
      rw [parseValue_complete fl _ v w m]; rfl

/-- `parse_type(text)` returns `t` exactly when the text is a tiling whose tokens are `SOF`, a derivation of the
    well-formed type `t`, `EOF`. -/
theorem parse_type_text_result (fl : Flags) (s : Text) (t : TypeRef) :
    parseTypeText fl s = some t ↔
      ∃ body, Tiles s.length s body ∧ wfType t = true ∧ Matches fl [p .sof, typeV t, p .eof] (Lex.sofTok :: body) := by
  unfold parseTypeText
  cases hl : Lex.lexAll s with
  | error e =>
    constructor
    · intro h; cases h
    · rintro ⟨body, ht, _⟩
      rw [(lexAll_ok_iff s _).mpr ⟨body, rfl, ht⟩] at hl; cases hl
  | ok toks =>
    obtain ⟨body, rfl, ht⟩ := (lexAll_ok_iff s toks).mp hl
    dsimp only
    constructor
    · intro h
      cases hp : parseType fl (Lex.sofTok :: body) with
      | error e => rw [hp] at h; cases h
      | ok v' =>
        rw [hp] at h
        have : v' = t := by simpa [Except.toOption] using h
        subst this
        exact ⟨body, ht, parseType_sound fl _ v' hp⟩
    · rintro ⟨body', ht', w, m⟩
      have e := (lexAll_ok_iff s _).mpr ⟨body', rfl, ht'⟩
      rw [hl] at e
      cases e
      rw [parseType_complete fl _ t w m]; rfl

/-- acceptance of the two entry points -/
theorem parse_value_text_accepts_iff (fl : Flags) (s : Text) :
    (∃ v, parseValueText fl s = some v) ↔
      ∃ body v, Tiles s.length s body ∧ wfValue false v = true ∧ Matches fl [p .sof, valueV v, p .eof] (Lex.sofTok :: body) :=
  ⟨fun ⟨v, h⟩ => let ⟨b, r⟩ := (parse_value_text_result fl s v).1 h; ⟨b, v, r⟩,
   fun ⟨b, v, r⟩ => ⟨v, (parse_value_text_result fl s v).2 ⟨b, r⟩⟩⟩

theorem parse_type_text_accepts_iff (fl : Flags) (s : Text) :
    (∃ t, parseTypeText fl s = some t) ↔
      ∃ body t, Tiles s.length s body ∧ wfType t = true ∧ Matches fl [p .sof, typeV t, p .eof] (Lex.sofTok :: body) :=
  ⟨fun ⟨t, h⟩ => let ⟨b, r⟩ := (parse_type_text_result fl s t).1 h; ⟨b, t, r⟩,
   fun ⟨b, t, r⟩ => ⟨t, (parse_type_text_result fl s t).2 ⟨b, r⟩⟩⟩

/-! ### the optional `{…}` blocks of type-system definitions are read greedily (known finding LA2, hunt2 C01/3)

    June 2018 has no `[lookahead ≠ {]`: `type A {b}` also derives as the block-less `type A` followed by the shorthand
    query `{b}`. The grammar specification of this development takes the reading of the library, graphql-js and the 2021
    text EXPLICITLY — `Spec.blockV`: an absent block is the item `nla .curlyL` — so `parse_text_accepts_iff` is an "iff"
    for that reading; the instances below show it on the model (the two sibling texts are two definitions). -/

private def tsFlags : Flags := { noLocation := true, allowTypeSystem := true, experimentalFragmentVariables := false }

/-- `type A {b}` is rejected … -/
example : (parseText tsFlags [116, 121, 112, 101, 32, 65, 32, 123, 98, 125]).isSome = false := by decide
/-- … while `scalar A {b}` and `type A query {b}` are two definitions -/
example : ((parseText tsFlags [115, 99, 97, 108, 97, 114, 32, 65, 32, 123, 98, 125]).map (·.definitions.length)) = some 2 := by decide
example : ((parseText tsFlags [116, 121, 112, 101, 32, 65, 32, 113, 117, 101, 114, 121, 32, 123, 98, 125]).map (·.definitions.length)) = some 2 := by decide

end PyGql.Props.C01

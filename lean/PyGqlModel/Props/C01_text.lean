/-
  C01, text level: lexer ∘ parser — "a text is accepted exactly when it derives from the grammar", obtained by
  composing LANG-1's lexical characterisation (`lexAll_ok_iff`: `lexAll` accepts exactly the tiled texts) with LANG-2's
  token-level `parse_text_accepts_iff_partial` / `parse_text_result_partial`.
-/
import PyGqlModel.Props.C01_lex
import PyGqlModel.Props.C01_parse

namespace PyGql.Props.C01
open PyGql PyGql.Parse PyGql.Ast PyGql.Spec
open PyGql.Spec.Lexical (Tiles)

/-- `parse_text_accepts_iff`: `parse(text)` succeeds EXACTLY when the text is a tiling — ignored runs (white space,
    line terminators, commas, BOMs, comments) and complete lexemes of the lexical grammar, each obeying its follow
    restriction — whose token list is derived by a well-formed document of the June-2018 grammar (under the given
    flags). No lexer or parser function occurs on the right-hand side: it is the specification only. -/
theorem parse_text_accepts_iff (fl : Flags) (s : Text) :
    (∃ d, parseText fl s = some d) ↔
      ∃ body d, Tiles s.length s body ∧ wfDocument fl d = true ∧ Matches fl [documentV d] (Lex.sofTok :: body) := by
  rw [parse_text_accepts_iff_partial]
  constructor
  · rintro ⟨toks, d, hl, w, m⟩
    obtain ⟨body, rfl, ht⟩ := (lexAll_ok_iff s toks).mp hl
    exact ⟨body, d, ht, w, m⟩
  · rintro ⟨body, d, ht, w, m⟩
    exact ⟨_, d, (lexAll_ok_iff s _).mpr ⟨body, rfl, ht⟩, w, m⟩

/-- and the tree returned for an accepted text is the well-formed document matched by the tiling's tokens -/
theorem parse_text_result (fl : Flags) (s : Text) (d : Document) :
    parseText fl s = some d ↔
      ∃ body, Tiles s.length s body ∧ wfDocument fl d = true ∧ Matches fl [documentV d] (Lex.sofTok :: body) := by
  rw [parse_text_result_partial]
  constructor
  · rintro ⟨toks, hl, w, m⟩
    obtain ⟨body, rfl, ht⟩ := (lexAll_ok_iff s toks).mp hl
    exact ⟨body, ht, w, m⟩
  · rintro ⟨body, ht, w, m⟩
    exact ⟨_, (lexAll_ok_iff s _).mpr ⟨body, rfl, ht⟩, w, m⟩

end PyGql.Props.C01

/-
  C06 - property theorems, part 31: **alpha_aliases for OverlappingFieldsCanBeMerged as /repo runs it**, hence for ALL 26
  RULES (`alpha_aliases_all26`) and for the verdict of the whole chain (`alpha_aliases_verdict_invariance_memo`).
  Route as in parts 29 / 30: `rule_overlapping_fields_memo_iff` + the clause of 5.3.2 along a simulation
  (`Lemmas/ValidateOverlapSimAl.lean`: `A.doc d` simulates `d`, response names mapped by `ρ`).

  The renaming must act INJECTIVELY on response names (`alpha_aliases_overlap_needs_injectivity`: giving `a` and `b` the
  same key creates a conflict). The overlap rule computes the response name with `responseName` (an empty alias is
  skipped), the single-root-field rule with `okey`; the two agree on documents without empty aliases (what the parser
  produces): `Al.RenamesOn` is stated for the fields of the document, `renamesOn_of_renames` derives it from
  `Al.Renames` for such documents.
-/
import PyGqlModel.Props.C06_inv12
import PyGqlModel.Lemmas.ValidateOverlapSimAl
namespace PyGql.Props.C06
open PyGql PyGql.Validate PyGql.Validate.Spec

/-- **the clause of 5.3.2 under a renaming of aliases that is injective on response names** -/
theorem overlap_clause_al (A : Al) (ρ : String → String) (hρ : ∀ a b, ρ a = ρ b → a = b) (s : SchemaD) (d : Doc)
    (hA : A.RenamesOn ρ d) :
    Spec.overlappingFieldsCanBeMerged s (A.doc d) ↔ Spec.overlappingFieldsCanBeMerged s d :=
  (A.ovSim ρ hρ s d hA).clause_iff.symm

theorem namesNonEmpty_al (A : Al) (d : Doc) : NamesNonEmpty (A.doc d) ↔ NamesNonEmpty d := by
  unfold NamesNonEmpty; rw [A.fragNames_doc]

/-- on documents without empty aliases, before and after the renaming, `Al.Renames` (response keys as the
    single-root-field rule computes them) gives `Al.RenamesOn` -/
theorem renamesOn_of_renames (A : Al) (ρ : String → String) (hA : A.Renames ρ) (d : Doc)
    (h : ∀ i sels, SelSet d i sels → ∀ al n args dirs hs id sub, Sel.field al n args dirs hs id sub ∈ sels →
      al ≠ some "" ∧ A.alias al n ≠ some "") : A.RenamesOn ρ d := by
  intro i sels hs al n args dirs hsb id sub hm
  obtain ⟨h1, h2⟩ := h i sels hs al n args dirs hsb id sub hm
  have key : ∀ (x : Option String), x ≠ some "" → responseName x n = okey x n := by
    intro x hx
    cases x with
    | none => rfl
    | some a =>
      have : a ≠ "" := fun e => hx (by rw [e])
      simp [responseName, okey, this]
  rw [key _ h2, key _ h1]
  exact hA al n

/-- **alpha_aliases for `OverlappingFieldsCanBeMergedChecker` as /repo runs it** -/
theorem alpha_aliases_overlap_memo (A : Al) (ρ : String → String) (hρ : ∀ a b, ρ a = ρ b → a = b) (s : SchemaD)
    (fx : Fixes) (h7 : fx.v7 = true) (d : Doc) (hA : A.RenamesOn ρ d) (hpa : Spec.ParentsAgree s d)
    (hne : NamesNonEmpty d) (hw : WfIds d) :
    (overlapMemoRun s fx (A.doc d)).1 = 0 ↔ (overlapMemoRun s fx d).1 = 0 := by
  have S := A.ovSim ρ hρ s d hA
  rw [rule_overlapping_fields_memo_iff s fx h7 d hpa (noEmptyName_of hne) hw,
    rule_overlapping_fields_memo_iff s fx h7 (A.doc d) (S.parentsAgree hpa)
      (noEmptyName_of ((namesNonEmpty_al A d).mpr hne)) ((A.wfIds d).mpr hw)]
  exact overlap_clause_al A ρ hρ s d hA

/-- the statement for the whole chain as /repo runs it, rule by rule -/
def FullStatement_alpha_aliases_all26 (A : Al) (s : SchemaD) (fx : Fixes) (d : Doc) : Prop :=
  ∀ r ∈ Rule.all, (SilentM s fx r (A.doc d) ↔ SilentM s fx r d)

/-- **alpha_aliases for ALL 26 RULES**, each rule alone, the overlap rule being the memoised one /repo runs: the
    renaming acts through an injective `ρ` on response keys (`Renames`: for SingleFieldSubscriptions; `RenamesOn`: for
    the overlap rule; 24 rules never read an alias) [ALONE-RUN statement, rule by rule: each rule visitor in a chain of its own; for the verdict of the chain `validate_ast` runs see `Props/C06_chain.lean: chainM_six_transformations`.] -/
theorem alpha_aliases_all26 (A : Al) (ρ : String → String) (hA : A.Renames ρ) (hρ : ∀ a b, ρ a = ρ b → a = b)
    (s : SchemaD) (fx : Fixes) (hfx : HeadVars fx) (d : Doc) (hA' : A.RenamesOn ρ d) (hpa : Spec.ParentsAgree s d)
    (hne : NamesNonEmpty d) (hw : WfIds d) : FullStatement_alpha_aliases_all26 A s fx d := by
  intro r _
  by_cases ho : r = .overlappingFieldsCanBeMerged
  · subst ho
    rw [silentM_overlap, silentM_overlap]
    exact alpha_aliases_overlap_memo A ρ hρ s fx hfx.2.2.2 d hA' hpa hne hw
  · rw [silentM_of_ne ho, silentM_of_ne ho]
    exact alpha_aliases_all25_partial A ρ hA hρ s fx d r ho

/-- **the VERDICT of the chain /repo runs is invariant under a renaming of aliases that is injective on response keys**
    (hypotheses on the document: those of the headline theorems) [About the CONJUNCTION OF THE 26 ALONE RUNS (`SilentM`); the same for the chain itself, `SkipNode` handling included: `Props/C06_chain.lean: chainM_six_transformations`, through `chainM_silent_iff_alone`.] -/
theorem alpha_aliases_verdict_invariance_memo (A : Al) (ρ : String → String) (hA : A.Renames ρ)
    (hρ : ∀ a b, ρ a = ρ b → a = b) (s : SchemaD) (fx : Fixes) (hfx : HeadVars fx) (hs : SchemaOutputs s) (d : Doc)
    (hd : DocOkM s d) (hA' : A.RenamesOn ρ d) :
    (∀ r ∈ Rule.all, SilentM s fx r (A.doc d)) ↔ (∀ r ∈ Rule.all, SilentM s fx r d) := by
  have hw : WfIds d := (wfIdsB_iff d).mp hd.checks.ids
  have h25 : ∀ r ∈ Rule.all, r ≠ .overlappingFieldsCanBeMerged → (Silent s fx r (A.doc d) ↔ Silent s fx r d) :=
    fun r _ ho => alpha_aliases_all25_partial A ρ hA hρ s fx d r ho
  have key : (∀ r ∈ Rule.all, r ≠ .overlappingFieldsCanBeMerged → Silent s fx r d) →
      ((overlapMemoRun s fx (A.doc d)).1 = 0 ↔ (overlapMemoRun s fx d).1 = 0) := by
    intro hsil
    have hnd : (Spec.fragNames d).Nodup :=
      (rule_unique_fragment_names_iff s fx d).mp (hsil .uniqueFragmentNames (by decide) (by decide))
    have hc : ∀ r ∈ Rule.all, r ≠ .overlappingFieldsCanBeMerged → SpecAll r s fx d := fun r hr ho =>
      (rule_iff_nonoverlap s fx hfx d hd.names hnd r (provedAll_complete r hr) ho).mp (hsil r hr ho)
    have hpa : Spec.ParentsAgree s d :=
      parentsAgree_of_rules s d hs (hc .scalarLeafs (by decide) (by decide))
        (hc .fragmentsOnCompositeTypes (by decide) (by decide)) ((noMetaSubsB_iff d).mp hd.checks.noMeta) hw
    exact alpha_aliases_overlap_memo A ρ hρ s fx hfx.2.2.2 d hA' hpa hd.names hw
  constructor
  · intro h
    have hsil : ∀ r ∈ Rule.all, r ≠ .overlappingFieldsCanBeMerged → Silent s fx r d := fun r hr ho =>
      (h25 r hr ho).mp ((silentM_of_ne ho).mp (h r hr))
    intro r hr
    by_cases ho : r = .overlappingFieldsCanBeMerged
    · subst ho; exact silentM_overlap.mpr ((key hsil).mp (silentM_overlap.mp (h _ hr)))
    · exact (silentM_of_ne ho).mpr (hsil r hr ho)
  · intro h
    have hsil : ∀ r ∈ Rule.all, r ≠ .overlappingFieldsCanBeMerged → Silent s fx r d := fun r hr ho =>
      (silentM_of_ne ho).mp (h r hr)
    intro r hr
    by_cases ho : r = .overlappingFieldsCanBeMerged
    · subst ho; exact silentM_overlap.mpr ((key hsil).mpr (silentM_overlap.mp (h _ hr)))
    · exact (silentM_of_ne ho).mpr ((h25 r hr ho).mpr (hsil r hr ho))

/-! ### non-vacuity and necessity of injectivity -/

/-- the suffix renaming of `Props/C06_inv6.lean` on `{ ...A ...B } fragment A on Query { x: a } fragment B on Query { x: a }` -/
theorem renamesOn_frag : suffixAl.RenamesOn (· ++ "_") (oDocFrag "a") := by
  intro i sels hs al n args dirs hsb id sub hm
  simp [SelSet, nodes, oDocFrag, opV, fragQ, sp, fld, defNodes, selsNodes, selNodes, argsNodes, dirsNodes] at hs
  rcases hs with ⟨_, rfl⟩ | ⟨_, rfl⟩ | ⟨_, rfl⟩
  · simp [sp] at hm
  · simp only [fld, List.mem_singleton, Sel.field.injEq] at hm
    obtain ⟨rfl, rfl, _⟩ := hm
    decide
  · simp only [fld, List.mem_singleton, Sel.field.injEq] at hm
    obtain ⟨rfl, rfl, _⟩ := hm
    decide

example : FullStatement_alpha_aliases_all26 suffixAl oSchema Fixes.all (oDocFrag "a") :=
  alpha_aliases_all26 suffixAl _ suffixAl_renames suffix_inj oSchema Fixes.all headVars_all (oDocFrag "a")
    renamesOn_frag (parentsAgree_frag "a") (by unfold NamesNonEmpty; decide) (by rw [← wfIdsB_iff]; decide)

/-- injectivity on response names is needed: `{ a b }` is accepted; giving both fields the key `k` creates the conflict
    "a and b are different fields" -/
theorem alpha_aliases_overlap_needs_injectivity :
    (overlapMemoRun oSchema Fixes.all ⟨[opV [] 1 [fld none "a", fld none "b"]]⟩).1 = 0 ∧
    0 < (overlapMemoRun oSchema Fixes.all
      ((⟨fun _ _ => some "k"⟩ : Al).doc ⟨[opV [] 1 [fld none "a", fld none "b"]]⟩)).1 := by
  decide +kernel

end PyGql.Props.C06

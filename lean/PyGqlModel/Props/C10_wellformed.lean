/-
  C10 — property theorems, part 3: `response_wellformed` for every stage outcome.
-/
import PyGqlModel.Response
import PyGqlModel.Spec.ResponseSpec
import PyGqlModel.Props.C10

namespace PyGql.Props.C10
open PyGql PyGql.Response PyGql.Spec.Response PyGql.Generated.ResponseKeys

/-! #### strictness helpers -/

private theorem strictList_of_forall : ∀ (l : List J), (∀ j ∈ l, strict j = true) → strictList l = true
  | [], _ => by simp [strictList]
  | x :: xs, h => by
    simp only [strictList, Bool.and_eq_true]
    exact ⟨h x (by simp), strictList_of_forall xs (fun j hj => h j (by simp [hj]))⟩

private theorem strictKvs_append : ∀ (a b : List (String × J)), strictKvs (a ++ b) = (strictKvs a && strictKvs b)
  | [], b => by simp [strictKvs]
  | (k, v) :: r, b => by simp [strictKvs, strictKvs_append r b, Bool.and_assoc]

private theorem strict_locJ (a b : String) (lc : Nat × Nat) : strict (locJ a b lc) = true := by
  simp [locJ, strict, strictKvs, J.ofNat]

private theorem strict_segs (p : Path) : strictList (p.map Seg.toJ) = true := by
  apply strictList_of_forall
  intro j hj
  simp only [List.mem_map] at hj
  obtain ⟨s, _, rfl⟩ := hj
  cases s <;> simp [Seg.toJ, strict, J.ofNat]

/-- the error is a `GraphQLSyntaxError` (the only class whose `to_dict` spells the column key `syntaxColKey`) -/
def _root_.PyGql.Response.Err.isSyntax : Err → Bool
  | .syntax _ _ => true
  | _ => false

/-! #### locations -/

private theorem locationOk_locJ (K : String) (k : String) (hk : k = "column" ∨ k = K) (text : Text) (pos : Nat) (lc : Nat × Nat)
    (h : indexToLoc text pos = some lc) : locationOk K text (locJ "line" k lc) = true := by
  have hpos : pos ≤ text.length := (index_to_loc_total_iff text pos).mp (by simp [h])
  obtain ⟨l, c, h2, hin⟩ := loc_bounds text pos hpos
  rw [h] at h2
  cases h2
  have hk' : (k == "column" || k == K) = true := by
    rcases hk with rfl | rfl <;> simp
  simp [locJ, locationOk, J.ofNat, hk', hin]

private theorem mapM_locs (K : String) (text : Text) : ∀ (ps : List Nat) (locs : List (Nat × Nat)),
    ps.mapM (indexToLoc text) = some locs →
    ∀ j ∈ locs.map (locJ locatedLineKey locatedColKey), locationOk K text j = true ∧ strict j = true
  | [], locs, h => by simp at h; subst h; simp
  | p :: ps, locs, h => by
    simp only [List.mapM_cons, Option.bind_eq_bind] at h
    cases h1 : indexToLoc text p with
    | none => simp [h1] at h
    | some lc =>
      cases h2 : ps.mapM (indexToLoc text) with
      | none => simp [h1, h2] at h
      | some rest =>
        simp [h1, h2] at h
        subst h
        intro j hj
        simp only [List.map_cons, List.mem_cons] at hj
        rcases hj with rfl | hj
        · exact ⟨locationOk_locJ K locatedColKey (Or.inl rfl) text p lc h1, strict_locJ _ _ _⟩
        · exact mapM_locs K text ps rest h2 j hj

/-! #### one error -/

/-- what an error object must satisfy for `to_dict` to be defined and well-formed: its positions lie
    inside the text (`≤ len`; finding L6 is a syntax error with position `len + 1`) and
    resolver-supplied extensions are strict JSON -/
def ErrOk (text : Text) : Err → Prop
  | .syntax _ p => p ≤ text.length
  | .located _ ns _ => ∀ n ∈ ns.filterMap id, n ≤ text.length
  | .resolver _ ns _ ext => (∀ n ∈ ns.filterMap id, n ≤ text.length) ∧ (∀ kvs, ext = some kvs → strict (.obj kvs) = true)
  | .execution _ => True

private theorem mapM_total (text : Text) : ∀ (ps : List Nat), (∀ n ∈ ps, n ≤ text.length) →
    ∃ locs, ps.mapM (indexToLoc text) = some locs
  | [], _ => ⟨[], by simp⟩
  | p :: ps, h => by
    obtain ⟨l, c, h1, _⟩ := loc_bounds text p (h p (by simp))
    obtain ⟨rest, h2⟩ := mapM_total text ps (fun n hn => h n (by simp [hn]))
    exact ⟨(l, c) :: rest, by simp [h1, h2]⟩

private theorem located_ok (K : String) (text : Text) (msg : String) (ns : List (Option Nat)) (path : Option Path)
    (h : ∀ n ∈ ns.filterMap id, n ≤ text.length) :
    ∃ kvs, locatedDict text msg ns path = some kvs ∧
      errorOk K text (.obj kvs) = true ∧ strictKvs kvs = true ∧
      kvs.head? = some ("message", .str msg) ∧ (kvs.all fun kv => kv.1 != "extensions") = true := by
  obtain ⟨locs, hl⟩ := mapM_total text _ h
  have hlocs := mapM_locs K text _ locs hl
  unfold locatedDict
  simp only [hl, locatedKeepsEmptyMessage, Bool.or_true, if_true]
  refine ⟨_, rfl, ?_⟩
  have hseg : ∀ (p : Path), (p.map Seg.toJ).all isPathSeg = true := by
    intro p
    simp only [List.all_eq_true, List.mem_map]
    rintro j ⟨s, _, rfl⟩
    cases s <;> simp [Seg.toJ, isPathSeg, J.ofNat]
  cases locs with
  | nil =>
    cases path with
    | none => simp [errorOk, keysAmong, J.get?, strictKvs, strict]
    | some p =>
      cases p with
      | nil => simp [errorOk, keysAmong, J.get?, strictKvs, strict]
      | cons a b =>
        have := hseg (a :: b)
        have hs := strict_segs (a :: b)
        simp only [List.map_cons] at this hs
        simp [errorOk, keysAmong, J.get?, strictKvs, strict, this, hs]
  | cons lc rest =>
    have h1 : ((lc :: rest).map (locJ locatedLineKey locatedColKey)).all (locationOk K text) = true := by
      simp only [List.all_eq_true]
      exact fun j hj => (hlocs j hj).1
    have h2 : strictList ((lc :: rest).map (locJ locatedLineKey locatedColKey)) = true :=
      strictList_of_forall _ (fun j hj => (hlocs j hj).2)
    simp only [List.map_cons] at h1 h2
    cases path with
    | none => simp [errorOk, keysAmong, J.get?, strictKvs, strict, h1, h2]
    | some p =>
      cases p with
      | nil => simp [errorOk, keysAmong, J.get?, strictKvs, strict, h1, h2]
      | cons a b =>
        have := hseg (a :: b)
        have hs := strict_segs (a :: b)
        simp only [List.map_cons] at this hs
        simp [errorOk, keysAmong, J.get?, strictKvs, strict, this, hs, h1, h2]

private theorem get_append_ext (kvs : List (String × J)) (k : String) (e : J) (hk : k ≠ "extensions")
    : (J.obj (kvs ++ [("extensions", e)])).get? k = (J.obj kvs).get? k := by
  simp only [J.get?, List.find?_append]
  cases h : List.find? (fun x => x.1 == k) kvs with
  | some x => simp
  | none =>
    have hb : ("extensions" == k) = false := by
      rw [beq_eq_false_iff_ne]; exact fun h => hk h.symm
    simp [List.find?, hb]

private theorem get_ext_append (kvs : List (String × J)) (e : J)
    (h : (kvs.all fun kv => kv.1 != "extensions") = true) :
    (J.obj (kvs ++ [("extensions", e)])).get? "extensions" = some e := by
  simp only [J.get?, List.find?_append]
  have : List.find? (fun x => x.1 == "extensions") kvs = none := by
    simp only [List.find?_eq_none]
    intro x hx
    simp only [List.all_eq_true] at h
    have := h x hx
    simpa using this
  simp [this, List.find?]

/-- `to_dict()` of an admissible error is defined, is a well-formed error map and strict JSON -/
private theorem toDict_ok (K : String) (text : Text) (e : Err) (h : ErrOk text e) (hK : e.isSyntax = true → K = syntaxColKey) :
    ∃ j, e.toDict text = some j ∧ errorOk K text j = true ∧ strict j = true := by
  cases e with
  | «syntax» msg p =>
    have hK' := hK rfl
    subst hK'
    obtain ⟨l, c, h1, _⟩ := loc_bounds text p h
    have hl := locationOk_locJ syntaxColKey syntaxColKey (Or.inr rfl) text p (l, c) h1
    have ht : Err.toDict text (.syntax msg p) =
        some (.obj [("message", .str msg), ("locations", .arr [locJ syntaxLineKey syntaxColKey (l, c)])]) := by
      simp [Err.toDict, h1]
    refine ⟨_, ht, ?_, ?_⟩
    · have : syntaxLineKey = "line" := rfl
      rw [this]
      simp [errorOk, keysAmong, J.get?, hl]
    · simp [strict, strictKvs, strictList, locJ, J.ofNat]
  | located msg ns path =>
    obtain ⟨kvs, h1, h2, h3, h4, _⟩ := located_ok K text msg ns path h
    refine ⟨.obj kvs, by simp [Err.toDict, h1], h2, ?_⟩
    cases kvs with
    | nil => simp at h4
    | cons kv rest =>
      simp at h4; subst h4
      simpa [strict] using h3
  | resolver msg ns path ext =>
    obtain ⟨kvs, h1, h2, h3, h4, h5⟩ := located_ok K text msg ns path h.1
    cases kvs with
    | nil => simp at h4
    | cons kv rest =>
      simp at h4; subst h4
      have hs : strict (.obj (("message", J.str msg) :: rest)) = true := by simpa [strict] using h3
      cases ext with
      | none => exact ⟨_, by simp [Err.toDict, h1], h2, hs⟩
      | some es =>
        cases es with
        | nil => exact ⟨_, by simp [Err.toDict, h1], h2, hs⟩
        | cons e0 es =>
          have hx := h.2 _ rfl
          have ht : Err.toDict text (.resolver msg ns path (some (e0 :: es))) =
              some (J.obj ((("message", J.str msg) :: rest) ++ [(resolverExtKey, J.obj (e0 :: es))])) := by
            simp [Err.toDict, h1]
          refine ⟨_, ht, ?_, ?_⟩
          · have hr : resolverExtKey = "extensions" := rfl
            rw [hr]
            have hm := get_append_ext (("message", J.str msg) :: rest) "message" (.obj (e0 :: es)) (by decide)
            have hlo := get_append_ext (("message", J.str msg) :: rest) "locations" (.obj (e0 :: es)) (by decide)
            have hp := get_append_ext (("message", J.str msg) :: rest) "path" (.obj (e0 :: es)) (by decide)
            have he := get_ext_append (("message", J.str msg) :: rest) (.obj (e0 :: es)) h5
            simp only [errorOk, Bool.and_eq_true] at h2 ⊢
            obtain ⟨⟨⟨⟨k1, k2⟩, k3⟩, k4⟩, _⟩ := h2
            refine ⟨⟨⟨⟨?_, ?_⟩, ?_⟩, ?_⟩, ?_⟩
            · simp only [keysAmong, List.all_append, Bool.and_eq_true] at k1 ⊢
              exact ⟨k1, by simp⟩
            · rw [hm]; exact k2
            · rw [hlo]; exact k3
            · rw [hp]; exact k4
            · rw [he]
          · have hr : resolverExtKey = "extensions" := rfl
            rw [hr]
            simp only [strict, List.cons_append, Bool.and_eq_true] at hs ⊢
            refine ⟨by simp, ?_⟩
            have := strictKvs_append (("message", J.str msg) :: rest) [("extensions", J.obj (e0 :: es))]
            simp only [List.cons_append] at this
            rw [this]
            simp only [Bool.and_eq_true]
            refine ⟨hs.2, ?_⟩
            simpa [strictKvs] using hx
  | execution msg =>
    exact ⟨_, rfl, by simp [errorOk, keysAmong, J.get?], by simp [strict, strictKvs]⟩

private theorem mapM_toDict_ok (K : String) (text : Text) : ∀ (es : List Err), (∀ e ∈ es, ErrOk text e) →
    (∀ e ∈ es, e.isSyntax = true → K = syntaxColKey) →
    ∃ js, es.mapM (Err.toDict text) = some js ∧ js.length = es.length ∧
      ∀ j ∈ js, errorOk K text j = true ∧ strict j = true
  | [], _, _ => ⟨[], by simp⟩
  | e :: es, h, hK => by
    obtain ⟨j, h1, h2⟩ := toDict_ok K text e (h e (by simp)) (hK e (by simp))
    obtain ⟨js, h3, h4, h5⟩ := mapM_toDict_ok K text es (fun x hx => h x (by simp [hx])) (fun x hx => hK x (by simp [hx]))
    refine ⟨j :: js, by simp [h1, h3], by simp [h4], ?_⟩
    intro x hx
    simp only [List.mem_cons] at hx
    rcases hx with rfl | hx
    · exact h2
    · exact h5 x hx

/-- `result_wellformed` with the accepted extra spelling `K` of the column key as a parameter: `K` only has to be the syntax
    error's key when the result actually carries a syntax error — with `K := "column"` this is section 7.1 as written -/
theorem result_wellformed_key (K : String) (text : Text) (r : Result)
    (herr : ∀ e ∈ r.errors, ErrOk text e)
    (hK : ∀ e ∈ r.errors, e.isSyntax = true → K = syntaxColKey)
    (hdata : ∀ d, r.data = some d → strict d = true)
    (hsome : r.errors = [] → r.data.isSome = true)
    (hext : r.extensions = []) :
    ∃ j, r.response text = some j ∧ WellFormedK K text j := by
  obtain ⟨js, h1, h2, h3⟩ := mapM_toDict_ok K text r.errors herr hK
  unfold Result.response WellFormedK
  simp only [h1, hext, List.isEmpty_nil, if_true, List.append_nil]
  refine ⟨_, rfl, ?_⟩
  cases js with
  | nil =>
    have : r.errors = [] := by cases hr : r.errors <;> simp_all
    cases hd : r.data with
    | none =>
      have hh := hsome this
      rw [hd] at hh
      simp at hh
    | some d =>
      have := hdata d hd
      simp [wellFormedB, keysAmong, J.get?, strict, strictKvs, this]
  | cons j0 js =>
    have hall : (j0 :: js).all (errorOk K text) = true := by
      simp only [List.all_eq_true]; exact fun j hj => (h3 j hj).1
    have hstr : strictList (j0 :: js) = true := strictList_of_forall _ (fun j hj => (h3 j hj).2)
    cases hd : r.data with
    | none => simp [wellFormedB, keysAmong, J.get?, strict, strictKvs, hall, hstr]
    | some d =>
      have := hdata d hd
      simp [wellFormedB, keysAmong, J.get?, strict, strictKvs, hall, hstr, this]

/-- a `GraphQLResult` (without result extensions) whose errors are admissible, whose data is strict
    JSON and which has data whenever it has no errors, renders to a well-formed response -/
theorem result_wellformed (text : Text) (r : Result)
    (herr : ∀ e ∈ r.errors, ErrOk text e)
    (hdata : ∀ d, r.data = some d → strict d = true)
    (hsome : r.errors = [] → r.data.isSome = true)
    (hext : r.extensions = []) :
    ∃ j, r.response text = some j ∧ WellFormedK syntaxColKey text j :=
  result_wellformed_key syntaxColKey text r herr (fun _ _ _ => rfl) hdata hsome hext

/-! ### the staged statement -/

/-- admissible stage outcomes: every error position reported by a stage lies inside the submitted
    text (`≤ len`), the executed data and the resolver-supplied extensions are strict JSON. These are
    facts about the OTHER stages (lexer/parser spans: C01/C02; scalar serialisers), observed by the
    correspondence on every request. -/
structure StagesOk (text : Text) (s : Stages) : Prop where
  parse : ∀ m p, s.parse = some (m, p) → p ≤ text.length
  validate : ∀ e ∈ s.validate, ErrOk text e
  coerce : ∀ e ∈ s.coerce, ErrOk text e
  execErrors : ∀ e ∈ s.exec.2, ErrOk text e
  execData : strict s.exec.1 = true

/-- THE FULL STATEMENT (spec keys): whatever stage fails, the response is `WellFormed`. -/
def FullStatement : Prop :=
  ∀ (text : Text) (s : Stages), StagesOk text s →
    ∃ j, (processQuery s).response text = some j ∧ WellFormed text j

/-- the four facts about `processQuery s` that make its rendering well-formed, for every admissible stage outcome -/
private theorem stagesOk_facts (text : Text) (s : Stages) (h : StagesOk text s) {P : Prop}
    (k : (∀ e ∈ (processQuery s).errors, ErrOk text e) → (∀ d, (processQuery s).data = some d → strict d = true) →
      ((processQuery s).errors = [] → (processQuery s).data.isSome = true) → (processQuery s).extensions = [] → P) : P := by
  apply k
  · intro e he
    unfold processQuery abort at he
    cases hp : s.parse with
    | some mp =>
      simp [hp] at he; subst he
      exact h.parse mp.1 mp.2 (by simp [hp])
    | none =>
      simp only [hp] at he
      by_cases hv : s.validate.isEmpty = true
      · simp only [hv, Bool.not_true, Bool.false_eq_true, if_false] at he
        cases hg : s.getOp with
        | some m => simp [hg] at he; subst he; trivial
        | none =>
          simp only [hg] at he
          by_cases hc : s.coerce.isEmpty = true
          · simp only [hc, Bool.not_true, Bool.false_eq_true, if_false] at he
            exact h.execErrors e he
          · simp only [hc, Bool.not_false, if_true] at he
            exact h.coerce e he
      · simp only [hv, Bool.not_false, if_true] at he
        exact h.validate e he
  · intro d hd
    unfold processQuery abort at hd
    cases hp : s.parse with
    | some mp => simp [hp, abortSyntaxPassesData] at hd
    | none =>
      simp only [hp] at hd
      by_cases hv : s.validate.isEmpty = true
      · simp only [hv, Bool.not_true, Bool.false_eq_true, if_false] at hd
        cases hg : s.getOp with
        | some m => simp [hg] at hd; obtain ⟨_, rfl⟩ := hd; rfl
        | none =>
          simp only [hg] at hd
          by_cases hc : s.coerce.isEmpty = true
          · simp only [hc, Bool.not_true, Bool.false_eq_true, if_false, Option.some.injEq] at hd
            subst hd; exact h.execData
          · simp [hc] at hd; obtain ⟨_, rfl⟩ := hd; rfl
      · simp [hv, abortValidationPassesData] at hd
  · intro he
    unfold processQuery abort at he ⊢
    cases hp : s.parse with
    | some mp => simp [hp] at he
    | none =>
      simp only [hp] at he ⊢
      by_cases hv : s.validate.isEmpty = true
      · simp only [hv, Bool.not_true, Bool.false_eq_true, if_false] at he ⊢
        cases hg : s.getOp with
        | some m => simp [hg] at he
        | none =>
          simp only [hg] at he ⊢
          by_cases hc : s.coerce.isEmpty = true
          · simp [hc]
          · simp [hc, abortCoercionPassesData]
      · simp only [hv, Bool.not_false, if_true] at he
        simp [he] at hv
  · unfold processQuery abort
    repeat' split
    all_goals rfl

/-- **response_wellformed (partial: modulo finding X1).** For every text and every admissible
    outcome of the five stages — syntax error, validation errors, no/ambiguous operation, variable
    coercion errors, execution with field errors — `process_graphql_query(...).response()` is defined
    (no exception out of any `to_dict`) and is a well-formed, strict-JSON response whose locations lie
    inside the submitted text; the ONLY departure from section 7.1 is the spelling
    `Generated.ResponseKeys.syntaxColKey` of the column key of syntax-error locations (a parameter
    re-extracted from `exc.py` on every run; `syntax_column_key_is_misspelt`). What is missing for
    `FullStatement`: that key being `"column"` — pinned by tests/test_graphql.py. -/
theorem response_wellformed_partial (text : Text) (s : Stages) (h : StagesOk text s) :
    ∃ j, (processQuery s).response text = some j ∧ WellFormedK syntaxColKey text j :=
  stagesOk_facts text s h (fun h1 h2 h3 h4 => result_wellformed text _ h1 h2 h3 h4)

/-- non-vacuity: a two-line request whose validation failed at offset 7 (line 2, column 3) is an
    admissible stage outcome, and so is an executed one with a field error carrying extensions -/
example : StagesOk [123, 32, 97, 13, 10, 32, 32, 122, 32, 125]
    { parse := none, validate := [.located "Cannot query field" [some 7] none], getOp := none, coerce := [], exec := (.null, []) } :=
  ⟨by simp, by simp [ErrOk], by simp, by simp, by decide⟩

example : StagesOk [123, 32, 97, 32, 125]
    { parse := none, validate := [], getOp := none, coerce := [],
      exec := (.obj [("a", .null)], [.resolver "boom" [some 2] (some [.key "a"]) (some [("code", .num 1)])]) } :=
  ⟨by simp, by simp, by simp, by simp [ErrOk, strict, strictKvs], by decide⟩

/-- the stage outcome of the EMPTY request text: `Unexpected <EOF>` at position 0 -/
private def emptyRequest : Stages :=
  { parse := some ("Unexpected <EOF> (1:1):", 0), validate := [], getOp := none, coerce := [], exec := (.null, []) }

/-- **Refutation of the full statement on today's code (finding X1)**: the response to the empty
    request text is `{"errors": [{"message": …, "locations": [{"line": 1, "columne": 1}]}]}` — the
    location has no `column`. Replay on the implementation: `graphql_blocking(schema, "")`. -/
theorem full_statement_refuted : ¬ FullStatement := by
  intro h
  obtain ⟨j, h1, h2⟩ := h [] emptyRequest ⟨by simp [emptyRequest], by simp [emptyRequest], by simp [emptyRequest],
    by simp [emptyRequest], by decide⟩
  have hr : (processQuery emptyRequest).response [] = some (.obj [("errors", .arr [.obj [("message", .str "Unexpected <EOF> (1:1):"),
      ("locations", .arr [.obj [("line", .num 1), ("columne", .num 1)]])]])]) := by rfl
  rw [hr] at h1
  cases h1
  revert h2
  decide

/-! ### X1 is the ONLY departure: the spec as written for every request that parses -/

/-- the stages after parsing report errors of their own classes (`ValidationError`, `VariableCoercionError`, `CoercionError`,
    `ResolverError`, …), never a `GraphQLSyntaxError`: a fact about the other stages' exception classes, observed by the
    correspondence on every request (error kinds are compared) -/
def StagesTyped (s : Stages) : Prop := ∀ e ∈ s.validate ++ s.coerce ++ s.exec.2, e.isSyntax = false

/-- **response_wellformed_unless_syntax_error.** For every request text that PARSES and every admissible outcome of the later
    stages (validation errors, no / ambiguous operation, variable coercion errors, execution with field errors) the response
    satisfies section 7.1 AS WRITTEN (`WellFormed`, column key `"column"`): `FullStatement` restricted to `s.parse = none`
    holds in full. Together with `response_wellformed_partial` (syntax errors: well-formed up to the key `syntaxColKey`) and
    `full_statement_refuted`: the misspelt key of syntax-error locations (X1) is the only thing that separates today's code
    from the full statement. -/
theorem response_wellformed_unless_syntax_error (text : Text) (s : Stages) (h : StagesOk text s) (ht : StagesTyped s)
    (hp : s.parse = none) :
    ∃ j, (processQuery s).response text = some j ∧ WellFormed text j := by
  have hnosyn : ∀ e ∈ (processQuery s).errors, e.isSyntax = true → "column" = syntaxColKey := by
    intro e he hs
    exfalso
    unfold processQuery abort at he
    simp only [hp] at he
    have hmem : e ∈ s.validate ++ s.coerce ++ s.exec.2 ∨ ∃ m, e = .execution m := by
      by_cases hv : s.validate.isEmpty = true
      · simp only [hv, Bool.not_true, Bool.false_eq_true, if_false] at he
        cases hg : s.getOp with
        | some m => simp [hg] at he; exact .inr ⟨m, he⟩
        | none =>
          simp only [hg] at he
          by_cases hc : s.coerce.isEmpty = true
          · simp only [hc, Bool.not_true, Bool.false_eq_true, if_false] at he
            exact .inl (by simp [he])
          · simp only [hc, Bool.not_false, if_true] at he
            exact .inl (by simp [he])
      · simp only [hv, Bool.not_false, if_true] at he
        exact .inl (by simp [he])
    rcases hmem with hm | ⟨m, rfl⟩
    · have := ht e hm
      rw [this] at hs
      cases hs
    · cases hs
  exact stagesOk_facts text s h (fun h1 h2 h3 h4 => result_wellformed_key "column" text _ h1 hnosyn h2 h3 h4)

/-- non-vacuity: the two-line request whose validation failed (example above) parses and is typed -/
example : StagesTyped { parse := none, validate := [.located "Cannot query field" [some 7] none], getOp := none, coerce := [], exec := (.null, []) } := by
  intro e he
  simp at he
  subst he
  rfl

end PyGql.Props.C10

/-
  C07 — property theorems, part 9: WHICH JSON inputs the built-in numeric scalars accept, decided inside the model.
  The number lexemes (`int(s, 10)`, `float(s)` with correct rounding, `is_integer`, `int(f)`) are modelled in
  PyGqlModel/PyNum.lean; the branch structure of `coerce_int` and the finiteness guard of `coerce_float` come from
  Generated/Scalars.lean (`coerceInt_branches_spec`, `floatGuard_spec`, `intInRange_iff` re-open when the source changes).
-/
import PyGqlModel.Props.C07_args

set_option linter.unusedSimpArgs false
set_option linter.unusedVariables false

namespace PyGql.Props.C07
open PyGql PyGql.Coerce PyGql.PyNum

/-- the integer a JSON scalar denotes for `coerce_int`, if any (before the range test) -/
def intDenoted : JV → Option Int
  | .bool b => some (if b then 1 else 0)
  | .int n => some n
  | .float t => (pyFloat t).bind Dbl.integral
  | .str s =>
    if s == "" then none
    else match pyInt10 s with
      | some n => some n
      | none => (pyFloat s).bind Dbl.integral
  | _ => none

/-- **int_accepts_iff.** A JSON value is accepted at an `Int` position exactly when it denotes an integer — a JSON integer,
    a boolean (Python: `bool ⊂ int`), a float whose double is integral (`1.0`, `1e3`), a string that `int(s, 10)` reads or
    whose `float(s)` is integral — and that integer lies in the closed signed 32-bit interval. Arrays, objects, non-integral
    and non-finite numbers (`1e999`, NaN: fix A6), other strings are REFUSED (see `coerceInt_never_raises`). -/
theorem int_accepts_iff (v : JV) : (∃ pv, coerceInt v = .ok pv) ↔ ∃ k, intDenoted v = some k ∧ InRange32 k := by
  have key : ∀ (k : Int) (r : PV), (∃ pv, rangeChecked k r = .ok pv) ↔ InRange32 k := by
    intro k r
    unfold rangeChecked
    cases h : Generated.Scalars.intInRange k
    · have : ¬ InRange32 k := fun hk => by simp [(intInRange_iff k).2 hk] at h
      simp [this]
    · simp [(intInRange_iff k).1 h]
  cases v with
  | null => simp [coerceInt, intDenoted]
  | list l => simp [coerceInt, intDenoted]
  | obj kvs => simp [coerceInt, intDenoted]
  | bool b => simp only [coerceInt, intDenoted]; rw [key]; simp
  | int n => simp only [coerceInt, intDenoted]; rw [key]; simp
  | float t =>
    simp only [coerceInt, intDenoted]
    cases hp : pyFloat t with
    | none => simp
    | some d =>
      cases hi : d.integral with
      | some k => simp only [Option.bind, hi]; rw [key]; simp
      | none => cases d <;> simp [Option.bind, hi]
  | str s =>
    simp only [coerceInt, intDenoted]
    split
    · simp
    · cases hp : pyInt10 s with
      | some n => simp only []; rw [key]; simp
      | none =>
        cases hf : pyFloat s with
        | none => simp
        | some d =>
          cases hi : d.integral with
          | some k => simp only [Option.bind, hi]; rw [key]; simp
          | none => simp [Option.bind, hi]

/-- **float_accepts_iff.** At a `Float` position: booleans and integers always; a float lexeme / a string exactly when
    `float()` reads it and the double is finite (fix X2). -/
theorem float_accepts_iff (v : JV) :
    (∃ pv, coerceFloat v = .ok pv) ↔
      match v with
      | .bool _ => True
      | .int n => intFitsDouble n = true           -- an integer too large for a double (≥ 2^1024 − 2^970) is refused (fix A6)
      | .float t => ∃ neg m e, pyFloat t = some (.finite neg m e)
      | .str s => s ≠ "" ∧ ∃ neg m e, pyFloat s = some (.finite neg m e)
      | _ => False := by
  have key : ∀ (d : Dbl) (r : PV), (∃ pv, floatChecked (clsOf d) r = .ok pv) ↔ ∃ neg m e, d = .finite neg m e := by
    intro d r
    cases d with
    | finite neg m e => simp [clsOf, floatChecked_finite]
    | inf neg =>
      have : floatGuardRejects .inf = true := (floatGuard_spec .inf).2 (by simp)
      simp [clsOf, floatChecked, this]
    | nan =>
      have : floatGuardRejects .nan = true := (floatGuard_spec .nan).2 (by simp)
      simp [clsOf, floatChecked, this]
  cases v with
  | null => simp [coerceFloat]
  | list l => simp [coerceFloat]
  | obj kvs => simp [coerceFloat]
  | bool b => simp [coerceFloat, floatChecked_finite]
  | int n =>
    have hover : Generated.Scalars.floatCatchesOverflow = true := coerceInt_branches_spec.2
    cases hf : intFitsDouble n <;> simp [coerceFloat, floatChecked_finite, hf, hover]
  | float t =>
    simp only [coerceFloat]
    cases hp : pyFloat t with
    | none => simp
    | some d => simp only []; rw [key]; simp
  | str s =>
    simp only [coerceFloat]
    by_cases hs : s = ""
    · simp [hs]
    · have : (s == "") = false := by simpa using hs
      simp only [this, Bool.false_eq_true, if_false]
      cases hp : pyFloat s with
      | none => simp [hs]
      | some d => simp only []; rw [key]; simp [hs]

/-- **the built-in scalars never raise.** Whatever the JSON value (±inf, NaN, integers of any size, any string, arrays,
    objects), `coerce_int`, `coerce_float`, `_parse_string`, `_parse_bool`, `_parse_id` either return a value or raise the
    `ValueError` / `TypeError` that `ScalarType.parse` turns into a rejection — no other exception (fix A6: `int(inf)`,
    `float(10**400)`). Stated about the branches re-extracted from scalars.py. -/
theorem builtin_scalars_never_raise (v : JV) :
    coerceInt v ≠ .error .internal ∧ coerceFloat v ≠ .error .internal ∧ parseString v ≠ .error .internal ∧
    parseBool v ≠ .error .internal ∧ parseId v ≠ .error .internal := by
  have hover : Generated.Scalars.floatCatchesOverflow = true := coerceInt_branches_spec.2
  have hr : ∀ (k : Int) (r : PV), rangeChecked k r ≠ .error .internal := by
    intro k r; unfold rangeChecked; split <;> simp
  have hf : ∀ (c : FCls) (r : PV), floatChecked c r ≠ .error .internal := by
    intro c r; unfold floatChecked; split <;> simp
  refine ⟨?_, ?_, ?_, ?_, ?_⟩
  · unfold coerceInt
    repeat' split
    all_goals first | exact hr _ _ | simp
  · unfold coerceFloat
    repeat' split
    all_goals first | exact hf _ _ | simp [hover]
  · cases v <;> simp [parseString]
  · cases v <;> simp [parseBool]
  · cases v <;> simp [parseId]

/-! #### the table, evaluated by the kernel on the lexeme model (rows with long mantissas — `2147483647.0`, `1.0000000000000000001`,
     `1.7976931348623157e308`, `5e-324` — are checked against Python by the compiled `pynum` stream instead) -/

example : coerceInt (.float "1.0") = .ok (.int 1) := by rfl
example : coerceInt (.float "1e+16") = .error .coercion := by rfl           -- integral, outside the 32-bit range
example : coerceInt (.float "1.5") = .error .coercion := by rfl
example : coerceInt (.float "-0.0") = .ok (.int 0) := by rfl
example : coerceInt (.float "nan") = .error .coercion := by rfl
example : coerceInt (.float "inf") = .error .coercion := by rfl             -- int(inf): OverflowError caught (fix A6)
example : coerceInt (.bool true) = .ok (.int 1) := by rfl                    -- accepted (known finding A8), as the integer 1
example : coerceInt (.str "12") = .ok (.int 12) := by rfl
example : coerceInt (.str " 7 ") = .ok (.int 7) := by rfl
example : coerceInt (.str "1_0") = .ok (.int 10) := by rfl
example : coerceInt (.str "1e3") = .ok (.int 1000) := by rfl
example : coerceInt (.str "1.5") = .error .coercion := by rfl
example : coerceInt (.str "abc") = .error .coercion := by rfl
example : coerceInt (.str "") = .error .coercion := by rfl
example : coerceInt (.str "inf") = .error .coercion := by rfl
example : coerceFloat (.str "1e400") = .error .coercion := by rfl            -- overflows to inf: refused (X2)
example : coerceFloat (.str "x") = .error .coercion := by rfl
example : pyFloat "0.1" = some (.finite false 7205759403792794 (-56)) := by decide
example : pyInt10 "+-5" = none ∧ pyInt10 "007" = some 7 ∧ pyInt10 "1__0" = none := by decide

end PyGql.Props.C07

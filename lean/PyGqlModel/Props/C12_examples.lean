/-
  C12 — `print_build_roundtrip`: ordinary schemas satisfy the decidable well-formedness predicate (kernel-evaluated),
  and the H2 shape is excluded for a reason (machine-checked refutation witness).
-/
import PyGqlModel.Props.C12_print_build

set_option linter.unusedVariables false

namespace PyGql.Props.C12
open PyGql PyGql.Sdl PyGql.SdlPrint

def fl (r : String) : J := .obj [("$float", .str r)]

def shop : SchemaD :=
  { types := [
      { kind := .enum, name := "Color", desc := some "A colour",
        values := [{ name := "RED", value := .str "RED" }, { name := "GREEN", value := .str "GREEN", deprecated := some "old", desc := some "not red" }] },
      { kind := .input, name := "Filter",
        inputFields := [{ name := "color", type := .named "Color", hasDefault := true, default := .str "RED" },
                        { name := "tags", type := .list (.nonNull (.named "String")), hasDefault := true, default := .arr [.str "a"] },
                        { name := "nested", type := .named "Filter" },
                        { name := "limit", type := .named "Int", hasDefault := true, default := .num 10, desc := some "how many" }] },
      { kind := .interface, name := "Node", fields := [{ name := "id", type := .nonNull (.named "ID") }] },
      { kind := .object, name := "Item", interfaces := ["Node"],
        fields := [{ name := "id", type := .nonNull (.named "ID") },
                   { name := "name", type := .named "String", deprecated := some "No longer supported",
                     args := [{ name := "upper", type := .named "Boolean", hasDefault := true, default := .bool false }] }] },
      { kind := .union, name := "Thing", members := ["Item"] },
      { kind := .scalar, name := "Date", desc := some "A date" },
      { kind := .object, name := "Query",
        fields := [{ name := "items", type := .nonNull (.list (.nonNull (.named "Item"))),
                     args := [{ name := "filter", type := .named "Filter", hasDefault := true,
                                default := .obj [("color", .str "GREEN"), ("tags", .arr []), ("limit", .num 5)] },
                              { name := "ratio", type := .named "Float", hasDefault := true, default := fl "1.5" },
                              { name := "ids", type := .list (.named "ID"), hasDefault := true, default := .arr [.str "7", .str "x", .null] }] },
                   { name := "thing", type := .named "Thing" }] },
      { kind := .object, name := "Mutation",
        fields := [{ name := "touch", type := .named "Item", args := [{ name := "at", type := .named "Date", hasDefault := true, default := .str "2020" }] }] }],
    directives := [{ name := "tag", locations := ["FIELD"], desc := some "tagging",
                     args := [{ name := "name", type := .named "String", hasDefault := true, default := .str "x" }] }],
    query := some "Query", mutation := some "Mutation" }


/-- an ordinary schema — all six kinds, defaults of every input kind (enum, list, Int, Boolean, Float, ID, custom
    scalar, a nested input object that omits only a non-defaulted nullable field), descriptions, deprecations, a
    directive definition, conventional roots (no `schema` block) — is well-formed … -/
theorem shop_wf : printBuildWF shop = true := by decide

/-- … so printing it and building the printed document gives it back. -/
theorem shop_roundtrip : build (schemaToDoc shop) = .ok shop := print_build_roundtrip shop shop_wf

/-- the same with root types whose names differ from the conventional ones only by case: the `schema { … }` block
    is written and read back -/
def shopLower : SchemaD :=
  { types := [{ kind := .object, name := "query", fields := [{ name := "a", type := .named "Int" }] },
              { kind := .object, name := "Query", fields := [{ name := "b", type := .named "query" }] },
              { kind := .object, name := "MUTATION", fields := [{ name := "m", type := .named "Query" }] }],
    query := some "query", mutation := some "MUTATION" }

theorem shopLower_wf : printBuildWF shopLower = true := by decide
theorem shopLower_needs_block : needsSchemaBlock shopLower = true := by decide
theorem shopLower_roundtrip : build (schemaToDoc shopLower) = .ok shopLower := print_build_roundtrip shopLower shopLower_wf

/-- finding H9 (fixed in /repo 6d6998f): a type NAMED `Mutation` that is not the mutation root. The schema is
    well-formed, the printer writes the `schema` block, and the round trip holds — no hypothesis excludes the shape. -/
def h9Schema : SchemaD :=
  { types := [{ kind := .object, name := "Query", fields := [{ name := "a", type := .named "Int" }] },
              { kind := .object, name := "Mutation", fields := [{ name := "m", type := .named "Int" }] },
              { kind := .scalar, name := "Subscription" }],
    query := some "Query" }

theorem h9_wf : printBuildWF h9Schema = true := by decide
theorem h9_needs_block : needsSchemaBlock h9Schema = true := by decide
theorem h9_roundtrip : build (schemaToDoc h9Schema) = .ok h9Schema := print_build_roundtrip h9Schema h9_wf

/-! ### finding H2: the exclusion `skippable` is needed -/

mutual
theorem jEq_refl : ∀ v : J, jEq v v = true
  | .null => rfl
  | .bool b => by simp [jEq]
  | .num n => by simp [jEq]
  | .str x => by simp [jEq]
  | .arr a => by simp [jEq, jEqList_refl a]
  | .obj o => by simp [jEq, jEqObj_refl o]
theorem jEqList_refl : ∀ l : List J, jEqList l l = true
  | [] => rfl
  | x :: xs => by simp [jEqList, jEq_refl x, jEqList_refl xs]
theorem jEqObj_refl : ∀ l : List (String × J), jEqObj l l = true
  | [] => rfl
  | (k, x) :: xs => by simp [jEqObj, jEq_refl x, jEqObj_refl xs]
end

/-- code-built `f(i: I = {"e": "B"})` where `I` has a defaulted field `s`: the default OMITS the defaulted field -/
def h2Schema : SchemaD :=
  { types := [{ kind := .enum, name := "E", values := [{ name := "A", value := .str "A" }, { name := "B", value := .str "B" }] },
              { kind := .input, name := "I",
                inputFields := [{ name := "e", type := .named "E" },
                                { name := "s", type := .named "String", hasDefault := true, default := .str "dflt" }] },
              { kind := .object, name := "Query",
                fields := [{ name := "f", type := .named "Int",
                             args := [{ name := "i", type := .named "I", hasDefault := true, default := .obj [("e", .str "B")] }] }] }] }

/-- the default value of `Query.f(i:)` -/
def h2Default (s : SchemaD) : J :=
  match s.types.find? (·.name == "Query") with
  | some t => (match t.fields with | f :: _ => (match f.args with | a :: _ => a.default | [] => .null) | [] => .null)
  | none => .null

/-- `h2Schema` violates only the NoH2 clause … -/
theorem h2_not_wf : printBuildWF h2Schema = false := by decide

/-- … and the round trip really fails on it: the printed document builds, but to a DIFFERENT schema (the default is
    read back as `{e: "B", s: "dflt"}`) — finding H2, replay `H2:code-default-omits-defaulted-field`. -/
theorem print_build_roundtrip_needs_NoH2 : ∃ s', build (schemaToDoc h2Schema) = .ok s' ∧ s' ≠ h2Schema := by
  have hb : (match build (schemaToDoc h2Schema) with
             | .ok s' => !(jEq (h2Default s') (h2Default h2Schema)) | .error _ => false) = true := by decide
  cases hr : build (schemaToDoc h2Schema) with
  | error e => rw [hr] at hb; simp at hb
  | ok s' =>
    rw [hr] at hb
    refine ⟨s', rfl, ?_⟩
    intro e
    simp only [e, jEq_refl] at hb
    simp at hb

/-! ### structured values of a JSON-like custom scalar (fixes I7 + C11-1) -/

/-- `{a: "1", b: [true, "x", null, "FOO"], c: {}}` as the default of a custom scalar -/
def jsonValue : J := .obj [("a", .str "1"), ("b", .arr [.bool true, .str "x", .null, .str "FOO"]), ("c", .obj [])]

/-- the printer writes it as an object literal (`{a: 1, b: [true, "x", null, "FOO"], c: {}}`) and the transparent
    scalar reads that literal back as the same value -/
theorem custom_structured_roundtrip :
    (match customLit jsonValue with | some lit => jEq (untypedLit lit) jsonValue | none => false) = true := by decide

end PyGql.Props.C12

/-
  C05 — the soundness chain stated about the description the DRIVER EXECUTES. `s` is a schema description as
  `canon_schema.dump_schema` produces it (built-in scalars not listed); the validator model and the schema checks read
  `withBuiltins s`; the response is the one `Exec.execute s` computes (`execute_withBuiltins`), and the world is typed
  against `s` (`worldTyped_withBuiltins`).
-/
import PyGqlModel.Lemmas.C05Reads
import PyGqlModel.Props.C05_schema

set_option linter.unusedSimpArgs false
set_option linter.unusedVariables false

namespace PyGql.Props.C05
open PyGql PyGql.Exec PyGql.Spec

private theorem conforms_withBuiltins (s : SchemaD) : ∀ t, Conforms (withBuiltins s) t = Conforms s t := by
  intro t
  induction t with
  | named n =>
    funext v
    cases v <;> simp only [Conforms, kindOf_withBuiltins, serializeLeaf_withBuiltins, isPossibleType_withBuiltins]
  | list t ih =>
    funext v
    cases v <;> simp only [Conforms, ih]
  | nonNull t ih =>
    funext v
    simp only [Conforms, ih]

/-- **execute_withBuiltins** (proved in `Lemmas/C05Reads.lean` from `execute_congr`: the executor model reads the schema only
    through `kindOf`, `fieldOf`, `isPossibleType`, `rootType`, `serializeLeaf`, `query`; each is proved invariant in
    `Lemmas/C05Builtins.lean`): listing the built-in scalars in the description changes no response -/
theorem execute_lists_builtins (s : SchemaD) (doc : Doc) (vars : Vars) (w : World) (op : Option String) (fuel cf : Nat) :
    execute (withBuiltins s) doc vars w op fuel cf = execute s doc vars w op fuel cf :=
  execute_withBuiltins s doc vars w op fuel cf

/-- the executor-side schema checks have the same value on both descriptions -/
theorem schemaChecksExec_lists_builtins (s : SchemaD) : schemaChecksExecB (withBuiltins s) = schemaChecksExecB s :=
  schemaChecksExec_withBuiltins s

/-- a world typed against the executed description is typed against the one with the built-ins listed -/
theorem worldTyped_withBuiltins (s : SchemaD) (w : World) (h : WorldTyped s w) : WorldTyped (withBuiltins s) w := by
  intro parent field path args fd hf
  rw [fieldOf_withBuiltins] at hf
  have := h parent field path args fd hf
  rw [conforms_withBuiltins]
  exact this

/-- **accepted_cannot_go_wrong_executed** — C05's execution half about what the driver runs: `s` is the dumped schema,
    `schemaChecksB (withBuiltins s)` the evaluated schema facts, all 26 rule visitors silent on the document (validator
    model over `withBuiltins s`), the world typed against `s`: the response `Exec.execute s` computes for the translated
    document is never an internal exception. Remaining document-side hypotheses: `NoIntrospection`, non-empty fragment
    names, `MergeSafe`. -/
theorem accepted_cannot_go_wrong_executed (s : SchemaD) (hchk : schemaChecksB (withBuiltins s) = true)
    (fx : Validate.Fixes) (hv11 : fx.v11 = true) (env : Exec.ArgEnv) (d : Validate.Doc) (vars : Exec.Vars)
    (hacc : ∀ r ∈ Validate.Rule.all, C06.Silent (withBuiltins s) fx r d)
    (hne : ∀ f ∈ Validate.Spec.fragNames d, f ≠ "") (hni : NoIntrospection (withBuiltins s) d)
    (hm : MergeSafe (withBuiltins s) (eDoc (withBuiltins s) env d))
    (w : Exec.World) (hw : WorldTyped s w) :
    ∀ (op : Option String) (fuel cf : Nat) (cls : String),
      Exec.execute s (eDoc (withBuiltins s) env d) vars w op fuel cf ≠ .failed (.internal cls) := by
  intro op fuel cf cls
  rw [← execute_withBuiltins]
  exact accepted_cannot_go_wrong_checked (withBuiltins s) hchk fx hv11 env d vars hacc hne hni hm w
    (worldTyped_withBuiltins s w hw) op fuel cf cls

/-- non-vacuity: a dump WITHOUT the built-in scalars passes the checks once they are listed -/
example : schemaChecksB (withBuiltins { types := [{ kind := .object, name := "Query", fields := [{ name := "a", type := .named "Int" }] }] }) = true := by
  decide

end PyGql.Props.C05

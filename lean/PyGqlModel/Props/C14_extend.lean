/-
  C14 — `untouched_preserved` for `extend_schema`, at full strength, per schema:

  for EVERY heap, schema (well-formed: a Python schema), extension document (not redefining a registered type) and every
  variant of the code that rebuilds all registered types (`extKeepAll`), the result registers
  * under the name of every source type a REBUILT object keeping name, kind, description, default resolver, type resolver,
    enum values (`TypeKept`), whose member list is — in order — a fresh rebuilt copy of every old field / input field
    (`FieldKept` / `ArgKept`: name, description, deprecation, resolver, subscription resolver, python name, default, type by
    name; each field's arguments likewise, in order), followed by exactly the members the extension adds (none when the
    extension does not name the type);
  * every specified scalar unchanged (the same object);
  * under the name of every directive a rebuilt copy with the same name, locations, description and rebuilt arguments;
  * the same root operation type names and (variant permitting) the schema-level default resolver.
  "As far as the constructors pass them on" is what `Cfg.ext*` (re-extracted from the source on every run) says; for
  `Cfg.fixed` all of them are equalities (`typeKept_fixed`, `fieldKept_fixed`, `argKept_fixed`).
-/
import PyGqlModel.Lemmas.HeapExtFull
import PyGqlModel.Props.C14_closed

set_option linter.unusedSimpArgs false
set_option linter.unusedVariables false

namespace PyGql.Props.C14
open PyGql.Heap PyGql.Heap.Own

/-- FULL `untouched_preserved_extend`, types and their members -/
theorem untouched_preserved_extend (cfg : Cfg) (hk : cfg.extKeepAll = true) (ext : Ext) (s : Schema) (h : Heap)
    (hw : wfB h s = true) (hnew : ∀ e, e ∈ ext.newTypes → e.1 ∉ names s)
    (n : String) (a : Addr) (t : TypeO) (hm : (n, a) ∈ s.types) (hp : isProtected n = false) (ht : h.readType a = some t) :
    ∃ N a' t' kept added, lookup (extend cfg ext s h).2.types n = some a' ∧ (extend cfg ext s h).1.readType a' = some t' ∧
      TypeKept cfg t t' ∧ t'.fields = kept ++ added ∧ MembersRel cfg N h (extend cfg ext s h).1 h.size t kept ∧
      (assocD ext.fields t.name = [] → assocD ext.inputFields t.name = [] → added = []) := by
  have w := wfs_of_wfB hw
  exact extend_type_full cfg hk ext s h w.nodup hnew n a t hm hp ht
    (membersReadable_of_shape _ h a t ht (w.types (n, a) hm))

/-- … the specified scalars stay the very same objects -/
theorem untouched_preserved_extend_protected (cfg : Cfg) (hk : cfg.extKeepAll = true) (ext : Ext) (s : Schema) (h : Heap)
    (hw : wfB h s = true) (n : String) (a : Addr) (hm : (n, a) ∈ s.types) (hp : isProtected n = true) :
    lookup (extend cfg ext s h).2.types n = some a ∧ (extend cfg ext s h).1.read a = h.read a := by
  have w := wfs_of_wfB hw
  refine ⟨?_, ?_⟩
  · simp only [extend, hk, if_true]
    apply lookup_append_left'
    have hnd : ((s.types.filter fun e => isProtected e.1).map (·.1)).Nodup :=
      List.Nodup.sublist (List.Sublist.map _ List.filter_sublist) w.nodup
    exact lookup_of_mem_nodup hnd (e := (n, a)) (List.mem_filter.mpr ⟨hm, hp⟩)
  · obtain ⟨t, ht, _⟩ := (typeShape_iff _ h a).mp (w.types (n, a) hm)
    exact (extend_frames_source cfg ext s h).2 a (read_lt h a _ (readType_read ht))

/-- … every directive -/
theorem untouched_preserved_extend_directives (cfg : Cfg) (ext : Ext) (s : Schema) (h : Heap) (hw : wfB h s = true)
    (hnd : (s.dirs.map (·.1)).Nodup) (e : String × Addr) (he : e ∈ s.dirs) :
    ∃ N a', lookup (extend cfg ext s h).2.dirs e.1 = some a' ∧ DirRelB cfg N h (extend cfg ext s h).1 h.size e (e.1, a') := by
  have w := wfs_of_wfB hw
  apply extend_dir_full cfg ext s h w.nodup hnd _ e he
  intro e' he'
  have hs := w.dirs e' he'
  simp only [dirShape] at hs
  split at hs
  · rename_i d hd
    simp only [List.all_eq_true] at hs
    exact ⟨d, hd, fun x hx => by obtain ⟨g, hg, _⟩ := (argShape_iff _ h x).mp (hs x hx); exact ⟨g, hg⟩⟩
  · cases hs

/-- … the root operation types (by name: the rebuilt object registered under the same name) and the schema-level default resolver -/
theorem untouched_preserved_extend_schema_level (cfg : Cfg) (hk : cfg.extKeepAll = true) (ext : Ext) (s : Schema) (h : Heap) :
    (extend cfg ext s h).2.query = reRoot (extend cfg ext s h).2.types s.query ∧
    (extend cfg ext s h).2.mutation = reRoot (extend cfg ext s h).2.types s.mutation ∧
    (extend cfg ext s h).2.subscription = reRoot (extend cfg ext s h).2.types s.subscription ∧
    (extend cfg ext s h).2.dres = (if cfg.extSchemaDres then s.dres else none) := by
  simp [extend, hk]

/-- with the fixes the kept argument attributes are plain equalities -/
theorem argKept_fixed (N : List (String × Addr)) (g g' : ArgO) (k : ArgKept true N g g') :
    g'.name = g.name ∧ g'.dflt = g.dflt ∧ g'.desc = g.desc ∧ g'.py = g.py := by
  obtain ⟨h1, h2, h3, _, h5⟩ := k
  exact ⟨h1, h2, h3, by simpa using h5⟩

/-- re-pointing a type reference keeps its shape and the NAME at its base -/
theorem repoint_base_name (N : List (String × Addr)) (t : TRef) : (repoint N t).base.name = t.base.name := by
  induction t with
  | named r => simp [repoint, TRef.base]
  | list t ih => simpa [repoint, TRef.base] using ih
  | nonNull t ih => simpa [repoint, TRef.base] using ih

/-- non-vacuity on the witness: `Pet` after `extend … "type Zed {z: String}"` -/
example : wfB h0 s0 = true ∧ (∀ e, e ∈ zed.newTypes → e.1 ∉ names s0) ∧ (("Pet", 1) ∈ s0.types) ∧ isProtected "Pet" = false := by decide

/-! ### T9: the BEHAVIOUR of a leaf type (the class of a `ScalarType` / `EnumType` subclass instance) -/

/-- FULL statement: after `extend_schema` every custom scalar / enum of the source is registered under its name as an object of
    the same Python class — `class Upper(ScalarType)` overriding `serialize` / `parse` keeps serializing upper-case -/
def ExtendKeepsLeafClass (cfg : Cfg) : Prop :=
  ∀ (ext : Ext) (s : Schema) (h : Heap), wfB h s = true → (∀ e, e ∈ ext.newTypes → e.1 ∉ names s) →
    ∀ (n : String) (a : Addr) (t : TypeO), (n, a) ∈ s.types → isProtected n = false → h.readType a = some t →
      (t.kind = Kind.scalar ∨ t.kind = Kind.enum) →
      ∃ a' t', lookup (extend cfg ext s h).2.types n = some a' ∧ (extend cfg ext s h).1.readType a' = some t' ∧ t'.cls = t.cls

theorem extend_keeps_leaf_class (cfg : Cfg) (hk : cfg.extKeepAll = true) (hc : cfg.extLeafCopied = true) : ExtendKeepsLeafClass cfg := by
  intro ext s h hw hnew n a t hm hp ht hl
  obtain ⟨N, a', t', kept, added, h1, h2, h3, _⟩ := untouched_preserved_extend cfg hk ext s h hw hnew n a t hm hp ht
  refine ⟨a', t', h1, h2, ?_⟩
  have h8 := h3.2.2.2.2.2.2.2
  rcases hl with hl | hl <;> simpa [hl, hc] using h8

/-- a schema with one custom scalar `Upper` that is an instance of a `ScalarType` subclass (class #1) -/
def hUp : Heap := ⟨[
  .type { kind := .scalar, name := "Upper", desc := none, fields := [], ifaces := [], members := [], dres := none, rtype := none, values := [], prot := false, cls := some 1 },
  .type { kind := .object, name := "Query", desc := none, fields := [2], ifaces := [], members := [], dres := none, rtype := none, values := [], prot := false },
  .field { name := "up", ty := .named ⟨"Upper", 0⟩, args := [], desc := none, depr := none, res := some 1, sub := none, py := "up" }]⟩
def sUp : Schema := { types := [("Upper", 0), ("Query", 1)], dirs := [], query := some ⟨"Query", 1⟩, mutation := none, subscription := none, dres := none }
/-- `extend type Query { other: Int }` seen from `Upper`: an extension that does not name it -/
def extOther : Ext := { newTypes := [], fields := [("Query", [{ name := "other", ty := .named "Upper", args := [] }])], inputFields := [],
                        members := [], values := [], newDirs := [] }

/-- T9, REFUTATION for the code that rebuilds a plain `ScalarType(...)`: the class is lost by an unrelated extension -/
theorem extend_keeps_leaf_class_refuted : ¬ ExtendKeepsLeafClass { Cfg.fixed with extLeafCopied := false } := by
  intro hf
  obtain ⟨a', t', h1, h2, h3⟩ := hf extOther sUp hUp (by decide) (by decide) "Upper" 0 _ (by decide) (by decide)
    (by decide : hUp.readType 0 = some ((hUp.readType 0).get (by decide))) (Or.inl (by decide))
  have e1 : ((lookup (extend { Cfg.fixed with extLeafCopied := false } extOther sUp hUp).2.types "Upper").bind
      (extend { Cfg.fixed with extLeafCopied := false } extOther sUp hUp).1.readType).map (·.cls) = some none := by decide
  rw [h1] at e1
  simp only [Option.bind_some, h2, Option.map_some, Option.some.injEq] at e1
  rw [e1] at h3
  revert h3
  decide

/-- … and kept by the copying variant (`copy.copy`), on the same history -/
theorem extend_keeps_leaf_class_witness_fixed :
    ((lookup (extend Cfg.fixed extOther sUp hUp).2.types "Upper").bind (extend Cfg.fixed extOther sUp hUp).1.readType).map (·.cls)
      = some (some 1) := by decide

/-- the variant in the working tree -/
theorem current_extend_keeps_leaf_class : ExtendKeepsLeafClass PyGql.Generated.HeapCfg.currentCfg :=
  extend_keeps_leaf_class _ cur_extKeepAll cur_extLeafCopied

end PyGql.Props.C14

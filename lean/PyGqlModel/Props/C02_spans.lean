/-
  C02 (shape / span part) — the tree mirrors the tokens.

  `Item.SpansAll fl items toks` (Spec/Grammar.lean) is the declarative relation "the items derive exactly
  `toks`, and EVERY node below carries `loc = (start of the first token of its own segment, end of the last
  token of its own segment)`; sibling segments are consecutive pieces of the parent's segment" — so children
  are nested in the parent's span and ordered.  With `no_location` every `loc` is `none`.
-/
import PyGqlModel.Props.C01_parse
namespace PyGql.Props.C02
open PyGql PyGql.Ast PyGql.Parse PyGql.Spec PyGql.Props.C01

/-- shape + spans for standalone types: node kinds, names and order are those of the derivation, every `loc` is
    the span of the node's own tokens -/
theorem span_spec_type (fl : Flags) (toks : List Tok) (t : TypeRef) (h : parseType fl toks = .ok t) :
    Item.SpansAll fl [p .sof, typeV t, p .eof] toks :=
  parseType_sound_spans fl toks t h

/-- shape + spans for standalone values (lists and objects of any nesting) -/
theorem span_spec_value (fl : Flags) (toks : List Tok) (v : Value) (h : parseValue fl toks = .ok v) :
    Item.SpansAll fl [p .sof, valueV v, p .eof] toks :=
  matches_spans _ _ _ (parseValue_sound fl toks v h).2

/-- FULL STATEMENT for documents -/
def SpanSpecDocument : Prop :=
  ∀ (fl : Flags) (toks : List Tok) (d : Document), parseDocument fl toks = .ok d → Item.SpansAll fl [documentV d] toks

/-- `span_spec` for the two sub-grammars proved (values, types; all flags). MISSING: documents — follows from
    `C01.ParseSoundDocument` by `matches_spans`, which is proved for every view. -/
theorem span_spec_partial (fl : Flags) (toks : List Tok) :
    (∀ v, parseValue fl toks = .ok v → Item.SpansAll fl [p .sof, valueV v, p .eof] toks) ∧
    (∀ t, parseType fl toks = .ok t → Item.SpansAll fl [p .sof, typeV t, p .eof] toks) :=
  ⟨span_spec_value fl toks, span_spec_type fl toks⟩

/-- the reduction of the document statement to C01's: spans come for free from soundness, for EVERY view -/
theorem span_spec_of_sound (hs : ParseSoundDocument) : SpanSpecDocument :=
  fun fl toks d h => matches_spans _ _ _ (hs fl toks d h).2

/-! ### `no_location` -/

mutual
/-- every node of the item has `loc = none` -/
def noLoc : Item → Bool
  | .node loc is => loc.isNone && noLocAll is
  | _ => true
def noLocAll : List Item → Bool
  | [] => true
  | i :: is => noLoc i && noLocAll is
end

mutual
theorem check_noLoc (fl : Flags) (hf : fl.noLocation = true) : ∀ (i : Item) (l l' : Tok) (ts rest : List Tok),
    i.check fl l ts = some (l', rest) → noLoc i = true
  | .tok _ _, _, _, _, _, _ => by simp [noLoc]
  | .optTok _ _, _, _, _, _, _ => by simp [noLoc]
  | .nla _, _, _, _, _, _ => by simp [noLoc]
  | .node loc is, l, l', ts, rest, h => by
    rw [check_node] at h
    obtain ⟨f, tl, rfl, hall, hloc⟩ := h
    have := checkAll_noLoc fl hf is l l' (f :: tl) rest hall
    simp [noLoc, this, hloc, locOf, hf]
theorem checkAll_noLoc (fl : Flags) (hf : fl.noLocation = true) : ∀ (is : List Item) (l l' : Tok) (ts rest : List Tok),
    Item.checkAll fl is l ts = some (l', rest) → noLocAll is = true
  | [], _, _, _, _, _ => by simp [noLocAll]
  | i :: is, l, l', ts, rest, h => by
    rw [checkAll_cons] at h
    obtain ⟨l1, ts1, h1, h2⟩ := h
    simp [noLocAll, check_noLoc fl hf i l l1 ts ts1 h1, checkAll_noLoc fl hf is l1 l' ts1 rest h2]
end

/-- with `no_location` every `loc` of a parsed value / type is absent -/
theorem noloc_all_none (fl : Flags) (hf : fl.noLocation = true) (toks : List Tok) :
    (∀ v, parseValue fl toks = .ok v → noLoc (valueV v) = true) ∧
    (∀ t, parseType fl toks = .ok t → noLoc (typeV t) = true) := by
  constructor
  · intro v h
    obtain ⟨l', hm⟩ := (matches_iff _ _ _).1 (parseValue_sound fl toks v h).2
    have := checkAll_noLoc fl hf _ _ _ _ _ hm
    simp [noLocAll] at this; exact this.2.1
  · intro t h
    obtain ⟨l', hm⟩ := (matches_iff _ _ _).1 (parseType_sound fl toks t h).2
    have := checkAll_noLoc fl hf _ _ _ _ _ hm
    simp [noLocAll] at this; exact this.2.1

/-- A CONSEQUENCE of the full `noloc_erasure` statement ("the `no_location` tree is the located tree with every
    `loc` erased"): accept/reject does not depend on `no_location`.  NOT PROVED (kept visible): it needs an `erase`
    function on the AST and `parse {fl with noLocation := true} toks = (parse fl toks).map erase`.  Proved above:
    every `loc` is absent (`noloc_all_none`).  The direct oracle compares the two `to_dict()`s on every accepted
    input (corr/C02_spans.py `check_noloc`). -/
def NolocAcceptanceStatement : Prop :=
  ∀ (fl : Flags) (toks : List Tok), (parseType { fl with noLocation := true } toks).toBool = (parseType fl toks).toBool

/-! ### non-vacuity -/
private def tk (k : TokKind) (s e : Nat) (v : Text := []) : Tok := { kind := k, start := s, stop := e, value := v }
private def toksT : List Tok :=
  [tk .sof 0 0, tk .bracketL 0 1, tk .name 2 3 [65], tk .bang 3 4, tk .bracketR 5 6, tk .eof 7 7]

/-- `[ A! ]`: the list type spans (0,6), the non-null (2,4), the name (2,3) -/
example : parseType {} toksT =
    .ok (.list (.nonNull (.named ⟨⟨[65], some (2, 3)⟩, some (2, 3)⟩) (some (2, 4))) (some (0, 6))) := rfl
example : parseType { noLocation := true } toksT = .ok (.list (.nonNull (.named ⟨⟨[65], none⟩, none⟩) none) none) := rfl

end PyGql.Props.C02

/-
  C02 (shape / span part) — the tree mirrors the tokens.

  `Item.SpansAll fl items toks` (Spec/Grammar.lean) is the declarative relation "the items derive exactly
  `toks`, and EVERY node below carries `loc = (start of the first token of its own segment, end of the last
  token of its own segment)`; sibling segments are consecutive pieces of the parent's segment" — so children
  are nested in the parent's span and ordered.  With `no_location` every `loc` is `none`.
-/
import PyGqlModel.Props.C01_parse
import PyGqlModel.Lemmas.ParseErase3
namespace PyGql.Props.C02
open PyGql PyGql.Ast PyGql.Parse PyGql.Spec PyGql.Props.C01

/-- shape + spans for standalone types: node kinds, names and order are those of the derivation, every `loc` is
    the span of the node's own tokens -/
theorem span_spec_type (fl : Flags) (toks : List Tok) (t : TypeRef) (h : parseType fl toks = .ok t) :
    Item.SpansAll fl [p .sof, typeV t, p .eof] toks :=
  parseType_sound_spans fl toks t h

/-- shape + spans for standalone values (lists and objects of any nesting) -/
theorem span_spec_value (fl : Flags) (toks : List Tok) (v : Value) (h : parseValue fl toks = .ok v) :
    Item.SpansAll fl [p .sof, valueV v, p .eof] toks :=
  matches_spans _ _ _ (parseValue_sound fl toks v h).2

/-- FULL STATEMENT for documents -/
def SpanSpecDocument : Prop :=
  ∀ (fl : Flags) (toks : List Tok) (d : Document), parseDocument fl toks = .ok d → Item.SpansAll fl [documentV d] toks

/-- the reduction of the document statement to C01's: spans come for free from soundness, for EVERY view -/
theorem span_spec_of_sound (hs : ParseSoundDocument) : SpanSpecDocument :=
  fun fl toks d h => matches_spans _ _ _ (hs fl toks d h).2

/-- spans for documents, given soundness of the type-system layer when reachable -/
theorem span_spec_document_of (fl : Flags) (hTS : ∀ fuel, fl.allowTypeSystem = true → TSSound fl fuel)
    (toks : List Tok) (d : Document) (h : parseDocument fl toks = .ok d) : Item.SpansAll fl [documentV d] toks :=
  matches_spans _ _ _ (parseDocument_sound_of fl hTS toks d h).2

/-- `span_spec` for EXECUTABLE documents (`allow_type_system=False`, every other flag combination): every node of
    the tree — operations, variable definitions (incl. default values and directives), fields, arguments,
    directives, fragments, values, types, names — has `loc` = (start of its first token, end of its last token),
    children consecutive inside the parent. -/
theorem span_spec_executable (fl : Flags) (hx : fl.allowTypeSystem = false) (toks : List Tok) (d : Document)
    (h : parseDocument fl toks = .ok d) : Item.SpansAll fl [documentV d] toks :=
  matches_spans _ _ _ (parse_sound_executable fl hx toks d h).2

/-- `span_spec` IN FULL: every document (executable and type-system), all 8 flag combinations. -/
theorem span_spec_document : SpanSpecDocument :=
  span_spec_of_sound parse_sound_document

/-! ### `no_location` -/

mutual
/-- every node of the item has `loc = none` -/
def noLoc : Item → Bool
  | .node loc is => loc.isNone && noLocAll is
  | _ => true
def noLocAll : List Item → Bool
  | [] => true
  | i :: is => noLoc i && noLocAll is
end

mutual
theorem check_noLoc (fl : Flags) (hf : fl.noLocation = true) : ∀ (i : Item) (l l' : Tok) (ts rest : List Tok),
    i.check fl l ts = some (l', rest) → noLoc i = true
  | .tok _ _, _, _, _, _, _ => by simp [noLoc]
  | .optTok _ _, _, _, _, _, _ => by simp [noLoc]
  | .nla _, _, _, _, _, _ => by simp [noLoc]
  | .node loc is, l, l', ts, rest, h => by
    rw [check_node] at h
    obtain ⟨f, tl, rfl, hall, hloc⟩ := h
    have := checkAll_noLoc fl hf is l l' (f :: tl) rest hall
    simp [noLoc, this, hloc, locOf, hf]
theorem checkAll_noLoc (fl : Flags) (hf : fl.noLocation = true) : ∀ (is : List Item) (l l' : Tok) (ts rest : List Tok),
    Item.checkAll fl is l ts = some (l', rest) → noLocAll is = true
  | [], _, _, _, _, _ => by simp [noLocAll]
  | i :: is, l, l', ts, rest, h => by
    rw [checkAll_cons] at h
    obtain ⟨l1, ts1, h1, h2⟩ := h
    simp [noLocAll, check_noLoc fl hf i l l1 ts ts1 h1, checkAll_noLoc fl hf is l1 l' ts1 rest h2]
end

/-- with `no_location` every `loc` of a parsed value / type is absent -/
theorem noloc_all_none (fl : Flags) (hf : fl.noLocation = true) (toks : List Tok) :
    (∀ v, parseValue fl toks = .ok v → noLoc (valueV v) = true) ∧
    (∀ t, parseType fl toks = .ok t → noLoc (typeV t) = true) := by
  constructor
  · intro v h
    obtain ⟨l', hm⟩ := (matches_iff _ _ _).1 (parseValue_sound fl toks v h).2
    have := checkAll_noLoc fl hf _ _ _ _ _ hm
    simp [noLocAll] at this; exact this.2.1
  · intro t h
    obtain ⟨l', hm⟩ := (matches_iff _ _ _).1 (parseType_sound fl toks t h).2
    have := checkAll_noLoc fl hf _ _ _ _ _ hm
    simp [noLocAll] at this; exact this.2.1

/-- with `no_location` every `loc` of a parsed DOCUMENT (any flags otherwise) is absent -/
theorem noloc_all_none_document (fl : Flags) (hf : fl.noLocation = true) (toks : List Tok) (d : Document)
    (h : parseDocument fl toks = .ok d) : noLoc (documentV d) = true := by
  obtain ⟨l', hm⟩ := (matches_iff _ _ _).1 (parse_sound_document fl toks d h).2
  have := checkAll_noLoc fl hf _ _ _ _ _ hm
  simp [noLocAll] at this; exact this

/-- A consequence of `noloc_erasure` (proved below as `noloc_acceptance`): accept/reject does not depend on
    `no_location`. -/
def NolocAcceptanceStatement : Prop :=
  ∀ (fl : Flags) (toks : List Tok), (parseType { fl with noLocation := true } toks).toBool = (parseType fl toks).toBool

/-! ### `noloc_erasure`: the equation -/

/-- `no_location=True` changes NOTHING but the positions: for every token list and every setting of the other flags,
    `parse(…, no_location=True)` is `parse(…)` with every `loc` erased — same acceptance, same tree up to `loc`. -/
theorem noloc_erasure (fl : Flags) (toks : List Tok) :
    parseDocument { fl with noLocation := true } toks = (parseDocument fl toks).map Document.erase :=
  runAll_E _ _ _ (parseDocumentP_E fl) toks

theorem noloc_erasure_value (fl : Flags) (toks : List Tok) :
    parseValue { fl with noLocation := true } toks = (parseValue fl toks).map Value.erase :=
  runAll_E _ _ _ (parseValueP_E fl) toks

theorem noloc_erasure_type (fl : Flags) (toks : List Tok) :
    parseType { fl with noLocation := true } toks = (parseType fl toks).map TypeRef.erase :=
  runAll_E _ _ _ (parseTypeP_E fl) toks

/-- accept/reject does not depend on `no_location` (the statement kept visible since phase 1) -/
theorem noloc_acceptance : NolocAcceptanceStatement := by
  intro fl toks
  rw [noloc_erasure_type]
  cases parseType fl toks <;> rfl

theorem noloc_acceptance_document (fl : Flags) (toks : List Tok) :
    (parseDocument { fl with noLocation := true } toks).toBool = (parseDocument fl toks).toBool := by
  rw [noloc_erasure]
  cases parseDocument fl toks <;> rfl

/-! ### non-vacuity -/
private def tk (k : TokKind) (s e : Nat) (v : Text := []) : Tok := { kind := k, start := s, stop := e, value := v }
private def toksT : List Tok :=
  [tk .sof 0 0, tk .bracketL 0 1, tk .name 2 3 [65], tk .bang 3 4, tk .bracketR 5 6, tk .eof 7 7]

/-- `[ A! ]`: the list type spans (0,6), the non-null (2,4), the name (2,3) -/
example : parseType {} toksT =
    .ok (.list (.nonNull (.named ⟨⟨[65], some (2, 3)⟩, some (2, 3)⟩) (some (2, 4))) (some (0, 6))) := rfl
example : parseType { noLocation := true } toksT = .ok (.list (.nonNull (.named ⟨⟨[65], none⟩, none⟩) none) none) := rfl

/-- `query ($foo: Int = 42 @bar) { foo }` (positions of the text): the VariableDefinition spans `$foo … @bar`
    = (7, 26), i.e. it INCLUDES its directives; the operation spans (0, 35) -/
private def toksQ : List Tok :=
  [tk .sof 0 0, tk .name 0 5 [113, 117, 101, 114, 121], tk .parenL 6 7, tk .dollar 7 8, tk .name 8 11 [102, 111, 111],
   tk .colon 11 12, tk .name 13 16 [73, 110, 116], tk .equals 17 18, tk .int 19 21 [52, 50], tk .atSign 22 23,
   tk .name 23 26 [98, 97, 114], tk .parenR 26 27, tk .curlyL 28 29, tk .name 30 33 [102, 111, 111],
   tk .curlyR 34 35, tk .eof 35 35]

example : (parseDocument {} toksQ).toBool = true := by decide
example : ∃ d, parseDocument {} toksQ = .ok d ∧
    (match d.definitions with
     | [.operation od] => od.loc = some (0, 35) ∧ (od.variableDefinitions.map (·.loc)) = [some (7, 26)]
     | _ => False) := ⟨_, rfl, by decide⟩

end PyGql.Props.C02

/-
  C18 — `once`: no node is entered twice (by identity), for trees whose nodes have distinct identities and tables
  whose `_visit_*` bodies never traverse the same attribute twice (true of today's table: `table_steps_distinct`).
-/
import PyGqlModel.Props.C18

set_option linter.unusedVariables false
set_option linter.unusedSimpArgs false

namespace PyGql.Props.C18
open PyGql.Visit

mutual
/-- identities of all nodes of a tree (names included), pre-order -/
def idsNode : Node → List Nat
  | .mk _ i a => i :: idsAttrs a
def idsAttrs : List (String × Attr) → List Nat
  | [] => []
  | (_, a) :: r => idsAttr a ++ idsAttrs r
def idsAttr : Attr → List Nat
  | .scalar _ => []
  | .one none => []
  | .one (some c) => idsNode c
  | .many cs => idsList cs
def idsList : List Node → List Nat
  | [] => []
  | c :: r => idsNode c ++ idsList r
end

/-- identities handed to `enter`, in order -/
def entered (tr : List Ev) : List Nat := (tr.filter (·.enter)).map (·.node.id)

private theorem entered_append (a b : List Ev) : entered (a ++ b) = entered a ++ entered b := by
  simp [entered]

/-- "`tr` enters only nodes of `L`, each at most once" (when `L` has no duplicates) -/
private def Q (tr : List Ev) (L : List Nat) : Prop := L.Nodup → (entered tr).Nodup ∧ ∀ i ∈ entered tr, i ∈ L

private theorem Q_nil (L : List Nat) : Q [] L := by intro _; simp [entered]

private theorem Q_append {a b : List Ev} {La Lb : List Nat} (ha : Q a La) (hb : Q b Lb) : Q (a ++ b) (La ++ Lb) := by
  intro hnd
  rw [List.nodup_append] at hnd
  obtain ⟨h1, h2, h3⟩ := hnd
  have ⟨a1, a2⟩ := ha h1
  have ⟨b1, b2⟩ := hb h2
  rw [entered_append]
  refine ⟨?_, ?_⟩
  · rw [List.nodup_append]
    exact ⟨a1, b1, fun x hx y hy => h3 x (a2 x hx) y (b2 y hy)⟩
  · intro i hi
    rw [List.mem_append] at hi ⊢
    rcases hi with hi | hi
    · exact Or.inl (a2 i hi)
    · exact Or.inr (b2 i hi)

private theorem Q_mono {a : List Ev} {L L' : List Nat} (h : Q a L) (hsub : ∀ i ∈ L, i ∈ L') (hnd : L'.Nodup → L.Nodup) : Q a L' := by
  intro hn
  have ⟨h1, h2⟩ := h (hnd hn)
  exact ⟨h1, fun i hi => hsub i (h2 i hi)⟩

private theorem walkList_Q {g : Node → Res (List Ev)} (hg : ∀ c tr, g c = .ok tr → Q tr (idsNode c)) :
    ∀ cs tr, Spec.walkList g cs = .ok tr → Q tr (idsList cs) := by
  intro cs
  induction cs with
  | nil => intro tr h; simp [Spec.walkList] at h; subst h; exact Q_nil _
  | cons c cs ih =>
    intro tr h
    simp only [Spec.walkList] at h
    cases h1 : g c with
    | err e => simp [h1] at h
    | fuel => simp [h1] at h
    | ok t1 =>
      simp only [h1] at h
      cases h2 : Spec.walkList g cs with
      | err e => simp [h2] at h
      | fuel => simp [h2] at h
      | ok t2 =>
        simp only [h2, Res.ok.injEq] at h
        subst h
        simp only [idsList]
        exact Q_append (hg c t1 h1) (ih t2 h2)

/-- ids of an attribute found by `lookup` are ids of the attribute list -/
theorem lookup_ids_mem (a : String) (x : Attr) :
    ∀ attrs : List (String × Attr), attrs.lookup a = some x → ∀ i ∈ idsAttr x, i ∈ idsAttrs attrs := by
  intro attrs
  induction attrs with
  | nil => intro h; simp [List.lookup] at h
  | cons p r ih =>
    obtain ⟨b, y⟩ := p
    intro h i hi
    simp only [List.lookup] at h
    simp only [idsAttrs, List.mem_append]
    cases hab : a == b with
    | true => simp only [hab, Option.some.injEq] at h; subst h; exact Or.inl hi
    | false => simp only [hab] at h; exact Or.inr (ih h i hi)

theorem lookup_ids_nodup (a : String) (x : Attr) :
    ∀ attrs : List (String × Attr), attrs.lookup a = some x → (idsAttrs attrs).Nodup → (idsAttr x).Nodup := by
  intro attrs
  induction attrs with
  | nil => intro h; simp [List.lookup] at h
  | cons p r ih =>
    obtain ⟨b, y⟩ := p
    intro h hnd
    simp only [List.lookup] at h
    simp only [idsAttrs, List.nodup_append] at hnd
    cases hab : a == b with
    | true => simp only [hab, Option.some.injEq] at h; subst h; exact hnd.1
    | false => simp only [hab] at h; exact ih h hnd.2.1

/-- different attributes of a node with distinct identities hold disjoint sets of nodes -/
theorem lookup_ids_disjoint (a b : String) (x y : Attr) (hab : a ≠ b) :
    ∀ attrs : List (String × Attr), attrs.lookup a = some x → attrs.lookup b = some y → (idsAttrs attrs).Nodup →
      ∀ i, i ∈ idsAttr x → i ∈ idsAttr y → False := by
  intro attrs
  induction attrs with
  | nil => intro h; simp [List.lookup] at h
  | cons p r ih =>
    obtain ⟨c, z⟩ := p
    intro hx hy hnd i hix hiy
    simp only [List.lookup] at hx hy
    simp only [idsAttrs, List.nodup_append] at hnd
    obtain ⟨n1, n2, n3⟩ := hnd
    cases hac : a == c with
    | true =>
      cases hbc : b == c with
      | true =>
        have e1 : a = c := by simpa using hac
        have e2 : b = c := by simpa using hbc
        exact hab (e1.trans e2.symm)
      | false =>
        simp only [hac, Option.some.injEq] at hx
        simp only [hbc] at hy
        subst hx
        exact n3 i hix i (lookup_ids_mem b y r hy i hiy) rfl
    | false =>
      cases hbc : b == c with
      | true =>
        simp only [hbc, Option.some.injEq] at hy
        simp only [hac] at hx
        subst hy
        exact n3 i hiy i (lookup_ids_mem a x r hx i hix) rfl
      | false =>
        simp only [hac] at hx
        simp only [hbc] at hy
        exact ih hx hy n2 i hix hiy

/-- ids reachable through the attribute a step reads -/
private def stepIds (n : Node) (st : Step) : List Nat :=
  match n.getAttr st.attr with
  | some x => idsAttr x
  | none => []

private theorem walkStep_Q {call : Target → Node → Res (List Ev)} (hc : ∀ t c tr, call t c = .ok tr → Q tr (idsNode c))
    (st : Step) (n : Node) (tr : List Ev) (h : Spec.walkStep call st n = .ok tr) : Q tr (stepIds n st) := by
  unfold Spec.walkStep at h
  split at h
  · simp at h; subst h; exact Q_nil _
  · split at h
    · simp at h
    · rename_i a ha
      simp only [stepIds, ha]
      split at h
      · split at h <;> simp at h
        subst h; exact Q_nil _
      · rename_i c hs
        simp only [idsAttr]
        exact hc _ _ _ h
      · rename_i cs hs
        simp only [idsAttr]
        exact walkList_Q (hc _) _ _ h
      · simp at h

/-- the statement of `once` for the visitor-free walk of one method body -/
private theorem walkSteps_Q {call : Target → Node → Res (List Ev)} (hc : ∀ t c tr, call t c = .ok tr → Q tr (idsNode c))
    (n : Node) (hnd : (idsAttrs n.attrs).Nodup) :
    ∀ (steps : List Step) (tr : List Ev), (steps.map (·.attr)).Nodup → Spec.walkSteps call steps n = .ok tr →
      (entered tr).Nodup ∧ ∀ i ∈ entered tr, ∃ st ∈ steps, i ∈ stepIds n st := by
  intro steps
  induction steps with
  | nil => intro tr _ h; simp [Spec.walkSteps] at h; subst h; simp [entered]
  | cons st rest ih =>
    intro tr hd h
    simp only [Spec.walkSteps] at h
    cases h1 : Spec.walkStep call st n with
    | err e => simp [h1] at h
    | fuel => simp [h1] at h
    | ok t1 =>
      simp only [h1] at h
      cases h2 : Spec.walkSteps call rest n with
      | err e => simp [h2] at h
      | fuel => simp [h2] at h
      | ok t2 =>
        simp only [h2, Res.ok.injEq] at h
        subst h
        simp only [List.map_cons, List.nodup_cons] at hd
        have ⟨r1, r2⟩ := ih t2 hd.2 h2
        have hq := walkStep_Q hc st n t1 h1
        have hsn : (stepIds n st).Nodup := by
          unfold stepIds
          cases hg : n.getAttr st.attr with
          | none => simp
          | some x => exact lookup_ids_nodup _ _ _ hg hnd
        have ⟨q1, q2⟩ := hq hsn
        rw [entered_append]
        refine ⟨?_, ?_⟩
        · rw [List.nodup_append]
          refine ⟨q1, r1, ?_⟩
          intro i hi j hj hij
          subst hij
          obtain ⟨st2, hst2, hmem2⟩ := r2 i hj
          have hmem1 := q2 i hi
          have hne : st.attr ≠ st2.attr := by
            intro he
            exact hd.1 (by rw [he]; exact List.mem_map.mpr ⟨st2, hst2, rfl⟩)
          unfold stepIds at hmem1 hmem2
          cases hg1 : n.getAttr st.attr with
          | none => simp [hg1] at hmem1
          | some x =>
            cases hg2 : n.getAttr st2.attr with
            | none => simp [hg2] at hmem2
            | some y =>
              simp only [hg1] at hmem1
              simp only [hg2] at hmem2
              exact lookup_ids_disjoint _ _ x y hne _ hg1 hg2 hnd i hmem1 hmem2
        · intro i hi
          rw [List.mem_append] at hi
          rcases hi with hi | hi
          · exact ⟨st, by simp, q2 i hi⟩
          · obtain ⟨st2, hst2, hm⟩ := r2 i hi
            exact ⟨st2, by simp [hst2], hm⟩

private theorem stepIds_sub (n : Node) (st : Step) : ∀ i ∈ stepIds n st, i ∈ idsAttrs n.attrs := by
  intro i hi
  unfold stepIds at hi
  cases hg : n.getAttr st.attr with
  | none => simp [hg] at hi
  | some x => simp only [hg] at hi; exact lookup_ids_mem _ _ _ hg i hi

/-- table hypothesis: no method body traverses the same attribute twice -/
def StepsDistinct (T : Table) : Prop := ∀ m steps, T.methods.lookup m = some steps → (steps.map (·.attr)).Nodup

private theorem walk_Q (T : Table) (hT : StepsDistinct T) :
    ∀ fuel m n tr, Spec.walk T fuel m n = .ok tr → Q tr (idsNode n) := by
  intro fuel
  induction fuel with
  | zero => intro m n tr h; simp [Spec.walk] at h
  | succ fuel ih =>
    intro m n tr h
    simp only [Spec.walk] at h
    split at h
    · simp at h
    · rename_i steps hm
      split at h
      · simp at h
      · simp at h
      · rename_i body hb
        simp only [Res.ok.injEq] at h
        subst h
        intro hnd
        cases n with
        | mk k i attrs =>
          simp only [idsNode, List.nodup_cons] at hnd
          have hcall : ∀ t c tr, Spec.walkTarget T (Spec.walk T fuel) t c = .ok tr → Q tr (idsNode c) := by
            intro t c tr hc
            unfold Spec.walkTarget at hc
            split at hc
            · exact ih _ _ _ hc
            · simp at hc
          have ⟨b1, b2⟩ := walkSteps_Q hcall (.mk k i attrs) (by simpa [Node.attrs] using hnd.2) steps body (hT m steps hm) hb
          have hsub : ∀ j ∈ entered body, j ∈ idsAttrs attrs := by
            intro j hj
            obtain ⟨st, _, hm⟩ := b2 j hj
            simpa [Node.attrs] using stepIds_sub (.mk k i attrs) st j hm
          have he : entered (⟨true, .mk k i attrs⟩ :: body ++ [⟨false, .mk k i attrs⟩]) = i :: entered body := by
            simp [entered, Node.id]
          rw [he]
          refine ⟨?_, ?_⟩
          · rw [List.nodup_cons]
            exact ⟨fun hmem => hnd.1 (hsub i hmem), b1⟩
          · intro j hj
            simp only [idsNode, List.mem_cons] at hj ⊢
            rcases hj with hj | hj
            · exact Or.inl hj
            · exact Or.inr (hsub j hj)

/-- **once** — a visitor that changes nothing never enters a node twice: if the nodes of the tree have distinct
    identities (alias-free tree) and no `_visit_*` body traverses the same attribute twice, the identities handed
    to `enter` during a completed visit are pairwise distinct, and all belong to the tree. -/
theorem once (T : Table) (hT : StepsDistinct T) (v : Visitor σ) (hv : Observer v) (fuel : Nat) (t : Node) (s : σ)
    (o : Out σ) (h : visit T v fuel t s = .ok o) (hnd : (idsNode t).Nodup) :
    (entered o.tr).Nodup ∧ ∀ i ∈ entered o.tr, i ∈ idsNode t := by
  have hw := coverage_partial T v hv fuel t s o h
  unfold Spec.implEvents at hw
  split at hw
  · simp at hw
  · exact walk_Q T hT fuel _ t o.tr hw hnd

end PyGql.Props.C18

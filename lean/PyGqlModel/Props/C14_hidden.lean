/-
  C14 — "removed elements are unreachable": hidden FIELDS and INPUT FIELDS (`visibility_hides_type` covers hidden TYPES).

  `MembersNamed Q QI h a`: every member the (object / interface) type object at `a` lists IS a field object whose name
  `Q typeName fieldName` accepts; every member an input object type lists is an input field object `QI typeName fieldName` accepts.
  * `visibility_hides_members` (FULL): after `VisibilitySchemaTransform.on_schema` (arbitrary predicates; types may be hidden as
    well; the healing rounds that follow included) on a closed well-formed schema, EVERY type the result registers only lists
    fields with `is_field_visible(type, field)` and input fields with `is_input_field_visible(type, field)`. With closedness
    (`visitor_closed`) the hidden members are unreachable: everything reachable from the result is reached through these lists.
  * `visibility_hides_members_transform`: the same for `transform_schema(source, VisibilitySchemaTransform())`.
  Proof: the visitor round establishes the property on every type object it returns (`round_named`); the healing that follows
  only lists copies, under the same name, of a sub-list of those members (`healLoop_mem`, the state after the round as source).
  Non-vacuity: `hideName` hides the FIELD `Dog.name` and nothing else; the result still registers `Dog`, with no field
  (`visibility_field_witness`).
  * `visibility_hides_directives` (FULL): every directive object the result registers has `is_directive_visible(name)`
    (`visibility_directive_witness`: `hideLim` removes the directive `lim`).
  * `directive_drops_fields` (FULL): after a drop/wrap schema-directive visitor (healing included) no registered type lists a
    field the directive dropped (`MembersNamed (fun t f => !drop t f)`).
  `visitor_members_named` is the generic statement behind the field-level theorems (any visitor whose type-level hook returns
  objects listing accepted members only: `NamingHook`). Arguments cannot be hidden individually by the modelled visitors (they
  disappear with their type: `visibility_hides_type` + closedness).
-/
import PyGqlModel.Lemmas.HeapCamelView
import PyGqlModel.Props.C14_members
import PyGqlModel.Props.C14_order

set_option linter.unusedSimpArgs false
set_option linter.unusedVariables false

namespace PyGql.Props.C14
open PyGql.Heap PyGql.Heap.Own

def MembersNamed (Q QI : String → String → Bool) (h : Heap) (a : Addr) : Prop :=
  ∀ t, h.readType a = some t →
    ((t.kind = Kind.object ∨ t.kind = Kind.interface) → ∀ c, c ∈ t.fields → ∃ f, h.readField c = some f ∧ Q t.name f.name = true) ∧
    (t.kind = Kind.input → ∀ c, c ∈ t.fields → ∃ g, h.readArg c = some g ∧ QI t.name g.name = true)

/-- the property of a type object of `hh` whose members are (some of) good members of `h`, `hh` being a step away from `h` -/
theorem named_of_step {Q QI : String → String → Bool} {h hh : Heap} (st : StepImp chkT h hh) {a' : Addr} {t' : TypeO}
    (ht' : hh.readType a' = some t') (nm : String) (hn : t'.name = nm)
    (hF : (t'.kind = Kind.object ∨ t'.kind = Kind.interface) → ∀ c, c ∈ t'.fields → ∃ f, h.readField c = some f ∧ Q nm f.name = true)
    (hI : t'.kind = Kind.input → ∀ c, c ∈ t'.fields → ∃ g, h.readArg c = some g ∧ QI nm g.name = true) : MembersNamed Q QI hh a' := by
  intro t ht
  rw [ht'] at ht
  cases ht
  refine ⟨fun hk c hc => ?_, fun hk c hc => ?_⟩
  · obtain ⟨f, hf, hq⟩ := hF hk c hc
    obtain ⟨o', hr', hd, _, _⟩ := st c _ (readField_read hf)
    cases o' with
    | field f' =>
      simp only [SameHead] at hd
      exact ⟨f', readField_of_read hr', by rw [hn, hd.1]; exact hq⟩
    | type _ => simp [SameHead] at hd
    | arg _ => simp [SameHead] at hd
    | dir _ => simp [SameHead] at hd
  · obtain ⟨g, hg, hq⟩ := hI hk c hc
    obtain ⟨o', hr', hd, _, _⟩ := st c _ (readArg_read hg)
    cases o' with
    | arg g' =>
      simp only [SameHead] at hd
      exact ⟨g', readArg_of_read hr', by rw [hn, hd.1]; exact hq⟩
    | type _ => simp [SameHead] at hd
    | field _ => simp [SameHead] at hd
    | dir _ => simp [SameHead] at hd

theorem MembersNamed.keep {Q QI : String → String → Bool} {h h' : Heap} (st : StepImp chkT h h') {a : Addr}
    (r : MembersNamed Q QI h a) {t0 : TypeO} (ht0 : h.readType a = some t0) : MembersNamed Q QI h' a := by
  obtain ⟨o', hr', hd, hk, _⟩ := st a _ (readType_read ht0)
  cases o' with
  | type t' =>
    simp only [SameHead] at hd
    have hsub : ∀ c, c ∈ t'.fields → c ∈ t0.fields := fun c hc => (List.Sublist.subset (by simpa [kids] using hk)) hc
    obtain ⟨r1, r2⟩ := r t0 ht0
    exact named_of_step st (readType_of_read hr') t0.name hd.2.1
      (fun hkd c hc => r1 (by rw [← hd.1]; exact hkd) c (hsub c hc))
      (fun hkd c hc => r2 (by rw [← hd.1]; exact hkd) c (hsub c hc))
  | field _ => simp [SameHead] at hd
  | arg _ => simp [SameHead] at hd
  | dir _ => simp [SameHead] at hd

/-! ### the visibility hooks -/

theorem onArgument_vis_id (p : VisP) (reg : List (String × Addr)) (h : Heap) (a : Addr) : onArgument (.vis p) reg h a = (h, some a) := by
  simp only [onArgument]
  split <;> rfl

theorem mapFilter_id {f : Heap → Addr → Heap × Option Addr} (hf : ∀ h a, f h a = (h, some a)) :
    ∀ (as : List Addr) (h : Heap), mapFilter f h as = (h, as) := by
  intro as
  induction as with
  | nil => intro h; rfl
  | cons a as ih => intro h; simp only [mapFilter, hf, ih]

theorem onField_vis_id (p : VisP) (reg : List (String × Addr)) (tn : String) (h : Heap) (c : Addr) :
    onField (.vis p) reg tn h c = (h, some c) := by
  simp only [onField]
  split
  · rfl
  · simp only [onFieldBase, mapFilter_id (onArgument_vis_id p reg), bne_self_eq_false, Bool.false_eq_true, if_false]

theorem compositeRest_vis_eq (p : VisP) (reg : List (String × Addr)) (a : Addr) (h : Heap) (t : TypeO) :
    compositeRest (.vis p) reg a h t = (h, some a) := by
  simp only [compositeRest, mapFilter_id (onField_vis_id p reg t.name), rebuiltOrSame, bne_self_eq_false, Bool.false_eq_true, if_false]

theorem mapFilter_sub {f : Heap → Addr → Heap × Option Addr}
    (hf : ∀ h a, (f h a).1 = h ∧ ((f h a).2 = some a ∨ (f h a).2 = none)) :
    ∀ (as : List Addr) (h : Heap), (mapFilter f h as).1 = h ∧ List.Sublist (mapFilter f h as).2 as := by
  intro as
  induction as with
  | nil => intro h; exact ⟨rfl, List.Sublist.refl _⟩
  | cons a as ih =>
    intro h
    simp only [mapFilter]
    obtain ⟨h1, h2⟩ := hf h a
    rw [h1]
    obtain ⟨i1, i2⟩ := ih h
    refine ⟨i1, ?_⟩
    rcases h2 with h2 | h2 <;> rw [h2]
    · exact List.Sublist.cons₂ _ i2
    · exact List.Sublist.cons _ i2

theorem onInputField_vis_sub (p : VisP) (reg : List (String × Addr)) (h : Heap) (c : Addr) :
    (onInputField (.vis p) reg h c).1 = h ∧ ((onInputField (.vis p) reg h c).2 = some c ∨ (onInputField (.vis p) reg h c).2 = none) := by
  simp only [onInputField]
  split
  · exact ⟨rfl, Or.inl rfl⟩
  · split
    · exact ⟨rfl, Or.inl rfl⟩
    · exact ⟨rfl, Or.inr rfl⟩

/-- what `on_object` / `on_interface` / `on_input_object` / … of the visibility visitor return lists visible members only -/
theorem onType_vis_named (p : VisP) (reg : List (String × Addr)) (h : Heap) (a : Addr) (r : TypeReadable h a) :
    ∀ a', (onType (.vis p) reg h a).2 = some a' →
      MembersNamed p.fieldVis p.inputVis (onType (.vis p) reg h a).1 a' ∧ ∃ t', (onType (.vis p) reg h a).1.readType a' = some t' := by
  obtain ⟨t, ht, hm⟩ := r
  simp only [onType, ht]
  simp only [MembersReadable] at hm
  have hlt := readType_lt' ht
  -- the fields the filter keeps are visible field objects
  have keptF : (t.kind = Kind.object ∨ t.kind = Kind.interface) → ∀ c,
      c ∈ (t.fields.filter fun fa => match fieldName h fa with | some fnm => p.fieldVis t.name fnm | none => true) →
      ∃ f, h.readField c = some f ∧ p.fieldVis t.name f.name = true := by
    intro hk c hc
    obtain ⟨hc1, hc2⟩ := List.mem_filter.mp hc
    have hm' : ∀ a, a ∈ t.fields → ∃ f, h.readField a = some f ∧ ∀ x, x ∈ f.args → ∃ g, h.readArg x = some g := by
      rcases hk with hk | hk <;> simpa [hk] using hm
    obtain ⟨f, hf, _⟩ := hm' c hc1
    simp only [fieldName, hf, Option.map_some] at hc2
    exact ⟨f, hf, hc2⟩
  have compositeCase : (t.kind = Kind.object ∨ t.kind = Kind.interface) → ∀ a', (onComposite (.vis p) reg h a t).2 = some a' →
      MembersNamed p.fieldVis p.inputVis (onComposite (.vis p) reg h a t).1 a' ∧ ∃ t', (onComposite (.vis p) reg h a t).1.readType a' = some t' := by
    intro hk
    simp only [onComposite]
    split
    · intro a' e; cases e
    · split
      · rename_i hne
        rw [compositeRest_vis_eq]
        intro a' e
        cases e
        have st := write_type_fields chkT h a t _ ht (List.filter_sublist (l := t.fields)
          (p := fun fa => match fieldName h fa with | some fnm => p.fieldVis t.name fnm | none => true))
        have hr := readType_write_self h a { t with fields := t.fields.filter fun fa => match fieldName h fa with | some fnm => p.fieldVis t.name fnm | none => true } hlt
        exact ⟨named_of_step st hr t.name rfl (fun _ c hc => keptF hk c hc) (fun hki => by rcases hk with hk | hk <;> simp [hk] at hki), _, hr⟩
      · rename_i hne
        have heq := bne_false_eq hne
        rw [compositeRest_vis_eq]
        intro a' e
        cases e
        exact ⟨named_of_step (StepImp.refl chkT h) ht t.name rfl (fun _ c hc => keptF hk c (Eq.mpr (congrArg (fun l => c ∈ l) heq) hc))
          (fun hki => by rcases hk with hk | hk <;> simp [hk] at hki), _, ht⟩
  cases hk : t.kind <;> simp only [hk] at hm ⊢
  · exact compositeCase (Or.inl hk)
  · exact compositeCase (Or.inr hk)
  · -- union
    intro a' e
    simp only [onUnion] at e ⊢
    by_cases hv : p.isTypeVisible t.name = true
    · simp only [hv, if_true] at e ⊢
      cases e
      exact ⟨named_of_step (StepImp.refl chkT h) ht t.name rfl (fun hk' => by rcases hk' with hk' | hk' <;> simp [hk] at hk') (fun hk' => by simp [hk] at hk'), _, ht⟩
    · rw [if_neg hv] at e
      cases e
  · -- enum
    intro a' e
    simp only [onLeaf] at e ⊢
    by_cases hv : p.isTypeVisible t.name = true
    · simp only [hv, if_true] at e ⊢
      cases e
      exact ⟨named_of_step (StepImp.refl chkT h) ht t.name rfl (fun hk' => by rcases hk' with hk' | hk' <;> simp [hk] at hk') (fun hk' => by simp [hk] at hk'), _, ht⟩
    · rw [if_neg hv] at e
      cases e
  · -- input object
    have keptI : ∀ c, c ∈ (t.fields.filter fun fa => match argName h fa with | some fnm => p.inputVis t.name fnm | none => true) →
        ∃ g, h.readArg c = some g ∧ p.inputVis t.name g.name = true := by
      intro c hc
      obtain ⟨hc1, hc2⟩ := List.mem_filter.mp hc
      obtain ⟨g, hg⟩ := hm c hc1
      simp only [argName, hg, Option.map_some] at hc2
      exact ⟨g, hg, hc2⟩
    -- `inputRest` on a heap `hh` one step from `h`, with a type record whose fields are kept ones
    have restCase : ∀ (hh : Heap) (t1 : TypeO), StepImp chkT h hh → hh.readType a = some t1 → t1.name = t.name → t1.kind = Kind.input →
        (∀ c, c ∈ t1.fields → ∃ g, h.readArg c = some g ∧ p.inputVis t.name g.name = true) →
        ∀ a', (inputRest (.vis p) reg a t.name hh t1).2 = some a' →
          MembersNamed p.fieldVis p.inputVis (inputRest (.vis p) reg a t.name hh t1).1 a' ∧
            ∃ t', (inputRest (.vis p) reg a t.name hh t1).1.readType a' = some t' := by
      intro hh t1 st ht1 hn1 hk1 hgood
      obtain ⟨m1, m2⟩ := mapFilter_sub (onInputField_vis_sub p reg) t1.fields hh
      simp only [inputRest, rebuiltOrSame, m1]
      intro a' e
      by_cases hv : p.isTypeVisible t.name = true
      · by_cases hne : ((mapFilter (onInputField (.vis p) reg) hh t1.fields).2 != t1.fields) = true
        · simp only [hv, hne, if_true] at e ⊢
          cases e
          exact ⟨named_of_step (st.trans (step_alloc chkT _ _)) (readType_alloc_new _ _) t.name hn1
            (fun hk' => by rcases hk' with hk' | hk' <;> simp [hk1] at hk')
            (fun _ c hc => hgood c (List.Sublist.subset m2 hc)), _, readType_alloc_new _ _⟩
        · simp only [hv, hne, if_true, if_false] at e ⊢
          cases e
          exact ⟨named_of_step st ht1 t.name hn1 (fun hk' => by rcases hk' with hk' | hk' <;> simp [hk1] at hk') (fun _ c hc => hgood c hc), _, ht1⟩
      · rw [if_neg hv] at e
        cases e
    simp only [onInputObject]
    split
    · rename_i hne
      have st := write_type_fields chkT h a t _ ht (List.filter_sublist (l := t.fields)
        (p := fun fa => match argName h fa with | some fnm => p.inputVis t.name fnm | none => true))
      exact restCase _ _ st (readType_write_self h a _ hlt) rfl hk keptI
    · rename_i hne
      have heq := bne_false_eq hne
      exact restCase h t (StepImp.refl chkT h) ht rfl hk (fun c hc => keptI c (Eq.mpr (congrArg (fun l => c ∈ l) heq) hc))
  · -- scalar
    intro a' e
    simp only [onLeaf] at e ⊢
    by_cases hv : p.isTypeVisible t.name = true
    · simp only [hv, if_true] at e ⊢
      cases e
      exact ⟨named_of_step (StepImp.refl chkT h) ht t.name rfl (fun hk' => by rcases hk' with hk' | hk' <;> simp [hk] at hk') (fun hk' => by simp [hk] at hk'), _, ht⟩
    · rw [if_neg hv] at e
      cases e

/-! ### the round, the healing that follows, `on_schema` -/

/-- the type object exists and lists visible members only -/
def Good (Q QI : String → String → Bool) (h : Heap) (a : Addr) : Prop := MembersNamed Q QI h a ∧ ∃ t, h.readType a = some t

/-- what a visitor's type-level hook guarantees about the object it returns -/
def NamingHook (v : Visitor) (Q QI : String → String → Bool) : Prop :=
  ∀ (reg : List (String × Addr)) (h : Heap) (a : Addr), TypeReadable h a → ∀ a', (onType v reg h a).2 = some a' → Good Q QI (onType v reg h a).1 a'

theorem Good.keep {Q QI : String → String → Bool} {h h' : Heap} (st : StepImp chkT h h') {a : Addr} (g : Good Q QI h a) : Good Q QI h' a := by
  obtain ⟨m, t, ht⟩ := g
  obtain ⟨t', ht', _⟩ := readType_keep st a t ht
  exact ⟨m.keep st ht, t', ht'⟩

theorem TypeReadable.keepStep {h h' : Heap} (st : StepImp chkT h h') {a : Addr} (r : TypeReadable h a) : TypeReadable h' a := by
  obtain ⟨t, ht, hm⟩ := r
  obtain ⟨o', hr', hd, hk, _⟩ := st a _ (readType_read ht)
  have argK : ∀ x, (∃ g, h.readArg x = some g) → ∃ g, h'.readArg x = some g := by
    intro x ⟨g, hg⟩
    obtain ⟨o2, hr2, hd2, _, _⟩ := st x _ (readArg_read hg)
    cases o2 with
    | arg g' => exact ⟨g', readArg_of_read hr2⟩
    | type _ => simp [SameHead] at hd2
    | field _ => simp [SameHead] at hd2
    | dir _ => simp [SameHead] at hd2
  have fieldK : ∀ x, (∃ f, h.readField x = some f ∧ ∀ y, y ∈ f.args → ∃ g, h.readArg y = some g) →
      ∃ f, h'.readField x = some f ∧ ∀ y, y ∈ f.args → ∃ g, h'.readArg y = some g := by
    intro x ⟨f, hf, ha⟩
    obtain ⟨o2, hr2, hd2, hk2, _⟩ := st x _ (readField_read hf)
    cases o2 with
    | field f' =>
      exact ⟨f', readField_of_read hr2, fun y hy => argK y (ha y (List.Sublist.subset (by simpa [kids] using hk2) hy))⟩
    | type _ => simp [SameHead] at hd2
    | arg _ => simp [SameHead] at hd2
    | dir _ => simp [SameHead] at hd2
  cases o' with
  | type t' =>
    simp only [SameHead] at hd
    have hsub : ∀ c, c ∈ t'.fields → c ∈ t.fields := fun c hc => List.Sublist.subset (by simpa [kids] using hk) hc
    refine ⟨t', readType_of_read hr', ?_⟩
    simp only [MembersReadable, hd.1] at hm ⊢
    cases hkk : t.kind <;> simp only [hkk] at hm ⊢
    · exact fun x hx => fieldK x (hm x (hsub x hx))
    · exact fun x hx => fieldK x (hm x (hsub x hx))
    · exact fun x hx => argK x (hm x (hsub x hx))
  | field _ => simp [SameHead] at hd
  | arg _ => simp [SameHead] at hd
  | dir _ => simp [SameHead] at hd

theorem visitTypes_named (v : Visitor) (Q QI : String → String → Bool) (hook : NamingHook v Q QI) (reg : List (String × Addr)) :
    ∀ (l : List (String × Addr)) (h : Heap), (∀ e, e ∈ l → isProtected e.1 = false → TypeReadable h e.2) →
      (∀ x, x ∈ (visitTypes v reg h l).2 → ∀ a', x.2 = some a' → Good Q QI (visitTypes v reg h l).1 a') ∧
      (∀ e, e ∈ l → isProtected e.1 = false →
        (∃ x, x ∈ (visitTypes v reg h l).2 ∧ x.1 = e.1) ∨ Good Q QI (visitTypes v reg h l).1 e.2) := by
  intro l
  induction l with
  | nil => intro h _; exact ⟨by simp [visitTypes], by simp⟩
  | cons e0 rest ih =>
    intro h hin
    obtain ⟨n, a⟩ := e0
    by_cases hp : isProtected n = true
    · simp only [visitTypes, hp, if_true]
      obtain ⟨f1, f2⟩ := ih h (fun e he => hin e (by simp [he]))
      refine ⟨f1, ?_⟩
      intro e he hnp
      simp only [List.mem_cons] at he
      rcases he with rfl | he
      · simp [hnp] at hp
      · exact f2 e he hnp
    · have hnp : isProtected n = false := by simpa using hp
      simp only [visitTypes, hnp, Bool.false_eq_true, if_false]
      have st0 := onType_step v reg h a chkT (compat_true _ reg)
      have strest := visitTypes_step v reg rest (onType v reg h a).1 chkT (compat_true _ reg)
      obtain ⟨f1, f2⟩ := ih (onType v reg h a).1 (fun e he hq => TypeReadable.keepStep st0 (hin e (by simp [he]) hq))
      have hhead : ∀ a', (onType v reg h a).2 = some a' → Good Q QI (visitTypes v reg (onType v reg h a).1 rest).1 a' :=
        fun a' ea => Good.keep strest (hook reg h a (hin (n, a) (by simp) hnp) a' ea)
      refine ⟨?_, ?_⟩
      · intro x hx a' ea
        split at hx
        · simp only [List.mem_cons] at hx
          rcases hx with rfl | hx
          · exact hhead a' ea
          · exact f1 x hx a' ea
        · exact f1 x hx a' ea
      · intro e he hq
        simp only [List.mem_cons] at he
        rcases he with rfl | he
        · split
          · exact Or.inl ⟨(n, (onType v reg h a).2), List.mem_cons_self, rfl⟩
          · rename_i hsame
            right
            have hsm : (onType v reg h a).2 = some a := by simpa using hsame
            exact hhead a hsm
        · rcases f2 e he hq with ⟨x, hx, hxe⟩ | h2
          · left
            split
            · exact ⟨x, by simp [hx], hxe⟩
            · exact ⟨x, hx, hxe⟩
          · exact Or.inr h2

private theorem sub2_mem_right {α β : Type} {R : α → β → Prop} {l1 : List α} {l2 : List β} (h : Sub2 R l1 l2) :
    ∀ b, b ∈ l2 → ∃ a, a ∈ l1 ∧ R a b := by
  induction h with
  | nil => intro b hb; cases hb
  | skip _ ih => intro b hb; obtain ⟨a, ha, r⟩ := ih b hb; exact ⟨a, by simp [ha], r⟩
  | cons r _ ih =>
    intro b hb
    simp only [List.mem_cons] at hb
    rcases hb with rfl | hb
    · exact ⟨_, by simp, r⟩
    · obtain ⟨a, ha, r'⟩ := ih b hb; exact ⟨a, by simp [ha], r'⟩

/-- a type object that is a copy (`TRel`, names kept) of one that lists visible members only lists visible members only -/
theorem visGood_of_trel {Q QI : String → String → Bool} {h0 h : Heap} {t0 : TypeO} {a0 a' : Addr} (ht0 : h0.readType a0 = some t0)
    (g : MembersNamed Q QI h0 a0) (r : TRel id h0 h t0 a') : MembersNamed Q QI h a' := by
  obtain ⟨t', ht', hat, hm⟩ := r
  have hkind := hat.kind
  have hname : t'.name = t0.name := by simp only [TAttr, SameHead] at hat; exact hat.2.1
  obtain ⟨g1, g2⟩ := g t0 ht0
  intro t ht
  rw [ht'] at ht
  cases ht
  refine ⟨fun hk c hc => ?_, fun hk c hc => ?_⟩
  · have hk0 : t0.kind = Kind.object ∨ t0.kind = Kind.interface := by rw [← hkind]; exact hk
    have hm' : Sub2 (FRel id h0 h) t0.fields t'.fields := by rcases hk0 with hk0 | hk0 <;> simpa [MRel, hk0] using hm
    obtain ⟨c0, hc0, f0, f', hf0, hf', hattr, _⟩ := sub2_mem_right hm' c hc
    obtain ⟨f1, hf1, hq⟩ := g1 hk0 c0 hc0
    rw [hf0] at hf1
    cases hf1
    exact ⟨f', hf', by rw [hname, hattr.1]; exact hq⟩
  · have hk0 : t0.kind = Kind.input := by rw [← hkind]; exact hk
    have hm' : Sub2 (ARel id h0 h) t0.fields t'.fields := by simpa [MRel, hk0] using hm
    obtain ⟨c0, hc0, g0, g', hg0, hg', hattr⟩ := sub2_mem_right hm' c hc
    obtain ⟨g3, hg3, hq⟩ := g2 hk0 c0 hc0
    rw [hg0] at hg3
    cases hg3
    exact ⟨g', hg', by rw [hname, hattr.1]; exact hq⟩

/-- every member is related to itself: the registry of a well-formed schema is its own origin -/
theorem memOrigin_refl {chk : Ref → Bool} {h : Heap} {s : Schema} (w : WFs chk h s) : MemOrigin id h s.types h s.types := by
  intro e' he'
  right
  refine ⟨e', he', rfl, fun t0 ht0 => ⟨t0, ht0, TAttr.refl t0, ?_⟩⟩
  have hr := membersReadable_of_shape _ h e'.2 t0 ht0 (w.types e' he')
  have hargs : ∀ (as : List Addr), (∀ a, a ∈ as → ∃ g, h.readArg a = some g) → Sub2 (ARel id h h) as as := by
    intro as
    induction as with
    | nil => intro _; exact Sub2.nil
    | cons a as ih =>
      intro hx
      obtain ⟨g, hg⟩ := hx a (by simp)
      exact Sub2.cons ⟨g, g, hg, hg, AAttr.refl g⟩ (ih fun x hxm => hx x (by simp [hxm]))
  have hfields : ∀ (as : List Addr), (∀ a, a ∈ as → ∃ f, h.readField a = some f ∧ ∀ x, x ∈ f.args → ∃ g, h.readArg x = some g) →
      Sub2 (FRel id h h) as as := by
    intro as
    induction as with
    | nil => intro _; exact Sub2.nil
    | cons a as ih =>
      intro hx
      obtain ⟨f, hf, hfa⟩ := hx a (by simp)
      exact Sub2.cons ⟨f, f, hf, hf, FAttr.refl f, hargs f.args hfa⟩ (ih fun x hxm => hx x (by simp [hxm]))
  simp only [MRel, MembersReadable] at hr ⊢
  cases hk : t0.kind <;> simp only [hk] at hr ⊢
  · exact hfields _ hr
  · exact hfields _ hr
  · exact hargs _ hr

/-- generic: a visitor whose type-level hook returns objects listing `Q` / `QI`-members only (and that does not wrap: the healing
    that follows lists copies under the same names) leaves a schema in which EVERY registered type lists such members only -/
theorem visitor_members_named (cfg : Cfg) (hacc : cfg.accumulateBusted = true) (fuel : Nat) (v : Visitor) (Q QI : String → String → Bool)
    (hook : NamingHook v Q QI) (s : Schema) (h h' : Heap) (s' : Schema)
    (hc : closedB h s = true) (hw : wfB h s = true) (e : onSchema cfg fuel v s h = some (h', s')) :
    ∀ e', e' ∈ s'.types → MembersNamed Q QI h' e'.2 := by
  have w := wfs_of_closedB hc hw
  have hread : ∀ e, e ∈ s.types → TypeReadable h e.2 := by
    intro e he
    obtain ⟨t, ht, _⟩ := (typeShape_iff _ h e.2).mp (w.types e he)
    exact ⟨t, ht, membersReadable_of_shape _ h e.2 t ht (w.types e he)⟩
  obtain ⟨f1, f2⟩ := visitTypes_named v Q QI hook s.types s.types h (fun e he _ => hread e he)
  have stD := visitDirs_step v s.types s.dirs (visitTypes v s.types h s.types).1 chkT (compat_true _ s.types)
  have stT := visitTypes_step v s.types s.types h chkT (compat_true _ s.types)
  -- after the round: every entry lists visible members only, or is a specified scalar
  have hP : ∀ e2, e2 ∈ (replaceCore cfg s (visitAll v s h).2.1 (visitAll v s h).2.2).1.types →
      isProtected e2.1 = true ∨ Good Q QI (visitAll v s h).1 e2.2 := by
    simp only [replaceCore, visitAll]
    apply replaceTypes_pred cfg (fun e2 => isProtected e2.1 = true ∨
      Good Q QI (visitDirs v s.types (visitTypes v s.types h s.types).1 s.dirs).1 e2.2)
    · intro x hx a' ea
      exact Or.inr (Good.keep stD (f1 x hx a' ea))
    · intro e0 he0
      by_cases hp : isProtected e0.1 = true
      · exact Or.inl (Or.inl hp)
      · have hnp : isProtected e0.1 = false := by simpa using hp
        rcases f2 e0 he0 hnp with ⟨x, hx, hxe⟩ | hg
        · exact Or.inr (List.mem_map.mpr ⟨x, hx, hxe⟩)
        · exact Or.inl (Or.inr (Good.keep stD hg))
  have w2 := round_wf cfg v s h (refOK s.types) (compat_refOK _ _) w
  -- the protected entries are scalars: nothing to list
  have hprot : ∀ (hh : Heap) (ss : Schema), WFs (fun _ => true) hh ss → ∀ e2, e2 ∈ ss.types → isProtected e2.1 = true →
      MembersNamed Q QI hh e2.2 := by
    intro hh ss ws e2 he2 hp t ht
    have hpl := ws.prot e2 he2
    simp only [protLeaf, hp, Bool.not_true, Bool.false_or, ht, beq_iff_eq] at hpl
    exact ⟨fun hk => by rcases hk with hk | hk <;> simp [hpl] at hk, fun hk => by simp [hpl] at hk⟩
  simp only [onSchema, replaceTD] at e
  split at e
  · -- the healing rounds: copies, under the same names, of sub-lists
    have ho := healLoop_mem cfg id _ _ fuel _ _ h' s' (memOrigin_refl w2) e
    obtain ⟨_, w'⟩ := healLoop_closed cfg hacc fuel _ _ h' s' w2 e
    intro e' he'
    rcases ho e' he' with hp | ⟨e0, he0, _, hr0⟩
    · exact hprot h' s' (w'.mono (fun _ _ => rfl)) e' he' hp
    · rcases hP e0 he0 with hp0 | ⟨g0, t0, ht0⟩
      · obtain ⟨t0, ht0, _⟩ := (typeShape_iff _ _ e0.2).mp (w2.types e0 he0)
        exact visGood_of_trel ht0 (hprot _ _ w2 e0 he0 hp0) (hr0 t0 ht0)
      · exact visGood_of_trel ht0 g0 (hr0 t0 ht0)
  · cases e
    intro e' he'
    rcases hP e' he' with hp | hg
    · exact hprot _ _ w2 e' he' hp
    · exact hg.1

/-- FULL (see the header): hidden fields and input fields are in no member list of the result -/
theorem visibility_hides_members (cfg : Cfg) (hacc : cfg.accumulateBusted = true) (fuel : Nat) (p : VisP) (s : Schema) (h h' : Heap) (s' : Schema)
    (hc : closedB h s = true) (hw : wfB h s = true) (e : onSchema cfg fuel (.vis p) s h = some (h', s')) :
    ∀ e', e' ∈ s'.types → MembersNamed p.fieldVis p.inputVis h' e'.2 :=
  visitor_members_named cfg hacc fuel (.vis p) p.fieldVis p.inputVis (fun reg h a r a' ea => onType_vis_named p reg h a r a' ea) s h h' s' hc hw e

/-- … for `transform_schema(source, VisibilitySchemaTransform())` -/
theorem visibility_hides_members_transform (cfg : Cfg) (hd : cfg.deepClone = true) (hk : cfg.keepAllTypes = true) (hacc : cfg.accumulateBusted = true)
    (fuel : Nat) (p : VisP) (s : Schema) (h h' : Heap) (s' : Schema) (hc : closedB h s = true) (hw : wfB h s = true)
    (e : transform cfg fuel [.vis p] s h = some (h', s')) : ∀ e', e' ∈ s'.types → MembersNamed p.fieldVis p.inputVis h' e'.2 := by
  simp only [transform] at e
  split at e
  · cases e
  · rename_i r hr
    obtain ⟨h1, s1⟩ := r
    obtain ⟨c1, w1⟩ := clone_closed cfg hd hk hacc fuel s h h1 s1 hc hw hr
    simp only [transformFrom] at e
    split at e
    · cases e
    · rename_i r2 hr2
      cases e
      exact visibility_hides_members cfg hacc fuel p s1 h1 _ _ c1 w1 hr2

/-- hides the FIELD `Dog.name` and nothing else -/
def hideName : VisP := { typeVis := fun _ => true, fieldVis := fun t f => !(t == "Dog" && f == "name"), inputVis := fun _ _ => true, dirVis := fun _ => true }

/-- non-vacuity with a predicate that hides something: the transform of the witness succeeds, the result still registers `Dog`
    and `Dog` lists NO field any more, while `Pet.name` is still there -/
theorem visibility_field_witness :
    closedB h0 s0 = true ∧ wfB h0 s0 = true ∧
    (((transform Cfg.fixed 8 [.vis hideName] s0 h0).map fun r =>
      ((lookup r.2.types "Dog").bind fun a => (r.1.readType a).map fun t => t.fields.length,
       (lookup r.2.types "Pet").bind fun a => (r.1.readType a).map fun t => t.fields.length)) = some (some 0, some 1)) := by
  decide

/-! ### fields dropped by a schema directive -/

theorem onArgument_sdir_id (d : String → String → Bool) (w : String → String → Option Nat) (reg : List (String × Addr)) (h : Heap) (a : Addr) :
    onArgument (.sdir d w) reg h a = (h, some a) := by
  simp only [onArgument]
  split <;> rfl

theorem onInputField_sdir_id (d : String → String → Bool) (w : String → String → Option Nat) (reg : List (String × Addr)) (h : Heap) (a : Addr) :
    onInputField (.sdir d w) reg h a = (h, some a) := by
  simp only [onInputField]
  split <;> rfl

/-- `on_field` of the drop/wrap directive visitor: what it returns is a field object, under the same name, that is not dropped -/
theorem onField_sdir_named (d : String → String → Bool) (w : String → String → Option Nat) (reg : List (String × Addr)) (tn : String)
    (h : Heap) (c : Addr) (f : FieldO) (hf : h.readField c = some f) :
    ∀ c', (onField (.sdir d w) reg tn h c).2 = some c' →
      ∃ f', (onField (.sdir d w) reg tn h c).1.readField c' = some f' ∧ (!d tn f'.name) = true := by
  intro c' e
  simp only [onField, hf] at e ⊢
  cases hd : d tn f.name with
  | true => simp [hd] at e
  | false =>
    simp only [hd, Bool.false_eq_true, if_false] at e ⊢
    cases hw : w tn f.name with
    | some id =>
      simp only [hw, onFieldBase, mapFilter_id (onArgument_sdir_id d w reg), bne_self_eq_false, Bool.false_eq_true, if_false,
        Option.some.injEq] at e ⊢
      subst e
      exact ⟨_, readField_alloc_new _ _, by simp [hd]⟩
    | none =>
      simp only [hw, onFieldBase, mapFilter_id (onArgument_sdir_id d w reg), bne_self_eq_false, Bool.false_eq_true, if_false,
        Option.some.injEq] at e ⊢
      subst e
      exact ⟨f, hf, by simp [hd]⟩

theorem mapFilter_fields_good {f : Heap → Addr → Heap × Option Addr} (G : FieldO → Prop)
    (hstep : ∀ h a, StepImp chkT h (f h a).1)
    (hest : ∀ h a fl, h.readField a = some fl → ∀ a', (f h a).2 = some a' → ∃ f', (f h a).1.readField a' = some f' ∧ G f')
    (hG : ∀ f f' : FieldO, f'.name = f.name → G f → G f') :
    ∀ (as : List Addr) (h : Heap), (∀ a, a ∈ as → ∃ fl, h.readField a = some fl) →
      StepImp chkT h (mapFilter f h as).1 ∧ ∀ c, c ∈ (mapFilter f h as).2 → ∃ f', (mapFilter f h as).1.readField c = some f' ∧ G f' := by
  have fieldKeep : ∀ (h h' : Heap), StepImp chkT h h' → ∀ c fl, h.readField c = some fl → ∃ f', h'.readField c = some f' ∧ f'.name = fl.name := by
    intro h h' st c fl hfl
    obtain ⟨o', hr', hd, _, _⟩ := st c _ (readField_read hfl)
    cases o' with
    | field f' => simp only [SameHead] at hd; exact ⟨f', readField_of_read hr', hd.1⟩
    | type _ => simp [SameHead] at hd
    | arg _ => simp [SameHead] at hd
    | dir _ => simp [SameHead] at hd
  intro as
  induction as with
  | nil => intro h _; exact ⟨StepImp.refl chkT h, by simp [mapFilter]⟩
  | cons a as ih =>
    intro h hall
    obtain ⟨fl, hfl⟩ := hall a (by simp)
    have st1 := hstep h a
    obtain ⟨st2, g2⟩ := ih (f h a).1 (fun x hx => by
      obtain ⟨fx, hfx⟩ := hall x (by simp [hx])
      obtain ⟨f', hf', _⟩ := fieldKeep _ _ st1 x fx hfx
      exact ⟨f', hf'⟩)
    simp only [mapFilter]
    refine ⟨st1.trans st2, ?_⟩
    intro c hc
    cases hr : (f h a).2 with
    | none => rw [hr] at hc; exact g2 c hc
    | some a' =>
      rw [hr] at hc
      simp only [List.mem_cons] at hc
      rcases hc with rfl | hc
      · obtain ⟨f', hf', hg⟩ := hest h a fl hfl c hr
        obtain ⟨f'', hf'', hn⟩ := fieldKeep _ _ st2 c f' hf'
        exact ⟨f'', hf'', hG f' f'' hn hg⟩
      · exact g2 c hc

theorem onType_sdir_named (d : String → String → Bool) (w : String → String → Option Nat) :
    NamingHook (.sdir d w) (fun t f => !d t f) (fun _ _ => true) := by
  intro reg h a r a' e
  obtain ⟨t, ht, hm⟩ := r
  simp only [onType, ht] at e ⊢
  simp only [MembersReadable] at hm
  have compositeCase : (t.kind = Kind.object ∨ t.kind = Kind.interface) → ∀ a', (onComposite (.sdir d w) reg h a t).2 = some a' →
      Good (fun t f => !d t f) (fun _ _ => true) (onComposite (.sdir d w) reg h a t).1 a' := by
    intro hk a' e
    have hm' : ∀ c, c ∈ t.fields → ∃ fl, h.readField c = some fl := by
      intro c hc
      have : ∀ a, a ∈ t.fields → ∃ f, h.readField a = some f ∧ ∀ x, x ∈ f.args → ∃ g, h.readArg x = some g := by
        rcases hk with hk | hk <;> simpa [hk] using hm
      obtain ⟨fl, hfl, _⟩ := this c hc
      exact ⟨fl, hfl⟩
    obtain ⟨st, good⟩ := mapFilter_fields_good (f := onField (.sdir d w) reg t.name) (fun fl => (!d t.name fl.name) = true)
      (fun h a => onField_stepT _ reg t.name h a)
      (fun h a fl hfl a' ea => onField_sdir_named d w reg t.name h a fl hfl a' ea)
      (fun f f' hn hg => by rw [hn]; exact hg) t.fields h hm'
    simp only [onComposite, compositeRest, rebuiltOrSame] at e ⊢
    split at e
    · rename_i hne
      simp only [hne, if_true] at e ⊢
      cases e
      have hr := readType_alloc_new (mapFilter (onField (.sdir d w) reg t.name) h t.fields).1 { t with fields := (mapFilter (onField (.sdir d w) reg t.name) h t.fields).2 }
      exact ⟨named_of_step (step_alloc chkT _ _) hr t.name rfl (fun _ c hc => good c hc)
        (fun hki => by rcases hk with hk | hk <;> simp [hk] at hki), _, hr⟩
    · rename_i hne
      have heq := bne_false_eq hne
      simp only [hne, if_false] at e ⊢
      cases e
      obtain ⟨o', hr', hd', hk', _⟩ := st a _ (readType_read ht)
      cases o' with
      | type t' =>
        simp only [SameHead] at hd'
        have hsub : ∀ c, c ∈ t'.fields → c ∈ (mapFilter (onField (.sdir d w) reg t.name) h t.fields).2 := by
          intro c hc
          rw [heq]
          exact List.Sublist.subset (by simpa [kids] using hk') hc
        exact ⟨named_of_step (StepImp.refl chkT _) (readType_of_read hr') t.name hd'.2.1 (fun _ c hc => good c (hsub c hc))
          (fun hki => by rw [hd'.1] at hki; rcases hk with hk | hk <;> simp [hk] at hki), _, readType_of_read hr'⟩
      | field _ => simp [SameHead] at hd'
      | arg _ => simp [SameHead] at hd'
      | dir _ => simp [SameHead] at hd'
  have trivialCase : t.kind ≠ Kind.object → t.kind ≠ Kind.interface → t.kind ≠ Kind.input → Good (fun t f => !d t f) (fun _ _ => true) h a :=
    fun h1 h2 h3 => ⟨named_of_step (StepImp.refl chkT h) ht t.name rfl (fun hk' => by rcases hk' with hk' | hk' <;> contradiction)
      (fun hk' => absurd hk' h3), _, ht⟩
  cases hk : t.kind <;> simp only [hk] at hm e ⊢
  · exact compositeCase (Or.inl hk) a' e
  · exact compositeCase (Or.inr hk) a' e
  · simp only [onUnion] at e ⊢; cases e; exact trivialCase (by simp [hk]) (by simp [hk]) (by simp [hk])
  · simp only [onLeaf] at e ⊢; cases e; exact trivialCase (by simp [hk]) (by simp [hk]) (by simp [hk])
  · -- input object: untouched
    simp only [onInputObject, inputRest, mapFilter_id (onInputField_sdir_id d w reg), rebuiltOrSame, bne_self_eq_false, Bool.false_eq_true,
      if_false] at e ⊢
    cases e
    exact ⟨named_of_step (StepImp.refl chkT h) ht t.name rfl (fun hk' => by rcases hk' with hk' | hk' <;> simp [hk] at hk')
      (fun _ c hc => by obtain ⟨g, hg⟩ := hm c hc; exact ⟨g, hg, rfl⟩), _, ht⟩
  · simp only [onLeaf] at e ⊢; cases e; exact trivialCase (by simp [hk]) (by simp [hk]) (by simp [hk])

/-- FULL: after a drop/wrap schema-directive visitor (healing included) no registered type lists a field the directive dropped -/
theorem directive_drops_fields (cfg : Cfg) (hacc : cfg.accumulateBusted = true) (fuel : Nat) (d : String → String → Bool)
    (w : String → String → Option Nat) (s : Schema) (h h' : Heap) (s' : Schema)
    (hc : closedB h s = true) (hw : wfB h s = true) (e : onSchema cfg fuel (.sdir d w) s h = some (h', s')) :
    ∀ e', e' ∈ s'.types → MembersNamed (fun t f => !d t f) (fun _ _ => true) h' e'.2 :=
  visitor_members_named cfg hacc fuel (.sdir d w) _ _ (onType_sdir_named d w) s h h' s' hc hw e

/-! ### hidden directives -/

/-- the directive object exists and `N` accepts its name -/
def DirNamed (N : String → Bool) (h : Heap) (a : Addr) : Prop := ∃ d, h.readDir a = some d ∧ N d.name = true

theorem DirNamed.keep {N : String → Bool} {h h' : Heap} (st : StepImp chkT h h') {a : Addr} (g : DirNamed N h a) : DirNamed N h' a := by
  obtain ⟨d, hd, hn⟩ := g
  obtain ⟨o', hr', hh, _, _⟩ := st a _ (readDir_read hd)
  cases o' with
  | dir d' => simp only [SameHead] at hh; exact ⟨d', readDir_of_read hr', by rw [hh.1]; exact hn⟩
  | type _ => simp [SameHead] at hh
  | field _ => simp [SameHead] at hh
  | arg _ => simp [SameHead] at hh

/-- `on_directive` of any visitor: what it returns is a directive object under the same name, and the visitor does not hide it -/
theorem onDirective_named (v : Visitor) (N : String → Bool) (reg : List (String × Addr)) (h : Heap) (a : Addr) (g : DirNamed N h a) :
    ∀ a', (onDirective v reg h a).2 = some a' → DirNamed (fun nm => N nm && !dirHidden v nm) (onDirective v reg h a).1 a' := by
  obtain ⟨d, hd, hn⟩ := g
  intro a' e
  simp only [onDirective, hd] at e ⊢
  cases hh : dirHidden v d.name with
  | true => simp [hh] at e
  | false =>
    simp only [hh, Bool.false_eq_true, if_false] at e ⊢
    have hstep := mapFilter_step (onArgument_step v reg) d.args h chkT (compat_true v reg)
    split at e
    · rename_i hne
      simp only [hne, if_true] at e ⊢
      cases e
      exact ⟨_, readDir_alloc_new _ _, by simp [hn, hh]⟩
    · rename_i hne
      simp only [hne, if_false] at e ⊢
      cases e
      obtain ⟨d', hd', hn'⟩ := DirNamed.keep (N := fun nm => N nm && !dirHidden v nm) hstep ⟨d, hd, by simp [hn, hh]⟩
      exact ⟨d', hd', hn'⟩

theorem visitDirs_named (v : Visitor) (N : String → Bool) (reg : List (String × Addr)) :
    ∀ (l : List (String × Addr)) (h : Heap), (∀ e, e ∈ l → DirNamed N h e.2) →
      (∀ x, x ∈ (visitDirs v reg h l).2 → ∀ a', x.2 = some a' → DirNamed (fun nm => N nm && !dirHidden v nm) (visitDirs v reg h l).1 a') ∧
      (∀ e, e ∈ l → (∃ x, x ∈ (visitDirs v reg h l).2 ∧ x.1 = e.1) ∨ DirNamed (fun nm => N nm && !dirHidden v nm) (visitDirs v reg h l).1 e.2) := by
  intro l
  induction l with
  | nil => intro h _; exact ⟨by simp [visitDirs], by simp⟩
  | cons e0 rest ih =>
    intro h hin
    obtain ⟨n, a⟩ := e0
    have st0 := onDirective_step v reg h a chkT (compat_true v reg)
    have strest := visitDirs_step v reg rest (onDirective v reg h a).1 chkT (compat_true v reg)
    obtain ⟨f1, f2⟩ := ih (onDirective v reg h a).1 (fun e he => DirNamed.keep st0 (hin e (by simp [he])))
    have hhead : ∀ a', (onDirective v reg h a).2 = some a' →
        DirNamed (fun nm => N nm && !dirHidden v nm) (visitDirs v reg (onDirective v reg h a).1 rest).1 a' :=
      fun a' ea => DirNamed.keep strest (onDirective_named v N reg h a (hin (n, a) (by simp)) a' ea)
    simp only [visitDirs]
    refine ⟨?_, ?_⟩
    · intro x hx a' ea
      split at hx
      · simp only [List.mem_cons] at hx
        rcases hx with rfl | hx
        · exact hhead a' ea
        · exact f1 x hx a' ea
      · exact f1 x hx a' ea
    · intro e he
      simp only [List.mem_cons] at he
      rcases he with rfl | he
      · split
        · exact Or.inl ⟨(n, (onDirective v reg h a).2), List.mem_cons_self, rfl⟩
        · rename_i hsame
          right
          have hsm : (onDirective v reg h a).2 = some a := by simpa using hsame
          exact hhead a hsm
      · rcases f2 e he with ⟨x, hx, hxe⟩ | h2
        · left
          split
          · exact ⟨x, by simp [hx], hxe⟩
          · exact ⟨x, hx, hxe⟩
        · exact Or.inr h2

/-- one `on_schema` round: every directive the schema registers afterwards is named by `N` and not hidden by the visitor -/
theorem round_dirs_named (cfg : Cfg) (v : Visitor) (N : String → Bool) (s : Schema) (h : Heap) (hin : ∀ e, e ∈ s.dirs → DirNamed N h e.2) :
    ∀ e, e ∈ (replaceCore cfg s (visitAll v s h).2.1 (visitAll v s h).2.2).1.dirs →
      DirNamed (fun nm => N nm && !dirHidden v nm) (visitAll v s h).1 e.2 := by
  have stT := visitTypes_step v s.types s.types h chkT (compat_true v s.types)
  obtain ⟨f1, f2⟩ := visitDirs_named v N s.types s.dirs (visitTypes v s.types h s.types).1 (fun e he => DirNamed.keep stT (hin e he))
  simp only [replaceCore, visitAll]
  apply replaceDirs_pred (fun e => DirNamed (fun nm => N nm && !dirHidden v nm) (visitDirs v s.types (visitTypes v s.types h s.types).1 s.dirs).1 e.2)
  · intro x hx a' ea
    exact f1 x hx a' ea
  · intro e he
    rcases f2 e he with ⟨x, hx, hxe⟩ | hg
    · exact Or.inr (List.mem_map.mpr ⟨x, hx, hxe⟩)
    · exact Or.inl hg

theorem healLoop_dirs_named (cfg : Cfg) (N : String → Bool) : ∀ (fuel : Nat) (s : Schema) (h h' : Heap) (s' : Schema),
    (∀ e, e ∈ s.dirs → DirNamed N h e.2) → healLoop cfg fuel s h = some (h', s') → ∀ e, e ∈ s'.dirs → DirNamed N h' e.2 := by
  intro fuel
  induction fuel with
  | zero => intro s h h' s' _ e; simp [healLoop] at e
  | succ fuel ih =>
    intro s h h' s' hin e
    rw [healLoop] at e
    have hr : ∀ e, e ∈ (replaceCore cfg s (visitAll .heal s h).2.1 (visitAll .heal s h).2.2).1.dirs → DirNamed N (visitAll .heal s h).1 e.2 := by
      intro e he
      obtain ⟨d, hd, hn⟩ := round_dirs_named cfg .heal N s h hin e he
      exact ⟨d, hd, by simpa [dirHidden] using hn⟩
    split at e
    · exact ih _ _ _ _ hr e
    · cases e; exact hr

/-- FULL: after `VisibilitySchemaTransform.on_schema` (healing included) every directive object the result registers has
    `is_directive_visible(name)`: the hidden directives are gone from `schema.directives` -/
theorem visibility_hides_directives (cfg : Cfg) (fuel : Nat) (p : VisP) (s : Schema) (h h' : Heap) (s' : Schema)
    (hw : wfB h s = true) (e : onSchema cfg fuel (.vis p) s h = some (h', s')) :
    ∀ e', e' ∈ s'.dirs → ∃ d, h'.readDir e'.2 = some d ∧ p.dirVis d.name = true := by
  have w := wfs_of_wfB hw
  have hin : ∀ e, e ∈ s.dirs → DirNamed (fun _ => true) h e.2 := by
    intro e he
    have hs := w.dirs e he
    simp only [dirShape] at hs
    split at hs
    · rename_i d hd; exact ⟨d, hd, rfl⟩
    · cases hs
  have hr := round_dirs_named cfg (.vis p) (fun _ => true) s h hin
  have hvis : ∀ (hh : Heap) (a : Addr), DirNamed (fun nm => true && !dirHidden (.vis p) nm) hh a → DirNamed p.dirVis hh a := by
    intro hh a ⟨d, hd, hn⟩
    exact ⟨d, hd, by simpa [dirHidden] using hn⟩
  simp only [onSchema, replaceTD] at e
  split at e
  · intro e' he'
    exact healLoop_dirs_named cfg p.dirVis fuel _ _ h' s' (fun x hx => hvis _ _ (hr x hx)) e e' he'
  · cases e
    intro e' he'
    exact hvis _ _ (hr e' he')

/-- hides the directive `lim` (and nothing else) -/
def hideLim : VisP := { typeVis := fun _ => true, fieldVis := fun _ _ => true, inputVis := fun _ _ => true, dirVis := fun n => n != "lim" }

/-- non-vacuity with a predicate that hides a directive: the source registers `lim`, the transform result registers none -/
theorem visibility_directive_witness :
    closedB hDir sDir = true ∧ wfB hDir sDir = true ∧ sDir.dirs.map (·.1) = ["lim"] ∧
    ((transform Cfg.fixed 8 [.vis hideLim] sDir hDir).map fun r => r.2.dirs.map (·.1)) = some [] := by decide

end PyGql.Props.C14

/-
  C06 - property theorems, part 34: WHY `noMetaSubsB` IS A REAL EXCLUSION of the clause-level statements, and what an
  extension below `__schema { … }` / `__type { … }` has to assume.

  Below a meta field with a sub-selection the overlap search has TWO parent types for the sub-selection set: the one
  `TypeInfoVisitor` shows (`__Schema` / `__Type`, through `_get_field_def`, which knows the meta fields) when the
  visitor enters the set, and `None` when `_find_conflict` reaches the set first (two `__schema` selections under one
  response name: `parent_type.field_map` does not know the meta fields). `ctx.fields_and_fragments` caches the FIRST one.
  With parent `None` the direct fields of the set have no definition, so a response-shape conflict with a field of an
  inline fragment goes unseen:

      `{ __schema { x ... on Impl { x } } }`                         reported (Int vs String)
      `{ __schema { x ... on Impl { x } } __schema { y: x } }`        NOT reported - an unrelated sibling hides it

  (`meta_sibling_hides_report`, model; the same on the real validator with the real introspection types:
  `{ __schema { queryType { name ... on __Field { name } } } }` is reported by the rule alone - String vs String! -, and
  no longer when `__schema { queryType { kind } }` is added. In both cases PossibleFragmentSpreads rejects the document,
  so the VERDICT of the chain is the same: no violation of the property - the introspection types are object types, a
  shape conflict below a meta field needs an impossible spread.)

  Consequences, machine-checked below:
    * `ParentsAgree` is false on such documents (`parentsAgree_false_below_meta`);
    * `rule_overlapping_fields_memo_iff` does NOT hold without `ParentsAgree`, whatever weaker agreement one assumes
      of the parent types alone (`memo_iff_needs_parentsAgree`): the rule is silent on the second document and the
      clause fails. An extension of `accepted_spec_valid_all_memo` below meta fields must therefore use the OTHER rules'
      clauses (PossibleFragmentSpreads) together with a hypothesis that pins the introspection types of the schema
      description to object types (`MetaExtensionStatement`, open).
    * THE WEAKER NOTION that does hold below meta fields (`ParentsAgreeOrNone`, `parentsAgreeOrNone_of_rules`): every
      admissible parent type of a selection set is the one the visitor shows, or `none` - the search never derives a
      WRONG parent type, it derives NONE (given that no type of the schema defines a field named `__schema` / `__type`
      and `__typename` has no sub-selection); two admissible parent types differ only if one of them is `none`
      (`parents_agree_up_to_none`). It replaces `noMetaSubsB` in the DERIVATION of the parent types; it does not by
      itself give the rule's equivalence (see above).
-/
import PyGqlModel.Props.C06_inv14
import PyGqlModel.Lemmas.ValidateOverlapParents3
namespace PyGql.Props.C06
open PyGql PyGql.Validate PyGql.Validate.Spec

/-- `type Query { a: Int }` + an object type `__Schema { x: Int }` (what `__schema` returns) + `Impl { x: String }` -/
def mSchema : SchemaD :=
  { types := [
      { kind := .scalar, name := "Int" }, { kind := .scalar, name := "String" }, { kind := .scalar, name := "Boolean" },
      { kind := .object, name := "__Schema", fields := [{ name := "x", type := .named "Int" }] },
      { kind := .object, name := "Impl", fields := [{ name := "x", type := .named "String" }] },
      { kind := .object, name := "Query", fields := [{ name := "a", type := .named "Int" }] }],
    query := some "Query",
    directives := [] }

def mSub : List Sel := [fld none "x", .inline (some "Impl") [] 3 [fld none "x"]]
/-- `{ __schema { x ... on Impl { x } } }` -/
def mDoc1 : Doc := ⟨[opV [] 1 [.field none "__schema" [] [] true 2 mSub]]⟩
/-- `{ __schema { x ... on Impl { x } } __schema { y: x } }` -/
def mDoc2 : Doc := ⟨[opV [] 1 [.field none "__schema" [] [] true 2 mSub, .field none "__schema" [] [] true 4 [fld (some "y") "x"]]]⟩

/-- **an unrelated sibling hides a report below a meta field** (the parent-type cache keeps `None`) -/
theorem meta_sibling_hides_report :
    (overlapMemoRun mSchema Fixes.all mDoc1).1 = 1 ∧ (overlapMemoRun mSchema Fixes.all mDoc2).1 = 0 := by
  decide +kernel

example : wfIdsB mDoc2 = true ∧ noMetaSubsB mDoc2 = false := by decide

/-- the context `TypeInfoVisitor` shows inside the first `__schema { … }` of `mDoc2` -/
def mView : View :=
  View.enter mSchema (.selectionSet 2 mSub) (View.enter mSchema (.field "__schema" [] [] true)
    (View.enter mSchema (.selectionSet 1 (match mDoc2.defs with | [.op _ _ _ _ _ sels] => sels | _ => []))
      (View.enter mSchema (.operation "query" none [] [] (match mDoc2.defs with | [.op _ _ _ _ _ sels] => sels | _ => [])) {})))

theorem mView_parent : mView.parent = some "__Schema" := by decide

theorem mTyped : (Node.selectionSet 2 mSub, mView) ∈ typedNodes mSchema mDoc2 := by
  simp [typedNodes, mDoc2, opV, tnDef, tnSels, tnSel, tnDirs, withView, argsNodes, mView]

theorem mSelSet : SelSet mDoc2 2 mSub := typed_node_mem mTyped

theorem mAdmWalk : Adm mSchema mDoc2 2 (some "__Schema") := by
  have := Adm.walk mTyped
  rwa [mView_parent] at this

theorem mAdmNone : Adm mSchema mDoc2 2 none := by
  have htop : (Node.selectionSet 1 [.field none "__schema" [] [] true 2 mSub, .field none "__schema" [] [] true 4 [fld (some "y") "x"]],
      View.enter mSchema (.selectionSet 1 [.field none "__schema" [] [] true 2 mSub, .field none "__schema" [] [] true 4 [fld (some "y") "x"]])
        (View.enter mSchema (.operation "query" none [] [] [.field none "__schema" [] [] true 2 mSub, .field none "__schema" [] [] true 4 [fld (some "y") "x"]]) {}))
      ∈ typedNodes mSchema mDoc2 := by
    simp [typedNodes, mDoc2, opV, tnDef]
  have h := Adm.sub (Adm.walk htop) (typed_node_mem htop)
    (CollD.field (s := mSchema) (alias := none) (name := "__schema") (args := []) (dirs := []) (hasSub := true) (ssid := 2)
      (sub := mSub) (List.mem_cons_self ..)) rfl
  exact h

/-- **`ParentsAgree` is false below a meta field** (schema with the introspection types as composite types) -/
theorem parentsAgree_false_below_meta : ¬ Spec.ParentsAgree mSchema mDoc2 := fun h => by
  have := h 2 _ _ mAdmWalk mAdmNone
  cases this

/-- the clause of 5.3.2 fails on `mDoc2`: under the parent type the visitor shows, `x: Int` (on `__Schema`) and
    `x: String` (on `Impl`) have different response shapes -/
theorem mDoc2_clause_fails : ¬ Spec.overlappingFieldsCanBeMerged mSchema mDoc2 := fun H => by
  refine H 2 mSub mSelSet (some "__Schema") mAdmWalk "x"
    { parent := some "__Schema", name := "x", args := [], hasSub := false, ssid := 0, sub := [],
      fdef := (some "__Schema").bind fun p => ovFieldOf mSchema p "x" }
    { parent := inlineParent mSchema (some "__Schema") (some "Impl"), name := "x", args := [], hasSub := false, ssid := 0,
      sub := [], fdef := (inlineParent mSchema (some "__Schema") (some "Impl")).bind fun p => ovFieldOf mSchema p "x" }
    (Or.inl (CollD.field (alias := none) (dirs := []) (List.mem_cons_self ..)))
    (Or.inl (CollD.inline (on := some "Impl") (dirs := []) (id := 3) (sub := [fld none "x"])
      (List.mem_cons_of_mem _ (List.mem_cons_self ..)) (CollD.field (alias := none) (dirs := []) (List.mem_cons_self ..))))
    (Conf.types (t1 := .named "Int") (t2 := .named "String") (by decide) (by decide) (by decide))

/-- **the equivalence for the memoised rule needs `ParentsAgree`**: with `WfIds` and non-empty names alone it is false -/
theorem memo_iff_needs_parentsAgree :
    ¬ (∀ (s : SchemaD) (fx : Fixes) (d : Doc), fx.v7 = true → WfIds d → AL.get? (fragTable d) "" = none →
      ((overlapMemoRun s fx d).1 = 0 ↔ Spec.overlappingFieldsCanBeMerged s d)) := fun h =>
  mDoc2_clause_fails ((h mSchema Fixes.all mDoc2 rfl (by rw [← wfIdsB_iff]; decide) (by decide)).mp
    meta_sibling_hides_report.2)

/-- what an extension of `accepted_spec_valid_all_memo` below meta fields would state (OPEN): for a schema description
    whose types reachable from `__Schema` / `__Type` are object or leaf types (`hobj`, what the real introspection
    types are), the document check `noMetaSubsB` can be dropped -/
def MetaExtensionStatement : Prop :=
  ∀ (s : SchemaD) (fx : Fixes) (d : Doc), HeadVars fx → SchemaOutputs s →
    (∀ t ∈ s.types, t.name.startsWith "__" = true → t.kind = .object ∨ t.kind = .scalar ∨ t.kind = .enum) →
    wfIdsB d = true → NamesNonEmpty d →
    (∀ r ∈ Rule.all, SilentM s fx r d) → ∀ r ∈ Rule.all, SpecAll r s fx d

/-! ### the weaker notion that holds below meta fields -/

/-- every admissible parent type of a selection set is the one `TypeInfoVisitor` shows inside it, or `none` -/
def ParentsAgreeOrNone (s : SchemaD) (d : Doc) : Prop := ∀ i p, Adm s d i p → p = none ∨ WalkP s d i p

/-- computable form of `NoReservedFields` -/
def noReservedFieldsB (s : SchemaD) : Bool :=
  s.types.all fun t => t.fields.all fun f => f.name != "__schema" && f.name != "__type"

theorem noReservedFields_of_check (s : SchemaD) (h : noReservedFieldsB s = true) : NoReservedFields s := by
  have key : ∀ T name, (name = "__schema" ∨ name = "__type") → fieldOf s T name = none := by
    intro T name hn
    unfold fieldOf
    split
    · cases hft : s.findType T with
      | none => rfl
      | some t =>
        simp only [Option.bind_some]
        have ht : t ∈ s.types := List.mem_of_find?_eq_some hft
        unfold noReservedFieldsB at h
        rw [List.all_eq_true] at h
        have h2 := h t ht
        rw [List.all_eq_true] at h2
        rw [List.find?_eq_none]
        intro f hf
        have := h2 f hf
        rcases hn with rfl | rfl <;> simp_all
    · rfl
  exact fun T => ⟨key T _ (Or.inl rfl), key T _ (Or.inr rfl)⟩

/-- **the weaker notion from the other rules' clauses - WITHOUT `noMetaSubsB`**: the clauses of ScalarLeafs and
    FragmentsOnCompositeTypes, output-typed schema fields, no field with a reserved meta name in the schema, no
    `__typename { … }`, well-formed identities -/
theorem parentsAgreeOrNone_of_rules (s : SchemaD) (d : Doc) (hs : SchemaOutputs s) (hres : NoReservedFields s)
    (hsl : Spec.scalarLeafs s d) (hfc : Spec.fragmentsOnCompositeTypes s d) (hnt : NoTypenameSubs d) (hw : WfIds d) :
    ParentsAgreeOrNone s d :=
  fun _ _ h => adm_walk_or_none hs hsl hfc hres hnt hw h

/-- two admissible parent types of one selection set differ only if one of them is `none` -/
theorem parents_agree_up_to_none {s : SchemaD} {d : Doc} (h : ParentsAgreeOrNone s d) (hw : WfIds d) :
    ∀ i p q, Adm s d i p → Adm s d i q → p = q ∨ p = none ∨ q = none := by
  intro i p q hp hq
  rcases h i p hp with rfl | ⟨s1, v1, m1, e1⟩
  · exact Or.inr (Or.inl rfl)
  · rcases h i q hq with rfl | ⟨s2, v2, m2, e2⟩
    · exact Or.inr (Or.inr rfl)
    · have := typed_unique hw m1 m2 (k := i) rfl rfl
      cases this
      exact Or.inl (e1.symm.trans e2)

/-- `ParentsAgree` is the special case "no admissible parent type is `none` unless the visitor's is" -/
theorem adm_selSet {s : SchemaD} {d : Doc} {i : Nat} {p : Option String} (hp : Adm s d i p) : ∃ sels, SelSet d i sels := by
  induction hp with
  | walk hm => exact ⟨_, typed_node_mem hm⟩
  | frag ht => exact ⟨_, fragTable_selSet ht⟩
  | sub _ hs hc hsub _ => exact ⟨_, selSet_sub hs hc hsub⟩

theorem parentsAgreeOrNone_of_parentsAgree {s : SchemaD} {d : Doc} (hpa : Spec.ParentsAgree s d) :
    ParentsAgreeOrNone s d := by
  intro i p hp
  obtain ⟨sels, hs⟩ := adm_selSet hp
  obtain ⟨v, hm⟩ := selSet_typed (s := s) hs
  exact Or.inr ⟨sels, v, hm, hpa i _ _ (Adm.walk hm) hp⟩

/-- non-vacuity: the witness document - on which `ParentsAgree` is FALSE - satisfies every hypothesis of
    `parentsAgreeOrNone_of_rules` -/
example : ParentsAgreeOrNone mSchema mDoc2 :=
  parentsAgreeOrNone_of_rules mSchema mDoc2 (schemaOutputs_of_check mSchema (by decide))
    (noReservedFields_of_check mSchema (by decide))
    ((rule_scalar_leafs_iff mSchema Fixes.all mDoc2).mp (by unfold Silent; decide +kernel))
    ((rule_fragments_on_composite_types_iff mSchema Fixes.all mDoc2).mp (by unfold Silent; decide +kernel))
    (by
      intro n hn name args dirs e
      subst e
      simp [nodes, mDoc2, mSub, opV, fld, defNodes, selsNodes, selNodes, argsNodes, dirsNodes] at hn
      rw [hn.1]; decide)
    (by rw [← wfIdsB_iff]; decide)

end PyGql.Props.C06

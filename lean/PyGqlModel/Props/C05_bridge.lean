/-
  C05 ∘ C06 — BRIDGE: documents on which the MODEL of the validation rules is silent satisfy the clauses of `ValidDoc`
  that the proved `rule_*_iff` theorems of C06 give; the remaining clauses are named and stay hypotheses (they rest on
  the run-time tie "validate_ast accepted ⇒ ValidDoc" of harness/corr/C05.py).

  From C06 (proved equivalences, Props/C06*.lean):
    FieldsOnCorrectTypeChecker      → every selected field is defined on its static parent type       (`selOk`, field clause)
    ScalarLeafsChecker              → leaf ⇔ no sub-selection, composite ⇔ sub-selection              (`selOk`, kind clause)
    FragmentsOnCompositeTypesChecker→ type conditions are known composite types                        (`selOk` inline, `fragsOk`)
    KnownFragmentNamesChecker       → spread fragments exist                                           (`selOk` spread)
    UniqueFragmentNamesChecker      → `fragsUnique`
    NoFragmentCyclesChecker         → `fragsAcyclic` (the rank computation is complete: `Lemmas/C05Acyclic.lean`)
  The translation `eDoc s env` gives every field node its MODEL-COMPUTED argument table (`Exec.argsTable`: C07's
  `coerceArgumentValues` on the node's argument literals under the environment of coerced variables): the chain speaks
  about documents WITH arguments; a rejected argument is a field error of the executor model (`bridge_rejected_argument`).
  NO LONGER a premise: the `@skip/@include` conditions. A condition that is not a Boolean at run time (`if: [true]`,
  which ValuesOfCorrectType lets through — V8; a nullable variable with a default bound to `null`) is a modelled outcome
  since 4e87d3d: a field error at the enclosing field, `data = null` for the root selection set.
  Still on the run-time tie (`RuntimeTie`): operations have a root object type; no `__schema` / `__type` selections
  (introspection is C15's). Separate hypothesis: `MergeSafe` (OverlappingFieldsCanBeMerged).
-/
import PyGqlModel.Spec.ValidDoc
import PyGqlModel.Props.C06_all
import PyGqlModel.Props.C05_merge
import PyGqlModel.ExecArgs
import PyGqlModel.ExecOfValidate
import PyGqlModel.Props.C04_acyclic
import PyGqlModel.Lemmas.C05Acyclic

set_option linter.unusedSimpArgs false
set_option linter.unusedVariables false

namespace PyGql.Props.C05
open PyGql
open PyGql.Validate (Node)
open PyGql.Validate.Spec (tnSel tnSels tnDef typedNodes View selNodes selsNodes defNodes nodes fragNames compositeBase)

/-! ### the two schema readings agree where the validator's is defined -/

theorem kindOf_compat (s : SchemaD) (n : String) (k : Kind) (h : Validate.kindOf s n = some k) : Exec.kindOf s n = some k := by
  unfold Validate.kindOf at h
  unfold Exec.kindOf
  cases hf : s.findType n with
  | none => simp [hf] at h
  | some t => simp [hf] at h ⊢; exact h

theorem isComposite_compat (s : SchemaD) (n : String) (h : Validate.isComposite s n = true) : Spec.isComposite s n = true := by
  unfold Validate.isComposite at h
  unfold Spec.isComposite
  cases hk : Validate.kindOf s n with
  | none => simp [hk] at h
  | some k => rw [kindOf_compat s n k hk]; cases k <;> simp_all

theorem fieldOf_compat (s : SchemaD) (T name : String) (fd : FieldD) (h : Validate.fieldOf s T name = some fd) :
    Exec.fieldOf s T name = some fd := by
  unfold Validate.fieldOf at h
  unfold Exec.fieldOf
  split at h
  · cases hf : s.findType T with
    | none => simp [hf] at h
    | some t => simpa [hf] using h
  · simp at h

/-! ### local conditions, in the two enumerations the C06 specifications use -/

/-- what FieldsOnCorrectType + ScalarLeafs say at one (node, static context), plus "no introspection root field" -/
def TLocal (s : SchemaD) (p : Node × View) : Prop :=
  ∀ name args dirs hs, p.1 = Node.field name args dirs hs →
    (p.2.parent.isSome = true → p.2.field.isSome = true) ∧
    (∀ t, p.2.type = some t → (Validate.isLeaf s t.base = true → hs = false) ∧ (Validate.isComposite s t.base = true → hs = true)) ∧
    name ≠ "__schema" ∧ name ≠ "__type"

/-- what FragmentsOnCompositeTypes + KnownFragmentNames say at one node -/
def NLocal (s : SchemaD) (d : Validate.Doc) (n : Node) : Prop :=
  (∀ on dirs, n = Node.inline (some on) dirs → Validate.isComposite s on = true) ∧
  (∀ name dirs, n = Node.spread name dirs → name ∈ fragNames d)

/-- schema facts the validator's model takes from a valid schema dumped WITH the built-in scalars -/
structure SchemaWf (s : SchemaD) : Prop where
  outputs : ∀ T name fd, Validate.fieldOf s T name = some fd → Validate.isOutputTy s fd.type = true
  string : Validate.isLeaf s "String" = true

private theorem outOnly_of_output (s : SchemaD) (t : Ty) (h : Validate.isOutputTy s t = true) : Validate.TI.outOnly s (some t) = some t := by
  simp [Validate.TI.outOnly, h]

private theorem compositeBase_some (s : SchemaD) (t : Ty) (h : Validate.isComposite s t.base = true) : compositeBase s (some t) = some t.base := by
  simp [compositeBase, h]

private theorem output_of_composite (s : SchemaD) (t : Ty) (h : Validate.isComposite s t.base = true) : Validate.isOutputTy s t = true := by
  unfold Validate.isComposite at h
  unfold Validate.isOutputTy
  cases hk : Validate.kindOf s t.base with
  | none => simp [hk] at h
  | some k => cases k <;> simp_all

mutual
/-- **the typed core of the bridge**: selections whose (node, context) pairs satisfy the local conditions are `selOk` -/
private theorem eSel_ok (s : SchemaD) (env : Exec.ArgEnv) (hs : SchemaWf s) (d : Validate.Doc) (docE : Exec.Doc) (vars : Exec.Vars)
    (hfr : ∀ name ∈ fragNames d, (docE.fragment? name).isSome = true) :
    ∀ (x : Validate.Sel) (v : View) (T : String), v.parent = some T → compositeBase s v.type = some T →
      (∀ p ∈ tnSel s v x, TLocal s p) → (∀ n ∈ selNodes x, NLocal s d n) → Spec.selOk s docE vars T (eSel s env x) = true
  | .field alias name args dirs hsub ssid sub, v, T, hp, hc, hT, hN => by
    have hdirs : Spec.dirsOk vars (dirs.map eDir) = true := rfl
    -- the field node with its context
    have hnode := hT (Node.field name args dirs hsub, View.enter s (Node.field name args dirs hsub) v) (by simp [tnSel])
      name args dirs hsub rfl
    obtain ⟨hfield, hleaf, hns, hnt⟩ := hnode
    have hpar : (View.enter s (Node.field name args dirs hsub) v).parent = some T := by simp [View.enter, hp]
    have hfd := hfield (by simp [hpar])
    simp only [View.enter, hp, Option.bind] at hfd hleaf
    simp only [eSel, Spec.selOk, hdirs, Bool.true_and]
    have hTcomp : Validate.isComposite s T = true := by
      cases ht : v.type with
      | none => simp [compositeBase, ht] at hc
      | some t =>
        simp only [compositeBase, ht, Option.map, Option.bind] at hc
        split at hc
        · rename_i hcomp; simp at hc; rw [← hc]; exact hcomp
        · simp at hc
    by_cases hty : name = "__typename"
    · subst hty
      simp only [beq_self_eq_true, if_true]
      have hgd : Validate.getFieldDef s T "__typename" = some Validate.typenameField := by
        simp [Validate.getFieldDef, hTcomp]
      have hout : Validate.isOutputTy s (Ty.nonNull (.named "String")) = true := by
        have := hs.string
        unfold Validate.isLeaf at this
        unfold Validate.isOutputTy
        simp only [Ty.base]
        cases hk : Validate.kindOf s "String" with
        | none => simp [hk] at this
        | some k => cases k <;> simp_all
      have := (hleaf (Ty.nonNull (.named "String")) (by simp [hgd, Validate.typenameField, Validate.TI.outOnly, hout])).1
        (by simpa [Ty.base] using hs.string)
      simp [this]
    · have hty' : (name == "__typename") = false := by simpa using hty
      have hmeta : Exec.isMeta name = false := by simp [Exec.isMeta, hns, hnt, hty]
      simp only [hty', Bool.false_eq_true, if_false, hmeta]
      have hgd : Validate.getFieldDef s T name = Validate.fieldOf s T name := by
        simp [Validate.getFieldDef, hns, hnt, hty]
      rw [hgd] at hfd hleaf
      cases hfo : Validate.fieldOf s T name with
      | none => simp [hfo] at hfd
      | some fd =>
        rw [fieldOf_compat s T name fd hfo]
        have hout := hs.outputs T name fd hfo
        simp only [hfo, Option.map, outOnly_of_output s fd.type hout] at hleaf
        obtain ⟨hl, hcmp⟩ := hleaf fd.type rfl
        simp only []
        cases hk : Validate.kindOf s fd.type.base with
        | none => unfold Validate.isOutputTy at hout; simp [hk] at hout
        | some k =>
          rw [kindOf_compat s _ k hk]
          have leafCase : Validate.isLeaf s fd.type.base = true → (!hsub) = true := fun h => by simp [hl h]
          have compCase : Validate.isComposite s fd.type.base = true →
              (hsub && Spec.selsOk s docE vars fd.type.base (if hsub then eSels s env sub else [])) = true := by
            intro hcb
            have hh := hcmp hcb
            subst hh
            simp only [Bool.true_and, if_true]
            -- the selection set of the field
            let v1 := View.enter s (Node.field name args dirs true) v
            have hv1t : v1.type = some fd.type := by
              simp [v1, View.enter, hp, hgd, hfo, outOnly_of_output s fd.type hout]
            let v2 := View.enter s (Node.selectionSet ssid sub) v1
            have hv2p : v2.parent = some fd.type.base := by simp [v2, View.enter, hv1t, compositeBase_some s fd.type hcb]
            have hv2c : compositeBase s v2.type = some fd.type.base := by
              simp [v2, View.enter, hv1t, compositeBase_some s fd.type hcb]
            exact eSels_ok s env hs d docE vars hfr sub v2 fd.type.base hv2p hv2c
              (fun p hp' => hT p (by simp [tnSel, v1, v2]; right; right; right; exact Or.inr hp'))
              (fun n hn => hN n (by simp [selNodes]; right; right; right; exact Or.inr hn))
          cases k with
          | scalar => exact leafCase (by simp [Validate.isLeaf, hk])
          | enum => exact leafCase (by simp [Validate.isLeaf, hk])
          | object => exact compCase (by simp [Validate.isComposite, hk])
          | interface => exact compCase (by simp [Validate.isComposite, hk])
          | union => exact compCase (by simp [Validate.isComposite, hk])
          | input => unfold Validate.isOutputTy at hout; simp [hk] at hout
  | .spread name dirs, v, T, hp, hc, hT, hN => by
    have hdirs : Spec.dirsOk vars (dirs.map eDir) = true := rfl
    have := (hN (Node.spread name dirs) (by simp [selNodes])).2 name dirs rfl
    simp [eSel, Spec.selOk, hdirs, hfr name this]
  | .inline on dirs ssid sub, v, T, hp, hc, hT, hN => by
    have hdirs : Spec.dirsOk vars (dirs.map eDir) = true := rfl
    simp only [eSel, Spec.selOk, hdirs, Bool.true_and]
    have hvt : ∃ t, v.type = some t ∧ Validate.isComposite s t.base = true ∧ t.base = T := by
      cases ht : v.type with
      | none => simp [compositeBase, ht] at hc
      | some t =>
        simp only [compositeBase, ht, Option.map, Option.bind] at hc
        split at hc
        · rename_i hcomp; simp at hc; exact ⟨t, rfl, hcomp, hc⟩
        · simp at hc
    obtain ⟨t, hvt, htc, htT⟩ := hvt
    cases on with
    | none =>
      simp only []
      let v1 := View.enter s (Node.inline none dirs) v
      have hv1t : v1.type = some t := by simp [v1, View.enter, hvt, outOnly_of_output s t (output_of_composite s t htc)]
      let v2 := View.enter s (Node.selectionSet ssid sub) v1
      have hv2p : v2.parent = some T := by simp [v2, View.enter, hv1t, compositeBase_some s t htc, htT]
      have hv2c : compositeBase s v2.type = some T := by simp [v2, View.enter, hv1t, compositeBase_some s t htc, htT]
      exact eSels_ok s env hs d docE vars hfr sub v2 T hv2p hv2c
        (fun p hp' => hT p (by simp [tnSel, v1, v2]; right; right; exact Or.inr hp'))
        (fun n hn => hN n (by simp [selNodes]; right; right; exact Or.inr hn))
    | some c =>
      have hcc := (hN (Node.inline (some c) dirs) (by simp [selNodes])).1 c dirs rfl
      simp only [isComposite_compat s c hcc, Bool.true_and]
      have hfound : (s.findType c).isSome = true := by
        unfold Validate.isComposite Validate.kindOf at hcc
        cases hf : s.findType c with
        | none => simp [hf] at hcc
        | some _ => rfl
      let v1 := View.enter s (Node.inline (some c) dirs) v
      have hv1t : v1.type = some (Ty.named c) := by
        simp [v1, View.enter, Validate.typeFromAst, Ty.base, hfound,
          outOnly_of_output s (Ty.named c) (output_of_composite s (Ty.named c) (by simpa [Ty.base] using hcc))]
      let v2 := View.enter s (Node.selectionSet ssid sub) v1
      have hcb : compositeBase s (some (Ty.named c)) = some c := by
        simpa [Ty.base] using compositeBase_some s (Ty.named c) (by simpa [Ty.base] using hcc)
      have hv2p : v2.parent = some c := by simp [v2, View.enter, hv1t, hcb]
      have hv2c : compositeBase s v2.type = some c := by simp [v2, View.enter, hv1t, hcb]
      exact eSels_ok s env hs d docE vars hfr sub v2 c hv2p hv2c
        (fun p hp' => hT p (by simp [tnSel, v1, v2]; right; right; exact Or.inr hp'))
        (fun n hn => hN n (by simp [selNodes]; right; right; exact Or.inr hn))
private theorem eSels_ok (s : SchemaD) (env : Exec.ArgEnv) (hs : SchemaWf s) (d : Validate.Doc) (docE : Exec.Doc) (vars : Exec.Vars)
    (hfr : ∀ name ∈ fragNames d, (docE.fragment? name).isSome = true) :
    ∀ (xs : List Validate.Sel) (v : View) (T : String), v.parent = some T → compositeBase s v.type = some T →
      (∀ p ∈ tnSels s v xs, TLocal s p) → (∀ n ∈ selsNodes xs, NLocal s d n) → Spec.selsOk s docE vars T (eSels s env xs) = true
  | [], _, _, _, _, _, _ => by simp [eSels, Spec.selsOk]
  | x :: xs, v, T, hp, hc, hT, hN => by
    simp only [eSels, Spec.selsOk, Bool.and_eq_true]
    exact ⟨eSel_ok s env hs d docE vars hfr x v T hp hc (fun p h => hT p (by simp [tnSels, h])) (fun n h => hN n (by simp [selsNodes, h])),
           eSels_ok s env hs d docE vars hfr xs v T hp hc (fun p h => hT p (by simp [tnSels, h])) (fun n h => hN n (by simp [selsNodes, h]))⟩
end


/-! ### the document level -/

/-- the clauses of `ValidDoc` for which C06 has no proved rule equivalence: they remain hypotheses of the bridge and rest
    on the run-time tie of harness/corr/C05.py (`validate_ast` accepted ⇒ `ValidDoc`, checked on every accepted document) -/
structure RuntimeTie (s : SchemaD) (d : Validate.Doc) (vars : Exec.Vars) : Prop where
  /-- every operation has a root object type (`get_operation_with_type`) -/
  roots : ∀ x ∈ d.defs, ∀ k n vs ds i ss, x = Validate.Def.op k n vs ds i ss → ∃ r, Validate.rootType s k = some r
  /-- no `__schema` / `__type` selections (introspection belongs to C15) -/
  noIntrospection : ∀ p ∈ typedNodes s d, ∀ name args dirs hs, p.1 = Node.field name args dirs hs → name ≠ "__schema" ∧ name ≠ "__type"

def RuntimeTieClauses : List String :=
  ["operations have a root object type", "no __schema/__type selections",
   "MergeSafe (OverlappingFieldsCanBeMerged, declarative; `mergeSafeB` evaluated by the driver on every accepted document) — separate hypothesis of validated_no_internal_error"]

/-- schema fact (schema validation, C13): the root operation types the schema names are object types -/
def RootsAreObjects (s : SchemaD) : Prop := ∀ k r, Exec.rootType s k = some r → Validate.isObject s r = true

/-- the ONE clause left of `RuntimeTie` once "the operation has a root type" is no longer needed (`ValidDocR`): the
    executor model does not execute `__schema` / `__type` (introspection is C15's model) -/
def NoIntrospection (s : SchemaD) (d : Validate.Doc) : Prop :=
  ∀ p ∈ typedNodes s d, ∀ name args dirs hs, p.1 = Node.field name args dirs hs → name ≠ "__schema" ∧ name ≠ "__type"

private theorem frags_names (s : SchemaD) (env : Exec.ArgEnv) (d : Validate.Doc) : (eDoc s env d).frags.map (·.name) = fragNames d := by
  unfold eDoc fragNames
  simp only
  induction d.defs with
  | nil => rfl
  | cons x xs ih =>
    cases x <;> simp [List.filterMap_cons, eFrag, ih]

private theorem fragment_isSome (s : SchemaD) (env : Exec.ArgEnv) (d : Validate.Doc) (name : String) (h : name ∈ fragNames d) :
    ((eDoc s env d).fragment? name).isSome = true := by
  rw [← frags_names s env] at h
  obtain ⟨fr, hfr, hn⟩ := List.mem_map.mp h
  unfold Exec.Doc.fragment?
  rw [List.find?_isSome]
  exact ⟨fr, by simpa using hfr, by simp [hn]⟩

private theorem rootType_compat (s : SchemaD) (k r : String) (h : Validate.rootType s k = some r) :
    Exec.rootType s k = some r ∧ Validate.isObject s r = true := by
  unfold Validate.rootType at h
  unfold Exec.rootType
  split at h
  · cases hq : s.query with
    | none => simp [hq] at h
    | some q => simp [hq] at h; obtain ⟨ho, rfl⟩ := h; simp [hq, ho]
  · cases hq : s.mutation with
    | none => simp [hq] at h
    | some q => simp [hq] at h; obtain ⟨ho, rfl⟩ := h; simp [hq, ho]
  · cases hq : s.subscription with
    | none => simp [hq] at h
    | some q => simp [hq] at h; obtain ⟨ho, rfl⟩ := h; simp [hq, ho]
  · simp at h

private theorem rootType_compat_rev (s : SchemaD) (k r : String) (h : Exec.rootType s k = some r)
    (ho : Validate.isObject s r = true) : Validate.rootType s k = some r := by
  unfold Exec.rootType at h
  unfold Validate.rootType
  split at h
  · rename_i hk
    have hk' : k = "query" := by simpa using hk
    subst hk'
    simp [h, ho]
  · split at h
    · rename_i hk
      have hk' : k = "mutation" := by simpa using hk
      subst hk'
      simp [h, ho]
    · split at h
      · rename_i hk
        have hk' : k = "subscription" := by simpa using hk
        subst hk'
        simp [h, ho]
      · simp at h

private theorem composite_of_object (s : SchemaD) (r : String) (h : Validate.isObject s r = true) : Validate.isComposite s r = true := by
  unfold Validate.isObject at h
  unfold Validate.isComposite
  cases hk : Validate.kindOf s r with
  | none => simp [hk] at h
  | some k => simp [hk] at h; subst h; rfl

/-! ### `fragsAcyclic` from the rule NoFragmentCycles (C06: `rule_no_fragment_cycles_iff`) -/

mutual
private theorem eSel_spreads (s : SchemaD) (env : Exec.ArgEnv) : ∀ x : Validate.Sel, Spec.selSpreads (eSel s env x) = C06.selSpreads x
  | .field al name args dirs true id sub => by simp [eSel, Spec.selSpreads, C06.selSpreads, eSels_spreads s env sub]
  | .field al name args dirs false id sub => by simp [eSel, Spec.selSpreads, Spec.selsSpreads, C06.selSpreads]
  | .spread n dirs => by simp [eSel, Spec.selSpreads, C06.selSpreads]
  | .inline on dirs id sub => by simp [eSel, Spec.selSpreads, C06.selSpreads, eSels_spreads s env sub]
private theorem eSels_spreads (s : SchemaD) (env : Exec.ArgEnv) : ∀ xs : List Validate.Sel,
    Spec.selsSpreads (eSels s env xs) = C06.selSpreads.selsSpreads xs
  | [] => by simp [eSels, Spec.selsSpreads, C06.selSpreads.selsSpreads]
  | x :: xs => by simp [eSels, Spec.selsSpreads, C06.selSpreads.selsSpreads, eSel_spreads s env x, eSels_spreads s env xs]
end

/-- an edge of the executor-side spread graph is a fragment definition of the document and one of its direct spreads -/
private theorem edge_inv (s : SchemaD) (env : Exec.ArgEnv) (d : Validate.Doc) (f g : String) (h : Spec.Edge (eDoc s env d) f g) :
    ∃ sels, (f, sels) ∈ C06.fragsOf d.defs ∧ g ∈ Validate.Spec.directSpreads sels := by
  obtain ⟨fr, hfr, hn, hg⟩ := h
  unfold eDoc at hfr
  simp only [List.mem_filterMap] at hfr
  obtain ⟨x, hx, hxf⟩ := hfr
  cases x with
  | frag name on ds ssid sels =>
    simp only [eFrag, Option.some.injEq] at hxf
    subst hxf
    simp only at hn hg
    subst hn
    refine ⟨sels, ?_, ?_⟩
    · unfold C06.fragsOf
      simp only [List.mem_filterMap]
      exact ⟨_, hx, rfl⟩
    · rw [C06.directSpreads_eq, ← eSels_spreads s env]; exact hg
  | op => simp [eFrag] at hxf
  | ts => simp [eFrag] at hxf

private theorem fragsAcyclic_of_rule (s : SchemaD) (env : Exec.ArgEnv) (d : Validate.Doc)
    (g3 : Validate.Spec.knownFragmentNames d) (g5 : (fragNames d).Nodup) (g6 : Validate.Spec.noFragmentCycles d) :
    Spec.fragsAcyclic (eDoc s env d) = true := by
  have hnd : ((C06.fragsOf d.defs).map (·.1)).Nodup := by rw [← C06.fragNames_eq_fragsOf]; exact g5
  have hstep : ∀ f g, Spec.Edge (eDoc s env d) f g → Validate.Spec.Reach d f g ∧ f ∈ fragNames d := by
    intro f g h
    obtain ⟨sels, hm, hg⟩ := edge_inv s env d f g h
    have hfs : Validate.Spec.fragSels d f = sels := C06.fragSels_of_mem d.defs f sels hnd hm
    refine ⟨.step (by rw [hfs]; exact hg), ?_⟩
    rw [C06.fragNames_eq_fragsOf]
    exact List.mem_map.mpr ⟨(f, sels), hm, rfl⟩
  have hreach : ∀ a b, Spec.Reaches (eDoc s env d) a b → Validate.Spec.Reach d a b ∧ a ∈ fragNames d := by
    intro a b h
    induction h with
    | step he => exact hstep _ _ he
    | trans _ _ ih1 ih2 => exact ⟨.trans ih1.1 ih2.1, ih1.2⟩
  apply Spec.fragsAcyclic_of_noCycles
  · intro f g h
    obtain ⟨sels, hm, hg⟩ := edge_inv s env d f g h
    unfold Validate.Spec.directSpreads at hg
    simp only [List.mem_filterMap] at hg
    obtain ⟨n, hn, hsome⟩ := hg
    have hmem : n ∈ nodes d := by
      unfold C06.fragsOf at hm
      simp only [List.mem_filterMap] at hm
      obtain ⟨x, hx, hxe⟩ := hm
      cases x with
      | frag name on ds ssid sels' =>
        simp at hxe
        obtain ⟨rfl, rfl⟩ := hxe
        unfold nodes
        simp only [List.mem_cons, List.mem_flatMap]
        exact Or.inr ⟨_, hx, by simp [defNodes]; right; right; exact Or.inr hn⟩
      | op => simp at hxe
      | ts => simp at hxe
    unfold Spec.Defined
    rw [frags_names s env]
    cases n with
    | spread name dirs => simp at hsome; subst hsome; exact g3 _ hmem name dirs rfl
    | _ => simp at hsome
  · intro f h
    obtain ⟨hr, hf⟩ := hreach f f h
    exact g6 f hf hr

/-- the bridge, core form: `ValidDocR` (no "the operation has a root type" clause) from the silent rules; `hroot` says
    that a root type the EXECUTOR finds for an operation of the document is the one the VALIDATOR's type walk starts from -/
private theorem rules_accept_validDocR_core (s : SchemaD) (hs : SchemaWf s) (fx : Validate.Fixes) (hv11 : fx.v11 = true) (env : Exec.ArgEnv)
    (d : Validate.Doc) (vars : Exec.Vars)
    (h1 : C06.Silent s fx .fieldsOnCorrectType d) (h2 : C06.Silent s fx .scalarLeafs d)
    (h3 : C06.Silent s fx .knownFragmentNames d) (h4 : C06.Silent s fx .fragmentsOnCompositeTypes d)
    (h5 : C06.Silent s fx .uniqueFragmentNames d) (h6 : C06.Silent s fx .noFragmentCycles d)
    (hne : ∀ f ∈ fragNames d, f ≠ "")
    (hroot : ∀ x ∈ d.defs, ∀ k n vs ds i ss, x = Validate.Def.op k n vs ds i ss → ∀ r, Exec.rootType s k = some r → Validate.rootType s k = some r)
    (hni : NoIntrospection s d) :
    Spec.ValidDocR s (eDoc s env d) vars := by
  have g1 := (C06.rule_fields_on_correct_type_iff s fx d).mp h1
  have g2 := (C06.rule_scalar_leafs_iff s fx d).mp h2
  have g3 := (C06.rule_known_fragment_names_iff s fx d).mp h3
  have g4 := (C06.rule_fragments_on_composite_types_iff s fx d).mp h4
  have g5 := (C06.rule_unique_fragment_names_iff s fx d).mp h5
  have g6 := (C06.rule_no_fragment_cycles_iff s fx hv11 d g5 hne).mp h6
  have hT : ∀ p ∈ typedNodes s d, TLocal s p := by
    intro p hp name args dirs hsub e
    exact ⟨g1 p hp name args dirs hsub e, g2 p hp name args dirs hsub e, hni p hp name args dirs hsub e⟩
  have hN : ∀ n ∈ nodes d, NLocal s d n := fun n hn => ⟨fun on dirs e => g4.1 n hn on dirs e, fun name dirs e => g3 n hn name dirs e⟩
  have hfr := fragment_isSome s env d
  unfold Spec.ValidDocR Spec.validDocRB
  simp only [Bool.and_eq_true]
  refine ⟨⟨⟨?_, ?_⟩, fragsAcyclic_of_rule s env d g3 g5 g6⟩, ?_⟩
  · -- operations
    unfold Spec.opsOkR
    rw [List.all_eq_true]
    intro o ho
    unfold eDoc at ho
    simp only [List.mem_filterMap] at ho
    obtain ⟨x, hx, hxo⟩ := ho
    cases x with
    | op kind name vs ds ssid sels =>
      simp only [eOp, Option.some.injEq] at hxo
      subst hxo
      cases hre : Exec.rootType s kind with
      | none => simp
      | some r =>
      have hr := hroot _ hx kind name vs ds ssid sels rfl r hre
      obtain ⟨_, hobj⟩ := rootType_compat s kind r hr
      simp only []
      have hcomp := composite_of_object s r hobj
      let v1 := View.enter s (Node.operation kind name vs ds sels) {}
      have hv1t : v1.type = some (Ty.named r) := by simp [v1, View.enter, hr]
      let v2 := View.enter s (Node.selectionSet ssid sels) v1
      have hcb : compositeBase s (some (Ty.named r)) = some r := by
        simpa [Ty.base] using compositeBase_some s (Ty.named r) (by simpa [Ty.base] using hcomp)
      have hv2p : v2.parent = some r := by simp [v2, View.enter, hv1t, hcb]
      have hv2c : compositeBase s v2.type = some r := by simp [v2, View.enter, hv1t, hcb]
      refine eSels_ok s env hs d (eDoc s env d) vars hfr sels v2 r hv2p hv2c ?_ ?_
      · intro p hp
        apply hT p
        unfold typedNodes
        simp only [List.mem_flatMap]
        exact ⟨_, hx, by simp [tnDef, v1, v2]; right; right; right; exact Or.inr hp⟩
      · intro n hn
        apply hN n
        unfold nodes
        simp only [List.mem_cons, List.mem_flatMap]
        exact Or.inr ⟨_, hx, by simp [defNodes]; right; right; right; exact Or.inr hn⟩
    | frag => simp [eOp] at hxo
    | ts => simp [eOp] at hxo
  · -- fragment definitions
    unfold Spec.fragsOk
    rw [List.all_eq_true]
    intro f hf
    unfold eDoc at hf
    simp only [List.mem_filterMap] at hf
    obtain ⟨x, hx, hxf⟩ := hf
    cases x with
    | frag name on ds ssid sels =>
      simp only [eFrag, Option.some.injEq] at hxf
      subst hxf
      have hnode : Node.fragmentDef name on ds ∈ nodes d := by
        unfold nodes
        simp only [List.mem_cons, List.mem_flatMap]
        exact Or.inr ⟨_, hx, by simp [defNodes]⟩
      have hcc := g4.2 _ hnode name on ds rfl
      simp only [Bool.and_eq_true]
      refine ⟨isComposite_compat s on hcc, ?_⟩
      have hfound : (s.findType on).isSome = true := by
        unfold Validate.isComposite Validate.kindOf at hcc
        cases hfd : s.findType on with
        | none => simp [hfd] at hcc
        | some _ => rfl
      let v1 := View.enter s (Node.fragmentDef name on ds) {}
      have hv1t : v1.type = some (Ty.named on) := by
        simp [v1, View.enter, Validate.typeFromAst, Ty.base, hfound,
          outOnly_of_output s (Ty.named on) (output_of_composite s (Ty.named on) (by simpa [Ty.base] using hcc))]
      let v2 := View.enter s (Node.selectionSet ssid sels) v1
      have hcb : compositeBase s (some (Ty.named on)) = some on := by
        simpa [Ty.base] using compositeBase_some s (Ty.named on) (by simpa [Ty.base] using hcc)
      have hv2p : v2.parent = some on := by simp [v2, View.enter, hv1t, hcb]
      have hv2c : compositeBase s v2.type = some on := by simp [v2, View.enter, hv1t, hcb]
      refine eSels_ok s env hs d (eDoc s env d) vars hfr sels v2 on hv2p hv2c ?_ ?_
      · intro p hp
        apply hT p
        unfold typedNodes
        simp only [List.mem_flatMap]
        exact ⟨_, hx, by simp [tnDef, v1, v2]; right; right; exact Or.inr hp⟩
      · intro n hn
        apply hN n
        unfold nodes
        simp only [List.mem_cons, List.mem_flatMap]
        exact Or.inr ⟨_, hx, by simp [defNodes]; right; right; exact Or.inr hn⟩
    | op => simp [eFrag] at hxf
    | ts => simp [eFrag] at hxf
  · -- unique fragment names
    unfold Spec.fragsUnique
    simp only [decide_eq_true_eq]
    rw [frags_names s env]
    exact g5


/-- **rules_accept_validDocR** — the bridge from what validation really guarantees. If the MODEL of the validator
    (Validate/*.lean, proved equivalent to the specification rule by rule in Props/C06*.lean) reports nothing for
    FieldsOnCorrectType, ScalarLeafs, KnownFragmentNames, FragmentsOnCompositeTypes, UniqueFragmentNames and
    NoFragmentCycles, then the executor-side translation of the document is `ValidDocR`. The `RuntimeTie` clause
    "every operation has a root object type" is GONE (the validator does not guarantee it: `mutation { a }` on a schema
    without a mutation type is accepted); in its place the schema fact `RootsAreObjects` (schema validation). Left of the
    run-time tie: `NoIntrospection`. -/
theorem rules_accept_validDocR (s : SchemaD) (hs : SchemaWf s) (hro : RootsAreObjects s) (fx : Validate.Fixes) (hv11 : fx.v11 = true)
    (env : Exec.ArgEnv) (d : Validate.Doc) (vars : Exec.Vars)
    (h1 : C06.Silent s fx .fieldsOnCorrectType d) (h2 : C06.Silent s fx .scalarLeafs d)
    (h3 : C06.Silent s fx .knownFragmentNames d) (h4 : C06.Silent s fx .fragmentsOnCompositeTypes d)
    (h5 : C06.Silent s fx .uniqueFragmentNames d) (h6 : C06.Silent s fx .noFragmentCycles d)
    (hne : ∀ f ∈ fragNames d, f ≠ "") (hni : NoIntrospection s d) :
    Spec.ValidDocR s (eDoc s env d) vars :=
  rules_accept_validDocR_core s hs fx hv11 env d vars h1 h2 h3 h4 h5 h6 hne
    (fun _ _ k _ _ _ _ _ _ r hre => rootType_compat_rev s k r hre (hro k r hre)) hni

/-- **rules_accept_validDoc** — the bridge. If the MODEL of the validator (Validate/*.lean, proved equivalent to the
    specification rule by rule in Props/C06*.lean) reports nothing for FieldsOnCorrectType, ScalarLeafs,
    KnownFragmentNames, FragmentsOnCompositeTypes and UniqueFragmentNames, then — with the `RuntimeTie` clauses — the
    executor-side translation of the document is `ValidDoc`; hence `validated_no_internal_error`, `validDoc_responds`
    and `exec_refines_spec` apply to it. (`rules_accept_validDocR` is the form without the root-type clause.) -/
theorem rules_accept_validDoc (s : SchemaD) (hs : SchemaWf s) (fx : Validate.Fixes) (hv11 : fx.v11 = true) (env : Exec.ArgEnv)
    (d : Validate.Doc) (vars : Exec.Vars)
    (h1 : C06.Silent s fx .fieldsOnCorrectType d) (h2 : C06.Silent s fx .scalarLeafs d)
    (h3 : C06.Silent s fx .knownFragmentNames d) (h4 : C06.Silent s fx .fragmentsOnCompositeTypes d)
    (h5 : C06.Silent s fx .uniqueFragmentNames d) (h6 : C06.Silent s fx .noFragmentCycles d)
    (hne : ∀ f ∈ fragNames d, f ≠ "") (rt : RuntimeTie s d vars) :
    Spec.ValidDoc s (eDoc s env d) vars := by
  have hroot : ∀ x ∈ d.defs, ∀ k n vs ds i ss, x = Validate.Def.op k n vs ds i ss → ∀ r, Exec.rootType s k = some r →
      Validate.rootType s k = some r := by
    intro x hx k n vs ds i ss e r hre
    obtain ⟨r', hr'⟩ := rt.roots x hx k n vs ds i ss e
    have := (rootType_compat s k r' hr').1
    rw [hre] at this
    cases this
    exact hr'
  refine validDoc_of_validDocR s _ vars
    (rules_accept_validDocR_core s hs fx hv11 env d vars h1 h2 h3 h4 h5 h6 hne hroot rt.noIntrospection) ?_
  unfold Spec.opsRooted
  rw [List.all_eq_true]
  intro o ho
  unfold eDoc at ho
  simp only [List.mem_filterMap] at ho
  obtain ⟨x, hx, hxo⟩ := ho
  cases x with
  | op kind name vs ds ssid sels =>
    simp only [eOp, Option.some.injEq] at hxo
    subst hxo
    obtain ⟨r, hr⟩ := rt.roots _ hx kind name vs ds ssid sels rfl
    simp [(rootType_compat s kind r hr).1]
  | frag => simp [eOp] at hxo
  | ts => simp [eOp] at hxo

/-- **rules_accept_cannot_go_wrong**: the soundness chain from the validator MODEL to the executor model, for documents
    WITH arguments — silent rules (FieldsOnCorrectType, ScalarLeafs, KnownFragmentNames, FragmentsOnCompositeTypes,
    UniqueFragmentNames, NoFragmentCycles; + the two remaining `RuntimeTie` clauses and `MergeSafe`, the declarative form
    of OverlappingFieldsCanBeMerged), a schema whose objects implement their interfaces covariantly, a typed world ⇒
    no request on the document ends in an internal exception, for every environment of coerced variables (the argument
    tables are computed by C07's `coerceArgumentValues`: a rejected argument is a field error, `bridge_rejected_argument`),
    every operation name and fuel. -/
theorem rules_accept_cannot_go_wrong (s : SchemaD) (hs : SchemaWf s) (hso : SchemaOk s) (fx : Validate.Fixes) (hv11 : fx.v11 = true)
    (env : Exec.ArgEnv) (d : Validate.Doc) (vars : Exec.Vars)
    (h1 : C06.Silent s fx .fieldsOnCorrectType d) (h2 : C06.Silent s fx .scalarLeafs d)
    (h3 : C06.Silent s fx .knownFragmentNames d) (h4 : C06.Silent s fx .fragmentsOnCompositeTypes d)
    (h5 : C06.Silent s fx .uniqueFragmentNames d) (h6 : C06.Silent s fx .noFragmentCycles d)
    (hne : ∀ f ∈ fragNames d, f ≠ "") (rt : RuntimeTie s d vars) (hm : MergeSafe s (eDoc s env d))
    (w : Exec.World) (hw : WorldTyped s w) :
    ∀ (op : Option String) (fuel cf : Nat) (cls : String), Exec.execute s (eDoc s env d) vars w op fuel cf ≠ .failed (.internal cls) :=
  validated_no_internal_error s hso (eDoc s env d) vars (rules_accept_validDoc s hs fx hv11 env d vars h1 h2 h3 h4 h5 h6 hne rt) hm w hw

/-- … and every such document RESPONDS and is refined by the specification's algorithm: `ValidDoc` now comes entirely
    from the rules, so the C04 theorems apply to what the validator model accepts -/
theorem rules_accept_responds (s : SchemaD) (hs : SchemaWf s) (fx : Validate.Fixes) (hv11 : fx.v11 = true)
    (env : Exec.ArgEnv) (d : Validate.Doc) (vars : Exec.Vars)
    (h1 : C06.Silent s fx .fieldsOnCorrectType d) (h2 : C06.Silent s fx .scalarLeafs d)
    (h3 : C06.Silent s fx .knownFragmentNames d) (h4 : C06.Silent s fx .fragmentsOnCompositeTypes d)
    (h5 : C06.Silent s fx .uniqueFragmentNames d) (h6 : C06.Silent s fx .noFragmentCycles d)
    (hne : ∀ f ∈ fragNames d, f ≠ "") (rt : RuntimeTie s d vars) (w : Exec.World) (op : Option String) :
    ∃ r, C04.RespondsWith s (eDoc s env d) vars w op r :=
  C04.validDoc_responds s (eDoc s env d) vars w (rules_accept_validDoc s hs fx hv11 env d vars h1 h2 h3 h4 h5 h6 hne rt) op

/-- **rules_accept_cannot_go_wrong_rootless**: the soundness chain WITHOUT "every operation has a root type" (which
    validation does not guarantee). Hypotheses that remain, and where each comes from:
      * `SchemaWf`, `SchemaOk`, `RootsAreObjects` — facts of a VALID SCHEMA (schema validation, C13), not of the document;
      * `fx.v11` — the code of /repo HEAD (fix commit of V11), checked by the harness on the tree under test;
      * six `Silent` clauses — part of `validate_ast(schema, doc) == []`;
      * `hne` — the parser never produces an empty name;
      * `NoIntrospection` — scope of the executor MODEL (`__schema` / `__type` are C15's);
      * `MergeSafe` — the declarative OverlappingFieldsCanBeMerged on the executor's document (not yet derived from the
        silent overlap rule; the driver evaluates `mergeSafeB` on every accepted document, `mergeSafeB_sound`);
      * `WorldTyped` — part of the property statement ("resolver results of the declared types"). -/
theorem rules_accept_cannot_go_wrong_rootless (s : SchemaD) (hs : SchemaWf s) (hso : SchemaOk s) (hro : RootsAreObjects s)
    (fx : Validate.Fixes) (hv11 : fx.v11 = true) (env : Exec.ArgEnv) (d : Validate.Doc) (vars : Exec.Vars)
    (h1 : C06.Silent s fx .fieldsOnCorrectType d) (h2 : C06.Silent s fx .scalarLeafs d)
    (h3 : C06.Silent s fx .knownFragmentNames d) (h4 : C06.Silent s fx .fragmentsOnCompositeTypes d)
    (h5 : C06.Silent s fx .uniqueFragmentNames d) (h6 : C06.Silent s fx .noFragmentCycles d)
    (hne : ∀ f ∈ fragNames d, f ≠ "") (hni : NoIntrospection s d) (hm : MergeSafe s (eDoc s env d))
    (w : Exec.World) (hw : WorldTyped s w) :
    ∀ (op : Option String) (fuel cf : Nat) (cls : String), Exec.execute s (eDoc s env d) vars w op fuel cf ≠ .failed (.internal cls) :=
  validated_no_internal_error_rootless s hso (eDoc s env d) vars
    (rules_accept_validDocR s hs hro fx hv11 env d vars h1 h2 h3 h4 h5 h6 hne hni) hm w hw

/-- **accepted_cannot_go_wrong**: the same with the premise in the shape of the property statement — the validator's
    list of errors is EMPTY, i.e. every one of the 26 rule visitors is silent. -/
theorem accepted_cannot_go_wrong (s : SchemaD) (hs : SchemaWf s) (hso : SchemaOk s) (hro : RootsAreObjects s)
    (fx : Validate.Fixes) (hv11 : fx.v11 = true) (env : Exec.ArgEnv) (d : Validate.Doc) (vars : Exec.Vars)
    (hacc : ∀ r ∈ Validate.Rule.all, C06.Silent s fx r d)
    (hne : ∀ f ∈ fragNames d, f ≠ "") (hni : NoIntrospection s d) (hm : MergeSafe s (eDoc s env d))
    (w : Exec.World) (hw : WorldTyped s w) :
    ∀ (op : Option String) (fuel cf : Nat) (cls : String), Exec.execute s (eDoc s env d) vars w op fuel cf ≠ .failed (.internal cls) :=
  rules_accept_cannot_go_wrong_rootless s hs hso hro fx hv11 env d vars
    (hacc _ (by decide)) (hacc _ (by decide)) (hacc _ (by decide)) (hacc _ (by decide)) (hacc _ (by decide)) (hacc _ (by decide))
    hne hni hm w hw

/-- **rules_accept_ranked**: a document on which KnownFragmentNames, UniqueFragmentNames and NoFragmentCycles are silent
    translates to a RANKED executor document — the only hypothesis of C04's `exec_refines_spec` / `responds` -/
theorem rules_accept_ranked (s : SchemaD) (fx : Validate.Fixes) (hv11 : fx.v11 = true) (env : Exec.ArgEnv) (d : Validate.Doc)
    (h3 : C06.Silent s fx .knownFragmentNames d) (h5 : C06.Silent s fx .uniqueFragmentNames d)
    (h6 : C06.Silent s fx .noFragmentCycles d) (hne : ∀ f ∈ fragNames d, f ≠ "") :
    C04.Ranked (eDoc s env d) (Spec.docRk (eDoc s env d)) (Spec.docEk (eDoc s env d)) (Spec.docBound (eDoc s env d)) := by
  have g3 := (C06.rule_known_fragment_names_iff s fx d).mp h3
  have g5 := (C06.rule_unique_fragment_names_iff s fx d).mp h5
  have g6 := (C06.rule_no_fragment_cycles_iff s fx hv11 d g5 hne).mp h6
  exact C04.acyclic_ranked _ (by rw [frags_names s env]; exact g5) (fragsAcyclic_of_rule s env d g3 g5 g6)

/-- **rules_accept_refines_spec** — C04's headline from VALIDATION instead of a rank certificate: on every document the
    validator model accepts (only the three fragment rules are needed; no schema hypothesis, no `RuntimeTie`, no
    `MergeSafe`), for every variables, world, fuel and selection set: the executor model refines the specification's
    algorithm (same ordered data; errors agree one by one on path and kind; locations up to repeats). -/
theorem rules_accept_refines_spec (s : SchemaD) (fx : Validate.Fixes) (hv11 : fx.v11 = true) (env : Exec.ArgEnv) (d : Validate.Doc)
    (h3 : C06.Silent s fx .knownFragmentNames d) (h5 : C06.Silent s fx .uniqueFragmentNames d)
    (h6 : C06.Silent s fx .noFragmentCycles d) (hne : ∀ f ∈ fragNames d, f ≠ "")
    (vars : Exec.Vars) (w : Exec.World) (cf fuel : Nat) (root : String) (path : Exec.Path) (sels : List Exec.Sel) :
    C04.ExecRefinesSpecUpToLocations s (eDoc s env d) vars w cf fuel root path sels :=
  C04.exec_refines_spec s _ vars w _ _ _ (rules_accept_ranked s fx hv11 env d h3 h5 h6 hne) cf fuel root path sels

/-- the table of a translated field node is C07's coercion of ITS argument nodes, one entry per object type defining the
    field (`C04.argsTable_mem`, `C04.argsEntry_some_iff` / `argsEntry_none_iff` read the entries) -/
theorem bridge_field_args (s : SchemaD) (env : Exec.ArgEnv) (alias : Option String) (name : String) (args : List Validate.Arg)
    (dirs : List Validate.Dir) (hs : Bool) (ssid : Nat) (sub : List Validate.Sel) :
    ∃ key loc ds sub', eSel s env (.field alias name args dirs hs ssid sub)
      = .field key name loc ds (Exec.argsTable s env name (eArgs args)) hs sub' :=
  ⟨_, _, _, _, rfl⟩

/-- a rejected argument (C07: `coerceArgumentValues` fails) of a translated field is a FIELD ERROR of the executor model:
    `null`, one `coercion` error at the field, the resolver world is not consulted -/
theorem bridge_rejected_argument (s : SchemaD) (env : Exec.ArgEnv) (w : Exec.World) (execSub) (path : Exec.Path)
    (t : TypeD) (f fd : FieldD) (name : String) (args : List Validate.Arg) (node : Exec.FNode) (more : List Exec.FNode)
    (ht : t ∈ s.types) (hk : t.kind = .object) (hf : t.fields.find? (·.name == name) = some f)
    (hnode : node.args = Exec.argsTable s env name (eArgs args))
    (hfirst : (node.args.find? (·.1 == t.name)) = some (t.name, Exec.argsEntry env (f.args.map Exec.inFieldOfArg) (eArgs args)))
    (hrej : Exec.argsEntry env (f.args.map Exec.inFieldOfArg) (eArgs args) = none) :
    Exec.resolveField s w execSub t.name path (node :: more) fd
      = .ok (.null, [{ path := path, locs := [node.loc], kind := .coercion }]) := by
  simp [Exec.resolveField, hfirst, hrej]

/-! non-vacuity: a document of the validator's AST with a fragment, an inline fragment, a directive and ARGUMENTS -/
def brSchema : SchemaD :=
  { types := [{ kind := .scalar, name := "String" }, { kind := .scalar, name := "Int" },
              { kind := .object, name := "Query", fields := [{ name := "a", type := .named "Int", args := [{ name := "n", type := .named "Int" }] },
                                                             { name := "o", type := .named "Ob" }] },
              { kind := .object, name := "Ob", fields := [{ name := "x", type := .list (.named "String") }] }] }
def brEnv : Exec.ArgEnv := { reg := Exec.regOfSchema brSchema, fuel := 50, vars := [("v", .int 7)] }
def brDoc : Validate.Doc :=
  { defs := [.op "query" none [] [] 1
               [.field none "a" [⟨"n", .int "3"⟩] [⟨"skip", [⟨"if", .bool false⟩]⟩] false 0 [], .spread "F" [],
                .inline (some "Query") [] 2 [.field (some "k") "o" [] [] true 3 [.field none "x" [] [] false 0 [], .field none "__typename" [] [] false 0 []]]],
             .frag "F" "Query" [] 4 [.field (some "b") "a" [⟨"n", .var "v"⟩] [] false 0 [], .field (some "c") "a" [⟨"n", .str "no"⟩] [] false 0 []]] }
example : Spec.ValidDoc brSchema (eDoc brSchema brEnv brDoc) [] := by unfold Spec.ValidDoc; decide

/-- the tables: an argument given through a variable is accepted, the literal `"no"` for `Int` is rejected (field error) -/
example : (Exec.argsTable brSchema brEnv "a" (eArgs [⟨"n", .var "v"⟩])).map (fun e => (e.1, e.2.isSome)) = [("Query", true)] := by decide
example : Exec.argsTable brSchema brEnv "a" (eArgs [⟨"n", .str "no"⟩]) = [("Query", none)] := by decide

/-- non-vacuity of the rootless chain: `mutation { a }` on `brSchema` (no mutation type): every rule is silent — the
    validator accepts — the `roots` clause of `RuntimeTie` FAILS, `RootsAreObjects` and `NoIntrospection` hold -/
def brMutation : Validate.Doc := { defs := [.op "mutation" none [] [] 1 [.field none "a" [] [] false 0 []]] }
def brSchemaQ : SchemaD := { brSchema with query := some "Query" }
example : ∀ r ∈ Validate.Rule.all, C06.Silent brSchemaQ Validate.Fixes.all r brMutation := by
  unfold C06.Silent; decide +kernel
example : Validate.rootType brSchemaQ "mutation" = none := by decide
example : RootsAreObjects brSchemaQ := by
  intro k r h
  unfold Exec.rootType at h
  simp [brSchemaQ, brSchema] at h
  obtain ⟨_, rfl⟩ := h
  decide
example : Spec.ValidDocR brSchemaQ (eDoc brSchemaQ brEnv brMutation) [] := by unfold Spec.ValidDocR; decide

end PyGql.Props.C05

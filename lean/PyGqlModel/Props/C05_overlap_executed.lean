/-
  C05 — `accepted_cannot_go_wrong_merged` about the description the DRIVER EXECUTES (as `accepted_cannot_go_wrong_executed`,
  but without the hypothesis `MergeSafe`), with every schema hypothesis a computable check the driver evaluates, and a
  computable form of the alias hypothesis (`aliasesB`).
-/
import PyGqlModel.Props.C05_overlap
import PyGqlModel.Props.C05_executed
import PyGqlModel.Spec.DocChecks

set_option linter.unusedSimpArgs false
set_option linter.unusedVariables false

namespace PyGql.Props.C05
open PyGql PyGql.Exec PyGql.Spec
open PyGql.Validate (Node)
open PyGql.Validate.Spec (SelSet nodes selNodes selsNodes)

/-! ### a computable form of `AliasesNonEmpty` -/

private theorem selsAliasB_mem : ∀ (xs : List Validate.Sel) (x : Validate.Sel), selsAliasB xs = true → x ∈ xs → selAliasB x = true
  | [], _, _, h => by simp at h
  | y :: ys, x, h, hm => by
    simp only [selsAliasB, Bool.and_eq_true] at h
    simp only [List.mem_cons] at hm
    rcases hm with rfl | hm
    · exact h.1
    · exact selsAliasB_mem ys x h.2 hm

mutual
private theorem alias_sel : ∀ (x : Validate.Sel) (i : Nat) (sels : List Validate.Sel), selAliasB x = true →
    Node.selectionSet i sels ∈ selNodes x → selsAliasB sels = true
  | .field al name args dirs hs id sub, i, sels, h, hm => by
    simp only [selAliasB, Bool.and_eq_true] at h
    simp only [selNodes, List.mem_cons, reduceCtorEq, false_or, List.mem_append] at hm
    rcases hm with (hm | hm) | hm
    · exact absurd (Validate.argsNodes_noSelSet args _ hm) (by simp [Validate.Node.isSelSet])
    · exact absurd (Validate.dirsNodes_noSelSet dirs _ hm) (by simp [Validate.Node.isSelSet])
    · cases hs with
      | false => simp at hm
      | true =>
        simp only [if_true, List.mem_cons, Node.selectionSet.injEq] at hm
        rcases hm with ⟨rfl, rfl⟩ | hm
        · exact h.2
        · exact alias_sels sub i sels h.2 hm
  | .spread name dirs, i, sels, h, hm => by
    simp only [selNodes, List.mem_cons, reduceCtorEq, false_or] at hm
    exact absurd (Validate.dirsNodes_noSelSet dirs _ hm) (by simp [Validate.Node.isSelSet])
  | .inline on dirs id sub, i, sels, h, hm => by
    simp only [selAliasB] at h
    simp only [selNodes, List.mem_cons, reduceCtorEq, false_or, List.mem_append, Node.selectionSet.injEq] at hm
    rcases hm with hm | ⟨rfl, rfl⟩ | hm
    · exact absurd (Validate.dirsNodes_noSelSet dirs _ hm) (by simp [Validate.Node.isSelSet])
    · exact h
    · exact alias_sels sub i sels h hm
private theorem alias_sels : ∀ (xs : List Validate.Sel) (i : Nat) (sels : List Validate.Sel), selsAliasB xs = true →
    Node.selectionSet i sels ∈ selsNodes xs → selsAliasB sels = true
  | [], _, _, _, hm => by simp [selsNodes] at hm
  | x :: xs, i, sels, h, hm => by
    simp only [selsAliasB, Bool.and_eq_true] at h
    simp only [selsNodes, List.mem_append] at hm
    rcases hm with hm | hm
    · exact alias_sel x i sels h.1 hm
    · exact alias_sels xs i sels h.2 hm
end

/-- `aliasesB` is sound for `AliasesNonEmpty` -/
theorem aliasesNonEmpty_of_check (d : Validate.Doc) (h : aliasesB d = true) : AliasesNonEmpty d := by
  intro i sels hS al name args dirs hs id sub hm
  have hsels : selsAliasB sels = true := by
    simp only [SelSet, nodes, List.mem_cons, reduceCtorEq, false_or, List.mem_flatMap] at hS
    obtain ⟨df, hdf, hn⟩ := hS
    unfold aliasesB at h
    rw [List.all_eq_true] at h
    have hd := h df hdf
    cases df with
    | ts a b => simp [Validate.Spec.defNodes] at hn
    | op kind nm vs ds ssid osels =>
      simp only at hd
      simp only [Validate.Spec.defNodes, List.mem_cons, reduceCtorEq, false_or, List.mem_append, Node.selectionSet.injEq] at hn
      rcases hn with (hn | hn) | ⟨rfl, rfl⟩ | hn
      · exact absurd (Validate.varDefsNodes_noSelSet vs _ hn) (by simp [Validate.Node.isSelSet])
      · exact absurd (Validate.dirsNodes_noSelSet ds _ hn) (by simp [Validate.Node.isSelSet])
      · exact hd
      · exact alias_sels osels i sels hd hn
    | frag nm on ds ssid fsels =>
      simp only at hd
      simp only [Validate.Spec.defNodes, List.mem_cons, reduceCtorEq, false_or, List.mem_append, Node.selectionSet.injEq] at hn
      rcases hn with hn | ⟨rfl, rfl⟩ | hn
      · exact absurd (Validate.dirsNodes_noSelSet ds _ hn) (by simp [Validate.Node.isSelSet])
      · exact hd
      · exact alias_sels fsels i sels hd hn
  have := selsAliasB_mem sels _ hsels hm
  simp only [selAliasB, Bool.and_eq_true, bne_iff_ne, ne_eq] at this
  exact this.1

/-- **accepted_cannot_go_wrong_merged_executed** — C05's execution half about what the driver runs, WITHOUT `MergeSafe`:
    `s` is the dumped schema; `schemaChecksB` and `fieldOwnersB` of `withBuiltins s` are the evaluated schema facts; all 26
    rule visitors (the memoised overlap search) are silent on the document over `withBuiltins s`; `DocChecksMemo` and
    `aliasesB` are the static document checks; the world is typed against `s`. Then the response `Exec.execute s` computes
    for the translated document is never an internal exception. Remaining document-side hypotheses: `NoIntrospection`
    and non-empty fragment names. -/
theorem accepted_cannot_go_wrong_merged_executed (s : SchemaD) (hchk : schemaChecksB (withBuiltins s) = true)
    (hfo : fieldOwnersB (withBuiltins s) = true)
    (fx : Validate.Fixes) (hv11 : fx.v11 = true) (h7 : fx.v7 = true) (env : Exec.ArgEnv) (d : Validate.Doc) (vars : Exec.Vars)
    (hacc : ∀ r ∈ Validate.Rule.all, C06.SilentM (withBuiltins s) fx r d)
    (hck : C06.DocChecksMemo (withBuiltins s) d) (hal : aliasesB d = true)
    (hne : ∀ f ∈ Validate.Spec.fragNames d, f ≠ "") (hni : NoIntrospection (withBuiltins s) d)
    (w : Exec.World) (hw : WorldTyped s w) :
    ∀ (op : Option String) (fuel cf : Nat) (cls : String),
      Exec.execute s (eDoc (withBuiltins s) env d) vars w op fuel cf ≠ .failed (.internal cls) := by
  intro op fuel cf cls
  rw [← execute_withBuiltins]
  unfold schemaChecksB at hchk
  simp only [Bool.and_eq_true] at hchk
  obtain ⟨⟨⟨⟨⟨hk, hc⟩, hr⟩, ho⟩, hs⟩, _⟩ := hchk
  exact accepted_cannot_go_wrong_merged (withBuiltins s) (schemaWf_of_checks _ ho hs) (schemaOk_of_checks _ hk hc)
    (rootsAreObjects_of_check _ hr) (fieldOwners_of_check _ hfo) fx hv11 h7 env d vars hacc hck hne
    (aliasesNonEmpty_of_check d hal) hni w (worldTyped_withBuiltins s w hw) op fuel cf cls

/-! ### every document-side hypothesis as ONE computable check -/

theorem noIntrospection_of_check (s : SchemaD) (d : Validate.Doc) (h : noIntrospectionB d = true) : NoIntrospection s d := by
  intro p hp name args dirs hs e
  have hm := Validate.typed_node_mem hp
  unfold noIntrospectionB at h
  rw [List.all_eq_true] at h
  have := h _ hm
  rw [e] at this
  simpa using this

/-! NOTE ON THE PREMISE AND THE CONCLUSION (audit C05-F2 / C05-F4 / C06-F8). (i) `C06.SilentM` counts recorded errors of
    each rule run ALONE and ignores the crash flag of that run. Here it is a PREMISE: a weaker premise makes the theorem
    apply to MORE documents (also to documents on which a rule's run would have raised), it does not make it unsound.
    What is NOT proved is the link "the chain `validate_ast` runs returned [] ⇒ every rule alone is silent" - that is the
    chain-level gap of C06 (audit C06-F7); the correspondence compares the real chain's verdict with the model chain
    (`runM`) and with every rule alone on every generated document. "Validation never raises" (first sentence of C05)
    has NO theorem for the whole chain: the model has five crash sites (ValuesOfCorrectType `_check_scalar`,
    KnownDirectives on empty ancestors, UniqueInputFieldNames on an empty stack, NoFragmentCycles, the overlap search);
    only the memoised overlap search alone is proved crash-free (`C06.overlap_memo_run_never_crashes`). (ii) `Exec.argsEntry`
    folds every failure of `coerce_argument_values` - also `Coerce.Err.internal` / `.fuel` - into `none`, a field error:
    the conclusion does not speak about an internal exception INSIDE argument coercion (C07's `arguments_sound` is about
    accepted values; C07 has a never-raises theorem for variables only); tied by the correspondence (real argument
    coercion vs the model's tables, `argnodes`). -/

/-- **accepted_cannot_go_wrong_computable** — the execution half of C05 with EVERY hypothesis except `WorldTyped` (which
    is part of the property statement) a computable check: `schemaChecksB` / `fieldOwnersB` on the schema (evaluated by the
    driver on every request), `docChecksB` on the document, the code variant (`fx.v7`, `fx.v11`: probed by the harness on
    the tree under test), and "all 26 rule visitors silent" (the validator model, the memoised overlap search). -/
theorem accepted_cannot_go_wrong_computable (s : SchemaD) (hchk : schemaChecksB (withBuiltins s) = true)
    (hfo : fieldOwnersB (withBuiltins s) = true)
    (fx : Validate.Fixes) (hv11 : fx.v11 = true) (h7 : fx.v7 = true) (env : Exec.ArgEnv) (d : Validate.Doc) (vars : Exec.Vars)
    (hacc : ∀ r ∈ Validate.Rule.all, C06.SilentM (withBuiltins s) fx r d) (hd : docChecksB d = true)
    (w : Exec.World) (hw : WorldTyped s w) :
    ∀ (op : Option String) (fuel cf : Nat) (cls : String),
      Exec.execute s (eDoc (withBuiltins s) env d) vars w op fuel cf ≠ .failed (.internal cls) := by
  unfold docChecksB at hd
  simp only [Bool.and_eq_true, List.all_eq_true, bne_iff_ne, ne_eq] at hd
  obtain ⟨⟨⟨⟨hid, hmeta⟩, hal⟩, hnames⟩, hni⟩ := hd
  exact accepted_cannot_go_wrong_merged_executed s hchk hfo fx hv11 h7 env d vars hacc ⟨hid, hmeta⟩ hal hnames
    (noIntrospection_of_check _ d hni) w hw

/-- `ValidDocR` of the executed document from the computable hypotheses (the six structural rules silent) -/
theorem accepted_validDocR (s : SchemaD) (hchk : schemaChecksB (withBuiltins s) = true)
    (fx : Validate.Fixes) (hv11 : fx.v11 = true) (env : Exec.ArgEnv) (d : Validate.Doc) (vars : Exec.Vars)
    (hacc : ∀ r ∈ Validate.Rule.all, C06.SilentM (withBuiltins s) fx r d) (hd : docChecksB d = true) :
    ValidDocR (withBuiltins s) (eDoc (withBuiltins s) env d) vars := by
  unfold docChecksB at hd
  simp only [Bool.and_eq_true, List.all_eq_true, bne_iff_ne, ne_eq] at hd
  obtain ⟨⟨⟨⟨_, _⟩, _⟩, hnames⟩, hni⟩ := hd
  unfold schemaChecksB at hchk
  simp only [Bool.and_eq_true] at hchk
  obtain ⟨⟨⟨⟨⟨_, _⟩, hr⟩, ho⟩, hs⟩, _⟩ := hchk
  have sil : ∀ r, r ∈ Validate.Rule.all → r ≠ .overlappingFieldsCanBeMerged → C06.Silent (withBuiltins s) fx r d :=
    fun r hr hn => (C06.silentM_of_ne hn).mp (hacc r hr)
  exact rules_accept_validDocR (withBuiltins s) (schemaWf_of_checks _ ho hs) (rootsAreObjects_of_check _ hr) fx hv11 env d vars
    (sil .fieldsOnCorrectType (by decide) (by decide)) (sil .scalarLeafs (by decide) (by decide))
    (sil .knownFragmentNames (by decide) (by decide)) (sil .fragmentsOnCompositeTypes (by decide) (by decide))
    (sil .uniqueFragmentNames (by decide) (by decide)) (sil .noFragmentCycles (by decide) (by decide))
    hnames (noIntrospection_of_check _ d hni)

/-- **accepted_responds_computable** — the POSITIVE half (audit C05-F5: `≠ .failed (.internal _)` alone is also satisfied
    by the out-of-fuel artefact, e.g. at fuel 0): under the same computable hypotheses every request on an accepted document
    HAS a response `r` (`C04.RespondsWith`: some amounts of fuel produce it and it is not the out-of-fuel artefact; it is
    the same for every sufficient fuel, `C04.response_unique`), and that response is not an internal exception. -/
theorem accepted_responds_computable (s : SchemaD) (hchk : schemaChecksB (withBuiltins s) = true)
    (hfo : fieldOwnersB (withBuiltins s) = true)
    (fx : Validate.Fixes) (hv11 : fx.v11 = true) (h7 : fx.v7 = true) (env : Exec.ArgEnv) (d : Validate.Doc) (vars : Exec.Vars)
    (hacc : ∀ r ∈ Validate.Rule.all, C06.SilentM (withBuiltins s) fx r d) (hd : docChecksB d = true)
    (w : Exec.World) (hw : WorldTyped s w) (op : Option String) :
    ∃ r, C04.RespondsWith s (eDoc (withBuiltins s) env d) vars w op r ∧ ∀ cls, r ≠ .failed (.internal cls) := by
  have hv := accepted_validDocR s hchk fx hv11 env d vars hacc hd
  unfold ValidDocR validDocRB at hv
  simp only [Bool.and_eq_true] at hv
  obtain ⟨⟨_, ha⟩, hu⟩ := hv
  obtain ⟨r, fuel, cf, he, hne⟩ := C04.responds_acyclic s (eDoc (withBuiltins s) env d) vars w
    (by simpa [fragsUnique] using hu) ha op
  refine ⟨r, ⟨fuel, cf, he, hne⟩, fun cls hr => ?_⟩
  exact accepted_cannot_go_wrong_computable s hchk hfo fx hv11 h7 env d vars hacc hd w hw op fuel cf cls (he.trans hr)

/-- **accepted_mergeSafe** — `MergeSafe` itself from the computable hypotheses: what "all 26 rule visitors silent" gives
    about same-key selections of the executed document -/
theorem accepted_mergeSafe (s : SchemaD) (hchk : schemaChecksB (withBuiltins s) = true) (hfo : fieldOwnersB (withBuiltins s) = true)
    (fx : Validate.Fixes) (hv11 : fx.v11 = true) (h7 : fx.v7 = true) (env : Exec.ArgEnv) (d : Validate.Doc)
    (hacc : ∀ r ∈ Validate.Rule.all, C06.SilentM (withBuiltins s) fx r d) (hd : docChecksB d = true) :
    MergeSafe (withBuiltins s) (eDoc (withBuiltins s) env d) := by
  unfold docChecksB at hd
  simp only [Bool.and_eq_true, List.all_eq_true, bne_iff_ne, ne_eq] at hd
  obtain ⟨⟨⟨⟨hid, hmeta⟩, hal⟩, hnames⟩, hni⟩ := hd
  unfold schemaChecksB at hchk
  simp only [Bool.and_eq_true] at hchk
  obtain ⟨⟨⟨⟨⟨hk, hc⟩, hr⟩, ho⟩, hs⟩, _⟩ := hchk
  have sil : ∀ r, r ∈ Validate.Rule.all → r ≠ .overlappingFieldsCanBeMerged → C06.Silent (withBuiltins s) fx r d :=
    fun r hr hn => (C06.silentM_of_ne hn).mp (hacc r hr)
  have h0 : (Validate.overlapMemoRun (withBuiltins s) fx d).1 = 0 := by
    have := hacc .overlappingFieldsCanBeMerged (by decide)
    unfold C06.SilentM at this
    simpa using this
  exact mergeSafe_of_silent (withBuiltins s) (schemaWf_of_checks _ ho hs) (rootsAreObjects_of_check _ hr) (fieldOwners_of_check _ hfo)
    fx hv11 h7 env d []
    (sil .fieldsOnCorrectType (by decide) (by decide)) (sil .scalarLeafs (by decide) (by decide))
    (sil .knownFragmentNames (by decide) (by decide)) (sil .fragmentsOnCompositeTypes (by decide) (by decide))
    (sil .uniqueFragmentNames (by decide) (by decide)) (sil .noFragmentCycles (by decide) (by decide))
    (sil .uniqueArgumentNames (by decide) (by decide)) h0 ⟨hid, hmeta⟩ hnames (aliasesNonEmpty_of_check d hal)
    (noIntrospection_of_check _ d hni)

/-- **accepted_same_key_unambiguous** — "one unambiguous value per response key" from validation: in the selection set
    of every operation of an accepted document (fragments opened), two selections with the same response key
      * whose parent types can meet in one runtime object denote the SAME CALL (field name, coerced arguments), and
      * in any case declare types that admit exactly the same response values (`shapeOk`). -/
theorem accepted_same_key_unambiguous (s : SchemaD) (hchk : schemaChecksB (withBuiltins s) = true)
    (hfo : fieldOwnersB (withBuiltins s) = true)
    (fx : Validate.Fixes) (hv11 : fx.v11 = true) (h7 : fx.v7 = true) (env : Exec.ArgEnv) (d : Validate.Doc)
    (hacc : ∀ r ∈ Validate.Rule.all, C06.SilentM (withBuiltins s) fx r d) (hd : docChecksB d = true) :
    ∀ o ∈ (eDoc (withBuiltins s) env d).ops, ∀ root, rootType (withBuiltins s) o.kind = some root →
      ∀ x y, InScope (eDoc (withBuiltins s) env d) (tag root o.sels) x → InScope (eDoc (withBuiltins s) env d) (tag root o.sels) y →
        x.2.key = y.2.key →
        (Overlap (withBuiltins s) x.1 y.1 → x.2.name = y.2.name ∧ x.2.args = y.2.args) ∧
        (∀ t u, fieldTy (withBuiltins s) x.1 x.2 = some t → fieldTy (withBuiltins s) y.1 y.2 = some u →
          ∀ dta, shapeOk (withBuiltins s) t dta = shapeOk (withBuiltins s) u dta) := by
  intro o ho root hroot x y hx hy hk
  have hms := accepted_mergeSafe s hchk hfo fx hv11 h7 env d hacc hd o ho root hroot
  refine ⟨fun hov => ?_, fun t u ht hu => same_key_one_shape _ _ _ hms x y hx hy hk t u ht hu⟩
  cases hms with
  | intro h1 _ _ => exact h1 x y hx hy hk hov

/-! non-vacuity: the static checks on the example document of `Props/C05_overlap.lean` -/
example : docChecksB (mgDoc .null) = true := by decide
example : aliasesB (mgDoc .null) = true := by decide
example : fieldOwnersB (withBuiltins brSchemaQ) = true ∧ schemaChecksB (withBuiltins brSchemaQ) = true := by decide

end PyGql.Props.C05

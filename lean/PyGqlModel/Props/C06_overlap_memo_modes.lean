/-
  C06 - property theorems, part 23: THE MEMO IS KEYED ON THE TRIPLE (field map, fragment, mutually exclusive).

  Seeded change C06-11 replaced the set of triples by a map (field map, fragment) ↦ exclusivity with an inverted
  coverage test, so that a comparison made under MUTUALLY EXCLUSIVE parents (response shapes only) hid a later one under
  OVERLAPPING parents (names and arguments too). The model `Validate/OverlapMemo.lean` tests `(ssid, name, me) ∈ c.ffp`
  - the triple, like the code - and `overlap_memo_complete` is proved for exactly that key. The document of the seeded
  change, in all six orders of its three same-key selections:

      { pet { ... on Dog { owner { label } }  ... on Cat { owner { ...Y } }  ... on Dog { owner { ...Y } } } }
      fragment Y on Human { label: nickname }

  `memo_modes_reported`: the memoised rule reports in every order (by evaluation); `memo_modes_invalid`: hence the
  clause of 5.3.2 fails in every order (`overlap_memo_report_genuine`). The correspondence runs the same family on the
  real validator on every run (`corr/C06.py: memo_mode_table`, 152 documents).
-/
import PyGqlModel.Props.C06_overlap_memo
import PyGqlModel.Validate.OverlapMemoPairKeyed
namespace PyGql.Props.C06
open PyGql PyGql.Validate PyGql.Validate.Spec

/-- `type Query { pet: Pet } interface Pet { owner: Human } type Human { label: String nickname: String }
    type Dog implements Pet { owner: Human } type Cat implements Pet { owner: Human }` -/
def pSchema : SchemaD :=
  { types := [
      { kind := .scalar, name := "Int" }, { kind := .scalar, name := "String" }, { kind := .scalar, name := "Boolean" },
      { kind := .object, name := "Query", fields := [{ name := "pet", type := .named "Pet" }] },
      { kind := .interface, name := "Pet", fields := [{ name := "owner", type := .named "Human" }] },
      { kind := .object, name := "Human", fields := [
          { name := "label", type := .named "String" }, { name := "nickname", type := .named "String" }] },
      { kind := .object, name := "Dog", interfaces := ["Pet"], fields := [{ name := "owner", type := .named "Human" }] },
      { kind := .object, name := "Cat", interfaces := ["Pet"], fields := [{ name := "owner", type := .named "Human" }] }],
    query := some "Query",
    directives := [] }

def pF1 : Sel := .inline (some "Dog") [] 10 [.field none "owner" [] [] true 11 [fld none "label"]]
def pF2 : Sel := .inline (some "Cat") [] 20 [.field none "owner" [] [] true 21 [sp "Y"]]
def pF3 : Sel := .inline (some "Dog") [] 30 [.field none "owner" [] [] true 31 [sp "Y"]]

def pDoc (a b c : Sel) : Doc :=
  ⟨[opV [] 1 [.field none "pet" [] [] true 2 [a, b, c]], .frag "Y" "Human" [] 40 [fld (some "label") "nickname"]]⟩

/-- the six orders -/
def pDocs : List Doc :=
  [pDoc pF1 pF2 pF3, pDoc pF1 pF3 pF2, pDoc pF2 pF1 pF3, pDoc pF2 pF3 pF1, pDoc pF3 pF1 pF2, pDoc pF3 pF2 pF1]

/-- **the memoised rule reports the conflict in every order of the selections** - in particular in the three orders
    in which (owner{label}, Y) is first compared under the mutually exclusive pair Dog / Cat -/
theorem memo_modes_reported : ∀ dd ∈ pDocs, 0 < (overlapMemoRun pSchema Fixes.all dd).1 := by decide +kernel

/-- hence the document violates 5.3.2 in every order -/
theorem memo_modes_invalid : ∀ dd ∈ pDocs, ¬ Spec.overlappingFieldsCanBeMerged pSchema dd := fun dd hd =>
  overlap_memo_report_genuine pSchema Fixes.all rfl dd (memo_modes_reported dd hd)

/-- the valid twin (third selection under a third, mutually exclusive, object type - here: Cat twice, Dog once with the
    plain field) is silent: `... on Dog { owner { label } } ... on Cat { owner { ...Y } } ... on Cat { owner { ...Y } }` -/
example : (overlapMemoRun pSchema Fixes.all
    (pDoc pF1 pF2 (.inline (some "Cat") [] 30 [.field none "owner" [] [] true 31 [sp "Y"]]))).1 = 0 := by decide +kernel

/-! ### why the flag belongs to the key

`Validate/OverlapMemoPairKeyed.lean` is the search with the memo of seeded change C06-11 (pair-keyed map with the coverage
test `previous or not mutually_exclusive`). On the same six documents it is SILENT in exactly the three orders in which
the Cat selection precedes the second Dog selection - the verdict depends on the order of the selections, and an invalid
document is accepted; the triple-keyed search of /repo reports in all six (`memo_modes_reported`). -/

/-- the pair-keyed variant accepts the (invalid) document in three of the six orders -/
theorem pair_keyed_memo_loses_report :
    pDocs.map (fun dd => decide ((overlapPairRun pSchema Fixes.all dd).1 = 0)) = [true, false, true, true, false, false] := by
  decide +kernel

/-- ... so it is not verdict-neutral, and not invariant under reordering selections: witness orders f1 f2 f3 / f1 f3 f2 -/
theorem pair_keyed_memo_order_dependent :
    (overlapPairRun pSchema Fixes.all (pDoc pF1 pF2 pF3)).1 = 0 ∧ 0 < (overlapPairRun pSchema Fixes.all (pDoc pF1 pF3 pF2)).1 ∧
    0 < (overlapMemoRun pSchema Fixes.all (pDoc pF1 pF2 pF3)).1 := by decide +kernel

end PyGql.Props.C06

/-
  C07 — "input objects are dictionaries … with declared defaults FILLED IN": what about the declared defaults themselves?

  The model hands a declared default over AS DECLARED (`coerceArg`, `coerceInputObject`, `extractInputObject`:
  `some v => .ok (some v)` — the code's `copy_containers(field.default_value)`), and the soundness theorems assume
  `RegOK.defaultsConform` / `ArgsOK.defaultsConform`: every declared default `Conforms` to its type, which for an input object
  includes "defaulted fields present". A schema built from SDL establishes that premise (defaults are literals coerced by
  `value_from_ast`, which fills the nested defaults in). A schema built with the PYTHON API does not have to: schema validation
  (`_default_value_error`, /repo 7cadcb0) checks the values found under the fields' python names and deliberately leaves missing
  keys to the author. `DeclaredOK` is that weaker check; this file shows the gap between the two is exactly finding A11:

    * `incomplete_default_validated`       the witness registry (code-first `Outer.inner: Inner = {}`, `Inner.x: Int = 3`)
                                           passes the validator's check (`DeclaredOK`),
    * `incomplete_default_reaches_resolver` yet `{ f(o: {}) }` hands the resolver `{'inner': {}}`, while `{ f(o: {inner: {}}) }`
                                           hands it `{'inner': {'x': 3}}`,
    * `incomplete_default_not_conforming`  and `{'inner': {}}` does not conform to `Outer`,
    * `incomplete_default_not_regOK`       so the registry is outside `RegOK` (the theorems do not speak about it), and
    * `defaults_filled_statement_refuted`  the statement with the validator's premise in place of `RegOK` is FALSE on today's code.

  Reproduced on the real code by the named probe `default-shapes` of harness/corr/C07.py (known finding A11).
-/
import PyGqlModel.Props.C07_args

namespace PyGql.Props.C07
open PyGql PyGql.Coerce

mutual
/-- what `_default_value_error` accepts: like `Conforms`, except that a mapping at an input-object position may omit any field
    (only the values found under a field's python name are checked) -/
inductive DeclaredOK (reg : Reg) : Ty → PV → Prop
  | null {t : Ty} : t.isNonNull = false → DeclaredOK reg t .none
  | nonNull {t : Ty} {pv : PV} : pv.isNone = false → DeclaredOK reg t pv → DeclaredOK reg (.nonNull t) pv
  | list {t : Ty} {l : List PV} : (∀ x, x ∈ l → DeclaredOK reg t x) → DeclaredOK reg (.list t) (.list l)
  | leaf {n : String} {pv : PV} : (∀ fs, reg.get? n ≠ some (.input fs)) → Conforms reg (.named n) pv → DeclaredOK reg (.named n) pv
  | input {n : String} {fs : List InField} {kvs : List (String × PV)} :
      reg.get? n = some (.input fs) → DeclaredFields reg fs kvs → DeclaredOK reg (.named n) (.dict kvs)
inductive DeclaredFields (reg : Reg) : List InField → List (String × PV) → Prop
  | nil : DeclaredFields reg [] []
  | present {f : InField} {fs : List InField} {pv : PV} {kvs : List (String × PV)} :
      DeclaredOK reg f.type pv → DeclaredFields reg fs kvs → DeclaredFields reg (f :: fs) ((f.pyName, pv) :: kvs)
  | omitted {f : InField} {fs : List InField} {kvs : List (String × PV)} :
      DeclaredFields reg fs kvs → DeclaredFields reg (f :: fs) kvs
end

/-- the premise schema validation establishes for a code-first registry: `RegOK` with `DeclaredOK` for the defaults -/
structure RegDeclaredOK (reg : Reg) : Prop where
  fieldWf : ∀ n fs, reg.get? n = some (.input fs) → ∀ f, f ∈ fs → f.type.wf = true
  defaultsDeclared : ∀ n fs, reg.get? n = some (.input fs) → ∀ f, f ∈ fs → ∀ d, f.default = some d → DeclaredOK reg f.type d
  enumNotNone : ∀ n vs, reg.get? n = some (.enum vs) → ∀ p, p ∈ vs → p.2.isNone = false
  pyNamesDistinct : ∀ n fs, reg.get? n = some (.input fs) → (fs.map (fun f => f.pyName)).Nodup

namespace A11
def innerFields : List InField := [{ name := "x", pyName := "x", type := .named "Int", default := some (.int 3) }]
def innerField : InField := { name := "inner", pyName := "inner", type := .named "Inner", default := some (.dict []) }
def outerFields : List InField := [innerField, { name := "k", pyName := "k", type := .named "Int", default := none }]
/-- `Inner = InputObjectType("Inner", [InputField("x", Int, default_value=3)])`,
    `Outer = InputObjectType("Outer", [InputField("inner", Inner, default_value={}), InputField("k", Int)])` -/
def reg : Reg := Reg.ofTypes [("Int", .int), ("Inner", .input innerFields), ("Outer", .input outerFields)]
/-- `f(o: Outer)` -/
def argDefs : List InField := [{ name := "o", pyName := "o", type := .named "Outer", default := none }]

private theorem get_int : reg.get? "Int" = some .int := rfl
private theorem get_inner : reg.get? "Inner" = some (.input innerFields) := rfl
private theorem get_outer : reg.get? "Outer" = some (.input outerFields) := rfl

private theorem get_input {n : String} {fs : List InField} (h : reg.get? n = some (.input fs)) :
    (n = "Inner" ∧ fs = innerFields) ∨ (n = "Outer" ∧ fs = outerFields) := by
  unfold Reg.get? at h
  split at h
  · rename_i p hp
    have hn : p.1 = n := by simpa using List.find?_some hp
    have hm := List.mem_of_find?_eq_some hp
    simp [reg, Reg.ofTypes] at hm
    rcases hm with rfl | rfl | rfl <;> simp at h
    · exact .inl ⟨hn.symm, h.symm⟩
    · exact .inr ⟨hn.symm, h.symm⟩
  · cases h
end A11

/-- inversion: a conforming value at an input-object position is a dict conforming field by field -/
theorem conforms_input_inv {reg : Reg} {n : String} {fs : List InField} (hn : reg.get? n = some (.input fs)) :
    ∀ pv, Conforms reg (.named n) pv → pv = .none ∨ ∃ kvs, pv = .dict kvs ∧ ConformsFields reg fs kvs := by
  intro pv h
  cases h with
  | null _ => exact .inl rfl
  | int hg _ => rw [hn] at hg; cases hg
  | float hg => rw [hn] at hg; cases hg
  | string hg => rw [hn] at hg; cases hg
  | boolean hg => rw [hn] at hg; cases hg
  | id hg => rw [hn] at hg; cases hg
  | custom hg _ => rw [hn] at hg; cases hg
  | enum hg _ => rw [hn] at hg; cases hg
  | input hg hf =>
    rw [hn] at hg
    cases hg
    exact .inr ⟨_, rfl, hf⟩

open A11 in
/-- the empty mapping is NOT a conforming value of `Inner`: its defaulted field `x` is missing -/
theorem empty_not_inner : ¬ Conforms A11.reg (.named "Inner") (.dict []) := by
  intro h
  rcases conforms_input_inv get_inner _ h with h0 | ⟨kvs, hk, hf⟩
  · cases h0
  · cases hk
    cases hf with
    | absent hd _ _ => simp [innerFields] at hd

open A11 in
/-- **finding A11, resolver side.** With the code-first declaration above, the request `{ f(o: {}) }` hands the resolver
    `o = {'inner': {}}` — the declared default of `Outer.inner`, as declared — while `{ f(o: {inner: {}}) }` hands it
    `o = {'inner': {'x': 3}}`: the declared default of `Inner.x` is filled in only when the mapping is written in the request. -/
theorem incomplete_default_reaches_resolver :
    coerceArgumentValues A11.reg 10 [] [("o", .obj [])] A11.argDefs = .ok [("o", .dict [("inner", .dict [])])] ∧
    coerceArgumentValues A11.reg 10 [] [("o", .obj [("inner", .obj [])])] A11.argDefs = .ok [("o", .dict [("inner", .dict [("x", .int 3)])])] :=
  ⟨rfl, rfl⟩

open A11 in
/-- … and what the resolver received does not conform to `Outer` -/
theorem incomplete_default_not_conforming : ¬ Conforms A11.reg (.named "Outer") (.dict [("inner", .dict [])]) := by
  intro h
  rcases conforms_input_inv get_outer _ h with h0 | ⟨kvs, hk, hf⟩
  · cases h0
  · cases hk
    cases hf with
    | present h1 _ => exact empty_not_inner h1
    | absent hd _ _ => simp [innerField] at hd

open A11 in
/-- the registry is outside the premise of the soundness theorems … -/
theorem incomplete_default_not_regOK : ¬ RegOK A11.reg := fun h =>
  empty_not_inner (h.defaultsConform "Outer" outerFields get_outer innerField (by simp [outerFields]) (.dict []) rfl)

open A11 in
/-- … although it passes what schema validation checks about declared defaults -/
theorem incomplete_default_validated : RegDeclaredOK A11.reg := by
  refine ⟨?_, ?_, ?_, ?_⟩
  · intro n fs h f hf
    rcases get_input h with ⟨_, rfl⟩ | ⟨_, rfl⟩
    · simp [innerFields] at hf; subst hf; rfl
    · simp [outerFields] at hf; rcases hf with rfl | rfl <;> rfl
  · intro n fs h f hf d hd
    rcases get_input h with ⟨_, rfl⟩ | ⟨_, rfl⟩
    · simp [innerFields] at hf; subst hf
      simp at hd; subst hd
      refine .leaf (fun fs h => ?_) (.int get_int (by decide))
      rw [get_int] at h; cases h
    · simp [outerFields] at hf
      rcases hf with rfl | rfl <;> simp [innerField] at hd
      subst hd
      exact .input get_inner (.omitted .nil)
  · intro n vs h p _
    unfold Reg.get? at h
    split at h
    · rename_i q hq
      have hm := List.mem_of_find?_eq_some hq
      simp [reg, Reg.ofTypes] at hm
      rcases hm with rfl | rfl | rfl <;> simp at h
    · cases h
  · intro n fs h
    rcases get_input h with ⟨_, rfl⟩ | ⟨_, rfl⟩ <;> decide

/-- THE STATEMENT with the premise that code-first schemas actually satisfy (what `Schema.validate()` checks) in place of
    `RegOK`: every accepted argument list conforms, declared defaults filled in. -/
def DefaultsFilledStatement : Prop :=
  ∀ (reg : Reg) (fuel : Nat) (args : List (String × Lit)) (defs : List InField) (kw : List (String × PV)),
    RegDeclaredOK reg → (∀ d, d ∈ defs → d.default = none ∧ d.type.wf = true) →
    (∀ d, d ∈ defs → ∀ l, lookupLast d.name args = some l → VarsFit reg (some []) d.type l) →
    coerceArgumentValues reg fuel [] args defs = .ok kw → ConformsFields reg defs kw

open A11 in
/-- **REFUTED on today's code (finding A11)**: witness `{ f(o: {}) }` on the code-first registry above. With `RegOK` in place
    of `RegDeclaredOK` the statement is `arguments_sound`. -/
theorem defaults_filled_statement_refuted : ¬ DefaultsFilledStatement := by
  intro h
  have hc := h A11.reg 10 [("o", .obj [])] argDefs _ incomplete_default_validated
    (by intro d hd; simp [argDefs] at hd; subst hd; exact ⟨rfl, rfl⟩)
    (by
      intro d hd l hl
      simp [argDefs] at hd; subst hd
      simp [lookupLast] at hl; subst hl
      exact .obj (n := "Outer") (fs := outerFields) rfl get_outer (fun f _ l hl => by simp [lookupLast] at hl))
    incomplete_default_reaches_resolver.1
  cases hc with
  | present h1 _ => exact incomplete_default_not_conforming h1
  | absent _ _ hrest => cases hrest

end PyGql.Props.C07

/-
  C08 — the counter of `gather_futures` AS SHIPPED (fix 6013951: increment and local copy under a lock, the last-one test
  on the local copy; `RuntimeRaceShipped.lean`): for EVERY number of workers and EVERY interleaving, once all callbacks have
  returned the aggregate Future has been set exactly once, by the worker that counted `target_count`, and no callback hit
  InvalidStateError. The variant is re-extracted from the source (`Generated/GatherLock.lean`): `gather_shipped_variant`
  stops compiling when the tree loses the lock or tests the shared counter again.
  (The refutations in `Props/C08_race.lean` / `C08_race_n.lean` are about the PRE-FIX machine.)
-/
import PyGqlModel.RuntimeRaceShipped
import PyGqlModel.Generated.GatherLock

set_option linter.unusedVariables false
set_option linter.unusedSimpArgs false

namespace PyGql.Props.C08
open PyGql.AsyncExec.RaceShipped

/-- the tree has the locked increment with a local copy (re-extracted on every run) -/
theorem gather_shipped_variant :
    PyGql.Generated.GatherLock.gatherCounterLocked = true ∧ PyGql.Generated.GatherLock.testsLocalCount = true := by decide

def cntStart : List PC → Nat
  | [] => 0
  | .start :: r => cntStart r + 1
  | _ :: r => cntStart r

/-- workers holding the count `t` that have not run their TEST yet -/
def cntHold (t : Nat) : List PC → Nat
  | [] => 0
  | .counted c :: r => (if c = t then 1 else 0) + cntHold t r
  | _ :: r => cntHold t r

private theorem set_start (t : Nat) (l : List PC) (i : Nat) (x : PC) (h : l[i]? = some .start) :
    cntStart (l.set i x) + 1 = cntStart l + cntStart [x] ∧ cntHold t (l.set i x) = cntHold t l + cntHold t [x] := by
  induction l generalizing i with
  | nil => simp at h
  | cons a r ih =>
    cases i with
    | zero => simp at h; subst h; cases x <;> simp [cntStart, cntHold, List.set] <;> omega
    | succ j =>
      simp at h
      obtain ⟨h1, h2⟩ := ih j h
      cases a <;> simp [cntStart, cntHold, List.set] <;> omega

private theorem set_counted (t c : Nat) (l : List PC) (i : Nat) (h : l[i]? = some (.counted c)) :
    cntStart (l.set i .finished) = cntStart l ∧ cntHold t (l.set i .finished) + (if c = t then 1 else 0) = cntHold t l := by
  induction l generalizing i with
  | nil => simp at h
  | cons a r ih =>
    cases i with
    | zero => simp at h; subst h; simp [cntStart, cntHold, List.set]; omega
    | succ j =>
      simp at h
      obtain ⟨h1, h2⟩ := ih j h
      cases a <;> simp [cntStart, cntHold, List.set] <;> omega

/-- invariant: (1) `done` counts exactly the workers that have incremented; (2) the aggregate is set, or exactly one
    worker holds the count `target_count` — iff everybody has incremented; (3) no InvalidStateError. -/
structure SInv (s : St) : Prop where
  count : s.done + cntStart s.pcs = s.target
  last : s.sets + cntHold s.target s.pcs = (if s.done = s.target then 1 else 0)
  quiet : s.swallowed = 0

private theorem sinv_init (plain n : Nat) (hn : 0 < n) : SInv (St.init plain n) := by
  have hc : ∀ n, cntStart (List.replicate n PC.start) = n := by
    intro n; induction n with
    | zero => rfl
    | succ k ih => simp [List.replicate, cntStart, ih]
  have hh : ∀ t n, cntHold t (List.replicate n PC.start) = 0 := by
    intro t n; induction n with
    | zero => rfl
    | succ k ih => simp [List.replicate, cntHold, ih]
  refine ⟨by simp [St.init, hc], ?_, rfl⟩
  simp only [St.init, hh]
  have : plain ≠ plain + n := by omega
  simp [this]; omega

private theorem sinv_step (s : St) (i : Nat) (h : SInv s) : SInv (step s i) := by
  obtain ⟨hc, hl, hq⟩ := h
  unfold step
  cases hp : s.pcs[i]? with
  | none => exact ⟨hc, hl, hq⟩
  | some pc =>
    cases pc with
    | finished => exact ⟨hc, hl, hq⟩
    | start =>
      obtain ⟨h1, h2⟩ := set_start s.target s.pcs i (.counted (s.done + 1)) hp
      simp only [cntStart, cntHold] at h1 h2
      refine ⟨by simp only; omega, ?_, hq⟩
      simp only [h2]
      have hlt : s.done ≠ s.target := by omega
      simp only [hlt, if_false] at hl
      by_cases hd : s.done + 1 = s.target
      · simp [hd]; omega
      · simp [hd]; omega
    | counted c =>
      obtain ⟨h1, h2⟩ := set_counted s.target c s.pcs i hp
      by_cases hct : c = s.target
      · have hct' : (c == s.target) = true := by simp [hct]
        simp only [hct', if_true]
        simp only [hct, if_true] at h2
        have hs0 : s.sets = 0 := by
          by_cases hd : s.done = s.target <;> simp [hd] at hl <;> omega
        have hs0' : (s.sets == 0) = true := by simp [hs0]
        simp only [hs0', if_true]
        refine ⟨by simp only [h1]; exact hc, ?_, hq⟩
        simp only
        omega
      · have hct' : (c == s.target) = false := by simp [hct]
        simp only [hct', Bool.false_eq_true, if_false]
        simp only [hct, if_false, Nat.add_zero] at h2
        exact ⟨by simp only [h1]; exact hc, by simp only [h2]; exact hl, hq⟩

private theorem sinv_run (sched : List Nat) : ∀ s, SInv s → SInv (run s sched) := by
  induction sched with
  | nil => intro s h; exact h
  | cons i rest ih => intro s h; exact ih _ (sinv_step s i h)

private theorem zero_of_all_finished (t : Nat) (l : List PC) (h : l.all (· == .finished) = true) :
    cntStart l = 0 ∧ cntHold t l = 0 := by
  induction l with
  | nil => simp [cntStart, cntHold]
  | cons a r ih =>
    simp at h
    obtain ⟨ha, hr⟩ := h
    subst ha
    have := ih (by simpa using hr)
    simp [cntStart, cntHold, this]

/-- **gather_shipped_sets_outer_once.** `gather_futures` as shipped, `n > 0` pending futures, callbacks on any number of
    workers, EVERY interleaving of their COUNT and TEST steps: once all callbacks have returned, no update was lost, the
    aggregate Future has been set exactly once and no callback raised InvalidStateError. -/
theorem gather_shipped_sets_outer_once (plain n : Nat) (hn : 0 < n) (sched : List Nat)
    (hfin : (run (St.init plain n) sched).allFinished = true) :
    (run (St.init plain n) sched).sets = 1 ∧ (run (St.init plain n) sched).swallowed = 0
      ∧ (run (St.init plain n) sched).done = (run (St.init plain n) sched).target := by
  have h := sinv_run sched _ (sinv_init plain n hn)
  generalize run (St.init plain n) sched = s at h hfin
  obtain ⟨z1, z2⟩ := zero_of_all_finished s.target s.pcs (by simpa [St.allFinished] using hfin)
  have hc := h.count
  have hl := h.last
  rw [z1] at hc
  rw [z2] at hl
  have hd : s.done = s.target := by omega
  simp [hd] at hl
  exact ⟨hl, h.quiet, hd⟩

/-- non-vacuity: three workers, COUNTs first then TESTs in reverse order -/
example : (run (St.init 1 3) [0, 1, 2, 2, 1, 0]).allFinished = true ∧ (run (St.init 1 3) [0, 1, 2, 2, 1, 0]).sets = 1 := by decide

end PyGql.Props.C08

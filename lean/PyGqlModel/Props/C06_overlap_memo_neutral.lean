/-
  C06 - property theorems, part 32: WHERE EXACTLY the verdict-neutrality of the overlap memo
  (`OverlapMemoNeutralStatement`, `Props/C06_overlap_memo.lean`) is still open.

  `overlap_memo_neutral_side` needs `OverlapSide` for the half "un-memoised silent ⇒ memoised silent", and
  `overlapSide_of_wf` derived `OverlapSide` from unique fragment names + `Spec.noFragmentCycles`. Here the derivation is
  made EXACT: for a document with well-formed identities (every parsed document),

      `OverlapSide s d  ↔  no fragment named ""  ∧  TableAcyclic d`        (`overlapSide_iff_tableAcyclic`)

  where `TableAcyclic` = the fragment TABLE (`ctx.fragments`: the last definition of a name) has no cycle of bare
  spreads (through inline fragments, NOT through sub-selections of fields). Consequences:
    * DUPLICATE fragment names are now inside the neutrality theorem (`overlap_memo_neutral_tableAcyclic`: the memoised
      and the un-memoised rule give the same verdict on them, under `NoCrash`, `ParentsAgree`, `WfIds`);
    * what stays open is exactly: documents whose fragment table has a cycle of bare spreads on which the un-memoised
      search does not exhaust its fuel (`OverlapMemoNeutralOpenRegion`). Those are rejected by NoFragmentCycles in any
      case (`verdict_memo_neutral` is unaffected); for the rule alone the per-document cross-check `memo:crosscheck`
      of the correspondence covers them.
-/
import PyGqlModel.Props.C06_overlap_memo_complete
import PyGqlModel.Props.C06_head
namespace PyGql.Props.C06
open PyGql PyGql.Validate PyGql.Validate.Spec

/-- the fragment table has no cycle of bare spreads -/
def TableAcyclic (d : Doc) : Prop := ∀ n g, SprF d n g → ¬ ReachF d g n

/-- `spreadsApart` from well-formed identities and an acyclic fragment table - fragment names need not be unique -/
theorem spreadsApart_of_tableAcyclic {d : Doc} (hw : WfIds d) (hac : TableAcyclic d) :
    ∀ i sels, SelSet d i sels → ∀ g, SpreadD sels g → Apart d i g := by
  intro i sels hs g hg n hr on fid fsels ht hfi
  subst hfi
  have hsame : sels = fsels := wf_selSet_unique hw hs (fragTable_selSet ht)
  subst hsame
  exact hac n g ⟨on, fid, sels, ht, hg⟩ hr

/-- **`OverlapSide`, exactly** (documents with well-formed identities) -/
theorem overlapSide_iff_tableAcyclic (s : SchemaD) (d : Doc) (hw : WfIds d) :
    OverlapSide s d ↔ (AL.get? (fragTable d) "" = none ∧ TableAcyclic d) := by
  constructor
  · intro h
    refine ⟨h.noEmptyName, ?_⟩
    rintro n g ⟨on, fid, fsels, ht, hg⟩ hr
    exact h.spreadsApart fid fsels (fragTable_selSet ht) g hg n hr on fid fsels ht rfl
  · rintro ⟨h1, h2⟩
    exact ⟨h1, subsNotBodies_of hw, spreadsApart_of_tableAcyclic hw h2⟩

/-- **verdict-neutrality of the memo without unique fragment names**: same verdict of the memoised and the un-memoised
    rule on every document whose fragment table has no cycle of bare spreads -/
theorem overlap_memo_neutral_tableAcyclic (s : SchemaD) (fx : Fixes) (h7 : fx.v7 = true) (d : Doc)
    (hnc : NoCrash s fx d) (hpa : Spec.ParentsAgree s d) (hw : WfIds d) (hne : AL.get? (fragTable d) "" = none)
    (hac : TableAcyclic d) :
    (overlapMemoRun s fx d).1 = 0 ↔ Silent s fx .overlappingFieldsCanBeMerged d :=
  overlap_memo_neutral_side s fx d h7 hnc hpa ((overlapSide_iff_tableAcyclic s d hw).mpr ⟨hne, hac⟩) hw

/-- the region in which `OverlapMemoNeutralStatement` is still open, as a statement: a cycle of bare spreads in the
    fragment table that the un-memoised search survives, on which it is silent although the memoised rule reports.
    (One half is closed everywhere: `overlap_memo_silent_plain_silent`.) -/
def OverlapMemoNeutralOpenRegion : Prop :=
  ∃ (s : SchemaD) (fx : Fixes) (d : Doc), fx.v7 = true ∧ NoCrash s fx d ∧ Spec.ParentsAgree s d ∧ WfIds d ∧
    AL.get? (fragTable d) "" = none ∧ ¬ TableAcyclic d ∧
    Silent s fx .overlappingFieldsCanBeMerged d ∧ 0 < (overlapMemoRun s fx d).1

/-- **`OverlapMemoNeutralStatement` restricted to the side conditions `ParentsAgree`, `WfIds`, no empty name fails ONLY
    inside the open region** -/
theorem overlap_memo_neutral_or_open (s : SchemaD) (fx : Fixes) (h7 : fx.v7 = true) (d : Doc)
    (hnc : NoCrash s fx d) (hpa : Spec.ParentsAgree s d) (hw : WfIds d) (hne : AL.get? (fragTable d) "" = none) :
    ((overlapMemoRun s fx d).1 = 0 ↔ Silent s fx .overlappingFieldsCanBeMerged d) ∨ OverlapMemoNeutralOpenRegion := by
  by_cases hac : TableAcyclic d
  · exact Or.inl (overlap_memo_neutral_tableAcyclic s fx h7 d hnc hpa hw hne hac)
  · by_cases hsil : Silent s fx .overlappingFieldsCanBeMerged d
    · by_cases h0 : (overlapMemoRun s fx d).1 = 0
      · exact Or.inl ⟨fun _ => hsil, fun _ => h0⟩
      · exact Or.inr ⟨s, fx, d, h7, hnc, hpa, hw, hne, hac, hsil, Nat.pos_of_ne_zero h0⟩
    · exact Or.inl ⟨fun h0 => overlap_memo_silent_plain_silent s fx h7 d hpa hne hw h0,
        fun h => absurd h hsil⟩

/-! non-vacuity: DUPLICATE fragment names - `{ ...A ...B }` with `A` defined twice (the last definition wins) and `B`;
    the table is acyclic, the document is outside `overlapSide_of_wf` (names not unique) and inside the theorem above -/
def dupDoc : Doc :=
  ⟨[opV [] 1 [sp "A", sp "B"], fragQ "A" 2 [fld (some "x") "b"], fragQ "A" 3 [fld (some "x") "a"],
    fragQ "B" 4 [fld (some "x") "a"]]⟩

example : ¬ (Spec.fragNames dupDoc).Nodup := by decide
example : wfIdsB dupDoc = true := by decide

theorem dupDoc_table : fragTable dupDoc =
    [("A", ("Query", 3, [fld (some "x") "a"])), ("B", ("Query", 4, [fld (some "x") "a"]))] := by
  simp [fragTable, dupDoc, fragDefs, opV, fragQ, AL.set, AL.has]

theorem dupDoc_tableAcyclic : TableAcyclic dupDoc := by
  rintro n g ⟨on, fid, fsels, ht, hg⟩ _
  rw [dupDoc_table, AL.get?_cons, AL.get?_cons, AL.get?_nil] at ht
  have hf : fsels = [fld (some "x") "a"] := by
    by_cases h1 : "A" = n
    · rw [if_pos h1] at ht; cases ht; rfl
    · rw [if_neg h1] at ht
      by_cases h2 : "B" = n
      · rw [if_pos h2] at ht; cases ht; rfl
      · rw [if_neg h2] at ht; cases ht
  subst hf
  cases hg with
  | spread hm => simp [fld] at hm
  | inline hm _ => simp [fld] at hm

example : OverlapSide oSchema dupDoc :=
  (overlapSide_iff_tableAcyclic oSchema dupDoc (by rw [← wfIdsB_iff]; decide)).mpr
    ⟨by rw [dupDoc_table]; decide, dupDoc_tableAcyclic⟩

/-- every hypothesis of `overlap_memo_neutral_tableAcyclic` on the document with a duplicate fragment name -/
example : (overlapMemoRun oSchema Fixes.all dupDoc).1 = 0 ↔ Silent oSchema Fixes.all .overlappingFieldsCanBeMerged dupDoc :=
  overlap_memo_neutral_tableAcyclic oSchema Fixes.all rfl dupDoc (by unfold NoCrash; decide +kernel)
    (parentsAgree_of_rules oSchema dupDoc (schemaOutputs_of_check oSchema (by decide))
      ((rule_scalar_leafs_iff oSchema Fixes.all dupDoc).mp (by unfold Silent; decide +kernel))
      ((rule_fragments_on_composite_types_iff oSchema Fixes.all dupDoc).mp (by unfold Silent; decide +kernel))
      ((noMetaSubsB_iff dupDoc).mp (by decide)) ((wfIdsB_iff dupDoc).mp (by decide)))
    ((wfIdsB_iff dupDoc).mp (by decide)) (by rw [dupDoc_table]; decide) dupDoc_tableAcyclic

end PyGql.Props.C06

/-
  C12 — the THIRD clause of the property: "serialising the rebuilt schema reproduces the same text"
  (`print (build (parse (print s))) = print s`).  Audit 3, finding F8 (second half): the clause had no theorem.

  `text_roundtrip` gives `build ∘ parse ∘ print = printOrder` on the schemas of `printTextWF ∧ printBuildWF`, and the
  printer does not see the order of the registries (`printSchemaT_order_independent`), so the printed text is a FIXPOINT of
  print → parse → build → print.  Stated for
    * the Text model without applied directives (`print_fixpoint_text`),
    * the Text model with applied directives (`print_fixpoint_text_custom`: the rebuilt schema's nodes are the nodes of
      the parsed document, i.e. the same assignment `apps`),
    * the String model of the history correspondence (`print_fixpoint_string`),
    * in the auditor's form — ANY schema a document builds that equals `printOrder s` re-prints the text
      (`reprint_of_build`).
  EXCLUSIONS (named): the schemas outside `printTextWF o s` (lexical: H5 empty / trailing-newline / trailing-backslash /
  control-character descriptions, H12 lines wider than 120 − indent, enum values `true/false/null`, `descriptions = false`
  — for that see `print_fixpoint_text_nodesc` in `C12_nodesc.lean`) and outside `printBuildWF s` (structural: H2 omitted
  defaulted input fields, H6 empty deprecation reason, H8 non-canonical floats, Python-valued enums, resolvers).
  `C12_valid.lean` ties both predicates to C13's `ValidSchema`.
-/
import PyGqlModel.Props.C12_order
import PyGqlModel.Props.C12_models
namespace PyGql.Props.C12
open PyGql PyGql.Sdl PyGql.SdlPrint PyGql.SdlText

/-- THE STATEMENT of the clause at text level: the printed text parses, the parsed document builds a schema, and printing
    THAT schema gives the same text again (and the rebuilt schema is again inside the domain of the theorem, so the
    round trip can be iterated) -/
def PrintFixpointStatement : Prop :=
  ∀ (o : SdlPrintT.OptsT) (s : SchemaD), printTextWF o s = true → printBuildWF s = true →
    ∃ (d : Ast.Document) (doc : Doc) (s' : SchemaD), parseSdlTextT (SdlPrintT.printSchemaT o s) = some d ∧
      docToAst doc = some d ∧ build doc = .ok s' ∧
      SdlPrintT.printSchemaT o s' = SdlPrintT.printSchemaT o s ∧ printTextWF o s' = true ∧ printBuildWF s' = true

/-- **print_fixpoint_text** — the statement, in full -/
theorem print_fixpoint_text : PrintFixpointStatement := by
  intro o s hwf hb
  have hu := namesUnique_of_wf o s hwf
  obtain ⟨d, doc, h1, h2, h3⟩ := text_roundtrip o s hwf (printBuildWF_printOrder s hb)
  exact ⟨d, doc, printOrder s, h1, h2, h3, printSchemaT_order_independent o s hu,
    by rw [printTextWF_order_independent o s hu]; exact hwf, printBuildWF_printOrder s hb⟩

/-- **reprint_of_build** — the auditor's form: whatever document builds the printing order of `s` (the document the text
    parses to does, by `text_roundtrip`), re-printing the built schema gives the text of `s` -/
theorem reprint_of_build (o : SdlPrintT.OptsT) (s : SchemaD) (hwf : printTextWF o s = true) (doc : Doc) (s' : SchemaD)
    (hdoc : build doc = .ok s') (hsame : build doc = .ok (printOrder s)) :
    SdlPrintT.printSchemaT o s' = SdlPrintT.printSchemaT o s := by
  have e : s' = printOrder s := by rw [hdoc] at hsame; exact Except.ok.inj hsame
  rw [e]; exact printSchemaT_order_independent o s (namesUnique_of_wf o s hwf)

/-- **print_fixpoint_text_custom** — with applied directives (`include_custom_schema_directives` on / whitelist): the
    document — applications included — builds `s'`, and printing `s'` with the same directive nodes gives the same text -/
theorem print_fixpoint_text_custom (c : SdlPrintTA.OptsA) (s : SchemaD) (apps : Apps)
    (hwf : SdlPrintTA.printTextWFA c s apps = true) (hb : printBuildWF s = true) :
    ∃ (d : Ast.Document) (doc : Doc) (s' : SchemaD), parseSdlTextT (SdlPrintTA.printSchemaTA c s apps) = some d ∧
      docToAst doc = some d ∧ doc = SdlPrintTA.printedDocA s c apps ∧ build doc = .ok s' ∧
      SdlPrintTA.printSchemaTA c s' apps = SdlPrintTA.printSchemaTA c s apps ∧ SdlPrintTA.printTextWFA c s' apps = true := by
  have hu := namesUnique_of_wfA c s apps hwf
  obtain ⟨d, doc, h1, h2, h3, h4⟩ := text_roundtrip_custom_build c s apps hwf hb
  exact ⟨d, doc, printOrder s, h1, h2, h3, h4, printSchemaTA_order_independent c s apps hu,
    by rw [printTextWFA_printOrder c s apps hu]; exact hwf⟩

/-- **print_fixpoint_string** — the same about the String model (the model of `print_pure` and of the history
    correspondence), in the state of the fixed code -/
theorem print_fixpoint_string (o : Opts) (s : SchemaD) (apps : Apps)
    (hwf : SdlPrintTA.printTextWFA (SdlModels.optsA o) s apps = true) (hb : printBuildWF s = true) :
    ∃ (d : Ast.Document) (doc : Doc) (s' : SchemaD),
      parseSdlTextT (SdlPrintT.T (printSchema o s apps initialCollection).1) = some d ∧ docToAst doc = some d ∧
      build doc = .ok s' ∧ (printSchema o s' apps initialCollection).1 = (printSchema o s apps initialCollection).1 := by
  obtain ⟨d, doc, s', h1, h2, _, h4, h5, h6⟩ := print_fixpoint_text_custom (SdlModels.optsA o) s apps hwf hb
  refine ⟨d, doc, s', ?_, h2, h4, ?_⟩
  · rw [printSchemaTA_eq_printSchema_of_wfa o s apps hwf]; exact h1
  · have e1 := printSchemaTA_eq_printSchema_of_wfa o s apps hwf
    have e2 := printSchemaTA_eq_printSchema_of_wfa o s' apps h6
    have : SdlPrintT.T (printSchema o s' apps initialCollection).1 = SdlPrintT.T (printSchema o s apps initialCollection).1 := by
      rw [e1, e2, h5]
    exact SdlModels.T_inj.mp this

/-! ### non-vacuity -/

example : ∃ d doc s', parseSdlTextT (SdlPrintT.printSchemaT {} shop) = some d ∧ docToAst doc = some d ∧ build doc = .ok s' ∧
    SdlPrintT.printSchemaT {} s' = SdlPrintT.printSchemaT {} shop ∧ printTextWF {} s' = true ∧ printBuildWF s' = true :=
  print_fixpoint_text {} shop (by decide) shop_wf
example : ∃ d doc s', parseSdlTextT (SdlPrintT.printSchemaT { indent := [9] } descShop) = some d ∧ docToAst doc = some d ∧
    build doc = .ok s' ∧ SdlPrintT.printSchemaT { indent := [9] } s' = SdlPrintT.printSchemaT { indent := [9] } descShop ∧
    printTextWF { indent := [9] } s' = true ∧ printBuildWF s' = true :=
  print_fixpoint_text _ descShop (by decide) (by decide)

end PyGql.Props.C12

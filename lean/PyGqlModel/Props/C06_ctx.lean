/-
  C06 - property theorems, part 9: rules proved through the generic context walk (`Lemmas/ValidateCtx.lean`).
  `KnownDirectivesChecker` (5.7.1, 5.7.2): the context is the rule's OWN stack of ancestors.
-/
import PyGqlModel.Props.C06_names
import PyGqlModel.Lemmas.ValidateCtx
namespace PyGql.Props.C06
open PyGql PyGql.Validate PyGql.Validate.Spec

theorem enter_single (s : SchemaD) (fx : Fixes) (r : Rule) (n : Node) (st : St) :
    enter ⟨s, fx, [r]⟩ n st =
      ({ ti := tiEnter s n st.ti, rs := (enterRule s fx r n (tiEnter s n st.ti) st.rs).1 },
       (enterRule s fx r n (tiEnter s n st.ti) st.rs).2) := by
  simp only [enter, enterRules_one]

theorem leave_single (s : SchemaD) (fx : Fixes) (r : Rule) (n : Node) (st : St) :
    leave ⟨s, fx, [r]⟩ n st = { ti := tiLeave n st.ti, rs := leaveRule s fx r n st.ti st.rs } := by
  simp only [leave, List.reverse_cons, List.reverse_nil, List.nil_append, List.foldl_cons, List.foldl_nil]

/-- from the context walk to the rule run alone: the rule does not skip at the document node and adds no error
    there (entering or leaving) -/
theorem silent_iff_ctx {X : Type} (s : SchemaD) (fx : Fixes) (r : Rule) (K : CTX ⟨s, fx, [r]⟩ X) (d : Doc) (st1 : St)
    (he : enter ⟨s, fx, [r]⟩ (.document d) {} = (st1, false)) (h0 : E st1 = 0)
    (hi : K.Inv st1) (hj : K.J (K.ctx st1))
    (hl : ∀ st, E (leave ⟨s, fx, [r]⟩ (.document d) st) = E st) :
    Silent s fx r d ↔ ∀ p ∈ gnDoc K.down (K.ctx st1) d, okP K p := by
  unfold Silent alone
  rw [visitDocument, visitNode_noskip _ _ _ _ _ he, hl]
  have hw := (defsC K d.defs st1 hi hj).1
  rw [h0] at hw
  exact hw

/-! ### KnownDirectivesChecker -/

def ancUp : Node → List Anc → List Anc
  | .operation .., x => x.drop 1
  | .field .., x => x.drop 1
  | .spread .., x => x.drop 1
  | .inline .., x => x.drop 1
  | .fragmentDef .., x => x.drop 1
  | .varDef _, x => x.drop 1
  | _, x => x

def fKnownDir (s : SchemaD) : Node → List Anc → Nat
  | .directive d, x =>
    match findDirective s d.name with
    | none => 1
    | some sd =>
      match x with
      | [] => 0
      | a :: _ => if sd.locations.contains a.location then 0 else 1
  | _, _ => 0

def ctxKnownDirectives (s : SchemaD) (fx : Fixes) : CTX ⟨s, fx, [.knownDirectives]⟩ (List Anc) where
  ctx st := st.rs.ancestors
  down := ancDown
  up := ancUp
  J _ := True
  Inv _ := True
  bad _ _ := false
  qskip _ _ := false
  qskipE _ _ _ _ h := by cases h
  qskip_fine _ _ h := by cases h
  qskip_ctx _ _ h := by cases h
  qskip_only _ _ h := by cases h
  qskip_sub _ _ h := by cases h
  F := fKnownDir s
  G _ _ := 0
  restore n x _ := by cases n <;> simp [ancUp, ancDown]
  keepJ _ _ _ _ := trivial
  enter_ctx n st := by
    rw [enter_single]
    cases n <;> simp [enterRule, ancDown]
    rename_i dr
    split
    · rfl
    · split <;> simp
      split <;> rfl
  leave_ctx n st := by
    rw [leave_single]
    cases n <;> simp [leaveRule, ancUp]
  enterI _ _ _ _ := trivial
  leaveI _ _ _ _ := trivial
  skipE _ _ _ _ h := by cases h
  skipI _ _ _ _ _ := trivial
  skip_ctx _ _ _ _ h := by rcases h with h | h <;> cases h
  noskip n st _ _ _ _ := by
    rw [enter_single]
    cases n <;> simp [enterRule]
    rename_i dr
    split
    · rfl
    · split <;> rfl
  enterE n st _ _ _ _ := by
    rw [enter_single]
    cases n with
    | directive dd =>
      simp only [enterRule, fKnownDir, ancDown, E]
      cases hf : findDirective s dd.name with
      | none => simp [RS.err]
      | some sd =>
        cases ha : st.rs.ancestors with
        | nil => simp
        | cons a t =>
          simp only
          split <;> simp_all [RS.err]
    | _ => simp [enterRule, fKnownDir, ancDown, E]
  leaveE n st _ _ := by
    rw [leave_single]
    cases n <;> simp [leaveRule, E]

/-- **5.7.1 Directives are defined / 5.7.2 Directives are in valid locations** -/
theorem rule_known_directives_iff (s : SchemaD) (fx : Fixes) (d : Doc) :
    Silent s fx .knownDirectives d ↔ Spec.knownDirectives s d := by
  rw [silent_iff_ctx s fx .knownDirectives (ctxKnownDirectives s fx) d ({} : St)
    (by rw [enter_single]; simp [enterRule, tiEnter]) rfl trivial trivial
    (by intro st; rw [leave_single]; simp [leaveRule, E])]
  show (∀ p ∈ gnDoc ancDown [] d, okP (ctxKnownDirectives s fx) p) ↔ _
  unfold Spec.knownDirectives
  refine forall_congr' fun p => forall_congr' fun _ => ?_
  obtain ⟨n, x⟩ := p
  simp only [okP, ctxKnownDirectives, and_true, true_and]
  cases n with
  | directive dd =>
    simp only [fKnownDir, Node.directive.injEq, forall_eq']
    cases hf : findDirective s dd.name with
    | none => simp
    | some sd =>
      simp only [Option.some.injEq, exists_eq_left']
      cases x with
      | nil => simp
      | cons a rest => simp
  | _ => simp [fKnownDir]

end PyGql.Props.C06

/-
  C13 — what fix C13-S12 (proposed_fixes/C13-S12.patch: the comparison `Schema.validate()` makes covers everything the
  validator reads) adds: cache soundness over EVERY public mutator. Kept apart from Props/C13.lean because the
  theorems below hold exactly when the flag `cfgCacheTracksStructure`, re-extracted from `_current_resolvers` on every
  run, is `true`: on a tree without the fix this file (and only this file) stops compiling.
-/
import PyGqlModel.Props.C13

set_option linter.unusedSimpArgs false
set_option linter.unusedVariables false

namespace PyGql.Props.C13
open PyGql PyGql.SchemaValid PyGql.SchemaValidSpec PyGql.Generated.SchemaValidTables

/-- fix C13-S12 is in the tree: the comparison `validate()` makes covers everything the validator reads (root types,
    names, fields and their types, interfaces, union members, enum values, input fields, directives) -/
private theorem cache_tracks_structure : cfgCacheTracksStructure = true := by decide

/-- **FULL since fix C13-S12** (was refuted: `cache_sound_all_mutators_fails_today`): every operation of the machine,
    with NO side condition on structural plain assignments, keeps "cached-valid ⇒ the current schema is valid". -/
theorem cache_sound_all_mutators : CacheSoundAllMutators := by
  intro st h op hrep
  apply step_inv st op _ h
  cases op with
  | replaceTypes es ds hl => exact hrep es ds hl rfl
  | assignStructure s' seen => exact Or.inl cache_tracks_structure
  | validate => trivial
  | registerDefaultResolver tn r a => trivial
  | registerResolver tn fn r a sm => trivial
  | registerSubscription tn fn r a sm => trivial
  | assignResolver lvl tn fn r sm => trivial
  | assignArguments tn fn args => trivial

/-- every history over ALL mutators, honest replace requests being the only condition -/
theorem cache_sound_every_history (st : CacheState) (h : CacheInv st) (ops : List Op)
    (hh : ∀ pre op, (∃ post, ops = pre ++ op :: post) →
      ∀ es ds hl, op = .replaceTypes es ds hl → HonestOp (run st pre) op) :
    CacheInv (run st ops) := by
  induction ops generalizing st with
  | nil => exact h
  | cons op ops ih =>
    have h1 := cache_sound_all_mutators st h op (hh [] op ⟨ops, rfl⟩)
    apply ih _ h1
    intro pre op' ⟨post, e⟩
    exact hh (op :: pre) op' ⟨post, by rw [e]; rfl⟩

private def sInt : TypeD := { kind := .scalar, name := "Int", builtin := true }
private def sQuery : TypeD := { kind := .object, name := "Query", fields := [{ name := "a", type := .named "Int" }] }
private def sA : TypeD := { kind := .object, name := "A", fields := [{ name := "a", type := .named "Int" }] }
private def sState : CacheState := { schema := { types := [sInt, sQuery, sA] }, isValid := true }
private def sBad : SchemaD := { types := [sInt, sQuery, { sA with interfaces := ["Query"] }] }

/-- non-vacuity on today's tree: `A.interfaces = [Query]` after a cached verdict, NOT seen by the probe of the old
    comparison, followed by `validate()`: recomputed and rejected -/
example : CacheInv sState ∧ runTrace sState [.assignStructure sBad false, .validate] = [.ok, .validationError] :=
  ⟨fun _ => (validate_iff _ _).1 (by decide), by decide⟩

end PyGql.Props.C13

/-
  C07 — property theorems, part 10: coercion of ANY JSON value never raises anything but a coercion error.
  `.error .internal` is the model's "an exception other than CoercionError / InvalidValue escapes"; `.error .fuel` is
  RecursionError. For every JSON value whatsoever (±inf, NaN, integers of any size, arbitrary strings, arrays and objects of
  any shape and depth): `coerce_value` yields a value, a rejection, or — only when the recursion budget is exceeded — a
  RecursionError, which `coerce_variable_values` reports as an invalid variable (fix A7). So the variable stage of a request
  ends in coerced variables or a `VariablesCoercionError`, never in a crash.
  Hypotheses: the registry declares the types it mentions (`RegClosed`, what `Schema.validate` guarantees) and the custom
  scalars' own parsers raise nothing but ValueError / TypeError (`CustomNeverRaises`: user code, recorded in TRUSTED).
-/
import PyGqlModel.Props.C07_numbers
import PyGqlModel.Props.C07_fuel

set_option linter.unusedSimpArgs false
set_option linter.unusedVariables false

namespace PyGql.Props.C07
open PyGql PyGql.Coerce

/-- every input field's named type is declared -/
def RegClosed (reg : Reg) : Prop :=
  ∀ n fs, reg.get? n = some (.input fs) → ∀ f, f ∈ fs → (reg.get? f.type.base).isSome = true

/-- the custom scalars' own `parse` functions raise only ValueError / TypeError -/
def CustomNeverRaises (reg : Reg) : Prop := ∀ n v, reg.customParse n v ≠ .raised

def NoInternal {α : Type} (r : Except Err α) : Prop := r ≠ .error .internal

private theorem mapEC_noInternal {α β : Type} {f : α → Except Err β} : ∀ (l : List α), (∀ x, x ∈ l → NoInternal (f x)) → NoInternal (mapEC f l) := by
  intro l
  induction l with
  | nil => intro _; simp [mapEC, NoInternal]
  | cons x xs ih =>
    intro h
    have hx := h x List.mem_cons_self
    have ih' := ih (fun y hy => h y (List.mem_cons_of_mem _ hy))
    unfold NoInternal at *
    simp only [mapEC]
    cases hfx : f x with
    | error e => cases e <;> simp_all <;> (cases hr : mapEC f xs <;> simp_all)
    | ok y => cases hr : mapEC f xs <;> simp_all

private theorem fieldLoopC_noInternal {α : Type} {get : String → Option α} {rec : Ty → α → R} :
    ∀ (fs : List InField), (∀ f, f ∈ fs → ∀ v, get f.name = some v → NoInternal (rec f.type v)) → NoInternal (fieldLoopC get rec fs) := by
  intro fs
  induction fs with
  | nil => intro _; simp [fieldLoopC, NoInternal]
  | cons f fs ih =>
    intro h
    have hf := h f List.mem_cons_self
    have ih' := ih (fun g hg => h g (List.mem_cons_of_mem _ hg))
    unfold NoInternal at *
    simp only [fieldLoopC]
    cases hg : get f.name with
    | none =>
      cases hd : f.default with
      | some d => cases hr : fieldLoopC get rec fs <;> simp_all
      | none => cases hn : f.type.isNonNull <;> simp_all <;> (cases hr : fieldLoopC get rec fs <;> simp_all)
    | some v =>
      have hv := hf v hg
      cases hrv : rec f.type v with
      | error e => cases e <;> simp_all <;> (cases hr : fieldLoopC get rec fs <;> simp_all)
      | ok pv => cases hr : fieldLoopC get rec fs <;> simp_all

private theorem base_strip (ty : Ty) : (stripNN ty).base = ty.base := by
  cases ty <;> simp [stripNN, Ty.base]

private theorem coerceCore_noInternal {reg : Reg} (hc : RegClosed reg) (hn : CustomNeverRaises reg) {rec : Ty → JV → R}
    (hrec : ∀ t' x, (reg.get? t'.base).isSome = true → NoInternal (rec t' x))
    (t : Ty) (v : JV) (ht : (reg.get? t.base).isSome = true) : NoInternal (coerceCore reg rec t v) := by
  unfold coerceCore
  split
  · simp [NoInternal]
  · cases t with
    | nonNull t' => simp [NoInternal]
    | list t' =>
      simp only [coerceListValue]
      have hsingle := hrec t' v (by simpa [Ty.base] using ht)
      cases v with
      | list l =>
        simp only
        have := mapEC_noInternal (f := rec t') l (fun x _ => hrec t' x (by simpa [Ty.base] using ht))
        revert this; unfold NoInternal
        cases mapEC (rec t') l <;> simp
      | _ => simp only; unfold NoInternal at hsingle ⊢; split <;> simp_all
    | named n =>
      simp only
      cases hk : reg.get? n with
      | none => simp [Ty.base, hk] at ht
      | some k =>
        have hb := builtin_scalars_never_raise v
        cases k with
        | int => exact hb.1
        | float => exact hb.2.1
        | string => exact hb.2.2.1
        | boolean => exact hb.2.2.2.1
        | id => exact hb.2.2.2.2
        | custom =>
          simp only [NoInternal]
          have := hn n v
          cases hp : reg.customParse n v <;> simp_all [ParseOut.toR]
        | enum vs =>
          cases v <;> simp [NoInternal]
          unfold getValue; split <;> simp
        | input fs =>
          simp only [coerceInputObject]
          cases v with
          | obj kvs =>
            simp only
            have := fieldLoopC_noInternal (get := fun k => lookupLast k kvs) (rec := rec) fs
              (fun f hf x _ => hrec f.type x (hc n fs hk f hf))
            revert this; unfold NoInternal
            cases fieldLoopC (fun k => lookupLast k kvs) rec fs <;> simp
            split <;> simp
          | _ => simp [NoInternal]

/-- **coerce_value_never_raises.** For every fuel, type expression over declared types and JSON value: `coerce_value` does
    not let an exception other than `CoercionError` escape (it may only run out of recursion budget). -/
theorem coerce_value_never_raises {reg : Reg} (hc : RegClosed reg) (hn : CustomNeverRaises reg) :
    ∀ (fuel : Nat) (ty : Ty) (v : JV), (reg.get? ty.base).isSome = true → coerceValue reg fuel ty v ≠ .error .internal := by
  intro fuel
  induction fuel with
  | zero => intro ty v _; simp [coerceValue]
  | succ fuel ih =>
    intro ty v ht
    simp only [coerceValue]
    split
    · simp
    · exact coerceCore_noInternal hc hn (fun t' x h => ih t' x h) _ v (by rw [base_strip]; exact ht)

/-- with enough fuel (always available: `coerceValueT`) the outcome is a value or a rejection — nothing else -/
theorem coerce_value_value_or_rejection {reg : Reg} (hc : RegClosed reg) (hn : CustomNeverRaises reg) (ty : Ty) (v : JV)
    (ht : (reg.get? ty.base).isSome = true) : (∃ pv, coerceValueT reg ty v = .ok pv) ∨ coerceValueT reg ty v = .error .coercion := by
  have h1 := coerce_value_never_raises hc hn (fuelFor reg ty (sizeOf v)) ty v ht
  have h2 := (total_noFuel reg none ty).1 v
  unfold coerceValueT at *
  cases h : coerceValue reg (fuelFor reg ty (sizeOf v)) ty v with
  | ok pv => exact .inl ⟨pv, rfl⟩
  | error e => cases e <;> simp_all

private theorem coerceVariable_outcome {reg : Reg} (hc : RegClosed reg) (hn : CustomNeverRaises reg) (fuel : Nat)
    (variables : List (String × JV)) (d : VarDef) (hd : d.default = none) :
    (∃ o, coerceVariable reg fuel variables d = .ok o) ∨ coerceVariable reg fuel variables d = .error .coercion := by
  unfold coerceVariable
  split
  · exact .inr rfl
  · rename_i hknown
    split
    · simp only [hd]
      split
      · exact .inr rfl
      · exact .inl ⟨none, rfl⟩
    · rename_i v _
      split
      · exact .inr rfl
      · have := coerce_value_never_raises hc hn fuel d.type v (by cases hg : reg.get? d.type.base <;> simp_all)
        cases hcv : coerceValue reg fuel d.type v with
        | ok pv => exact .inl ⟨some pv, by simp⟩
        | error e => cases e <;> simp_all

/-- **variables_never_raise** (fixes A6 + A7). Whatever JSON object is sent as `variables`, the variable stage of a request
    ends with coerced variables or with a rejection (`VariablesCoercionError`): no other exception, for any recursion budget
    (definitions without default literal; a default is a literal and goes through `value_from_ast`). -/
theorem variables_never_raise {reg : Reg} (hc : RegClosed reg) (hn : CustomNeverRaises reg) (fuel : Nat) (variables : List (String × JV)) :
    ∀ (defs : List VarDef), (∀ d, d ∈ defs → d.default = none) →
      (∃ env, coerceVariableValues reg fuel variables defs = .ok env) ∨ coerceVariableValues reg fuel variables defs = .error .coercion := by
  intro defs
  induction defs with
  | nil => intro _; exact .inl ⟨[], rfl⟩
  | cons d ds ih =>
    intro hd
    have ih' := ih (fun d' h' => hd d' (List.mem_cons_of_mem _ h'))
    simp only [coerceVariableValues]
    rcases coerceVariable_outcome hc hn fuel variables d (hd d List.mem_cons_self) with ⟨o, ho⟩ | he
    · rw [ho]
      rcases ih' with ⟨env, henv⟩ | herr
      · rw [henv]; cases o <;> simp
      · rw [herr]; simp
    · rw [he]
      rcases ih' with ⟨env, henv⟩ | herr
      · rw [henv]; simp
      · rw [herr]; simp

end PyGql.Props.C07

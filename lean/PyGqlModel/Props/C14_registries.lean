/-
  C14 — the resolver / subscription / default-resolver REGISTRIES (`PyGqlModel/Registry.lean`).

  `clone_frames_source_registries` (FULL): with `merge_resolvers` (the code of /repo; `Cfg.cloneRegsDeep`, re-extracted
  from schema.py on every run) no sequence of `register_resolver` / `register_subscription` / `register_default_resolver` on a
  clone — hence on any schema derived through `transform_schema` — changes the registries of the source: not its outer
  maps (they are values of the source), not one inner per-type dict, not the digest the public API shows.
  `clone_registries_shared_refuted`: with `dict.update` of the outer maps (the seeded change) one registration on the clone
  rewrites an inner dict of the source (machine-checked witness).
-/
import PyGqlModel.Lemmas.RegistryFrame
import PyGqlModel.Generated.HeapCfg

set_option linter.unusedSimpArgs false
set_option linter.unusedVariables false

namespace PyGql.Props.C14
open PyGql.Heap PyGql.Heap.Reg

/-- FULL statement: registering on the clone never changes an inner dict that existed before the clone was made -/
def CloneFramesSourceRegistries (deep : Bool) : Prop :=
  ∀ (h : RHeap) (src : Registries) (ops : List RegOp), RFrame h.size h (applyOps ops (cloneRegs deep h src)).1

theorem clone_frames_source_registries : CloneFramesSourceRegistries true := by
  intro h src ops
  obtain ⟨a, b⟩ := cloneRegs_deep_ok h src
  obtain ⟨c, _⟩ := applyOps_ok h.size ops (cloneRegs true h src) a.1 b
  exact a.trans c

/-- the registries of the source are well-formed in `h`: every inner dict exists -/
def RegsIn (h : RHeap) (r : Registries) : Prop := (∀ e, e ∈ r.resolvers → e.2 < h.size) ∧ (∀ e, e ∈ r.subscriptions → e.2 < h.size)

/-- … so what the public API shows of the source (`source.resolvers`, `source.subscriptions`, `default_resolvers`,
    `default_resolver`, hence `get_resolver` / `get_subscription`) is the same before and after -/
theorem clone_keeps_source_digest (h : RHeap) (src : Registries) (hw : RegsIn h src) (ops : List RegOp) :
    digest (applyOps ops (cloneRegs true h src)).1 src = digest h src := by
  have f := clone_frames_source_registries h src ops
  simp only [digest, digestOuter, Prod.mk.injEq, and_true]
  refine ⟨List.map_congr_left fun e he => ?_, List.map_congr_left fun e he => ?_⟩
  · simp only [Prod.mk.injEq, true_and]; exact f.2 e.2 (hw.1 e he)
  · simp only [Prod.mk.injEq, true_and]; exact f.2 e.2 (hw.2 e he)

/-- the clone itself shows the same registries as its source right after cloning, for the entries that have fields
    (an inner dict without fields is not carried over by `merge_resolvers`) -/
theorem clone_digest_witness :
    digest (cloneRegs true ⟨[[("hello", 1), ("bye", 2)], [("ev", 3)]]⟩
        { resolvers := [("Query", 0)], subscriptions := [("Sub", 1)], defaultResolvers := [("Query", 9)], defaultResolver := some 7 }).1
      (cloneRegs true ⟨[[("hello", 1), ("bye", 2)], [("ev", 3)]]⟩
        { resolvers := [("Query", 0)], subscriptions := [("Sub", 1)], defaultResolvers := [("Query", 9)], defaultResolver := some 7 }).2
    = (([("Query", some [("hello", 1), ("bye", 2)])], [("Sub", some [("ev", 3)])], [("Query", 9)], some 7) :
        List (String × Option (List (String × Nat))) × List (String × Option (List (String × Nat))) × List (String × Nat) × Option Nat) := by
  rfl

/-- the witness of the shared-dict variant: `source.resolvers = {"Query": {"hello": 1}}`; `c = source.clone()`;
    `c.register_resolver("Query", "hello", f2)` -/
def hW : RHeap := ⟨[[("hello", 1)]]⟩
def srcW : Registries := { resolvers := [("Query", 0)], subscriptions := [], defaultResolvers := [], defaultResolver := none }

/-- REFUTATION for `dict.update` (inner dicts shared): the registration on the clone rewrites the source's `Query` dict -/
theorem clone_registries_shared_refuted : ¬ CloneFramesSourceRegistries false := by
  intro hf
  have := (hf hW srcW [.resolver "Query" "hello" 2]).2 0 (by decide)
  revert this
  decide

/-- the same history on the code of /repo leaves the source alone, and a type WITHOUT an entry at clone time is safe in both -/
theorem clone_registries_witness_deep :
    (applyOps [.resolver "Query" "hello" 2, .resolver "Other" "x" 3] (cloneRegs true hW srcW)).1.read 0 = hW.read 0 ∧
    (applyOps [.resolver "Other" "x" 3] (cloneRegs false hW srcW)).1.read 0 = hW.read 0 := by decide

example : RegsIn hW srcW := ⟨by decide, by decide⟩

/-- the variant in the working tree (re-extracted on every run) -/
theorem current_clone_frames_source_registries (hd : PyGql.Generated.HeapCfg.currentCfg.cloneRegsDeep = true) :
    CloneFramesSourceRegistries PyGql.Generated.HeapCfg.currentCfg.cloneRegsDeep := by
  rw [hd]; exact clone_frames_source_registries

end PyGql.Props.C14

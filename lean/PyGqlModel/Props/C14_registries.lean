/-
  C14 — the resolver / subscription / default-resolver REGISTRIES (`PyGqlModel/Registry.lean`).

  `clone_frames_source_registries` (FULL): with `merge_resolvers` (the code of /repo; `Cfg.cloneRegsDeep`, re-extracted
  from schema.py on every run) no sequence of `register_resolver` / `register_subscription` / `register_default_resolver` on a
  clone — hence on any schema derived through `transform_schema` — changes the registries of the source: not its outer
  maps (they are values of the source), not one inner per-type dict, not the digest the public API shows.
  `clone_registries_shared_refuted`: with `dict.update` of the outer maps (the seeded change) one registration on the clone
  rewrites an inner dict of the source (machine-checked witness).
-/
import PyGqlModel.Lemmas.RegistryFrame
import PyGqlModel.Generated.HeapCfg
import PyGqlModel.Props.C14_config

set_option linter.unusedSimpArgs false
set_option linter.unusedVariables false

namespace PyGql.Props.C14
open PyGql.Heap PyGql.Heap.Reg

/-- FULL statement: registering on the clone never changes an inner dict that existed before the clone was made.
    `filtered` (re-extracted: `merge_resolvers(self._applicable_resolvers(cloned))`, the repair of T5) and the table `exists_` of
    the `(type, field)` pairs of the clone are arbitrary; the unfiltered variant may reject (`none`: `merge_resolvers(self)`
    raises `SchemaError` on an entry whose field does not exist any more) -/
def CloneFramesSourceRegistries (deep : Bool) : Prop :=
  ∀ (filtered : Bool) (exists_ : String → String → Bool) (h : RHeap) (src : Registries) (r : RHeap × Registries) (ops : List RegOp),
    cloneRegs deep filtered exists_ h src = some r → RFrame h.size h (applyOps ops r).1

theorem clone_frames_source_registries : CloneFramesSourceRegistries true := by
  intro filtered exists_ h src r ops e
  obtain ⟨a, b⟩ := cloneRegs_deep_ok filtered exists_ h src r e
  obtain ⟨c, _⟩ := applyOps_ok h.size ops r a.1 b
  exact a.trans c

/-- the registries of the source are well-formed in `h`: every inner dict exists -/
def RegsIn (h : RHeap) (r : Registries) : Prop := (∀ e, e ∈ r.resolvers → e.2 < h.size) ∧ (∀ e, e ∈ r.subscriptions → e.2 < h.size)

/-- … so what the public API shows of the source (`source.resolvers`, `source.subscriptions`, `default_resolvers`,
    `default_resolver`, hence `get_resolver` / `get_subscription`) is the same before and after -/
theorem clone_keeps_source_digest (filtered : Bool) (exists_ : String → String → Bool) (h : RHeap) (src : Registries) (hw : RegsIn h src)
    (r : RHeap × Registries) (e : cloneRegs true filtered exists_ h src = some r) (ops : List RegOp) :
    digest (applyOps ops r).1 src = digest h src := by
  have f := clone_frames_source_registries filtered exists_ h src r ops e
  simp only [digest, digestOuter, Prod.mk.injEq, and_true]
  refine ⟨List.map_congr_left fun e he => ?_, List.map_congr_left fun e he => ?_⟩
  · simp only [Prod.mk.injEq, true_and]; exact f.2 e.2 (hw.1 e he)
  · simp only [Prod.mk.injEq, true_and]; exact f.2 e.2 (hw.2 e he)

/-- the FILTERING of the repaired `clone()` (T5): every entry `(type, field) ↦ fn` of the clone's `resolvers` and
    `subscriptions` is an entry of the source's registry AND names a field that exists in the clone — a derived schema
    never carries a registration for a field it does not have (which `merge_resolvers` would reject the next time) -/
theorem clone_registries_filtered (exists_ : String → String → Bool) (h : RHeap) (src : Registries) (hw : RegsIn h src)
    (r : RHeap × Registries) (e : cloneRegs true true exists_ h src = some r) :
    (∀ t f fn, Entry r.1 r.2.resolvers t f fn → Entry h src.resolvers t f fn ∧ exists_ t f = true) ∧
    (∀ t f fn, Entry r.1 r.2.subscriptions t f fn → Entry h src.subscriptions t f fn ∧ exists_ t f = true) ∧
    r.2.defaultResolvers = src.defaultResolvers ∧ r.2.defaultResolver = src.defaultResolver := by
  simp only [cloneRegs, if_true, Bool.not_true, Bool.false_and, Bool.false_eq_true, if_false, Option.some.injEq] at e
  subst e
  obtain ⟨a, b⟩ := mergeOuter_ok h.size exists_ src.resolvers h [] (Nat.le_refl _) (by intro e he; simp at he)
  have b1 := mergeOuter_built (fun t f fn => Entry h src.resolvers t f fn ∧ exists_ t f = true) exists_ h.size src.resolvers h []
    (Nat.le_refl _) (by intro e he; simp at he) (Built.empty _ _) hw.1
    (fun e d x he hr hx hk => ⟨⟨e.2, d, he, hr, hx⟩, hk⟩)
  obtain ⟨c, d⟩ := mergeOuter_ok h.size exists_ src.subscriptions (mergeOuter exists_ src.resolvers h []).1 [] a.1 (by intro e he; simp at he)
  have b2 := mergeOuter_built (fun t f fn => Entry h src.subscriptions t f fn ∧ exists_ t f = true) exists_ h.size src.subscriptions
    (mergeOuter exists_ src.resolvers h []).1 [] a.1 (by intro e he; simp at he) (Built.empty _ _) hw.2
    (fun e d x he hr hx hk => ⟨⟨e.2, d, he, by rw [← a.2 e.2 (hw.2 e he)]; exact hr, hx⟩, hk⟩)
  refine ⟨?_, b2.2.2, rfl, rfl⟩
  rintro t f fn ⟨a', d', hm, hr, hx⟩
  -- the resolvers' inner dicts (allocated by the first merge) are not written by the second one
  obtain ⟨c', _⟩ := mergeOuter_ok (mergeOuter exists_ src.resolvers h []).1.size exists_ src.subscriptions
    (mergeOuter exists_ src.resolvers h []).1 [] (Nat.le_refl _) (by intro e he; simp at he)
  have hlt := b1.1 _ hm
  rw [c'.2 a' hlt] at hr
  exact b1.2.2 t f fn ⟨a', d', hm, hr, hx⟩

def hW2 : RHeap := ⟨[[("hello", 1), ("bye", 2)], [("ev", 3)]]⟩
def srcW2 : Registries := { resolvers := [("Query", 0)], subscriptions := [("Sub", 1)], defaultResolvers := [("Query", 9)], defaultResolver := some 7 }

/-- the clone itself shows the same registries as its source right after cloning, for the entries that have fields
    (an inner dict without fields is not carried over by `merge_resolvers`) -/
theorem clone_digest_witness :
    (cloneRegs true true (fun _ _ => true) hW2 srcW2).map (fun r => digest r.1 r.2)
    = some (([("Query", some [("hello", 1), ("bye", 2)])], [("Sub", some [("ev", 3)])], [("Query", 9)], some 7) :
        List (String × Option (List (String × Nat))) × List (String × Option (List (String × Nat))) × List (String × Nat) × Option Nat) := by
  rfl

/-- T5, the history of the defect: the source was derived by a visibility transform that hid `Query.bye`; its registry
    still names the field.  The repaired `clone()` drops the stale entry; `merge_resolvers(self)` (the code before d328eb2)
    rejects — `SchemaError: Cannot set resolver for unknown field "Query.bye"` — so NO further derivation was possible -/
theorem clone_registries_stale_entry :
    (cloneRegs true true (fun t f => !(t == "Query" && f == "bye")) hW2 srcW2).map (fun r => digest r.1 r.2)
      = some (([("Query", some [("hello", 1)])], [("Sub", some [("ev", 3)])], [("Query", 9)], some 7) :
        List (String × Option (List (String × Nat))) × List (String × Option (List (String × Nat))) × List (String × Nat) × Option Nat) ∧
    (cloneRegs true false (fun t f => !(t == "Query" && f == "bye")) hW2 srcW2).isNone = true := by
  exact ⟨rfl, rfl⟩

/-- the witness of the shared-dict variant: `source.resolvers = {"Query": {"hello": 1}}`; `c = source.clone()`;
    `c.register_resolver("Query", "hello", f2)` -/
def hW : RHeap := ⟨[[("hello", 1)]]⟩
def srcW : Registries := { resolvers := [("Query", 0)], subscriptions := [], defaultResolvers := [], defaultResolver := none }

/-- REFUTATION for `dict.update` (inner dicts shared): the registration on the clone rewrites the source's `Query` dict -/
theorem clone_registries_shared_refuted : ¬ CloneFramesSourceRegistries false := by
  intro hf
  have := (hf true (fun _ _ => true) hW srcW (hW, srcW) [.resolver "Query" "hello" 2] rfl).2 0 (by decide)
  revert this
  decide

/-- the same history on the code of /repo leaves the source alone, and a type WITHOUT an entry at clone time is safe in both -/
theorem clone_registries_witness_deep :
    ((cloneRegs true true (fun _ _ => true) hW srcW).map fun r =>
      (applyOps [.resolver "Query" "hello" 2, .resolver "Other" "x" 3] r).1.read 0) = some (hW.read 0) ∧
    ((cloneRegs false true (fun _ _ => true) hW srcW).map fun r =>
      (applyOps [.resolver "Other" "x" 3] r).1.read 0) = some (hW.read 0) := by decide

example : RegsIn hW srcW := ⟨by decide, by decide⟩

/-- the variant in the working tree (re-extracted on every run) -/
theorem current_clone_frames_source_registries :
    CloneFramesSourceRegistries PyGql.Generated.HeapCfg.currentCfg.cloneRegsDeep := by
  rw [cur_cloneRegsDeep]; exact clone_frames_source_registries

/-! ### every derivation succeeds (T5, T6) and `extend_schema` keeps the registries (T8) -/

/-- FULL statement: `clone()` — hence `transform_schema`, which starts with one — never raises because of the registries,
    whatever was registered on the source, whatever earlier transforms renamed / removed / wrapped -/
def CloneRegistriesTotal (c : Cfg) : Prop :=
  ∀ (exists_ : String → String → Bool) (ff : FieldFns) (h : RHeap) (src : Registries), (cloneRegsOn c exists_ ff h src).isSome = true

theorem cloneRegs_filtered_isSome (deep : Bool) (exists_ : String → String → Bool) (h : RHeap) (src : Registries) :
    (cloneRegs deep true exists_ h src).isSome = true := by
  cases deep <;> simp [cloneRegs]

/-- filtered entries copied by value: total -/
theorem clone_registries_total (c : Cfg) (hf : c.cloneRegsFiltered = true) (hv : c.cloneRegsByValue = true) : CloneRegistriesTotal c := by
  intro exists_ ff h src
  simp only [cloneRegsOn, hf, hv, Bool.not_true, Bool.and_false, Bool.false_and, Bool.false_eq_true, if_false]
  exact cloneRegs_filtered_isSome _ _ _ _

/-- SUBSUMED for the working tree by the full `clone_registries_total` / `current_clone_registries_total` (entries copied by value: no
    premise); kept because it is the exact statement for the intermediate variant.
    PARTIAL (the code of /repo after d328eb2: filtered, but replayed through `register_resolver`): total as long as no
    field carries a resolver different from the one registered for it -/
theorem clone_registries_total_partial (c : Cfg) (hf : c.cloneRegsFiltered = true) (exists_ : String → String → Bool) (ff : FieldFns)
    (h : RHeap) (src : Registries) (h1 : replayConflicts exists_ ff.resolver h src.resolvers = false)
    (h2 : replayConflicts exists_ ff.subscription h src.subscriptions = false) : (cloneRegsOn c exists_ ff h src).isSome = true := by
  simp only [cloneRegsOn, hf, if_true, h1, h2, Bool.or_self, Bool.and_false, Bool.false_eq_true, if_false]
  exact cloneRegs_filtered_isSome _ _ _ _

/-- T6, REFUTATION for the replaying variant: `register_resolver("Query", "hello", r1)`; a schema directive wraps the field's
    resolver (the field now carries 5); the next `clone()` raises `ValueError: Field "hello" … already has a resolver` -/
theorem clone_registries_total_refuted_replay : ¬ CloneRegistriesTotal { Cfg.fixed with cloneRegsByValue := false } := by
  intro hf
  have := hf (fun _ _ => true) ⟨fun _ _ => some 5, fun _ _ => none⟩ hW srcW
  revert this
  decide

/-- T5, REFUTATION for the unfiltered variant (before d328eb2): a stale entry makes the next `clone()` raise `SchemaError` -/
theorem clone_registries_total_refuted_unfiltered : ¬ CloneRegistriesTotal { Cfg.fixed with cloneRegsFiltered := false } := by
  intro hf
  have := hf (fun _ _ => false) ⟨fun _ _ => none, fun _ _ => none⟩ hW srcW
  revert this
  decide

/-- the variant in the working tree -/
theorem current_clone_registries_total : CloneRegistriesTotal PyGql.Generated.HeapCfg.currentCfg :=
  clone_registries_total _ cur_cloneRegsFiltered cur_cloneRegsByValue

/-- FULL statement: the schema `extend_schema` returns shows the registry entries of its source (an extension adds fields and
    never removes one: every entry still names a field) -/
def ExtendKeepsRegistries (c : Cfg) : Prop :=
  ∀ (h : RHeap) (src : Registries) (r : RHeap × Registries), RegsIn h src → extendRegs c (fun _ _ => true) h src = some r →
    ∀ t f fn, Entry h src.resolvers t f fn → ∃ fn', Entry r.1 r.2.resolvers t f fn'

/-- T8, REFUTATION for the code of /repo: `extend_schema(s, …).resolvers == {}` -/
theorem extend_keeps_registries_refuted : ¬ ExtendKeepsRegistries { Cfg.fixed with extKeepRegs := false } := by
  intro hf
  obtain ⟨fn', a, d, hm, _⟩ := hf hW srcW (hW, { resolvers := [], subscriptions := [], defaultResolvers := [], defaultResolver := none })
    ⟨by decide, by decide⟩ rfl "Query" "hello" 1 ⟨0, [("hello", 1)], by decide, rfl, by decide⟩
  simp at hm

/-- … and with the registries carried over (by value, fresh inner dicts) the same history shows the entry; whatever the
    variant, `extend_schema` writes no inner dict of the source (`clone_frames_source_registries` applies: it is `cloneRegs`) -/
theorem extend_registries_witness_fixed :
    (extendRegs Cfg.fixed (fun _ _ => true) hW srcW).map (fun r => digest r.1 r.2)
      = some (([("Query", some [("hello", 1)])], [], [], none) :
        List (String × Option (List (String × Nat))) × List (String × Option (List (String × Nat))) × List (String × Nat) × Option Nat) := by
  rfl

theorem extend_frames_source_registries (c : Cfg) (exists_ : String → String → Bool) (h : RHeap) (src : Registries) (r : RHeap × Registries)
    (ops : List RegOp) (e : extendRegs c exists_ h src = some r) : RFrame h.size h (applyOps ops r).1 := by
  simp only [extendRegs] at e
  split at e
  · exact clone_frames_source_registries true exists_ h src r ops e
  · simp only [Option.some.injEq] at e
    have hfr : RegsFresh h.size r.2 := by rw [← e]; exact ⟨fun e he => (nomatch he), fun e he => (nomatch he)⟩
    have hsz : h.size ≤ r.1.size := by rw [← e]; exact Nat.le_refl _
    obtain ⟨c', _⟩ := applyOps_ok h.size ops r hsz hfr
    have h0 : RFrame h.size h r.1 := by rw [← e]; exact RFrame.refl _ _
    exact h0.trans c'

end PyGql.Props.C14

/-
  C12 — property theorems about the printer model `PyGqlModel/SdlPrint.lean`.
  Headline: `print_pure` (history independence) — FALSE for today's generator-valued state (2-call
  witness below, finding H1), TRUE for the fixed code (state = frozenset).
-/
import PyGqlModel.SdlPrint

set_option linter.unusedVariables false
set_option linter.unusedSimpArgs false

namespace PyGql.Props.C12
open PyGql PyGql.Sdl PyGql.SdlPrint

/-! ### full statements -/

/-- serialising is a pure function of schema and options: the i-th call of ANY history returns what the
    same call returns in a fresh process -/
def PrintPureStatement (init : PrinterState) : Prop :=
  ∀ calls : List (Opts × SchemaD × Apps),
    runHistory init calls = calls.map fun c => (printSchema c.1 c.2.1 c.2.2 init).1

/-! ### the fixed code: the state is a collection and never changes

`print_pure` is proved IN FULL for the fixed code (collection-valued state): every access to the state goes through
`printDirectives` → `keepCustom` → `PrinterState.member`; these are state-preserving for a collection
(`printDirectives_state_fixed`), the lift through the state-passing layout functions is `printSchema_state_fixed`, and the
induction over the history is `print_pure` (any collection: `print_pure_any_collection`; with `include_introspection`:
`print_pure_all_options`).  `print_pure_partial` (registered name) is the lemma that the directive filter is the pure
`filter keepPred`.  What is NOT in the model: nothing of the printer's option space; the model is tied to the code by
the history correspondence (every call of every history, all four options, compared with the real text). -/

private theorem pair_of_snd {α β} (x : α × β) (b : β) (h : x.2 = b) : x = (x.1, b) := by
  cases x; simp_all

private theorem keepCustom_coll (wl : Option (List String)) (ns : List String) :
    ∀ nodes, (keepCustom wl nodes (.collection ns)).2 = .collection ns := by
  intro nodes
  induction nodes with
  | nil => rfl
  | cons d ds ih => simp only [keepCustom, PrinterState.member]; exact ih

/-- `print_directives` — the ONLY function of the printer that reads the module-level state — leaves a
    collection-valued state unchanged. -/
theorem printDirectives_state_fixed (o : Opts) (apps : Apps) (p : String) (ns : List String) :
    (printDirectives o apps p (.collection ns)).2 = .collection ns := by
  unfold printDirectives
  by_cases h1 : (!o.custom) = true
  · simp [h1]
  · by_cases h2 : (apps.get p).isEmpty = true
    · simp [h1, h2]
    · simp only [h1, h2, if_false, Bool.false_eq_true]
      rw [pair_of_snd _ _ (keepCustom_coll o.whitelist ns (apps.get p))]

/-! #### the lift through the state-passing layout functions -/

private theorem mapSt_coll {α} (f : Nat → α → PrinterState → String × PrinterState) (ns : List String)
    (h : ∀ i x, (f i x (.collection ns)).2 = .collection ns) :
    ∀ (xs : List α) (i : Nat), (mapSt f i xs (.collection ns)).2 = .collection ns := by
  intro xs
  induction xs with
  | nil => intro i; rfl
  | cons x xs ih =>
    intro i
    simp only [mapSt]
    rw [h i x]
    exact ih (i+1)

private theorem printInputValue_coll (s : SchemaD) (o : Opts) (apps : Apps) (p : String) (a : ArgD) (ns : List String) :
    (printInputValue s o apps p a (.collection ns)).2 = .collection ns := by
  simp only [printInputValue]
  exact printDirectives_state_fixed o apps _ ns

private theorem printArg_coll (s : SchemaD) (o : Opts) (apps : Apps) (p : String) (depth : Nat) (m : Bool) (i : Nat) (a : ArgD)
    (ns : List String) : (printArg s o apps p depth m i a (.collection ns)).2 = .collection ns := by
  simp only [printArg]
  exact printInputValue_coll s o apps p a ns

private theorem printArguments_coll (s : SchemaD) (o : Opts) (apps : Apps) (p : String) (args : List ArgD) (depth : Nat) (ns : List String) :
    (printArguments s o apps p args depth (.collection ns)).2 = .collection ns := by
  simp only [printArguments]
  exact mapSt_coll _ ns (fun i a => printArg_coll s o apps p depth _ i a ns) args 0

private theorem printField_coll (s : SchemaD) (o : Opts) (apps : Apps) (tn : String) (i : Nat) (f : FieldD) (ns : List String) :
    (printField s o apps tn i f (.collection ns)).2 = .collection ns := by
  simp only [printField]
  rw [printArguments_coll]
  exact printDirectives_state_fixed o apps _ ns

private theorem printFields_coll (s : SchemaD) (o : Opts) (apps : Apps) (t : TypeD) (ns : List String) :
    (printFields s o apps t (.collection ns)).2 = .collection ns := by
  simp only [printFields]
  exact mapSt_coll _ ns (fun i f => printField_coll s o apps t.name i f ns) t.fields 0

private theorem printEnumValue_coll (o : Opts) (apps : Apps) (tn : String) (i : Nat) (v : EnumValD) (ns : List String) :
    (printEnumValue o apps tn i v (.collection ns)).2 = .collection ns := by
  simp only [printEnumValue]
  exact printDirectives_state_fixed o apps _ ns

private theorem printInputField_coll (s : SchemaD) (o : Opts) (apps : Apps) (tn : String) (i : Nat) (f : ArgD) (ns : List String) :
    (printInputField s o apps tn i f (.collection ns)).2 = .collection ns := by
  simp only [printInputField]
  exact printInputValue_coll s o apps tn f ns

private theorem printType_coll (s : SchemaD) (o : Opts) (apps : Apps) (t : TypeD) (ns : List String) :
    (printType s o apps t (.collection ns)).2 = .collection ns := by
  unfold printType
  have hd := printDirectives_state_fixed o apps t.name ns
  cases t.kind <;> simp only [hd]
  · exact printFields_coll s o apps t ns
  · exact printFields_coll s o apps t ns
  · exact mapSt_coll _ ns (fun i v => printEnumValue_coll o apps t.name i v ns) t.values 0
  · exact mapSt_coll _ ns (fun i f => printInputField_coll s o apps t.name i f ns) t.inputFields 0

private theorem printDirectiveDefinition_coll (s : SchemaD) (o : Opts) (apps : Apps) (d : DirectiveD) (ns : List String) :
    (printDirectiveDefinition s o apps d (.collection ns)).2 = .collection ns := by
  simp only [printDirectiveDefinition]
  exact printArguments_coll s o apps _ d.args 0 ns

private theorem printSchemaDefinition_coll (s : SchemaD) (o : Opts) (apps : Apps) (ns : List String) :
    (printSchemaDefinition s o apps (.collection ns)).2 = .collection ns := by
  simp only [printSchemaDefinition]
  exact printDirectives_state_fixed o apps "" ns

/-- one `to_string` call leaves a collection-valued state as it found it -/
theorem printSchema_state_fixed (o : Opts) (s : SchemaD) (apps : Apps) (ns : List String) :
    (printSchema o s apps (.collection ns)).2 = .collection ns := by
  simp only [printSchema]
  rw [printSchemaDefinition_coll]
  rw [mapSt_coll _ ns (fun i d => printDirectiveDefinition_coll s o apps d ns)]
  exact mapSt_coll _ ns (fun i t => printType_coll s o apps t ns) _ 0

/-- **print_pure** (fixed code, C12-H1): for EVERY history of `to_string` calls — any schemas, any options, any
    length — the k-th output is the output of that call made first in a fresh process. -/
theorem print_pure : PrintPureStatement initialCollection := by
  intro calls
  induction calls with
  | nil => rfl
  | cons c rest ih =>
    simp only [runHistory, List.map]
    rw [show (printSchema c.1 c.2.1 c.2.2 initialCollection).2 = initialCollection from printSchema_state_fixed _ _ _ _]
    rw [ih]

/-! #### all four options: `include_introspection` too -/

/-- serialising with ALL options (indent, descriptions, custom schema directives, introspection) is a pure function of
    schema, options and the library's constants -/
def PrintPureStatementX (init : PrinterState) : Prop :=
  ∀ calls : List (Opts × Bool × Builtins × SchemaD × Apps),
    runHistoryX init calls = calls.map fun c => (printSchemaX c.1 c.2.1 c.2.2.1 c.2.2.2.1 c.2.2.2.2 init).1

/-- without the option the extended printer is the printer -/
theorem printSchemaX_off (o : Opts) (b : Builtins) (s : SchemaD) (apps : Apps) (st : PrinterState) :
    printSchemaX o false b s apps st = printSchema o s apps st := by
  simp only [printSchemaX, printSchema, mapSt, Bool.false_eq_true, if_false, List.append_nil, List.cons_append, List.nil_append, List.append_assoc]

theorem printSchemaX_state_fixed (o : Opts) (intro : Bool) (b : Builtins) (s : SchemaD) (apps : Apps) (ns : List String) :
    (printSchemaX o intro b s apps (.collection ns)).2 = .collection ns := by
  simp only [printSchemaX]
  rw [printSchemaDefinition_coll]
  rw [mapSt_coll _ ns (fun i d => printDirectiveDefinition_coll s o apps d ns)]
  rw [mapSt_coll _ ns (fun i d => printDirectiveDefinition_coll s o apps d ns)]
  exact mapSt_coll _ ns (fun i t => printType_coll s o apps t ns) _ 0

/-- **print_pure_all_options** — `print_pure` for the whole option space of the property (`include_introspection`
    included), for EVERY collection-valued state: the k-th output of any history is the output of that call alone. -/
theorem print_pure_all_options (ns : List String) : PrintPureStatementX (.collection ns) := by
  intro calls
  induction calls with
  | nil => rfl
  | cons c rest ih =>
    simp only [runHistoryX, List.map]
    rw [printSchemaX_state_fixed]
    rw [ih]

/-- `print_pure` for every collection-valued state (not only the initial one) -/
theorem print_pure_any_collection (ns : List String) : PrintPureStatement (.collection ns) := by
  intro calls
  induction calls with
  | nil => rfl
  | cons c rest ih =>
    simp only [runHistory, List.map]
    rw [printSchema_state_fixed]
    rw [ih]

/- …and it is FALSE for today's generator-valued state: `PrintPureStatement initialGenerator` would make the
    two calls of `print_pure_refuted_today` agree. (State-level witness below; the text-level witness is the
    replay `history-dependent:*` found by the history oracle on the unfixed tree.) -/
/-- membership in a COLLECTION does not change the state -/
theorem member_collection (ns : List String) (n : String) :
    (PrinterState.collection ns).member n = (ns.contains n, .collection ns) := rfl

/-- which directive nodes are printed: not specified, and on the whitelist if one was given -/
def keepPred (wl : Option (List String)) (ns : List String) (d : DirApp) : Bool :=
  !ns.contains d.name && onWhitelist wl d.name

/-- the directive filter is a pure function of the names when the state is a collection, and leaves the state
    as it was: whatever calls came before, the same directives are printed -/
theorem print_pure_partial (wl : Option (List String)) (ns : List String) (nodes : List DirApp) :
    keepCustom wl nodes (.collection ns) = (nodes.filter (keepPred wl ns), .collection ns) := by
  induction nodes with
  | nil => rfl
  | cons d ds ih =>
    simp only [keepCustom, PrinterState.member, ih]
    by_cases h : keepPred wl ns d = true
    · have h' := h
      unfold keepPred at h'
      rw [if_pos h', List.filter_cons, if_pos h]
    · have h' := h
      unfold keepPred at h'
      rw [if_neg h', List.filter_cons, if_neg h]

/-! ### today's code: the state is a generator — 2-call refutation witness (finding H1) -/

def depNode : DirApp := { name := "deprecated" }

/-- FIRST call: `@deprecated` is recognised as specified and filtered out (0 custom directives printed);
    the SAME call again: the exhausted generator no longer contains it and it is printed as a custom
    directive (1 printed) — next to the special-cased ` @deprecated`. -/
theorem print_pure_refuted_today :
    (keepCustom none [depNode] initialGenerator).1.length = 0 ∧
    (keepCustom none [depNode] (keepCustom none [depNode] initialGenerator).2).1.length = 1 := by
  decide

/-- with the fix the same two calls agree -/
theorem print_pure_witness_fixed :
    (keepCustom none [depNode] initialCollection).1.length = 0 ∧
    (keepCustom none [depNode] (keepCustom none [depNode] initialCollection).2).1.length = 0 := by
  decide

/-- a membership test on the generator CONSUMES it -/
theorem generator_consumed : (initialGenerator.member "deprecated").2 = .generator [] ∧
    (initialGenerator.member "foo").2 = .generator [] ∧ ((PrinterState.generator []).member "deprecated").1 = false := by
  decide

/-! #### text-level refutation for today's code (finding H1) -/

/-- `type Query { f: Int @deprecated }`, built from SDL (the field's node carries the `@deprecated` application) -/
def h1Schema : SchemaD :=
  { types := [{ kind := .object, name := "Query", fields := [{ name := "f", type := .named "Int", deprecated := some "No longer supported" }] }] }
def h1Apps : Apps := [("Query.f", [{ name := "deprecated" }])]
def h1Call : Opts × SchemaD × Apps := ({ custom := true }, h1Schema, h1Apps)

set_option maxRecDepth 100000 in
/-- With the generator-valued state the full statement is FALSE: the second of two identical
    `to_string(include_custom_schema_directives=True)` calls returns a different TEXT
    (`f: Int @deprecated @deprecated`). -/
theorem print_pure_refuted_today_full : ¬ PrintPureStatement initialGenerator := by
  intro h
  have := h [h1Call, h1Call]
  revert this
  decide

set_option maxRecDepth 100000 in
/-- non-vacuity of `print_pure`: on the same two calls the fixed code returns the same non-empty text twice -/
example : runHistory initialCollection [h1Call, h1Call] = [(printSchema h1Call.1 h1Call.2.1 h1Call.2.2 initialCollection).1,
    (printSchema h1Call.1 h1Call.2.1 h1Call.2.2 initialCollection).1] ∧ (printSchema h1Call.1 h1Call.2.1 h1Call.2.2 initialCollection).1 ≠ "" := by
  decide

end PyGql.Props.C12

/-
  C12 — property theorems about the printer model `PyGqlModel/SdlPrint.lean`.
  Headline: `print_pure` (history independence) — FALSE for today's generator-valued state (2-call
  witness below, finding H1), TRUE for the fixed code (state = frozenset).
-/
import PyGqlModel.SdlPrint

set_option linter.unusedVariables false
set_option linter.unusedSimpArgs false

namespace PyGql.Props.C12
open PyGql PyGql.Sdl PyGql.SdlPrint

/-! ### full statements -/

/-- serialising is a pure function of schema and options: the i-th call of ANY history returns what the
    same call returns in a fresh process -/
def PrintPureStatement (init : PrinterState) : Prop :=
  ∀ calls : List (Opts × SchemaD × Apps),
    runHistory init calls = calls.map fun c => (printSchema c.1 c.2.1 c.2.2 init).1

/-! ### the fixed code: the state is a collection and never changes

`print_pure` for the fixed code is delivered as `print_pure_partial`: every access to the state goes through
`printDirectives` → `keepCustom` → `PrinterState.member` (by construction of the model, checked against the
real printer by the history correspondence), and these three are proved state-preserving and pure for a
collection-valued state. The lift through the (state-passing) layout functions `printArguments`,
`printFields`, `printType`, `printSchema`, `runHistory` to `PrintPureStatement initialCollection` is not
machine-checked yet (open problem). -/

private theorem pair_of_snd {α β} (x : α × β) (b : β) (h : x.2 = b) : x = (x.1, b) := by
  cases x; simp_all

private theorem keepCustom_coll (ns : List String) : ∀ nodes, (keepCustom nodes (.collection ns)).2 = .collection ns := by
  intro nodes
  induction nodes with
  | nil => rfl
  | cons d ds ih => simp only [keepCustom, PrinterState.member]; exact ih

/-- `print_directives` — the ONLY function of the printer that reads the module-level state — leaves a
    collection-valued state unchanged. -/
theorem printDirectives_state_fixed (o : Opts) (apps : Apps) (p : String) (ns : List String) :
    (printDirectives o apps p (.collection ns)).2 = .collection ns := by
  unfold printDirectives
  by_cases h1 : (!o.custom) = true
  · simp [h1]
  · by_cases h2 : (apps.get p).isEmpty = true
    · simp [h1, h2]
    · simp only [h1, h2, if_false, Bool.false_eq_true]
      rw [pair_of_snd _ _ (keepCustom_coll ns (apps.get p))]

/-- membership in a COLLECTION does not change the state -/
theorem member_collection (ns : List String) (n : String) :
    (PrinterState.collection ns).member n = (ns.contains n, .collection ns) := rfl

/-- the directive filter is a pure function of the names when the state is a collection, and leaves the state
    as it was: whatever calls came before, the same directives are printed -/
theorem print_pure_partial (ns : List String) (nodes : List DirApp) :
    keepCustom nodes (.collection ns) = (nodes.filter (fun d => !ns.contains d.name), .collection ns) := by
  induction nodes with
  | nil => rfl
  | cons d ds ih =>
    simp only [keepCustom, PrinterState.member, ih, List.filter]
    cases ns.contains d.name <;> simp

/-! ### today's code: the state is a generator — 2-call refutation witness (finding H1) -/

def depNode : DirApp := { name := "deprecated" }

/-- FIRST call: `@deprecated` is recognised as specified and filtered out (0 custom directives printed);
    the SAME call again: the exhausted generator no longer contains it and it is printed as a custom
    directive (1 printed) — next to the special-cased ` @deprecated`. -/
theorem print_pure_refuted_today :
    (keepCustom [depNode] initialGenerator).1.length = 0 ∧
    (keepCustom [depNode] (keepCustom [depNode] initialGenerator).2).1.length = 1 := by
  decide

/-- with the fix the same two calls agree -/
theorem print_pure_witness_fixed :
    (keepCustom [depNode] initialCollection).1.length = 0 ∧
    (keepCustom [depNode] (keepCustom [depNode] initialCollection).2).1.length = 0 := by
  decide

/-- a membership test on the generator CONSUMES it -/
theorem generator_consumed : (initialGenerator.member "deprecated").2 = .generator [] ∧
    (initialGenerator.member "foo").2 = .generator [] ∧ ((PrinterState.generator []).member "deprecated").1 = false := by
  decide

end PyGql.Props.C12

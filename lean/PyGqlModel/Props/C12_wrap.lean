/-
  C12 — finding H12 at TEXT level: descriptions with OVER-LONG lines (`wrapped_lines`).

  `print_description` passes the lines of a description through `_string_utils.wrapped_lines(lines, 120 - len(indent))`:
  a line that is too long is split at the word boundaries space / `-` / `_` (`_split_words_with_boundaries`) and
  re-assembled greedily; a space that would start a piece is dropped, the other boundary characters are kept.  Both printer
  models contain it exactly (`SdlPrint.wrappedLines` = `SdlPrintT.wrappedLines`: `SdlModels.wrappedLines_map`; the loop
  was compared with the source line by line — also the corner that an unbreakable word longer than the width yields an
  EMPTY piece before it).  The library's own descriptions (7 introspection types, `@deprecated(reason:)`) have such lines,
  which is why `include_introspection=True` was outside the text-level theorems (`descTextOK` has a width clause).

  PROVED (`wrapped_description_lexes`): for every indentation over {space, tab}, every depth and position, a description
  that satisfies `descWrapOK` — `descTextOK` WITHOUT the width clause, its shape conditions asked of the wrapped lines — is
  printed as text that the lexer model reads as exactly ONE BlockString token, whose value is the wrapped lines joined by
  line feeds (`wrappedOf`).  So the PARSE half of the property holds for re-wrapped descriptions; the VALUE half does not:
  `h12_value_differs` — for a 121-character line with one space the value read back has a line feed (and keeps the space
  before it) where the description had a space: that is finding H12, stated on the model.  `descWrapOK_extends` shows the
  new predicate contains the old one, where the value IS the description (`wrapped_short_value`).
-/
import PyGqlModel.Lemmas.SdlTextWrap
import PyGqlModel.Lemmas.SdlModelsDesc
import PyGqlModel.Props.C12_h5
namespace PyGql.Props.C12
open PyGql PyGql.Sdl PyGql.SdlText PyGql.PrintLex PyGql.Lex PyGql.BlockString PyGql.Spec

/-- THE STATEMENT: a description with over-long lines is still printed as one block string; its value is the re-joined
    wrapped lines -/
def WrappedDescriptionLexesStatement : Prop :=
  ∀ (o : SdlPrintT.OptsT), Blank o.indent → o.descriptions = true → ∀ (x : String) (depth : Nat) (first : Bool),
    descWrapOK (depth * o.indent.length) x = true →
    ∃ toks, lexAll (SdlPrintT.printDescription o (some x) depth first) =
        .ok (sofTok :: toks ++ [eofTok (SdlPrintT.printDescription o (some x) depth first).length]) ∧
      classes toks = [(.blockString, joinLF (wrappedOf (depth * o.indent.length) x))]

/-- **wrapped_description_lexes** — the statement, in full -/
theorem wrapped_description_lexes : WrappedDescriptionLexesStatement :=
  fun o hind hdesc x depth first h => wrapped_lexes o hind hdesc x depth first h

/-- … and about the String-level model (the one with `include_introspection`, `printSchemaX`): same text -/
theorem wrapped_description_lexes_string (o : SdlPrint.Opts) (hind : Blank (SdlPrintT.T o.indent)) (hdesc : o.descriptions = true)
    (x : String) (depth : Nat) (first : Bool) (h : descWrapOK (depth * o.indent.length) x = true) :
    ∃ toks, lexAll (SdlPrintT.T (SdlPrint.printDescription o (some x) depth first)) =
        .ok (sofTok :: toks ++ [eofTok (SdlPrintT.T (SdlPrint.printDescription o (some x) depth first)).length]) ∧
      classes toks = [(.blockString, joinLF (wrappedOf (depth * o.indent.length) x))] := by
  rw [SdlModels.T_printDescription]
  have hl : (SdlModels.optsT o).indent.length = o.indent.length := SdlModels.T_length _
  have := wrapped_lexes (SdlModels.optsT o) hind hdesc x depth first (by rw [hl]; exact h)
  rw [hl] at this
  exact this

/-- **descWrapOK_extends** — the new predicate contains `descTextOK` -/
theorem descWrapOK_extends (w : Nat) (d : String) (h : descTextOK w d = true) : descWrapOK w d = true :=
  descWrapOK_of_descTextOK w d h

/-- **wrapped_short_value** — when no line is over-long the value read back is the description itself -/
theorem wrapped_short_value (w : Nat) (d : String) (h : ∀ l ∈ SdlPrintT.splitLF (T d), l.length ≤ 120 - w) :
    joinLF (wrappedOf w d) = T d := by
  rw [wrappedOf_short w d h, joinLF_splitLF]

/-- the replay of finding H12 in `known_findings.json`: `'short\n' + 'y'*125 + ' z'` -/
def h12Replay : String := "short\n" ++ String.ofList (List.replicate 125 'y') ++ " z"

set_option maxRecDepth 1000000 in
/-- **h12_value_differs** — finding H12 on the model: the 121-character line `w…w v…v` (outside `descTextOK`, inside
    `descWrapOK`) is printed as a block string whose value is NOT the description: the wrapped lines are `w…w␠` and `v…v`.
    The same for the replay of the known finding, whose unbreakable 125-character word also gets an empty line before it. -/
theorem h12_value_differs :
    descTextOK 0 longLine = false ∧ descWrapOK 0 longLine = true ∧
    wrappedOf 0 longLine = [T (String.ofList (List.replicate 60 'w' ++ [' '])), T (String.ofList (List.replicate 60 'v'))] ∧
    joinLF (wrappedOf 0 longLine) ≠ T longLine ∧
    descWrapOK 0 h12Replay = true ∧ (wrappedOf 0 h12Replay).length = 4 ∧ joinLF (wrappedOf 0 h12Replay) ≠ T h12Replay := by
  decide

/-- non-vacuity of `wrapped_description_lexes`: the two H12 descriptions at depth 0 and, with a tab as indentation, at depth 2 -/
example : ∃ toks, lexAll (SdlPrintT.printDescription {} (some longLine) 0 true) =
      .ok (sofTok :: toks ++ [eofTok (SdlPrintT.printDescription {} (some longLine) 0 true).length]) ∧
    classes toks = [(.blockString, joinLF (wrappedOf 0 longLine))] :=
  wrapped_description_lexes {} (by intro c hc; simp at hc; exact Or.inl hc) rfl longLine 0 true h12_value_differs.2.1
set_option maxRecDepth 1000000 in
example : descWrapOK (2 * 1) h12Replay = true := by decide

set_option maxRecDepth 1000000 in
/-- outside the predicate: a single unbreakable word longer than the width is printed after an EMPTY first line (the block
    string drops it again: the value happens to be the description) -/
example : (wrappedOf 0 (String.ofList (List.replicate 125 'y'))).head? = some [] ∧
    descWrapOK 0 (String.ofList (List.replicate 125 'y')) = false := by decide

end PyGql.Props.C12

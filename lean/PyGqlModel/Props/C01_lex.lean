/-
  C01 (lexical part): error positions, rendering totality, extracted tables = specification classes.
-/
import PyGqlModel.Lex
import PyGqlModel.StringUtils
import PyGqlModel.Lemmas.LexRange
import PyGqlModel.Lemmas.LexRender
import PyGqlModel.Lemmas.LexChars

namespace PyGql.Props.C01
open PyGql.Lex PyGql.StringUtils

private theorem lexLoop_bounded (n fuel : Nat) (s : Text) : Bounded n (lexLoop n fuel s) := by
  induction fuel generalizing s with
  | zero => exact bounded_error _ _ (ErrOK.inside (Nat.zero_le _))
  | succ fuel ih =>
    intro e he
    unfold lexLoop at he
    split at he
    · rename_i e' h'; cases he; exact next_bounded n s _ h'
    · cases he
    · rename_i tok rest h'
      split at he
      · cases he
      · rename_i e' h''; cases he; exact ih rest _ h''

/-- THE FULL STATEMENT of the property's error clause for the lexer: every syntax error reports a
    position inside the submitted text. It is FALSE on today's code (see `error_in_range_refuted`). -/
def ErrorInRangeStatement : Prop := ∀ (s : Text) (e : SynErr), lexAll s = .error e → e.pos ≤ s.length

/-- `error_in_range_partial`: every error position is ≤ len(text), EXCEPT the `NonTerminatedString` raised when the
    text ends inside an escape sequence, which is at len(text) + 1. Missing for the full statement: exactly that case
    (ledger L6; the value len+1 is pinned by tests/test_lang/test_lexer.py, so the code is modelled as it is). -/
theorem error_in_range_partial (s : Text) (e : SynErr) (h : lexAll s = .error e) :
    e.pos ≤ s.length ∨ (e.pos = s.length + 1 ∧ e.kind = .nonTerminatedString) := by
  unfold lexAll at h
  split at h
  · cases h
  · rename_i e' h'; cases h; exact lexLoop_bounded _ _ _ _ h'

/-- refutation witness of the full statement: the two-character text `"\` (also the replay on the implementation) -/
theorem error_in_range_refuted : ¬ ErrorInRangeStatement := by
  intro h
  have := h [34, 92] ⟨.nonTerminatedString, 3⟩ (by rfl)
  simp at this

/-- non-vacuity of `error_in_range_partial`: both alternatives occur -/
example : lexAll [34, 92, 117, 49] = .error ⟨.nonTerminatedString, 5⟩ := by rfl
example : lexAll [49, 46] = .error ⟨.unexpectedEOF, 2⟩ := by rfl
example : lexAll [123, 0] = .error ⟨.invalidCharacter, 2⟩ := by rfl

/-- `render_total`: for EVERY source and EVERY reported position (also the len+1 of L6), `str()` /
    `.highlighted` and `.to_dict()` of the syntax error succeed — `index_to_loc` and every `lines[...]`
    subscript of `highlight_location` are in range (with proposed fix C01-L6: the position is clamped for rendering). -/
theorem render_total (source : Text) (position : Nat) :
    (highlighted source position).isSome = true ∧ (toDict source position).isSome = true := by
  have hp : renderPosition source position ≤ source.length := Nat.min_le_right _ _
  have h1 := highlightLocation_isSome source _ hp
  refine ⟨h1, ?_⟩
  obtain ⟨l, c, hloc, _, _⟩ := indexToLoc_isSome source _ hp
  unfold toDict
  cases hh : highlighted source position with
  | none => rw [highlighted, ] at hh; rw [hh] at h1; exact absurd h1 (by simp)
  | some hl => simp [bind, Option.bind, hloc]

/-- `index_to_loc` is total exactly on `0 ≤ position ≤ len(body)` (and raises `IndexError` beyond) -/
theorem index_to_loc_total_iff (body : Text) (p : Nat) : (indexToLoc body p).isSome = true ↔ p ≤ body.length := by
  constructor
  · intro h
    unfold indexToLoc at h
    split at h
    · rename_i hc; simp at hc; omega
    · split at h
      · simp at h
      · omega
  · intro h
    obtain ⟨l, c, hloc, _, _⟩ := indexToLoc_isSome body p h
    simp [hloc]

/-- without the clamp the rendering of the L6 position fails: `index_to_loc("\"\\", 3)` raises `IndexError` -/
example : highlightLocation [34, 92] 3 = none := by decide
example : (highlighted [34, 92] 3).isSome = true := by decide
example : indexToLoc [97, 10, 98] 3 = some (2, 2) := by decide

/-! ### the extracted tables denote the specification's character classes
    (re-proved against `Generated/LexTables.lean` on every run) -/

theorem ignored_table_spec (c : Nat) : isIgnored c = Spec.Lexical.isIgnoredChar c := isIgnored_spec c
theorem digit_table_spec (c : Nat) : isDigit c = Spec.Lexical.isDigit c := isDigit_spec c
theorem name_tables_spec (c : Nat) :
    isNameStart c = Spec.Lexical.isNameStart c ∧ isNameChar c = Spec.Lexical.isNameCont c :=
  ⟨isNameStart_spec c, isNameChar_spec c⟩
theorem symbols_table_spec (c : Nat) (k : TokKind) :
    symbolKind c = some k ↔ Spec.Lexical.punctuator k = some [c] := symbolKind_spec c k
theorem comment_char_spec (c : Nat) : isCommentChar c = Spec.Lexical.isCommentChar c := isCommentChar_spec c

end PyGql.Props.C01

/-
  C01 (lexical part): error positions, rendering totality, extracted tables = specification classes.
-/
import PyGqlModel.Lex
import PyGqlModel.StringUtils
import PyGqlModel.Lemmas.LexRange
import PyGqlModel.Lemmas.LexRender
import PyGqlModel.Lemmas.LexChars
import PyGqlModel.Lemmas.LexTiles
import PyGqlModel.Lemmas.LexComplete
import PyGqlModel.Lemmas.LexCompleteBlock
import PyGqlModel.Lemmas.LexLookahead

namespace PyGql.Props.C01
open PyGql.Lex PyGql.StringUtils
open PyGql.Spec.Lexical (Tiles IgnRun Lexeme Follow)

private theorem lexLoop_bounded (n fuel : Nat) (s : Text) : ∀ e, lexLoop n fuel s = .error e → ErrPos n e := by
  induction fuel generalizing s with
  | zero => intro e he; simp only [lexLoop, Except.error.injEq] at he; subst he; exact Or.inl (Nat.zero_le _)
  | succ fuel ih =>
    intro e he
    unfold lexLoop at he
    split at he
    · rename_i e' h'; cases he; exact (next_bounded n s _ h').1
    · cases he
    · rename_i tok rest h'
      split at he
      · cases he
      · rename_i e' h''; cases he; exact ih rest _ h''

/-- with more fuel than unread characters the loop never runs out of fuel: every `__next__` that returns a token
    consumes at least one character -/
private theorem lexLoop_fuel (n fuel : Nat) (s : Text) (hf : s.length < fuel) :
    ∀ e, lexLoop n fuel s = .error e → e.kind ≠ .fuel := by
  induction fuel generalizing s with
  | zero => omega
  | succ fuel ih =>
    intro e he
    unfold lexLoop at he
    split at he
    · rename_i e' h'; cases he; exact (next_bounded n s _ h').2
    · cases he
    · rename_i tok rest h'
      split at he
      · cases he
      · rename_i e' h''
        cases he
        obtain ⟨ign, lex, hs, _, _, _, hne, _, _⟩ := next_sound n s rest tok h'
        have : rest.length < s.length := by
          rw [hs]; cases lex with
          | nil => exact absurd rfl hne
          | cons x xs => simp; omega
        exact ih rest (by omega) _ h''

/-- `lex_fuel_sufficient`: the fuel `len(source) + 1` of `lexAll` is always enough — the model's `fuel` error never
    occurs, so fuel does not appear in any statement about `lexAll`. -/
theorem lex_fuel_sufficient (s : Text) (e : SynErr) (h : lexAll s = .error e) : e.kind ≠ .fuel := by
  unfold lexAll at h
  split at h
  · cases h
  · rename_i e' h'; cases h; exact lexLoop_fuel _ _ _ (Nat.lt_succ_self _) _ h'

private theorem lexLoop_sound (n fuel : Nat) (s : Text) (toks : List Tok) (h : lexLoop n fuel s = .ok toks) :
    Tiles n s toks := by
  induction fuel generalizing s toks with
  | zero => simp [lexLoop] at h
  | succ fuel ih =>
    unfold lexLoop at h
    split at h
    · cases h
    · rename_i tok h'
      simp only [Except.ok.injEq] at h; subst h
      obtain ⟨rfl, hrun⟩ := next_eof n s tok h'
      exact .eof s hrun
    · rename_i tok rest h'
      split at h
      · rename_i toks' h''
        simp only [Except.ok.injEq] at h; subst h
        obtain ⟨ign, lex, hs, hrun, hlx, hfo, _, hst, hsp⟩ := next_sound n s rest tok h'
        have htok : tok = ⟨tok.kind, n - (lex ++ rest).length, n - rest.length, tok.value⟩ := by
          cases tok; simp_all
        rw [hs, htok]
        exact .tok ign lex rest tok.kind tok.value toks' hrun hlx hfo (ih rest toks' h'')
      · cases h

/-- `lex_sound`: whenever the lexer accepts a text, the text is TILED by its tokens: it is the concatenation of
    ignored runs (BOM, white space, line terminators, commas, maximal comments) and lexemes, in order; each lexeme is a
    complete lexeme of its token's kind according to the recognisers of Spec/Lexical.lean (Punctuator, Name, IntValue,
    FloatValue, StringValue, block StringValue) and the token carries the lexeme's span and its value (verbatim text for
    names and numbers, the decoded semantic value for strings, `BlockStringValue` for block strings); what follows each
    lexeme obeys maximal munch and the number look-ahead (`Follow`). -/
theorem lex_sound (s : Text) (toks : List Tok) (h : lexAll s = .ok toks) :
    ∃ body, toks = sofTok :: body ∧ Tiles s.length s body := by
  unfold lexAll at h
  split at h
  · rename_i body h'
    simp only [Except.ok.injEq] at h
    exact ⟨body, h.symm, lexLoop_sound _ _ _ _ h'⟩
  · cases h

/-- non-vacuity of `lex_sound`: `{a,1.5e05 #c<LF><BOM>"\\n" ...}` (comma, comment, BOM) is accepted -/
example : (lexAll [123, 97, 44, 49, 46, 53, 101, 48, 53, 32, 35, 99, 10, 65279, 34, 92, 110, 34, 32, 46, 46, 46, 125]).toOption.map (·.map (·.kind)) =
    some [.sof, .curlyL, .name, .float, .string, .ellip, .curlyR, .eof] := by decide

/-! ### completeness: `lex_render` -/

/-- THE FULL STATEMENT `lex_render`: every tiling of a text by ignored runs and complete lexemes (each followed by
    something its kind allows) is what the lexer returns — so the choice of ignored runs is irrelevant.
    Proved: `lex_render` below. -/
def LexRenderStatement : Prop :=
  ∀ (s : Text) (body : List Tok), Tiles s.length s body → lexAll s = .ok (sofTok :: body)

private theorem lexeme_ne_nil (k : TokKind) (lex v : Text) (hl : Lexeme k lex v) : lex ≠ [] := by
  intro h; subst h
  cases k <;> simp [Lexeme, Spec.Lexical.punctuator, TokKind.constText, Spec.Lexical.isName,
    Spec.Lexical.stringValue, Spec.Lexical.isIntValue, Spec.Lexical.isFloatValue, Spec.Lexical.isIntegerPart,
    Spec.Lexical.stripNegativeSign, Spec.Lexical.blockStringRaw, List.isPrefixOf] at hl

private theorem ts_cons (c : Nat) (t : Text) (h : (Lex.isIgnored c || c == 35) = false) : tokenStart (c :: t) := by
  simpa [tokenStart, Spec.Lexical.startsWith] using h

/-- the first character of a lexeme of any kind is neither ignored nor `#` -/
private theorem lexeme_tokenStart (k : TokKind) (lex v rest : Text) (hl : Lexeme k lex v) : tokenStart (lex ++ rest) := by
  have h128 : ∀ c, c < 128 → (c = 45 ∨ Lex.isDigit c = true ∨ c = 34) → (Lex.isIgnored c || c == 35) = false := by decide
  have num : ∀ (l r : Text), Spec.Lexical.isIntegerPart l = true → tokenStart (l ++ r) := by
    intro l r h
    simp only [Spec.Lexical.isIntegerPart] at h
    cases l with
    | nil => simp [Spec.Lexical.stripNegativeSign] at h
    | cons c t =>
      by_cases hc : c = 45
      · subst hc; exact ts_cons _ _ (by decide)
      · have hs : Spec.Lexical.stripNegativeSign (c :: t) = c :: t := by
          unfold Spec.Lexical.stripNegativeSign
          split
          · rename_i heq; simp at heq; exact absurd heq.1 hc
          · rfl
        rw [hs] at h
        have hd : Lex.isDigit c = true := by
          rw [isDigit_spec]
          simp [Spec.Lexical.isNonZeroDigit, Spec.Lexical.isDigit] at h ⊢
          rcases h with ⟨rfl, _⟩ | ⟨h, _⟩ <;> omega
        have hlt : c < 128 := by rw [isDigit_spec] at hd; simp [Spec.Lexical.isDigit] at hd; omega
        exact ts_cons _ _ (h128 c hlt (Or.inr (Or.inl hd)))
  cases k with
  | sof => exact absurd hl (by simp [Lexeme])
  | eof => exact absurd hl (by simp [Lexeme])
  | int => exact num lex rest hl.1
  | float =>
    obtain ⟨ip, frac, exp, rfl, hip, _⟩ := PrintLex.floatShape_of_isFloatValue lex hl.1
    rw [List.append_assoc]; exact num ip _ hip
  | name =>
    cases lex with
    | nil => simp [Lexeme, Spec.Lexical.isName] at hl
    | cons c t =>
      simp only [Lexeme, Spec.Lexical.isName, Bool.and_eq_true] at hl
      obtain ⟨_, _, _, _, _, hi, h35, _⟩ := nameStart_dispatch c hl.1.1
      exact ts_cons _ _ (by simp [hi, h35])
  | string =>
    cases lex with
    | nil => simp [Lexeme, Spec.Lexical.stringValue] at hl
    | cons c t =>
      have hc : c = 34 := by
        simp only [Lexeme] at hl
        unfold Spec.Lexical.stringValue at hl
        split at hl
        · rename_i t' heq; simp only [List.cons.injEq] at heq; exact heq.1
        · cases hl
      subst hc; exact ts_cons _ _ (by decide)
  | blockString =>
    simp only [Lexeme, Option.map_eq_some_iff] at hl
    obtain ⟨raw, hraw, _⟩ := hl
    unfold Spec.Lexical.blockStringRaw at hraw
    split at hraw
    · rename_i hp
      obtain ⟨u, rfl⟩ := tq_prefix_eq lex hp
      exact ts_cons _ _ (by decide)
    · cases hraw
  | ellip =>
    simp only [Lexeme, Spec.Lexical.punctuator, TokKind.constText, Option.some.injEq] at hl
    obtain ⟨rfl, _⟩ := hl
    exact ts_cons _ _ (by decide)
  | bang | dollar | parenL | parenR | bracketL | bracketR | curlyL | curlyR | colon | equals | atSign | pipe | amp =>
    simp only [Lexeme, Spec.Lexical.punctuator, TokKind.constText, Option.some.injEq] at hl
    obtain ⟨rfl, _⟩ := hl
    exact ts_cons _ _ (by decide)

/-- one call of `__next__` on an ignored run followed by a complete lexeme that obeys its follow restriction (public: used by
    `Props/C01_errors_iff.lean`) -/
theorem next_complete (n : Nat) (ign lex rest v : Text) (k : TokKind)
    (hrun : IgnRun (lex ++ rest) ign) (hl : Lexeme k lex v) (hf : Follow k lex rest) :
    next n (ign ++ (lex ++ rest)) = .ok (tokAt n k lex rest v, some rest) := by
  have punct : ∀ c, Spec.Lexical.punctuator k = some [c] → lex = [c] → v = [c] →
      next n (ign ++ (lex ++ rest)) = .ok (tokAt n k lex rest v, some rest) := by
    intro c hp hlex hv
    subst hlex; subst hv
    exact next_punct n ign rest c k ((symbolKind_spec c k).mpr hp) hrun
  have hX := lexeme_tokenStart k lex v rest hl
  cases k with
  | sof => exact absurd hl (by simp [Lexeme])
  | eof => exact absurd hl (by simp [Lexeme])
  | int =>
    obtain ⟨h1, h2⟩ := hl
    subst h2
    rw [next_skip n ign _ hrun hX, next_int_value n _ rest h1 hf]
    simp [tokAt, posAt]
  | float =>
    obtain ⟨h1, h2⟩ := hl
    subst h2
    rw [next_skip n ign _ hrun hX,
      next_float_shape n _ rest (PrintLex.floatShape_of_isFloatValue _ h1) hf]
    simp [tokAt, posAt]
  | blockString =>
    simp only [Lexeme, Option.map_eq_some_iff] at hl
    obtain ⟨raw, hraw, hv⟩ := hl
    rw [next_skip n ign _ hrun hX, next_block_lexeme n lex rest raw hraw,
      PyGql.Props.C02.block_string_spec, hv]
    simp [tokAt, posAt]
  | name =>
    obtain ⟨h1, h2⟩ := hl
    subst h2
    exact next_name n ign _ rest h1 hf hrun
  | string => exact next_string n ign lex rest v hl hf hrun
  | ellip =>
    simp only [Lexeme, Spec.Lexical.punctuator, TokKind.constText, Option.some.injEq] at hl
    obtain ⟨rfl, rfl⟩ := hl
    exact next_ellip n ign rest hrun
  | bang | dollar | parenL | parenR | bracketL | bracketR | curlyL | curlyR | colon | equals | atSign | pipe | amp =>
    simp only [Lexeme, Spec.Lexical.punctuator, TokKind.constText, Option.some.injEq] at hl
    obtain ⟨rfl, rfl⟩ := hl
    exact punct _ rfl rfl rfl

private theorem lexLoop_complete (n : Nat) (s : Text) (toks : List Tok) (h : Tiles n s toks) :
    ∀ fuel, s.length < fuel → lexLoop n fuel s = .ok toks := by
  induction h with
  | eof ign hrun =>
    intro fuel hf
    cases fuel with
    | zero => omega
    | succ f =>
      have : next n ign = .ok (eofTok n, none) := by
        have := row_complete [] ign hrun rfl
        rw [List.append_nil] at this
        unfold next; rw [this]
      simp [lexLoop, this, eofTok]
  | tok ign lex rest k v toks hrun hl hfo _ ih =>
    intro fuel hf
    cases fuel with
    | zero => omega
    | succ f =>
      have hne := lexeme_ne_nil k lex v hl
      have hnext := next_complete n ign lex rest v k hrun hl hfo
      have hlen : rest.length < f := by
        cases lex with
        | nil => exact absurd rfl hne
        | cons x xs => simp at hf; omega
      have := ih f hlen
      simp [lexLoop, hnext, this, tokAt]

/-- `lex_render` (FULL, all token kinds): for every tiling of a text — lexemes that are complete Punctuators, Names,
    IntValues, FloatValues, StringValues or block StringValues according to Spec/Lexical.lean, each followed by something
    its kind allows (`Follow`: maximal munch, number look-ahead, `""` not before `"`), separated by ANY ignored runs
    (white space, line terminators LF / CR / CRLF, commas, BOMs, maximal comments) — `lexAll` returns exactly the
    tiling's tokens: kinds, spans and values. -/
theorem lex_render (s : Text) (body : List Tok) (h : Tiles s.length s body) : lexAll s = .ok (sofTok :: body) := by
  unfold lexAll
  rw [lexLoop_complete _ _ _ h _ (Nat.lt_succ_self _)]

/-- the full statement is closed -/
theorem lex_render_statement : LexRenderStatement := lex_render

/-- `lexAll` accepts exactly the tiled texts, and returns the tiling: soundness and completeness together.
    This is the lexical half of "text accepted ⇔ text derives from the grammar". -/
theorem lexAll_ok_iff (s : Text) (toks : List Tok) :
    lexAll s = .ok toks ↔ ∃ body, toks = sofTok :: body ∧ Tiles s.length s body :=
  ⟨lex_sound s toks, fun ⟨body, e, h⟩ => e ▸ lex_render s body h⟩

/-- kind and value of a token (what is left when positions are forgotten) -/
def kv (t : Tok) : TokKind × Text := (t.kind, t.value)

/-- `lex_ignored_invariant` (FULL): ignored characters are insignificant. If the lexer accepts `s₁`, then every other
    text `s₂` tiled by lexemes with the same kinds and values (i.e. `s₁` with its ignored runs replaced by any other
    admissible ignored runs — white space, commas, comments, BOMs, any line-terminator convention) is accepted with the
    same token kinds and values. -/
theorem lex_ignored_invariant (s₁ s₂ : Text) (toks₁ body₂ : List Tok) (h₁ : lexAll s₁ = .ok toks₁)
    (h₂ : Tiles s₂.length s₂ body₂) (hsame : toks₁.tail.map kv = body₂.map kv) :
    ∃ toks₂, lexAll s₂ = .ok toks₂ ∧ toks₂.map kv = toks₁.map kv := by
  obtain ⟨body₁, rfl, _⟩ := lex_sound s₁ toks₁ h₁
  refine ⟨sofTok :: body₂, lex_render s₂ body₂ h₂, ?_⟩
  simp only [List.tail_cons] at hsame
  simp [hsame]

/-- non-vacuity: `{a 1.5}` and ` { ,a #c<CR>1.5}` have the same tokens up to positions -/
example : ((lexAll [123, 97, 32, 49, 46, 53, 125]).toOption.map (·.map kv)) =
    ((lexAll [32, 123, 32, 44, 97, 32, 35, 99, 13, 49, 46, 53, 125]).toOption.map (·.map kv)) := by decide

/-! ### the number look-ahead restriction (known finding LA1: not in the June-2018 lexical grammar, pinned by
    tests/test_lang/test_lexer.py::test_useful_number_errors — `1.2e3e`, `0xF1`, `0b10`, `123abc`, `1_234`, `1.23f`, `1.234_5`)

    The specification side of `lex_sound` / `lex_render` carries the restriction EXPLICITLY: it is the `isNameStart` clause
    of `Spec.Lexical.Follow` for `.int` / `.float`. The two theorems below isolate it. -/

/-- what the June-2018 grammar read literally would give: a number lexeme directly followed by a name lexes like the same
    text with a space in between (IntValue / FloatValue have no look-ahead restriction before October 2021) -/
def June2018GluedNumberStatement : Prop :=
  ∀ (lex : Text) (c : Nat) (t : Text) (toks : List Tok),
    (Spec.Lexical.isIntValue lex = true ∨ Spec.Lexical.isFloatValue lex = true) →
    Spec.Lexical.isNameStart c = true → c ≠ 101 → c ≠ 69 →
    lexAll (lex ++ 32 :: c :: t) = .ok toks →
    ∃ toks', lexAll (lex ++ c :: t) = .ok toks' ∧ toks'.map kv = toks.map kv

/-- `number_lookahead_pinned`: on today's code EVERY IntValue / FloatValue lexeme directly followed by a NameStart
    character (other than an exponent indicator `e` / `E`) is rejected, with `UnexpectedCharacter` at that character —
    never lexed as number + name. -/
theorem number_lookahead_pinned (lex : Text) (c : Nat) (t : Text)
    (hl : Spec.Lexical.isIntValue lex = true ∨ Spec.Lexical.isFloatValue lex = true)
    (hc : Spec.Lexical.isNameStart c = true) (he : c ≠ 101 ∧ c ≠ 69) :
    lexAll (lex ++ c :: t) = .error ⟨.unexpectedCharacter, lex.length⟩ := by
  have h := next_number_glued (lex ++ c :: t).length lex c t (numShape_of_number lex hl) hc he
  unfold lexAll
  simp only [lexLoop, h]
  simp [posAt]

/-- refutation of the literal June-2018 reading, witness `1a` vs `1 a` (replay: `parse_value("[1a]")`) -/
theorem june2018_glued_number_refuted : ¬ June2018GluedNumberStatement := by
  intro h
  obtain ⟨toks', h', _⟩ := h [49] 97 [] _ (Or.inl (by decide)) (by decide) (by decide) (by decide)
    (show lexAll [49, 32, 97] = .ok [sofTok, ⟨.int, 0, 1, [49]⟩, ⟨.name, 2, 3, [97]⟩, eofTok 3] by rfl)
  have : lexAll [49, 97] = .error ⟨.unexpectedCharacter, 1⟩ := by rfl
  simp only [List.cons_append, List.nil_append] at h'
  rw [this] at h'
  cases h'

/-- THE FULL STATEMENT of the property's error clause for the lexer: every syntax error reports a
    position inside the submitted text. It is FALSE on today's code (see `error_in_range_refuted`). -/
def ErrorInRangeStatement : Prop := ∀ (s : Text) (e : SynErr), lexAll s = .error e → e.pos ≤ s.length

/-- `error_in_range_partial`: every error position is ≤ len(text), EXCEPT the `NonTerminatedString` raised when the
    text ends inside an escape sequence, which is at len(text) + 1. Missing for the full statement: exactly that case
    (ledger L6; the value len+1 is pinned by tests/test_lang/test_lexer.py, so the code is modelled as it is).
    WHICH texts are excluded is pinned down in `Props/C01_errors_exact.lean`: only texts whose last characters are `\` or
    `\u` + at most three hex digits (`EndsInEscape`); for all others the full statement is proved
    (`error_in_range_except_truncated_escape`). -/
theorem error_in_range_partial (s : Text) (e : SynErr) (h : lexAll s = .error e) :
    e.pos ≤ s.length ∨ (e.pos = s.length + 1 ∧ e.kind = .nonTerminatedString) := by
  unfold lexAll at h
  split at h
  · cases h
  · rename_i e' h'; cases h; exact lexLoop_bounded _ _ _ _ h'

/-- refutation witness of the full statement: the two-character text `"\` (also the replay on the implementation) -/
theorem error_in_range_refuted : ¬ ErrorInRangeStatement := by
  intro h
  have := h [34, 92] ⟨.nonTerminatedString, 3⟩ (by rfl)
  simp at this

/-- non-vacuity of `error_in_range_partial`: both alternatives occur -/
example : lexAll [34, 92, 117, 49] = .error ⟨.nonTerminatedString, 5⟩ := by rfl
example : lexAll [49, 46] = .error ⟨.unexpectedEOF, 2⟩ := by rfl
example : lexAll [123, 0] = .error ⟨.invalidCharacter, 2⟩ := by rfl

/-- `render_total`: for EVERY source and EVERY reported position (also the len+1 of L6), `str()` /
    `.highlighted` and `.to_dict()` of the syntax error succeed — `index_to_loc` and every `lines[...]`
    subscript of `highlight_location` are in range (with proposed fix C01-L6: the position is clamped for rendering). -/
theorem render_total (source : Text) (position : Nat) :
    (highlighted source position).isSome = true ∧ (toDict source position).isSome = true := by
  have hp : renderPosition source position ≤ source.length := Nat.min_le_right _ _
  have h1 := highlightLocation_isSome source _ hp
  refine ⟨h1, ?_⟩
  obtain ⟨l, c, hloc, _, _⟩ := indexToLoc_isSome source _ hp
  unfold toDict
  cases hh : highlighted source position with
  | none => rw [highlighted, ] at hh; rw [hh] at h1; exact absurd h1 (by simp)
  | some hl => simp [bind, Option.bind, hloc]

/-- `index_to_loc` is total exactly on `0 ≤ position ≤ len(body)` (and raises `IndexError` beyond) -/
theorem index_to_loc_total_iff (body : Text) (p : Nat) : (indexToLoc body p).isSome = true ↔ p ≤ body.length := by
  constructor
  · intro h
    unfold indexToLoc Response.indexToLoc at h
    split at h
    · rename_i hc; simp at hc; omega
    · split at h
      · simp at h
      · omega
  · intro h
    obtain ⟨l, c, hloc, _, _⟩ := indexToLoc_isSome body p h
    simp [hloc]

/-- without the clamp the rendering of the L6 position fails: `index_to_loc("\"\\", 3)` raises `IndexError` -/
example : highlightLocation [34, 92] 3 = none := by decide
example : (highlighted [34, 92] 3).isSome = true := by decide
example : indexToLoc [97, 10, 98] 3 = some (2, 2) := by decide
/-- fix X4: CRLF is ONE line break, a lone CR is one too -/
example : indexToLoc [97, 13, 10, 98, 13, 99] 6 = some (3, 2) := by decide

/-! ### the extracted tables denote the specification's character classes
    (re-proved against `Generated/LexTables.lean` on every run) -/

theorem ignored_table_spec (c : Nat) : isIgnored c = Spec.Lexical.isIgnoredChar c := isIgnored_spec c
theorem digit_table_spec (c : Nat) : isDigit c = Spec.Lexical.isDigit c := isDigit_spec c
theorem name_tables_spec (c : Nat) :
    isNameStart c = Spec.Lexical.isNameStart c ∧ isNameChar c = Spec.Lexical.isNameCont c :=
  ⟨isNameStart_spec c, isNameChar_spec c⟩
theorem symbols_table_spec (c : Nat) (k : TokKind) :
    symbolKind c = some k ↔ Spec.Lexical.punctuator k = some [c] := symbolKind_spec c k
theorem comment_char_spec (c : Nat) : isCommentChar c = Spec.Lexical.isCommentChar c := isCommentChar_spec c

end PyGql.Props.C01

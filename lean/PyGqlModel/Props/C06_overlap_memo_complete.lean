/-
  C06 - property theorems, part 21: THE MEMOISED OVERLAP SEARCH NEVER LOSES A REPORT.

  /repo runs `OverlappingFieldsCanBeMergedChecker` WITH the memo of (field map, fragment, mutually exclusive) triples
  (fix 7e75356; model `Validate/OverlapMemo.lean`, rule `Validate/ChainMemo.lean: overlapMemoRun`). Until now the
  equivalence with the clause of 5.3.2 was proved for the UN-memoised search only, and for the memoised one only
  "no false alarm" (`overlap_memo_no_false_alarm`). Here the other half:

    `overlap_memo_complete`      memoised rule reports nothing  ⇒  clause of 5.3.2
    `rule_overlapping_fields_memo_iff`   memoised rule reports nothing  ⇔  clause of 5.3.2

  under `ParentsAgree`, "no fragment is named \"\"" and `WfIds d` ONLY. Of the side conditions of the un-memoised theorem
  (`OverlapHyps`) two are GONE: `NoCrash`, and the whole of `OverlapSide` except the empty name - the
  `field_map is fragment_field_map` shortcut MAY be taken (cyclic fragment graphs, duplicate fragment names): a triple
  whose fragment body is the selection set itself carries no obligation (`FOblM`), and when such a triple is met while
  chasing a conflict the fields were compared when the set itself was entered (`lvFM_of`). `WfIds d` (selection-set
  identities pairwise distinct: the memo identifies a field map by its selection set, `id(field_map)`; it also gives
  the syntactic ranks under which the memoised rule never crashes: `rankSynB_of_wfIds`, `overlap_memo_run_no_crash`).
  What is GONE compared with `rule_overlapping_fields_can_be_merged_iff_partial`: `NoCrash` - neither the run observation nor the static rank check `rankOkB` (nesting through spreads below ~100 levels) is
  needed, because the memoised search terminates on every document.

  Consequently (`overlap_memo_neutral_side`) the memoised and the un-memoised rule give the same verdict wherever
  the latter is covered by its theorem: `OverlapMemoNeutralStatement` of `Props/C06_overlap_memo.lean` holds with the side
  conditions `ParentsAgree`, `OverlapSide`, `WfIds` added (`OverlapMemoNeutralWithSide`: the un-memoised half needs them). Without them (cyclic
  fragment graphs on which the un-memoised search happens not to exhaust its fuel, duplicate fragment names) the
  statement stays open; the correspondence cross-checks it on every generated document (`memo:crosscheck`).

  Proof (`Lemmas/ValidateOverlapMCert.lean`, `…MPost{,2,4,5,6,7,8}.lean`): the certificate argument of the un-memoised
  search redone over the keys of BOTH memos. A certificate (`CertM`) no longer contains a certificate for every field
  reachable through a fragment spread in the other sub-selection - the search may have met the triple before and
  returned at once - but only "the triple is in the memo" (`FCov`); every triple of the final memo is closed (`FOblM`:
  direct fields certified, triples of the nested spreads in the memo), established by the call that inserted it; the
  invariant "every name in the live `compared_fragments` set is undefined or has its triple in the memo" (`CmpOK`)
  replaces the closed set of compared names. A conflict derivation is refuted by induction on its height, triples
  being chased through the memo along the spread path (`lvFM_of`).
-/
import PyGqlModel.Props.C06_overlap_memo
import PyGqlModel.Lemmas.ValidateOverlapMPost8
import PyGqlModel.Lemmas.ValidateOverlapSynRank
namespace PyGql.Props.C06
open PyGql PyGql.Validate PyGql.Validate.Spec

/-- **completeness of the memoised rule**: if it reports nothing, no selection set of the document contains two
    conflicting fields (documents with fragment spreads included; no hypothesis about crashes or nesting depth) -/
theorem overlap_memo_complete (s : SchemaD) (fx : Fixes) (h7 : fx.v7 = true) (d : Doc)
    (hpa : Spec.ParentsAgree s d) (hne : AL.get? (fragTable d) "" = none) (hw : WfIds d)
    (h0 : (overlapMemoRun s fx d).1 = 0) : Spec.overlappingFieldsCanBeMerged s d :=
  memoRun_sound s fx d h7 hpa hw hne h0
    (overlap_memo_run_no_crash s fx h7 d hw)

/-- **5.3.2 for the rule /repo runs**: the memoised rule reports nothing exactly when the clause holds -/
theorem rule_overlapping_fields_memo_iff (s : SchemaD) (fx : Fixes) (h7 : fx.v7 = true) (d : Doc)
    (hpa : Spec.ParentsAgree s d) (hne : AL.get? (fragTable d) "" = none) (hw : WfIds d) :
    (overlapMemoRun s fx d).1 = 0 ↔ Spec.overlappingFieldsCanBeMerged s d :=
  ⟨overlap_memo_complete s fx h7 d hpa hne hw, overlap_memo_no_false_alarm s fx h7 d⟩

/-- **the memo never loses a report**: whatever the un-memoised rule reports (under the side conditions of its
    theorem), the memoised rule reports too -/
theorem overlap_memo_never_loses (s : SchemaD) (fx : Fixes) (h7 : fx.v7 = true) (d : Doc)
    (hpa : Spec.ParentsAgree s d) (hne : AL.get? (fragTable d) "" = none) (hw : WfIds d)
    (h : ¬ Silent s fx .overlappingFieldsCanBeMerged d) : 0 < (overlapMemoRun s fx d).1 := by
  refine Nat.pos_of_ne_zero fun h0 => h ?_
  exact rule_overlapping_fields_can_be_merged_no_false_alarm_partial s fx h7 d
    (overlap_memo_complete s fx h7 d hpa hne hw h0)

/-- `OverlapMemoNeutralStatement` with the side conditions visible -/
def OverlapMemoNeutralWithSide : Prop :=
  ∀ (s : SchemaD) (fx : Fixes) (d : Doc), fx.v7 = true → NoCrash s fx d → Spec.ParentsAgree s d → OverlapSide s d →
    WfIds d →
    ((overlapMemoRun s fx d).1 = 0 ↔ Silent s fx .overlappingFieldsCanBeMerged d)

/-- **verdict-neutrality of the memo** under the side conditions of the rule's equivalence -/
theorem overlap_memo_neutral_side : OverlapMemoNeutralWithSide := fun s fx d h7 hnc hpa hsc hw =>
  (rule_overlapping_fields_memo_iff s fx h7 d hpa hsc.noEmptyName hw).trans
    (rule_overlapping_fields_can_be_merged_iff_partial s fx h7 d hpa hsc hnc).symm

/-- the half that needs no `NoCrash`: memoised silent ⇒ un-memoised silent -/
theorem overlap_memo_silent_plain_silent (s : SchemaD) (fx : Fixes) (h7 : fx.v7 = true) (d : Doc)
    (hpa : Spec.ParentsAgree s d) (hne : AL.get? (fragTable d) "" = none) (hw : WfIds d)
    (h0 : (overlapMemoRun s fx d).1 = 0) : Silent s fx .overlappingFieldsCanBeMerged d :=
  rule_overlapping_fields_can_be_merged_no_false_alarm_partial s fx h7 d
    (overlap_memo_complete s fx h7 d hpa hne hw h0)

/-- **the memoised rule never crashes** on a document with well-formed identities - cyclic fragment graphs, any
    nesting depth -/
theorem overlap_memo_run_never_crashes (s : SchemaD) (fx : Fixes) (h7 : fx.v7 = true) (d : Doc) (hw : WfIds d) :
    (overlapMemoRun s fx d).2.crash = none :=
  overlap_memo_run_no_crash s fx h7 d hw

/-- what the driver checks on a document for the memoised rule (all computable, no run of the search, NO bound on
    the nesting depth, no ranks) -/
structure DocChecksMemo (s : SchemaD) (d : Doc) : Prop where
  ids : wfIdsB d = true
  noMeta : noMetaSubsB d = true

/-- **5.3.2 for the memoised rule, with checkable / other-rule hypotheses only**: the two static checks, the
    parser's guarantee on fragment names, output-typed schema fields, and the CLAUSES of ScalarLeafs and
    FragmentsOnCompositeTypes (for `ParentsAgree`). Nothing about fragment names being unique or spreads acyclic: the
    `field_map is fragment_field_map` shortcut may be taken -/
theorem rule_overlapping_fields_memo_iff_wf (s : SchemaD) (fx : Fixes) (h7 : fx.v7 = true) (d : Doc)
    (hck : DocChecksMemo s d) (hne : NamesNonEmpty d)
    (hout : ∀ T name fd, fieldOf s T name = some fd → isOutputTy s fd.type = true)
    (hsl : Spec.scalarLeafs s d) (hfc : Spec.fragmentsOnCompositeTypes s d) :
    (overlapMemoRun s fx d).1 = 0 ↔ Spec.overlappingFieldsCanBeMerged s d :=
  rule_overlapping_fields_memo_iff s fx h7 d
    (parentsAgree_of_rules s d hout hsl hfc ((noMetaSubsB_iff d).mp hck.noMeta) ((wfIdsB_iff d).mp hck.ids))
    (noEmptyName_of hne) ((wfIdsB_iff d).mp hck.ids)

/-! non-vacuity: the document with two fragments of `Props/C06_overlap_examples.lean` satisfies every hypothesis
    (the memoised rule is silent on it iff the two fragments select the same field under the alias), and the
    conflicting variant is reported -/
example : DocChecksMemo oSchema (oDocFrag "a") := ⟨by decide, by decide⟩
example : (overlapMemoRun oSchema Fixes.all (oDocFrag "a")).1 = 0 ↔
    Spec.overlappingFieldsCanBeMerged oSchema (oDocFrag "a") :=
  rule_overlapping_fields_memo_iff oSchema Fixes.all rfl _ (parentsAgree_frag "a") (overlapSide_frag "a").noEmptyName
    (by rw [← wfIdsB_iff]; decide)
/-- ... and on the variant where the two fragments disagree the memoised rule reports, hence the clause fails -/
example : ¬ Spec.overlappingFieldsCanBeMerged oSchema (oDocFrag "b") := fun H => by
  have := (rule_overlapping_fields_memo_iff oSchema Fixes.all rfl _ (parentsAgree_frag "b") (overlapSide_frag "b").noEmptyName
    (by rw [← wfIdsB_iff]; decide)).mpr H
  revert this
  decide +kernel

end PyGql.Props.C06

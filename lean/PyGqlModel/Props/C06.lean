import PyGqlModel.Generated.ValidationRules
namespace PyGql.Props.C06
theorem rules_extracted_nonempty : PyGql.Generated.ValidationRules.specifiedRules.length = 26 := by decide
end PyGql.Props.C06

/-
  C06 - property theorems, part 1: the model's rule list is the source's `SPECIFIED_RULES`; per-rule
  equivalences `rule_<name>_iff` (the rule visitor run as `default_validator(validators=[Rule])` reports
  nothing ⇔ the specification predicate of `Spec/ValidSpec.lean` holds) for rules decided node by node.
  The standalone runs are compared with the real code by the correspondence (`corr/C06_model.py`), and
  `chain-does-not-decompose` checks on the real code that the chain's verdict is their conjunction.
-/
import PyGqlModel.Generated.ValidationRules
import PyGqlModel.Lemmas.ValidateWalk
namespace PyGql.Props.C06
open PyGql PyGql.Validate PyGql.Validate.Spec

/-- dropping, adding or reordering a rule in `SPECIFIED_RULES` breaks this obligation -/
theorem rules_match_source : Rule.all.map Rule.name = PyGql.Generated.ValidationRules.specifiedRules := by decide

/-- errors reported by rule `r` run alone (chain = TypeInfoVisitor + r) -/
def alone (s : SchemaD) (fx : Fixes) (r : Rule) (d : Doc) : St := visitDocument ⟨s, fx, [r]⟩ d {}
/-- "the rule reports nothing": NO RECORDED ERROR of the rule run alone (chain = TypeInfoVisitor + the rule). The exception
    flag `RS.crash` is NOT part of it: a run that raised before recording an error is `Silent`. The statements that include
    the flag are about `verdict` / `verdictM` (`Props/C06_chain.lean: verdict_iff_alone`, `verdictM_iff_alone`,
    `verdictM_iff_spec`); for the lone run of the memoised overlap rule `overlap_memo_run_no_crash`. -/
def Silent (s : SchemaD) (fx : Fixes) (r : Rule) (d : Doc) : Prop := E (alone s fx r d) = 0

private theorem enterRules_single (c : Cfg) (n : Node) (ti : TI) (r : Rule) (rs : RS) :
    enterRules c n ti [r] rs = enterRule c.schema c.fixes r n ti rs := by
  simp only [enterRules]
  generalize enterRule c.schema c.fixes r n ti rs = p
  obtain ⟨a, b⟩ := p
  cases b <;> simp

/-- a rule that, run alone, never skips below the document, adds `f n` errors on entering `n`, none on leaving -/
private theorem cf_of (s : SchemaD) (fx : Fixes) (r : Rule) (f : Node → Nat)
    (hE : ∀ n ti rs, n.isDoc = false → (enterRule s fx r n ti rs).2 = false ∧
      (enterRule s fx r n ti rs).1.errs.length = rs.errs.length + f n)
    (hL : ∀ n ti rs, (leaveRule s fx r n ti rs).errs.length = rs.errs.length) :
    CF ⟨s, fx, [r]⟩ f (fun _ => 0) where
  noskip n st hn := by
    simp only [enter, enterRules_single]
    exact (hE n _ _ hn).1
  enterE n st hn := by
    simp only [enter, enterRules_single, E]
    exact (hE n _ _ hn).2
  leaveE n st _ := by
    simp only [leave, E, List.reverse_cons, List.reverse_nil, List.nil_append, List.foldl_cons, List.foldl_nil]
    rw [hL]; rfl

private theorem total_zero_iff (f : Node → Nat) (ns : List Node) :
    total f (fun _ => 0) ns = 0 ↔ ∀ n ∈ ns, f n = 0 := by
  induction ns with
  | nil => simp [total]
  | cons a as ih => rw [total_cons]; simp only [Nat.add_zero, List.mem_cons, forall_eq_or_imp, ← ih]; omega

/-- `for x in xs: if x in seen: error; seen.add(x)` reports nothing ⇔ no duplicates (and nothing already seen) -/
theorem dupCount_zero_iff (seen xs : List String) :
    dupCount seen xs = 0 ↔ xs.Nodup ∧ ∀ x ∈ xs, x ∉ seen := by
  induction xs generalizing seen with
  | nil => simp [dupCount]
  | cons a as ih =>
    simp only [dupCount, Nat.add_eq_zero_iff, ih, List.nodup_cons, List.mem_cons, forall_eq_or_imp]
    constructor
    · rintro ⟨h1, h2, h3⟩
      have ha : a ∉ seen := by
        intro hc; simp [hc] at h1
      refine ⟨⟨fun hm => ?_, h2⟩, ha, fun x hx => ?_⟩
      · have := h3 a hm; simp at this
      · have := h3 x hx; simp only [not_or] at this; exact this.2
    · rintro ⟨⟨h1, h2⟩, h3, h4⟩
      refine ⟨by simp [h3], h2, fun x hx => ?_⟩
      simp only [not_or]
      exact ⟨fun hxa => h1 (hxa ▸ hx), h4 x hx⟩

theorem dupCount_nil_zero_iff (xs : List String) : dupCount [] xs = 0 ↔ xs.Nodup := by
  simp [dupCount_zero_iff]

/-- generic shape of the per-rule theorem for a rule that is context-free and silent at the document node -/
private theorem silent_iff_nodes (s : SchemaD) (fx : Fixes) (r : Rule) (f : Node → Nat) (d : Doc)
    (h : CF ⟨s, fx, [r]⟩ f (fun _ => 0))
    (hdoc : ∀ ti rs, enterRule s fx r (.document d) ti rs = (rs, false))
    (hf0 : f (.document d) = 0)
    (hL : ∀ n ti rs, (leaveRule s fx r n ti rs).errs.length = rs.errs.length) :
    Silent s fx r d ↔ ∀ n ∈ nodes d, f n = 0 := by
  have hd0 : ∀ st : St, enter ⟨s, fx, [r]⟩ (.document d) st = ({ ti := st.ti, rs := st.rs }, false) := by
    intro st; simp only [enter, enterRules_single, hdoc, tiEnter]
  unfold Silent alone
  have key := visitDocument_E h d {}
    (by rw [hd0]) (by rw [hd0, hf0]; simp [E])
    (by intro st; simp only [leave, E, List.reverse_cons, List.reverse_nil, List.nil_append, List.foldl_cons,
          List.foldl_nil]; rw [hL]; rfl)
  rw [key]
  have : E ({} : St) = 0 := rfl
  rw [this, Nat.zero_add, total_zero_iff]


/-! ### rules decided node by node -/

private theorem leave_len (s : SchemaD) (fx : Fixes) (r : Rule)
    (hr : r ≠ .noUnusedFragments ∧ r ≠ .noFragmentCycles ∧ r ≠ .noUndefinedVariables ∧ r ≠ .noUnusedVariables ∧
      r ≠ .variablesInAllowedPosition ∧ r ≠ .providedRequiredArguments) :
    ∀ n ti rs, (leaveRule s fx r n ti rs).errs.length = rs.errs.length := by
  intro n ti rs
  obtain ⟨h1, h2, h3, h4, h5, h6⟩ := hr
  unfold leaveRule
  split <;> first | rfl | contradiction

def fUniqueArgs : Node → Nat
  | .field _ args _ _ => dupCount [] (args.map (·.name))
  | .directive d => dupCount [] (d.args.map (·.name))
  | _ => 0

private theorem uniqueArgs_enter (s : SchemaD) (fx : Fixes) (n : Node) (ti : TI) (rs : RS) :
    (enterRule s fx .uniqueArgumentNames n ti rs).2 = false ∧
    (enterRule s fx .uniqueArgumentNames n ti rs).1.errs.length = rs.errs.length + fUniqueArgs n := by
  cases n <;> simp [enterRule, fUniqueArgs, RS.errN] <;> omega

/-- **5.4.2 Argument uniqueness**: `UniqueArgumentNamesChecker` run alone reports nothing ⇔ the argument
    names of every field and every directive of the document are pairwise distinct -/
theorem rule_unique_argument_names_iff (s : SchemaD) (fx : Fixes) (d : Doc) :
    Silent s fx .uniqueArgumentNames d ↔ Spec.uniqueArgumentNames d := by
  have hL := leave_len s fx .uniqueArgumentNames (by decide)
  rw [silent_iff_nodes s fx .uniqueArgumentNames fUniqueArgs d
    (cf_of s fx _ _ (fun n ti rs _ => uniqueArgs_enter s fx n ti rs) hL) (by intro ti rs; simp [enterRule]) rfl hL]
  unfold Spec.uniqueArgumentNames
  constructor
  · intro h
    refine ⟨fun n hn name args dirs hs e => ?_, fun n hn dr e => ?_⟩
    · have := h n hn; subst e; simpa [fUniqueArgs, dupCount_nil_zero_iff] using this
    · have := h n hn; subst e; simpa [fUniqueArgs, dupCount_nil_zero_iff] using this
  · rintro ⟨h1, h2⟩ n hn
    cases n <;> simp only [fUniqueArgs, dupCount_nil_zero_iff]
    · exact h2 _ hn _ rfl
    · exact h1 _ hn _ _ _ _ rfl


def fUniqueDirs : Node → Nat
  | .operation _ _ _ dirs _ => dupCount [] (dirs.map (·.name))
  | .field _ _ dirs _ => dupCount [] (dirs.map (·.name))
  | .spread _ dirs => dupCount [] (dirs.map (·.name))
  | .inline _ dirs => dupCount [] (dirs.map (·.name))
  | .fragmentDef _ _ dirs => dupCount [] (dirs.map (·.name))
  | .varDef v => dupCount [] (v.dirs.map (·.name))
  | _ => 0

private theorem uniqueDirs_enter (s : SchemaD) (fx : Fixes) (n : Node) (ti : TI) (rs : RS) :
    (enterRule s fx .uniqueDirectivesPerLocation n ti rs).2 = false ∧
    (enterRule s fx .uniqueDirectivesPerLocation n ti rs).1.errs.length = rs.errs.length + fUniqueDirs n := by
  cases n <;> simp [enterRule, fUniqueDirs, RS.errN] <;> omega

/-- **5.7.3 Directives are unique per location** -/
theorem rule_unique_directives_per_location_iff (s : SchemaD) (fx : Fixes) (d : Doc) :
    Silent s fx .uniqueDirectivesPerLocation d ↔ Spec.uniqueDirectivesPerLocation d := by
  have hL := leave_len s fx .uniqueDirectivesPerLocation (by decide)
  rw [silent_iff_nodes s fx .uniqueDirectivesPerLocation fUniqueDirs d
    (cf_of s fx _ _ (fun n ti rs _ => uniqueDirs_enter s fx n ti rs) hL) (by intro ti rs; simp [enterRule]) rfl hL]
  unfold Spec.uniqueDirectivesPerLocation
  constructor
  · intro h n hn dirs e
    have := h n hn
    cases n <;> simp only [Spec.uniqueDirectivesPerLocation.Node.dirsOf?, Option.some.injEq, reduceCtorEq] at e <;>
      subst e <;> simpa [fUniqueDirs, dupCount_nil_zero_iff] using this
  · intro h n hn
    cases n <;> simp only [fUniqueDirs, dupCount_nil_zero_iff] <;>
      exact h _ hn _ rfl

/-! `SingleFieldSubscriptionsChecker` (5.2.3.1): `Props/C06_doc.lean` (the rule reads the fragment table collected at the
    document node) -/

def fKnownTypes (s : SchemaD) : Node → Nat
  | .typeNode t => if (typeFromAst s t).isNone then 1 else 0
  | _ => 0

private theorem knownTypes_enter (s : SchemaD) (fx : Fixes) (n : Node) (ti : TI) (rs : RS) :
    (enterRule s fx .knownTypeNames n ti rs).2 = false ∧
    (enterRule s fx .knownTypeNames n ti rs).1.errs.length = rs.errs.length + fKnownTypes s n := by
  cases n <;> simp [enterRule, fKnownTypes, RS.err]
  split <;> simp

/-- **type existence** (the types of variable definitions; type conditions are never entered: ledger V1) -/
theorem rule_known_type_names_iff (s : SchemaD) (fx : Fixes) (d : Doc) :
    Silent s fx .knownTypeNames d ↔ Spec.knownTypeNames s d := by
  have hL := leave_len s fx .knownTypeNames (by decide)
  rw [silent_iff_nodes s fx .knownTypeNames (fKnownTypes s) d
    (cf_of s fx _ _ (fun n ti rs _ => knownTypes_enter s fx n ti rs) hL) (by intro ti rs; simp [enterRule]) rfl hL]
  unfold Spec.knownTypeNames
  constructor
  · intro h n hn t e
    have := h n hn; subst e
    simp only [fKnownTypes, typeFromAst] at this
    cases hh : (s.findType t.base).isSome <;> simp_all
  · intro h n hn
    cases n <;> simp only [fKnownTypes]
    rename_i t
    have := h _ hn t rfl
    simp [typeFromAst, this]

def fVarInput (s : SchemaD) : Node → Nat
  | .varDef v => match typeFromAst s v.type with
    | none => 1
    | some t => if isInputTy s t then 0 else 1
  | _ => 0

private theorem varInput_enter (s : SchemaD) (fx : Fixes) (n : Node) (ti : TI) (rs : RS) :
    (enterRule s fx .variablesAreInputTypes n ti rs).2 = false ∧
    (enterRule s fx .variablesAreInputTypes n ti rs).1.errs.length = rs.errs.length + fVarInput s n := by
  cases n <;> simp [enterRule, fVarInput, RS.err]
  split
  · simp_all
  · split <;> simp_all

/-- **5.8.2 Variables are input types** -/
theorem rule_variables_are_input_types_iff (s : SchemaD) (fx : Fixes) (d : Doc) :
    Silent s fx .variablesAreInputTypes d ↔ Spec.variablesAreInputTypes s d := by
  have hL := leave_len s fx .variablesAreInputTypes (by decide)
  rw [silent_iff_nodes s fx .variablesAreInputTypes (fVarInput s) d
    (cf_of s fx _ _ (fun n ti rs _ => varInput_enter s fx n ti rs) hL) (by intro ti rs; simp [enterRule]) rfl hL]
  unfold Spec.variablesAreInputTypes
  constructor
  · intro h n hn v e
    have := h n hn; subst e
    simp only [fVarInput] at this
    split at this
    · simp at this
    · rename_i t ht; exact ⟨t, ht, by simpa using this⟩
  · intro h n hn
    cases n <;> simp only [fVarInput]
    rename_i v
    obtain ⟨t, ht, hi⟩ := h _ hn v rfl
    simp [ht, hi]


/-! ### invariance under reordering of definitions: proved on the node enumeration (order-free) and
    transported through the equivalences above -/

private theorem mem_nodes_iff (d : Doc) (n : Node) :
    n ∈ nodes d ↔ n = .document d ∨ ∃ x ∈ d.defs, n ∈ defNodes x := by
  simp [nodes, List.mem_flatMap]

private theorem forall_nodes_perm (P : Node → Prop) (hP : ∀ d, P (.document d)) {d d' : Doc}
    (h : d.defs.Perm d'.defs) : (∀ n ∈ nodes d, P n) ↔ (∀ n ∈ nodes d', P n) := by
  simp only [mem_nodes_iff]
  constructor
  · intro H n hn
    rcases hn with rfl | ⟨x, hx, hm⟩
    · exact hP _
    · exact H n (Or.inr ⟨x, h.mem_iff.mpr hx, hm⟩)
  · intro H n hn
    rcases hn with rfl | ⟨x, hx, hm⟩
    · exact hP _
    · exact H n (Or.inr ⟨x, h.mem_iff.mp hx, hm⟩)

/-! non-vacuity -/
example : Spec.uniqueArgumentNames ⟨[.op "query" none [] [] 0 [.field none "a" [⟨"x", .int "1"⟩, ⟨"y", .int "2"⟩] [] false 0 []]]⟩ := by
  unfold Spec.uniqueArgumentNames
  constructor <;> intro n hn <;> simp [nodes, defNodes, selsNodes, selNodes, argsNodes, argNodes, dirsNodes, valueNodes] at hn <;>
    rcases hn with rfl | rfl | rfl | rfl | rfl | rfl | rfl | rfl <;> simp <;> (intros; subst_vars; decide)
example : ¬ Spec.uniqueArgumentNames ⟨[.op "query" none [] [] 0 [.field none "a" [⟨"x", .int "1"⟩, ⟨"x", .int "2"⟩] [] false 0 []]]⟩ := by
  unfold Spec.uniqueArgumentNames
  intro h
  have := h.1 (.field "a" [⟨"x", .int "1"⟩, ⟨"x", .int "2"⟩] [] false)
    (by simp [nodes, defNodes, selsNodes, selNodes]) "a" _ [] false rfl
  simp at this

end PyGql.Props.C06

/-
  C06 - property theorems, part 24: THE FUNCTION OF THE MEMO THEOREMS IS THE CHAIN THE DRIVER RUNS.

  The theorems about the memoised overlap rule (`Props/C06_overlap_memo*.lean`, `C06_head_memo.lean`) are stated about
  `overlapMemoRun` (the memoised search folded over the typed enumeration of the document). The model that is COMPARED
  with the real validator is the chain `runM` (`Validate/ChainPar.lean`: `ChainedVisitor` + `TypeInfoVisitor` with the
  memoised search inside). `runM_alone_eq`: run with the overlap rule alone - the configuration in which the rule's
  theorems are stated, `default_validator(validators=[OverlappingFieldsCanBeMergedChecker])` on the real side - the
  chain returns exactly the error count of `overlapMemoRun`, and never a crash, on every document with pairwise
  distinct selection-set identities. (Proof: the generic typed relational walk ported to the parametrised chain,
  `Lemmas/ValidateTypedRPar.lean`; the rule state advances by one `find_conflicts_within_selection_set` per selection
  set, under `TypeInfoVisitor.parent_type` = the static view; termination keeps the exception flag unset.)
-/
import PyGqlModel.Props.C06_overlap_memo_complete
import PyGqlModel.Lemmas.ValidateOverlapMemoChain
import PyGqlModel.Lemmas.ValidateChainParEq
namespace PyGql.Props.C06
open PyGql PyGql.Validate PyGql.Validate.Spec

private theorem countOf_replicate_append (errs : List Rule) (r : Rule) :
    ∀ n, countOf (List.replicate n r ++ errs) r = n + countOf errs r
  | 0 => by simp [countOf]
  | n + 1 => by
    have ih := countOf_replicate_append errs r n
    simp only [countOf, List.replicate_succ, List.cons_append, List.filter_cons, beq_self_eq_true, ↓reduceIte,
      List.length_cons] at ih ⊢
    omega

/-- the step function of `overlapMemoRun` -/
def memoFoldFn (s : SchemaD) (fx : Fixes) (d : Doc) (acc : Nat × OCtx) (p : Node × View) : Nat × OCtx :=
  match p.1 with
  | .selectionSet i sels =>
    if acc.2.crash.isSome then acc else
    let r := withinSelectionSetM s fx (memoFuel d) p.2.parent i sels acc.2
    (acc.1 + r.1, r.2)
  | _ => acc

theorem overlapMemoRun_fold (s : SchemaD) (fx : Fixes) (d : Doc) :
    overlapMemoRun s fx d = (typedNodes s d).foldl (memoFoldFn s fx d) (0, ({ frags := fragTable d } : OCtx)) := rfl

private theorem advance_memo (s : SchemaD) (fx : Fixes) (h7 : fx.v7 = true) (d : Doc) (hw : WfIds d) :
    ∀ (l : List (Node × View)), (∀ q ∈ l, q ∈ typedNodes s d) → ∀ rs : RS, rs.crash = none → rs.octx.crash = none →
      rs.octx.frags = fragTable d →
      (advance s fx (memoFuel d) l rs).crash = none ∧ (advance s fx (memoFuel d) l rs).octx.crash = none ∧
      l.foldl (memoFoldFn s fx d) (countOf rs.errs ovRule, rs.octx) =
        (countOf (advance s fx (memoFuel d) l rs).errs ovRule, (advance s fx (memoFuel d) l rs).octx) := by
  have hR := rankSyn_of_check s d _ _ (rankSynB_of_wfIds s d hw)
  intro l
  induction l with
  | nil => intro _ rs h1 h2 _; exact ⟨h1, h2, rfl⟩
  | cons q l ih =>
    intro hm rs h1 h2 h3
    have hq := hm q (List.mem_cons_self ..)
    have hl : ∀ p ∈ l, p ∈ typedNodes s d := fun p hp => hm p (List.mem_cons_of_mem _ hp)
    obtain ⟨n, v⟩ := q
    cases n with
    | selectionSet i sels =>
      have hs := selSet_of_typed hq
      have g := withinM_terminates s fx d _ _ hR h7 (memoFuel d) (Nat.le_refl _) v.parent i sels rs.octx h3 hs
      have hcr : (withinSelectionSetM s fx (memoFuel d) v.parent i sels rs.octx).2.crash = none := by
        rw [g.2.2.2]; exact h2
      have hstep : stepRS s fx (memoFuel d) (Node.selectionSet i sels, v) rs =
          ({ rs with octx := (withinSelectionSetM s fx (memoFuel d) v.parent i sels rs.octx).2 }).errN ovRule
            (withinSelectionSetM s fx (memoFuel d) v.parent i sels rs.octx).1 := by
        simp only [stepRS, stepSel, hcr]
      have hf : memoFoldFn s fx d (countOf rs.errs ovRule, rs.octx) (Node.selectionSet i sels, v) =
          (countOf rs.errs ovRule + (withinSelectionSetM s fx (memoFuel d) v.parent i sels rs.octx).1,
           (withinSelectionSetM s fx (memoFuel d) v.parent i sels rs.octx).2) := by
        simp only [memoFoldFn, h2, Option.isSome_none, Bool.false_eq_true, ↓reduceIte]
      simp only [advance, List.foldl_cons] at ih ⊢
      rw [hstep, hf]
      have := ih hl (({ rs with octx := (withinSelectionSetM s fx (memoFuel d) v.parent i sels rs.octx).2 }).errN ovRule
        (withinSelectionSetM s fx (memoFuel d) v.parent i sels rs.octx).1) h1 hcr (g.1.trans h3)
      simp only [RS.errN, countOf_replicate_append] at this ⊢
      rw [Nat.add_comm]
      exact this
    | _ =>
      simp only [advance, List.foldl_cons] at ih ⊢
      exact ih hl rs h1 h2 h3

/-- the rule state after the chain with the memoised search, overlap rule alone -/
theorem visitDocumentPar_ov (s : SchemaD) (fx : Fixes) (fuel : Nat) (d : Doc) :
    (visitDocumentPar (enterRuleM fuel) ⟨s, fx, [ovRule]⟩ d {}).rs =
      advance s fx fuel (typedNodes s d) { ({} : RS) with octx := { ({} : OCtx) with frags := fragTable d } } := by
  have he : enterPar (enterRuleM fuel) ⟨s, fx, [ovRule]⟩ (.document d) {} =
      (({ ti := {}, rs := { ({} : RS) with octx := { ({} : OCtx) with frags := fragTable d } } } : St), false) := by
    rw [enterPar_ov]; simp [enterRuleM, enterRule, tiEnter, fragTable]
  rw [visitDocumentPar, visitNodePar_false (by rw [he]), leavePar_ov, he]
  have hw := visitDefsRP (om_alg s fx fuel) d.defs
    ({ ti := {}, rs := { ({} : RS) with octx := { ({} : OCtx) with frags := fragTable d } } } : St) rfl
  exact hw.2

/-- **the chain with the memoised search, run with the overlap rule alone, IS `overlapMemoRun`**: same number of errors,
    and no crash, on every document with pairwise distinct selection-set identities -/
theorem runM_alone_eq (s : SchemaD) (fx : Fixes) (h7 : fx.v7 = true) (d : Doc) (hw : WfIds d) :
    runM (memoFuel d) ⟨s, fx, [ovRule]⟩ d = .errors [(ovRule, (overlapMemoRun s fx d).1)] := by
  have hrs := visitDocumentPar_ov s fx (memoFuel d) d
  obtain ⟨a1, _, a3⟩ := advance_memo s fx h7 d hw (typedNodes s d) (fun _ h => h)
    { ({} : RS) with octx := { ({} : OCtx) with frags := fragTable d } } rfl rfl rfl
  unfold runM
  simp only [hrs, a1, List.map_cons, List.map_nil]
  rw [overlapMemoRun_fold]
  have : countOf ({ ({} : RS) with octx := { ({} : OCtx) with frags := fragTable d } } : RS).errs ovRule = 0 := rfl
  rw [this] at a3
  rw [a3]

/-- **the parametrised chain is the chain of the theorems** when given the rules' own enter function: the only
    difference between the model the driver runs (`runM`) and the chain the per-rule theorems are stated about (`run`) is
    the overlap rule's search -/
theorem chain_par_is_chain (c : Cfg) (d : Doc) : visitDocumentPar enterRule c d {} = visitDocument c d {} :=
  visitDocumentPar_eq c d {}

end PyGql.Props.C06

/-
  C18 — `balanced`, strict form (audit F5): an unmatched `enter` is TIED to a deletion or a skip, a kept / replaced node IS left.

  `Forest.lone` (Props/C18.lean) admits an unmatched `enter n` for any node: a trace in which every enter is unmatched
  satisfies `Forest`. Here the forest is indexed by the visitor:

  * `ForestV.lone n` carries `Drops v n`: in the state the visit had reached, `enter n` returned `None` or raised `SkipNode`;
  * `ForestV.wrap n n2` carries `Keeps v n`: in that state `enter n` returned a node (the same object or a replacement);

  and `balanced_strict` proves it for every identity-preserving visitor: the only way an `enter` stays without `leave` is that
  `enter` deleted or skipped that very node, and every node that `enter` kept or replaced is left. `ForestV.forest` recovers
  the old statement.
-/
import PyGqlModel.Props.C18

set_option linter.unusedVariables false

namespace PyGql.Props.C18
open PyGql.Visit

variable {σ : Type}

/-- for SOME state (the proof provides the state of the visit at that point) `enter n` returned `None` / raised `SkipNode` -/
def Drops (v : Visitor σ) (n : Node) : Prop :=
  ∃ s, match (v.enter n s).1 with
    | .delete => True
    | .skip _ => True
    | _ => False

/-- for some state `enter n` returned a node (kept or replaced) -/
def Keeps (v : Visitor σ) (n : Node) : Prop :=
  ∃ s, match (v.enter n s).1 with
    | .keep _ => True
    | .replace _ => True
    | _ => False

/-- well-bracketed call sequences of the visitor `v` -/
inductive ForestV (v : Visitor σ) : List Ev → Prop
  | nil : ForestV v []
  | lone (n : Node) (rest : List Ev) : Drops v n → ForestV v rest → ForestV v (⟨true, n⟩ :: rest)
  | wrap (n n2 : Node) (body rest : List Ev) : Keeps v n → n2.id = n.id → n2.kind = n.kind →
      ForestV v body → ForestV v rest → ForestV v (⟨true, n⟩ :: body ++ ⟨false, n2⟩ :: rest)

/-- the strict forest is a forest -/
theorem ForestV.forest {v : Visitor σ} {tr : List Ev} (h : ForestV v tr) : Forest tr := by
  induction h with
  | nil => exact .nil
  | lone n rest _ _ ih => exact .lone n rest ih
  | wrap n n2 body rest _ h1 h2 _ _ ihb ihr => exact .wrap n n2 body rest h1 h2 ihb ihr

def BracketV (v : Visitor σ) (c : Node) (o : Out σ) : Prop :=
  (o.tr = [⟨true, c⟩] ∧ Drops v c) ∨
  ∃ body n2, o.tr = ⟨true, c⟩ :: body ++ [⟨false, n2⟩] ∧ o.ret = some n2 ∧ n2.id = c.id ∧ n2.kind = c.kind ∧
    ForestV v body ∧ Keeps v c

private theorem BracketV.forest {v : Visitor σ} {c : Node} {o : Out σ} (h : BracketV v c o) : ForestV v o.tr := by
  rcases h with ⟨h, hd⟩ | ⟨body, n2, h, _, h1, h2, hb, hk⟩
  · rw [h]; exact ForestV.lone c [] hd ForestV.nil
  · rw [h]; exact ForestV.wrap c n2 body [] hk h1 h2 hb ForestV.nil

private theorem setAttr_id (n : Node) (a : String) (x : Attr) : (n.setAttr a x).id = n.id ∧ (n.setAttr a x).kind = n.kind := by
  simp [Node.setAttr, Node.id, Node.kind]

theorem ForestV.append {v : Visitor σ} {a b : List Ev} (ha : ForestV v a) (hb : ForestV v b) : ForestV v (a ++ b) := by
  induction ha with
  | nil => simpa using hb
  | lone n rest hd _ ih => exact ForestV.lone n _ hd ih
  | wrap n n2 body rest hk h1 h2 hbody _ _ ih =>
    have := ForestV.wrap n n2 body (rest ++ b) hk h1 h2 hbody ih
    simpa [List.append_assoc] using this


private def BalFV (v : Visitor σ) (f : Node → σ → Res (Out σ)) : Prop := ∀ c s o, f c s = .ok o → ForestV v o.tr

private theorem visitList_balV {v : Visitor σ} {f : Node → σ → Res (Out σ)} (hf : BalFV v f) :
    ∀ cs s r ip s' tr, visitList f cs s = .ok (r, ip, s', tr) → ForestV v tr := by
  intro cs
  induction cs with
  | nil => intro s r ip s' tr h; simp [visitList] at h; rw [h.2.2.2]; exact ForestV.nil
  | cons c cs ih =>
    intro s r ip s' tr h
    simp only [visitList] at h
    cases hc : f c s with
    | err e => simp [hc] at h
    | fuel => simp [hc] at h
    | ok o =>
      simp only [hc] at h
      cases hr : visitList f cs o.st with
      | err e => simp [hr] at h
      | fuel => simp [hr] at h
      | ok q =>
        obtain ⟨r1, ip1, s1, tr1⟩ := q
        simp only [hr, Res.ok.injEq, Prod.mk.injEq] at h
        rw [← h.2.2.2]
        exact ForestV.append (hf c s o hc) (ih _ _ _ _ _ hr)

private theorem runStep_balV {v : Visitor σ} {call : Target → Node → σ → Res (Out σ)} (hc : ∀ t, BalFV v (call t))
    (st : Step) (n : Node) (s : σ) (n' : Node) (s' : σ) (tr : List Ev)
    (h : runStep call st n s = .ok (n', s', tr)) : ForestV v tr ∧ n'.id = n.id ∧ n'.kind = n.kind := by
  unfold runStep at h
  split at h
  · simp at h; rw [h.2.2, ← h.1]; exact ⟨ForestV.nil, rfl, rfl⟩
  · split at h
    · simp at h
    · rename_i a ha
      split at h
      · split at h <;> simp at h
        rw [h.2.2, ← h.1]; exact ⟨ForestV.nil, rfl, rfl⟩
      · rename_i c
        split at h
        · simp at h
        · simp at h
        · rename_i o ho
          simp only [Res.ok.injEq, Prod.mk.injEq] at h
          rw [← h.1, ← h.2.2]
          exact ⟨hc _ _ _ _ ho, setAttr_id _ _ _⟩
      · rename_i cs
        split at h
        · simp at h
        · simp at h
        · rename_i r ip s1 tr1 hl
          simp only [Res.ok.injEq, Prod.mk.injEq] at h
          rw [← h.1, ← h.2.2]
          exact ⟨visitList_balV (hc _) _ _ _ _ _ _ hl, setAttr_id _ _ _⟩
      · simp at h

private theorem runSteps_balV {v : Visitor σ} {call : Target → Node → σ → Res (Out σ)} (hc : ∀ t, BalFV v (call t)) :
    ∀ (steps : List Step) (n : Node) (s : σ) (n' : Node) (s' : σ) (tr : List Ev),
      runSteps call steps n s = .ok (n', s', tr) → ForestV v tr ∧ n'.id = n.id ∧ n'.kind = n.kind := by
  intro steps
  induction steps with
  | nil => intro n s n' s' tr h; simp [runSteps] at h; rw [h.2.2, ← h.1]; exact ⟨ForestV.nil, rfl, rfl⟩
  | cons st rest ih =>
    intro n s n' s' tr h
    simp only [runSteps] at h
    cases h1 : runStep call st n s with
    | err e => simp [h1] at h
    | fuel => simp [h1] at h
    | ok q =>
      obtain ⟨n1, s1, tr1⟩ := q
      simp only [h1] at h
      cases h2 : runSteps call rest n1 s1 with
      | err e => simp [h2] at h
      | fuel => simp [h2] at h
      | ok q2 =>
        obtain ⟨n2, s2, tr2⟩ := q2
        simp only [h2, Res.ok.injEq, Prod.mk.injEq] at h
        have ⟨f1, i1, k1⟩ := runStep_balV hc _ _ _ _ _ _ h1
        have ⟨f2, i2, k2⟩ := ih _ _ _ _ _ h2
        rw [← h.1, ← h.2.2]
        exact ⟨ForestV.append f1 f2, by rw [i2, i1], by rw [k2, k1]⟩

private theorem callTarget_balV (T : Table) (v : Visitor σ) (rec : String → Node → σ → Res (Out σ)) (h : ∀ m, BalFV v (rec m)) :
    ∀ t, BalFV v (callTarget T rec t) := by
  intro t c s o ho
  unfold callTarget at ho
  split at ho
  · exact h _ c s o ho
  · simp at ho

private theorem visitM_bracketV (T : Table) (v : Visitor σ) (hv : IdPreserving v) :
    ∀ fuel m c s o, visitM T v fuel m c s = .ok o → BracketV v c o := by
  intro fuel
  induction fuel with
  | zero => intro m c s o h; simp [visitM] at h
  | succ fuel ih =>
    intro m c s o h
    have hp := hv c s
    rcases hes : v.enter c s with ⟨act, s1⟩
    rw [hes] at hp
    have hrec : ∀ t, BalFV v (callTarget T (visitM T v fuel) t) :=
      callTarget_balV T v _ (fun m c s o h => (ih m c s o h).forest)
    cases act with
    | raise e => simp [visitM, hes] at h
    | skip n' => simp only [visitM, hes, Res.ok.injEq] at h; subst h; exact Or.inl ⟨rfl, s, by simp [Drops, hes]⟩
    | delete => simp only [visitM, hes, Res.ok.injEq] at h; subst h; exact Or.inl ⟨rfl, s, by simp [Drops, hes]⟩
    | keep n1 =>
      simp only at hp
      simp only [visitM, hes, bodyMethod_of_kind_eq T _ c n1 hp.2] at h
      split at h
      · simp at h
      · split at h
        · simp at h
        · simp at h
        · rename_i n2 s2 tr hr
          have ⟨f, i, k⟩ := runSteps_balV hrec _ _ _ _ _ _ hr
          simp only [Res.ok.injEq] at h
          subst h
          exact Or.inr ⟨tr, n2, rfl, rfl, by rw [i, hp.1], by rw [k, hp.2], f, s, by simp [Keeps, hes]⟩
    | replace n1 =>
      simp only at hp
      simp only [visitM, hes, bodyMethod_of_kind_eq T _ c n1 hp.2] at h
      split at h
      · simp at h
      · split at h
        · simp at h
        · simp at h
        · rename_i n2 s2 tr hr
          have ⟨f, i, k⟩ := runSteps_balV hrec _ _ _ _ _ _ hr
          simp only [Res.ok.injEq] at h
          subst h
          exact Or.inr ⟨tr, n2, rfl, rfl, by rw [i, hp.1], by rw [k, hp.2], f, s, by simp [Keeps, hes]⟩


/-- **balanced_strict** — every identity-preserving visitor, whatever its state: the calls of a completed visit form a
    forest in which an `enter` WITHOUT `leave` occurs only for a node that `enter` deleted (`None`) or skipped (`SkipNode`) in
    the state the visit had reached, and every node that `enter` kept or replaced is LEFT (by the `leave` of the same node:
    identity and kind), parents around children. -/
theorem balanced_strict (T : Table) (v : Visitor σ) (hv : IdPreserving v) (fuel : Nat) (t : Node) (s : σ) (o : Out σ)
    (h : visit T v fuel t s = .ok o) : BracketV v t o ∧ ForestV v o.tr := by
  unfold visit at h
  split at h
  · simp at h
  · have := visitM_bracketV T v hv fuel _ t s o h
    exact ⟨this, this.forest⟩

/-- a visitor that never deletes nor skips leaves every node it enters: no `lone` can occur -/
theorem never_drops_no_lone (v : Visitor σ) (hnd : ∀ n, ¬ Drops v n) : ∀ (tr : List Ev), ForestV v tr →
    (tr.filter (·.enter)).length = (tr.filter (fun e => !e.enter)).length := by
  intro tr h
  induction h with
  | nil => rfl
  | lone n rest hd _ _ => exact absurd hd (hnd n)
  | wrap n n2 body rest _ _ _ _ _ ihb ihr =>
    simp only [List.filter_cons, List.filter_append, List.length_append, List.length_cons, Bool.not_true, Bool.not_false,
      if_true, Bool.false_eq_true, if_false] at ihb ihr ⊢
    omega

/-- non-vacuity: observers never drop -/
example (v : Visitor σ) (hv : Observer v) : ∀ n, ¬ Drops v n := by
  intro n ⟨s, hs⟩
  rw [hv n s] at hs
  exact hs

end PyGql.Props.C18

/-
  C02, last clause — "the spanned text parses back to an equal node" — at CHARACTER level.

  `lex_slice`            the lexer slice lemma: the characters from the start of a token to the end of a later token lex
                         to exactly the tokens in between, moved down by the start offset (plus `<SOF>`/`<EOF>`).
  `span_reparse_value`   `parse_value(s) = v`: for EVERY value node `w` of `v` (list items, object field values, at any
                         depth, `v` itself), `parse_value(s[a:b]) = w` moved down by `a`, where `(a, b) = w.loc`.
  `span_reparse_type`    the same for `parse_type` and every nested type.
  "Equal modulo offset" is `mapLoc (locDown a)`: the same tree with every span moved `a` characters to the left.
-/
import PyGqlModel.Props.C01_text
import PyGqlModel.Lemmas.SpanSlice
import PyGqlModel.Lemmas.SpanShift
namespace PyGql.Props.C02
open PyGql PyGql.Ast PyGql.Parse PyGql.Spec PyGql.Props.C01
open PyGql.Spec.Lexical (Tiles slice eofT)

/-- `lex_slice`: if the lexer accepts `s` with tokens `pre ++ (f :: tl) ++ post` (`pre` holds at least `<SOF>`, `post` at
    least `<EOF>`), then it accepts the characters `s[f.start : last.stop]` (`last` = last token of `f :: tl`) and returns
    `<SOF>`, the tokens `f :: tl` moved down by `f.start` — same kinds, same decoded values — and `<EOF>`. -/
theorem lex_slice (s : Text) (pre : List Tok) (f : Tok) (tl post : List Tok) (hpre : pre ≠ []) (hpost : post ≠ [])
    (h : Lex.lexAll s = .ok (pre ++ (f :: tl) ++ post)) :
    Lex.lexAll (slice s f.start ((f :: tl).getLast?.getD f).stop) =
      .ok (Lex.sofTok :: ((f :: tl).map (Tok.down f.start) ++ [Lex.eofTok (((f :: tl).getLast?.getD f).stop - f.start)])) := by
  obtain ⟨body, e, ht⟩ := (lexAll_ok_iff s _).mp h
  cases pre with
  | nil => exact absurd rfl hpre
  | cons p0 pre' =>
    simp only [List.cons_append, List.cons.injEq] at e
    obtain ⟨_, rfl⟩ := e
    obtain ⟨h1, h2, h3⟩ := Tiles.slice pre' f tl post hpost (by simpa using ht)
    apply (lexAll_ok_iff _ _).mpr
    refine ⟨_, rfl, ?_⟩
    rw [Spec.slice_length h1 h2]
    exact h3

/-- character-level `span_reparse` for `parse_value`: every value node of the result, at any depth, is what
    `parse_value` returns for the text inside its span (modulo the offset), under the same flags. -/
theorem span_reparse_value (fl : Flags) (s : Text) (v : Value) (h : parseValueText fl s = some v) :
    ∀ w ∈ v.subs, ∀ a b, w.loc = some (a, b) →
      a ≤ b ∧ b ≤ s.length ∧ parseValueText fl (slice s a b) = some (w.mapLoc (locDown a)) := by
  intro w hw a b hloc
  unfold parseValueText at h
  split at h
  · rename_i toks hl
    have hp : parseValue fl toks = .ok v := by
      cases hh : parseValue fl toks with
      | ok v' => rw [hh] at h; simp [Except.toOption] at h; rw [h]
      | error e => rw [hh] at h; simp [Except.toOption] at h
    obtain ⟨wf, hm⟩ := parseValue_sound fl toks v hp
    obtain ⟨l', hm⟩ := (matches_iff _ _ _).1 hm
    obtain ⟨body, rfl, ht⟩ := (lexAll_ok_iff s toks).mp hl
    obtain ⟨hsub, hwf⟩ := subs_value_sub false v w hw
    obtain ⟨is, hnode⟩ := valueV_node w
    rw [hloc] at hnode
    obtain ⟨h1, h2, _, seg, htl, hc⟩ := item_slice fl s body ht [valueV v] default l' hm (i := valueV v) (j := valueV w)
      (by simp) hsub (valueV_solid w) is a b hnode
    refine ⟨h1, h2, ?_⟩
    have hlex : Lex.lexAll (slice s a b) = .ok (Lex.sofTok :: (seg ++ [eofT (b - a)])) := by
      apply (lexAll_ok_iff _ _).mpr
      exact ⟨_, rfl, by rw [Spec.slice_length h1 h2]; exact htl⟩
    rw [← valueV_down] at hc
    have hpc := parseValue_complete fl _ (w.mapLoc (locDown a)) (by rw [wfValue_mapLoc]; exact hwf wf)
      ((matches_iff _ _ _).2 ⟨_, hc⟩)
    unfold parseValueText
    rw [hlex]; simp only [hpc]; rfl
  · cases h

/-- character-level `span_reparse` for `parse_type`: every nested type is what `parse_type` returns for the text inside
    its span (modulo the offset). -/
theorem span_reparse_type (fl : Flags) (s : Text) (t : TypeRef) (h : parseTypeText fl s = some t) :
    ∀ w ∈ t.subs, ∀ a b, w.loc = some (a, b) →
      a ≤ b ∧ b ≤ s.length ∧ parseTypeText fl (slice s a b) = some (w.mapLoc (locDown a)) := by
  intro w hw a b hloc
  unfold parseTypeText at h
  split at h
  · rename_i toks hl
    have hp : parseType fl toks = .ok t := by
      cases hh : parseType fl toks with
      | ok v' => rw [hh] at h; simp [Except.toOption] at h; rw [h]
      | error e => rw [hh] at h; simp [Except.toOption] at h
    obtain ⟨wf, hm⟩ := parseType_sound fl toks t hp
    obtain ⟨l', hm⟩ := (matches_iff _ _ _).1 hm
    obtain ⟨body, rfl, ht⟩ := (lexAll_ok_iff s toks).mp hl
    obtain ⟨hsub, hwf⟩ := subs_type_sub t w hw
    obtain ⟨is, hnode⟩ := typeV_node w
    rw [hloc] at hnode
    obtain ⟨h1, h2, _, seg, htl, hc⟩ := item_slice fl s body ht [typeV t] default l' hm (i := typeV t) (j := typeV w)
      (by simp) hsub (typeV_solid w) is a b hnode
    refine ⟨h1, h2, ?_⟩
    have hlex : Lex.lexAll (slice s a b) = .ok (Lex.sofTok :: (seg ++ [eofT (b - a)])) := by
      apply (lexAll_ok_iff _ _).mpr
      exact ⟨_, rfl, by rw [Spec.slice_length h1 h2]; exact htl⟩
    rw [← typeV_down] at hc
    have hpc := parseType_complete fl _ (w.mapLoc (locDown a)) (by rw [wfType_mapLoc]; exact hwf wf)
      ((matches_iff _ _ _).2 ⟨_, hc⟩)
    unfold parseTypeText
    rw [hlex]; simp only [hpc]; rfl
  · cases h

/-! ### non-vacuity: ` [1 [a]]` and `[A!]!` -/
private def txt : Text := [32, 91, 49, 32, 91, 97, 93, 93]

/-- the list (1,8), `1` (2,3), `[a]` (4,7), `a` (5,6) -/
example : ((parseValueText {} txt).map (fun v => v.subs.map Value.loc)) =
    some [some (1, 8), some (2, 3), some (4, 7), some (5, 6)] := by decide
/-- the text of the inner list, `[a]`, parses to the inner list at offset 0 -/
example : (parseValueText {} (slice txt 4 7)).map (fun v => v.subs.map Value.loc) = some [some (0, 3), some (1, 2)] := by
  decide
example : (parseTypeText {} [91, 65, 33, 93, 33]).map (fun t => t.subs.map TypeRef.loc) =
    some [some (0, 5), some (0, 4), some (1, 3), some (1, 2)] := by decide

end PyGql.Props.C02

/-
  C06 - property theorems, part 2: rules with document-level behaviour
  (`ExecutableDefinitionsChecker`, `LoneAnonymousOperationChecker` raise `SkipNode` at the document;
  `KnownFragmentNamesChecker` collects the fragment names at the document and uses them below).
-/
import PyGqlModel.Props.C06
import PyGqlModel.Lemmas.ValidateWalkI
namespace PyGql.Props.C06
open PyGql PyGql.Validate PyGql.Validate.Spec

theorem enterRules_one (c : Cfg) (n : Node) (ti : TI) (r : Rule) (rs : RS) :
    enterRules c n ti [r] rs = enterRule c.schema c.fixes r n ti rs := by
  simp only [enterRules]
  generalize enterRule c.schema c.fixes r n ti rs = p
  obtain ⟨a, b⟩ := p
  cases b <;> simp

theorem visitNode_skip_single (s : SchemaD) (fx : Fixes) (r : Rule) (n : Node) (body : St → St) (st : St)
    (h : (enterRule s fx r n (tiEnter s n st.ti) st.rs).2 = true) :
    visitNode ⟨s, fx, [r]⟩ n body st =
      { ti := tiLeave n (tiEnter s n st.ti), rs := (enterRule s fx r n (tiEnter s n st.ti) st.rs).1 } := by
  have e : enter ⟨s, fx, [r]⟩ n st = ({ ti := tiEnter s n st.ti, rs := (enterRule s fx r n (tiEnter s n st.ti) st.rs).1 },
      (enterRule s fx r n (tiEnter s n st.ti) st.rs).2) := by simp only [enter, enterRules_one]
  have h2 : (enter ⟨s, fx, [r]⟩ n st).2 = true := by rw [e]; exact h
  have := leaveSkipped_enter_single s fx r n st h2
  unfold visitNode
  rw [e] at this ⊢
  simp only [h, ↓reduceIte]
  exact this

/-- single-rule chain: `CFI` from facts about `enterRule` / `leaveRule` under an invariant on the rule state -/
theorem cfi_of (s : SchemaD) (fx : Fixes) (r : Rule) (lvl : Node → Bool) (I : RS → Prop) (f g : Node → Nat)
    (hin : ∀ n, n.isTop = false → lvl n = false)
    (hE : ∀ n ti rs, lvl n = false → I rs → (enterRule s fx r n ti rs).2 = false ∧
      (enterRule s fx r n ti rs).1.errs.length = rs.errs.length + f n ∧ I (enterRule s fx r n ti rs).1)
    (hL : ∀ n ti rs, lvl n = false → I rs → (leaveRule s fx r n ti rs).errs.length = rs.errs.length + g n ∧
      I (leaveRule s fx r n ti rs)) :
    CFI ⟨s, fx, [r]⟩ lvl (fun st => I st.rs) f g where
  inner := hin
  noskip n st hn hi := by simp only [enter, enterRules_one]; exact (hE n _ _ hn hi).1
  enterE n st hn hi := by simp only [enter, enterRules_one, E]; exact (hE n _ _ hn hi).2.1
  enterI n st hn hi := by simp only [enter, enterRules_one]; exact (hE n _ _ hn hi).2.2
  leaveE n st hn hi := by
    simp only [leave, E, List.reverse_cons, List.reverse_nil, List.nil_append, List.foldl_cons, List.foldl_nil]
    exact (hL n _ _ hn hi).1
  leaveI n st hn hi := by
    simp only [leave, List.reverse_cons, List.reverse_nil, List.nil_append, List.foldl_cons, List.foldl_nil]
    exact (hL n _ _ hn hi).2

/-- the document node of a single-rule chain, when the rule does not skip there -/
theorem document_noskip (s : SchemaD) (fx : Fixes) (r : Rule) (d : Doc) {Inv : St → Prop} {f g : Node → Nat}
    (h : CFI ⟨s, fx, [r]⟩ Node.isDoc Inv f g)
    (hs : (enterRule s fx r (.document d) {} {}).2 = false)
    (hi : Inv { ti := {}, rs := (enterRule s fx r (.document d) {} {}).1 }) :
    ∃ st2, Post Inv f g (d.defs.flatMap defNodes) { ti := {}, rs := (enterRule s fx r (.document d) {} {}).1 } st2 ∧
      alone s fx r d = leave ⟨s, fx, [r]⟩ (.document d) st2 := by
  refine ⟨_, visitDefsI h (fun n hn => hn) d.defs _ hi, ?_⟩
  unfold alone
  rw [visitDocument]
  unfold visitNode
  have e : enter ⟨s, fx, [r]⟩ (.document d) {} = ({ ti := {}, rs := (enterRule s fx r (.document d) {} {}).1 },
      (enterRule s fx r (.document d) {} {}).2) := by
    simp only [enter, enterRules_one, tiEnter]
  rw [e, hs]
  rfl

theorem document_skip (s : SchemaD) (fx : Fixes) (r : Rule) (d : Doc)
    (hs : (enterRule s fx r (.document d) {} {}).2 = true) :
    alone s fx r d = { ti := {}, rs := (enterRule s fx r (.document d) {} {}).1 } := by
  unfold alone
  rw [visitDocument, visitNode_skip_single s fx r (.document d) _ {} hs]
  rfl

theorem total_zero (ns : List Node) : total (fun _ => 0) (fun _ => 0) ns = 0 := by
  induction ns with
  | nil => rfl
  | cons a as ih => rw [total_cons, ih]

/-- a rule that does nothing below the document -/
private theorem quiet_cfi (s : SchemaD) (fx : Fixes) (r : Rule)
    (hE : ∀ n ti rs, n.isDoc = false → enterRule s fx r n ti rs = (rs, false))
    (hL : ∀ n ti rs, leaveRule s fx r n ti rs = rs) :
    CFI ⟨s, fx, [r]⟩ Node.isDoc (fun _ => True) (fun _ => 0) (fun _ => 0) :=
  cfi_of s fx r Node.isDoc (fun _ => True) _ _ (fun n hn => by cases n <;> simp_all [Node.isTop, Node.isDoc])
    (fun n ti rs hn _ => by rw [hE n ti rs hn]; simp)
    (fun n ti rs _ _ => by rw [hL]; simp)

theorem leaveRule_id (s : SchemaD) (fx : Fixes) (r : Rule)
    (hr : r ≠ .noUnusedFragments ∧ r ≠ .noFragmentCycles ∧ r ≠ .noUndefinedVariables ∧ r ≠ .noUnusedVariables ∧
      r ≠ .variablesInAllowedPosition ∧ r ≠ .providedRequiredArguments ∧ r ≠ .uniqueVariableNames ∧
      r ≠ .knownDirectives ∧ r ≠ .uniqueInputFieldNames) :
    ∀ n ti rs, leaveRule s fx r n ti rs = rs := by
  intro n ti rs
  obtain ⟨h1, h2, h3, h4, h5, h6, h7, h8, h9⟩ := hr
  unfold leaveRule
  split <;> first | rfl | contradiction

/-- **5.1.1 Executable definitions** -/
theorem rule_executable_definitions_iff (s : SchemaD) (fx : Fixes) (d : Doc) :
    Silent s fx .executableDefinitions d ↔ Spec.executableDefinitions d := by
  have hL := leaveRule_id s fx .executableDefinitions (by decide)
  have hq := quiet_cfi s fx .executableDefinitions
    (fun n ti rs hn => by cases n <;> simp_all [enterRule, Node.isDoc]) hL
  have hspec : Spec.executableDefinitions d ↔ (d.defs.filter fun x => !x.isExecutable).length = 0 := by
    simp [Spec.executableDefinitions, List.filter_eq_nil_iff]
  rw [hspec]
  unfold Silent
  by_cases hk : (d.defs.filter fun x => !x.isExecutable).length = 0
  · obtain ⟨st2, hp, he⟩ := document_noskip s fx .executableDefinitions d hq
      (by simp [enterRule, hk]) trivial
    rw [he]
    simp only [leave, E, List.reverse_cons, List.reverse_nil, List.nil_append, List.foldl_cons, List.foldl_nil, hL]
    have := hp.2
    simp only [E, total_zero] at this
    rw [this]
    simp [enterRule, RS.errN, hk]
  · have hpos : 0 < (d.defs.filter fun x => !x.isExecutable).length := Nat.pos_of_ne_zero hk
    rw [document_skip s fx .executableDefinitions d (by simpa [enterRule] using hpos)]
    simp only [E, enterRule, RS.errN, List.length_append, List.length_replicate]
    constructor
    · intro h; omega
    · intro h; exact absurd h hk

/-- **5.2.2.1 Lone anonymous operation** -/
theorem rule_lone_anonymous_operation_iff (s : SchemaD) (fx : Fixes) (d : Doc) :
    Silent s fx .loneAnonymousOperation d ↔ Spec.loneAnonymousOperation d := by
  have hL := leaveRule_id s fx .loneAnonymousOperation (by decide)
  have hq := quiet_cfi s fx .loneAnonymousOperation
    (fun n ti rs hn => by cases n <;> simp_all [enterRule, Node.isDoc]) hL
  have hanon : (∃ x ∈ d.defs, ∃ k vs ds i ss, x = Def.op k none vs ds i ss) ↔
      ((d.defs.filter (·.isOp)).any (·.isAnonOp)) = true := by
    simp only [List.any_eq_true, List.mem_filter]
    constructor
    · rintro ⟨x, hx, k, vs, ds, i, ss, rfl⟩
      exact ⟨_, ⟨hx, rfl⟩, rfl⟩
    · rintro ⟨x, ⟨hx, _⟩, h⟩
      cases x with
      | op k nm vs ds i ss =>
        cases nm with
        | none => exact ⟨_, hx, k, vs, ds, i, ss, rfl⟩
        | some _ => simp [Def.isAnonOp] at h
      | frag => simp [Def.isAnonOp] at h
      | ts => simp [Def.isAnonOp] at h
  unfold Silent Spec.loneAnonymousOperation Spec.operations
  rw [hanon]
  by_cases hc : (((d.defs.filter (·.isOp)).any (·.isAnonOp)) &&
      decide ((d.defs.filter (·.isOp)).length > 1)) = true
  · rw [document_skip s fx .loneAnonymousOperation d (by simp only [enterRule]; rw [if_pos hc])]
    simp only [enterRule]; rw [if_pos hc]
    simp only [Bool.and_eq_true, decide_eq_true_eq] at hc
    simp only [E, RS.err, List.length_cons]
    constructor
    · intro h; omega
    · intro h; have := h hc.1; omega
  · obtain ⟨st2, hp, he⟩ := document_noskip s fx .loneAnonymousOperation d hq
      (by simp only [enterRule]; rw [if_neg hc]) trivial
    rw [he]
    simp only [leave, E, List.reverse_cons, List.reverse_nil, List.nil_append, List.foldl_cons, List.foldl_nil, hL]
    have := hp.2
    simp only [E, total_zero] at this
    rw [this]
    simp only [enterRule]; rw [if_neg hc]
    simp only [Bool.and_eq_true, decide_eq_true_eq, not_and, Nat.not_lt] at hc
    simp only [Nat.add_zero]
    constructor
    · intro _ h; exact hc h
    · intro _; rfl


theorem total_zero_iff_g0 (f : Node → Nat) (ns : List Node) :
    total f (fun _ => 0) ns = 0 ↔ ∀ n ∈ ns, f n = 0 := by
  induction ns with
  | nil => simp [total]
  | cons a as ih => rw [total_cons]; simp only [Nat.add_zero, List.mem_cons, forall_eq_or_imp, ← ih]; omega

theorem fragDefs_names (d : Doc) : (fragDefs d).map (·.1) = Spec.fragNames d := by
  unfold fragDefs Spec.fragNames
  induction d.defs with
  | nil => rfl
  | cons x xs ih => cases x <;> simp_all [List.filterMap_cons]

def fKnownFrags (K : List String) : Node → Nat
  | .spread name _ => if K.contains name then 0 else 1
  | _ => 0

/-- **5.5.2.1 Fragment spread target defined** -/
theorem rule_known_fragment_names_iff (s : SchemaD) (fx : Fixes) (d : Doc) :
    Silent s fx .knownFragmentNames d ↔ Spec.knownFragmentNames d := by
  have hL := leaveRule_id s fx .knownFragmentNames (by decide)
  have hc : CFI ⟨s, fx, [.knownFragmentNames]⟩ Node.isDoc (fun st => st.rs.knownFrags = Spec.fragNames d)
      (fKnownFrags (Spec.fragNames d)) (fun _ => 0) :=
    cfi_of s fx .knownFragmentNames Node.isDoc (fun rs => rs.knownFrags = Spec.fragNames d) _ _
      (fun n hn => by cases n <;> simp_all [Node.isTop, Node.isDoc])
      (fun n ti rs hn hi => by
        cases n <;> simp_all [enterRule, Node.isDoc, fKnownFrags, RS.err]
        split <;> simp_all)
      (fun n ti rs _ hi => by rw [hL]; exact ⟨rfl, hi⟩)
  obtain ⟨st2, hp, he⟩ := document_noskip s fx .knownFragmentNames d hc (by simp [enterRule])
    (by simp [enterRule, fragDefs_names])
  unfold Silent
  rw [he]
  simp only [leave, E, List.reverse_cons, List.reverse_nil, List.nil_append, List.foldl_cons, List.foldl_nil, hL]
  have := hp.2
  simp only [E] at this
  rw [this]
  have h0 : (enterRule s fx .knownFragmentNames (.document d) {} {}).1.errs.length = 0 := by simp [enterRule]
  rw [h0, Nat.zero_add, total_zero_iff_g0]
  unfold Spec.knownFragmentNames
  simp only [nodes, List.mem_cons, forall_eq_or_imp, reduceCtorEq, false_implies, implies_true, true_and]
  constructor
  · intro h n hn name dirs e
    have := h n hn; subst e
    simp only [fKnownFrags] at this
    split at this
    · rename_i hm; simpa using hm
    · simp at this
  · intro h n hn
    cases n <;> simp only [fKnownFrags]
    rename_i name dirs
    simp [h _ hn name dirs rfl]

def fSingleSub (frs : AL (List Sel)) (fuel : Nat) : Node → Nat
  | .operation kind _ _ _ sels => if kind == "subscription" && (rootKeys frs fuel sels).length != 1 then 1 else 0
  | _ => 0

/-- **5.2.3.1 Single root field**: the collected response keys of a subscription's root selection set (through inline
    fragments and fragment spreads) are exactly one -/
theorem rule_single_field_subscriptions_iff (s : SchemaD) (fx : Fixes) (d : Doc) :
    Silent s fx .singleFieldSubscriptions d ↔ Spec.singleFieldSubscriptions d := by
  have hL := leaveRule_id s fx .singleFieldSubscriptions (by decide)
  have hc : CFI ⟨s, fx, [.singleFieldSubscriptions]⟩ Node.isDoc
      (fun st => st.rs.sfsFrags = sfsTable d ∧ st.rs.sfsFuel = sfsBound d)
      (fSingleSub (sfsTable d) (sfsBound d)) (fun _ => 0) :=
    cfi_of s fx .singleFieldSubscriptions Node.isDoc (fun rs => rs.sfsFrags = sfsTable d ∧ rs.sfsFuel = sfsBound d) _ _
      (fun n hn => by cases n <;> simp_all [Node.isTop, Node.isDoc])
      (fun n ti rs hn hi => by
        cases n <;> simp_all [enterRule, Node.isDoc, fSingleSub, RS.err]
        split <;> simp_all)
      (fun n ti rs _ hi => by rw [hL]; exact ⟨rfl, hi⟩)
  obtain ⟨st2, hp, he⟩ := document_noskip s fx .singleFieldSubscriptions d hc (by simp [enterRule])
    (by simp [enterRule])
  unfold Silent
  rw [he]
  simp only [leave, E, List.reverse_cons, List.reverse_nil, List.nil_append, List.foldl_cons, List.foldl_nil, hL]
  have := hp.2
  simp only [E] at this
  rw [this]
  have h0 : (enterRule s fx .singleFieldSubscriptions (.document d) {} {}).1.errs.length = 0 := by simp [enterRule]
  rw [h0, Nat.zero_add, total_zero_iff_g0]
  unfold Spec.singleFieldSubscriptions
  simp only [nodes, List.mem_cons, forall_eq_or_imp, reduceCtorEq, false_implies, implies_true, true_and]
  constructor
  · intro h n hn name vars dirs sels e
    have := h n hn; subst e
    simpa [fSingleSub] using this
  · intro h n hn
    cases n <;> simp only [fSingleSub]
    rename_i kind name vars dirs sels
    by_cases hk : kind = "subscription"
    · subst hk; have := h _ hn _ _ _ _ rfl; simp [this]
    · simp [hk]

end PyGql.Props.C06

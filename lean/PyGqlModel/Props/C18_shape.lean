/-
  C18 — the success premise `visit … = .ok o` discharged from a SHAPE check.

  Every C18 theorem speaks about a visit that completed. The model's `visit` has error branches (`TypeError` from a
  dispatch miss, `AttributeError`, `ShapeError`, `NoneNode` for an unguarded `None` child, `NoMethod`). Here:

  * `wellShapedM T fuel m t` — a decidable check that reads ONLY shapes (it never builds a trace): the method exists; for every
    statement that applies to the node's kind the attribute is present and holds what the statement expects (one optional
    child / a list; `None` only under a guard); every child's class is resolved by the call target to a method for which the
    child is well-shaped in turn. `WellShaped T t` = the check at the method `visit` registers for the root, fuel `t.depth`;
  * `wellShaped_walk_ok`, `wellShaped_visit_ok` — a well-shaped tree is visited to completion by EVERY visitor that changes
    nothing, from every state: the premise of `identity_noop`, `balanced`, `once`, `coverage_partial`,
    `all_covered_children_visited`, `siblings_in_source_order_today`, … holds;
  * `witnesses_well_shaped` — the documents parsed by the real parser (both dialects, every node kind) pass it.

  PARTIAL (named): there is no Lean encoding `Ast.Document → Visit.Node` with `WellShaped table (encode d)` for every document
  the parser model produces; the link to parser-produced documents is the witnesses here plus, on every run, the driver
  evaluating `WellShaped` on every document of the correspondence (`shape` of the answer to `visit` requests).
-/
import PyGqlModel.VisitShape
import PyGqlModel.Props.C18_identity
import PyGqlModel.Props.C18_total

set_option linter.unusedVariables false

namespace PyGql.Props.C18
open PyGql.Visit PyGql.Generated.VisitTable

/-- **WellShaped** — decidable; computed from the (generated) table and the tree only -/
def WellShaped (T : Table) (t : Node) : Prop := wellShapedAt T t.depth t = true

instance (T : Table) (t : Node) : Decidable (WellShaped T t) := by unfold WellShaped; infer_instance

private def IsOk {α : Type} : Res α → Prop
  | .ok _ => True
  | _ => False

private theorem walkList_ok_of (g : Node → Res (List Ev)) : ∀ cs : List Node, (∀ c ∈ cs, IsOk (g c)) →
    IsOk (Spec.walkList g cs)
  | [], _ => by simp [Spec.walkList, IsOk]
  | c :: cs, h => by
    have h1 := h c (by simp)
    have h2 := walkList_ok_of g cs (fun x hx => h x (by simp [hx]))
    simp only [Spec.walkList]
    cases hg : g c with
    | err e => simp [hg, IsOk] at h1
    | fuel => simp [hg, IsOk] at h1
    | ok t1 =>
      cases hl : Spec.walkList g cs with
      | err e => simp [hl, IsOk] at h2
      | fuel => simp [hl, IsOk] at h2
      | ok t2 => simp [IsOk]

private theorem walkSteps_ok_of (call : Target → Node → Res (List Ev)) (n : Node) : ∀ steps : List Step,
    (∀ st ∈ steps, IsOk (Spec.walkStep call st n)) → IsOk (Spec.walkSteps call steps n)
  | [], _ => by simp [Spec.walkSteps, IsOk]
  | st :: rest, h => by
    have h1 := h st (by simp)
    have h2 := walkSteps_ok_of call n rest (fun x hx => h x (by simp [hx]))
    simp only [Spec.walkSteps]
    cases hg : Spec.walkStep call st n with
    | err e => simp [hg, IsOk] at h1
    | fuel => simp [hg, IsOk] at h1
    | ok t1 =>
      cases hl : Spec.walkSteps call rest n with
      | err e => simp [hl, IsOk] at h2
      | fuel => simp [hl, IsOk] at h2
      | ok t2 => simp [IsOk]

private theorem walkStep_ok_of (T : Table) (rec : String → Node → Bool) (w : String → Node → Res (List Ev))
    (hrec : ∀ m c, rec m c = true → IsOk (w m c)) (st : Step) (n : Node) (h : stepShaped T rec st n = true) :
    IsOk (Spec.walkStep (Spec.walkTarget T w) st n) := by
  have hchild : ∀ c, childShaped T rec st.target c = true → IsOk (Spec.walkTarget T w st.target c) := by
    intro c hc
    unfold childShaped at hc
    unfold Spec.walkTarget
    cases hr : resolve T st.target c.kind with
    | error e => simp [hr] at hc
    | ok m' => simp only [hr] at hc ⊢; exact hrec m' c hc
  unfold stepShaped at h
  unfold Spec.walkStep
  cases ha : st.applies n.kind with
  | false => simp [IsOk]
  | true =>
    simp only [ha, Bool.not_true, Bool.false_or, Bool.false_eq_true, if_false] at h ⊢
    cases hg : n.getAttr st.attr with
    | none => simp [hg] at h
    | some a =>
      simp only [hg] at h ⊢
      cases a with
      | scalar v => cases hs : st.shape <;> simp [hs] at h
      | one oc =>
        cases oc with
        | none =>
          cases hs : st.shape with
          | many => simp [hs] at h
          | one =>
            simp only [hs] at h ⊢
            have : (st.guard == Guard.always) = false := by simpa using h
            simp [this, IsOk]
        | some c =>
          cases hs : st.shape with
          | many => simp [hs] at h
          | one => simp only [hs] at h ⊢; exact hchild c h
      | many cs =>
        cases hs : st.shape with
        | one => simp [hs] at h
        | many =>
          simp only [hs] at h ⊢
          exact walkList_ok_of _ cs (fun c hc => hchild c (List.all_eq_true.1 h c hc))

/-- a well-shaped node is walked to completion (same fuel) -/
theorem wellShaped_walk_ok (T : Table) : ∀ (fuel : Nat) (m : String) (n : Node), wellShapedM T fuel m n = true →
    ∃ tr, Spec.walk T fuel m n = .ok tr := by
  intro fuel
  induction fuel with
  | zero => intro m n h; simp [wellShapedM] at h
  | succ f ih =>
    intro m n h
    simp only [wellShapedM] at h
    simp only [Spec.walk]
    cases hm : T.methods.lookup m with
    | none => simp [hm] at h
    | some steps =>
      simp only [hm] at h ⊢
      have hsteps := walkSteps_ok_of (Spec.walkTarget T (Spec.walk T f)) n steps (fun st hst =>
        walkStep_ok_of T (wellShapedM T f) (Spec.walk T f)
          (fun m' c hc => by obtain ⟨tr, htr⟩ := ih m' c hc; simp [htr, IsOk]) st n (List.all_eq_true.1 h st hst))
      cases hb : Spec.walkSteps (Spec.walkTarget T (Spec.walk T f)) steps n with
      | err e => simp [hb, IsOk] at hsteps
      | fuel => simp [hb, IsOk] at hsteps
      | ok body => exact ⟨_, rfl⟩

/-- **wellShaped_visit_ok** — every table, every visitor that changes nothing, every state: the visit of a well-shaped tree
    COMPLETES (no `TypeError`, `AttributeError`, `ShapeError`, `NoneNode`, and the fuel `t.depth` suffices); it returns the tree
    itself, leaves it untouched in place, and its calls are the walk of the implemented child relation. -/
theorem wellShaped_visit_ok {σ : Type} (T : Table) (v : Visitor σ) (hv : Observer v) (t : Node) (s : σ)
    (h : WellShaped T t) : ∃ o, visit T v t.depth t s = .ok o ∧ o.ret = some t ∧ o.orig = t := by
  unfold WellShaped wellShapedAt at h
  cases hl : T.visit.lookup t.kind with
  | none => simp [hl] at h
  | some m =>
    simp only [hl] at h
    obtain ⟨tr, htr⟩ := wellShaped_walk_ok T t.depth m t h
    have hi : Spec.implEvents T t.depth t = .ok tr := by simp [Spec.implEvents, hl, htr]
    obtain ⟨o, ho, h1, h2, _⟩ := identity_total T v hv t.depth t s tr hi
    exact ⟨o, ho, h1, h2⟩

/-- today's table on the documents parsed by the real parser (both dialects, every node kind, variable definitions with
    defaults and directives, fragment variables, descriptions, extensions of the schema kitchen sink are in the corpus) -/
theorem witnesses_well_shaped : WellShaped table witnessExec ∧ WellShaped table witnessSdl ∧ WellShaped table witnessSmall ∧
    WellShaped table witnessDup := by
  unfold WellShaped
  decide +kernel

/-- the premise of the C18 theorems holds for EVERY observer on the executable witness: nothing is assumed about the visit -/
example {σ : Type} (v : Visitor σ) (hv : Observer v) (s : σ) :
    ∃ o, visit table v witnessExec.depth witnessExec s = .ok o ∧ o.ret = some witnessExec ∧ o.orig = witnessExec :=
  wellShaped_visit_ok table v hv witnessExec s witnesses_well_shaped.1

/-- a node whose list attribute holds a scalar is NOT well-shaped (and its visit raises) -/
example : ¬ WellShaped table (.mk "Document" 0 [("definitions", .scalar "x")]) := by
  unfold WellShaped; decide +kernel

end PyGql.Props.C18

/-
  C19 — the FRONTIER loop of `_nesting_levels` (the code of today's tree, since C19-Q3) measures what the recursive model
  measures. Until now the iterative loop was modelled by the recursion `nestingLevelsG` and the equivalence was only
  exercised by the correspondence (TRUSTED item of corr/C19.py).

  `Depth.nestingLevelsF` (DepthFrontier.lean) is the loop as written: a frontier of selection lists per level, every entry
  collected with the level's budget, the non-empty merged sub-selection lists of all groups forming the next frontier.

  * `nestingLevelsFS_ok`   — strict variables, consistent fragment weights: the loop returns
                             `levels so far + max over the frontier of the canonical levels`;
  * `frontier_eq_recursive`— hence, started on `[selections]`, the value of the recursive `nestingLevels`;
  * `nestingLevelsF_sim`   — the loop with the tolerant hook = the strict loop on the erased document;
  * `measuredF_eq_depthK`, `ruleF_eq_ruleB`, `flags_iff_final_frontier` — unique, acyclic fragments, any request
                             variables: the rule with the frontier loop returns exactly what `ruleB` returns, so
                             `flags_iff_final` holds for the loop AS WRITTEN;
  * `ruleF_never_raises`   — no hypotheses at all.
-/
import PyGqlModel.DepthFrontier
import PyGqlModel.Props.C19_orig

set_option linter.unusedVariables false
set_option linter.unusedSimpArgs false

namespace PyGql.Props.C19
open PyGql.Depth PyGql.DepthSpec PyGql.Depth.Lemmas

/-- strict counterparts (proof devices): `collect_fields_untyped` with the strict `_skip_selection` -/
def frontierLevelS (budget : Nat) (frags : List Frag) (vars : Vars) :
    List (List Sel) → Except Err (Bool × List (List Sel))
  | [] => .ok (false, [])
  | e :: rest =>
    match collectFieldsUntyped budget e frags vars [] with
    | .error err => .error err
    | .ok (G, _) =>
      match frontierLevelS budget frags vars rest with
      | .error err => .error err
      | .ok (found, nxt) => .ok (!G.isEmpty || found, groupSubs G ++ nxt)

def nestingLevelsFS (frags : List Frag) (vars : Vars) : Nat → Nat → List (List Sel) → Except Err Nat
  | _, levels, [] => .ok levels
  | 0, _, _ :: _ => .error .recursion
  | b + 1, levels, e :: es =>
    match frontierLevelS (b + 1) frags vars (e :: es) with
    | .error err => .error err
    | .ok (false, _) => .ok levels
    | .ok (true, nxt) => nestingLevelsFS frags vars b (levels + 1) nxt

section
variable (frags : List Frag) (vars : Vars) (w : String → Nat)

/-- maximum of the canonical levels over a frontier -/
def frontLv (fr : List (List Sel)) : Nat := maxL (fr.map (cL frags vars w))

private theorem frontLv_nil : frontLv frags vars w [] = 0 := by simp [frontLv, maxL]
private theorem frontLv_cons (e : List Sel) (fr : List (List Sel)) :
    frontLv frags vars w (e :: fr) = max (cL frags vars w e) (frontLv frags vars w fr) := by simp [frontLv, maxL]
private theorem frontLv_append (a b : List (List Sel)) :
    frontLv frags vars w (a ++ b) = max (frontLv frags vars w a) (frontLv frags vars w b) := by
  simp [frontLv, maxL_append]

private theorem groupSubs_cons (k : String) (fs : List Fld) (rest : Grouped) :
    groupSubs ((k, fs) :: rest) =
      (match fs.flatMap (·.sub) with | [] => groupSubs rest | s :: ss => (s :: ss) :: groupSubs rest) := rfl

/-- the next frontier of one collection: one level less than the maximum over the collected fields -/
theorem frontLv_groupSubs (P : Fld → Prop) : ∀ (G : Grouped), GInv P G → G ≠ [] →
    1 + frontLv frags vars w (groupSubs G) = gMax (fLv frags vars w) G
  | [], _, h => absurd rfl h
  | (k, fs) :: rest, hg, _ => by
    have hne := (hg (k, fs) (by simp)).1
    have h1 := cL_flatMap_sub frags vars w fs hne
    rw [groupSubs_cons]
    simp only [gMax]
    have hrest : rest = [] ∨ 1 + frontLv frags vars w (groupSubs rest) = gMax (fLv frags vars w) rest := by
      cases rest with
      | nil => exact .inl rfl
      | cons kv' rest' =>
        exact .inr (frontLv_groupSubs P (kv' :: rest') (fun kv h => hg kv (by simp [h])) (by simp))
    cases hs : fs.flatMap (·.sub) with
    | nil =>
      rw [hs, cL_nil] at h1
      simp only []
      rcases hrest with rfl | hr
      · simp [groupSubs, frontLv_nil, gMax]; omega
      · omega
    | cons s ss =>
      rw [hs] at h1
      simp only [frontLv_cons]
      rcases hrest with rfl | hr
      · simp [groupSubs, frontLv_nil, gMax]; omega
      · omega

private theorem groupSubs_ok (K : Nat) : ∀ (G : Grouped), GInv (FldOk vars w K) G →
    ∀ e ∈ groupSubs G, potL w e + 1 ≤ K ∧ boundL vars e = true
  | [], _, e, he => by simp [groupSubs] at he
  | (k, fs) :: rest, hg, e, he => by
    have hh := hg (k, fs) (by simp)
    have ih := groupSubs_ok K rest (fun kv h => hg kv (by simp [h]))
    rw [groupSubs_cons] at he
    cases hs : fs.flatMap (·.sub) with
    | nil => rw [hs] at he; exact ih e he
    | cons s ss =>
      rw [hs] at he
      rcases List.mem_cons.1 he with rfl | he'
      · constructor
        · rcases potL_flatMap_sub vars w K fs hh.2 with h | h
          · rw [hs] at h; exact h
          · exact absurd h hh.1
        · have := boundL_flatMap_sub vars w K fs hh.2
          rw [hs] at this; exact this
      · exact ih e he'

/-- one level of the strict loop -/
theorem frontierLevelS_ok (hc : Consistent frags w) (hfb : ∀ f ∈ frags, boundL vars f.sels = true) (K : Nat) :
    ∀ (fr : List (List Sel)), (∀ e ∈ fr, potL w e ≤ K ∧ boundL vars e = true) →
      ∃ found nxt, frontierLevelS (K + 1) frags vars fr = .ok (found, nxt) ∧
        (found = false → nxt = [] ∧ frontLv frags vars w fr = 0) ∧
        (found = true → 1 + frontLv frags vars w nxt = frontLv frags vars w fr) ∧
        (∀ e' ∈ nxt, potL w e' + 1 ≤ K ∧ boundL vars e' = true)
  | [], _ => ⟨false, [], rfl, fun _ => ⟨rfl, frontLv_nil frags vars w⟩, fun h => (by cases h), fun e' h => (by cases h)⟩
  | e :: rest, hfr => by
    obtain ⟨hp, hb⟩ := hfr e (by simp)
    obtain ⟨G, S', eq, c1, c2, c3, c4⟩ := collect_ok frags vars w hc hfb K e [] hp hb
    obtain ⟨found', nxt', eq', i1, i2, i3⟩ := frontierLevelS_ok hc hfb K rest (fun x hx => hfr x (by simp [hx]))
    have hcl : cL frags vars w e = gMax (fLv frags vars w) G := by
      simp [FM, maxL] at c2; omega
    refine ⟨!G.isEmpty || found', groupSubs G ++ nxt', by simp only [frontierLevelS, eq, eq'], ?_, ?_, ?_⟩
    · intro hf
      cases G with
      | cons kv G' => simp at hf
      | nil =>
        simp at hf
        obtain ⟨hn, hz⟩ := i1 hf
        refine ⟨by simp [groupSubs, hn], ?_⟩
        rw [frontLv_cons, hcl, hz]; simp [gMax]
    · intro _
      rw [frontLv_cons, frontLv_append, hcl]
      cases G with
      | nil =>
        simp only [groupSubs, frontLv_nil, gMax]
        cases found' with
        | true => have := i2 rfl; omega
        | false => simp_all
      | cons kv G' =>
        have hg := frontLv_groupSubs frags vars w _ (kv :: G') c4 (by simp)
        cases found' with
        | true => have := i2 rfl; omega
        | false =>
          obtain ⟨hn, hz⟩ := i1 rfl
          rw [hn, frontLv_nil, hz]
          omega
    · intro e' he'
      rcases List.mem_append.1 he' with h | h
      · exact groupSubs_ok vars w K G c4 e' h
      · exact i3 e' h

/-- **nestingLevelsFS_ok** — the strict frontier loop returns `levels + max over the frontier of the canonical levels` -/
theorem nestingLevelsFS_ok (hc : Consistent frags w) (hfb : ∀ f ∈ frags, boundL vars f.sels = true) :
    ∀ (K : Nat) (fr : List (List Sel)) (lv : Nat), (∀ e ∈ fr, potL w e ≤ K ∧ boundL vars e = true) →
      nestingLevelsFS frags vars (K + 1) lv fr = .ok (lv + frontLv frags vars w fr) := by
  intro K
  induction K with
  | zero =>
    intro fr lv hfr
    cases fr with
    | nil => simp [nestingLevelsFS, frontLv_nil]
    | cons e es =>
      obtain ⟨found, nxt, eq, i1, i2, i3⟩ := frontierLevelS_ok frags vars w hc hfb 0 (e :: es) hfr
      simp only [nestingLevelsFS, eq]
      cases found with
      | false => simp [(i1 rfl).2]
      | true =>
        simp only []
        cases nxt with
        | nil =>
          have := i2 rfl
          rw [frontLv_nil] at this
          simp only [nestingLevelsFS]
          congr 1; omega
        | cons x xs => have := (i3 x (by simp)).1; omega
  | succ K ih =>
    intro fr lv hfr
    cases fr with
    | nil => simp [nestingLevelsFS, frontLv_nil]
    | cons e es =>
      obtain ⟨found, nxt, eq, i1, i2, i3⟩ := frontierLevelS_ok frags vars w hc hfb (K + 1) (e :: es) hfr
      simp only [nestingLevelsFS, eq]
      cases found with
      | false => simp [(i1 rfl).2]
      | true =>
        simp only []
        rw [ih nxt (lv + 1) (fun e' he' => ⟨by have := (i3 e' he').1; omega, (i3 e' he').2⟩)]
        have := i2 rfl
        congr 1; omega

/-- **frontier_eq_recursive** — started on `[selections]`, the loop of today's tree returns what the recursive model returns -/
theorem frontier_eq_recursive (hc : Consistent frags w) (hfb : ∀ f ∈ frags, boundL vars f.sels = true)
    (K : Nat) (sels : List Sel) (hp : potL w sels ≤ K) (hb : boundL vars sels = true) :
    nestingLevelsFS frags vars (K + 1) 0 [sels] = nestingLevels (K + 1) sels frags vars := by
  rw [nestingLevelsFS_ok frags vars w hc hfb K [sels] 0 (by intro e he; simp at he; subst he; exact ⟨hp, hb⟩),
    nestingLevels_ok frags vars w hc hfb K sels hp hb]
  simp [frontLv, maxL]

end

/-! ### the tolerant hook -/

private theorem groupSubs_erase (v : Vars) : ∀ (G : Grouped), groupSubs (eraseG v G) = (groupSubs G).map (eraseL v)
  | [] => by simp [groupSubs, eraseG]
  | (k, fs) :: rest => by
    have hg : eraseG v ((k, fs) :: rest) = (k, fs.map (eraseFld v)) :: eraseG v rest := by simp [eraseG]
    have ih := groupSubs_erase v rest
    rw [hg, groupSubs_cons, groupSubs_cons, flatMap_sub_erase]
    cases hs : fs.flatMap (·.sub) with
    | nil => simp [eraseL, ih]
    | cons s ss => simp [eraseL_cons, ih]

private theorem eraseG_isEmpty (v : Vars) (G : Grouped) : (eraseG v G).isEmpty = G.isEmpty := by
  cases G <;> simp [eraseG]

private def mapNext (v : Vars) : Except Err (Bool × List (List Sel)) → Except Err (Bool × List (List Sel))
  | .error e => .error e
  | .ok (f, nxt) => .ok (f, nxt.map (eraseL v))

theorem frontierLevel_sim (v : Vars) (frags : List Frag) (b : Nat) : ∀ (fr : List (List Sel)),
    frontierLevelS b (eraseFrags v frags) v (fr.map (eraseL v)) = mapNext v (frontierLevel skipSelectionT b frags v fr)
  | [] => by simp [frontierLevelS, frontierLevel, mapNext]
  | e :: rest => by
    have ih := frontierLevel_sim v frags b rest
    simp only [List.map_cons, frontierLevelS, frontierLevel, collect_sim v frags b e []]
    cases collectFieldsUntypedG skipSelectionT b e frags v [] with
    | error err => simp [eraseSt, mapNext]
    | ok r =>
      obtain ⟨G, S'⟩ := r
      simp only [eraseSt, ih]
      cases frontierLevel skipSelectionT b frags v rest with
      | error err => simp [mapNext]
      | ok q =>
        obtain ⟨f, nxt⟩ := q
        simp [mapNext, groupSubs_erase, eraseG_isEmpty]

/-- **nestingLevelsF_sim** — the frontier loop with the tolerant hook = the strict frontier loop on the erased document -/
theorem nestingLevelsF_sim (v : Vars) (frags : List Frag) : ∀ (b lv : Nat) (fr : List (List Sel)),
    nestingLevelsFS (eraseFrags v frags) v b lv (fr.map (eraseL v)) = nestingLevelsF skipSelectionT frags v b lv fr := by
  intro b
  induction b with
  | zero =>
    intro lv fr
    cases fr <;> simp [nestingLevelsFS, nestingLevelsF]
  | succ b ih =>
    intro lv fr
    cases fr with
    | nil => simp [nestingLevelsFS, nestingLevelsF]
    | cons e es =>
      have hs := frontierLevel_sim v frags (b + 1) (e :: es)
      simp only [List.map_cons] at hs
      simp only [List.map_cons, nestingLevelsFS, nestingLevelsF, hs]
      cases frontierLevel skipSelectionT (b + 1) frags v (e :: es) with
      | error err => simp [mapNext]
      | ok q =>
        obtain ⟨f, nxt⟩ := q
        cases f with
        | false => simp [mapNext]
        | true => simp only [mapNext]; exact ih (lv + 1) nxt

/-- **measuredF_eq_depthK** — unique, acyclic fragments, ANY request variables, any budget ≥ the fuel of the document: the
    loop of today's tree measures `depthK` -/
theorem measuredF_eq_depthK (doc : Doc) (hu : UniqueNames doc.frags) (ha : Acyclic doc.frags) (v : Vars)
    (op : Op) (hop : op ∈ doc.ops) (fuel : Nat) (hfuel : doc.fuel ≤ fuel) :
    depthFixedFG skipSelectionT fuel op doc.frags v = .ok (depthK doc v op) := by
  have hG := measuredT_eq_depthK doc hu ha v op hop fuel hfuel
  have hac : acyclic (eraseFrags v doc.frags) = true := by
    rw [acyclic_erase]; exact acyclic_complete doc.frags hu ha
  have hc : Consistent (eraseFrags v doc.frags) (wOf (weights (eraseFrags v doc.frags))) := by
    intro f hf
    simp only [acyclic, List.all_eq_true, decide_eq_true_eq] at hac
    exact hac f hf
  have hfb : ∀ f ∈ eraseFrags v doc.frags, boundL v f.sels = true := by
    intro f hf
    simp only [eraseFrags, List.mem_map] at hf
    obtain ⟨g, _, rfl⟩ := hf
    exact boundL_erase v g.sels
  have hpot : potL (wOf (weights (eraseFrags v doc.frags))) (eraseL v op.sels) + 1 ≤ fuel := by
    rw [weights_erase, potL_erase]
    have : potL (wOf (weights doc.frags)) op.sels ∈ doc.ops.map (fun op => potL (wOf (weights doc.frags)) op.sels) :=
      List.mem_map_of_mem (f := fun op => potL (wOf (weights doc.frags)) op.sels) hop
    have h1 := le_maxList' this
    unfold Doc.fuel at hfuel
    omega
  obtain ⟨K, rfl⟩ : ∃ K, fuel = K + 1 := ⟨fuel - 1, by omega⟩
  have hM := frontier_eq_recursive (eraseFrags v doc.frags) v _ hc hfb K (eraseL v op.sels) (by omega) (boundL_erase v _)
  have hsim := nestingLevelsF_sim v doc.frags (K + 1) 0 [op.sels]
  simp only [List.map_cons, List.map_nil] at hsim
  rw [hsim, nestingLevels_sim] at hM
  unfold depthFixedFG
  unfold depthFixedG at hG
  rw [hM]
  exact hG

private theorem ruleLoopB_congr' (f g : Nat → Op → Except Err (Option Nat)) (limit : Nat) (filter : Option String) :
    ∀ (ops : List Op) (i : Nat), (∀ j op, ops[j]? = some op → f (i + j) op = g (i + j) op) →
      ruleLoopB f limit filter i ops = ruleLoopB g limit filter i ops
  | [], _, _ => rfl
  | op :: rest, i, h => by
    have h0 := h 0 op (by simp)
    have ih := ruleLoopB_congr' f g limit filter rest (i + 1) (fun j o hj => by
      have := h (j + 1) o (by simpa using hj)
      rw [show i + 1 + j = i + (j + 1) by omega]
      exact this)
    simp only [Nat.add_zero] at h0
    simp only [ruleLoopB, h0, ih]

/-- **ruleF_eq_ruleB** — on documents with unique, acyclic fragments the rule with the loop AS WRITTEN returns exactly what
    the recursive model of the rule returns, for every limit, filter and request variables -/
theorem ruleF_eq_ruleB (doc : Doc) (defs : List (List VarDefR)) (raw : RawVars)
    (hu : UniqueNames doc.frags) (ha : Acyclic doc.frags) (limit : Nat) (filter : Option String) :
    ruleF limit filter doc defs raw = ruleB limit filter doc defs raw := by
  unfold ruleF ruleB
  apply ruleLoopB_congr'
  intro j op hj
  simp only [Nat.zero_add]
  have hop := List.mem_of_getElem? hj
  have h1 := measuredF_eq_depthK doc hu ha (effectiveVarsR (defs.getD j []) raw) op hop doc.budget (fuel_le_budget doc)
  have h2 := measuredT_eq_depthK doc hu ha (effectiveVarsR (defs.getD j []) raw) op hop doc.budget (fuel_le_budget doc)
  simp only [depthFixedFB, depthFixedB, h1, h2]

/-- **flags_iff_final_frontier** — `flags_iff_final` for the loop of today's tree as written -/
theorem flags_iff_final_frontier (doc : Doc) (defs : List (List VarDefR)) (raw : RawVars)
    (hu : UniqueNames doc.frags) (ha : Acyclic doc.frags) (limit : Nat) (filter : Option String) :
    ∃ errs, ruleF limit filter doc defs raw = .ok errs ∧
      ∀ (i : Nat) (op : Op), doc.ops[i]? = some op →
        ((∃ d, (i, d) ∈ errs) ↔ (opSelected filter op = true ∧ depthRK doc defs raw i op > limit)) ∧
        (∀ d, (i, d) ∈ errs → d = some (depthRK doc defs raw i op)) := by
  rw [ruleF_eq_ruleB doc defs raw hu ha limit filter]
  exact flags_iff_final doc defs raw hu ha limit filter

/-! ### totality, cyclic documents included -/

private theorem frontierLevel_err (frags : List Frag) (vars : Vars) (b : Nat) : ∀ (fr : List (List Sel)) (e : Err),
    frontierLevel skipSelectionT b frags vars fr = .error e → e = .recursion
  | [], e, h => by simp [frontierLevel] at h
  | x :: rest, e, h => by
    simp only [frontierLevel] at h
    cases hc : collectFieldsUntypedG skipSelectionT b x frags vars [] with
    | error e' =>
      simp only [hc] at h
      cases h
      exact collectG_err frags vars _ _ _ _ hc
    | ok r =>
      obtain ⟨G, S'⟩ := r
      simp only [hc] at h
      cases hr : frontierLevel skipSelectionT b frags vars rest with
      | error e' =>
        simp only [hr] at h
        cases h
        exact frontierLevel_err frags vars b rest _ hr
      | ok q => obtain ⟨f, nxt⟩ := q; simp [hr] at h

private theorem nestingF_err (frags : List Frag) (vars : Vars) : ∀ (b lv : Nat) (fr : List (List Sel)) (e : Err),
    nestingLevelsF skipSelectionT frags vars b lv fr = .error e → e = .recursion := by
  intro b
  induction b with
  | zero =>
    intro lv fr e h
    cases fr with
    | nil => simp [nestingLevelsF] at h
    | cons x xs => simp [nestingLevelsF] at h; exact h.symm
  | succ b ih =>
    intro lv fr e h
    cases fr with
    | nil => simp [nestingLevelsF] at h
    | cons x xs =>
      simp only [nestingLevelsF] at h
      cases hl : frontierLevel skipSelectionT (b + 1) frags vars (x :: xs) with
      | error e' =>
        simp only [hl] at h
        cases h
        exact frontierLevel_err frags vars _ _ _ hl
      | ok q =>
        obtain ⟨f, nxt⟩ := q
        simp only [hl] at h
        cases f with
        | false => simp at h
        | true => exact ih _ _ e h

theorem depthFixedFB_total (budget : Nat) (op : Op) (frags : List Frag) (vars : Vars) :
    ∃ r, depthFixedFB budget op frags vars = .ok r := by
  unfold depthFixedFB
  cases hd : depthFixedFG skipSelectionT budget op frags vars with
  | ok d => exact ⟨some d, rfl⟩
  | error e =>
    have : e = .recursion := by
      unfold depthFixedFG at hd
      cases hn : nestingLevelsF skipSelectionT frags vars budget 0 [op.sels] with
      | error e' => simp [hn] at hd; subst hd; exact nestingF_err frags vars _ _ _ _ hn
      | ok n => simp [hn] at hd
    subst this
    exact ⟨none, rfl⟩

/-- **ruleF_never_raises** — NO hypotheses: the rule with the loop as written returns a list of errors -/
theorem ruleF_never_raises (doc : Doc) (defs : List (List VarDefR)) (raw : RawVars) (limit : Nat)
    (filter : Option String) : ∃ errs, ruleF limit filter doc defs raw = .ok errs := by
  unfold ruleF
  exact ruleLoopB_total _ (fun i op => depthFixedFB_total _ _ _ _) limit filter doc.ops 0

/-! ### witnesses -/

example : depthFixedFG skipSelectionT docstringDoc.budget docstringOp docstringDoc.frags [] = .ok 4 := by decide

/-- a selected fragment cycle is reported as unbounded, not raised -/
example : ruleF 3 none cycSelf [[]] [] = .ok [(0, none)] := by decide

/-- an empty operation after `@skip`: `frontier = [selections]`, nothing found, depth 0 -/
example : ruleF 0 none ⟨[⟨none, [.field none "a" ⟨some (.lit true), none⟩ [.field none "c" {} []]]⟩], []⟩ [[]] [] = .ok [] := by
  decide

end PyGql.Props.C19

/-
  C19 — the statements of the property for the rule the tree RUNS (`Generated/DepthVariant`: tolerantSkip, budgeted,
  sharedSeen, levelFrontier = true: `ruleB` in the recursive model, `ruleF` for the loop as written; equal on valid
  documents: `ruleF_eq_ruleB`).

  `flags_iff`, `no_raise`, `name_filter`, `flags_iff_validated`, `rule_eq_expected`, `wrap_inline_ge`, `wrap_spread_ge`,
  `wrap_*_in_fragment_ge` and the `ruleV` / `ruleR` / `ruleRT` families (`flags_iff_v`, `no_raise_v`, `pipeline_rejects_iff`,
  `flags_iff_raw`, `flags_uncoercible`, `pipeline_rejects_iff_raw`, `no_raise_repaired`, `flags_iff_repaired`,
  `pipeline_rejects_iff_repaired`) are about `rule`, `ruleV`, `ruleR`, `ruleRT`, `depthFixed`: models of INTERMEDIATE patch
  states (after C19-Q1, -Q1vars, the raw-variables reading, -Q1vars2) that /repo no longer contains. They are kept as the
  layers the final statements are built from. For the current rule there were `no_raise_all`, `pipelineB_never_raises`,
  `flags_iff_final`, `flags_iff_final_available`, `unbounded_only_if_invalid`, `wrap_inline_final`,
  `wrap_inline_in_fragment_final`, `wrap_spread_in_fragment_final` (+ `wrap_spread_final`, Props/C19_wrapvalid.lean). Added here:

  * `ruleB_eq_expected`          — the closed form of the rule's result;
  * `name_filter_final`          — with `operation_name = n` (non-empty) only operations named `n` are ever reported, and such
                                   an operation is reported iff it is deeper than the limit (`name_filter_frontier` for the loop
                                   as written);
  * `pipeline_rejects_iff_final` — `graphql_blocking(validators=[default, rule])`: never raises; rejected with a depth error
                                   iff a selected operation is deeper than n (all n ≥ 0, all filters, any JSON variables, any
                                   outcome of the default validator); executed iff no error at all.
-/
import PyGqlModel.Props.C19_frontier

set_option linter.unusedVariables false
set_option linter.unusedSimpArgs false

namespace PyGql.Props.C19
open PyGql.Depth PyGql.DepthSpec PyGql.Depth.Lemmas

/-- closed form of the current rule on documents with unique, acyclic fragments -/
theorem ruleB_eq_expected (doc : Doc) (defs : List (List VarDefR)) (raw : RawVars)
    (hu : UniqueNames doc.frags) (ha : Acyclic doc.frags) (limit : Nat) (filter : Option String) :
    ruleB limit filter doc defs raw =
      .ok ((expected (depthRK doc defs raw) limit filter 0 doc.ops).map fun p => (p.1, some p.2)) := by
  unfold ruleB
  apply ruleLoopB_of_some _ (depthRK doc defs raw) limit filter doc.ops 0
  intro j op hop
  simp only [Nat.zero_add]
  have := measuredT_eq_depthK doc hu ha (effectiveVarsR (defs.getD j []) raw) op (List.mem_of_getElem? hop)
    doc.budget (fuel_le_budget doc)
  simp only [depthFixedB, this]
  rfl

/-- **name_filter_final** — the operation-name filter of the CURRENT rule restricts the check to that operation only -/
theorem name_filter_final (doc : Doc) (defs : List (List VarDefR)) (raw : RawVars)
    (hu : UniqueNames doc.frags) (ha : Acyclic doc.frags) (limit : Nat) (n : String) (hn : n ≠ "") :
    ∃ errs, ruleB limit (some n) doc defs raw = .ok errs ∧
      ∀ (i : Nat) (op : Op), doc.ops[i]? = some op →
        ((∃ d, (i, d) ∈ errs) ↔ (op.name = some n ∧ depthRK doc defs raw i op > limit)) := by
  obtain ⟨errs, he, h⟩ := flags_iff_final doc defs raw hu ha limit (some n)
  refine ⟨errs, he, ?_⟩
  intro i op hi
  rw [(h i op hi).1]
  simp [opSelected, hn]

/-- … and for the loop as written -/
theorem name_filter_frontier (doc : Doc) (defs : List (List VarDefR)) (raw : RawVars)
    (hu : UniqueNames doc.frags) (ha : Acyclic doc.frags) (limit : Nat) (n : String) (hn : n ≠ "") :
    ∃ errs, ruleF limit (some n) doc defs raw = .ok errs ∧
      ∀ (i : Nat) (op : Op), doc.ops[i]? = some op →
        ((∃ d, (i, d) ∈ errs) ↔ (op.name = some n ∧ depthRK doc defs raw i op > limit)) := by
  rw [ruleF_eq_ruleB doc defs raw hu ha limit (some n)]
  exact name_filter_final doc defs raw hu ha limit n hn

/-- **pipeline_rejects_iff_final** — the validation pipeline with the CURRENT rule, for ANY JSON request variables -/
theorem pipeline_rejects_iff_final (doc : Doc) (defs : List (List VarDefR)) (raw : RawVars)
    (hu : UniqueNames doc.frags) (ha : Acyclic doc.frags) (n : Nat) (filter : Option String) (defaultErrors : Nat) :
    (∀ e, pipelineB n filter doc defs raw defaultErrors ≠ .raised e) ∧
    ((pipelineB n filter doc defs raw defaultErrors).depthRejected = true ↔
      ∃ i op, doc.ops[i]? = some op ∧ opSelected filter op = true ∧ depthRK doc defs raw i op > n) ∧
    (pipelineB n filter doc defs raw defaultErrors = .executed ↔
      defaultErrors = 0 ∧ ∀ i op, doc.ops[i]? = some op → opSelected filter op = true → depthRK doc defs raw i op ≤ n) := by
  have hB := ruleB_eq_expected doc defs raw hu ha n filter
  have hmap : (List.map (fun p : Nat × Option Nat => (p.1, p.2.getD 0))
      ((expected (depthRK doc defs raw) n filter 0 doc.ops).map fun p => (p.1, some p.2))) =
      expected (depthRK doc defs raw) n filter 0 doc.ops := by
    simp [List.map_map, Function.comp_def]
  unfold pipelineB
  rw [hB]
  simp only [hmap]
  exact outcome_generic doc.ops (depthRK doc defs raw) n filter _ rfl defaultErrors

/-! non-vacuity: the docstring document -/
example : UniqueNames docstringDoc.frags ∧ Acyclic docstringDoc.frags :=
  ⟨by unfold UniqueNames; decide, acyclic_sound _ (by decide)⟩

example : pipelineB 3 none docstringDoc [[]] [] 0 = .rejected [(0, 4)] 0 ∧ pipelineB 4 none docstringDoc [[]] [] 0 = .executed := by
  decide

end PyGql.Props.C19

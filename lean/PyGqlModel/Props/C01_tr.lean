/-
  C01 renders syntax-error positions with the same `index_to_loc` (`StringUtils.indexToLoc` IS `Response.indexToLoc`):
  the equation model = translated source proved in `Props/C10_tr.lean` is an obligation of C01 as well.
-/
import PyGqlModel.StringUtils
import PyGqlModel.Props.C10_tr

namespace PyGql.Props.C01
open PyGql PyGql.Generated

theorem index_to_loc_model_eq_source (body : Text) (position : Nat) :
    Tr.index_to_loc body (position : Int) = C10.locOfModel (StringUtils.indexToLoc body position) :=
  C10.index_to_loc_model_eq_source body position

end PyGql.Props.C01

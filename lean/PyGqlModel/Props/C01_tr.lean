/-
  C01 renders syntax-error positions with the same `index_to_loc` (`StringUtils.indexToLoc` IS `Response.indexToLoc`):
  the equation model = translated source proved in `Props/C10_tr.lean` is an obligation of C01 as well.
-/
import PyGqlModel.StringUtils
import PyGqlModel.Lex
import PyGqlModel.Generated.TrLexer
import PyGqlModel.Props.C10_tr

namespace PyGql.Props.C01
open PyGql PyGql.Generated

theorem index_to_loc_model_eq_source (body : Text) (position : Nat) :
    Tr.index_to_loc body (position : Int) = C10.locOfModel (StringUtils.indexToLoc body position) :=
  C10.index_to_loc_model_eq_source body position

/-! ### `Lexer._read_name`: the index-based `while True / try / except IndexError / break` loop of the source against the
    suffix-based `takeWhile` / `dropWhile` of the model -/

private theorem getItem_at {α} (pre : List α) (c : α) (t : List α) : Py.getItem (pre ++ c :: t) (pre.length : Int) = .ok c := by
  have h1 : ¬ ((pre.length : Int) < 0) := by omega
  have h2 : 0 ≤ (pre.length : Int) ∧ (pre.length : Int) < (((pre ++ c :: t).length : Nat) : Int) := by
    simp only [List.length_append, List.length_cons]; omega
  simp only [Py.getItem, Py.itemIdx, h1, if_false, Int.ofNat_eq_natCast, h2, and_self, if_true, Int.toNat_natCast]
  simp

private theorem getItem_end {α} (pre : List α) : Py.getItem pre (pre.length : Int) = .error "IndexError" := by
  have h1 : ¬ ((pre.length : Int) < 0) := by omega
  have h2 : ¬ (0 ≤ (pre.length : Int) ∧ (pre.length : Int) < ((pre.length : Nat) : Int)) := by omega
  simp only [Py.getItem, Py.itemIdx, h1, if_false, Int.ofNat_eq_natCast, h2]

private theorem nameChar_eq (c : Nat) :
    ((c == 95) || ((([97, 98, 99, 100, 101, 102, 103, 104, 105, 106, 107, 108, 109, 110, 111, 112, 113, 114, 115, 116, 117, 118, 119, 120, 121, 122, 65, 66, 67, 68, 69, 70, 71, 72, 73, 74, 75, 76, 77, 78, 79, 80, 81, 82, 83, 84, 85, 86, 87, 88, 89, 90] : List Nat).contains c) || (([48, 49, 50, 51, 52, 53, 54, 55, 56, 57] : List Nat).contains c)))
      = Lex.isNameChar c := by
  unfold Lex.isNameChar Lex.isLetter Lex.isDigit Generated.LexTables.asciiLetters Generated.LexTables.digits
  rw [Bool.or_assoc]

private theorem read_name_while : ∀ (fuel : Nat) (pre s : List Nat), s.length < fuel →
    Tr.Lexer._read_name.while1 (pre ++ s) fuel (pre.length : Int)
      = .fall (((pre.length + (s.takeWhile Lex.isNameChar).length : Nat)) : Int)
  | 0, _, _, h => by omega
  | fuel + 1, pre, [], _ => by
    rw [Tr.Lexer._read_name.while1]
    simp [getItem_end]
  | fuel + 1, pre, c :: t, h => by
    rw [Tr.Lexer._read_name.while1]
    simp only [getItem_at, nameChar_eq, if_true]
    by_cases hc : Lex.isNameChar c = true
    · have ih := read_name_while fuel (pre ++ [c]) t (by simp at h; omega)
      have e1 : pre ++ [c] ++ t = pre ++ c :: t := by simp
      have e2 : (((pre ++ [c]).length : Nat) : Int) = (pre.length : Int) + 1 := by simp
      rw [e1, e2] at ih
      simp only [hc, if_true, ih, List.takeWhile_cons]
      congr 1; simp; omega
    · simp [hc]

private theorem slice_mid {α} (pre s : List α) (k : Nat) (hk : k ≤ s.length) :
    Py.slice (pre ++ s) (pre.length : Int) ((pre.length + k : Nat) : Int) = s.take k := by
  have h1 : ¬ ((pre.length : Int) < 0) := by omega
  have h2 : ¬ (((pre.length + k : Nat) : Int) < 0) := by omega
  simp only [Py.slice, Py.normIdx, h1, h2, if_false, Int.toNat_natCast, List.length_append]
  rw [Nat.min_eq_left (by omega), Nat.min_eq_left (by omega), List.take_append, List.drop_append]
  simp

private theorem take_takeWhile {α} (p : α → Bool) : ∀ s : List α, s.take (s.takeWhile p).length = s.takeWhile p
  | [] => rfl
  | a :: l => by rw [List.takeWhile_cons]; split <;> simp [take_takeWhile p l]

/-- **`Lexer._read_name`: model = source.** With `pre` already consumed and `s` unread, the translated method returns the
    `Name` token the model's `readName` builds (same start, end, text) and leaves `_position` at the token's end; it never
    raises and its loop never runs out of fuel. -/
theorem read_name_model_eq_source (pre s : Text) :
    Tr.Lexer._read_name (pre ++ s) (pre.length : Int)
      = .ok ((((Lex.readName (pre ++ s).length s).1.start : Int), ((Lex.readName (pre ++ s).length s).1.stop : Int),
              (Lex.readName (pre ++ s).length s).1.value), ((Lex.readName (pre ++ s).length s).1.stop : Int)) := by
  have hlen : (s.takeWhile Lex.isNameChar).length + (s.dropWhile Lex.isNameChar).length = s.length := by
    rw [← List.length_append, List.takeWhile_append_dropWhile]
  unfold Tr.Lexer._read_name
  rw [read_name_while _ pre s (by simp [Py.len]; omega)]
  have hstart : Lex.posAt (pre ++ s).length s = pre.length := by simp [Lex.posAt]
  have hstop : Lex.posAt (pre ++ s).length (s.dropWhile Lex.isNameChar) = pre.length + (s.takeWhile Lex.isNameChar).length := by
    simp [Lex.posAt]; omega
  have hsl := slice_mid pre s (s.takeWhile Lex.isNameChar).length (by omega)
  simp only [Lex.readName, hstart, hstop, Py.tok3, hsl, take_takeWhile]

/-! ### `Lexer._read_over_digits` -/

private theorem digit_eq (c : Nat) : (([48, 49, 50, 51, 52, 53, 54, 55, 56, 57] : List Nat).contains c) = Lex.isDigit c := by
  unfold Lex.isDigit Generated.LexTables.digits; rfl

private theorem read_digits_while : ∀ (fuel : Nat) (pre : List Nat) (c : Nat) (t : List Nat), t.length + 1 < fuel →
    ∃ ch, Tr.Lexer._read_over_digits.while1 (pre ++ c :: t) fuel (pre.length : Int) c
      = .fall ((((pre.length + ((c :: t).takeWhile Lex.isDigit).length : Nat)) : Int), ch)
  | 0, _, _, _, h => by omega
  | fuel + 1, pre, c, t, h => by
    rw [Tr.Lexer._read_over_digits.while1]
    simp only [digit_eq, Bool.true_and, if_true, List.takeWhile_cons]
    by_cases hc : Lex.isDigit c = true
    · simp only [hc, if_true]
      cases t with
      | nil =>
        have e : (pre.length : Int) + 1 = (((pre ++ [c]).length : Nat) : Int) := by simp
        rw [e, getItem_end]
        exact ⟨c, by simp⟩
      | cons d t' =>
        have e : (pre.length : Int) + 1 = (((pre ++ [c]).length : Nat) : Int) := by simp
        have e1 : pre ++ c :: d :: t' = (pre ++ [c]) ++ d :: t' := by simp
        rw [e, e1, getItem_at]
        obtain ⟨ch, ih⟩ := read_digits_while fuel (pre ++ [c]) d t' (by simp at h; omega)
        refine ⟨ch, ?_⟩
        simp only [ih]
        congr 2; simp; omega
    · exact ⟨c, by simp [hc]⟩

/-- the exception class of a model error -/
def excName : Lex.ErrKind → String
  | .unexpectedEOF => "UnexpectedEOF"
  | .unexpectedCharacter => "UnexpectedCharacter"
  | .invalidCharacter => "InvalidCharacter"
  | .nonTerminatedString => "NonTerminatedString"
  | .invalidEscapeSequence => "InvalidEscapeSequence"
  | .fuel => "OutOfFuel"

/-- **`Lexer._read_over_digits`: model = source.** Same exception class on the same inputs (end of input, a non-digit), and
    otherwise `_position` ends where the model's unread suffix starts. -/
theorem read_over_digits_model_eq_source (pre s : Text) :
    Tr.Lexer._read_over_digits (pre ++ s) (pre.length : Int)
      = match Lex.readOverDigits (pre ++ s).length s with
        | .ok rest => .ok ((), (((pre ++ s).length - rest.length : Nat) : Int))
        | .error e => .error (excName e.kind) := by
  unfold Tr.Lexer._read_over_digits Lex.readOverDigits
  cases s with
  | nil => simp [getItem_end, excName]
  | cons c t =>
    simp only [getItem_at, digit_eq]
    by_cases hc : Lex.isDigit c = true
    · obtain ⟨ch, hw⟩ := read_digits_while (((Py.len (pre ++ c :: t) - (pre.length : Int)) + 1).toNat) pre c t
        (by simp [Py.len]; omega)
      have hlen : (t.takeWhile Lex.isDigit).length + (t.dropWhile Lex.isDigit).length = t.length := by
        rw [← List.length_append, List.takeWhile_append_dropWhile]
      simp only [hc, Bool.not_true, Bool.false_eq_true, if_false, if_true, hw, List.takeWhile_cons]
      congr 2; simp; omega
    · simp [hc, excName]

/-! ### `Lexer._read_over_integer` -/

/-- **`Lexer._read_over_integer`: model = source.** -/
theorem read_over_integer_model_eq_source (pre s : Text) :
    Tr.Lexer._read_over_integer (pre ++ s) (pre.length : Int)
      = match Lex.readOverInteger (pre ++ s).length s with
        | .ok rest => .ok ((), (((pre ++ s).length - rest.length : Nat) : Int))
        | .error e => .error (excName e.kind) := by
  unfold Tr.Lexer._read_over_integer Lex.readOverInteger
  cases s with
  | nil => simp [getItem_end, excName]
  | cons c t =>
    simp only [getItem_at]
    by_cases h0 : c = 48
    · subst h0
      have e : (pre.length : Int) + 1 = (((pre ++ [48]).length : Nat) : Int) := by simp
      cases t with
      | nil =>
        have e1 : pre ++ [48] = (pre ++ [48]) := rfl
        simp only [beq_self_eq_true, if_true, e, getItem_end]
        simp
      | cons d t' =>
        have e1 : pre ++ 48 :: d :: t' = (pre ++ [48]) ++ d :: t' := by simp
        simp only [beq_self_eq_true, if_true, e, e1, getItem_at, digit_eq]
        by_cases hd : Lex.isDigit d = true
        · simp [hd, excName]
        · simp [hd]; omega
    · have hb : (c == 48) = false := by simp [h0]
      simp only [hb, Bool.false_eq_true, if_false, h0]
      rw [read_over_digits_model_eq_source pre (c :: t)]
      cases Lex.readOverDigits (pre ++ c :: t).length (c :: t) <;> rfl

/-! ### `Lexer._read_over_whitespace` -/

private theorem commentChar_eq (c : Nat) :
    (((decide (c ≥ 32)) || (c == 9)) && (!([10, 13] : List Nat).contains c)) = Lex.isCommentChar c := by
  unfold Lex.isCommentChar Lex.isPrintable
  by_cases h1 : c = 10 <;> by_cases h2 : c = 13 <;> simp [h1, h2, GE.ge]

private theorem ignored_eq (c : Nat) : (([10, 13, 65279, 9, 32, 44] : List Nat).contains c) = Lex.isIgnored c := by
  unfold Lex.isIgnored Generated.LexTables.ignoredChars; rfl

private theorem row_comment : ∀ s : Text,
    Lex.readOverWhitespace true s = Lex.readOverWhitespace false (s.dropWhile Lex.isCommentChar)
  | [] => by simp [Lex.readOverWhitespace]
  | c :: t => by
    by_cases hc : Lex.isCommentChar c = true
    · rw [Lex.readOverWhitespace, List.dropWhile_cons]
      simp only [hc, Bool.and_self, if_true]
      exact row_comment t
    · rw [List.dropWhile_cons]
      simp only [hc, Bool.false_eq_true, if_false]
      rw [Lex.readOverWhitespace, Lex.readOverWhitespace]
      simp [hc]

private theorem row_len : ∀ (s : Text) (b : Bool), (Lex.readOverWhitespace b s).length ≤ s.length
  | [], b => by simp [Lex.readOverWhitespace]
  | c :: t, b => by
    have h1 := row_len t true
    have h2 := row_len t false
    rw [Lex.readOverWhitespace]
    split
    · simp; omega
    · split
      · simp; omega
      · split
        · simp; omega
        · simp

private theorem ws_inner : ∀ (fuel : Nat) (pre s : List Nat) (ch : Nat), s.length < fuel →
    ∃ ch', Tr.Lexer._read_over_whitespace.while2 (pre ++ s) fuel ch (pre.length : Int)
      = .fall (ch', (((pre.length + (s.takeWhile Lex.isCommentChar).length : Nat)) : Int))
  | 0, _, _, _, h => by omega
  | fuel + 1, pre, [], ch, _ => by
    rw [Tr.Lexer._read_over_whitespace.while2]
    exact ⟨ch, by simp [getItem_end]⟩
  | fuel + 1, pre, c :: t, ch, h => by
    rw [Tr.Lexer._read_over_whitespace.while2]
    simp only [getItem_at, commentChar_eq, if_true, List.takeWhile_cons]
    by_cases hc : Lex.isCommentChar c = true
    · obtain ⟨ch', ih⟩ := ws_inner fuel (pre ++ [c]) t c (by simp at h; omega)
      have e1 : pre ++ [c] ++ t = pre ++ c :: t := by simp
      have e2 : (((pre ++ [c]).length : Nat) : Int) = (pre.length : Int) + 1 := by simp
      rw [e1, e2] at ih
      refine ⟨ch', ?_⟩
      simp only [hc, if_true, ih]
      congr 2; simp; omega
    · exact ⟨c, by simp [hc]⟩

private theorem ws_outer : ∀ (fuel : Nat) (pre s : List Nat), s.length < fuel →
    Tr.Lexer._read_over_whitespace.while1 (pre ++ s) fuel (pre.length : Int)
      = .fall ((((pre ++ s).length - (Lex.readOverWhitespace false s).length : Nat)) : Int)
  | 0, _, _, h => by omega
  | fuel + 1, pre, [], _ => by
    rw [Tr.Lexer._read_over_whitespace.while1]
    simp [getItem_end, Lex.readOverWhitespace]
  | fuel + 1, pre, c :: t, h => by
    have hlt : t.length < fuel := by simp at h; omega
    rw [Tr.Lexer._read_over_whitespace.while1, Lex.readOverWhitespace]
    simp only [getItem_at, ignored_eq, if_true, Bool.false_and, Bool.false_eq_true, if_false]
    have e1 : pre ++ [c] ++ t = pre ++ c :: t := by simp
    have e2 : (((pre ++ [c]).length : Nat) : Int) = (pre.length : Int) + 1 := by simp
    by_cases hi : Lex.isIgnored c = true
    · have ih := ws_outer fuel (pre ++ [c]) t hlt
      rw [e1, e2] at ih
      simp only [hi, if_true, ih]
    · simp only [hi, Bool.false_eq_true, if_false]
      by_cases h35 : c = 35
      · subst h35
        simp only [beq_self_eq_true, if_true]
        obtain ⟨ch', hin⟩ := ws_inner ((((Py.len (pre ++ 35 :: t)) - ((pre.length : Int) + 1)) + 1).toNat) (pre ++ [35]) t 35
          (by simp [Py.len]; omega)
        rw [e1, e2] at hin
        rw [hin]
        simp only []
        have hsplit : t = t.takeWhile Lex.isCommentChar ++ t.dropWhile Lex.isCommentChar :=
          (List.takeWhile_append_dropWhile).symm
        have hlen : (t.takeWhile Lex.isCommentChar).length + (t.dropWhile Lex.isCommentChar).length = t.length := by
          rw [← List.length_append, List.takeWhile_append_dropWhile]
        have ih := ws_outer fuel (pre ++ [35] ++ t.takeWhile Lex.isCommentChar) (t.dropWhile Lex.isCommentChar) (by omega)
        have e3 : pre ++ [35] ++ t.takeWhile Lex.isCommentChar ++ t.dropWhile Lex.isCommentChar = pre ++ 35 :: t := by
          rw [List.append_assoc, List.takeWhile_append_dropWhile]; simp
        have e4 : (((pre ++ [35] ++ t.takeWhile Lex.isCommentChar).length : Nat) : Int)
            = (((pre.length + 1 + (t.takeWhile Lex.isCommentChar).length : Nat)) : Int) := by simp; omega
        rw [e3, e4] at ih
        have e5 : (((pre ++ [35]).length + (t.takeWhile Lex.isCommentChar).length : Nat) : Int)
            = (((pre.length + 1 + (t.takeWhile Lex.isCommentChar).length : Nat)) : Int) := by simp
        rw [e5, ih, row_comment t]
      · have hb : (c == 35) = false := by simp [h35]
        simp [hb, h35]

/-- **`Lexer._read_over_whitespace`: model = source.** -/
theorem read_over_whitespace_model_eq_source (pre s : Text) :
    Tr.Lexer._read_over_whitespace (pre ++ s) (pre.length : Int)
      = .ok ((), (((pre ++ s).length - (Lex.readOverWhitespace false s).length : Nat) : Int)) := by
  unfold Tr.Lexer._read_over_whitespace
  simp only []
  rw [ws_outer _ pre s (by simp [Py.len]; omega)]

/-! ### `Lexer._read_ellipsis` (`for _ in range(3)`) -/

private theorem ellipsis_loop (n : Nat) : ∀ (it : List Int) (pre s : Text),
    Tr.Lexer._read_ellipsis.loop1 (pre ++ s) it (pre.length : Int)
      = match Lex.readDots n it.length s with
        | .ok rest => .fall ((((pre ++ s).length - rest.length : Nat)) : Int)
        | .error e => .raise (excName e.kind)
  | [], pre, s => by simp [Tr.Lexer._read_ellipsis.loop1, Lex.readDots]
  | _ :: it, pre, [] => by
    rw [Tr.Lexer._read_ellipsis.loop1]
    simp [getItem_end, Lex.readDots, excName]
  | _ :: it, pre, c :: t => by
    rw [Tr.Lexer._read_ellipsis.loop1]
    simp only [getItem_at, List.length_cons, Lex.readDots]
    by_cases hc : c = 46
    · subst hc
      have ih := ellipsis_loop n it (pre ++ [46]) t
      have e1 : pre ++ [46] ++ t = pre ++ 46 :: t := by simp
      have e2 : (((pre ++ [46]).length : Nat) : Int) = (pre.length : Int) + 1 := by simp
      rw [e1, e2] at ih
      simp [ih]
    · simp [hc, excName]

/-- **`Lexer._read_ellipsis`: model = source.** -/
theorem read_ellipsis_model_eq_source (pre s : Text) :
    Tr.Lexer._read_ellipsis (pre ++ s) (pre.length : Int)
      = match Lex.readEllipsis (pre ++ s).length s with
        | .ok (tok, _) => .ok (((tok.start : Int), (tok.stop : Int)), (tok.stop : Int))
        | .error e => .error (excName e.kind) := by
  unfold Tr.Lexer._read_ellipsis Lex.readEllipsis
  have hr : (Py.range (0 : Int) (3 : Int)).length = 3 := by simp [Py.range]
  have := ellipsis_loop (pre ++ s).length (Py.range (0 : Int) (3 : Int)) pre s
  rw [hr] at this
  simp only [this]
  cases Lex.readDots (pre ++ s).length 3 s with
  | error e => rfl
  | ok rest => simp [Py.tok2, Lex.posAt]

/-! ### `Lexer._read_number` (calls the translated `_read_over_integer` / `_read_over_digits`; join points `.kN`) -/

abbrev NumRes := Except String ((Bool × Int × Int × List Nat) × Int)

private theorem gi_at {α} (pre : List α) (c : α) (t : List α) : Py.getItem (pre ++ c :: t) (pre.length : Int) = .ok c := by
  have h1 : ¬ ((pre.length : Int) < 0) := by omega
  have h2 : 0 ≤ (pre.length : Int) ∧ (pre.length : Int) < (((pre ++ c :: t).length : Nat) : Int) := by
    simp only [List.length_append, List.length_cons]; omega
  simp only [Py.getItem, Py.itemIdx, h1, if_false, Int.ofNat_eq_natCast, h2, and_self, if_true, Int.toNat_natCast]
  simp

private theorem gi_end {α} (pre : List α) : Py.getItem (pre ++ []) (pre.length : Int) = .error "IndexError" := by
  have h1 : ¬ ((pre.length : Int) < 0) := by omega
  have h2 : ¬ (0 ≤ (pre.length : Int) ∧ (pre.length : Int) < (((pre ++ []).length : Nat) : Int)) := by simp
  simp only [Py.getItem, Py.itemIdx, h1, if_false, Int.ofNat_eq_natCast, h2]

def T7 (src : Text) (start : Int) (isf : Bool) (s4 : Text) : NumRes :=
  .ok ((isf, start, ((src.length - s4.length : Nat) : Int), Py.slice src start ((src.length - s4.length : Nat) : Int)),
       ((src.length - s4.length : Nat) : Int))
def T6 (src : Text) (start : Int) (isf : Bool) (s4 : Text) : NumRes :=
  match Lex.numberLookahead src.length s4 with
  | .ok () => T7 src start isf s4
  | .error e => .error (excName e.kind)
def TD (src : Text) (start : Int) (isf : Bool) (u : Text) : NumRes :=
  match Lex.readOverDigits src.length u with
  | .error e => .error (excName e.kind)
  | .ok r => T6 src start isf r
def T5 (src : Text) (start : Int) (isf : Bool) (s3 : Text) : NumRes :=
  match Lex.readExponent src.length s3 with
  | .error e => .error (excName e.kind)
  | .ok (f2, s4) => T6 src start (isf || f2) s4
def T3 (src : Text) (start : Int) (isf : Bool) (s2 : Text) : NumRes :=
  match Lex.readFraction src.length s2 with
  | .error e => .error (excName e.kind)
  | .ok (f1, s3) => T5 src start (isf || f1) s3
def T2 (src : Text) (start : Int) (s1 : Text) : NumRes :=
  match Lex.readOverInteger src.length s1 with
  | .error e => .error (excName e.kind)
  | .ok s2 => T3 src start false s2

private theorem digits_suffix {n : Nat} {s r : Text} (h : Lex.readOverDigits n s = .ok r) : ∃ l, s = l ++ r := by
  cases s with
  | nil => simp [Lex.readOverDigits] at h
  | cons c t =>
    simp only [Lex.readOverDigits] at h
    split at h
    · simp only [Except.ok.injEq] at h; subst h
      exact ⟨c :: t.takeWhile Lex.isDigit, by simp [List.takeWhile_append_dropWhile]⟩
    · cases h

private theorem integer_suffix {n : Nat} {s r : Text} (h : Lex.readOverInteger n s = .ok r) : ∃ l, s = l ++ r := by
  cases s with
  | nil => simp [Lex.readOverInteger] at h
  | cons c t =>
    simp only [Lex.readOverInteger] at h
    split at h
    · split at h
      · simp only [Except.ok.injEq] at h; subst h; exact ⟨[c], rfl⟩
      · split at h
        · cases h
        · simp only [Except.ok.injEq] at h; subst h; exact ⟨[c], rfl⟩
    · exact digits_suffix h

private theorem l7 (pre s4 : Text) (start : Int) (isf : Bool) :
    Tr.Lexer._read_number.k7 (pre ++ s4) (pre.length : Int) start isf = T7 (pre ++ s4) start isf s4 := by
  have : (pre ++ s4).length - s4.length = pre.length := by simp
  unfold Tr.Lexer._read_number.k7 T7
  rw [this]
  cases isf <;> simp [Py.tokNum]

private theorem nameStart_eq (c : Nat) :
    ((c == 95) || (([97, 98, 99, 100, 101, 102, 103, 104, 105, 106, 107, 108, 109, 110, 111, 112, 113, 114, 115, 116, 117, 118, 119, 120, 121, 122, 65, 66, 67, 68, 69, 70, 71, 72, 73, 74, 75, 76, 77, 78, 79, 80, 81, 82, 83, 84, 85, 86, 87, 88, 89, 90] : List Nat).contains c))
      = Lex.isNameStart c := by
  unfold Lex.isNameStart Lex.isLetter Generated.LexTables.asciiLetters; rfl

private theorem l6 (pre s4 : Text) (start : Int) (isf : Bool) :
    Tr.Lexer._read_number.k6 (pre ++ s4) start (pre.length : Int) isf = T6 (pre ++ s4) start isf s4 := by
  unfold Tr.Lexer._read_number.k6 T6 Lex.numberLookahead
  cases s4 with
  | nil =>
    have := l7 pre [] start isf
    simp only [gi_end]; simpa using this
  | cons c t =>
    simp only [gi_at, nameStart_eq]
    by_cases hc : Lex.isNameStart c = true
    · simp [hc, excName]
    · simp [hc, l7]

private theorem l9 (pre u : Text) (start : Int) (isf : Bool) :
    Tr.Lexer._read_number.k9 (pre ++ u) start isf (pre.length : Int) = TD (pre ++ u) start isf u := by
  unfold Tr.Lexer._read_number.k9 TD
  rw [read_over_digits_model_eq_source pre u]
  cases h : Lex.readOverDigits (pre ++ u).length u with
  | error e => rfl
  | ok r =>
    obtain ⟨l, rfl⟩ := digits_suffix h
    have e1 : pre ++ (l ++ r) = (pre ++ l) ++ r := by simp
    have e2 : (((pre ++ (l ++ r)).length - r.length : Nat) : Int) = (((pre ++ l).length : Nat) : Int) := by simp; omega
    simp only [e2]
    rw [e1, l6]


private theorem signs_eq (x : Nat) : (([43, 45] : List Nat).contains x) = decide (x = 43 ∨ x = 45) := by
  by_cases h1 : x = 43 <;> by_cases h2 : x = 45 <;> simp [h1, h2]

private theorem l8 (pre t : Text) (start : Int) (isf : Bool) :
    Tr.Lexer._read_number.k8 (pre ++ t) (pre.length : Int) start isf t.head? = TD (pre ++ t) start isf (Lex.skipSign t) := by
  unfold Tr.Lexer._read_number.k8
  cases t with
  | nil =>
    have := l9 pre [] start isf
    simpa [Lex.skipSign] using this
  | cons x u =>
    simp only [List.head?_cons, Option.isSome_some, Bool.true_and, signs_eq, Lex.skipSign]
    by_cases hx : x = 43 ∨ x = 45
    · have e1 : pre ++ x :: u = (pre ++ [x]) ++ u := by simp
      have e2 : (pre.length : Int) + 1 = (((pre ++ [x]).length : Nat) : Int) := by simp
      simp only [hx, decide_true, if_true]
      rw [e2, e1, l9]
    · simp only [hx, decide_false, Bool.false_eq_true, if_false]
      exact l9 pre (x :: u) start isf

private theorem exps_eq (x : Nat) : (([101, 69] : List Nat).contains x) = decide (x = 101 ∨ x = 69) := by
  by_cases h1 : x = 101 <;> by_cases h2 : x = 69 <;> simp [h1, h2]

private theorem l5 (pre s3 : Text) (start : Int) (isf : Bool) :
    Tr.Lexer._read_number.k5 (pre ++ s3) (pre.length : Int) start isf s3.head? = T5 (pre ++ s3) start isf s3 := by
  unfold Tr.Lexer._read_number.k5 T5 Lex.readExponent
  cases s3 with
  | nil =>
    have := l6 pre [] start isf
    simpa using this
  | cons c t =>
    simp only [List.head?_cons, Option.isSome_some, Bool.true_and, exps_eq]
    by_cases hc : c = 101 ∨ c = 69
    · have e1 : pre ++ c :: t = (pre ++ [c]) ++ t := by simp
      have e2 : (pre.length : Int) + 1 = (((pre ++ [c]).length : Nat) : Int) := by simp
      simp only [hc, decide_true, if_true]
      rw [e2, e1]
      have h8 := l8 (pre ++ [c]) t start true
      cases t with
      | nil =>
        simp only [gi_end]
        simp only [List.head?_nil] at h8
        simp only [beq_self_eq_true, if_true, h8, TD]
        cases Lex.readOverDigits (pre ++ [c] ++ []).length (Lex.skipSign []) <;> simp [Except.map]
      | cons x u =>
        simp only [gi_at]
        simp only [List.head?_cons] at h8
        simp only [h8, TD]
        cases Lex.readOverDigits (pre ++ [c] ++ x :: u).length (Lex.skipSign (x :: u)) <;> simp [Except.map]
    · simp only [hc, decide_false, Bool.false_eq_true, if_false]
      have := l6 pre (c :: t) start isf
      simpa using this

private theorem l4 (pre s3 : Text) (start : Int) (ch : Option Nat) (isf : Bool) :
    Tr.Lexer._read_number.k4 (pre ++ s3) start ch (pre.length : Int) isf = T5 (pre ++ s3) start isf s3 := by
  unfold Tr.Lexer._read_number.k4
  have h5 := l5 pre s3 start isf
  cases s3 with
  | nil => simp only [gi_end]; simpa using h5
  | cons c t => simp only [gi_at]; simpa using h5

private theorem l3 (pre s2 : Text) (start : Int) (isf : Bool) :
    Tr.Lexer._read_number.k3 (pre ++ s2) (pre.length : Int) start isf s2.head? = T3 (pre ++ s2) start isf s2 := by
  unfold Tr.Lexer._read_number.k3 T3 Lex.readFraction
  cases s2 with
  | nil =>
    have := l4 pre [] start none isf
    simpa using this
  | cons c t =>
    by_cases hc : c = 46
    · subst hc
      have e1 : pre ++ 46 :: t = (pre ++ [46]) ++ t := by simp
      have e2 : (pre.length : Int) + 1 = (((pre ++ [46]).length : Nat) : Int) := by simp
      simp only [List.head?_cons, beq_self_eq_true, if_true]
      rw [e2, e1, read_over_digits_model_eq_source (pre ++ [46]) t]
      cases h : Lex.readOverDigits (pre ++ [46] ++ t).length t with
      | error e => simp [Except.map]
      | ok r =>
        obtain ⟨l, rfl⟩ := digits_suffix h
        have e3 : pre ++ [46] ++ (l ++ r) = (pre ++ [46] ++ l) ++ r := by simp
        have e4 : (((pre ++ [46] ++ (l ++ r)).length - r.length : Nat) : Int) = (((pre ++ [46] ++ l).length : Nat) : Int) := by
          simp; omega
        simp only [e4, Except.map]
        rw [e3, l4]
        simp
    · have hb : (some c == some 46) = false := by simp [hc]
      simp only [List.head?_cons, hb, Bool.false_eq_true, if_false, hc]
      have := l4 pre (c :: t) start (some c) isf
      simpa using this

private theorem l2 (pre s1 : Text) (start : Int) (ch : Option Nat) :
    Tr.Lexer._read_number.k2 (pre ++ s1) start false ch (pre.length : Int) = T2 (pre ++ s1) start s1 := by
  unfold Tr.Lexer._read_number.k2 T2
  rw [read_over_integer_model_eq_source pre s1]
  cases h : Lex.readOverInteger (pre ++ s1).length s1 with
  | error e => rfl
  | ok r =>
    obtain ⟨l, rfl⟩ := integer_suffix h
    have e3 : pre ++ (l ++ r) = (pre ++ l) ++ r := by simp
    have e4 : (((pre ++ (l ++ r)).length - r.length : Nat) : Int) = (((pre ++ l).length : Nat) : Int) := by simp; omega
    simp only [e4]
    rw [e3]
    have h3 := l3 (pre ++ l) r start false
    cases r with
    | nil => simp only [gi_end]; simpa using h3
    | cons c t => simp only [gi_at]; simpa using h3

private theorem l1 (pre s : Text) (start : Int) :
    Tr.Lexer._read_number.k1 (pre ++ s) (pre.length : Int) start false s.head? = T2 (pre ++ s) start (Lex.skipMinus s) := by
  unfold Tr.Lexer._read_number.k1
  cases s with
  | nil =>
    have := l2 pre [] start none
    simpa [Lex.skipMinus] using this
  | cons c t =>
    by_cases hc : c = 45
    · subst hc
      have e1 : pre ++ 45 :: t = (pre ++ [45]) ++ t := by simp
      have e2 : (pre.length : Int) + 1 = (((pre ++ [45]).length : Nat) : Int) := by simp
      simp only [List.head?_cons, beq_self_eq_true, if_true, Lex.skipMinus]
      rw [e2, e1, l2]
    · have hb : (some c == some 45) = false := by simp [hc]
      simp only [List.head?_cons, hb, Bool.false_eq_true, if_false, Lex.skipMinus, hc]
      exact l2 pre (c :: t) start (some c)

private theorem read_number_stage (pre s : Text) :
    Tr.Lexer._read_number (pre ++ s) (pre.length : Int) = T2 (pre ++ s) (pre.length : Int) (Lex.skipMinus s) := by
  unfold Tr.Lexer._read_number
  have h1 := l1 pre s (pre.length : Int)
  cases s with
  | nil => simp only [gi_end]; simpa using h1
  | cons c t => simp only [gi_at]; simpa using h1

private theorem slice_mid' {α} (pre s : List α) (k : Nat) (hk : k ≤ s.length) :
    Py.slice (pre ++ s) (pre.length : Int) ((pre.length + k : Nat) : Int) = s.take k := by
  have h1 : ¬ ((pre.length : Int) < 0) := by omega
  have h2 : ¬ (((pre.length + k : Nat) : Int) < 0) := by omega
  simp only [Py.slice, Py.normIdx, h1, h2, if_false, Int.toNat_natCast, List.length_append]
  rw [Nat.min_eq_left (by omega), Nat.min_eq_left (by omega), List.take_append, List.drop_append]
  simp

private theorem fraction_suffix {n : Nat} {s r : Text} {f : Bool} (h : Lex.readFraction n s = .ok (f, r)) : ∃ l, s = l ++ r := by
  cases s with
  | nil => simp [Lex.readFraction] at h; exact ⟨[], by simp [h.2]⟩
  | cons c t =>
    simp only [Lex.readFraction] at h
    split at h
    · cases hd : Lex.readOverDigits n t with
      | error e => simp [hd, Except.map] at h
      | ok r' =>
        simp only [hd, Except.map, Except.ok.injEq, Prod.mk.injEq] at h
        obtain ⟨l, hl⟩ := digits_suffix hd
        exact ⟨c :: l, by rw [hl, ← h.2]; simp⟩
    · simp only [Except.ok.injEq, Prod.mk.injEq] at h; exact ⟨[], by simp [h.2]⟩

private theorem skipSign_suffix (t : Text) : ∃ m, t = m ++ Lex.skipSign t := by
  cases t with
  | nil => exact ⟨[], rfl⟩
  | cons x u =>
    simp only [Lex.skipSign]
    split
    · exact ⟨[x], rfl⟩
    · exact ⟨[], rfl⟩

private theorem exponent_suffix {n : Nat} {s r : Text} {f : Bool} (h : Lex.readExponent n s = .ok (f, r)) : ∃ l, s = l ++ r := by
  cases s with
  | nil => simp [Lex.readExponent] at h; exact ⟨[], by simp [h.2]⟩
  | cons c t =>
    simp only [Lex.readExponent] at h
    split at h
    · cases hd : Lex.readOverDigits n (Lex.skipSign t) with
      | error e => simp [hd, Except.map] at h
      | ok r' =>
        simp only [hd, Except.map, Except.ok.injEq, Prod.mk.injEq] at h
        obtain ⟨l, hl⟩ := digits_suffix hd
        obtain ⟨m, hm⟩ := skipSign_suffix t
        exact ⟨c :: (m ++ l), by rw [hm, hl, ← h.2]; simp⟩
    · simp only [Except.ok.injEq, Prod.mk.injEq] at h; exact ⟨[], by simp [h.2]⟩

private theorem skipMinus_suffix (s : Text) : ∃ m, s = m ++ Lex.skipMinus s := by
  cases s with
  | nil => exact ⟨[], rfl⟩
  | cons x u =>
    simp only [Lex.skipMinus]
    split
    · exact ⟨[x], rfl⟩
    · exact ⟨[], rfl⟩

/-- `Float(...)` rather than `Integer(...)` -/
def isFloatKind : TokKind → Bool
  | .float => true
  | _ => false

/-- **`Lexer._read_number`: model = source.** The translated method (which calls the translated `_read_over_integer` /
    `_read_over_digits`) returns the token the model's `readNumber` builds — Float or Integer, same start, end and text —
    and leaves `_position` at its end, or raises the same exception class. -/
theorem read_number_model_eq_source (pre s : Text) :
    Tr.Lexer._read_number (pre ++ s) (pre.length : Int)
      = match Lex.readNumber (pre ++ s).length s with
        | .ok (tok, _) => .ok ((isFloatKind tok.kind, (tok.start : Int), (tok.stop : Int), tok.value), (tok.stop : Int))
        | .error e => .error (excName e.kind) := by
  rw [read_number_stage]
  unfold T2 Lex.readNumber
  cases h2 : Lex.readOverInteger (pre ++ s).length (Lex.skipMinus s) with
  | error e => simp [bind, Except.bind]
  | ok s2 =>
    simp only [bind, Except.bind]
    unfold T3
    cases h3 : Lex.readFraction (pre ++ s).length s2 with
    | error e => simp [bind, Except.bind]
    | ok p3 =>
      obtain ⟨f1, s3⟩ := p3
      simp only []
      unfold T5
      cases h4 : Lex.readExponent (pre ++ s).length s3 with
      | error e => simp [bind, Except.bind]
      | ok p4 =>
        obtain ⟨f2, s4⟩ := p4
        simp only []
        unfold T6
        cases h5 : Lex.numberLookahead (pre ++ s).length s4 with
        | error e => simp [bind, Except.bind]
        | ok u =>
          obtain ⟨m, hm⟩ := skipMinus_suffix s
          obtain ⟨l2, hl2⟩ := integer_suffix h2
          obtain ⟨l3, hl3⟩ := fraction_suffix h3
          obtain ⟨l4, hl4⟩ := exponent_suffix h4
          have hlen : s4.length ≤ s.length := by
            rw [hm, hl2, hl3, hl4]; simp; omega
          have hstop : (((pre ++ s).length - s4.length : Nat) : Int) = ((pre.length + (s.length - s4.length) : Nat) : Int) := by
            simp; omega
          have hsl := slice_mid' pre s (s.length - s4.length) (by omega)
          simp only [bind, Except.bind, pure, Except.pure, T7, hstop, hsl, Lex.posAt]
          have hstart : (pre ++ s).length - s.length = pre.length := by simp
          have hstop2 : (pre ++ s).length - s4.length = pre.length + (s.length - s4.length) := by simp; omega
          simp only [hstart, hstop2, Bool.false_or]
          cases f1 <;> cases f2 <;> simp [isFloatKind]

end PyGql.Props.C01

/-
  C06 - non-vacuity of the overlap equivalence ON DOCUMENTS WITH FRAGMENT SPREADS: all hypotheses of
  `rule_overlapping_fields_can_be_merged_iff_partial` are discharged for
  `{ ...A ...B } fragment A on Query { x: a } fragment B on Query { x: <a or b> }`.
-/
import PyGqlModel.Props.C06_overlap_full
namespace PyGql.Props.C06
open PyGql PyGql.Validate PyGql.Validate.Spec

/-- `{ ...A ...B } fragment A on Query { x: a } fragment B on Query { x: n }` -/
def oDocFrag (n : String) : Doc :=
  ⟨[opV [] 1 [sp "A", sp "B"], fragQ "A" 2 [fld (some "x") "a"], fragQ "B" 3 [fld (some "x") n]]⟩

private theorem frag_table (n : String) :
    fragTable (oDocFrag n) = [("A", ("Query", 2, [fld (some "x") "a"])), ("B", ("Query", 3, [fld (some "x") n]))] := by
  simp [fragTable, oDocFrag, fragDefs, opV, fragQ, AL.set, AL.has]

private theorem frag_get (n : String) (g : String) (v : String × Nat × List Sel)
    (h : AL.get? (fragTable (oDocFrag n)) g = some v) :
    (g = "A" ∧ v = ("Query", 2, [fld (some "x") "a"])) ∨ (g = "B" ∧ v = ("Query", 3, [fld (some "x") n])) := by
  rw [frag_table, AL.get?_cons, AL.get?_cons, AL.get?_nil] at h
  by_cases h1 : "A" = g
  · rw [if_pos h1] at h; cases h; exact Or.inl ⟨h1.symm, rfl⟩
  · rw [if_neg h1] at h
    by_cases h2 : "B" = g
    · rw [if_pos h2] at h; cases h; exact Or.inr ⟨h2.symm, rfl⟩
    · rw [if_neg h2] at h; cases h

private theorem frag_selSet (n : String) (i : Nat) (sels : List Sel) (h : SelSet (oDocFrag n) i sels) :
    (i = 1 ∧ sels = [sp "A", sp "B"]) ∨ (i = 2 ∧ sels = [fld (some "x") "a"]) ∨ (i = 3 ∧ sels = [fld (some "x") n]) := by
  simp [SelSet, nodes, oDocFrag, opV, fragQ, sp, fld, defNodes, selsNodes, selNodes, argsNodes, dirsNodes] at h
  rcases h with h | h | h
  · exact Or.inl h
  · exact Or.inr (Or.inl h)
  · exact Or.inr (Or.inr h)

private theorem frag_noSub (n : String) (e : FEntry) (he : Ent oSchema (oDocFrag n) e) : e.hasSub = false := by
  obtain ⟨i, sels, p, rn, hs, _, hc⟩ := he
  rcases frag_selSet n i sels hs with ⟨_, rfl⟩ | ⟨_, rfl⟩ | ⟨_, rfl⟩
  · cases hc with
    | field hm => simp [sp] at hm
    | inline hm _ => simp [sp] at hm
  · cases hc with
    | field hm => simp only [fld, List.mem_singleton, Sel.field.injEq] at hm; obtain ⟨_, _, _, _, rfl, _⟩ := hm; rfl
    | inline hm _ => simp [fld] at hm
  · cases hc with
    | field hm => simp only [fld, List.mem_singleton, Sel.field.injEq] at hm; obtain ⟨_, _, _, _, rfl, _⟩ := hm; rfl
    | inline hm _ => simp [fld] at hm

theorem overlapSide_frag (n : String) : OverlapSide oSchema (oDocFrag n) := by
  refine ⟨by rw [frag_table]; simp [AL.get?_cons, AL.get?_nil], ?_, ?_⟩
  · intro e he hsub
    rw [frag_noSub n e he] at hsub; cases hsub
  · intro i sels hs g hg
    rcases frag_selSet n i sels hs with ⟨rfl, rfl⟩ | ⟨_, rfl⟩ | ⟨_, rfl⟩
    · intro m _ on fid fsels ht
      rcases frag_get n m _ ht with ⟨_, hv⟩ | ⟨_, hv⟩ <;> (cases hv; decide)
    · cases hg with
      | spread hm => simp [fld] at hm
      | inline hm _ => simp [fld] at hm
    · cases hg with
      | spread hm => simp [fld] at hm
      | inline hm _ => simp [fld] at hm

theorem parentsAgree_frag (n : String) : Spec.ParentsAgree oSchema (oDocFrag n) := by
  have key : ∀ i p, Adm oSchema (oDocFrag n) i p → p = some "Query" := by
    intro i p h
    induction h with
    | walk hm =>
      simp only [typedNodes, oDocFrag, opV, fragQ, sp, fld, tnDef, tnSels, tnSel, tnDirs, withView, argsNodes,
        List.flatMap_cons, List.flatMap_nil, List.map_nil, List.append_nil, List.nil_append, Bool.false_eq_true,
        ↓reduceIte, List.mem_cons, Prod.mk.injEq, reduceCtorEq, false_and, false_or, List.not_mem_nil, or_false,
        List.mem_append, List.cons_append] at hm
      rcases hm with ⟨_, rfl⟩ | ⟨_, rfl⟩ | ⟨_, rfl⟩
      · show compositeBase oSchema ((rootType oSchema "query").map Ty.named) = some "Query"; decide
      · show compositeBase oSchema (TI.outOnly oSchema (typeFromAst oSchema (.named "Query"))) = some "Query"; decide
      · show compositeBase oSchema (TI.outOnly oSchema (typeFromAst oSchema (.named "Query"))) = some "Query"; decide
    | frag hg =>
      rcases frag_get n _ _ hg with ⟨_, hv⟩ | ⟨_, hv⟩ <;> (cases hv; decide)
    | sub _ hs hc hsub _ =>
      rw [frag_noSub n _ ⟨_, _, _, _, hs, ‹_›, hc⟩] at hsub; cases hsub
  intro i p q hp hq
  rw [key i p hp, key i q hq]

/-- `{ ...A ...B }` with `A { x: a }`, `B { x: a }`: every hypothesis holds, the rule is silent, the clause holds -/
example : Spec.overlappingFieldsCanBeMerged oSchema (oDocFrag "a") :=
  (rule_overlapping_fields_can_be_merged_iff_partial oSchema Fixes.all rfl (oDocFrag "a")
    (parentsAgree_frag "a") (overlapSide_frag "a") (by unfold NoCrash; decide +kernel)).mp
    (by unfold Silent; decide +kernel)

/-- with `B { x: b }` the two fragments conflict: the rule reports (through `_conflicts_between_fragments`) and the
    clause fails -/
example : ¬ Spec.overlappingFieldsCanBeMerged oSchema (oDocFrag "b") := fun h =>
  absurd ((rule_overlapping_fields_can_be_merged_iff_partial oSchema Fixes.all rfl (oDocFrag "b")
    (parentsAgree_frag "b") (overlapSide_frag "b") (by unfold NoCrash; decide +kernel)).mpr h)
    (by unfold Silent; decide +kernel)

end PyGql.Props.C06

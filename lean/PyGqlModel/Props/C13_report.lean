/-
  C13 — "reporting all violations together": the report of the validator is EXACTLY the set of
  violation instances of the schema (`SchemaValidSpec.Violation`, one constructor per rule).
-/
import PyGqlModel.SchemaValid
import PyGqlModel.Spec.SchemaValidSpec
import PyGqlModel.Props.C13

set_option linter.unusedSimpArgs false
set_option linter.unusedVariables false

namespace PyGql.Props.C13
open PyGql PyGql.SchemaValid PyGql.SchemaValidSpec

/-! #### the loop shape, element by element -/

private theorem seen_step {α} (key : α → String) (step : α → Bool → List Err × Bool) (addOK : α → Bool)
    (h1 : ∀ x dup, (step x dup).2 = true → addOK x = true)
    (h2 : ∀ x, addOK x = true → (step x false).2 = true)
    (x : α) (seen : List String) (k : String) :
    (if (step x (seen.contains (key x))).2 = true then key x :: seen else seen).contains k
      = (seen.contains k || (addOK x && key x == k)) := by
  cases hs : (step x (seen.contains (key x))).2 with
  | true =>
    have := h1 _ _ hs
    simp only [if_true, List.contains_cons, this, Bool.true_and]
    rw [Bool.or_comm]; congr 1; exact Bool.beq_comm
  | false =>
    simp only [Bool.false_eq_true, if_false]
    cases ha : addOK x with
    | false => simp
    | true =>
      cases hk : (key x == k) with
      | false => simp
      | true =>
        have hkx : key x = k := by simpa using hk
        cases hd : seen.contains (key x) with
        | true => rw [← hkx, hd]; rfl
        | false => rw [hd] at hs; rw [h2 x ha] at hs; exact absurd hs (by simp)

private theorem mem_forSeen {α} (key : α → String) (step : α → Bool → List Err × Bool) (addOK : α → Bool)
    (h1 : ∀ x dup, (step x dup).2 = true → addOK x = true)
    (h2 : ∀ x, addOK x = true → (step x false).2 = true) (e : Err) :
    ∀ (xs : List α) (seen : List String),
      e ∈ forSeen key step xs seen ↔
        ∃ pre x, At xs pre x ∧
          e ∈ (step x (seen.contains (key x) || pre.any (fun y => addOK y && key y == key x))).1 := by
  intro xs
  induction xs with
  | nil => intro seen; simp [forSeen, At]
  | cons x xs ih =>
    intro seen
    simp only [forSeen, List.mem_append, ih]
    constructor
    · rintro (h | ⟨pre, y, ⟨post, hxs⟩, h⟩)
      · exact ⟨[], x, ⟨xs, rfl⟩, by simpa using h⟩
      · refine ⟨x :: pre, y, ⟨post, by simp [hxs]⟩, ?_⟩
        rw [seen_step key step addOK h1 h2] at h
        simpa [List.any_cons, Bool.or_assoc] using h
    · rintro ⟨pre, y, ⟨post, hxs⟩, h⟩
      cases pre with
      | nil =>
        simp only [List.nil_append, List.cons.injEq] at hxs
        obtain ⟨rfl, rfl⟩ := hxs
        exact Or.inl (by simpa using h)
      | cons z pre =>
        simp only [List.cons_append, List.cons.injEq] at hxs
        obtain ⟨rfl, rfl⟩ := hxs
        refine Or.inr ⟨pre, y, ⟨post, rfl⟩, ?_⟩
        rw [seen_step key step addOK h1 h2]
        simpa [List.any_cons, Bool.or_assoc] using h

private theorem any_key_iff {α} (key : α → String) (pre : List α) (k : String) :
    pre.any (fun y => true && key y == k) = true ↔ k ∈ pre.map key := by
  simp only [Bool.true_and, List.any_eq_true, List.mem_map, beq_iff_eq]

private theorem mem_checkValidName (n : String) (e : Err) :
    e ∈ checkValidName n ↔ isValidName n = false ∧ e = ⟨.invalidName, [n]⟩ := by
  unfold checkValidName
  cases isValidName n <;> simp

/-! #### level by level -/

private theorem mem_validateArguments (s : SchemaD) (r1 r2 : Rule) (owner : String) (args : List ArgD) (e : Err) :
    e ∈ validateArguments s r1 r2 owner args ↔ ArgViol s r1 r2 owner args e := by
  unfold validateArguments
  rw [mem_forSeen (·.name) _ (fun _ => true) (fun _ _ _ => rfl) (fun _ _ => rfl) e args []]
  constructor
  · rintro ⟨pre, a, hat, h⟩
    simp only [List.contains_nil, Bool.false_or, List.mem_append, mem_checkValidName] at h
    rcases h with ⟨hn, rfl⟩ | h
    · exact .name hat hn
    · cases hd : pre.any (fun y => true && y.name == a.name) with
      | true =>
        rw [hd] at h; simp only [if_true, List.mem_singleton] at h; subst h
        exact .dup hat ((any_key_iff (·.name) pre a.name).1 hd)
      | false =>
        rw [hd] at h; simp only [Bool.false_eq_true, if_false] at h
        have hnd : a.name ∉ pre.map (·.name) := fun hm => by
          rw [(any_key_iff (·.name) pre a.name).2 hm] at hd; exact absurd hd (by simp)
        cases hi : isInputType s a.type with
        | true => rw [hi] at h; simp at h
        | false => rw [hi] at h; simp only [Bool.false_eq_true, if_false, List.mem_singleton] at h; subst h; exact .notInput hat hnd hi
  · intro h
    cases h with
    | @name pre a hat hn =>
      exact ⟨pre, a, hat, by simp [mem_checkValidName, hn]⟩
    | @dup pre a hat hm =>
      refine ⟨pre, a, hat, ?_⟩
      simp only [List.contains_nil, Bool.false_or, (any_key_iff (·.name) pre a.name).2 hm, if_true, List.mem_append,
        List.mem_singleton, or_true]
    | @notInput pre a hat hnm hi =>
      refine ⟨pre, a, hat, ?_⟩
      have : pre.any (fun y => true && y.name == a.name) = false := by
        cases hd : pre.any (fun y => true && y.name == a.name) with
        | false => rfl
        | true => exact absurd ((any_key_iff (·.name) pre a.name).1 hd) hnm
      simp only [List.contains_nil, Bool.false_or, this, Bool.false_eq_true, if_false, hi, List.mem_append,
        List.mem_singleton, or_true]

private theorem mem_resolverArgErr (path : String) (params : List ParamD) (varKw : Bool) (a : ArgD) (e : Err) :
    e ∈ resolverArgErr path params varKw a ↔
      (findParam params a.pythonName = none ∧ varKw = false ∧ e = ⟨.resMissingParam, [a.name, path]⟩) ∨
      (∃ p, findParam params a.pythonName = some p ∧ p.kind = .posOnly ∧ e = ⟨.resPosOnly, [a.name, path]⟩) ∨
      (∃ p, findParam params a.pythonName = some p ∧ p.kind ≠ .posOnly ∧ p.hasDefault = false ∧ a.hasDefault = false ∧
          argRequired a = false ∧ e = ⟨.resNeedsDefault, [a.name, path]⟩) := by
  unfold resolverArgErr
  cases findParam params a.pythonName with
  | none => cases varKw <;> simp
  | some p =>
    by_cases hk : p.kind = .posOnly
    · simp [hk]
    · cases h1 : p.hasDefault <;> cases h2 : a.hasDefault <;> cases h3 : argRequired a <;> simp [hk]

private theorem mem_validateResolverArguments (path : String) (args : List ArgD) (r : ResolverD)
    (hi : r.inspectable = true) (e : Err) :
    e ∈ validateResolverArguments path args r ↔ ResolverViol path args r e := by
  unfold validateResolverArguments
  simp only [hi, Bool.not_true, Bool.false_eq_true, if_false, List.mem_append, List.mem_flatMap, mem_resolverArgErr]
  constructor
  · rintro ((⟨a, ha, h⟩ | h) | ⟨p, hp, h⟩)
    · rcases h with ⟨h1, h2, rfl⟩ | ⟨p, h1, h2, rfl⟩ | ⟨p, h1, h2, h3, h4, h5, rfl⟩
      · exact .missingParam ha h1 h2
      · exact .posOnly ha h1 h2
      · exact .needsDefault ha h1 h2 h3 h4 h5
    · split at h
      · rename_i hc
        simp only [List.mem_singleton] at h; subst h
        simp only [Bool.and_eq_true, Bool.not_eq_true', decide_eq_true_eq] at hc
        exact .positional hc.1 hc.2
      · simp at h
    · cases hd : p.hasDefault with
      | true => rw [hd] at h; simp at h
      | false => rw [hd] at h; simp only [Bool.false_eq_true, if_false, List.mem_singleton] at h; subst h; exact .extraRequired hp hd
  · intro h
    cases h with
    | @missingParam a ha h1 h2 => exact Or.inl (Or.inl ⟨a, ha, Or.inl ⟨h1, h2, rfl⟩⟩)
    | @posOnly a p ha h1 h2 => exact Or.inl (Or.inl ⟨a, ha, Or.inr (Or.inl ⟨p, h1, h2, rfl⟩)⟩)
    | @needsDefault a p ha h1 h2 h3 h4 h5 => exact Or.inl (Or.inl ⟨a, ha, Or.inr (Or.inr ⟨p, h1, h2, h3, h4, h5, rfl⟩)⟩)
    | positional h1 h2 => exact Or.inl (Or.inr (by simp [h1, h2]))
    | @extraRequired p hp hd => exact Or.inr ⟨p, hp, by simp [hd]⟩

private theorem mem_fieldBody (s : SchemaD) (rv : Bool) (t : TypeD) (f : FieldD) (e : Err) :
    e ∈ fieldBody s rv t f ↔
      (isOutputType s f.type = false ∧ e = ⟨.fieldNotOutput, [f.name, t.name, f.type.render]⟩) ∨
      ArgViol s .dupArg .argNotInput (t.name ++ "." ++ f.name) f.args e ∨
      (∃ r, pickResolver s t f = some r ∧ rv = true ∧ r.inspectable = true ∧
        ResolverViol (t.name ++ "." ++ f.name) f.args r e) := by
  unfold fieldBody
  simp only [List.mem_append, mem_validateArguments, or_assoc]
  refine or_congr ?_ (or_congr Iff.rfl ?_)
  · cases isOutputType s f.type <;> simp
  · cases hp : pickResolver s t f with
    | none => simp
    | some r =>
      cases rv with
      | false => simp
      | true =>
        cases hi : r.inspectable with
        | true => simp [mem_validateResolverArguments _ _ _ hi, hi]
        | false => simp [validateResolverArguments, hi]

private theorem not_any_key {α} (key : α → String) (pre : List α) (k : String) (h : k ∉ pre.map key) :
    pre.any (fun y => true && key y == k) = false := by
  cases hd : pre.any (fun y => true && key y == k) with
  | false => rfl
  | true => exact absurd ((any_key_iff key pre k).1 hd) h

private theorem mem_validateFields (s : SchemaD) (rv : Bool) (t : TypeD) (e : Err) :
    e ∈ validateFields s rv t ↔ (t.fields = [] ∧ e = ⟨.noFields, [t.name]⟩) ∨ FieldViol s rv t e := by
  unfold validateFields
  rw [List.mem_append, mem_forSeen (·.name) _ (fun _ => true) (fun _ _ _ => rfl) (fun _ _ => rfl) e t.fields []]
  refine or_congr ?_ ?_
  · cases h : t.fields <;> simp
  · constructor
    · rintro ⟨pre, f, hat, h⟩
      simp only [List.contains_nil, Bool.false_or, List.mem_append, mem_checkValidName] at h
      rcases h with ⟨hn, rfl⟩ | h
      · exact .name hat hn
      · cases hd : pre.any (fun y => true && y.name == f.name) with
        | true =>
          rw [hd] at h; simp only [if_true, List.mem_singleton] at h; subst h
          exact .dup hat ((any_key_iff (·.name) pre f.name).1 hd)
        | false =>
          rw [hd] at h; simp only [Bool.false_eq_true, if_false] at h
          have hnd : f.name ∉ pre.map (·.name) := fun hm => by
            rw [(any_key_iff (·.name) pre f.name).2 hm] at hd; exact absurd hd (by simp)
          rcases (mem_fieldBody s rv t f e).1 h with ⟨ho, rfl⟩ | ha | ⟨r, h1, h2, h3, h4⟩
          · exact .notOutput hat hnd ho
          · exact .arg hat hnd ha
          · exact .resolver hat hnd h1 h2 h3 h4
    · intro h
      cases h with
      | @name pre f hat hn => exact ⟨pre, f, hat, by simp [mem_checkValidName, hn]⟩
      | @dup pre f hat hm =>
        exact ⟨pre, f, hat, by simp only [List.contains_nil, Bool.false_or, (any_key_iff (·.name) pre f.name).2 hm,
          if_true, List.mem_append, List.mem_singleton, or_true]⟩
      | @notOutput pre f hat hnm ho =>
        refine ⟨pre, f, hat, ?_⟩
        simp only [List.contains_nil, Bool.false_or, not_any_key (·.name) pre f.name hnm, Bool.false_eq_true, if_false,
          List.mem_append]
        exact Or.inr ((mem_fieldBody s rv t f _).2 (Or.inl ⟨ho, rfl⟩))
      | @arg pre f e hat hnm ha =>
        refine ⟨pre, f, hat, ?_⟩
        simp only [List.contains_nil, Bool.false_or, not_any_key (·.name) pre f.name hnm, Bool.false_eq_true, if_false,
          List.mem_append]
        exact Or.inr ((mem_fieldBody s rv t f _).2 (Or.inr (Or.inl ha)))
      | @resolver pre f r e hat hnm h1 h2 h3 h4 =>
        refine ⟨pre, f, hat, ?_⟩
        simp only [List.contains_nil, Bool.false_or, not_any_key (·.name) pre f.name hnm, Bool.false_eq_true, if_false,
          List.mem_append]
        exact Or.inr ((mem_fieldBody s rv t f _).2 (Or.inr (Or.inr ⟨r, h1, h2, h3, h4⟩)))

private theorem mem_ifaceArgErr (ip op : String) (o : FieldD) (a : ArgD) (e : Err) :
    e ∈ ifaceArgErr ip op o a ↔
      (argMap o a.name = none ∧ e = ⟨.ifaceArgMissing, [ip, a.name, op]⟩) ∨
      (∃ oa, argMap o a.name = some oa ∧ a.type ≠ oa.type ∧
        e = ⟨.ifaceArgType, [ip, a.name, a.type.render, op, a.name, oa.type.render]⟩) := by
  unfold ifaceArgErr
  cases argMap o a.name with
  | none => simp
  | some oa => by_cases h : a.type = oa.type <;> simp [h]

private theorem mem_extraArgErr (ip op : String) (f : FieldD) (a : ArgD) (e : Err) :
    e ∈ extraArgErr ip op f a ↔
      (argMap f a.name = none ∧ a.type.isNonNull = true ∧ e = ⟨.extraRequiredArg, [op, a.name, a.type.render, ip]⟩) := by
  unfold extraArgErr
  cases argMap f a.name with
  | none => cases a.type.isNonNull <;> simp
  | some _ => simp

private theorem mem_validateImplementation (s : SchemaD) (t it : TypeD) (e : Err) :
    e ∈ validateImplementation s t it ↔ ImplViol s t it e := by
  unfold validateImplementation
  simp only [List.mem_flatMap]
  constructor
  · rintro ⟨f, hf, h⟩
    unfold implFieldErr at h
    cases hm : fieldMap t f.name with
    | none => rw [hm] at h; simp only [List.mem_singleton] at h; subst h; exact .fieldMissing hf hm
    | some o =>
      rw [hm] at h
      simp only [] at h
      cases hs : isSubtype s o.type f.type with
      | false =>
        rw [hs] at h; simp only [Bool.not_false, if_true, List.mem_singleton] at h; subst h
        exact .fieldType hf hm (fun hsub => by rw [(subtype_iff s _ _).2 hsub] at hs; exact absurd hs (by simp))
      | true =>
        have hsub := (subtype_iff s _ _).1 hs
        rw [hs] at h
        simp only [Bool.not_true, Bool.false_eq_true, if_false, List.mem_append, List.mem_flatMap, mem_ifaceArgErr,
          mem_extraArgErr] at h
        rcases h with ⟨a, ha, ⟨h1, rfl⟩ | ⟨oa, h1, h2, rfl⟩⟩ | ⟨a, ha, h1, h2, rfl⟩
        · exact .argMissing hf hm hsub ha h1
        · exact .argType hf hm hsub ha h1 h2
        · exact .extraRequired hf hm hsub ha h1 h2
  · intro h
    cases h with
    | @fieldMissing f hf hm => exact ⟨f, hf, by simp [implFieldErr, hm]⟩
    | @fieldType f o hf hm hns =>
      refine ⟨f, hf, ?_⟩
      have : isSubtype s o.type f.type = false := by
        cases hs : isSubtype s o.type f.type with
        | false => rfl
        | true => exact absurd ((subtype_iff s _ _).1 hs) hns
      simp [implFieldErr, hm, this]
    | @argMissing f o a hf hm hs ha h1 =>
      refine ⟨f, hf, ?_⟩
      simp only [implFieldErr, hm, (subtype_iff s _ _).2 hs, Bool.not_true, Bool.false_eq_true, if_false, List.mem_append,
        List.mem_flatMap, mem_ifaceArgErr, mem_extraArgErr]
      exact Or.inl ⟨a, ha, Or.inl ⟨h1, rfl⟩⟩
    | @argType f o a oa hf hm hs ha h1 h2 =>
      refine ⟨f, hf, ?_⟩
      simp only [implFieldErr, hm, (subtype_iff s _ _).2 hs, Bool.not_true, Bool.false_eq_true, if_false, List.mem_append,
        List.mem_flatMap, mem_ifaceArgErr, mem_extraArgErr]
      exact Or.inl ⟨a, ha, Or.inr ⟨oa, h1, h2, rfl⟩⟩
    | @extraRequired f o a hf hm hs ha h1 h2 =>
      refine ⟨f, hf, ?_⟩
      simp only [implFieldErr, hm, (subtype_iff s _ _).2 hs, Bool.not_true, Bool.false_eq_true, if_false, List.mem_append,
        List.mem_flatMap, mem_ifaceArgErr, mem_extraArgErr]
      exact Or.inr ⟨a, ha, h1, h2, rfl⟩

private theorem any_id_iff (f : String → Bool) (pre : List String) (k : String) (hk : f k = true) :
    pre.any (fun y => f y && id y == k) = true ↔ k ∈ pre := by
  simp only [List.any_eq_true, Bool.and_eq_true, id, beq_iff_eq]
  constructor
  · rintro ⟨y, hy, _, rfl⟩; exact hy
  · intro h; exact ⟨k, h, hk, rfl⟩

private theorem mem_validateInterfaces (s : SchemaD) (t : TypeD) (e : Err) :
    e ∈ validateInterfaces s t ↔ IfaceViol s t e := by
  unfold validateInterfaces
  rw [mem_forSeen id (interfaceStep s t) (isIface s) ?_ ?_ e t.interfaces []]
  rotate_left
  · intro i dup h
    unfold interfaceStep at h; unfold isIface
    cases hf : s.findType i with
    | none => rw [hf] at h; simp at h
    | some it =>
      rw [hf] at h; simp only [] at h ⊢
      by_cases hk : it.kind = .interface
      · simp [hk]
      · simp [hk] at h
  · intro i h
    unfold isIface at h; unfold interfaceStep
    cases hf : s.findType i with
    | none => rw [hf] at h; simp at h
    | some it =>
      rw [hf] at h; simp only [beq_iff_eq] at h
      simp [h]
  constructor
  · rintro ⟨pre, i, hat, h⟩
    simp only [List.contains_nil, Bool.false_or, id] at h
    unfold interfaceStep at h
    cases hf : s.findType i with
    | none =>
      rw [hf] at h; simp only [List.mem_singleton] at h; subst h
      exact .notInterface hat (by simp [isIface, hf])
    | some it =>
      rw [hf] at h; simp only [] at h
      by_cases hk : it.kind = .interface
      · have hif : isIface s i = true := by simp [isIface, hf, hk]
        simp only [hk, bne_self_eq_false, Bool.false_eq_true, if_false] at h
        cases hd : pre.any (fun y => isIface s y && y == i) with
        | true =>
          rw [hd] at h; simp only [if_true, List.mem_singleton] at h; subst h
          exact .dup hat hif ((any_id_iff (isIface s) pre i hif).1 hd)
        | false =>
          rw [hd] at h; simp only [Bool.false_eq_true, if_false] at h
          have hnp : i ∉ pre := fun hm => by
            have h2 := (any_id_iff (isIface s) pre i hif).2 hm
            simp only [id] at h2
            rw [h2] at hd; exact absurd hd (by simp)
          exact .impl hat hf hk hnp ((mem_validateImplementation s t it e).1 h)
      · have : (it.kind != .interface) = true := by simpa using hk
        rw [this] at h; simp only [if_true, List.mem_singleton] at h; subst h
        exact .notInterface hat (by simp [isIface, hf, hk])
  · intro h
    cases h with
    | @notInterface pre i hat hni =>
      refine ⟨pre, i, hat, ?_⟩
      unfold isIface at hni
      unfold interfaceStep
      cases hf : s.findType i with
      | none => simp
      | some it =>
        rw [hf] at hni; simp only [beq_eq_false_iff_ne, ne_eq] at hni
        simp [hni]
    | @dup pre i hat hif hm =>
      refine ⟨pre, i, hat, ?_⟩
      have hd := (any_id_iff (isIface s) pre i hif).2 hm
      unfold isIface at hif
      unfold interfaceStep
      cases hf : s.findType i with
      | none => rw [hf] at hif; simp at hif
      | some it =>
        rw [hf] at hif; simp only [beq_iff_eq] at hif
        simp only [id, List.contains_nil, Bool.false_or] at hd ⊢
        simp [hif, hd]
    | @impl pre i it e hat hf hk hnp hv =>
      refine ⟨pre, i, hat, ?_⟩
      have hif : isIface s i = true := by simp [isIface, hf, hk]
      have hd : pre.any (fun y => isIface s y && id y == id i) = false := by
        cases hd : pre.any (fun y => isIface s y && id y == id i) with
        | false => rfl
        | true => exact absurd ((any_id_iff (isIface s) pre i hif).1 hd) hnp
      simp only [List.contains_nil, Bool.false_or, hd, interfaceStep, hf, hk, bne_self_eq_false, Bool.false_eq_true,
        if_false]
      exact (mem_validateImplementation s t it e).2 hv

private theorem mem_validateUnionMembers (s : SchemaD) (t : TypeD) (e : Err) :
    e ∈ validateUnionMembers s t ↔ UnionViol s t e := by
  unfold validateUnionMembers
  rw [List.mem_append, mem_forSeen id (memberStep s t) (fun m => kindOf s m == some .object) ?_ ?_ e t.members []]
  rotate_left
  · intro m dup h
    unfold memberStep at h
    by_cases hk : kindOf s m = some .object
    · simp [hk]
    · simp [hk] at h
  · intro m h
    have hk : kindOf s m = some .object := by simpa using h
    simp [memberStep, hk]
  constructor
  · rintro (h | ⟨pre, m, hat, h⟩)
    · cases hm : t.members with
      | nil => rw [hm] at h; simp only [List.isEmpty_nil, if_true, List.mem_singleton] at h; subst h; exact .empty hm
      | cons a as => rw [hm] at h; simp at h
    · simp only [List.contains_nil, Bool.false_or, id] at h
      unfold memberStep at h
      by_cases hk : kindOf s m = some .object
      · have hk' : (kindOf s m == some .object) = true := by simp [hk]
        simp only [hk, bne_self_eq_false, Bool.false_eq_true, if_false] at h
        cases hd : pre.any (fun y => (kindOf s y == some .object) && y == m) with
        | true =>
          rw [hd] at h; simp only [if_true, List.mem_singleton] at h; subst h
          exact .dup hat hk ((any_id_iff (fun m => kindOf s m == some .object) pre m hk').1 hd)
        | false => rw [hd] at h; simp at h
      · have : (kindOf s m != some .object) = true := by simpa using hk
        rw [this] at h; simp only [if_true, List.mem_singleton] at h; subst h
        exact .notObject hat hk
  · intro h
    cases h with
    | empty hm => exact Or.inl (by simp [hm])
    | @notObject pre m hat hk =>
      refine Or.inr ⟨pre, m, hat, ?_⟩
      have : (kindOf s m != some .object) = true := by simpa using hk
      simp [memberStep, this]
    | @dup pre m hat hk hm =>
      refine Or.inr ⟨pre, m, hat, ?_⟩
      have hk' : (kindOf s m == some .object) = true := by simp [hk]
      have hd := (any_id_iff (fun m => kindOf s m == some .object) pre m hk').2 hm
      simp only [id] at hd
      simp only [List.contains_nil, Bool.false_or, id, memberStep, hk, bne_self_eq_false, Bool.false_eq_true, if_false, hd,
        if_true, List.mem_singleton]

private theorem mem_validateEnumValues (t : TypeD) (e : Err) : e ∈ validateEnumValues t ↔ EnumViol t e := by
  unfold validateEnumValues
  simp only [List.mem_append, List.mem_flatMap, mem_checkValidName]
  constructor
  · rintro (h | ⟨v, hv, hn, rfl⟩)
    · cases hm : t.values with
      | nil => rw [hm] at h; simp only [List.isEmpty_nil, if_true, List.mem_singleton] at h; subst h; exact .empty hm
      | cons a as => rw [hm] at h; simp at h
    · exact .name hv hn
  · intro h
    cases h with
    | empty hm => exact Or.inl (by simp [hm])
    | @name v hv hn => exact Or.inr ⟨v, hv, hn, rfl⟩

private theorem mem_validateInputFields (s : SchemaD) (t : TypeD) (e : Err) :
    e ∈ validateInputFields s t ↔ InputViol s t e := by
  unfold validateInputFields
  rw [List.mem_append, mem_forSeen (·.name) _ (fun _ => true) (fun _ _ _ => rfl) (fun _ _ => rfl) e t.inputFields []]
  constructor
  · rintro (h | ⟨pre, a, hat, h⟩)
    · cases hm : t.inputFields with
      | nil => rw [hm] at h; simp only [List.isEmpty_nil, if_true, List.mem_singleton] at h; subst h; exact .empty hm
      | cons a as => rw [hm] at h; simp at h
    · simp only [List.contains_nil, Bool.false_or, List.mem_append, mem_checkValidName] at h
      rcases h with ⟨hn, rfl⟩ | h
      · exact .name hat hn
      · cases hd : pre.any (fun y => true && y.name == a.name) with
        | true =>
          rw [hd] at h; simp only [if_true, List.mem_singleton] at h; subst h
          exact .dup hat ((any_key_iff (·.name) pre a.name).1 hd)
        | false =>
          rw [hd] at h; simp only [Bool.false_eq_true, if_false] at h
          have hnd : a.name ∉ pre.map (·.name) := fun hm => by
            rw [(any_key_iff (·.name) pre a.name).2 hm] at hd; exact absurd hd (by simp)
          cases hi : isInputType s a.type with
          | true => rw [hi] at h; simp at h
          | false => rw [hi] at h; simp only [Bool.false_eq_true, if_false, List.mem_singleton] at h; subst h; exact .notInput hat hnd hi
  · intro h
    cases h with
    | empty hm => exact Or.inl (by simp [hm])
    | @name pre a hat hn => exact Or.inr ⟨pre, a, hat, by simp [mem_checkValidName, hn]⟩
    | @dup pre a hat hm =>
      exact Or.inr ⟨pre, a, hat, by simp only [List.contains_nil, Bool.false_or, (any_key_iff (·.name) pre a.name).2 hm,
        if_true, List.mem_append, List.mem_singleton, or_true]⟩
    | @notInput pre a hat hnm hi =>
      exact Or.inr ⟨pre, a, hat, by simp only [List.contains_nil, Bool.false_or, not_any_key (·.name) pre a.name hnm,
        Bool.false_eq_true, if_false, hi, List.mem_append, List.mem_singleton, or_true]⟩

private theorem mem_validateType (s : SchemaD) (rv : Bool) (t : TypeD) (e : Err) :
    e ∈ validateType s rv t ↔ TypeViol s rv t e := by
  unfold validateType
  cases hx : (t.builtin || isValidName t.name) with
  | false =>
    simp only [Bool.not_false, if_true, List.mem_singleton]
    constructor
    · rintro rfl; exact .typeName hx
    · intro h
      cases h with
      | typeName _ => rfl
      | noFields he _ _ => exact absurd he (by simp [Examined, hx])
      | field he _ _ => exact absurd he (by simp [Examined, hx])
      | iface he _ _ => exact absurd he (by simp [Examined, hx])
      | union he _ _ => exact absurd he (by simp [Examined, hx])
      | enum he _ _ => exact absurd he (by simp [Examined, hx])
      | input he _ _ => exact absurd he (by simp [Examined, hx])
  | true =>
    have hex : Examined t := hx
    simp only [Bool.not_true, Bool.false_eq_true, if_false]
    constructor
    · intro h
      cases hk : t.kind with
      | object =>
        rw [hk] at h; simp only [List.mem_append, mem_validateFields, mem_validateInterfaces] at h
        rcases h with (⟨h1, rfl⟩ | h) | h
        · exact .noFields hex (Or.inl hk) h1
        · exact .field hex (Or.inl hk) h
        · exact .iface hex hk h
      | interface =>
        rw [hk] at h; simp only [mem_validateFields] at h
        rcases h with ⟨h1, rfl⟩ | h
        · exact .noFields hex (Or.inr hk) h1
        · exact .field hex (Or.inr hk) h
      | union => rw [hk] at h; exact .union hex hk ((mem_validateUnionMembers s t e).1 h)
      | enum => rw [hk] at h; exact .enum hex hk ((mem_validateEnumValues t e).1 h)
      | input => rw [hk] at h; exact .input hex hk ((mem_validateInputFields s t e).1 h)
      | scalar => rw [hk] at h; simp at h
    · intro h
      cases h with
      | typeName hf => rw [hx] at hf; exact absurd hf (by simp)
      | noFields _ hk hf =>
        rcases hk with hk | hk <;> simp [hk, mem_validateFields, hf]
      | field _ hk hf =>
        rcases hk with hk | hk <;> simp [hk, mem_validateFields, hf]
      | iface _ hk hf => simp [hk, mem_validateInterfaces, hf]
      | union _ hk hf => simp only [hk]; exact (mem_validateUnionMembers s t e).2 hf
      | enum _ hk hf => simp only [hk]; exact (mem_validateEnumValues t e).2 hf
      | input _ hk hf => simp only [hk]; exact (mem_validateInputFields s t e).2 hf

private theorem mem_rootErr (s : SchemaD) (r : Rule) (o : Option String) (e : Err) :
    e ∈ rootErr s r o ↔ ∃ n, o = some n ∧ kindOf s n ≠ some .object ∧ e = ⟨r, [n]⟩ := by
  unfold rootErr
  cases o with
  | none => simp
  | some n => by_cases h : kindOf s n = some .object <;> simp [h]

private theorem mem_validateRootTypes (s : SchemaD) (e : Err) : e ∈ validateRootTypes s ↔ RootViol s e := by
  unfold validateRootTypes
  simp only [List.mem_append, mem_rootErr]
  constructor
  · rintro (((h | ⟨n, h1, h2, rfl⟩) | ⟨n, h1, h2, rfl⟩) | ⟨n, h1, h2, rfl⟩)
    · cases hq : s.query with
      | none => rw [hq] at h; simp only [Option.isNone_none, if_true, List.mem_singleton] at h; subst h; exact .noQuery hq
      | some q => rw [hq] at h; simp at h
    · exact .query h1 h2
    · exact .mutation h1 h2
    · exact .subscription h1 h2
  · intro h
    cases h with
    | noQuery hq => exact Or.inl (Or.inl (Or.inl (by simp [hq])))
    | @query n h1 h2 => exact Or.inl (Or.inl (Or.inr ⟨n, h1, h2, rfl⟩))
    | @mutation n h1 h2 => exact Or.inl (Or.inr ⟨n, h1, h2, rfl⟩)
    | @subscription n h1 h2 => exact Or.inr ⟨n, h1, h2, rfl⟩

private theorem mem_validateDirectives (s : SchemaD) (e : Err) : e ∈ validateDirectives s ↔ DirViol s e := by
  unfold validateDirectives
  simp only [List.mem_flatMap, List.mem_append, mem_checkValidName, mem_validateArguments]
  constructor
  · rintro ⟨d, hd, ⟨hn, rfl⟩ | h⟩
    · exact .name hd hn
    · exact .arg hd h
  · intro h
    cases h with
    | @name d hd hn => exact ⟨d, hd, Or.inl ⟨hn, rfl⟩⟩
    | @arg d e hd ha => exact ⟨d, hd, Or.inr ha⟩

/-! ## Property theorems -/

/-- **All violations together, literally.** An error is in the report of `SchemaValidator` if and only if
    it is the error of a violation instance of the schema (`Violation`: one constructor per rule, each
    naming the position that breaks the rule). In particular every violated rule instance has its own
    error, whatever else is wrong with the schema, and nothing else is reported. -/
theorem violation_iff (s : SchemaD) (rv : Bool) (e : Err) : e ∈ validate s rv ↔ Violation s rv e := by
  unfold validate
  simp only [List.mem_append, List.mem_flatMap, mem_validateRootTypes, mem_validateType, mem_validateDirectives]
  constructor
  · rintro ((h | ⟨t, ht, h⟩) | h)
    · exact .root h
    · exact .type ht h
    · exact .directive h
  · intro h
    cases h with
    | root h => exact Or.inl (Or.inl h)
    | @type t e ht h => exact Or.inl (Or.inr ⟨t, ht, h⟩)
    | directive h => exact Or.inr h

/-- every violated rule instance is reported (the direction the property states) -/
theorem reports_every_violation (s : SchemaD) (rv : Bool) (e : Err) (h : Violation s rv e) : e ∈ validate s rv :=
  (violation_iff s rv e).2 h

/-- a schema is valid exactly when it has no violation instance -/
theorem valid_iff_no_violation (s : SchemaD) (rv : Bool) : ValidSchema s rv ↔ ∀ e, ¬ Violation s rv e := by
  rw [← validate_iff]
  constructor
  · intro h e hv; have := (violation_iff s rv e).2 hv; rw [h] at this; exact absurd this (by simp)
  · intro h
    cases hv : validate s rv with
    | nil => rfl
    | cons e es => exact absurd ((violation_iff s rv e).1 (by rw [hv]; exact List.mem_cons_self ..)) (h e)

/-! ### non-vacuity: three violations of three different rules in one schema, each with its own error -/

private def exInt' : TypeD := { kind := .scalar, name := "Int", builtin := true }
private def exBadF : FieldD := { name := "__a", type := .named "Int" }
private def exQ : TypeD := { kind := .object, name := "Query", fields := [{ name := "a", type := .named "Int" }, exBadF] }
private def exU : TypeD := { kind := .union, name := "U", members := ["Query", "Int", "Query"] }
private def exBad : SchemaD := { types := [exInt', exQ, exU] }

example : Violation exBad true ⟨.invalidName, ["__a"]⟩ :=
  .type (t := exQ) (by simp [exBad]) (.field (by unfold Examined; decide) (Or.inl rfl)
    (.name (pre := [{ name := "a", type := .named "Int" }]) (f := exBadF) ⟨[], rfl⟩ (by decide)))
example : Violation exBad true ⟨.unionMemberNotObject, ["U", "Int"]⟩ :=
  .type (t := exU) (by simp [exBad]) (.union (by unfold Examined; decide) rfl (.notObject (pre := ["Query"]) ⟨["Query"], rfl⟩ (by decide)))
example : Violation exBad true ⟨.unionDup, ["U", "Query"]⟩ :=
  .type (t := exU) (by simp [exBad]) (.union (by unfold Examined; decide) rfl (.dup (pre := ["Query", "Int"]) ⟨[], rfl⟩ (by decide) (by decide)))
example : (validate exBad true).map (·.rule) = [.invalidName, .unionMemberNotObject, .unionDup] := by decide

end PyGql.Props.C13

/-
  C13 — "reporting all violations together": the report of the validator is EXACTLY the set of
  violation instances of the schema (`SchemaValidSpec.Violation`, one constructor per rule).
-/
import PyGqlModel.SchemaValid
import PyGqlModel.Spec.SchemaValidSpec
import PyGqlModel.Props.C13

set_option linter.unusedSimpArgs false
set_option linter.unusedVariables false

namespace PyGql.Props.C13
open PyGql PyGql.SchemaValid PyGql.SchemaValidSpec

/-! #### the loop shape, element by element -/

private theorem seen_step {α} (key : α → String) (step : α → Bool → List Err × Bool) (addOK : α → Bool)
    (h1 : ∀ x dup, (step x dup).2 = true → addOK x = true)
    (h2 : ∀ x, addOK x = true → (step x false).2 = true)
    (x : α) (seen : List String) (k : String) :
    (if (step x (seen.contains (key x))).2 = true then key x :: seen else seen).contains k
      = (seen.contains k || (addOK x && key x == k)) := by
  cases hs : (step x (seen.contains (key x))).2 with
  | true =>
    have := h1 _ _ hs
    simp only [if_true, List.contains_cons, this, Bool.true_and]
    rw [Bool.or_comm]; congr 1; exact Bool.beq_comm
  | false =>
    simp only [Bool.false_eq_true, if_false]
    cases ha : addOK x with
    | false => simp
    | true =>
      cases hk : (key x == k) with
      | false => simp
      | true =>
        have hkx : key x = k := by simpa using hk
        cases hd : seen.contains (key x) with
        | true => rw [← hkx, hd]; rfl
        | false => rw [hd] at hs; rw [h2 x ha] at hs; exact absurd hs (by simp)

private theorem mem_forSeen {α} (key : α → String) (step : α → Bool → List Err × Bool) (addOK : α → Bool)
    (h1 : ∀ x dup, (step x dup).2 = true → addOK x = true)
    (h2 : ∀ x, addOK x = true → (step x false).2 = true) (e : Err) :
    ∀ (xs : List α) (seen : List String),
      e ∈ forSeen key step xs seen ↔
        ∃ pre x, At xs pre x ∧
          e ∈ (step x (seen.contains (key x) || pre.any (fun y => addOK y && key y == key x))).1 := by
  intro xs
  induction xs with
  | nil => intro seen; simp [forSeen, At]
  | cons x xs ih =>
    intro seen
    simp only [forSeen, List.mem_append, ih]
    constructor
    · rintro (h | ⟨pre, y, ⟨post, hxs⟩, h⟩)
      · exact ⟨[], x, ⟨xs, rfl⟩, by simpa using h⟩
      · refine ⟨x :: pre, y, ⟨post, by simp [hxs]⟩, ?_⟩
        rw [seen_step key step addOK h1 h2] at h
        simpa [List.any_cons, Bool.or_assoc] using h
    · rintro ⟨pre, y, ⟨post, hxs⟩, h⟩
      cases pre with
      | nil =>
        simp only [List.nil_append, List.cons.injEq] at hxs
        obtain ⟨rfl, rfl⟩ := hxs
        exact Or.inl (by simpa using h)
      | cons z pre =>
        simp only [List.cons_append, List.cons.injEq] at hxs
        obtain ⟨rfl, rfl⟩ := hxs
        refine Or.inr ⟨pre, y, ⟨post, rfl⟩, ?_⟩
        rw [seen_step key step addOK h1 h2]
        simpa [List.any_cons, Bool.or_assoc] using h

private theorem any_key_iff {α} (key : α → String) (pre : List α) (k : String) :
    pre.any (fun y => true && key y == k) = true ↔ k ∈ pre.map key := by
  simp only [Bool.true_and, List.any_eq_true, List.mem_map, beq_iff_eq]

private theorem mem_checkValidName (n : String) (e : Err) :
    e ∈ checkValidName n ↔ isValidName n = false ∧ e = ⟨.invalidName, [n]⟩ := by
  unfold checkValidName
  cases isValidName n <;> simp

/-! #### level by level -/

private theorem fx1 : Config.fixed.maskTypeName = false := rfl
private theorem fx2 : Config.fixed.maskDuplicate = false := rfl
private theorem fx3 : Config.fixed.maskImplType = false := rfl
private theorem fx4 : Config.fixed.preciseResolver = true := rfl
private theorem fx5 : Config.fixed.extraArgRequired = true := rfl
private theorem fx6 : Config.fixed.subscriptionChecked = true := rfl
private theorem fx7 : Config.fixed.ifaceResolverChecked = false := rfl
private theorem fx8 : Config.fixed.notCallableReported = true := rfl
private theorem fx9 : Config.fixed.defaultsChecked = true := rfl
private theorem fx10 : Config.fixed.enumNoneReported = true := rfl

private theorem validate_eq' (s : SchemaD) (rv : Bool) : validate s rv = validateFixed s rv := by
  unfold validate; rw [config_fixed]

private theorem mem_notInputErr (s : SchemaD) (r d : Rule) (o : String) (a : ArgD) (e : Err) :
    e ∈ notInputErr Config.fixed s r d o a ↔
      (isInputType s a.type = false ∧ e = ⟨r, [a.name, o, a.type.render]⟩) ∨
      (isInputType s a.type = true ∧ a.hasDefault = true ∧ defaultBad s defaultFuel a.type a.default = true ∧
        e = ⟨d, [a.name, o]⟩) := by
  unfold notInputErr defaultErr
  cases isInputType s a.type <;> cases a.hasDefault <;> cases defaultBad s defaultFuel a.type a.default <;> simp [fx9]

private theorem any_key_bool {α} (key : α → String) (pre : List α) (k : String) :
    (pre.any (fun y => true && key y == k) = true) ↔ k ∈ pre.map key := any_key_iff key pre k

/-- membership in one iteration of a "name / duplicate / body" loop -/
private theorem mem_step {α} (key : α → String) (pre : List α) (x : α) (nameErrs dupErr body : List Err) (e : Err) :
    e ∈ nameErrs ++ (if (([] : List String).contains (key x) || pre.any (fun y => true && key y == key x)) = true then dupErr else []) ++ body ↔
      e ∈ nameErrs ∨ (key x ∈ pre.map key ∧ e ∈ dupErr) ∨ e ∈ body := by
  simp only [List.contains_nil, Bool.false_or, List.mem_append, or_assoc]
  refine or_congr Iff.rfl (or_congr ?_ Iff.rfl)
  cases hd : pre.any (fun y => true && key y == key x) with
  | true => simp [(any_key_iff key pre (key x)).1 hd]
  | false =>
    have : key x ∉ pre.map key := fun hm => by rw [(any_key_iff key pre (key x)).2 hm] at hd; exact absurd hd (by simp)
    simp [this]

private theorem mem_validateArguments (s : SchemaD) (r1 r2 r3 : Rule) (owner : String) (args : List ArgD) (e : Err) :
    e ∈ validateArguments s r1 r2 r3 owner args ↔ ArgViol s r1 r2 r3 owner args e := by
  unfold validateArguments validateArgumentsWith
  rw [mem_forSeen (·.name) _ (fun _ => true) (fun _ _ _ => rfl) (fun _ _ => rfl) e args []]
  simp only [fx2, Bool.and_false, Bool.false_eq_true, if_false]
  constructor
  · rintro ⟨pre, a, hat, h⟩
    rcases (mem_step (·.name) pre a _ _ _ e).1 h with h | ⟨hm, h⟩ | h
    · obtain ⟨hn, rfl⟩ := (mem_checkValidName _ _).1 h; exact .name hat hn
    · simp only [List.mem_singleton] at h; subst h; exact .dup hat hm
    · rcases (mem_notInputErr _ _ _ _ _ _).1 h with ⟨hi, rfl⟩ | ⟨hi, hd, hb, rfl⟩
      · exact .notInput hat hi
      · exact .badDefault hat hi hd hb
  · intro h
    cases h with
    | @name pre a hat hn => exact ⟨pre, a, hat, (mem_step (·.name) pre a _ _ _ _).2 (Or.inl ((mem_checkValidName _ _).2 ⟨hn, rfl⟩))⟩
    | @dup pre a hat hm => exact ⟨pre, a, hat, (mem_step (·.name) pre a _ _ _ _).2 (Or.inr (Or.inl ⟨hm, List.mem_singleton.2 rfl⟩))⟩
    | @notInput pre a hat hi => exact ⟨pre, a, hat, (mem_step (·.name) pre a _ _ _ _).2 (Or.inr (Or.inr ((mem_notInputErr _ _ _ _ _ _).2 (Or.inl ⟨hi, rfl⟩))))⟩
    | @badDefault pre a hat hi hd hb => exact ⟨pre, a, hat, (mem_step (·.name) pre a _ _ _ _).2 (Or.inr (Or.inr ((mem_notInputErr _ _ _ _ _ _).2 (Or.inr ⟨hi, hd, hb, rfl⟩))))⟩

private theorem mem_resolverArgErr (path : String) (ps : List ParamD) (varKw : Bool) (a : ArgD) (e : Err) :
    e ∈ resolverArgErr path ps varKw a ↔
      (∃ p, keywordParam ps a.pythonName = some p ∧ p.hasDefault = false ∧ a.hasDefault = false ∧ argRequired a = false ∧
          e = ⟨.resNeedsDefault, [a.name, path]⟩) ∨
      (keywordParam ps a.pythonName = none ∧
        ((∃ cl, findParam ps a.pythonName = some cl ∧ (leadingNames ps).contains cl.name = true ∧ cl.kind = .posOrKw ∧
            e = ⟨.resCollides, [a.name, path]⟩) ∨
         (∃ cl, findParam ps a.pythonName = some cl ∧ ¬ ((leadingNames ps).contains cl.name = true ∧ cl.kind = .posOrKw) ∧
            cl.kind = .posOnly ∧ varKw = false ∧ e = ⟨.resPosOnly, [a.name, path]⟩) ∨
         ((∀ cl, findParam ps a.pythonName = some cl →
              ¬ ((leadingNames ps).contains cl.name = true ∧ cl.kind = .posOrKw) ∧ cl.kind ≠ .posOnly) ∧
            varKw = false ∧ e = ⟨.resMissingParam, [a.name, path]⟩))) := by
  unfold resolverArgErr
  cases keywordParam ps a.pythonName with
  | some p =>
    cases h1 : p.hasDefault <;> cases h2 : a.hasDefault <;> cases h3 : argRequired a <;> simp
  | none =>
    cases hf : findParam ps a.pythonName with
    | none => cases varKw <;> simp
    | some cl =>
      simp only []
      cases h1 : (leadingNames ps).contains cl.name <;> cases hk : cl.kind <;> cases varKw <;> simp [h1, hk] <;> simp_all

private theorem mem_validateResolverArguments (path : String) (args : List ArgD) (r : ResolverD)
    (hc : r.callable = true) (hi : r.inspectable = true) (e : Err) :
    e ∈ validateResolverArguments path args r ↔ ResolverViol path args r e := by
  unfold validateResolverArguments validateResolverArgumentsWith resolverErrs
  simp only [hc, hi, Bool.not_true, Bool.false_eq_true, if_false, fx4, if_true, List.mem_append, List.mem_flatMap,
    mem_resolverArgErr]
  constructor
  · rintro ((h | ⟨a, ha, h⟩) | ⟨p, hp, h⟩)
    · split at h
      · rename_i hc
        simp only [List.mem_singleton] at h; subst h
        simp only [Bool.and_eq_true, Bool.not_eq_true', decide_eq_true_eq] at hc
        exact .positional hc.1 hc.2
      · simp at h
    · rcases h with ⟨p, h1, h2, h3, h4, rfl⟩ | ⟨hk, ⟨cl, h1, h2, h3, rfl⟩ | ⟨cl, h1, h2, h3, h4, rfl⟩ | ⟨h1, h2, rfl⟩⟩
      · exact .needsDefault ha h1 h2 h3 h4
      · exact .collides ha hk h1 h2 h3
      · exact .posOnly ha hk h1 h2 h3 h4
      · exact .missingParam ha hk h1 h2
    · cases hd : p.hasDefault with
      | true => rw [hd] at h; simp at h
      | false => rw [hd] at h; simp only [Bool.false_eq_true, if_false, List.mem_singleton] at h; subst h; exact .extraRequired hp hd
  · intro h
    cases h with
    | positional h1 h2 => exact Or.inl (Or.inl (by simp [h1, h2]))
    | @needsDefault a p ha h1 h2 h3 h4 => exact Or.inl (Or.inr ⟨a, ha, Or.inl ⟨p, h1, h2, h3, h4, rfl⟩⟩)
    | @collides a cl ha hk h1 h2 h3 => exact Or.inl (Or.inr ⟨a, ha, Or.inr ⟨hk, Or.inl ⟨cl, h1, h2, h3, rfl⟩⟩⟩)
    | @posOnly a cl ha hk h1 h2 h3 h4 => exact Or.inl (Or.inr ⟨a, ha, Or.inr ⟨hk, Or.inr (Or.inl ⟨cl, h1, h2, h3, h4, rfl⟩)⟩⟩)
    | @missingParam a ha hk h1 h2 => exact Or.inl (Or.inr ⟨a, ha, Or.inr ⟨hk, Or.inr (Or.inr ⟨h1, h2, rfl⟩)⟩⟩)
    | @extraRequired p hp hd => exact Or.inr ⟨p, hp, by simp [hd]⟩

private theorem mem_resolverPart (rv : Bool) (path : String) (args : List ArgD) (o : Option ResolverD) (e : Err) :
    e ∈ resolverPart Config.fixed rv path args o ↔
      ∃ r, o = some r ∧ rv = true ∧
        ((r.callable = false ∧ e = ⟨.resNotCallable, [path]⟩) ∨
         (r.callable = true ∧ r.inspectable = true ∧ ResolverViol path args r e)) := by
  unfold resolverPart
  cases o with
  | none => simp
  | some r =>
    cases rv with
    | false => simp
    | true =>
      cases hc : r.callable with
      | false => simp [validateResolverArgumentsWith, hc, fx8]
      | true =>
        cases hi : r.inspectable with
        | true =>
          have := mem_validateResolverArguments path args r hc hi e
          unfold validateResolverArguments at this
          simp [this, hi, hc]
        | false => simp [validateResolverArgumentsWith, hi, hc]

private theorem mem_resolversOfField (s : SchemaD) (rv : Bool) (t : TypeD) (f : FieldD) (e : Err) :
    e ∈ resolversOfField Config.fixed s rv t f ↔
      ∃ r, (pickResolver s t f = some r ∨ f.subscriptionResolver = some r) ∧ rv = true ∧
        ((r.callable = false ∧ e = ⟨.resNotCallable, [t.name ++ "." ++ f.name]⟩) ∨
         (r.callable = true ∧ r.inspectable = true ∧ ResolverViol (t.name ++ "." ++ f.name) f.args r e)) := by
  unfold resolversOfField
  simp only [List.mem_append, fx6, if_true, mem_resolverPart]
  constructor
  · rintro (⟨r, h1, h2⟩ | ⟨r, h1, h2⟩)
    · exact ⟨r, Or.inl h1, h2⟩
    · exact ⟨r, Or.inr h1, h2⟩
  · rintro ⟨r, h1 | h1, h2⟩
    · exact Or.inl ⟨r, h1, h2⟩
    · exact Or.inr ⟨r, h1, h2⟩

private theorem mem_fieldBody (s : SchemaD) (rv : Bool) (t : TypeD) (f : FieldD) (e : Err) :
    e ∈ fieldBody s rv t f ↔
      (isOutputType s f.type = false ∧ e = ⟨.fieldNotOutput, [f.name, t.name, f.type.render]⟩) ∨
      ArgViol s .dupArg .argNotInput .argDefault (t.name ++ "." ++ f.name) f.args e ∨
      (t.kind = .object ∧ ∃ r, (pickResolver s t f = some r ∨ f.subscriptionResolver = some r) ∧ rv = true ∧
        ((r.callable = false ∧ e = ⟨.resNotCallable, [t.name ++ "." ++ f.name]⟩) ∨
         (r.callable = true ∧ r.inspectable = true ∧ ResolverViol (t.name ++ "." ++ f.name) f.args r e))) := by
  have ha := mem_validateArguments s .dupArg .argNotInput .argDefault (t.name ++ "." ++ f.name) f.args e
  unfold validateArguments at ha
  unfold fieldBody fieldBodyWith
  simp only [List.mem_append, ha, fx7, Bool.or_false, or_assoc]
  refine or_congr ?_ (or_congr Iff.rfl ?_)
  · cases isOutputType s f.type <;> simp
  · by_cases hk : t.kind = .object
    · have hk' : (t.kind == Kind.object) = true := by simp [hk]
      simp only [hk', if_true, mem_resolversOfField]
      simp only [hk, true_and]
    · have hk' : (t.kind == Kind.object) = false := by simpa using hk
      simp [hk', hk]

private theorem mem_validateFields (s : SchemaD) (rv : Bool) (t : TypeD) (e : Err) :
    e ∈ validateFields s rv t ↔ (t.fields = [] ∧ e = ⟨.noFields, [t.name]⟩) ∨ FieldViol s rv t e := by
  have hb := mem_fieldBody s rv t
  unfold fieldBody at hb
  unfold validateFields validateFieldsWith
  rw [List.mem_append, mem_forSeen (·.name) _ (fun _ => true) (fun _ _ _ => rfl) (fun _ _ => rfl) e t.fields []]
  simp only [fx2, Bool.and_false, Bool.false_eq_true, if_false]
  refine or_congr ?_ ?_
  · cases h : t.fields <;> simp
  · constructor
    · rintro ⟨pre, f, hat, h⟩
      rcases (mem_step (·.name) pre f _ _ _ e).1 h with h | ⟨hm, h⟩ | h
      · obtain ⟨hn, rfl⟩ := (mem_checkValidName _ _).1 h; exact .name hat hn
      · simp only [List.mem_singleton] at h; subst h; exact .dup hat hm
      · rcases (hb f e).1 h with ⟨ho, rfl⟩ | ha | ⟨hk, r, h1, h2, ⟨h3, rfl⟩ | ⟨h3, h4, h5⟩⟩
        · exact .notOutput hat ho
        · exact .arg hat ha
        · exact .notCallable hat hk h1 h2 h3
        · rcases h1 with h1 | h1
          · exact .resolver hat hk h1 h2 h3 h4 h5
          · exact .subscription hat hk h1 h2 h3 h4 h5
    · intro h
      cases h with
      | @name pre f hat hn => exact ⟨pre, f, hat, (mem_step (·.name) pre f _ _ _ _).2 (Or.inl ((mem_checkValidName _ _).2 ⟨hn, rfl⟩))⟩
      | @dup pre f hat hm => exact ⟨pre, f, hat, (mem_step (·.name) pre f _ _ _ _).2 (Or.inr (Or.inl ⟨hm, List.mem_singleton.2 rfl⟩))⟩
      | @notOutput pre f hat ho =>
        exact ⟨pre, f, hat, (mem_step (·.name) pre f _ _ _ _).2 (Or.inr (Or.inr ((hb f _).2 (Or.inl ⟨ho, rfl⟩))))⟩
      | @arg pre f e hat ha =>
        exact ⟨pre, f, hat, (mem_step (·.name) pre f _ _ _ _).2 (Or.inr (Or.inr ((hb f _).2 (Or.inr (Or.inl ha)))))⟩
      | @resolver pre f r e hat hk h1 h2 h3 h4 h5 =>
        exact ⟨pre, f, hat, (mem_step (·.name) pre f _ _ _ _).2 (Or.inr (Or.inr ((hb f _).2 (Or.inr (Or.inr ⟨hk, r, Or.inl h1, h2, Or.inr ⟨h3, h4, h5⟩⟩)))))⟩
      | @subscription pre f r e hat hk h1 h2 h3 h4 h5 =>
        exact ⟨pre, f, hat, (mem_step (·.name) pre f _ _ _ _).2 (Or.inr (Or.inr ((hb f _).2 (Or.inr (Or.inr ⟨hk, r, Or.inr h1, h2, Or.inr ⟨h3, h4, h5⟩⟩)))))⟩
      | @notCallable pre f r hat hk h1 h2 h3 =>
        exact ⟨pre, f, hat, (mem_step (·.name) pre f _ _ _ _).2 (Or.inr (Or.inr ((hb f _).2 (Or.inr (Or.inr ⟨hk, r, h1, h2, Or.inl ⟨h3, rfl⟩⟩)))))⟩

private theorem mem_ifaceArgErr (ip op : String) (o : FieldD) (a : ArgD) (e : Err) :
    e ∈ ifaceArgErr ip op o a ↔
      (argMap o a.name = none ∧ e = ⟨.ifaceArgMissing, [ip, a.name, op]⟩) ∨
      (∃ oa, argMap o a.name = some oa ∧ a.type ≠ oa.type ∧
        e = ⟨.ifaceArgType, [ip, a.name, a.type.render, op, a.name, oa.type.render]⟩) := by
  unfold ifaceArgErr
  cases argMap o a.name with
  | none => simp
  | some oa => by_cases h : a.type = oa.type <;> simp [h]

private theorem mem_extraArgErr (ip op : String) (f : FieldD) (a : ArgD) (e : Err) :
    e ∈ extraArgErr ip op f a ↔
      (argMap f a.name = none ∧ argRequired a = true ∧ e = ⟨.extraRequiredArg, [op, a.name, a.type.render, ip]⟩) := by
  unfold extraArgErr extraArgErrWith extraArgBlocks
  cases argMap f a.name with
  | none => cases argRequired a <;> simp [fx5]
  | some _ => simp

private theorem mem_validateImplementation (s : SchemaD) (t it : TypeD) (e : Err) :
    e ∈ validateImplementation s t it ↔ ImplViol s t it e := by
  have hx := mem_extraArgErr
  unfold extraArgErr at hx
  unfold validateImplementation validateImplementationWith
  simp only [List.mem_flatMap]
  constructor
  · rintro ⟨f, hf, h⟩
    unfold implFieldErrWith at h
    cases hm : fieldMap t f.name with
    | none => rw [hm] at h; simp only [List.mem_singleton] at h; subst h; exact .fieldMissing hf hm
    | some o =>
      rw [hm] at h
      simp only [fx3, Bool.and_false, Bool.false_eq_true, if_false, List.mem_append, implArgErrsWith, List.mem_flatMap,
        mem_ifaceArgErr, hx] at h
      rcases h with h | ⟨a, ha, ⟨h1, rfl⟩ | ⟨oa, h1, h2, rfl⟩⟩ | ⟨a, ha, h1, h2, rfl⟩
      · cases hs : isSubtype s o.type f.type with
        | false =>
          rw [hs] at h; simp only [Bool.not_false, if_true, List.mem_singleton] at h; subst h
          exact .fieldType hf hm (fun hsub => by rw [(subtype_iff s _ _).2 hsub] at hs; exact absurd hs (by simp))
        | true => rw [hs] at h; simp at h
      · exact .argMissing hf hm ha h1
      · exact .argType hf hm ha h1 h2
      · exact .extraRequired hf hm ha h1 h2
  · intro h
    cases h with
    | @fieldMissing f hf hm => exact ⟨f, hf, by simp [implFieldErrWith, hm]⟩
    | @fieldType f o hf hm hns =>
      refine ⟨f, hf, ?_⟩
      have : isSubtype s o.type f.type = false := by
        cases hs : isSubtype s o.type f.type with
        | false => rfl
        | true => exact absurd ((subtype_iff s _ _).1 hs) hns
      simp [implFieldErrWith, hm, this]
    | @argMissing f o a hf hm ha h1 =>
      refine ⟨f, hf, ?_⟩
      simp only [implFieldErrWith, hm, fx3, Bool.and_false, Bool.false_eq_true, if_false, List.mem_append, implArgErrsWith,
        List.mem_flatMap, mem_ifaceArgErr, hx]
      exact Or.inr (Or.inl ⟨a, ha, Or.inl ⟨h1, rfl⟩⟩)
    | @argType f o a oa hf hm ha h1 h2 =>
      refine ⟨f, hf, ?_⟩
      simp only [implFieldErrWith, hm, fx3, Bool.and_false, Bool.false_eq_true, if_false, List.mem_append, implArgErrsWith,
        List.mem_flatMap, mem_ifaceArgErr, hx]
      exact Or.inr (Or.inl ⟨a, ha, Or.inr ⟨oa, h1, h2, rfl⟩⟩)
    | @extraRequired f o a hf hm ha h1 h2 =>
      refine ⟨f, hf, ?_⟩
      simp only [implFieldErrWith, hm, fx3, Bool.and_false, Bool.false_eq_true, if_false, List.mem_append, implArgErrsWith,
        List.mem_flatMap, mem_ifaceArgErr, hx]
      exact Or.inr (Or.inr ⟨a, ha, h1, h2, rfl⟩)

private theorem any_id_iff (f : String → Bool) (pre : List String) (k : String) (hk : f k = true) :
    pre.any (fun y => f y && id y == k) = true ↔ k ∈ pre := by
  simp only [List.any_eq_true, Bool.and_eq_true, id, beq_iff_eq]
  constructor
  · rintro ⟨y, hy, _, rfl⟩; exact hy
  · intro h; exact ⟨k, h, hk, rfl⟩

private theorem mem_validateInterfaces (s : SchemaD) (t : TypeD) (e : Err) :
    e ∈ validateInterfaces s t ↔ IfaceViol s t e := by
  have hv := mem_validateImplementation s t
  unfold validateImplementation at hv
  unfold validateInterfaces validateInterfacesWith
  rw [mem_forSeen id (interfaceStepWith Config.fixed s t) (isIface s) ?_ ?_ e t.interfaces []]
  rotate_left
  · intro i dup h
    unfold interfaceStepWith at h; unfold isIface
    cases hf : s.findType i with
    | none => rw [hf] at h; simp at h
    | some it =>
      rw [hf] at h; simp only [] at h ⊢
      by_cases hk : it.kind = .interface
      · simp [hk]
      · simp [hk] at h
  · intro i h
    unfold isIface at h; unfold interfaceStepWith
    cases hf : s.findType i with
    | none => rw [hf] at h; simp at h
    | some it =>
      rw [hf] at h; simp only [beq_iff_eq] at h
      simp [h]
  constructor
  · rintro ⟨pre, i, hat, h⟩
    simp only [List.contains_nil, Bool.false_or, id] at h
    unfold interfaceStepWith at h
    cases hf : s.findType i with
    | none =>
      rw [hf] at h; simp only [List.mem_singleton] at h; subst h
      exact .notInterface hat (by simp [isIface, hf])
    | some it =>
      rw [hf] at h; simp only [] at h
      by_cases hk : it.kind = .interface
      · have hif : isIface s i = true := by simp [isIface, hf, hk]
        simp only [hk, bne_self_eq_false, Bool.false_eq_true, if_false] at h
        cases hd : pre.any (fun y => isIface s y && y == i) with
        | true =>
          rw [hd] at h; simp only [if_true, List.mem_singleton] at h; subst h
          exact .dup hat hif ((any_id_iff (isIface s) pre i hif).1 hd)
        | false =>
          rw [hd] at h; simp only [Bool.false_eq_true, if_false] at h
          have hnp : i ∉ pre := fun hm => by
            have h2 := (any_id_iff (isIface s) pre i hif).2 hm
            simp only [id] at h2
            rw [h2] at hd; exact absurd hd (by simp)
          exact .impl hat hf hk hnp ((hv it e).1 h)
      · have : (it.kind != .interface) = true := by simpa using hk
        rw [this] at h; simp only [if_true, List.mem_singleton] at h; subst h
        exact .notInterface hat (by simp [isIface, hf, hk])
  · intro h
    cases h with
    | @notInterface pre i hat hni =>
      refine ⟨pre, i, hat, ?_⟩
      unfold isIface at hni
      unfold interfaceStepWith
      cases hf : s.findType i with
      | none => simp
      | some it =>
        rw [hf] at hni; simp only [beq_eq_false_iff_ne, ne_eq] at hni
        simp [hni]
    | @dup pre i hat hif hm =>
      refine ⟨pre, i, hat, ?_⟩
      have hd := (any_id_iff (isIface s) pre i hif).2 hm
      unfold isIface at hif
      unfold interfaceStepWith
      cases hf : s.findType i with
      | none => rw [hf] at hif; simp at hif
      | some it =>
        rw [hf] at hif; simp only [beq_iff_eq] at hif
        simp only [id, List.contains_nil, Bool.false_or] at hd ⊢
        simp [hif, hd]
    | @impl pre i it e hat hf hk hnp hv' =>
      refine ⟨pre, i, hat, ?_⟩
      have hif : isIface s i = true := by simp [isIface, hf, hk]
      have hd : pre.any (fun y => isIface s y && id y == id i) = false := by
        cases hd : pre.any (fun y => isIface s y && id y == id i) with
        | false => rfl
        | true => exact absurd ((any_id_iff (isIface s) pre i hif).1 hd) hnp
      simp only [List.contains_nil, Bool.false_or, hd, interfaceStepWith, hf, hk, bne_self_eq_false, Bool.false_eq_true,
        if_false]
      exact (hv it e).2 hv'


private theorem mem_validateUnionMembers (s : SchemaD) (t : TypeD) (e : Err) :
    e ∈ validateUnionMembers s t ↔ UnionViol s t e := by
  unfold validateUnionMembers
  rw [List.mem_append, mem_forSeen id (memberStep s t) (fun m => kindOf s m == some .object) ?_ ?_ e t.members []]
  rotate_left
  · intro m dup h
    unfold memberStep at h
    by_cases hk : kindOf s m = some .object
    · simp [hk]
    · simp [hk] at h
  · intro m h
    have hk : kindOf s m = some .object := by simpa using h
    simp [memberStep, hk]
  constructor
  · rintro (h | ⟨pre, m, hat, h⟩)
    · cases hm : t.members with
      | nil => rw [hm] at h; simp only [List.isEmpty_nil, if_true, List.mem_singleton] at h; subst h; exact .empty hm
      | cons a as => rw [hm] at h; simp at h
    · simp only [List.contains_nil, Bool.false_or, id] at h
      unfold memberStep at h
      by_cases hk : kindOf s m = some .object
      · have hk' : (kindOf s m == some .object) = true := by simp [hk]
        simp only [hk, bne_self_eq_false, Bool.false_eq_true, if_false] at h
        cases hd : pre.any (fun y => (kindOf s y == some .object) && y == m) with
        | true =>
          rw [hd] at h; simp only [if_true, List.mem_singleton] at h; subst h
          exact .dup hat hk ((any_id_iff (fun m => kindOf s m == some .object) pre m hk').1 hd)
        | false => rw [hd] at h; simp at h
      · have : (kindOf s m != some .object) = true := by simpa using hk
        rw [this] at h; simp only [if_true, List.mem_singleton] at h; subst h
        exact .notObject hat hk
  · intro h
    cases h with
    | empty hm => exact Or.inl (by simp [hm])
    | @notObject pre m hat hk =>
      refine Or.inr ⟨pre, m, hat, ?_⟩
      have : (kindOf s m != some .object) = true := by simpa using hk
      simp [memberStep, this]
    | @dup pre m hat hk hm =>
      refine Or.inr ⟨pre, m, hat, ?_⟩
      have hk' : (kindOf s m == some .object) = true := by simp [hk]
      have hd := (any_id_iff (fun m => kindOf s m == some .object) pre m hk').2 hm
      simp only [id] at hd
      simp only [List.contains_nil, Bool.false_or, id, memberStep, hk, bne_self_eq_false, Bool.false_eq_true, if_false, hd,
        if_true, List.mem_singleton]

private theorem mem_validateEnumValues (t : TypeD) (e : Err) : e ∈ validateEnumValues t ↔ EnumViol t e := by
  unfold validateEnumValues validateEnumValuesWith
  simp only [List.mem_append, List.mem_flatMap, mem_checkValidName, fx10, Bool.true_and]
  constructor
  · rintro (h | ⟨v, hv, ⟨hn, rfl⟩ | h⟩)
    · cases hm : t.values with
      | nil => rw [hm] at h; simp only [List.isEmpty_nil, if_true, List.mem_singleton] at h; subst h; exact .empty hm
      | cons a as => rw [hm] at h; simp at h
    · exact .name hv hn
    · cases hb : isNone v.value with
      | false => rw [hb] at h; simp at h
      | true => rw [hb] at h; simp only [if_true, List.mem_singleton] at h; subst h; exact .noneValue hv hb
  · intro h
    cases h with
    | empty hm => exact Or.inl (by simp [hm])
    | @name v hv hn => exact Or.inr ⟨v, hv, Or.inl ⟨hn, rfl⟩⟩
    | @noneValue v hv hb => exact Or.inr ⟨v, hv, Or.inr (by simp [hb])⟩

private theorem mem_validateInputFields (s : SchemaD) (t : TypeD) (e : Err) :
    e ∈ validateInputFields s t ↔ InputViol s t e := by
  unfold validateInputFields validateInputFieldsWith
  rw [List.mem_append, mem_forSeen (·.name) _ (fun _ => true) (fun _ _ _ => rfl) (fun _ _ => rfl) e t.inputFields []]
  simp only [fx2, Bool.and_false, Bool.false_eq_true, if_false]
  constructor
  · rintro (h | ⟨pre, a, hat, h⟩)
    · cases hm : t.inputFields with
      | nil => rw [hm] at h; simp only [List.isEmpty_nil, if_true, List.mem_singleton] at h; subst h; exact .empty hm
      | cons a as => rw [hm] at h; simp at h
    · rcases (mem_step (·.name) pre a _ _ _ e).1 h with h | ⟨hm, h⟩ | h
      · obtain ⟨hn, rfl⟩ := (mem_checkValidName _ _).1 h; exact .name hat hn
      · simp only [List.mem_singleton] at h; subst h; exact .dup hat hm
      · rcases (mem_notInputErr _ _ _ _ _ _).1 h with ⟨hi, rfl⟩ | ⟨hi, hd, hb, rfl⟩
        · exact .notInput hat hi
        · exact .badDefault hat hi hd hb
  · intro h
    cases h with
    | empty hm => exact Or.inl (by simp [hm])
    | @name pre a hat hn => exact Or.inr ⟨pre, a, hat, (mem_step (·.name) pre a _ _ _ _).2 (Or.inl ((mem_checkValidName _ _).2 ⟨hn, rfl⟩))⟩
    | @dup pre a hat hm => exact Or.inr ⟨pre, a, hat, (mem_step (·.name) pre a _ _ _ _).2 (Or.inr (Or.inl ⟨hm, List.mem_singleton.2 rfl⟩))⟩
    | @notInput pre a hat hi => exact Or.inr ⟨pre, a, hat, (mem_step (·.name) pre a _ _ _ _).2 (Or.inr (Or.inr ((mem_notInputErr _ _ _ _ _ _).2 (Or.inl ⟨hi, rfl⟩))))⟩
    | @badDefault pre a hat hi hd hb => exact Or.inr ⟨pre, a, hat, (mem_step (·.name) pre a _ _ _ _).2 (Or.inr (Or.inr ((mem_notInputErr _ _ _ _ _ _).2 (Or.inr ⟨hi, hd, hb, rfl⟩))))⟩

private theorem mem_typeBody (s : SchemaD) (rv : Bool) (t : TypeD) (e : Err) :
    e ∈ typeBodyWith Config.fixed s rv t ↔
      ((t.kind = .object ∨ t.kind = .interface) ∧ ((t.fields = [] ∧ e = ⟨.noFields, [t.name]⟩) ∨ FieldViol s rv t e)) ∨
      (t.kind = .object ∧ IfaceViol s t e) ∨ (t.kind = .union ∧ UnionViol s t e) ∨
      (t.kind = .enum ∧ EnumViol t e) ∨ (t.kind = .input ∧ InputViol s t e) := by
  have h1 := mem_validateFields s rv t e
  have h2 := mem_validateInterfaces s t e
  have h3 := mem_validateInputFields s t e
  unfold validateFields at h1; unfold validateInterfaces at h2; unfold validateInputFields at h3
  unfold typeBodyWith
  have h4 := mem_validateEnumValues t e
  unfold validateEnumValues at h4
  cases hk : t.kind <;> simp [h1, h2, h3, h4, mem_validateUnionMembers]

private theorem mem_validateType (s : SchemaD) (rv : Bool) (t : TypeD) (e : Err) :
    e ∈ validateType s rv t ↔ TypeViol s rv t e := by
  unfold validateType validateTypeWith typeNameErr
  simp only [fx1, Bool.and_false, Bool.false_eq_true, if_false, List.mem_append, mem_typeBody]
  constructor
  · rintro (h | ⟨hk, ⟨hf, rfl⟩ | h⟩ | ⟨hk, h⟩ | ⟨hk, h⟩ | ⟨hk, h⟩ | ⟨hk, h⟩)
    · cases hx : (t.builtin || isValidName t.name) with
      | true => rw [hx] at h; simp at h
      | false => rw [hx] at h; simp only [Bool.false_eq_true, if_false, List.mem_singleton] at h; subst h; exact .typeName hx
    · exact .noFields hk hf
    · exact .field hk h
    · exact .iface hk h
    · exact .union hk h
    · exact .enum hk h
    · exact .input hk h
  · intro h
    cases h with
    | typeName hx => exact Or.inl (by simp [hx])
    | noFields hk hf => exact Or.inr (Or.inl ⟨hk, Or.inl ⟨hf, rfl⟩⟩)
    | field hk h => exact Or.inr (Or.inl ⟨hk, Or.inr h⟩)
    | iface hk h => exact Or.inr (Or.inr (Or.inl ⟨hk, h⟩))
    | union hk h => exact Or.inr (Or.inr (Or.inr (Or.inl ⟨hk, h⟩)))
    | enum hk h => exact Or.inr (Or.inr (Or.inr (Or.inr (Or.inl ⟨hk, h⟩))))
    | input hk h => exact Or.inr (Or.inr (Or.inr (Or.inr (Or.inr ⟨hk, h⟩))))

private theorem mem_rootErr (s : SchemaD) (r : Rule) (o : Option String) (e : Err) :
    e ∈ rootErr s r o ↔ ∃ n, o = some n ∧ kindOf s n ≠ some .object ∧ e = ⟨r, [n]⟩ := by
  unfold rootErr
  cases o with
  | none => simp
  | some n => by_cases h : kindOf s n = some .object <;> simp [h]

private theorem mem_validateRootTypes (s : SchemaD) (e : Err) : e ∈ validateRootTypes s ↔ RootViol s e := by
  unfold validateRootTypes
  simp only [List.mem_append, mem_rootErr]
  constructor
  · rintro (((h | ⟨n, h1, h2, rfl⟩) | ⟨n, h1, h2, rfl⟩) | ⟨n, h1, h2, rfl⟩)
    · cases hq : s.query with
      | none => rw [hq] at h; simp only [Option.isNone_none, if_true, List.mem_singleton] at h; subst h; exact .noQuery hq
      | some q => rw [hq] at h; simp at h
    · exact .query h1 h2
    · exact .mutation h1 h2
    · exact .subscription h1 h2
  · intro h
    cases h with
    | noQuery hq => exact Or.inl (Or.inl (Or.inl (by simp [hq])))
    | @query n h1 h2 => exact Or.inl (Or.inl (Or.inr ⟨n, h1, h2, rfl⟩))
    | @mutation n h1 h2 => exact Or.inl (Or.inr ⟨n, h1, h2, rfl⟩)
    | @subscription n h1 h2 => exact Or.inr ⟨n, h1, h2, rfl⟩

private theorem mem_validateDirectives (s : SchemaD) (e : Err) : e ∈ validateDirectives s ↔ DirViol s e := by
  have ha := mem_validateArguments s .dirDupArg .dirArgNotInput .dirArgDefault
  unfold validateArguments at ha
  unfold validateDirectives validateDirectivesWith
  simp only [List.mem_flatMap, List.mem_append, mem_checkValidName, ha]
  constructor
  · rintro ⟨d, hd, ⟨hn, rfl⟩ | h⟩
    · exact .name hd hn
    · exact .arg hd h
  · intro h
    cases h with
    | @name d hd hn => exact ⟨d, hd, Or.inl ⟨hn, rfl⟩⟩
    | @arg d e hd ha => exact ⟨d, hd, Or.inr ha⟩

/-! ## Property theorems -/

/-- **All violations together, literally.** An error is in the report of `SchemaValidator` if and only if
    it is the error of a violation instance of the schema (`Violation`: one constructor per rule, each
    naming the position that breaks the rule). In particular every violated rule instance has its own
    error, whatever else is wrong with the schema, and nothing else is reported. -/
theorem violation_iff (s : SchemaD) (rv : Bool) (e : Err) : e ∈ validate s rv ↔ Violation s rv e := by
  have h1 := mem_validateType s rv
  have h2 := mem_validateDirectives s e
  unfold validateType at h1; unfold validateDirectives at h2
  rw [validate_eq']
  unfold validateFixed validateWith
  simp only [List.mem_append, List.mem_flatMap, mem_validateRootTypes, h1, h2]
  constructor
  · rintro ((h | ⟨t, ht, h⟩) | h)
    · exact .root h
    · exact .type ht h
    · exact .directive h
  · intro h
    cases h with
    | root h => exact Or.inl (Or.inl h)
    | @type t e ht h => exact Or.inl (Or.inr ⟨t, ht, h⟩)
    | directive h => exact Or.inr h

/-- every violated rule instance is reported (the direction the property states) -/
theorem reports_every_violation (s : SchemaD) (rv : Bool) (e : Err) (h : Violation s rv e) : e ∈ validate s rv :=
  (violation_iff s rv e).2 h

/-- a schema is valid exactly when it has no violation instance -/
theorem valid_iff_no_violation (s : SchemaD) (rv : Bool) : ValidSchema s rv ↔ ∀ e, ¬ Violation s rv e := by
  rw [← validate_iff]
  constructor
  · intro h e hv; have := (violation_iff s rv e).2 hv; rw [h] at this; exact absurd this (by simp)
  · intro h
    cases hv : validate s rv with
    | nil => rfl
    | cons e es => exact absurd ((violation_iff s rv e).1 (by rw [hv]; exact List.mem_cons_self ..)) (h e)

/-! ### the code before the fixes C13-H4-H5-H6 did NOT report every violation (legacy variant, code that no longer exists) -/

private def lInt : TypeD := { kind := .scalar, name := "Int", builtin := true }
private def lBadType : TypeD := { kind := .object, name := "Bad-Name" }
private def lQ : TypeD := { kind := .object, name := "Query", fields := [{ name := "a", type := .named "Bad-Name" }] }
private def lSchema : SchemaD := { types := [lInt, lQ, lBadType] }
private def lMasked : Config := { Config.fixed with maskTypeName := true }

/-- LEGACY (hunt finding 4): with the `continue` after "Invalid type name", the empty type `Bad-Name` only got the
    name error: the violation instance "must define at least one field" was not reported. -/
theorem legacy_type_name_masks :
    Violation lSchema true ⟨.noFields, ["Bad-Name"]⟩ ∧ (⟨.noFields, ["Bad-Name"]⟩ : Err) ∉ validateWith lMasked lSchema true := by
  refine ⟨.type (t := lBadType) (by simp [lSchema]) (.noFields (Or.inl rfl) rfl), by decide⟩

private def lF1 : FieldD := { name := "a", type := .named "Int" }
private def lF2 : FieldD := { name := "a", type := .named "In" }
private def lDupQ : TypeD := { kind := .object, name := "Query", fields := [lF1, lF2] }
private def lIn : TypeD := { kind := .input, name := "In", inputFields := [{ name := "i", type := .named "Int" }] }
private def lSchema2 : SchemaD := { types := [lInt, lIn, lDupQ] }

/-- LEGACY (hunt finding 5): a repeated field was reported as a duplicate only; its own input/output-position
    violation was withheld. -/
theorem legacy_duplicate_masks :
    Violation lSchema2 true ⟨.fieldNotOutput, ["a", "Query", "In"]⟩ ∧
      (⟨.fieldNotOutput, ["a", "Query", "In"]⟩ : Err) ∉ validateWith { Config.fixed with maskDuplicate := true } lSchema2 true := by
  refine ⟨.type (t := lDupQ) (by simp [lSchema2])
    (.field (Or.inl rfl) (.notOutput (pre := [lF1]) (f := lF2) ⟨[], rfl⟩ (by decide))), by decide⟩

/-! ### non-vacuity: three violations of three different rules in one schema, each with its own error -/

private def exInt' : TypeD := { kind := .scalar, name := "Int", builtin := true }
private def exBadF : FieldD := { name := "__a", type := .named "Int" }
private def exQ : TypeD := { kind := .object, name := "Query", fields := [{ name := "a", type := .named "Int" }, exBadF] }
private def exU : TypeD := { kind := .union, name := "U", members := ["Query", "Int", "Query"] }
private def exBad : SchemaD := { types := [exInt', exQ, exU] }

example : Violation exBad true ⟨.invalidName, ["__a"]⟩ :=
  .type (t := exQ) (by simp [exBad]) (.field (Or.inl rfl)
    (.name (pre := [{ name := "a", type := .named "Int" }]) (f := exBadF) ⟨[], rfl⟩ (by decide)))
example : Violation exBad true ⟨.unionMemberNotObject, ["U", "Int"]⟩ :=
  .type (t := exU) (by simp [exBad]) (.union rfl (.notObject (pre := ["Query"]) ⟨["Query"], rfl⟩ (by decide)))
example : Violation exBad true ⟨.unionDup, ["U", "Query"]⟩ :=
  .type (t := exU) (by simp [exBad]) (.union rfl (.dup (pre := ["Query", "Int"]) ⟨[], rfl⟩ (by decide) (by decide)))
example : (validate exBad true).map (·.rule) = [.invalidName, .unionMemberNotObject, .unionDup] := by decide

end PyGql.Props.C13

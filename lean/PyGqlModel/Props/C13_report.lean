/-
  C13 — "reporting all violations together": the report of the validator is EXACTLY the set of
  violation instances of the schema (`SchemaValidSpec.Violation`, one constructor per rule).
-/
import PyGqlModel.SchemaValid
import PyGqlModel.Spec.SchemaValidSpec
import PyGqlModel.Props.C13

set_option linter.unusedSimpArgs false
set_option linter.unusedVariables false

namespace PyGql.Props.C13
open PyGql PyGql.SchemaValid PyGql.SchemaValidSpec

/-! #### the loop shape, element by element -/

private theorem seen_step {α} (key : α → String) (step : α → Bool → List Err × Bool) (addOK : α → Bool)
    (h1 : ∀ x dup, (step x dup).2 = true → addOK x = true)
    (h2 : ∀ x, addOK x = true → (step x false).2 = true)
    (x : α) (seen : List String) (k : String) :
    (if (step x (seen.contains (key x))).2 = true then key x :: seen else seen).contains k
      = (seen.contains k || (addOK x && key x == k)) := by
  cases hs : (step x (seen.contains (key x))).2 with
  | true =>
    have := h1 _ _ hs
    simp only [if_true, List.contains_cons, this, Bool.true_and]
    rw [Bool.or_comm]; congr 1; exact Bool.beq_comm
  | false =>
    simp only [Bool.false_eq_true, if_false]
    cases ha : addOK x with
    | false => simp
    | true =>
      cases hk : (key x == k) with
      | false => simp
      | true =>
        have hkx : key x = k := by simpa using hk
        cases hd : seen.contains (key x) with
        | true => rw [← hkx, hd]; rfl
        | false => rw [hd] at hs; rw [h2 x ha] at hs; exact absurd hs (by simp)

private theorem mem_forSeen {α} (key : α → String) (step : α → Bool → List Err × Bool) (addOK : α → Bool)
    (h1 : ∀ x dup, (step x dup).2 = true → addOK x = true)
    (h2 : ∀ x, addOK x = true → (step x false).2 = true) (e : Err) :
    ∀ (xs : List α) (seen : List String),
      e ∈ forSeen key step xs seen ↔
        ∃ pre x, At xs pre x ∧
          e ∈ (step x (seen.contains (key x) || pre.any (fun y => addOK y && key y == key x))).1 := by
  intro xs
  induction xs with
  | nil => intro seen; simp [forSeen, At]
  | cons x xs ih =>
    intro seen
    simp only [forSeen, List.mem_append, ih]
    constructor
    · rintro (h | ⟨pre, y, ⟨post, hxs⟩, h⟩)
      · exact ⟨[], x, ⟨xs, rfl⟩, by simpa using h⟩
      · refine ⟨x :: pre, y, ⟨post, by simp [hxs]⟩, ?_⟩
        rw [seen_step key step addOK h1 h2] at h
        simpa [List.any_cons, Bool.or_assoc] using h
    · rintro ⟨pre, y, ⟨post, hxs⟩, h⟩
      cases pre with
      | nil =>
        simp only [List.nil_append, List.cons.injEq] at hxs
        obtain ⟨rfl, rfl⟩ := hxs
        exact Or.inl (by simpa using h)
      | cons z pre =>
        simp only [List.cons_append, List.cons.injEq] at hxs
        obtain ⟨rfl, rfl⟩ := hxs
        refine Or.inr ⟨pre, y, ⟨post, rfl⟩, ?_⟩
        rw [seen_step key step addOK h1 h2]
        simpa [List.any_cons, Bool.or_assoc] using h

private theorem any_key_iff {α} (key : α → String) (pre : List α) (k : String) :
    pre.any (fun y => true && key y == k) = true ↔ k ∈ pre.map key := by
  simp only [Bool.true_and, List.any_eq_true, List.mem_map, beq_iff_eq]

private theorem mem_checkValidName (n : String) (e : Err) :
    e ∈ checkValidName n ↔ isValidName n = false ∧ e = ⟨.invalidName, [n]⟩ := by
  unfold checkValidName
  cases isValidName n <;> simp

/-! #### level by level -/

private theorem mem_validateArguments (s : SchemaD) (r1 r2 : Rule) (owner : String) (args : List ArgD) (e : Err) :
    e ∈ validateArguments s r1 r2 owner args ↔ ArgViol s r1 r2 owner args e := by
  unfold validateArguments
  rw [mem_forSeen (·.name) _ (fun _ => true) (fun _ _ _ => rfl) (fun _ _ => rfl) e args []]
  constructor
  · rintro ⟨pre, a, hat, h⟩
    simp only [List.contains_nil, Bool.false_or, List.mem_append, mem_checkValidName] at h
    rcases h with ⟨hn, rfl⟩ | h
    · exact .name hat hn
    · cases hd : pre.any (fun y => true && y.name == a.name) with
      | true =>
        rw [hd] at h; simp only [if_true, List.mem_singleton] at h; subst h
        exact .dup hat ((any_key_iff (·.name) pre a.name).1 hd)
      | false =>
        rw [hd] at h; simp only [Bool.false_eq_true, if_false] at h
        have hnd : a.name ∉ pre.map (·.name) := fun hm => by
          rw [(any_key_iff (·.name) pre a.name).2 hm] at hd; exact absurd hd (by simp)
        cases hi : isInputType s a.type with
        | true => rw [hi] at h; simp at h
        | false => rw [hi] at h; simp only [Bool.false_eq_true, if_false, List.mem_singleton] at h; subst h; exact .notInput hat hnd hi
  · intro h
    cases h with
    | @name pre a hat hn =>
      exact ⟨pre, a, hat, by simp [mem_checkValidName, hn]⟩
    | @dup pre a hat hm =>
      refine ⟨pre, a, hat, ?_⟩
      simp only [List.contains_nil, Bool.false_or, (any_key_iff (·.name) pre a.name).2 hm, if_true, List.mem_append,
        List.mem_singleton, or_true]
    | @notInput pre a hat hnm hi =>
      refine ⟨pre, a, hat, ?_⟩
      have : pre.any (fun y => true && y.name == a.name) = false := by
        cases hd : pre.any (fun y => true && y.name == a.name) with
        | false => rfl
        | true => exact absurd ((any_key_iff (·.name) pre a.name).1 hd) hnm
      simp only [List.contains_nil, Bool.false_or, this, Bool.false_eq_true, if_false, hi, List.mem_append,
        List.mem_singleton, or_true]

private theorem mem_resolverArgErr (path : String) (params : List ParamD) (varKw : Bool) (a : ArgD) (e : Err) :
    e ∈ resolverArgErr path params varKw a ↔
      (findParam params a.pythonName = none ∧ varKw = false ∧ e = ⟨.resMissingParam, [a.name, path]⟩) ∨
      (∃ p, findParam params a.pythonName = some p ∧ p.kind = .posOnly ∧ e = ⟨.resPosOnly, [a.name, path]⟩) ∨
      (∃ p, findParam params a.pythonName = some p ∧ p.kind ≠ .posOnly ∧ p.hasDefault = false ∧ a.hasDefault = false ∧
          argRequired a = false ∧ e = ⟨.resNeedsDefault, [a.name, path]⟩) := by
  unfold resolverArgErr
  cases findParam params a.pythonName with
  | none => cases varKw <;> simp
  | some p =>
    by_cases hk : p.kind = .posOnly
    · simp [hk]
    · cases h1 : p.hasDefault <;> cases h2 : a.hasDefault <;> cases h3 : argRequired a <;> simp [hk]

private theorem mem_validateResolverArguments (path : String) (args : List ArgD) (r : ResolverD)
    (hi : r.inspectable = true) (e : Err) :
    e ∈ validateResolverArguments path args r ↔ ResolverViol path args r e := by
  unfold validateResolverArguments
  simp only [hi, Bool.not_true, Bool.false_eq_true, if_false, List.mem_append, List.mem_flatMap, mem_resolverArgErr]
  constructor
  · rintro ((⟨a, ha, h⟩ | h) | ⟨p, hp, h⟩)
    · rcases h with ⟨h1, h2, rfl⟩ | ⟨p, h1, h2, rfl⟩ | ⟨p, h1, h2, h3, h4, h5, rfl⟩
      · exact .missingParam ha h1 h2
      · exact .posOnly ha h1 h2
      · exact .needsDefault ha h1 h2 h3 h4 h5
    · split at h
      · rename_i hc
        simp only [List.mem_singleton] at h; subst h
        simp only [Bool.and_eq_true, Bool.not_eq_true', decide_eq_true_eq] at hc
        exact .positional hc.1 hc.2
      · simp at h
    · cases hd : p.hasDefault with
      | true => rw [hd] at h; simp at h
      | false => rw [hd] at h; simp only [Bool.false_eq_true, if_false, List.mem_singleton] at h; subst h; exact .extraRequired hp hd
  · intro h
    cases h with
    | @missingParam a ha h1 h2 => exact Or.inl (Or.inl ⟨a, ha, Or.inl ⟨h1, h2, rfl⟩⟩)
    | @posOnly a p ha h1 h2 => exact Or.inl (Or.inl ⟨a, ha, Or.inr (Or.inl ⟨p, h1, h2, rfl⟩)⟩)
    | @needsDefault a p ha h1 h2 h3 h4 h5 => exact Or.inl (Or.inl ⟨a, ha, Or.inr (Or.inr ⟨p, h1, h2, h3, h4, h5, rfl⟩)⟩)
    | positional h1 h2 => exact Or.inl (Or.inr (by simp [h1, h2]))
    | @extraRequired p hp hd => exact Or.inr ⟨p, hp, by simp [hd]⟩

private theorem mem_fieldBody (s : SchemaD) (rv : Bool) (t : TypeD) (f : FieldD) (e : Err) :
    e ∈ fieldBody s rv t f ↔
      (isOutputType s f.type = false ∧ e = ⟨.fieldNotOutput, [f.name, t.name, f.type.render]⟩) ∨
      ArgViol s .dupArg .argNotInput (t.name ++ "." ++ f.name) f.args e ∨
      (∃ r, pickResolver s t f = some r ∧ rv = true ∧ r.inspectable = true ∧
        ResolverViol (t.name ++ "." ++ f.name) f.args r e) := by
  unfold fieldBody
  simp only [List.mem_append, mem_validateArguments, or_assoc]
  refine or_congr ?_ (or_congr Iff.rfl ?_)
  · cases isOutputType s f.type <;> simp
  · cases hp : pickResolver s t f with
    | none => simp
    | some r =>
      cases rv with
      | false => simp
      | true =>
        cases hi : r.inspectable with
        | true => simp [mem_validateResolverArguments _ _ _ hi, hi]
        | false => simp [validateResolverArguments, hi]

private theorem not_any_key {α} (key : α → String) (pre : List α) (k : String) (h : k ∉ pre.map key) :
    pre.any (fun y => true && key y == k) = false := by
  cases hd : pre.any (fun y => true && key y == k) with
  | false => rfl
  | true => exact absurd ((any_key_iff key pre k).1 hd) h

private theorem mem_validateFields (s : SchemaD) (rv : Bool) (t : TypeD) (e : Err) :
    e ∈ validateFields s rv t ↔ (t.fields = [] ∧ e = ⟨.noFields, [t.name]⟩) ∨ FieldViol s rv t e := by
  unfold validateFields
  rw [List.mem_append, mem_forSeen (·.name) _ (fun _ => true) (fun _ _ _ => rfl) (fun _ _ => rfl) e t.fields []]
  refine or_congr ?_ ?_
  · cases h : t.fields <;> simp
  · constructor
    · rintro ⟨pre, f, hat, h⟩
      simp only [List.contains_nil, Bool.false_or, List.mem_append, mem_checkValidName] at h
      rcases h with ⟨hn, rfl⟩ | h
      · exact .name hat hn
      · cases hd : pre.any (fun y => true && y.name == f.name) with
        | true =>
          rw [hd] at h; simp only [if_true, List.mem_singleton] at h; subst h
          exact .dup hat ((any_key_iff (·.name) pre f.name).1 hd)
        | false =>
          rw [hd] at h; simp only [Bool.false_eq_true, if_false] at h
          have hnd : f.name ∉ pre.map (·.name) := fun hm => by
            rw [(any_key_iff (·.name) pre f.name).2 hm] at hd; exact absurd hd (by simp)
          rcases (mem_fieldBody s rv t f e).1 h with ⟨ho, rfl⟩ | ha | ⟨r, h1, h2, h3, h4⟩
          · exact .notOutput hat hnd ho
          · exact .arg hat hnd ha
          · exact .resolver hat hnd h1 h2 h3 h4
    · intro h
      cases h with
      | @name pre f hat hn => exact ⟨pre, f, hat, by simp [mem_checkValidName, hn]⟩
      | @dup pre f hat hm =>
        exact ⟨pre, f, hat, by simp only [List.contains_nil, Bool.false_or, (any_key_iff (·.name) pre f.name).2 hm,
          if_true, List.mem_append, List.mem_singleton, or_true]⟩
      | @notOutput pre f hat hnm ho =>
        refine ⟨pre, f, hat, ?_⟩
        simp only [List.contains_nil, Bool.false_or, not_any_key (·.name) pre f.name hnm, Bool.false_eq_true, if_false,
          List.mem_append]
        exact Or.inr ((mem_fieldBody s rv t f _).2 (Or.inl ⟨ho, rfl⟩))
      | @arg pre f e hat hnm ha =>
        refine ⟨pre, f, hat, ?_⟩
        simp only [List.contains_nil, Bool.false_or, not_any_key (·.name) pre f.name hnm, Bool.false_eq_true, if_false,
          List.mem_append]
        exact Or.inr ((mem_fieldBody s rv t f _).2 (Or.inr (Or.inl ha)))
      | @resolver pre f r e hat hnm h1 h2 h3 h4 =>
        refine ⟨pre, f, hat, ?_⟩
        simp only [List.contains_nil, Bool.false_or, not_any_key (·.name) pre f.name hnm, Bool.false_eq_true, if_false,
          List.mem_append]
        exact Or.inr ((mem_fieldBody s rv t f _).2 (Or.inr (Or.inr ⟨r, h1, h2, h3, h4⟩)))

end PyGql.Props.C13

/-
  C11 — what the shared coercion relation `CoercesTo` (Spec/SdlRules.lean; = the model's `valueFromAst` at the builder's
  fuel) says on the LEAF cases, as fuel-free clauses that can be read against the GraphQL specification's input coercion:
  `null` (nullable / non-null), `Int` (32-bit range), `String`, an enum defined in the document.  The default-value
  clauses of `DeclaredSpec` (`DeclaresArg.default`) and of the rules (`ArgOK`) are stated through `CoercesTo`; list /
  input-object / custom-scalar literals and the link to C07's declarative coercion remain behind the shared function.
-/
import PyGqlModel.Props.C11_declared

set_option linter.unusedVariables false
set_option linter.unusedSimpArgs false

namespace PyGql.Props.C11
open PyGql PyGql.Sdl PyGql.SdlSpec

theorem coercesTo_step (env : Env) (ty : Ty) (l : Lit) (v : J) : CoercesTo env ty l v ↔ valueFromAst env (199+1) l ty = some (some v) := Iff.rfl

/-- `null` is a constant of every nullable type, with value null -/
theorem coerces_null_named (env : Env) (n : String) : CoercesTo env (.named n) .null .null := by
  rw [coercesTo_step]; simp only [valueFromAst]; rfl

theorem coerces_null_list (env : Env) (t : Ty) : CoercesTo env (.list t) .null .null := by
  rw [coercesTo_step]; simp only [valueFromAst]; rfl

/-- … and of no non-null type -/
theorem not_coerces_null_nonNull (env : Env) (t : Ty) (v : J) : ¬ CoercesTo env (.nonNull t) .null v := by
  rw [coercesTo_step]; simp only [valueFromAst]; intro h; cases h

/-- an integer literal is a constant of `Int` exactly when it is in the 32-bit range; its value is the number -/
theorem coerces_int_iff (env : Env) (v f : String) (j : J) :
    CoercesTo env (.named "Int") (.int v f) j ↔ ∃ n, v.toInt? = some n ∧ MIN_INT ≤ n ∧ n ≤ MAX_INT ∧ j = .num n := by
  rw [coercesTo_step]
  simp only [valueFromAst]
  have hb : builtinScalars.contains "Int" = true := by decide
  simp only [hb, if_true, pure, scalarLiteral]
  simp only [Bool.false_eq_true, if_false, beq_self_eq_true, if_true]
  cases hv : v.toInt? with
  | none => simp
  | some n =>
    simp only []
    by_cases hr : (decide (MIN_INT ≤ n) && decide (n ≤ MAX_INT)) = true
    · simp only [hr, if_true]
      simp only [Bool.and_eq_true, decide_eq_true_eq] at hr
      constructor
      · intro h; cases h; exact ⟨n, rfl, hr.1, hr.2, rfl⟩
      · rintro ⟨m, hm, _, _, rfl⟩; cases hm; rfl
    · simp only [hr, if_false]
      simp only [Bool.and_eq_true, decide_eq_true_eq] at hr
      constructor
      · intro h; cases h
      · rintro ⟨m, hm, h1, h2, _⟩; cases hm; exact absurd ⟨h1, h2⟩ hr

/-- a string literal is a constant of `String`, with the string as value; an integer literal is not -/
theorem coerces_string_iff (env : Env) (s : String) (j : J) : CoercesTo env (.named "String") (.str s) j ↔ j = .str s := by
  rw [coercesTo_step]
  simp only [valueFromAst]
  have hb : builtinScalars.contains "String" = true := by decide
  simp only [hb, if_true, pure, scalarLiteral]
  simp only [Bool.false_eq_true, if_false, beq_self_eq_true, Bool.true_or, if_true]
  constructor
  · intro h; cases h; rfl
  · rintro rfl; rfl

theorem not_coerces_int_as_string (env : Env) (v f : String) (j : J) : ¬ CoercesTo env (.named "String") (.int v f) j := by
  rw [coercesTo_step]
  simp only [valueFromAst]
  have hb : builtinScalars.contains "String" = true := by decide
  simp only [hb, if_true, pure, scalarLiteral]
  simp only [Bool.false_eq_true, if_false]
  have h1 : ("String" == "Int") = false := by decide
  have h2 : ("String" == "Float") = false := by decide
  have h3 : ("String" == "ID") = false := by decide
  simp only [h1, h2, h3, Bool.false_eq_true, if_false]
  intro h; cases h

/-- an enum literal is a constant of an enum DEFINED in the document exactly when the definition declares the value -/
theorem coerces_enum_iff (env : Env) (n : String) (d : TypeDef) (v : String) (j : J)
    (hb : builtinScalars.contains n = false) (ha : env.findAdditional n = none) (hd : env.findDef n = some d) (hk : d.kind = .enum) :
    CoercesTo env (.named n) (.enum v) j ↔ v ∈ d.values.map (·.name) ∧ j = .str v := by
  rw [coercesTo_step]
  simp only [valueFromAst, hb, Bool.false_eq_true, if_false, ha, hd, hk, pure]
  by_cases hm : d.values.any (·.name == v) = true
  · simp only [hm, if_true]
    have : v ∈ d.values.map (·.name) := by
      obtain ⟨x, hx, hxv⟩ := List.any_eq_true.mp hm
      exact List.mem_map.mpr ⟨x, hx, by simpa using hxv⟩
    constructor
    · intro h; cases h; exact ⟨this, rfl⟩
    · rintro ⟨_, rfl⟩; rfl
  · simp only [hm, if_false]
    constructor
    · intro h; cases h
    · rintro ⟨hmem, _⟩
      obtain ⟨x, hx, hxv⟩ := List.mem_map.mp hmem
      exact absurd (List.any_eq_true.mpr ⟨x, hx, by simp [hxv]⟩) hm

/-! ### non-vacuity of `coerces_enum_iff` -/

def enumE : TypeDef := { kind := .enum, name := "E", values := [{ name := "A" }, { name := "B" }] }

example : CoercesTo (Env.of [enumE]) (.named "E") (.enum "B") (.str "B") :=
  (coerces_enum_iff (Env.of [enumE]) "E" enumE "B" _ (by decide) rfl rfl rfl).mpr ⟨by decide, rfl⟩

example : ∀ j, ¬ CoercesTo (Env.of [enumE]) (.named "E") (.enum "C") j := fun j h =>
  absurd ((coerces_enum_iff (Env.of [enumE]) "E" enumE "C" j (by decide) rfl rfl rfl).mp h).1 (by decide)

end PyGql.Props.C11

/-
  C11 — `build_exact` from the SPECIFICATION's predicate.

  `build_exact_final` (Props/C11_cycles.lean) takes `SdlOK`, which mixes rules of the specification with conditions on
  what the builder computes (`noEagerCycle` is a bounded search of the model, `membersUnique` speaks of built types).
  Here the premises are split into
    * `SdlRules doc d` — `SdlValid doc` of Spec/SdlSpec.lean + the rules of the specification it does not list:
      KIND rules of references (`KindRules`: an object implements interfaces, a union has object members, an argument
      has an input type — `Schema.validate`, C13), root operation rules, no redefinition of a specified directive;
    * the RESIDUE, i.e. what the code needs beyond the specification: `BaseDefaults`, `SelfDefaults` (finding S8) and
      `hasThunkCycle = false` (finding S1b).
  `noEagerCycle` is DERIVED from the kind rules (`noEagerCycle_of_kinds`), `membersUnique` from
  `SdlValid.mergedMembersUnique`.  Each residue premise is NECESSARY: a document satisfying `SdlRules` and the other two
  that does not build its declared content (`residue_necessary`).
-/
import PyGqlModel.Props.C11_perm
import PyGqlModel.Props.C11_rejects

set_option linter.unusedVariables false
set_option linter.unusedSimpArgs false

namespace PyGql.Props.C11
open PyGql PyGql.Sdl PyGql.SdlSpec

/-! ### kind rules of references ⇒ no eager cycle -/

def kindAt (types : List TypeD) (n : String) : Option Kind := (types.find? (·.name == n)).map (·.kind)

/-- object, interface or union: not an input type -/
def compositeOut : Option Kind → Bool
  | some .object | some .interface | some .union => true
  | _ => false

/-- the kind rules of the specification for the references the builder resolves EAGERLY (3.6 Objects: "an object type
    may declare that it implements one or more unique interfaces"; 3.8 Unions: "the member types of a union type must
    all be object base types"; 3.6/3.7: "the argument must accept a type where IsInputType(argumentType)") -/
structure KindRules (types : List TypeD) : Prop where
  /-- (`none`: a name outside the list — a specified scalar or an introspection type, which refers to nothing in it) -/
  interfaces : ∀ t ∈ types, t.kind = .object → ∀ i ∈ t.interfaces, kindAt types i = some .interface ∨ kindAt types i = none
  members : ∀ t ∈ types, t.kind = .union → ∀ m ∈ t.members, kindAt types m = some .object ∨ kindAt types m = none
  args : ∀ t ∈ types, (t.kind = .object ∨ t.kind = .interface) → ∀ f ∈ t.fields, ∀ a ∈ f.args,
    compositeOut (kindAt types a.type.base) = false

def rank : Kind → Nat
  | .union => 3 | .object => 2 | .interface => 1 | _ => 0

def rk (types : List TypeD) (n : String) : Nat := match kindAt types n with | some k => rank k | none => 0

private theorem rk_input (types : List TypeD) (n : String) (h : compositeOut (kindAt types n) = false) : rk types n = 0 := by
  unfold rk
  cases hk : kindAt types n with
  | none => rfl
  | some k => rw [hk] at h; cases k <;> simp_all [compositeOut, rank]

private theorem args_rank (types : List TypeD) (K : KindRules types) (t : TypeD) (ht : t ∈ types)
    (hk : t.kind = .object ∨ t.kind = .interface) (m : String)
    (h : m ∈ t.fields.flatMap fun f => f.args.map (·.type.base)) : rk types m = 0 := by
  obtain ⟨f, hf, ha⟩ := List.mem_flatMap.mp h
  obtain ⟨a, haa, rfl⟩ := List.mem_map.mp ha
  exact rk_input types _ (K.args t ht hk f hf a haa)

/-- an eager reference goes strictly DOWN in union > object > interface > input/leaf -/
theorem eager_step (types : List TypeD) (K : KindRules types) (t : TypeD) (ht : t ∈ types) (m : String)
    (hm : m ∈ eagerRefs t) : rk types m < rank t.kind := by
  unfold eagerRefs at hm
  cases hk : t.kind <;> simp only [hk] at hm
  · simp at hm
  · rcases List.mem_append.mp hm with h | h
    · rcases K.interfaces t ht hk m h with h' | h' <;> simp [rk, h', rank]
    · rw [args_rank types K t ht (Or.inl hk) m h]; simp [rank]
  · rw [args_rank types K t ht (Or.inr hk) m hm]; simp [rank]
  · rcases K.members t ht hk m hm with h' | h' <;> simp [rk, h', rank]
  · simp at hm
  · simp at hm

theorem reach_rank (types : List TypeD) (K : KindRules types) (target : String) :
    ∀ fuel n, eagerReach types target fuel n = true → rk types target < rk types n := by
  intro fuel
  induction fuel with
  | zero => intro n h; simp [eagerReach] at h
  | succ k ih =>
    intro n h
    simp only [eagerReach] at h
    cases hf : types.find? (·.name == n) with
    | none => rw [hf] at h; simp at h
    | some t =>
      rw [hf] at h
      simp only [List.any_eq_true, Bool.or_eq_true, beq_iff_eq] at h
      obtain ⟨m, hm, h⟩ := h
      have ht := List.mem_of_find?_eq_some hf
      have hn : rk types n = rank t.kind := by simp [rk, kindAt, hf]
      have hs := eager_step types K t ht m hm
      rcases h with h | h
      · subst h; omega
      · have := ih m h; omega

/-- **`noEagerCycle` is derived from the kind rules**: in a schema whose references respect the kind rules of the
    specification, no type is reachable from itself through interfaces, union members and argument types — the
    circular-reference guard of `build_type` / `extend_type` never fires on such a document. -/
theorem noEagerCycle_of_kinds (types : List TypeD) (K : KindRules types) : hasEagerCycle types = false := by
  cases h : hasEagerCycle types with
  | false => rfl
  | true =>
    unfold hasEagerCycle at h
    obtain ⟨t, _, ht⟩ := List.any_eq_true.mp h
    have := reach_rank types K t.name _ _ ht
    omega

/-- the kind rules are NECESSARY for that: `union U = U` (members rule broken) has an eager cycle and the builder
    refuses it — with an SDL error, as the property demands for an invalid document -/
def selfUnion : Doc := [.type { kind := .union, name := "U", members := ["U"] }, .type exQuery]
theorem selfUnion_rejected : (match build selfUnion with | .error (.lib .sdl) => true | _ => false) = true := by decide

/-! ### unique member names: from the merged definitions to the built types -/

theorem buildEnumValue_name (v : EnumValDef) (r : EnumValD) (h : buildEnumValue v = .ok r) : r.name = v.name := by
  unfold buildEnumValue at h
  obtain ⟨_, _, h2⟩ := bind_ok _ _ _ h
  obtain ⟨_, _, h3⟩ := bind_ok _ _ _ h2
  have := ok_inj h3; subst this; rfl

/-- member NAMES of a built definition are those of the definition (lists the kind does not have are empty) -/
theorem buildTypeDef_memberNames (env : Env) (d : TypeDef) (r : TypeD) (h : buildTypeDef env d = .ok r) :
    (r.fields.map (·.name) = d.fields.map (·.name) ∨ r.fields = []) ∧
    (r.inputFields.map (·.name) = d.inputFields.map (·.name) ∨ r.inputFields = []) ∧
    (r.values.map (·.name) = d.values.map (·.name) ∨ r.values = []) ∧
    (r.members = d.members ∨ r.members = []) ∧ (r.interfaces = d.interfaces ∨ r.interfaces = []) := by
  unfold buildTypeDef at h
  cases hk : d.kind <;> simp only [hk] at h
  · have := ok_inj h; subst this; simp
  · obtain ⟨fs, hfs, h1⟩ := bind_ok _ _ _ h
    obtain ⟨_, _, h2⟩ := bind_ok _ _ _ h1
    have := ok_inj h2; subst this
    have := mapM_names _ (·.name) (·.name) (fun x y hxy => buildField_name env x y hxy) _ _ hfs
    simp [this]
  · obtain ⟨fs, hfs, h1⟩ := bind_ok _ _ _ h
    have := ok_inj h1; subst this
    have := mapM_names _ (·.name) (·.name) (fun x y hxy => buildField_name env x y hxy) _ _ hfs
    simp [this]
  · obtain ⟨_, _, h1⟩ := bind_ok _ _ _ h
    have := ok_inj h1; subst this; simp
  · obtain ⟨_, _, h1⟩ := bind_ok _ _ _ h
    obtain ⟨vs, hvs, h2⟩ := bind_ok _ _ _ h1
    have := ok_inj h2; subst this
    have := mapM_names _ (·.name) (·.name) (fun x y hxy => buildEnumValue_name x y hxy) _ _ hvs
    simp [this]
  · obtain ⟨fs, hfs, h1⟩ := bind_ok _ _ _ h
    have := ok_inj h1; subst this
    have := mapM_names _ (·.name) (·.name) (fun x y hxy => buildArgument_name env x y hxy) _ _ hfs
    simp [this]

theorem all₂_mem_right {α β} (P : α → β → Prop) : ∀ (l : List α) (rs : List β), All₂ P l rs → ∀ r ∈ rs, ∃ x ∈ l, P x r := by
  intro l rs h
  induction h with
  | nil => intro x hx; simp at hx
  | @cons a b as bs p _ ih =>
    intro x hx
    rcases List.mem_cons.mp hx with rfl | hmem
    · exact ⟨a, by simp, p⟩
    · obtain ⟨r, hr, hp⟩ := ih x hmem
      exact ⟨r, by simp [hr], hp⟩

private theorem nodup_of_or {α} {a b : List α} (h : a = b ∨ a = []) (hb : b.Nodup) : a.Nodup := by
  rcases h with h | h <;> subst h <;> simp_all

/-- `SdlValid.mergedMembersUnique` (a rule about the DOCUMENT) gives `SdlOK.membersUnique` (about the built types) -/
theorem membersUnique_of_merged (doc : Doc) (d : SchemaD) (hdecl : Declared doc = some d)
    (hu : ∀ t ∈ merged doc, (t.fields.map (·.name)).Nodup ∧ (t.inputFields.map (·.name)).Nodup
      ∧ (t.values.map (·.name)).Nodup ∧ t.members.Nodup ∧ t.interfaces.Nodup) :
    ∀ r ∈ d.types, (r.fields.map (·.name)).Nodup ∧ (r.inputFields.map (·.name)).Nodup ∧ (r.values.map (·.name)).Nodup ∧
      r.members.Nodup ∧ r.interfaces.Nodup := by
  obtain ⟨hts, _, _⟩ := declared_parts doc d hdecl
  intro r hr
  obtain ⟨t, ht, hb⟩ := all₂_mem_right _ _ _ (mapM_forall₂ _ _ _ hts) r hr
  obtain ⟨h1, h2, h3, h4, h5⟩ := buildTypeDef_memberNames _ t r hb
  obtain ⟨u1, u2, u3, u4, u5⟩ := hu t ht
  refine ⟨?_, ?_, ?_, nodup_of_or h4 u4, nodup_of_or h5 u5⟩
  · rcases h1 with h | h
    · rw [h]; exact u1
    · rw [h]; simp
  · rcases h2 with h | h
    · rw [h]; exact u2
    · rw [h]; simp
  · rcases h3 with h | h
    · rw [h]; exact u3
    · rw [h]; simp

/-! ### the rules of the specification -/

/-- the type-system rules of the specification that concern what the builder computes: `SdlValid` of Spec/SdlSpec.lean
    + kind rules of eager references + root operation rules + specified directives are not redefined.  Two fields mention
    the model: `valid.declares` and `declares` (through `Declared`, which is computed with the member builders).  Both are
    equivalent to statements without them: `declares_iff_rules` (named rules of Spec/SdlRules.lean, Props/C11_rules.lean)
    and `declaredSpec_iff` (`Declared doc = some d ↔ DeclaredSpec doc d`, the relational specification of
    Spec/SdlDeclared.lean, Props/C11_declared.lean). -/
structure SdlRules (doc : Doc) (d : SchemaD) : Prop where
  valid : SdlValid doc
  declares : Declared doc = some d
  kinds : KindRules d.types
  noSpecified : d.directives.any (fun x => specifiedDirectives.contains x.name) = false
  schemaOps : ∀ sd, (schemaDefs doc).head? = some sd →
      (sd.ops.map (·.1)).Nodup ∧ ∀ o ∈ sd.ops, (Env.of (typeDefs doc)).resolves o.2 = true
  extOps : ((schemaExtensions doc).flatMap (·.ops)).map (·.1) |>.Nodup
  extOpsNew : ∀ o ∈ (schemaExtensions doc).flatMap (·.ops),
      (baseRoots doc d.types).get o.1 = none ∧ (isDefaultName o.2 || d.types.any (·.name == o.2)) = true

/-- the RESIDUE: what the code needs beyond the rules (findings S8 and S1b) -/
structure Residue (doc : Doc) : Prop where
  baseDefaults : BaseDefaults doc
  selfDefaults : SelfDefaults doc
  noThunkCycle : hasThunkCycle (Env.of (typeDefs doc)) (typeDefs doc) = false

theorem sdlOK_of_rules (doc : Doc) (d : SchemaD) (r : SdlRules doc d) (x : Residue doc) : SdlOK doc d :=
  { uniqueTypes := r.valid.uniqueTypes, uniqueDirectives := r.valid.uniqueDirectives, oneSchema := r.valid.oneSchema,
    noBuiltinNames := r.valid.noBuiltinNames, extTargets := r.valid.extTargets, declares := r.declares,
    baseDefaults := x.baseDefaults, selfDefaults := x.selfDefaults,
    membersUnique := membersUnique_of_merged doc d r.declares r.valid.mergedMembersUnique,
    noThunkCycle := x.noThunkCycle, noEagerCycle := noEagerCycle_of_kinds d.types r.kinds, noSpecified := r.noSpecified,
    schemaOps := r.schemaOps, extOps := r.extOps, extOpsNew := r.extOpsNew }

/-- **build_exact from the specification's rules**: a document that satisfies the type-system rules (`SdlRules`: nothing
    about the code) and the residue of findings S8 / S1b builds, and the schema is exactly its declared content.
    `BuildExactStatement` with the premises it lacks made explicit. -/
theorem build_exact_spec (doc : Doc) (d : SchemaD) (r : SdlRules doc d) (x : Residue doc) :
    ∃ s d', build doc = .ok s ∧ Declared doc = some d' ∧ SameContent s d' :=
  ⟨d, d, build_exact_final doc d (sdlOK_of_rules doc d r x), r.declares, rfl, rfl, rfl, fun _ => Iff.rfl, fun _ => Iff.rfl⟩

/-- … and it is independent of the order of the definitions (`BuildPermStatement`, per-target extension order) -/
theorem build_perm_spec (doc₁ doc₂ : Doc) (d₁ : SchemaD) (r : SdlRules doc₁ d₁) (x : Residue doc₁) (hp : doc₁.Perm doc₂)
    (hx : SameExtOrder doc₁ doc₂) (hsx : schemaExtensions doc₁ = schemaExtensions doc₂) :
    ∃ s₁ s₂, build doc₁ = .ok s₁ ∧ build doc₂ = .ok s₂ ∧ SameContent s₁ s₂ :=
  build_perm_sameContent doc₁ doc₂ d₁ (sdlOK_of_rules doc₁ d₁ r x) hp hx hsx

/-! ### non-vacuity: `extDoc` (extensions of two kinds, `extend schema`) satisfies the rules and the residue -/

theorem extDoc_rules : SdlRules extDoc ((Declared extDoc).get extDeclares) :=
  { valid := { uniqueTypes := by decide, uniqueDirectives := by decide, oneSchema := by decide, extTargets := by decide,
               noBuiltinNames := by decide, declares := by decide, mergedMembersUnique := by decide },
    declares := by simp, kinds := ⟨by decide, by decide, by decide⟩, noSpecified := by decide,
    schemaOps := by decide, extOps := by decide, extOpsNew := by decide }

theorem extDoc_residue : Residue extDoc :=
  { baseDefaults := extDoc_ok.baseDefaults, selfDefaults := extDoc_ok.selfDefaults, noThunkCycle := extDoc_ok.noThunkCycle }

example : ∃ s d', build extDoc = .ok s ∧ Declared extDoc = some d' ∧ SameContent s d' :=
  build_exact_spec _ _ extDoc_rules extDoc_residue

/-! ### every premise of the residue is necessary -/

private theorem ok_of_toBool {α} (x : R α) (h : x.toBool = true) : ∃ v, x = .ok v := by
  cases x with
  | ok v => exact ⟨v, rfl⟩
  | error e => simp [Except.toBool] at h

/-- `BaseDefaults` in decidable form -/
def baseDefaultsB (doc : Doc) : Bool :=
  (typeDefs doc).all (fun t => (inputValsOf t).all fun a =>
    match a.default with | some l => (defaultValue (Env.of (typeDefs doc)) l a.type).toBool | none => true) &&
  (dirDefs doc).all (fun d => d.args.all fun a =>
    match a.default with | some l => (defaultValue (Env.of (typeDefs doc)) l a.type).toBool | none => true)

theorem baseDefaults_of_B (doc : Doc) (h : baseDefaultsB doc = true) : BaseDefaults doc := by
  simp only [baseDefaultsB, Bool.and_eq_true, List.all_eq_true] at h
  refine ⟨?_, ?_⟩
  · intro t ht a ha l hl
    have := h.1 t ht a ha
    rw [hl] at this
    exact ok_of_toBool _ this
  · intro d hd a ha l hl
    have := h.2 d hd a ha
    rw [hl] at this
    exact ok_of_toBool _ this

/-- without extension blocks the extended types ARE the types: nothing is hidden from a default -/
theorem extended_nil (env : Env) : env.extended [] = env := by
  cases env with
  | mk fd fa =>
    simp only [Env.extended, Env.mk.injEq, and_true]
    funext n
    cases fd n <;> rfl

theorem defaultValueX_same (e : Env) (hide : Option String) (l : Lit) (ty : Ty) : defaultValueX e e hide l ty = defaultValue e l ty := by
  unfold defaultValueX; split <;> rfl

theorem buildArgumentX_same (e : Env) (h₁ h₂ : Option String) (a : InputValDef) : buildArgumentX e e h₁ a = buildArgumentX e e h₂ a := by
  unfold buildArgumentX
  simp only [defaultValueX_same]

theorem selfDefaults_of_noext (doc : Doc) (h : typeExts doc = []) : SelfDefaults doc := by
  intro t ht
  rw [h, extended_nil]
  by_cases hk : t.kind = .input
  · have hk' : (mergeDef [] t).kind = .input := hk
    unfold buildTypeDefX
    simp only [hk']
    have : (mergeDef [] t).inputFields.mapM (buildArgumentX (Env.of (typeDefs doc)) (Env.of (typeDefs doc)) (hideFor t.kind t.name))
        = (mergeDef [] t).inputFields.mapM (buildArgumentX (Env.of (typeDefs doc)) (Env.of (typeDefs doc)) none) :=
      mapM_congr_mem _ _ _ (fun a _ => buildArgumentX_same _ _ _ a)
    rw [this]
  · exact selfDefaults_of_kind _ _ t _ hk

theorem s8Declares : (Declared s8Doc).isSome = true := by decide
theorem s1bDeclares : (Declared s1bDoc).isSome = true := by decide
theorem s8SelfDeclares : (Declared s8SelfDoc).isSome = true := by decide

/-- finding S8 (`f(a: E = B)`, `enum E { A }`, `extend enum E { B }`): every rule, `SelfDefaults`, no thunk cycle -/
theorem s8_rules : SdlRules s8Doc ((Declared s8Doc).get s8Declares) :=
  { valid := s8_valid, declares := by simp, kinds := ⟨by decide, by decide, by decide⟩, noSpecified := by decide,
    schemaOps := by decide, extOps := by decide, extOpsNew := by decide }

theorem s8_selfDefaults : SelfDefaults s8Doc := by
  intro t ht
  have hk : t.kind ≠ .input := by revert t; decide
  exact selfDefaults_of_kind _ _ t _ hk

/-- finding S1b (`input A { a: A = {a: null} }`): every rule, `BaseDefaults`, `SelfDefaults` (no extension at all) -/
theorem s1b_rules : SdlRules s1bDoc ((Declared s1bDoc).get s1bDeclares) :=
  { valid := { uniqueTypes := by decide, uniqueDirectives := by decide, oneSchema := by decide, extTargets := by decide,
               noBuiltinNames := by decide, declares := by decide, mergedMembersUnique := by decide },
    declares := by simp, kinds := ⟨by decide, by decide, by decide⟩, noSpecified := by decide,
    schemaOps := by decide, extOps := by decide, extOpsNew := by decide }

set_option maxRecDepth 4000 in
/-- the self-typed default written in an extension of its own input type: every rule, `BaseDefaults`, no thunk cycle -/
theorem s8Self_rules : SdlRules s8SelfDoc ((Declared s8SelfDoc).get s8SelfDeclares) :=
  { valid := { uniqueTypes := by decide, uniqueDirectives := by decide, oneSchema := by decide, extTargets := by decide,
               noBuiltinNames := by decide, declares := by decide, mergedMembersUnique := by decide },
    declares := by simp, kinds := ⟨by decide, by decide, by decide⟩, noSpecified := by decide,
    schemaOps := by decide, extOps := by decide, extOpsNew := by decide }

/-- **The residue is necessary, premise by premise**: for each of `BaseDefaults`, `SelfDefaults`, `noThunkCycle` there
    is a document that satisfies every rule of the specification (`SdlRules`) AND the two other premises, declares a
    schema, and is NOT built (S8: SDL error, twice; S1b: stack overflow).  So `build_exact_spec` cannot lose a premise
    as long as findings S8 / S1b stand. -/
theorem residue_necessary :
    -- BaseDefaults
    (∃ doc d, SdlRules doc d ∧ SelfDefaults doc ∧ hasThunkCycle (Env.of (typeDefs doc)) (typeDefs doc) = false ∧ (build doc).toBool = false) ∧
    -- SelfDefaults
    (∃ doc d, SdlRules doc d ∧ BaseDefaults doc ∧ hasThunkCycle (Env.of (typeDefs doc)) (typeDefs doc) = false ∧ (build doc).toBool = false) ∧
    -- noThunkCycle
    (∃ doc d, SdlRules doc d ∧ BaseDefaults doc ∧ SelfDefaults doc ∧ (build doc).toBool = false) := by
  refine ⟨⟨s8Doc, _, s8_rules, s8_selfDefaults, by decide, by decide⟩,
          ⟨s8SelfDoc, _, s8Self_rules, baseDefaults_of_B _ (by decide), by decide, ?_⟩,
          ⟨s1bDoc, _, s1b_rules, baseDefaults_of_B _ (by decide), selfDefaults_of_noext _ (by decide), by decide⟩⟩
  have := s8_self_default_refused.1
  revert this
  cases build s8SelfDoc with
  | ok s => simp
  | error e => simp [Except.toBool]

end PyGql.Props.C11

/-
  C11 ∩ C13 — "the specification's type-system rules" of the C11 statement are, for the KIND rules, the rules that
  `Schema.validate` implements and C13 specifies (`Spec/SchemaValidSpec.lean: ValidSchema`, `validate_iff`).

  `kindRules_of_validSchema`: a schema that satisfies C13's `ValidSchema` satisfies the `KindRules` premise of
  `build_exact_spec` — for the types of the document, whatever specified / introspection types the registry holds
  besides them.  So a document whose DECLARED content passes schema validation never meets the circular-reference
  guard of the builder (`noEagerCycle_of_validSchema`), and `build_exact_valid` states `build_exact` with C13's predicate
  in place of the kind rules.
-/
import PyGqlModel.Props.C11_valid
import PyGqlModel.Spec.SchemaValidSpec
import PyGqlModel.Props.C13

set_option linter.unusedVariables false
set_option linter.unusedSimpArgs false

namespace PyGql.Props.C11
open PyGql PyGql.Sdl PyGql.SdlSpec

/-- a lookup in `types ++ more`: what it finds is what the lookup in `types` finds, unless that finds nothing -/
theorem kindAt_append (types more : List TypeD) (n : String) (k : Kind) (h : kindAt (types ++ more) n = some k) :
    kindAt types n = some k ∨ kindAt types n = none := by
  unfold kindAt at h ⊢
  rw [List.find?_append] at h
  cases hf : types.find? (·.name == n) with
  | none => exact Or.inr rfl
  | some t => rw [hf] at h; exact Or.inl h

theorem compositeOut_append (types more : List TypeD) (n : String) (h : compositeOut (kindAt (types ++ more) n) = false) :
    compositeOut (kindAt types n) = false := by
  cases hk : kindAt types n with
  | none => rfl
  | some k =>
    have : kindAt (types ++ more) n = some k := by
      unfold kindAt at hk ⊢
      rw [List.find?_append]
      cases hf : types.find? (·.name == n) with
      | none => rw [hf] at hk; cases hk
      | some t => rw [hf] at hk; exact hk
    rw [this] at h; exact h

private theorem isInput_composite (s : SchemaD) (t : Ty) (h : SchemaValid.isInputType s t = true) :
    compositeOut (kindAt s.types t.base) = false := by
  unfold SchemaValid.isInputType SchemaValid.kindOf SchemaD.findType at h
  unfold kindAt
  cases hk : (s.types.find? (·.name == t.base)).map (·.kind) with
  | none => rfl
  | some k => rw [hk] at h; cases k <;> simp_all [compositeOut]

/-- **C13 ⇒ the kind rules of C11**: if the registry `types ++ more` (`more`: the specified scalars and introspection
    types, or anything else) with its roots and directives satisfies `ValidSchema`, the types `types` satisfy `KindRules` -/
theorem kindRules_of_validSchema (s : SchemaD) (rv : Bool) (types more : List TypeD) (hs : s.types = types ++ more)
    (h : SchemaValidSpec.ValidSchema s rv) : KindRules types := by
  obtain ⟨_, hT, _⟩ := h
  refine ⟨?_, ?_, ?_⟩
  · intro t ht hk i hi
    have hok := (hT t (by rw [hs]; exact List.mem_append_left _ ht)).2
    simp only [hk] at hok
    obtain ⟨it, hit, hik, _⟩ := hok.2.1 i hi
    have : kindAt (types ++ more) i = some .interface := by
      rw [← hs]; unfold kindAt; unfold SchemaD.findType at hit; rw [hit]; simp [hik]
    exact kindAt_append types more i _ this
  · intro t ht hk m hm
    have hok := (hT t (by rw [hs]; exact List.mem_append_left _ ht)).2
    simp only [hk] at hok
    have := hok.2.1 m hm
    have : kindAt (types ++ more) m = some .object := by rw [← hs]; exact this
    exact kindAt_append types more m _ this
  · intro t ht hk f hf a ha
    have hok := (hT t (by rw [hs]; exact List.mem_append_left _ ht)).2
    have hF : SchemaValidSpec.FieldsOK s rv t := by
      rcases hk with hk | hk <;> simp only [hk] at hok
      · exact hok.1
      · exact hok
    have hin := ((hF.2.1 f hf).2.2.1.1 a ha).2.1
    have := isInput_composite s a.type hin
    rw [hs] at this
    exact compositeOut_append types more _ this

/-- a document whose declared content passes schema validation never meets the circular-reference guard -/
theorem noEagerCycle_of_validSchema (s : SchemaD) (rv : Bool) (types more : List TypeD) (hs : s.types = types ++ more)
    (h : SchemaValidSpec.ValidSchema s rv) : hasEagerCycle types = false :=
  noEagerCycle_of_kinds types (kindRules_of_validSchema s rv types more hs h)

/-- **build_exact with C13's predicate**: `SdlValid` (Spec/SdlSpec.lean), the declared content — completed with any list
    `more` of specified types — valid for `Schema.validate` (`ValidSchema`, C13), the root operations well-formed, and the
    S8 / S1b residue: the document builds exactly its declared content. -/
theorem build_exact_valid (doc : Doc) (d : SchemaD) (more : List TypeD) (rv : Bool)
    (valid : SdlValid doc) (declares : Declared doc = some d)
    (valid13 : SchemaValidSpec.ValidSchema { d with types := d.types ++ more } rv)
    (noSpecified : d.directives.any (fun x => specifiedDirectives.contains x.name) = false)
    (schemaOps : ∀ sd, (schemaDefs doc).head? = some sd →
      (sd.ops.map (·.1)).Nodup ∧ ∀ o ∈ sd.ops, (Env.of (typeDefs doc)).resolves o.2 = true)
    (extOps : ((schemaExtensions doc).flatMap (·.ops)).map (·.1) |>.Nodup)
    (extOpsNew : ∀ o ∈ (schemaExtensions doc).flatMap (·.ops),
      (baseRoots doc d.types).get o.1 = none ∧ (isDefaultName o.2 || d.types.any (·.name == o.2)) = true)
    (x : Residue doc) : build doc = .ok d :=
  build_exact_final doc d (sdlOK_of_rules doc d
    { valid := valid, declares := declares, kinds := kindRules_of_validSchema _ rv d.types more rfl valid13,
      noSpecified := noSpecified, schemaOps := schemaOps, extOps := extOps, extOpsNew := extOpsNew } x)

/-! ### non-vacuity: a document with an interface, a union, an input argument, an extension — its declared content,
completed with the two specified scalars it uses, passes C13's validator (`validate_iff`, evaluated) -/

def vDoc : Doc := [
  .type { kind := .interface, name := "N", fields := [{ name := "id", type := .named "ID" }] },
  .type { kind := .object, name := "T", interfaces := ["N"], fields := [{ name := "id", type := .named "ID" }] },
  .type { kind := .union, name := "U", members := ["T"] },
  .type { kind := .input, name := "I", inputFields := [{ name := "x", type := .named "Int" }] },
  .type { kind := .object, name := "Query", fields := [{ name := "u", type := .named "U", args := [{ name := "i", type := .named "I" }] }] },
  .ext { kind := .object, name := "Query", fields := [{ name := "n", type := .named "N" }] }]

def vMore : List TypeD := [{ kind := .scalar, name := "Int", builtin := true }, { kind := .scalar, name := "ID", builtin := true }]

theorem vDeclares : (Declared vDoc).isSome = true := by decide

theorem vDoc_valid13 : SchemaValidSpec.ValidSchema { (Declared vDoc).get vDeclares with types := ((Declared vDoc).get vDeclares).types ++ vMore } true :=
  (PyGql.Props.C13.validate_iff _ _).1 (by decide)

example : KindRules ((Declared vDoc).get vDeclares).types := kindRules_of_validSchema _ true _ vMore rfl vDoc_valid13

example : build vDoc = .ok ((Declared vDoc).get vDeclares) :=
  build_exact_valid vDoc _ vMore true
    { uniqueTypes := by decide, uniqueDirectives := by decide, oneSchema := by decide, extTargets := by decide,
      noBuiltinNames := by decide, declares := by decide, mergedMembersUnique := by decide }
    (by simp) vDoc_valid13 (by decide) (by decide) (by decide) (by decide)
    { baseDefaults := baseDefaults_of_B _ (by decide),
      selfDefaults := by
        intro t ht
        by_cases hk : t.kind = .input
        · exact selfDefaults_of_noDefaults _ _ _ _ _ (by rw [(mergeDef_spec _ t).1]; exact hk) (by revert t; decide)
        · exact selfDefaults_of_kind _ _ t _ hk,
      noThunkCycle := by decide }

end PyGql.Props.C11

/-
  C10 — "… a path of keys and indices for field errors, with resolver-supplied extensions passed through":
  what `ResolverError.to_dict` does with the extensions, exactly; and `only_lf_cr_end_lines`: no character other than LF / CR
  ends a line for `index_to_loc` (seeded change C10-12 made U+2028 / U+2029 / U+0085 do so).
-/
import PyGqlModel.Props.C10_wellformed

set_option linter.unusedSimpArgs false
set_option linter.unusedVariables false

namespace PyGql.Props.C10
open PyGql PyGql.Response PyGql.Spec.Response PyGql.Generated.ResponseKeys

private theorem find_ext_none (kvs : List (String × J)) (h : (kvs.all fun kv => kv.1 != "extensions") = true) :
    kvs.find? (fun x => x.1 == "extensions") = none := by
  rw [List.find?_eq_none]
  intro x hx
  simp only [List.all_eq_true] at h
  have := h x hx
  simpa using this

private theorem get_ext_of_absent (kvs : List (String × J)) (e : J) (h : (kvs.all fun kv => kv.1 != "extensions") = true) :
    (J.obj (kvs ++ [("extensions", e)])).get? "extensions" = some e := by
  simp [J.get?, List.find?_append, find_ext_none kvs h]

private theorem get_ext_none (kvs : List (String × J)) (h : (kvs.all fun kv => kv.1 != "extensions") = true) :
    (J.obj kvs).get? "extensions" = none := by
  simp [J.get?, find_ext_none kvs h]

/-- the entries of a located error's dictionary are `message`, `locations`, `path` — never `extensions` -/
private theorem locatedDict_no_ext (text : Text) (msg : String) (ns : List (Option Nat)) (path : Option Path) (kvs : List (String × J))
    (h : locatedDict text msg ns path = some kvs) : (kvs.all fun kv => kv.1 != "extensions") = true := by
  unfold locatedDict at h
  cases hm : (ns.filterMap id).mapM (indexToLoc text) with
  | none => simp [hm] at h
  | some locs =>
    simp only [hm, Option.some.injEq] at h
    subst h
    simp only [List.all_append, Bool.and_eq_true]
    refine ⟨⟨?_, ?_⟩, ?_⟩
    · split <;> simp
    · split <;> simp
    · split <;> simp

/-- what the application supplied, as it must appear: non-empty extensions as a map, otherwise no entry -/
def suppliedExt : Option (List (String × J)) → Option J
  | some (e :: es) => some (J.obj (e :: es))
  | _ => none

/-- **extensions_passed_through.** Whenever a resolver error renders (`to_dict` does not raise): non-empty resolver-supplied
    extensions appear in the error map under `"extensions"` UNCHANGED (same keys, same values, same order), and an error without
    (or with empty) extensions has no `"extensions"` entry — nothing is invented. -/
theorem extensions_passed_through (text : Text) (msg : String) (ns : List (Option Nat)) (path : Option Path)
    (ext : Option (List (String × J))) (j : J) (h : Err.toDict text (.resolver msg ns path ext) = some j) :
    j.get? "extensions" = suppliedExt ext := by
  simp only [Err.toDict, Option.map_eq_some_iff] at h
  obtain ⟨kvs, hk, hj⟩ := h
  have hno := locatedDict_no_ext text msg ns path kvs hk
  have hr : resolverExtKey = "extensions" := rfl
  cases ext with
  | none => subst hj; exact get_ext_none kvs hno
  | some es =>
    cases es with
    | nil => subst hj; exact get_ext_none kvs hno
    | cons e0 es =>
      subst hj
      show (J.obj (kvs ++ [("extensions", J.obj (e0 :: es))])).get? "extensions" = _
      exact get_ext_of_absent kvs _ hno

/-- errors of the other classes never carry `extensions` -/
theorem no_extensions_invented (text : Text) (e : Err) (j : J) (hne : ∀ m ns p x, e ≠ .resolver m ns p x)
    (h : e.toDict text = some j) : j.get? "extensions" = none := by
  cases e with
  | «syntax» msg p =>
    simp only [Err.toDict] at h
    cases hl : indexToLoc text p with
    | none => simp [hl] at h
    | some lc => simp [hl] at h; subst h; simp [J.get?]
  | located msg ns path =>
    simp only [Err.toDict, Option.map_eq_some_iff] at h
    obtain ⟨kvs, hk, hj⟩ := h
    subst hj
    exact get_ext_none kvs (locatedDict_no_ext text msg ns path kvs hk)
  | resolver m ns p x => exact absurd rfl (hne m ns p x)
  | execution msg => simp [Err.toDict] at h; subst h; simp [J.get?]

/-- non-vacuity: a field error at offset 2 with path `["a"]` and extensions `{code: 1, tags: []}` -/
example : (Err.toDict [123, 32, 97, 32, 125] (.resolver "boom" [some 2] (some [.key "a"]) (some [("code", .num 1), ("tags", .arr [])]))).bind (·.get? "extensions")
    = some (.obj [("code", .num 1), ("tags", .arr [])]) := by rfl

/-! ### only LF, CR and CRLF end a line -/

private theorem loop_no_terminator : ∀ (text : Text) (p lines cols : Nat), p ≤ text.length → (∀ c ∈ text, c ≠ 10 ∧ c ≠ 13) →
    indexToLocLoop text p lines cols = (lines + 1, cols + p + 1)
  | [], p, lines, cols, hp, _ => by
    have : p = 0 := by simpa using hp
    subst this; simp [indexToLocLoop]
  | c :: rest, 0, lines, cols, _, _ => by simp [indexToLocLoop]
  | c :: rest, p + 1, lines, cols, hp, hc => by
    have h1 := (hc c (by simp)).1
    have h2 := (hc c (by simp)).2
    have ih := loop_no_terminator rest p lines (cols + 1) (by simpa using hp) (fun x hx => hc x (by simp [hx]))
    simp only [indexToLocLoop, h1, h2, if_false, ih]
    congr 1; omega

private theorem splitLines_no_terminator : ∀ (text : Text), (∀ c ∈ text, c ≠ 10 ∧ c ≠ 13) → splitLines text = [text]
  | [], _ => by simp [splitLines]
  | c :: rest, hc => by
    have h1 := (hc c (by simp)).1
    have h2 := (hc c (by simp)).2
    have ih := splitLines_no_terminator rest (fun x hx => hc x (by simp [hx]))
    simp [splitLines, h1, h2, ih]

/-- **only_lf_cr_end_lines.** A text without LF and CR is ONE line, whatever else it contains — U+2028, U+2029, U+0085, VT, FF,
    FS, GS, RS (the characters `str.splitlines` also breaks on) have width 1 and end no line: every position `p ≤ len` is reported
    as line 1, column `p + 1`. -/
theorem only_lf_cr_end_lines (text : Text) (h : ∀ c ∈ text, c ≠ 10 ∧ c ≠ 13) (p : Nat) (hp : p ≤ text.length) :
    indexToLoc text p = some (1, p + 1) ∧ splitLines text = [text] := by
  refine ⟨?_, splitLines_no_terminator text h⟩
  unfold indexToLoc
  by_cases h0 : (text.isEmpty && p == 0) = true
  · have : p = 0 := by simp at h0; exact h0.2
    subst this
    simp only [h0, if_true]
  · have : ¬ p > text.length := by omega
    simp only [h0, this, if_false, Bool.false_eq_true]
    rw [loop_no_terminator text p 0 0 hp h]
    simp

/-- non-vacuity: `{ a(s: "x<U+2028>y<U+0085><VT>") zz }` — the error at `zz` (offset 19) is on line 1, column 20 -/
example : indexToLoc [123, 32, 97, 40, 115, 58, 32, 34, 120, 0x2028, 121, 0x85, 0x0B, 34, 41, 32, 122, 122, 32, 125] 16 = some (1, 17) := by decide

end PyGql.Props.C10

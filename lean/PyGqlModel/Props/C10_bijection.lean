/-
  C10 — property theorems, part 2: `null_error_bijection` on the model of the executor's
  error capture (`resolve_field` / `complete_value` / `_handle_non_nullable_value`).
-/
import PyGqlModel.Response
import PyGqlModel.Spec.NullSites
import PyGqlModel.Lemmas.ExecCapture

namespace PyGql.Props.C10
open PyGql PyGql.Response PyGql.Spec.NullSites

open PyGql.Lemmas.ExecCapture

private theorem map_app (path : Path) (s : Seg) (l : List Path) :
    (l.map (s :: ·)).map (fun p => some (path ++ p)) = l.map (fun p => some ((path ++ [s]) ++ p)) := by
  simp [List.map_map, Function.comp_def]

mutual
private theorem inner_paths (b : Bool) (t : Ty) (nodes : List Nat) (path : Path) :
    ∀ (o : Out) (v : J) (es : List Err), completeInner b t nodes path o = some (v, es) →
      es.map Err.path? = (if o.isRaised then [some path] else []) ++ (sitesInner t o).map (fun p => some (path ++ p))
  | .null, v, es, h => by
    simp [completeInner] at h; obtain ⟨_, rfl⟩ := h; simp [sitesInner, Out.isRaised]
  | .raised _ _, v, es, h => by
    cases b <;> simp [completeInner] at h
    obtain ⟨_, rfl⟩ := h; simp [sitesInner, Out.isRaised, Err.path?]
  | .leaf x, v, es, h => by
    cases t <;> simp [completeInner] at h
    obtain ⟨_, rfl⟩ := h; simp [sitesInner, Out.isRaised]
  | .list items, v, es, h => by
    cases t with
    | list it =>
      simp [completeInner] at h
      obtain ⟨vs, h1, _⟩ := h
      simpa [sitesInner, Out.isRaised] using list_paths it nodes path 0 items vs es h1
    | named n => simp [completeInner] at h
    | nonNull u => simp [completeInner] at h
  | .obj fields, v, es, h => by
    cases t with
    | named n =>
      simp [completeInner] at h
      obtain ⟨kvs, h1, _⟩ := h
      simpa [sitesInner, Out.isRaised] using fields_paths path fields kvs es h1
    | list it => simp [completeInner] at h
    | nonNull u => simp [completeInner] at h

private theorem list_paths (it : Ty) (nodes : List Nat) (path : Path) :
    ∀ (i : Nat) (items : OutList) (vs : List J) (es : List Err), completeList it nodes path i items = some (vs, es) →
      es.map Err.path? = (sitesList it i items).map (fun p => some (path ++ p))
  | i, .nil, vs, es, h => by
    simp [completeList] at h; obtain ⟨_, rfl⟩ := h; simp [sitesList]
  | i, .cons o rest, vs, es, h => by
    rw [completeList] at h
    split at h
    · simp at h
    · rename_i v e1 hw
      split at h
      · simp at h
      · rename_i vs' e2 hr
        simp only [Option.some.injEq, Prod.mk.injEq] at h
        obtain ⟨_, rfl⟩ := h
        obtain ⟨es0, hi, rfl⟩ := wrap_inv hw
        have ih1 := inner_paths false (innerTy it) nodes (path ++ [.idx i]) o v es0 hi
        have ih2 := list_paths it nodes path (i + 1) rest vs' e2 hr
        have hn := inner_null_iff hi
        have hnr : o.isRaised = false := by
          cases o <;> simp [Out.isRaised]
          simp [completeInner] at hi
        rw [sitesList, List.map_append, List.map_append, List.map_append, ih2, map_app, List.map_append, ih1, hn, hnr]
        by_cases c : (it.isNonNull && completesNull o) = true
        · simp [c, Err.path?]
        · simp [c]

private theorem fields_paths (path : Path) :
    ∀ (fs : FldList) (kvs : List (String × J)) (es : List Err), executeFields path fs = some (kvs, es) →
      es.map Err.path? = (sitesFields fs).map (fun p => some (path ++ p))
  | .nil, kvs, es, h => by
    simp [executeFields] at h; obtain ⟨_, rfl⟩ := h; simp [sitesFields]
  | .cons key ty nodes o rest, kvs, es, h => by
    rw [executeFields] at h
    split at h
    · simp at h
    · rename_i v e1 hw
      split at h
      · simp at h
      · rename_i kvs' e2 hr
        simp only [Option.some.injEq, Prod.mk.injEq] at h
        obtain ⟨_, rfl⟩ := h
        obtain ⟨es0, hi, rfl⟩ := wrap_inv hw
        have ih1 := inner_paths true (innerTy ty) nodes (path ++ [.key key]) o v es0 hi
        have ih2 := fields_paths path rest kvs' e2 hr
        have hn := inner_null_iff hi
        rw [sitesFields, List.map_append, List.map_append, List.map_append, ih2, map_app, List.map_append, ih1, hn]
        by_cases hr' : o.isRaised = true
        · have : sitesInner (innerTy ty) o = [] := by
            cases o <;> simp [Out.isRaised] at hr'
            simp [sitesInner]
          simp [hr', this]
        · simp only [Bool.not_eq_true] at hr'
          by_cases c : (ty.isNonNull && completesNull o) = true
          · simp [hr', c, Err.path?]
          · simp [hr', c]
end

/-- **null_error_bijection (paths).** For every typed outcome tree of a root selection that the
    executor completes, the list of the paths of the collected errors IS the list of the sites the
    statement names — fields whose resolver raised the resolver error and non-null positions whose
    value is null — in execution order: each site has its error, each error its site. -/
theorem null_error_bijection (root : FldList) (data : J) (errs : List Err)
    (h : execute root = some (data, errs)) :
    errs.map Err.path? = (sitesFields root).map some := by
  unfold execute at h
  simp at h
  obtain ⟨kvs, h1, _⟩ := h
  simpa using fields_paths [] root kvs errs h1

end PyGql.Props.C10

namespace PyGql.Props.C10
open PyGql PyGql.Response PyGql.Spec.NullSites

/-- non-vacuity: `{ a b l o { id v } }` with `a` raising, `b: String!` null, `l: [Int!]!` = `[1, null]`,
    `o.id` raising and `o.v: Float!` null: five errors, at exactly the five sites, each null in `data`. -/
private def exampleRoot : FldList :=
  .cons "a" (.named "Int") [2] (.raised "boom" none) <|
  .cons "b" (.nonNull (.named "String")) [4] .null <|
  .cons "l" (.nonNull (.list (.nonNull (.named "Int")))) [6] (.list (.cons (.leaf (.num 1)) (.cons .null .nil))) <|
  .cons "o" (.named "Obj") [8]
    (.obj (.cons "id" (.nonNull (.named "ID")) [12] (.raised "" (some [("code", .num 7)]))
          (.cons "v" (.nonNull (.named "Float")) [15] .null .nil))) .nil

example : sitesFields exampleRoot =
    [[.key "a"], [.key "b"], [.key "l", .idx 1], [.key "o", .key "id"], [.key "o", .key "v"]] := by decide

example : ∃ data errs, execute exampleRoot = some (data, errs) ∧ errs.length = 5 ∧
    errs.map Err.path? = (sitesFields exampleRoot).map some ∧
    (sitesFields exampleRoot).all (fun p => (dataAt data p).map J.isNull == some true) = true := by
  refine ⟨_, _, rfl, ?_, ?_, ?_⟩ <;> decide

end PyGql.Props.C10

/-
  C12 — `default_roundtrip`: a default value printed by the schema printer (`ast_node_from_value`) and read back
  by the builder (`value_from_ast`) is the same value.
-/
import PyGqlModel.SdlPrint
import Std.Data.String.ToInt

set_option linter.unusedVariables false
set_option linter.unusedSimpArgs false
set_option linter.unnecessarySimpa false

namespace PyGql.Props.C12
open PyGql PyGql.Sdl PyGql.SdlPrint

/-- the builder's view of a schema whose types are all live (`additional_types`-style lookups) -/
def liveEnv (s : SchemaD) : Env := { findDef := fun _ => none, findAdditional := s.findType }

/-- the float with repr `r` prints to a literal that denotes it (excludes `-0.0`, which prints as `0`: finding H8) -/
def FloatCanon (r : String) : Prop :=
  floatLit r = .float r r ∨ ∃ k : Int, floatLit r = .int (toString k) (intRepr k) ∧ intRepr k = r

/-- canonical NON-NULL values of a named leaf type (what `build_schema` stores for a default of that type) -/
def LeafOK (s : SchemaD) (nm : String) (v : J) : Prop :=
  (nm = "Boolean" ∧ ∃ b, v = .bool b) ∨
  (nm = "Int" ∧ ∃ k : Int, v = .num k ∧ MIN_INT ≤ k ∧ k ≤ MAX_INT) ∨
  (nm = "String" ∧ ∃ x, v = .str x) ∨
  (nm = "ID" ∧ ∃ x, v = .str x) ∨
  (nm = "Float" ∧ ∃ r, v = floatJ r ∧ finiteRepr r = true ∧ FloatCanon r) ∨
  (builtinScalars.contains nm = false ∧ ∃ t, s.findType nm = some t ∧ t.kind = .scalar ∧ ((∃ b, v = .bool b) ∨ ∃ x, v = .str x)) ∨
  (builtinScalars.contains nm = false ∧ ∃ t ev, s.findType nm = some t ∧ t.kind = .enum ∧ v ≠ .null ∧
      t.values.find? (fun e => jEq e.value v) = some ev ∧ (t.values.find? (·.name == ev.name)).map (·.value) = some v)

mutual
/-- well-typed canonical values (leaf types, lists, non-null), indexed by the fuel both functions consume -/
def WT (s : SchemaD) : Nat → J → Ty → Prop
  | 0, _, _ => False
  | n+1, v, .nonNull t => v ≠ .null ∧ WT s n v t
  | n+1, v, .list t => v = .null ∨ ∃ items, v = .arr items ∧ WTs s n items t
  | n+1, v, .named nm => v = .null ∨ LeafOK s nm v
def WTs (s : SchemaD) : Nat → List J → Ty → Prop
  | 0, _, _ => False
  | _+1, [], _ => True
  | n+1, x :: xs, t => WT s n x t ∧ WTs s n xs t
end

/-! ### leaves -/

private theorem toInt_toString (k : Int) : (toString k).toInt? = some k := by
  have := Int.toInt?_repr k
  simpa using this

theorem leaf_roundtrip (s : SchemaD) (nm : String) (v : J) (h : LeafOK s nm v) (fuel : Nat) :
    ∃ lit, valueLit s (fuel+1) v (.named nm) = some lit ∧ valueFromAst (liveEnv s) (fuel+1) lit (.named nm) = some (some v) ∧ lit ≠ .null := by
  rcases h with ⟨rfl, b, rfl⟩ | ⟨rfl, k, rfl, hlo, hhi⟩ | ⟨rfl, x, rfl⟩ | ⟨rfl, x, rfl⟩ | ⟨rfl, r, rfl, hfin, hcan⟩ | ⟨hnb, t, ht, hk, hv⟩ | ⟨hnb, t, ev, ht, hk, hnn, hf1, hf2⟩
  · exact ⟨.bool b, by simp [valueLit, builtinScalars, builtinLit], by simp [valueFromAst, builtinScalars, scalarLiteral, pure], by simp⟩
  · refine ⟨.int (toString k) (intRepr k), by simp [valueLit, builtinScalars, builtinLit], ?_, by simp⟩
    simp [valueFromAst, builtinScalars, scalarLiteral, pure, toInt_toString, hlo, hhi]
  · exact ⟨.str x, by simp [valueLit, builtinScalars, builtinLit], by simp [valueFromAst, builtinScalars, scalarLiteral, pure], by simp⟩
  · by_cases hx : isIntText x = true
    · exact ⟨.int x (x ++ ".0"), by simp [valueLit, builtinScalars, builtinLit, hx], by simp [valueFromAst, builtinScalars, scalarLiteral, pure], by simp⟩
    · exact ⟨.str x, by simp [valueLit, builtinScalars, builtinLit, hx], by simp [valueFromAst, builtinScalars, scalarLiteral, pure], by simp⟩
  · rcases hcan with hc | ⟨k, hc, hr⟩
    · exact ⟨.float r r, by simp [valueLit, builtinScalars, builtinLit, floatJ, hc], by simp [valueFromAst, builtinScalars, scalarLiteral, pure, hfin, floatJ], by simp⟩
    · refine ⟨.int (toString k) (intRepr k), by simp [valueLit, builtinScalars, builtinLit, floatJ, hc], ?_, by simp⟩
      simp [valueFromAst, builtinScalars, scalarLiteral, pure, hr, hfin, floatJ]
  · have hnb' : nm ∉ builtinScalars := by simpa using hnb
    rcases hv with ⟨b, rfl⟩ | ⟨x, rfl⟩
    · exact ⟨.bool b, by simp [valueLit, hnb', ht, hk, customLit], by simp [valueFromAst, hnb', liveEnv, ht, hk, scalarLiteral, pure], by simp⟩
    · by_cases hx : isIntText x = true
      · exact ⟨.int x (x ++ ".0"), by simp [valueLit, hnb', ht, hk, customLit, hx], by simp [valueFromAst, hnb', liveEnv, ht, hk, scalarLiteral, pure], by simp⟩
      · by_cases hfr : isFloatRepr x = true
        · exact ⟨.float x x, by simp [valueLit, hnb', ht, hk, customLit, hx, hfr], by simp [valueFromAst, hnb', liveEnv, ht, hk, scalarLiteral, pure], by simp⟩
        · exact ⟨.str x, by simp [valueLit, hnb', ht, hk, customLit, hx, hfr], by simp [valueFromAst, hnb', liveEnv, ht, hk, scalarLiteral, pure], by simp⟩
  · have hnb' : nm ∉ builtinScalars := by simpa using hnb
    refine ⟨.enum ev.name, ?_, ?_, by simp⟩
    · cases v <;> simp_all [valueLit]
    · simp [valueFromAst, hnb', liveEnv, ht, hk, pure, hf2]

/-! ### wrappers: null, non-null, lists (any nesting depth) -/

private theorem roundtrip_aux (s : SchemaD) : ∀ n : Nat,
    (∀ v ty, WT s n v ty → ∃ lit, valueLit s n v ty = some lit ∧ valueFromAst (liveEnv s) n lit ty = some (some v) ∧
        (v ≠ .null → lit ≠ .null)) ∧
    (∀ items t, WTs s n items t → ∃ lits, itemsLit s n items t = some lits ∧ coerceItems (liveEnv s) n lits t = some (some items)) := by
  intro n
  induction n with
  | zero => exact ⟨fun v ty h => by simp [WT] at h, fun items t h => by simp [WTs] at h⟩
  | succ n ih =>
    obtain ⟨ihv, ihs⟩ := ih
    refine ⟨?_, ?_⟩
    · intro v ty h
      cases ty with
      | named nm =>
        simp only [WT] at h
        rcases h with rfl | hl
        · exact ⟨.null, by simp [valueLit], by simp [valueFromAst, pure], by simp⟩
        · obtain ⟨lit, h1, h2, h3⟩ := leaf_roundtrip s nm v hl n
          exact ⟨lit, h1, h2, fun _ => h3⟩
      | nonNull t =>
        simp only [WT] at h
        obtain ⟨hv, hw⟩ := h
        obtain ⟨lit, h1, h2, h3⟩ := ihv v t hw
        have hl := h3 hv
        refine ⟨lit, ?_, ?_, fun _ => hl⟩
        · simp only [valueLit, h1]
          cases lit <;> simp_all
        · cases lit <;> simp_all [valueFromAst]
      | list t =>
        simp only [WT] at h
        rcases h with rfl | ⟨items, rfl, hw⟩
        · exact ⟨.null, by simp [valueLit], by simp [valueFromAst, pure], by simp⟩
        · obtain ⟨lits, h1, h2⟩ := ihs items t hw
          exact ⟨.list lits, by simp [valueLit, h1], by simp [valueFromAst, h2, bind, Option.bind, pure], by simp⟩
    · intro items t h
      cases items with
      | nil => exact ⟨[], by simp [itemsLit], by simp [coerceItems, pure]⟩
      | cons x xs =>
        simp only [WTs] at h
        obtain ⟨lit, h1, h2, _⟩ := ihv x t h.1
        obtain ⟨lits, h3, h4⟩ := ihs xs t h.2
        exact ⟨lit :: lits, by simp [itemsLit, h1, h3], by simp [coerceItems, h2, h4, bind, Option.bind, pure]⟩

/-- **default_roundtrip**: for every canonical value `v` of a type built from leaf types (the five specified
    scalars, custom scalars, enums), `null`, non-null and list wrappers of ANY nesting depth, the literal the
    schema printer writes for `v` is read back by the builder as `v` itself. (Int through `toString`/`toInt?`;
    Float through Python's repr carried by the literal; `-0.0` and input objects that omit defaulted fields are
    excluded by `WT` — findings H8 and H2.) -/
theorem default_roundtrip (s : SchemaD) (n : Nat) (v : J) (ty : Ty) (h : WT s n v ty) :
    ∃ lit, valueLit s n v ty = some lit ∧ valueFromAst (liveEnv s) n lit ty = some (some v) :=
  let ⟨lit, h1, h2, _⟩ := (roundtrip_aux s n).1 v ty h
  ⟨lit, h1, h2⟩

/-! ### non-vacuity -/

def rtSchema : SchemaD := { types := [{ kind := .enum, name := "E", values := [{ name := "A", value := .str "A" }, { name := "B", value := .num 2 }] },
                                      { kind := .scalar, name := "S" }] }

example : WT rtSchema 12 (.arr [.arr [.num 7, .num (-3)], .null]) (.nonNull (.list (.list (.nonNull (.named "Int"))))) := by
  simp [WT, WTs, LeafOK, MIN_INT, MAX_INT]
example : WT rtSchema 8 (.arr [.str "x", .str "42"]) (.list (.named "ID")) := by simp [WT, WTs, LeafOK]

end PyGql.Props.C12

/-
  C13 — what the resolver-signature clause of the specification (`ResolverCompatible`, which `validate_iff` ties to
  `_validate_resolver_arguments`) MEANS: an explicit model of Python's call binding for the call the executor makes,
  `resolver(root, ctx, info, **arguments)`, case by case over the five parameter kinds of `inspect.signature`
  (positional-only, positional-or-keyword, `*args`, keyword-only, `**kwargs`) and parameter defaults; and the theorem
  that a signature accepted by the rule binds EVERY call the executor can make (`arguments` always holds the required
  arguments and those with a default value, and any subset of the others).

  Until now this link was only exercised (TRUSTED: "tied to Python's call binding by REALLY CALLING the generated
  callables"); the binding rules themselves (`bindOk`) remain a model of CPython, checked by that same call oracle.
-/
import PyGqlModel.SchemaValid
import PyGqlModel.Spec.SchemaValidSpec

set_option linter.unusedSimpArgs false
set_option linter.unusedVariables false

namespace PyGql.Props.C13
open PyGql PyGql.SchemaValid PyGql.SchemaValidSpec

/-- the keyword sets the executor can pass for a field with arguments `args`: python names of arguments, all the
    required ones and all those with a default value -/
def Admissible (args : List ArgD) (K : List String) : Prop :=
  (∀ k ∈ K, ∃ a ∈ args, a.pythonName = k) ∧
  (∀ a ∈ args, (argRequired a = true ∨ a.hasDefault = true) → a.pythonName ∈ K)

/-- parameter names are pairwise distinct (Python refuses `def f(a, a)`) -/
def ParamsDistinct (ps : List ParamD) : Prop := ∀ p ∈ ps, ∀ q ∈ ps, p.name = q.name → p = q

private theorem leading_mem {ps : List ParamD} {x : String} (h : (leadingNames ps).contains x = true) :
    ∃ q ∈ ps, q.name = x ∧ isPositionalKind q.kind = true := by
  unfold leadingNames at h
  simp only [List.contains_iff_mem, List.mem_map] at h
  obtain ⟨q, hq, hqn⟩ := h
  have hq' := List.mem_of_mem_take hq
  unfold positionalParams at hq'
  have := List.mem_filter.mp hq'
  exact ⟨q, this.1, hqn, this.2⟩

private theorem kw_pos_is_posOrKw {k : ParamKind} (h1 : kwKind k = true) (h2 : isPositionalKind k = true) : k = .posOrKw := by
  cases k <;> simp_all [kwKind, isPositionalKind]

/-- **A signature accepted by the rule binds every call the executor can make.** -/
theorem compatible_calls_bind (args : List ArgD) (r : ResolverD) (hd : ParamsDistinct r.params)
    (hc : ResolverCompatible args r) (K : List String) (hK : Admissible args K) : bindOk r.params K = true := by
  obtain ⟨h1, h2, h3⟩ := hc
  unfold bindOk
  simp only [Bool.and_eq_true]
  refine ⟨⟨?_, ?_⟩, ?_⟩
  · rcases h1 with h | h
    · rw [h]; rfl
    · simp [h]
  · rw [List.all_eq_true]
    intro k hk
    obtain ⟨a, ha, hak⟩ := hK.1 k hk
    have ha2 := h2 a ha
    rw [hak] at ha2
    cases hf : r.params.find? (fun p => p.name == k && kwKind p.kind) with
    | some p =>
      have hpm : p ∈ r.params := List.mem_of_find?_eq_some hf
      have hpp := List.find?_some hf
      simp only [Bool.and_eq_true, beq_iff_eq] at hpp
      simp only
      cases hl : (leadingNames r.params).contains p.name with
      | false => rfl
      | true =>
        exfalso
        obtain ⟨q, hqm, hqn, hqk⟩ := leading_mem hl
        have hqp : q = p := hd q hqm p hpm hqn
        subst hqp
        have hpk : q.kind = .posOrKw := kw_pos_is_posOrKw hpp.2 hqk
        cases hkp : keywordParam r.params k with
        | some p2 =>
          unfold keywordParam at hkp
          have hp2m : p2 ∈ r.params := List.mem_of_find?_eq_some hkp
          have hp2 := List.find?_some hkp
          simp only [Bool.and_eq_true, beq_iff_eq, Bool.not_eq_true'] at hp2
          have : p2 = q := hd p2 hp2m q hpm (by rw [hp2.1.1, hpp.1])
          rw [this, hl] at hp2
          exact absurd hp2.2 (by simp)
        | none =>
          rw [hkp] at ha2
          simp only at ha2
          have hfp : ∃ cl, findParam r.params k = some cl ∧ cl = q := by
            unfold findParam
            cases hfq : r.params.find? (fun x => x.name == k) with
            | none =>
              have := List.find?_eq_none.mp hfq q hpm
              simp [hpp.1] at this
            | some cl =>
              have hclm : cl ∈ r.params := List.mem_of_find?_eq_some hfq
              have hcln : cl.name = k := by simpa using List.find?_some hfq
              exact ⟨cl, rfl, hd cl hclm q hpm (by rw [hcln, hpp.1])⟩
          obtain ⟨cl, hcl, hclq⟩ := hfp
          subst hclq
          exact ha2.2 cl hcl ⟨hl, hpk⟩
    | none =>
      simp only
      cases hkp : keywordParam r.params k with
      | some p2 =>
        exfalso
        unfold keywordParam at hkp
        have hp2m : p2 ∈ r.params := List.mem_of_find?_eq_some hkp
        have hp2 := List.find?_some hkp
        simp only [Bool.and_eq_true, beq_iff_eq] at hp2
        have := List.find?_eq_none.mp hf p2 hp2m
        simp [hp2.1.1, kwKind] at this
        have h22 := hp2.1.2
        simp only [Bool.or_eq_true, beq_iff_eq] at h22
        rcases h22 with e | e <;> simp [e] at this
      | none =>
        rw [hkp] at ha2
        exact ha2.1
  · rw [List.all_eq_true]
    intro p hp
    cases hv : isVarKind p.kind with
    | true => simp
    | false =>
      cases hl : (leadingNames r.params).contains p.name with
      | true => simp
      | false =>
        cases hprov : (providedNames r.params args).contains p.name with
        | false =>
          have : p ∈ unfedParams r.params args := by
            unfold unfedParams
            exact List.mem_filter.mpr ⟨hp, by rw [hv, hl, hprov]; rfl⟩
          simp [h3 p this]
        | true =>
          unfold providedNames at hprov
          simp only [List.contains_iff_mem, List.mem_filterMap] at hprov
          obtain ⟨a, ha, hmap⟩ := hprov
          cases hkp : keywordParam r.params a.pythonName with
          | none => rw [hkp] at hmap; simp at hmap
          | some p2 =>
            rw [hkp] at hmap
            simp only [Option.map_some, Option.some.injEq] at hmap
            have hkp' := hkp
            unfold keywordParam at hkp'
            have hp2m : p2 ∈ r.params := List.mem_of_find?_eq_some hkp'
            have hp2 := List.find?_some hkp'
            simp only [Bool.and_eq_true, beq_iff_eq] at hp2
            have hpe : p2 = p := hd p2 hp2m p hp hmap
            subst hpe
            have hkw : kwKind p2.kind = true := by simpa [kwKind] using hp2.1.2
            by_cases hin : a.pythonName ∈ K
            · have hc1 : K.contains p2.name = true := by
                apply List.contains_iff_mem.mpr
                rw [hp2.1.1]; exact hin
              rw [hc1, hkw]; simp
            · have hnot : ¬ (argRequired a = true ∨ a.hasDefault = true) := fun hh => hin (hK.2 a ha hh)
              have ha2 := h2 a ha
              rw [hkp] at ha2
              simp only at ha2
              rcases ha2 with e | e | e
              · simp [e]
              · exact absurd (Or.inr e) hnot
              · exact absurd (Or.inl e) hnot

/-! ### the converse: a signature that binds every admissible call is accepted by the rule -/

/-- python names of the arguments are pairwise distinct (they are the keys of ONE `**arguments` dict) -/
def ArgsDistinct (args : List ArgD) : Prop := ∀ a ∈ args, ∀ b ∈ args, a.pythonName = b.pythonName → a = b

/-- the smallest and the largest keyword set -/
def kMin (args : List ArgD) : List String := (args.filter fun a => argRequired a || a.hasDefault).map (·.pythonName)
def kMax (args : List ArgD) : List String := args.map (·.pythonName)

private theorem kMin_adm (args : List ArgD) : Admissible args (kMin args) := by
  constructor
  · intro k hk
    unfold kMin at hk
    obtain ⟨a, ha, e⟩ := List.mem_map.mp hk
    exact ⟨a, (List.mem_filter.mp ha).1, e⟩
  · intro a ha h
    unfold kMin
    exact List.mem_map.mpr ⟨a, List.mem_filter.mpr ⟨ha, by rcases h with h | h <;> simp [h]⟩, rfl⟩

private theorem kMax_adm (args : List ArgD) : Admissible args (kMax args) :=
  ⟨fun k hk => by obtain ⟨a, ha, e⟩ := List.mem_map.mp hk; exact ⟨a, ha, e⟩,
   fun a ha _ => List.mem_map.mpr ⟨a, ha, rfl⟩⟩

private theorem keywordParam_props {ps : List ParamD} {k : String} {p : ParamD} (h : keywordParam ps k = some p) :
    p ∈ ps ∧ p.name = k ∧ kwKind p.kind = true ∧ (leadingNames ps).contains p.name = false := by
  unfold keywordParam at h
  have hm := List.mem_of_find?_eq_some h
  have hp := List.find?_some h
  simp only [Bool.and_eq_true, beq_iff_eq, Bool.not_eq_true'] at hp
  exact ⟨hm, hp.1.1, by simpa [kwKind] using hp.1.2, hp.2⟩

private theorem keywordParam_none {ps : List ParamD} {k : String} (h : keywordParam ps k = none) (p : ParamD)
    (hp : p ∈ ps) (hn : p.name = k) (hk : kwKind p.kind = true) : (leadingNames ps).contains p.name = true := by
  unfold keywordParam at h
  have := List.find?_eq_none.mp h p hp
  cases hl : (leadingNames ps).contains p.name with
  | true => rfl
  | false =>
    exfalso; apply this
    have hk' : (p.kind == ParamKind.posOrKw || p.kind == ParamKind.kwOnly) = true := by simpa [kwKind] using hk
    rw [hk', hl, hn]; simp

/-- **Completeness of the rule w.r.t. the binding model**: if every call the executor can make binds, the rule
    accepts the signature. With `compatible_calls_bind`: the rule reports a resolver exactly when some admissible call
    would raise `TypeError` at binding time. -/
theorem binds_all_compatible (args : List ArgD) (r : ResolverD) (hd : ParamsDistinct r.params)
    (ha : ArgsDistinct args) (hb : ∀ K, Admissible args K → bindOk r.params K = true) : ResolverCompatible args r := by
  have bmax := hb _ (kMax_adm args)
  have bmin := hb _ (kMin_adm args)
  unfold bindOk at bmax bmin
  simp only [Bool.and_eq_true, List.all_eq_true] at bmax bmin
  obtain ⟨⟨m1, m2⟩, m3⟩ := bmax
  obtain ⟨⟨_, _⟩, n3⟩ := bmin
  refine ⟨?_, ?_, ?_⟩
  · simp only [Bool.or_eq_true, decide_eq_true_eq] at m1; exact m1
  · intro a ham
    have hk : a.pythonName ∈ kMax args := List.mem_map.mpr ⟨a, ham, rfl⟩
    have hm2 := m2 _ hk
    cases hkp : keywordParam r.params a.pythonName with
    | some p =>
      simp only
      obtain ⟨hpm, hpn, hpk, hpl⟩ := keywordParam_props hkp
      cases hda : a.hasDefault with
      | true => exact Or.inr (Or.inl rfl)
      | false =>
        cases hra : argRequired a with
        | true => exact Or.inr (Or.inr rfl)
        | false =>
          left
          have h3 := n3 p hpm
          have hv : isVarKind p.kind = false := by cases hh : p.kind <;> simp_all [kwKind, isVarKind]
          have hnot : (kMin args).contains p.name = false := by
            cases hc : (kMin args).contains p.name with
            | false => rfl
            | true =>
              exfalso
              unfold kMin at hc
              simp only [List.contains_iff_mem, List.mem_map, List.mem_filter] at hc
              obtain ⟨b, ⟨hbm, hbc⟩, hbn⟩ := hc
              have : b = a := ha b hbm a ham (by rw [hbn, hpn])
              subst this
              simp [hda, hra] at hbc
          rw [hv, hpl, hnot] at h3; simpa using h3
    | none =>
      simp only
      cases hf : r.params.find? (fun p => p.name == a.pythonName && kwKind p.kind) with
      | some p =>
        exfalso
        rw [hf] at hm2
        simp only [Bool.not_eq_true'] at hm2
        have hpm : p ∈ r.params := List.mem_of_find?_eq_some hf
        have hpp := List.find?_some hf
        simp only [Bool.and_eq_true, beq_iff_eq] at hpp
        have := keywordParam_none hkp p hpm hpp.1 hpp.2
        rw [this] at hm2; cases hm2
      | none =>
        rw [hf] at hm2
        refine ⟨hm2, ?_⟩
        intro cl hcl hbad
        unfold findParam at hcl
        have hclm : cl ∈ r.params := List.mem_of_find?_eq_some hcl
        have hcln : cl.name = a.pythonName := by simpa using List.find?_some hcl
        have := List.find?_eq_none.mp hf cl hclm
        simp [hcln, kwKind, hbad.2] at this
  · intro p hp
    unfold unfedParams at hp
    have hpf := List.mem_filter.mp hp
    simp only [Bool.and_eq_true, Bool.not_eq_true'] at hpf
    obtain ⟨hpm, ⟨hv, hl⟩, hprov⟩ := hpf
    have h3 := m3 p hpm
    have hnot : ((kMax args).contains p.name && kwKind p.kind) = false := by
      cases hc : ((kMax args).contains p.name && kwKind p.kind) with
      | false => rfl
      | true =>
        exfalso
        simp only [Bool.and_eq_true, List.contains_iff_mem] at hc
        unfold kMax at hc
        obtain ⟨a, ham, han⟩ := List.mem_map.mp hc.1
        have : (providedNames r.params args).contains p.name = true := by
          unfold providedNames
          simp only [List.contains_iff_mem, List.mem_filterMap]
          refine ⟨a, ham, ?_⟩
          cases hkp : keywordParam r.params a.pythonName with
          | none =>
            have := keywordParam_none hkp p hpm han.symm hc.2
            rw [hl] at this; cases this
          | some p2 =>
            obtain ⟨hp2m, hp2n, _, _⟩ := keywordParam_props hkp
            have : p2 = p := hd p2 hp2m p hpm (by rw [hp2n, han])
            rw [this]; rfl
        rw [hprov] at this; cases this
    rw [hv, hl, hnot] at h3; simpa using h3

/-- the two directions together -/
theorem compatible_iff_binds (args : List ArgD) (r : ResolverD) (hd : ParamsDistinct r.params) (ha : ArgsDistinct args) :
    ResolverCompatible args r ↔ ∀ K, Admissible args K → bindOk r.params K = true :=
  ⟨fun hc K hK => compatible_calls_bind args r hd hc K hK, binds_all_compatible args r hd ha⟩

/-! non-vacuity: `def f(root, ctx, /, info, a, *, b=None, **kw)` for arguments `a: Int!`, `b: Int`, `c: Int` -/
private def exParams : List ParamD :=
  [{ name := "root", kind := .posOnly }, { name := "ctx", kind := .posOnly }, { name := "info" }, { name := "a" },
   { name := "b", kind := .kwOnly, hasDefault := true }, { name := "kw", kind := .varKw }]
private def exArgs : List ArgD :=
  [{ name := "a", type := .nonNull (.named "Int") }, { name := "b", type := .named "Int" }, { name := "c", type := .named "Int" }]

example : ParamsDistinct exParams := by
  intro p hp q hq h
  simp [exParams] at hp hq
  rcases hp with rfl | rfl | rfl | rfl | rfl | rfl <;> rcases hq with rfl | rfl | rfl | rfl | rfl | rfl <;> simp_all
example : validateResolverArguments "Query.f" exArgs { params := exParams } = [] := by decide
example : bindOk exParams ["a"] = true ∧ bindOk exParams ["a", "b", "c"] = true ∧ bindOk exParams [] = false := by decide
/-- and a signature the rule rejects fails to bind some admissible call: the optional `b` without a parameter default -/
example : bindOk [{ name := "root" }, { name := "ctx" }, { name := "info" }, { name := "a" }, { name := "b" }] ["a"] = false := by
  decide

end PyGql.Props.C13

/-
  C06 - property theorems, part 23: invariance of the four VARIABLE rules (5.8.1, 5.8.3, 5.8.4, 5.8.5) under `Tr`
  (selection order, argument order, injective fragment renaming). Route: val2's rule theorems (Props/C06_vars.lean, code
  with the fixes of V3 / V4) + invariance of the clauses of `Spec/ValidSpecVars.lean`: variable definitions and
  operation keys are untouched by `Tr`, the usages of a definition are the same up to order, and the spread graph of
  the transformed document is the image of the spread graph.
-/
import PyGqlModel.Props.C06_inv4
namespace PyGql.Props.C06
open PyGql PyGql.Validate PyGql.Validate.Spec

/-! ### what `Tr` does to one definition -/

theorem opKey_tr (T : Tr) (x : Def) : (T.defn x).opKey? = x.opKey? := by cases x <;> rfl
theorem vars_tr (T : Tr) (x : Def) : (T.defn x).vars = x.vars.map T.varDef := by cases x <;> rfl
theorem varDef_names_tr (T : Tr) (vs : List VarDef) : (vs.map T.varDef).map (·.name) = vs.map (·.name) := by
  simp [List.map_map, Function.comp_def, Tr.varDef]
theorem vars_names_tr (T : Tr) (x : Def) : (T.defn x).vars.map (·.name) = x.vars.map (·.name) := by
  rw [vars_tr, varDef_names_tr]
theorem fragName_tr (T : Tr) (x : Def) : (T.defn x).fragName? = x.fragName?.map T.frag := by cases x <;> rfl

def argUses : Node → List String | .argument a => varsOfValue a.value | _ => []
def spreadNames : Node → List String | .spread f _ => [f] | _ => []

theorem defVarUses_eq (x : Def) : defVarUses x = (defNodes x).flatMap argUses := by
  unfold defVarUses; congr 1
theorem defSpreads_eq (x : Def) : defSpreads x = (defNodes x).flatMap spreadNames := by
  unfold defSpreads; congr 1

theorem argUses_tr (T : Tr) (n : Node) : argUses (T.node n) = argUses n := by cases n <;> rfl
theorem spreadNames_tr (T : Tr) (n : Node) : spreadNames (T.node n) = (spreadNames n).map T.frag := by cases n <;> rfl

theorem mem_defVarUses_tr (T : Tr) (df : Def) (x : String) : x ∈ defVarUses (T.defn df) ↔ x ∈ defVarUses df := by
  simp only [defVarUses_eq, List.mem_flatMap]
  constructor
  · rintro ⟨n, hn, hx⟩
    obtain ⟨m, hm, rfl⟩ := List.mem_map.mp ((defNodes_tr T df).mem_iff.mp hn)
    exact ⟨m, hm, by rwa [argUses_tr] at hx⟩
  · rintro ⟨m, hm, hx⟩
    exact ⟨T.node m, (defNodes_tr T df).mem_iff.mpr (List.mem_map_of_mem hm), by rwa [argUses_tr]⟩

theorem mem_defSpreads_tr (T : Tr) (df : Def) (g' : String) :
    g' ∈ defSpreads (T.defn df) ↔ ∃ g ∈ defSpreads df, g' = T.frag g := by
  simp only [defSpreads_eq, List.mem_flatMap]
  constructor
  · rintro ⟨n, hn, hx⟩
    obtain ⟨m, hm, rfl⟩ := List.mem_map.mp ((defNodes_tr T df).mem_iff.mp hn)
    rw [spreadNames_tr] at hx
    obtain ⟨g, hg, rfl⟩ := List.mem_map.mp hx
    exact ⟨g, ⟨m, hm, hg⟩, rfl⟩
  · rintro ⟨g, ⟨m, hm, hg⟩, rfl⟩
    exact ⟨T.node m, (defNodes_tr T df).mem_iff.mpr (List.mem_map_of_mem hm), by
      rw [spreadNames_tr]; exact List.mem_map_of_mem hg⟩

theorem nodeUsages_tr (T : Tr) (s : SchemaD) (q : Node × View) : nodeUsages s (T.node q.1, q.2) = nodeUsages s q := by
  obtain ⟨n, v⟩ := q
  cases n <;> rfl

theorem tnDef_tr (T : Tr) (s : SchemaD) (df : Def) : (tnDef s (T.defn df)).Perm ((tnDef s df).map (trP T)) := by
  rw [← gnDef_view, ← gnDef_view]
  exact gnDef_tr T (View.enter s) (view_enter_tr T s) df {}

theorem mem_defUsages_tr (T : Tr) (s : SchemaD) (df : Def) (p : String × Usage) :
    p ∈ defUsages s (T.defn df) ↔ p ∈ defUsages s df := by
  simp only [defUsages, List.mem_flatMap]
  constructor
  · rintro ⟨q, hq, hp⟩
    obtain ⟨m, hm, rfl⟩ := List.mem_map.mp ((tnDef_tr T s df).mem_iff.mp hq)
    exact ⟨m, hm, by rwa [trP, nodeUsages_tr] at hp⟩
  · rintro ⟨m, hm, hp⟩
    exact ⟨trP T m, (tnDef_tr T s df).mem_iff.mpr (List.mem_map_of_mem hm), by rwa [trP, nodeUsages_tr]⟩

/-! ### the relations of the clauses -/

section
variable (T : Tr) (d : Doc)

theorem mem_defs_tr (P : Def → Prop) : (∃ df ∈ (T.doc d).defs, P df) ↔ ∃ a ∈ d.defs, P (T.defn a) := by
  simp only [Tr.doc, List.mem_map]
  constructor
  · rintro ⟨_, ⟨a, ha, rfl⟩, h⟩; exact ⟨a, ha, h⟩
  · rintro ⟨a, ha, h⟩; exact ⟨_, ⟨a, ha, rfl⟩, h⟩

theorem definedIn_tr (o x : String) : DefinedIn (T.doc d) o x ↔ DefinedIn d o x := by
  unfold DefinedIn
  rw [mem_defs_tr]
  simp only [opKey_tr, vars_names_tr]

theorem usedDirectly_tr (o x : String) : UsedDirectly (T.doc d) o x ↔ UsedDirectly d o x := by
  unfold UsedDirectly
  rw [mem_defs_tr]
  simp only [opKey_tr, mem_defVarUses_tr]

theorem fragName_tr_some {x : Def} {f' : String} :
    (T.defn x).fragName? = some f' ↔ ∃ f, f' = T.frag f ∧ x.fragName? = some f := by
  rw [fragName_tr]
  cases x.fragName? with
  | none => simp
  | some g =>
    simp only [Option.map_some, Option.some.injEq]
    constructor
    · rintro rfl; exact ⟨g, rfl, rfl⟩
    · rintro ⟨f, rfl, rfl⟩; rfl

theorem fragUses_tr (f' x : String) : FragUses (T.doc d) f' x ↔ ∃ f, f' = T.frag f ∧ FragUses d f x := by
  unfold FragUses
  rw [mem_defs_tr]
  simp only [fragName_tr_some, mem_defVarUses_tr]
  constructor
  · rintro ⟨a, ha, ⟨f, e, hf⟩, hx⟩; exact ⟨f, e, a, ha, hf, hx⟩
  · rintro ⟨f, e, a, ha, hf, hx⟩; exact ⟨a, ha, ⟨f, e, hf⟩, hx⟩

theorem opSpreads_tr (o g' : String) : OpSpreads (T.doc d) o g' ↔ ∃ g, g' = T.frag g ∧ OpSpreads d o g := by
  unfold OpSpreads
  rw [mem_defs_tr]
  simp only [opKey_tr, mem_defSpreads_tr]
  constructor
  · rintro ⟨a, ha, ho, g, hg, e⟩; exact ⟨g, e, a, ha, ho, hg⟩
  · rintro ⟨g, e, a, ha, ho, hg⟩; exact ⟨a, ha, ho, g, hg, e⟩

theorem fragSpreads_tr (f' g' : String) :
    FragSpreads (T.doc d) f' g' ↔ ∃ f g, f' = T.frag f ∧ g' = T.frag g ∧ FragSpreads d f g := by
  unfold FragSpreads
  rw [mem_defs_tr]
  simp only [fragName_tr_some, mem_defSpreads_tr]
  constructor
  · rintro ⟨a, ha, ⟨f, e, hf⟩, g, hg, e'⟩; exact ⟨f, g, e, e', a, ha, hf, hg⟩
  · rintro ⟨f, g, e, e', a, ha, hf, hg⟩; exact ⟨a, ha, ⟨f, e, hf⟩, g, hg, e'⟩

variable (hinj : ∀ a b, T.frag a = T.frag b → a = b)
include hinj

omit hinj in
theorem fragReach_tr_of {f h : String} (hr : FragReach d f h) : FragReach (T.doc d) (T.frag f) (T.frag h) := by
  induction hr with
  | refl f => exact .refl _
  | step hs _ ih => exact .step ((fragSpreads_tr T d _ _).mpr ⟨_, _, rfl, rfl, hs⟩) ih

theorem fragReach_of_tr {f' h' : String} (hr : FragReach (T.doc d) f' h') :
    ∀ f, f' = T.frag f → ∃ h, h' = T.frag h ∧ FragReach d f h := by
  induction hr with
  | refl f' => intro f e; exact ⟨f, e, .refl f⟩
  | step hs _ ih =>
    intro f e
    obtain ⟨f0, g, e0, eg, hs'⟩ := (fragSpreads_tr T d _ _).mp hs
    have : f0 = f := hinj _ _ (e0.symm.trans e)
    subst this
    obtain ⟨h, eh, hr'⟩ := ih g eg
    exact ⟨h, eh, .step hs' hr'⟩

theorem opReaches_tr (o f' : String) : OpReaches (T.doc d) o f' ↔ ∃ f, f' = T.frag f ∧ OpReaches d o f := by
  unfold OpReaches
  constructor
  · rintro ⟨g', hg, hr⟩
    obtain ⟨g, rfl, hg'⟩ := (opSpreads_tr T d o g').mp hg
    obtain ⟨f, e, hr'⟩ := fragReach_of_tr T d hinj hr g rfl
    exact ⟨f, e, g, hg', hr'⟩
  · rintro ⟨f, rfl, g, hg, hr⟩
    exact ⟨T.frag g, (opSpreads_tr T d o _).mpr ⟨g, rfl, hg⟩, fragReach_tr_of T d hr⟩

theorem usedIn_tr (o x : String) : UsedIn (T.doc d) o x ↔ UsedIn d o x := by
  unfold UsedIn
  rw [usedDirectly_tr]
  refine or_congr Iff.rfl ?_
  constructor
  · rintro ⟨f', hr, hu⟩
    obtain ⟨f, rfl, hr'⟩ := (opReaches_tr T d hinj o f').mp hr
    obtain ⟨f2, e, hu'⟩ := (fragUses_tr T d _ x).mp hu
    rw [← hinj _ _ e] at hu'
    exact ⟨f, hr', hu'⟩
  · rintro ⟨f, hr, hu⟩
    exact ⟨T.frag f, (opReaches_tr T d hinj o _).mpr ⟨f, rfl, hr⟩, (fragUses_tr T d _ x).mpr ⟨f, rfl, hu⟩⟩

theorem usedAt_tr (s : SchemaD) (o x : String) (u : Usage) : UsedAt s (T.doc d) o x u ↔ UsedAt s d o x u := by
  unfold UsedAt
  rw [mem_defs_tr]
  simp only [opKey_tr, mem_defUsages_tr]
  refine or_congr Iff.rfl ?_
  constructor
  · rintro ⟨f', hr, hu⟩
    obtain ⟨f, rfl, hr'⟩ := (opReaches_tr T d hinj o f').mp hr
    obtain ⟨a, ha, hf, hx⟩ := (mem_defs_tr T d _).mp hu
    obtain ⟨f2, e, hf2⟩ := (fragName_tr_some T).mp hf
    rw [← hinj _ _ e] at hf2
    exact ⟨f, hr', a, ha, hf2, (mem_defUsages_tr T s a _).mp hx⟩
  · rintro ⟨f, hr, a, ha, hf, hx⟩
    refine ⟨T.frag f, (opReaches_tr T d hinj o _).mpr ⟨f, rfl, hr⟩, (mem_defs_tr T d _).mpr ⟨a, ha, ?_, ?_⟩⟩
    · exact (fragName_tr_some T).mpr ⟨f, rfl, hf⟩
    · exact (mem_defUsages_tr T s a _).mpr hx

omit hinj in
theorem varDefFor_tr (o x : String) : varDefFor (T.doc d) o x = (varDefFor d o x).map T.varDef := by
  unfold varDefFor
  have e : ((T.doc d).defs.flatMap fun df => if df.opKey? = some o then df.vars else []) =
      (d.defs.flatMap fun df => if df.opKey? = some o then df.vars else []).map T.varDef := by
    simp only [Tr.doc, List.flatMap_map, List.map_flatMap, opKey_tr, vars_tr]
    congr 1
    funext a
    split <;> rfl
  rw [e, ← List.map_reverse]
  generalize (d.defs.flatMap fun df => if df.opKey? = some o then df.vars else []).reverse = l
  induction l with
  | nil => rfl
  | cons a as ih =>
    simp only [List.map_cons, List.find?_cons]
    have : ((T.varDef a).name == x) = (a.name == x) := rfl
    rw [this]
    split
    · rfl
    · exact ih

omit hinj in
theorem usageAllowed_tr (s : SchemaD) (vd : VarDef) (u : Usage) : usageAllowed s (T.varDef vd) u ↔ usageAllowed s vd u :=
  Iff.rfl

end

/-! ### the clauses and the verdicts -/

theorem unique_variable_names_spec_tr (T : Tr) (d : Doc) : Spec.uniqueVariableNames (T.doc d) ↔ Spec.uniqueVariableNames d := by
  unfold Spec.uniqueVariableNames
  constructor
  · intro h x hx k n vs ds i ss e
    subst e
    have := h _ (List.mem_map_of_mem (f := T.defn) hx) k n (vs.map T.varDef) _ i _ rfl
    rwa [varDef_names_tr] at this
  · intro h x hx k n vs ds i ss e
    subst e
    obtain ⟨a, ha, e⟩ := List.mem_map.mp hx
    cases a with
    | op k' n' vs' ds' i' ss' =>
      simp only [Tr.defn, Def.op.injEq] at e
      obtain ⟨rfl, rfl, rfl, _, rfl, _⟩ := e
      rw [varDef_names_tr]
      exact h _ ha _ _ _ _ _ _ rfl
    | frag => simp [Tr.defn] at e
    | ts => simp [Tr.defn] at e

theorem no_undefined_variables_spec_tr (T : Tr) (hinj : ∀ a b, T.frag a = T.frag b → a = b) (d : Doc) :
    Spec.noUndefinedVariables (T.doc d) ↔ Spec.noUndefinedVariables d := by
  unfold Spec.noUndefinedVariables
  simp only [usedIn_tr T d hinj, definedIn_tr]

theorem no_unused_variables_spec_tr (T : Tr) (hinj : ∀ a b, T.frag a = T.frag b → a = b) (d : Doc) :
    Spec.noUnusedVariables (T.doc d) ↔ Spec.noUnusedVariables d := by
  unfold Spec.noUnusedVariables
  simp only [usedIn_tr T d hinj, definedIn_tr]

theorem variables_in_allowed_position_spec_tr (T : Tr) (hinj : ∀ a b, T.frag a = T.frag b → a = b) (s : SchemaD) (d : Doc) :
    Spec.variablesInAllowedPosition s (T.doc d) ↔ Spec.variablesInAllowedPosition s d := by
  unfold Spec.variablesInAllowedPosition
  simp only [usedAt_tr T d hinj, varDefFor_tr]
  constructor
  · intro h o x u vd hu hd
    exact (usageAllowed_tr T s vd u).mp (h o x u (T.varDef vd) hu (by rw [hd]; rfl))
  · intro h o x u vd' hu hd
    cases hvd : varDefFor d o x with
    | none => rw [hvd] at hd; simp at hd
    | some vd =>
      rw [hvd] at hd
      simp only [Option.map_some, Option.some.injEq] at hd
      subst hd
      exact (usageAllowed_tr T s vd u).mpr (h o x u vd hu hvd)

/-- the four variable rules -/
def ProvedTrVars : List Rule :=
  [.uniqueVariableNames, .noUndefinedVariables, .noUnusedVariables, .variablesInAllowedPosition]

/-- **perm_selections / perm_arguments / alpha_fragments for the four variable rules** (code with the fixes of V3 and
    V4, as the rule theorems) -/
theorem tr_invariance_variables (T : Tr) (hinj : ∀ a b, T.frag a = T.frag b → a = b) (s : SchemaD) (fx : Fixes)
    (h3 : fx.v3 = true) (h4 : fx.v4 = true) (d : Doc) (r : Rule) (hr : r ∈ ProvedTrVars) :
    Silent s fx r (T.doc d) ↔ Silent s fx r d := by
  simp only [ProvedTrVars, List.mem_cons, List.not_mem_nil, or_false] at hr
  rcases hr with rfl | rfl | rfl | rfl
  · rw [rule_unique_variable_names_iff, rule_unique_variable_names_iff]
    exact unique_variable_names_spec_tr T d
  · rw [rule_no_undefined_variables_iff s fx h4, rule_no_undefined_variables_iff s fx h4]
    exact no_undefined_variables_spec_tr T hinj d
  · rw [rule_no_unused_variables_iff s fx h4, rule_no_unused_variables_iff s fx h4]
    exact no_unused_variables_spec_tr T hinj d
  · rw [rule_variables_in_allowed_position_iff s fx h3 h4, rule_variables_in_allowed_position_iff s fx h3 h4]
    exact variables_in_allowed_position_spec_tr T hinj s d

/-! ### all rules for which invariance under `Tr` is proved: 25 of 26 (missing: OverlappingFieldsCanBeMerged) -/

def ProvedTrAll : List Rule := ProvedTr ++ [.possibleFragmentSpreads, .noFragmentCycles] ++ ProvedTrVars

example : ProvedTrAll.length = 25 := by decide
example : ∀ r ∈ Rule.all, r ∈ ProvedTrAll ∨ r = .overlappingFieldsCanBeMerged := by decide

/-- the statement for the whole chain (kept visible; the case of OverlappingFieldsCanBeMerged is not proved) -/
def FullStatement_tr_invariance_all (T : Tr) (s : SchemaD) (fx : Fixes) (d : Doc) : Prop :=
  ∀ r ∈ Rule.all, (Silent s fx r (T.doc d) ↔ Silent s fx r d)

/-- **perm_selections / perm_arguments / alpha_fragments for 24 rules** (the 25 of `ProvedTrAll` without
    SingleFieldSubscriptions, whose clause - the collected response keys, C06-H6 - is shown invariant in
    Props/C06_inv10.lean: `tr_invariance_single_field_subscriptions`, `tr_invariance_25_partial`): code of /repo HEAD, documents with unique
    fragment names that are non-empty before and after the renaming (needed by NoFragmentCycles only) [ALONE-RUN statement, rule by rule: each rule visitor in a chain of its own; for the verdict of the chain `validate_ast` runs see `Props/C06_chain.lean: chainM_six_transformations`.] -/
theorem tr_invariance_all25_partial (T : Tr) (hinj : ∀ a b, T.frag a = T.frag b → a = b) (s : SchemaD) (fx : Fixes)
    (hfx : HeadVars fx) (d : Doc) (hnd : Spec.uniqueFragmentNames d) (hne : NamesNonEmpty d)
    (hne' : NamesNonEmpty (T.doc d)) (r : Rule) (hr : r ∈ ProvedTrAll) (hns : r ≠ .singleFieldSubscriptions) :
    Silent s fx r (T.doc d) ↔ Silent s fx r d := by
  simp only [ProvedTrAll, List.mem_append, List.mem_cons, List.not_mem_nil, or_false] at hr
  rcases hr with (hr | rfl | rfl) | hr
  · exact tr_invariance_all_partial T hinj s fx d r hr hns
  · exact tr_invariance_possible_fragment_spreads T hinj s fx d
  · exact tr_invariance_no_fragment_cycles T hinj s fx hfx.2.2.1 d hnd hne hne'
  · exact tr_invariance_variables T hinj s fx hfx.1 hfx.2.1 d r hr

/-! ### reordering of definitions, three of the variable rules (5.8.5 reads the LAST definition of a variable of an
    operation key, `varDefFor`: with duplicate operation names or variable names it depends on the order - not done) -/

section
variable {d d' : Doc} (h : d.defs.Perm d'.defs)
include h

theorem mem_defs_perm (P : Def → Prop) : (∃ df ∈ d.defs, P df) ↔ ∃ df ∈ d'.defs, P df :=
  ⟨fun ⟨a, ha, hp⟩ => ⟨a, h.mem_iff.mp ha, hp⟩, fun ⟨a, ha, hp⟩ => ⟨a, h.mem_iff.mpr ha, hp⟩⟩

theorem fragReach_perm {f g : String} (hr : FragReach d f g) : FragReach d' f g := by
  induction hr with
  | refl f => exact .refl f
  | step hs _ ih => exact .step ((mem_defs_perm h _).mp hs) ih

theorem usedIn_perm (h2 : d'.defs.Perm d.defs) (o x : String) : UsedIn d o x ↔ UsedIn d' o x := by
  unfold UsedIn UsedDirectly OpReaches OpSpreads FragUses
  refine or_congr (mem_defs_perm h _) ?_
  constructor
  · rintro ⟨f, ⟨g, hg, hr⟩, hu⟩
    exact ⟨f, ⟨g, (mem_defs_perm h _).mp hg, fragReach_perm h hr⟩, (mem_defs_perm h _).mp hu⟩
  · rintro ⟨f, ⟨g, hg, hr⟩, hu⟩
    exact ⟨f, ⟨g, (mem_defs_perm h _).mpr hg, fragReach_perm h2 hr⟩, (mem_defs_perm h _).mpr hu⟩

end

/-- **perm_definitions for UniqueVariableNames, NoUndefinedVariables, NoUnusedVariables** (fix V4) -/
theorem perm_definitions_variables_partial (s : SchemaD) (fx : Fixes) (h4 : fx.v4 = true) {d d' : Doc}
    (h : d.defs.Perm d'.defs) (r : Rule)
    (hr : r ∈ [Rule.uniqueVariableNames, Rule.noUndefinedVariables, Rule.noUnusedVariables]) :
    Silent s fx r d ↔ Silent s fx r d' := by
  simp only [List.mem_cons, List.not_mem_nil, or_false] at hr
  have hdef : ∀ o x, DefinedIn d o x ↔ DefinedIn d' o x := fun o x => mem_defs_perm h _
  rcases hr with rfl | rfl | rfl
  · rw [rule_unique_variable_names_iff, rule_unique_variable_names_iff]
    unfold Spec.uniqueVariableNames
    exact ⟨fun H x hx => H x (h.mem_iff.mpr hx), fun H x hx => H x (h.mem_iff.mp hx)⟩
  · rw [rule_no_undefined_variables_iff s fx h4, rule_no_undefined_variables_iff s fx h4]
    unfold Spec.noUndefinedVariables
    simp only [usedIn_perm h h.symm, hdef]
  · rw [rule_no_unused_variables_iff s fx h4, rule_no_unused_variables_iff s fx h4]
    unfold Spec.noUnusedVariables
    simp only [usedIn_perm h h.symm, hdef]

end PyGql.Props.C06

/-
  C07 — non-vacuity: a concrete registry with an enum (internal values ≠ names) and a RECURSIVE input object
  with defaults and python names satisfies `RegOK`; the hypotheses of the theorems are inhabited; the model
  computes the expected values on it (kernel evaluation, no fuel tricks).
-/
import PyGqlModel.Props.C07_args
import PyGqlModel.Props.C07_rejects
import PyGqlModel.Props.C07_equiv
import PyGqlModel.Props.C07_bridge
import PyGqlModel.Props.C07_fuel

namespace PyGql.Props.C07.Examples
open PyGql PyGql.Coerce

def recFields : List InField :=
  [ { name := "v", pyName := "val", type := .named "Int", default := some (.int 1) },
    { name := "e", pyName := "enum_val", type := .nonNull (.named "E"), default := some (.int 10) },
    { name := "next", pyName := "next", type := .named "Rec", default := none },
    { name := "kids", pyName := "children", type := .list (.nonNull (.named "Rec")), default := none } ]

def reg : Reg :=
  Reg.ofTypes [("Int", .int), ("String", .string), ("Boolean", .boolean),
               ("E", .enum [("A", .int 10), ("B", .str "bee")]),
               ("Rec", .input recFields)]

private theorem get_input {n : String} {fs : List InField} (h : reg.get? n = some (.input fs)) : fs = recFields := by
  unfold Reg.get? at h
  split at h
  · rename_i p hp
    have hm := List.mem_of_find?_eq_some hp
    simp [reg, Reg.ofTypes] at hm
    rcases hm with rfl | rfl | rfl | rfl | rfl <;> simp at h
    exact h.symm
  · cases h

private theorem get_enum {n : String} {vs : List (String × PV)} (h : reg.get? n = some (.enum vs)) :
    vs = [("A", .int 10), ("B", .str "bee")] := by
  unfold Reg.get? at h
  split at h
  · rename_i p hp
    have hm := List.mem_of_find?_eq_some hp
    simp [reg, Reg.ofTypes] at hm
    rcases hm with rfl | rfl | rfl | rfl | rfl <;> simp at h
    exact h.symm
  · cases h

/-- the registry is well-formed -/
private theorem no_custom {n : String} (h : reg.get? n = some .custom) : False := by
  unfold Reg.get? at h
  split at h
  · rename_i p hp
    have hm := List.mem_of_find?_eq_some hp
    simp [reg, Reg.ofTypes] at hm
    rcases hm with rfl | rfl | rfl | rfl | rfl <;> simp at h
  · cases h

theorem regOK : RegOK reg := by
  refine ⟨?_, ?_, ?_, ?_, fun n pv h _ => (no_custom h).elim⟩
  · intro n fs h f hf
    cases get_input h
    simp [recFields] at hf
    rcases hf with rfl | rfl | rfl | rfl <;> rfl
  · intro n fs h f hf d hd
    cases get_input h
    simp [recFields] at hf
    rcases hf with rfl | rfl | rfl | rfl <;> simp at hd <;> subst hd
    · exact .int rfl (by decide)
    · exact .nonNull rfl (Conforms.enum (vs := [("A", .int 10), ("B", .str "bee")]) (p := ("A", .int 10)) rfl (by simp))
  · intro n vs h p hp
    cases get_enum h
    simp at hp
    rcases hp with rfl | rfl <;> rfl
  · intro n fs h
    cases get_input h
    decide

def reg2 : Reg := Reg.ofTypes [("Int", .int), ("Float", .float)]

/-- through a variable: nested recursive object, defaults filled (fix A2), enum name → internal value,
    single value wrapped into the list, python names as keys -/
example :
    coerceValue reg 10 (.named "Rec")
      (.obj [("e", .str "B"), ("kids", .obj [("v", .int 2147483647)])]) =
    .ok (.dict [("val", .int 1), ("enum_val", .str "bee"),
                ("children", .list [.dict [("val", .int 2147483647), ("enum_val", .int 10)]])]) := by rfl

/-- the same value written inline gives the same result (an instance of `literal_variable_equiv`) -/
example :
    (valueFromAst reg none 10 (.named "Rec")
      (.obj [("e", .enum "B"), ("kids", .obj [("v", .int 2147483647)])])).toOption =
    (coerceValue reg 10 (.named "Rec")
      (.obj [("e", .str "B"), ("kids", .obj [("v", .int 2147483647)])])).toOption :=
  literal_variable_equiv reg (fun n _ _ _ h _ => (no_custom h).elim) none 10 _ _ _
    (.obj (fs := recFields) rfl
      (.cons (fun f hf hn => by
          simp [recFields] at hf
          rcases hf with rfl | rfl | rfl | rfl <;> simp at hn
          exact .nonNull rfl (.enum (vs := [("A", .int 10), ("B", .str "bee")]) rfl))
        (.cons (fun f hf hn => by
            simp [recFields] at hf
            rcases hf with rfl | rfl | rfl | rfl <;> simp at hn
            exact .single (by intro js h; cases h)
              (.nonNull rfl (.obj (fs := recFields) rfl
                (.cons (fun f hf hn => by
                    simp [recFields] at hf
                    rcases hf with rfl | rfl | rfl | rfl <;> simp at hn
                    exact .intInt rfl) .nil))))
          .nil)))

/-- `VarsFit` is inhabited by a literal with a variable nested in a list inside an object -/
example : VarsFit reg (some [("v", .dict [("val", .int 1), ("enum_val", .int 10)])]) (.named "Rec")
    (.obj [("kids", .list [.var "v"])]) :=
  .obj (n := "Rec") (fs := recFields) rfl rfl (fun f hf l hl => by
    simp [recFields] at hf
    rcases hf with rfl | rfl | rfl | rfl <;> simp [lookupLast] at hl
    subst hl
    refine .listItems (t' := .nonNull (.named "Rec")) rfl (fun i hi => ?_)
    simp at hi; subst hi
    refine .var (fun vs v hvs hv _ => ?_)
    cases hvs
    simp [lookupLast] at hv; subst hv
    exact .input (fs := recFields) rfl
      (.present (.int rfl (by decide))
        (.present (.nonNull rfl (Conforms.enum (vs := [("A", .int 10), ("B", .str "bee")]) (p := ("A", .int 10)) rfl (by simp)))
          (.absent rfl rfl (.absent rfl rfl .nil)))))

/-- the boundaries are accepted, their neighbours are not (fix A1; `int_full_range` instantiated) -/
example : coerceValue reg 1 (.named "Int") (.int (-2147483648)) = .ok (.int (-2147483648)) := by rfl
example : coerceValue reg 1 (.named "Int") (.int 2147483648) = .error .coercion := by rfl
example : valueFromAst reg none 1 (.named "Int") (.int 2147483647) = .ok (.int 2147483647) := by rfl

/-- fix A3: `query($o: Int = 1) { f(x: $o) }` with `{"o": null}` at `x: Int!` is an error, not `x=None` -/
example : coerceArgumentValues reg 5 [("o", .none)] [("x", .var "o")]
    [{ name := "x", pyName := "x", type := .nonNull (.named "Int"), default := none }] = .error .coercion := by rfl

/-- fix A4 / A5: structurally wrong JSON for Boolean, unknown field in a literal -/
example : coerceValue reg 3 (.named "Boolean") (.list [.int 1]) = .error .coercion := by rfl
example : valueFromAst reg none 3 (.nonNull (.named "Rec")) (.obj [("zzz", .int 1)]) = .error .coercion := by rfl

/-- fix X2: non-finite floats are refused at Float on both routes; a finite one passes; `int(inf)` escapes from coerce_int -/
example : coerceValue reg2 1 (.named "Float") (.float "inf") = .error .coercion := by rfl
example : coerceValue reg2 1 (.named "Float") (.str "nan") = .error .coercion := by rfl
example : valueFromAst reg2 none 1 (.named "Float") (.float "1e999") = .error .coercion := by rfl
example : coerceValue reg2 1 (.named "Float") (.float "1.5") = .ok (.float (.text "1.5")) := by rfl
example : coerceValue reg2 1 (.named "Int") (.float "inf") = .error .coercion := by rfl
/-- a collected CoercionError does not hide a later escaping exception (`_coerce_list_value` goes on): here the recursion budget -/
example : coerceValue reg 2 (.list (.named "Rec")) (.list [.str "x", .obj [("next", .obj [])]]) = .error .fuel := by rfl
/-- fix A7: for a VARIABLE, "nested too deeply" is an invalid value, not an escaping RecursionError -/
example : coerceVariable reg 1 [("v", .obj [("next", .obj [])])] { name := "v", type := .named "Rec", default := none } = .error .coercion := by rfl

/-! #### the two side conditions are needed, and what the code does without them -/

/-- python names that collide: both fields write the same key — the later value wins at the earlier position, and no
    dict can hold both fields (this is why `RegOK.pyNamesDistinct` is a hypothesis; the model follows the collision). -/
def regClash : Reg :=
  Reg.ofTypes [("Int", .int),
               ("C", .input [ { name := "a", pyName := "k", type := .named "Int", default := none },
                              { name := "b", pyName := "k", type := .named "Int", default := none } ])]
example : coerceValue regClash 3 (.named "C") (.obj [("a", .int 1), ("b", .int 2)]) = .ok (.dict [("k", .int 2)]) := by rfl
example : dictOfAssignments [("x", .int 1), ("y", .int 2), ("x", .int 3)] = [("x", .int 3), ("y", .int 2)] := by rfl

/-- an enum whose internal value is `None` (the suite has one: `EnumValue("NULL", None)`) puts `None` at a non-null
    position — accepted by the code, not conforming: `RegOK.enumNotNone` cannot be dropped from `variable_sound`. -/
def regNoneEnum : Reg := Reg.ofTypes [("E", .enum [("NULL", .none)])]
example : coerceValue regNoneEnum 2 (.nonNull (.named "E")) (.str "NULL") = .ok .none := by rfl
example : ¬ Conforms regNoneEnum (.nonNull (.named "E")) .none := by
  intro h
  cases h with
  | null h0 => simp [Ty.isNonNull] at h0
  | nonNull hn _ => simp [PV.isNone] at hn

/-! #### custom scalars: the parser is a parameter -/

/-- a custom scalar `Even` whose own parser accepts even integers (and hands the resolver the half), refuses everything
    else, and whose `parse_literal` does the same on `IntValue`s -/
def evenParse (_ : String) (v : JV) : ParseOut :=
  match v with
  | .int k => if k % 2 == 0 then .value (.int (k / 2)) else .refused
  | _ => .refused
def evenParseLiteral (_ : String) (_ : List (String × PV)) (l : Lit) : ParseOut :=
  match l with
  | .int k => if k % 2 == 0 then .value (.int (k / 2)) else .refused
  | _ => .refused
def regEven : Reg := { types := [("Even", .custom)], customParse := evenParse, customParseLiteral := evenParseLiteral,
                       customHasParseLiteral := fun _ => true }

example : coerceValue regEven 2 (.list (.nonNull (.named "Even"))) (.list [.int 10, .int 4]) = .ok (.list [.int 5, .int 2]) := by rfl
example : coerceValue regEven 2 (.named "Even") (.int 7) = .error .coercion := by rfl
/-- the value handed on is one the scalar's own parser accepted: that is all `Conforms` says about a custom scalar -/
example : Conforms regEven (.named "Even") (.int 5) := .custom rfl (.inl ⟨.int 10, rfl, rfl⟩)
/-- this scalar's two parsers agree, so literal/variable equivalence holds for it … -/
example : CustomAgree regEven := by
  intro n vs j l _ hs
  cases hs <;> simp [regEven, evenParse, evenParseLiteral]
/-- … whereas `default_scalar` does not meet `CustomAgree` on numbers: `5` inline is the text "5", through a variable the int 5 -/
example : ¬ CustomAgree (Reg.ofTypes [("Any", .custom)]) := by
  intro h
  have := h "Any" [] (.int 5) (.int 5) rfl .int
  simp [Reg.ofTypes, defaultScalarParse, defaultScalarParseLiteral, untypedLiteral, ParseOut.toR, Except.toOption, pvOfJson, jvAllFinite] at this
/-- `customNotNone` cannot be dropped: a parser answering None puts None at a non-null position -/
def regNoneScalar : Reg := { types := [("S", .custom)], customParse := fun _ _ => .value .none, customParseLiteral := fun _ _ _ => .refused,
                             customHasParseLiteral := fun _ => false }
example : coerceValue regNoneScalar 2 (.nonNull (.named "S")) (.int 1) = .ok .none := by rfl

/-- the stand-in scalar of `build_schema` converts a structured literal transparently (`_untyped_literal`): numbers keep their
    source text, an enum value its name; the same JSON through a variable keeps its numbers — so inline ≠ variable for it
    whenever a number occurs (`¬ CustomAgree` above), equal otherwise -/
def regAny : Reg := Reg.ofTypes [("Any", .custom)]
example : valueFromAst regAny none 2 (.named "Any") (.list [.int 1, .str "a", .enum "RED", .null, .obj [("k", .float "1.5"), ("k", .bool true)]]) =
    .ok (.list [.str "1", .str "a", .str "RED", .none, .dict [("k", .bool true)]]) := by rfl
example : coerceValue regAny 2 (.named "Any") (.list [.int 1, .str "a"]) = .ok (.list [.int 1, .str "a"]) := by rfl
/-- fix C06-H7: a variable inside a structured literal at the stand-in scalar stands for its value, and for None when it has none
    (a missing variable is NOT an omitted key / item here: the stand-in scalar has no fields to default - compare known finding A9) -/
example : valueFromAst regAny (some [("v", .int 3)]) 2 (.named "Any") (.obj [("a", .var "v"), ("b", .list [.var "w"])]) =
    .ok (.dict [("a", .int 3), ("b", .list [.none])]) := by rfl
/-- a custom scalar WITHOUT its own parse_literal stays restricted to scalar literals -/
example : valueFromAst { regAny with customHasParseLiteral := fun _ => false } none 2 (.named "Any") (.list [.int 1]) = .error .coercion := by rfl

/-- argument definitions satisfying `ArgsOK` -/
example : ArgsOK reg [ { name := "x", pyName := "x_py", type := .nonNull (.named "Int"), default := some (.int 3) },
                       { name := "r", pyName := "r", type := .named "Rec", default := none } ] :=
  ⟨by intro d hd; simp at hd; rcases hd with rfl | rfl <;> rfl,
   by
    intro d hd v hv
    simp at hd
    rcases hd with rfl | rfl <;> simp at hv
    subst hv
    exact .nonNull rfl (.int rfl (by decide)),
   by decide⟩

/-- the validator's condition is inhabited: `$v: Int = 1` may be used at `x: Int!` (A3's situation), `$v: [Int]` may not be used at `[Int!]` -/
example : allowedUsage (.named "Int") true (.nonNull (.named "Int")) false = true := by rfl
example : allowedUsage (.list (.named "Int")) false (.list (.nonNull (.named "Int"))) false = false := by rfl
example : VarsAllowed reg [{ name := "v", type := .named "Int", default := some (.int 1) }] (.nonNull (.named "Int")) false (.var "v") :=
  .var (fun d hd hn => by simp at hd; subst hd; rfl)

/-- the fuel bound on a concrete recursive value, and "out of fuel" below it -/
example : fuelFor reg (.named "Rec") 3 = 1 + (3 + 1) * 3 := by rfl
example : coerceValue reg 1 (.named "Rec") (.obj [("next", .obj [])]) = .error .fuel := by rfl

/-- the trace of `query($o: Int = 1) { a: f(x: $o) b: f }` with `{"o": null}`, `f(x: Int!)` / `f(x: Int = 7)`:
    the first selection yields a field error and NO call, its sibling still runs -/
example : executeOp reg 5 [{ name := "o", type := .named "Int", default := some (.int 1) }] [("o", .null)]
    [ { key := "a", defs := [{ name := "x", pyName := "x", type := .nonNull (.named "Int"), default := none }], args := [("x", .var "o")] },
      { key := "b", defs := [{ name := "x", pyName := "x_py", type := .named "Int", default := some (.int 7) }], args := [] } ]
    = [.fieldError "a", .call "b" [("x_py", .int 7)]] := by rfl

/-- why A1 was a defect: the strict comparison that today's source uses refuses both boundaries -/
example : ¬ (∀ n : Int, (decide (Generated.Scalars.MIN_INT < n) && decide (n < Generated.Scalars.MAX_INT)) = true ↔ InRange32 n) := by
  intro h
  have := (h 2147483647).2 (by decide)
  revert this; decide

end PyGql.Props.C07.Examples

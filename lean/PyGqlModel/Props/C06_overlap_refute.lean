/-
  C06 - the statement `OverlapFullStatement` of `Props/C06_overlap.lean` (the equivalence WITHOUT the side conditions
  of `OverlapSide`) is FALSE on the model's document type: the code never compares a fragment named "" with another
  fragment (`if not f1 or not f2 or f1 == f2: return`), so
  `{ ...A ..."" } fragment A on Query { x: a } fragment "" on Query { x: b }` is accepted although the two fragments
  conflict. No PARSED document has a fragment named "" - this is a statement about the model's `Doc`, and the reason
  why `noEmptyName` is a side condition of the theorem that is proved.
-/
import PyGqlModel.Props.C06_overlap_examples
namespace PyGql.Props.C06
open PyGql PyGql.Validate PyGql.Validate.Spec

/-- `{ ...A ..."" } fragment A on Query { x: a } fragment "" on Query { x: n }` -/
def oDocEmpty (n : String) : Doc :=
  ⟨[opV [] 1 [sp "A", sp ""], fragQ "A" 2 [fld (some "x") "a"], fragQ "" 3 [fld (some "x") n]]⟩

private theorem emp_table (n : String) :
    fragTable (oDocEmpty n) = [("A", ("Query", 2, [fld (some "x") "a"])), ("", ("Query", 3, [fld (some "x") n]))] := by
  simp [fragTable, oDocEmpty, fragDefs, opV, fragQ, AL.set, AL.has]

private theorem emp_get (n : String) (g : String) (v : String × Nat × List Sel)
    (h : AL.get? (fragTable (oDocEmpty n)) g = some v) :
    (g = "A" ∧ v = ("Query", 2, [fld (some "x") "a"])) ∨ (g = "" ∧ v = ("Query", 3, [fld (some "x") n])) := by
  rw [emp_table, AL.get?_cons, AL.get?_cons, AL.get?_nil] at h
  by_cases h1 : "A" = g
  · rw [if_pos h1] at h; cases h; exact Or.inl ⟨h1.symm, rfl⟩
  · rw [if_neg h1] at h
    by_cases h2 : "" = g
    · rw [if_pos h2] at h; cases h; exact Or.inr ⟨h2.symm, rfl⟩
    · rw [if_neg h2] at h; cases h

private theorem emp_selSet (n : String) (i : Nat) (sels : List Sel) (h : SelSet (oDocEmpty n) i sels) :
    (i = 1 ∧ sels = [sp "A", sp ""]) ∨ (i = 2 ∧ sels = [fld (some "x") "a"]) ∨ (i = 3 ∧ sels = [fld (some "x") n]) := by
  simp [SelSet, nodes, oDocEmpty, opV, fragQ, sp, fld, defNodes, selsNodes, selNodes, argsNodes, dirsNodes] at h
  rcases h with h | h | h
  · exact Or.inl h
  · exact Or.inr (Or.inl h)
  · exact Or.inr (Or.inr h)

private theorem emp_noSub (n : String) (e : FEntry) (he : Ent oSchema (oDocEmpty n) e) : e.hasSub = false := by
  obtain ⟨i, sels, p, rn, hs, _, hc⟩ := he
  rcases emp_selSet n i sels hs with ⟨_, rfl⟩ | ⟨_, rfl⟩ | ⟨_, rfl⟩
  · cases hc with
    | field hm => simp [sp] at hm
    | inline hm _ => simp [sp] at hm
  · cases hc with
    | field hm => simp only [fld, List.mem_singleton, Sel.field.injEq] at hm; obtain ⟨_, _, _, _, rfl, _⟩ := hm; rfl
    | inline hm _ => simp [fld] at hm
  · cases hc with
    | field hm => simp only [fld, List.mem_singleton, Sel.field.injEq] at hm; obtain ⟨_, _, _, _, rfl, _⟩ := hm; rfl
    | inline hm _ => simp [fld] at hm

theorem parentsAgree_empty (n : String) : Spec.ParentsAgree oSchema (oDocEmpty n) := by
  have key : ∀ i p, Adm oSchema (oDocEmpty n) i p → p = some "Query" := by
    intro i p h
    induction h with
    | walk hm =>
      simp only [typedNodes, oDocEmpty, opV, fragQ, sp, fld, tnDef, tnSels, tnSel, tnDirs, withView, argsNodes,
        List.flatMap_cons, List.flatMap_nil, List.map_nil, List.append_nil, List.nil_append, Bool.false_eq_true,
        ↓reduceIte, List.mem_cons, Prod.mk.injEq, reduceCtorEq, false_and, false_or, List.not_mem_nil, or_false,
        List.mem_append, List.cons_append] at hm
      rcases hm with ⟨_, rfl⟩ | ⟨_, rfl⟩ | ⟨_, rfl⟩
      · show compositeBase oSchema ((rootType oSchema "query").map Ty.named) = some "Query"; decide
      · show compositeBase oSchema (TI.outOnly oSchema (typeFromAst oSchema (.named "Query"))) = some "Query"; decide
      · show compositeBase oSchema (TI.outOnly oSchema (typeFromAst oSchema (.named "Query"))) = some "Query"; decide
    | frag hg =>
      rcases emp_get n _ _ hg with ⟨_, hv⟩ | ⟨_, hv⟩ <;> (cases hv; decide)
    | sub _ hs hc hsub _ =>
      rw [emp_noSub n _ ⟨_, _, _, _, hs, ‹_›, hc⟩] at hsub; cases hsub
  intro i p q hp hq
  rw [key i p hp, key i q hq]

/-- **`OverlapFullStatement` is false** (witness: a fragment named "") -/
theorem overlap_full_statement_refuted : ¬ OverlapFullStatement := by
  intro h
  have hiff := h oSchema Fixes.all (oDocEmpty "b") rfl (by unfold NoCrash; decide +kernel) (parentsAgree_empty "b")
  have hcl := hiff.mp (by unfold Silent; decide +kernel)
  have hsel : SelSet (oDocEmpty "b") 1 [sp "A", sp ""] := by
    simp [SelSet, nodes, oDocEmpty, opV, fragQ, sp, fld, defNodes, selsNodes, selNodes, argsNodes, dirsNodes]
  have hwalk : Adm oSchema (oDocEmpty "b") 1 (some "Query") := by
    have hm : (Node.selectionSet 1 [sp "A", sp ""],
        View.enter oSchema (.selectionSet 1 [sp "A", sp ""]) (View.enter oSchema (.operation "query" none [] [] [sp "A", sp ""]) {}))
        ∈ typedNodes oSchema (oDocEmpty "b") := by
      simp [typedNodes, oDocEmpty, opV, tnDef]
    have := Adm.walk hm
    have e : (View.enter oSchema (.selectionSet 1 [sp "A", sp ""])
        (View.enter oSchema (.operation "query" none [] [] [sp "A", sp ""]) {})).parent = some "Query" := by
      show compositeBase oSchema ((rootType oSchema "query").map Ty.named) = some "Query"; decide
    rwa [e] at this
  have tA : AL.get? (fragTable (oDocEmpty "b")) "A" = some ("Query", 2, [fld (some "x") "a"]) := by
    rw [emp_table]; simp [AL.get?_cons]
  have tE : AL.get? (fragTable (oDocEmpty "b")) "" = some ("Query", 3, [fld (some "x") "b"]) := by
    rw [emp_table]; simp [AL.get?_cons]
  have c1 : Coll oSchema (oDocEmpty "b") (some "Query") [sp "A", sp ""] "x"
      { parent := fragParent oSchema "Query", name := "a", args := [], hasSub := false, ssid := 0, sub := [],
        fdef := (fragParent oSchema "Query").bind fun p => fieldOf oSchema p "a" } :=
    Or.inr ⟨"A", .spread (dirs := []) (by simp [sp]), .here tA (.frag tA) (.field (alias := some "x") (dirs := []) (by simp [fld]))⟩
  have c2 : Coll oSchema (oDocEmpty "b") (some "Query") [sp "A", sp ""] "x"
      { parent := fragParent oSchema "Query", name := "b", args := [], hasSub := false, ssid := 0, sub := [],
        fdef := (fragParent oSchema "Query").bind fun p => fieldOf oSchema p "b" } :=
    Or.inr ⟨"", .spread (dirs := []) (by simp [sp]), .here tE (.frag tE) (.field (alias := some "x") (dirs := []) (by simp [fld]))⟩
  exact hcl 1 _ hsel _ hwalk "x" _ _ c1 c2 (.args (by decide) (Or.inl (by decide)))

end PyGql.Props.C06
